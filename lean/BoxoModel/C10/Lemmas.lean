import BoxoModel.C08.Lemmas
import BoxoModel.C10.Model
import BoxoModel.C10.Spec
/-! Helper lemmas for C10.  Tree layer: effect of modifyDag / dagTruncate / appendData on `content`, sizes and
shape.  Control layer: the abstraction to a byte-array file and the per-operation refinement steps. -/
set_option linter.unusedSimpArgs false
set_option linter.unusedVariables false
namespace C10
open FileTree C07 C08

/-! ### overwrite on byte lists (recursive characterisation, `ow` / `owRest` are in Spec.lean) -/

@[simp] theorem ow_length (C : List UInt8) : ∀ o buf, (ow C o buf).length = C.length := by
  induction C with
  | nil => intro o buf; simp [ow]
  | cons c C ih =>
    intro o buf
    cases o with
    | succ o => simp [ow, ih]
    | zero => cases buf <;> simp [ow, ih]

@[simp] theorem ow_nil_buf (C : List UInt8) : ∀ o, ow C o [] = C := by
  induction C with
  | nil => intro o; simp [ow]
  | cons c C ih => intro o; cases o <;> simp [ow, ih]

@[simp] theorem owRest_nil_buf (C : List UInt8) : ∀ o, owRest C o [] = [] := by
  induction C with
  | nil => intro o; simp [owRest]
  | cons c C ih => intro o; cases o <;> simp [owRest, ih]

theorem ow_beyond (C : List UInt8) : ∀ o buf, C.length ≤ o → ow C o buf = C ∧ owRest C o buf = buf := by
  induction C with
  | nil => intro o buf _; simp [ow, owRest]
  | cons c C ih =>
    intro o buf h
    cases o with
    | zero => simp at h
    | succ o =>
      simp only [List.length_cons, Nat.add_le_add_iff_right] at h
      simp [ow, owRest, ih o buf h]

theorem ow_append (A R : List UInt8) : ∀ o buf,
    ow (A ++ R) o buf = ow A o buf ++ ow R (o - A.length) (owRest A o buf) ∧
    owRest (A ++ R) o buf = owRest R (o - A.length) (owRest A o buf) := by
  induction A with
  | nil => intro o buf; simp [ow, owRest]
  | cons a A ih =>
    intro o buf
    cases o with
    | succ o =>
      have := ih o buf
      simp only [List.cons_append, ow, owRest, List.length_cons, Nat.add_sub_add_right]
      exact ⟨by rw [this.1], this.2⟩
    | zero =>
      cases buf with
      | nil => simp [ow, owRest]
      | cons b buf =>
        have := ih 0 buf
        simp only [List.cons_append, ow, owRest, List.length_cons, Nat.zero_sub] at this ⊢
        exact ⟨by rw [this.1], this.2⟩

/-- the take/drop form used by the leaf case of modifyDag -/
theorem ow_eq_take_drop (d : List UInt8) : ∀ off buf,
    d.take off ++ buf.take (min buf.length (d.length - off)) ++ d.drop (off + min buf.length (d.length - off))
      = ow d off buf ∧
    buf.drop (min buf.length (d.length - off)) = owRest d off buf := by
  induction d with
  | nil => intro off buf; simp [ow, owRest]
  | cons c d ih =>
    intro off buf
    cases off with
    | succ o =>
      have := ih o buf
      simp only [List.length_cons, Nat.add_sub_add_right, List.take_succ_cons, ow, owRest]
      refine ⟨?_, this.2⟩
      have e : o + 1 + min buf.length (d.length - o) = (o + min buf.length (d.length - o)) + 1 := by omega
      rw [e, List.drop_succ_cons, ← this.1]
      simp
    | zero =>
      cases buf with
      | nil => simp [ow, owRest]
      | cons b buf =>
        have := ih 0 buf
        simp only [Nat.sub_zero, List.take_zero, List.nil_append, Nat.zero_add] at this
        simp only [List.length_cons, Nat.sub_zero, List.take_zero, List.nil_append, Nat.zero_add, ow, owRest]
        have e : min (buf.length + 1) (d.length + 1) = min buf.length d.length + 1 := by omega
        rw [e]
        simp only [List.take_succ_cons, List.drop_succ_cons, List.cons_append]
        exact ⟨by rw [this.1], this.2⟩

/-! ### modifyDag -/

@[simp] theorem modifyDag_leaf (d : List UInt8) (off : Nat) (buf : List UInt8) :
    modifyDag (.leaf d) off buf = (.leaf (ow d off buf), owRest d off buf) := by
  have := ow_eq_take_drop d off buf
  simp [modifyDag, this.1, this.2]

@[simp] theorem modifyDag_node (fs : Nat) (cs : List (FNode × Nat)) (off : Nat) (buf : List UInt8) :
    modifyDag (.node fs cs) off buf = (.node fs (modifyL cs 0 off buf).1, (modifyL cs 0 off buf).2) := by
  simp [modifyDag]

@[simp] theorem modifyL_nil (cur off : Nat) (buf : List UInt8) : modifyL [] cur off buf = ([], buf) := by
  simp [modifyL]

theorem modifyL_cons (c : FNode × Nat) (r : List (FNode × Nat)) (cur off : Nat) (buf : List UInt8) :
    modifyL (c :: r) cur off buf =
      if cur + c.2 > off then
        if (modifyDag c.1 (off - cur) buf).2.isEmpty then
          (((modifyDag c.1 (off - cur) buf).1, c.2) :: r, (modifyDag c.1 (off - cur) buf).2)
        else
          (((modifyDag c.1 (off - cur) buf).1, c.2) ::
            (modifyL r (cur + c.2) (cur + c.2) (modifyDag c.1 (off - cur) buf).2).1,
           (modifyL r (cur + c.2) (cur + c.2) (modifyDag c.1 (off - cur) buf).2).2)
      else (c :: (modifyL r (cur + c.2) off buf).1, (modifyL r (cur + c.2) off buf).2) := by
  rw [modifyL]

/-- everything modifyDag guarantees on a well-sized tree -/
def ModOK (w : Nat) (t t' : FNode) (rest : List UInt8) (off : Nat) (buf : List UInt8) : Prop :=
  content t' = ow (content t) off buf ∧ rest = owRest (content t) off buf ∧ wellSized t' = true ∧
  size t' = size t ∧ (∀ D : Int, tshape w D t = true → tshape w D t' = true) ∧ (isNode t' = isNode t)

def ModLOK (w : Nat) (cs cs' : List (FNode × Nat)) (rest : List UInt8) (o : Nat) (buf : List UInt8) : Prop :=
  contentL cs' = ow (contentL cs) o buf ∧ rest = owRest (contentL cs) o buf ∧ wellSizedL cs' = true ∧
  recSum cs' = recSum cs ∧ (∀ (D : Int) i, tshapeL w D i cs = true → tshapeL w D i cs' = true)

theorem modify_ok (w : Nat) (t : FNode) :
    wellSized t = true → ∀ off buf, ModOK w t (modifyDag t off buf).1 (modifyDag t off buf).2 off buf := by
  refine FNode.induct (P := fun t => wellSized t = true → ∀ off buf,
      ModOK w t (modifyDag t off buf).1 (modifyDag t off buf).2 off buf)
    (Q := fun cs => wellSizedL cs = true → ∀ cur off buf, cur ≤ off →
      ModLOK w cs (modifyL cs cur off buf).1 (modifyL cs cur off buf).2 (off - cur) buf)
    ?_ ?_ ?_ ?_ t
  · intro d _ off buf
    simp [ModOK, isNode]
  · intro fs cs ih hws off buf
    simp only [wellSized_node, Bool.and_eq_true, beq_iff_eq] at hws
    obtain ⟨h1, h2, h3, h4, h5⟩ := ih hws.2 0 off buf (Nat.zero_le _)
    simp only [Nat.sub_zero] at h1 h2
    refine ⟨by simpa using h1, by simpa using h2, ?_, by simp, ?_, by simp [isNode]⟩
    · simp [h3, h4, hws.1]
    · intro D hD
      simp only [modifyDag_node, tshape_node, Bool.and_eq_true] at hD ⊢
      exact ⟨hD.1, h5 D 0 hD.2⟩
  · intro _ cur off buf _
    simp [ModLOK, ow, owRest]
  · intro c r ihc ihr hws cur off buf hle
    simp only [wellSizedL_cons, Bool.and_eq_true, beq_iff_eq] at hws
    obtain ⟨⟨hc2, hcw⟩, hrw⟩ := hws
    have hlen : (content c.1).length = c.2 := by rw [hc2, size_eq_of_wellSized c.1 hcw]
    rw [modifyL_cons]
    by_cases hgt : cur + c.2 > off
    · simp only [hgt, if_true]
      obtain ⟨m1, m2, m3, m4, m5, _⟩ := ihc hcw (off - cur) buf
      have hoa := ow_append (content c.1) (contentL r) (off - cur) buf
      have hz : off - cur - (content c.1).length = 0 := by omega
      rw [hz] at hoa
      by_cases he : (modifyDag c.1 (off - cur) buf).2.isEmpty = true
      · simp only [he, if_true]
        have hemp : owRest (content c.1) (off - cur) buf = [] := by
          rw [← m2]; simpa using he
        refine ⟨?_, ?_, ?_, by simp, ?_⟩
        · simp only [contentL_cons, m1, hoa.1, hemp, ow_nil_buf]
        · rw [contentL_cons, hoa.2, hemp, owRest_nil_buf]
          rw [m2] ; exact hemp
        · simp only [wellSizedL_cons, m3, m4, hrw, ← hc2]; simp
        · intro D i h
          rw [tshapeL_cons'] at h ⊢
          simp only [Bool.and_eq_true] at h ⊢
          refine ⟨?_, h.2⟩
          have h1 := h.1
          unfold childOK at h1 ⊢
          split
          · rename_i hi; simp only [hi, if_true] at h1; exact m5 _ h1
          · rename_i hi
            simp only [hi, if_false, Bool.and_eq_true] at h1 ⊢
            exact ⟨h1.1, m5 _ h1.2⟩
      · simp only [he, Bool.false_eq_true, if_false]
        obtain ⟨r1, r2, r3, r4, r5⟩ := ihr hrw (cur + c.2) (cur + c.2) (modifyDag c.1 (off - cur) buf).2
          (Nat.le_refl _)
        simp only [Nat.sub_self] at r1 r2
        simp only [m2] at r1 r2 r3 r4 r5 ⊢
        refine ⟨?_, ?_, ?_, ?_, ?_⟩
        · simp only [contentL_cons, m1, r1, hoa.1]
        · rw [contentL_cons, hoa.2, r2]
        · simp only [wellSizedL_cons, m3, m4, r3, ← hc2]; simp
        · simp [r4]
        · intro D i h
          rw [tshapeL_cons'] at h ⊢
          simp only [Bool.and_eq_true] at h ⊢
          refine ⟨?_, r5 D _ h.2⟩
          have h1 := h.1
          unfold childOK at h1 ⊢
          split
          · rename_i hi; simp only [hi, if_true] at h1; exact m5 _ h1
          · rename_i hi
            simp only [hi, if_false, Bool.and_eq_true] at h1 ⊢
            exact ⟨h1.1, m5 _ h1.2⟩
    · simp only [hgt, if_false]
      obtain ⟨r1, r2, r3, r4, r5⟩ := ihr hrw (cur + c.2) off buf (by omega)
      have hb := ow_beyond (content c.1) (off - cur) buf (by omega)
      have hoa := ow_append (content c.1) (contentL r) (off - cur) buf
      have e : off - cur - (content c.1).length = off - (cur + c.2) := by omega
      rw [e, hb.1, hb.2] at hoa
      refine ⟨?_, ?_, ?_, ?_, ?_⟩
      · simp only [contentL_cons, r1, hoa.1]
      · rw [contentL_cons, hoa.2, r2]
      · simp only [wellSizedL_cons, hcw, r3, ← hc2]; simp
      · simp [r4]
      · intro D i h
        rw [tshapeL_cons'] at h ⊢
        simp only [Bool.and_eq_true] at h ⊢
        exact ⟨h.1, r5 D _ h.2⟩

/-! ### dagTruncate -/

@[simp] theorem dagTruncate_leaf (d : List UInt8) (sz : Nat) : dagTruncate (.leaf d) sz = some (.leaf (d.take sz)) := by
  simp [dagTruncate]

theorem dagTruncate_node (fs : Nat) (cs : List (FNode × Nat)) (sz : Nat) :
    dagTruncate (.node fs cs) sz = (truncL cs 0 sz).map fun l => .node (recSum l) l := by
  rw [dagTruncate]; cases truncL cs 0 sz <;> rfl

@[simp] theorem truncL_nil (cur sz : Nat) : truncL [] cur sz = none := by simp [truncL]

theorem truncL_cons (c : FNode × Nat) (r : List (FNode × Nat)) (cur sz : Nat) :
    truncL (c :: r) cur sz =
      if sz < cur + size c.1 then (dagTruncate c.1 (sz - cur)).map fun t => [(t, sz - cur)]
      else (truncL r (cur + size c.1) sz).map fun l => (c.1, size c.1) :: l := by
  rw [truncL]
  split
  · cases dagTruncate c.1 (sz - cur) <;> rfl
  · cases truncL r (cur + size c.1) sz <;> rfl

def TruncOK (w : Nat) (t t' : FNode) (sz : Nat) : Prop :=
  content t' = (content t).take sz ∧ wellSized t' = true ∧ size t' = sz ∧
  (∀ D : Int, tshape w D t = true → tshape w D t' = true) ∧ isNode t' = isNode t

theorem truncate_ok (w : Nat) (t : FNode) :
    wellSized t = true → ∀ sz, sz < size t → ∃ t', dagTruncate t sz = some t' ∧ TruncOK w t t' sz := by
  refine FNode.induct (P := fun t => wellSized t = true → ∀ sz, sz < size t →
      ∃ t', dagTruncate t sz = some t' ∧ TruncOK w t t' sz)
    (Q := fun cs => wellSizedL cs = true → ∀ cur sz, cur ≤ sz → sz < cur + recSum cs →
      ∃ l, truncL cs cur sz = some l ∧ contentL l = (contentL cs).take (sz - cur) ∧ wellSizedL l = true ∧
        recSum l = sz - cur ∧ (∀ (D : Int) i, tshapeL w D i cs = true → tshapeL w D i l = true))
    ?_ ?_ ?_ ?_ t
  · intro d _ sz hsz
    simp only [size_leaf] at hsz
    exact ⟨_, dagTruncate_leaf d sz, by simp, by simp, by simp; omega, by intro D h; simpa using h, by simp [isNode]⟩
  · intro fs cs ih hws sz hsz
    simp only [wellSized_node, Bool.and_eq_true, beq_iff_eq] at hws
    simp only [size_node] at hsz
    obtain ⟨l, hl, l1, l2, l3, l4⟩ := ih hws.2 0 sz (Nat.zero_le _) (by omega)
    refine ⟨.node (recSum l) l, by rw [dagTruncate_node, hl]; rfl, ?_, ?_, ?_, ?_, by simp [isNode]⟩
    · simpa using l1
    · simp [l2]
    · simpa using l3
    · intro D hD
      simp only [tshape_node, Bool.and_eq_true] at hD ⊢
      exact ⟨hD.1, l4 D 0 hD.2⟩
  · intro _ cur sz _ h; simp at h; omega
  · intro c r ihc ihr hws cur sz hle hlt
    simp only [wellSizedL_cons, Bool.and_eq_true, beq_iff_eq] at hws
    obtain ⟨⟨hc2, hcw⟩, hrw⟩ := hws
    have hlen : (content c.1).length = size c.1 := (size_eq_of_wellSized c.1 hcw).symm
    simp only [recSum_cons] at hlt
    rw [truncL_cons]
    by_cases hin : sz < cur + size c.1
    · simp only [hin, if_true]
      obtain ⟨t', ht', c1, c2, c3, c4, _⟩ := ihc hcw (sz - cur) (by omega)
      refine ⟨[(t', sz - cur)], by rw [ht']; rfl, ?_, ?_, by simp, ?_⟩
      · simp only [contentL_cons, contentL_nil, List.append_nil, c1]
        rw [List.take_append_of_le_length (by omega)]
      · simp [c2, c3]
      · intro D i h
        rw [tshapeL_cons'] at h
        simp only [Bool.and_eq_true] at h
        rw [tshapeL_cons']
        simp only [tshapeL_nil, Bool.and_true]
        have h1 := h.1
        unfold childOK at h1 ⊢
        split
        · rename_i hi; simp only [hi, if_true] at h1; exact c4 _ h1
        · rename_i hi
          simp only [hi, if_false, Bool.and_eq_true] at h1 ⊢
          exact ⟨h1.1, c4 _ h1.2⟩
    · simp only [hin, if_false]
      obtain ⟨l, hl, l1, l2, l3, l4⟩ := ihr hrw (cur + size c.1) sz (by omega) (by omega)
      refine ⟨(c.1, size c.1) :: l, by rw [hl]; rfl, ?_, ?_, ?_, ?_⟩
      · simp only [contentL_cons, l1]
        have e : sz - cur = (content c.1).length + (sz - (cur + size c.1)) := by omega
        rw [e, List.take_append]
        simp [List.take_of_length_le]
      · simp [hcw, l2]
      · simp [l3]; omega
      · intro D i h
        rw [tshapeL_cons'] at h ⊢
        simp only [Bool.and_eq_true] at h ⊢
        exact ⟨h.1, l4 D _ h.2⟩

/-! ### the size splitter -/

theorem sizeSplit_flatten (k : Nat) (hk : 1 ≤ k) : ∀ fuel (bs : List UInt8), bs.length < fuel →
    (sizeSplit k fuel bs).flatten = bs := by
  intro fuel
  induction fuel with
  | zero => intro bs h; omega
  | succ fuel ih =>
    intro bs h
    unfold sizeSplit
    cases bs with
    | nil => simp
    | cons b r =>
      simp only [List.isEmpty_cons, Bool.false_eq_true, if_false, List.flatten_cons]
      rw [ih _ (by simp only [List.length_drop, List.length_cons] at h ⊢; omega)]
      exact List.take_append_drop k (b :: r)

theorem chunksOf_flatten (k : Nat) (hk : 1 ≤ k) (bs : List UInt8) : (chunksOf k bs).flatten = bs :=
  sizeSplit_flatten k hk _ bs (Nat.lt_succ_self _)

/-! ### appendData / expandSparse -/

/-- the trees the modifier works on: well-sized, and either a single leaf or a trickle-shaped node -/
def TOK (w : Nat) (t : FNode) : Prop :=
  wellSized t = true ∧ (isNode t = false ∨ tshape w (-1) t = true)

theorem appendData_ok (c : Cfg) (hw : 1 ≤ c.w) (t : FNode) (chunks : List Chunk) (ht : TOK c.w t) :
    ∃ t', appendData c t chunks = some t' ∧ content t' = content t ++ chunks.flatten ∧
      wellSized t' = true ∧ tshape c.w (-1) t' = true ∧ isNode t' = true := by
  obtain ⟨hws, hsh⟩ := ht
  have key : ∀ b : FNode, wellSized b = true → tshape c.w (-1) b = true →
      ∃ t', (append c.w b chunks).map (·.root) = some t' ∧ content t' = content b ++ chunks.flatten ∧
        wellSized t' = true ∧ tshape c.w (-1) t' = true ∧ isNode t' = true := by
    intro b hb hs
    obtain ⟨o, ho⟩ := append_total c.w hw b chunks hb hs
    refine ⟨o.root, by simp [ho], ?_, ?_, ?_, ?_⟩
    · cases b with
      | leaf d => simp [append, getChild] at ho
      | node fs links =>
        simp only [wellSized_node, Bool.and_eq_true, beq_iff_eq] at hb
        simp only [append, getChild] at ho
        have := (appendB_spec c.w _ { links := links, filesize := fs } { spl := chunks } o ⟨hb.1, hb.2⟩ ho).2
        simpa [DB.flat, DB.pending] using this
    · cases b with
      | leaf d => simp [append, getChild] at ho
      | node fs links =>
        simp only [wellSized_node, Bool.and_eq_true, beq_iff_eq] at hb
        simp only [append, getChild] at ho
        exact (appendB_spec c.w _ { links := links, filesize := fs } { spl := chunks } o ⟨hb.1, hb.2⟩ ho).1
    · cases b with
      | leaf d => simp [append, getChild] at ho
      | node fs links =>
        simp only [tshape_node, Bool.and_eq_true] at hs
        simp only [append, getChild] at ho
        exact appendB_shape c.w hw _ { links := links, filesize := fs } { spl := chunks } o hs.2 ho
    · cases b with
      | leaf d => simp [append, getChild] at ho
      | node fs links =>
        simp only [append, getChild] at ho
        have hsh := appendB_shape c.w hw _ { links := links, filesize := fs } { spl := chunks } o
          (by simp only [tshape_node, Bool.and_eq_true] at hs; exact hs.2) ho
        cases hr : o.root with
        | leaf d => rw [hr] at hsh; simp at hsh
        | node a b => simp [isNode]
  cases t with
  | node fs cs =>
    rcases hsh with h | h
    · simp [isNode] at h
    · simpa [appendData] using key (.node fs cs) hws h
  | leaf d =>
    unfold appendData
    by_cases hcond : c.raw = true ∨ ¬ d.isEmpty = true
    · simp only [hcond, if_true]
      have := key (.node d.length [(.leaf d, d.length)]) (by simp)
        (by
          have : 0 < c.w := by omega
          simp [tshapeL_cons, this])
      simpa using this
    · simp only [hcond, if_false]
      have hd : d = [] := by
        have : d.isEmpty = true := by
          cases h : d.isEmpty with
          | true => rfl
          | false => exact absurd (Or.inr (by simp [h])) hcond
        simpa using this
      subst hd
      have := key (.node 0 []) (by simp) (by simp)
      simpa using this

theorem expandSparse_ok (c : Cfg) (hw : 1 ≤ c.w) (t : FNode) (n : Nat) (ht : TOK c.w t) :
    ∃ t', expandSparse c t n = some t' ∧ content t' = content t ++ List.replicate n 0 ∧
      wellSized t' = true ∧ tshape c.w (-1) t' = true ∧ isNode t' = true := by
  obtain ⟨t', h1, h2, h3⟩ := appendData_ok c hw t (chunksOf 4096 (List.replicate n 0)) ht
  exact ⟨t', h1, by rw [h2, chunksOf_flatten 4096 (by omega)], h3⟩

end C10
