import BoxoModel.C08.Model
/-!
C10 — mod.DagModifier: executable model (tree layer + control layer).

Transcribed from /repo/ipld/unixfs/mod/dagmodifier.go AFTER the `fix:` commits of branch verif/import
(Seek: SeekEnd sign / negative targets / absolute reader seek; WriteAt: offset bookkeeping and shorter
rewrite; Write: a new buffer starts at curWrOff, and a shrinking Truncate takes an offset that reads moved
beyond the new end back to max(writeStart, size); the reader is dropped when curNode changes; a dag-pb leaf
root is turned into a file node before blocks are appended):

  tree layer
    modifyDag(n, offset)      ~ `modifyDag` / `modifyL`   (overwrite in place, driven by the RECORDED block sizes)
    dagTruncate(n, size)      ~ `dagTruncate` / `truncL`  (driven by the children's own sizes, block sizes rebuilt)
    appendData(nd, spl)       ~ `appendData`              (C08 `append`; RawNode / dag-pb leaf root wrapped first)
    expandSparse(size)        ~ `expandSparse`            (appendData of 4096-byte zero blocks)
    maybeCollapseToRawLeaf    ~ `collapse`
  control layer: `DM {cur, writeStart, curWrOff, wrBuf}` and `write, writeAt, seek, read, truncate, size,
    sync, getNode, hasChanges`.
Parameters (`Cfg`): `w` = MaxLinks, `raw` = RawLeaves (the harness keeps the leaf kind uniform: a `.leaf` is
a RawNode iff `raw`), `k` = block size of the SizeSplitterGen, `wbs` = writebufferSize (verif hook).
Abstracted: the `read uio.DagReader` field — after the fixes it is always positioned at `curWrOff` over the
current node when it exists, so a Read returns `content cur` from `curWrOff` (the reader itself is C09's
subject: for well-sized trees it is a byte reader over `content`); CIDs / identity-hash handling; mtime
refresh of dag-pb leaves; errors of the DAG service.  `none` = an error return (or out of fuel in Append).
Core-only.
-/
namespace C10
open FileTree C07 C08

structure Cfg where
  w : Nat
  raw : Bool
  k : Nat
  wbs : Nat
  /-- the root's UnixFS data carries a mode or an mtime (constant over the life of the modifier: every operation
  keeps them on the root; only a dag-pb root has them) -/
  hasMeta : Bool := false

/-! ### tree layer -/

mutual
/-- modifyDag(n, offset) with the unread part of wrBuf: the new node and what is left of the buffer -/
def modifyDag : FNode → Nat → List UInt8 → FNode × List UInt8
  | .leaf d, off, buf =>
    -- `wrBuf.Read(data[offset:])` / `copy` for a RawNode: overwrite min(len buf, len d - off) bytes in place
    let n := min buf.length (d.length - off)
    (.leaf (d.take off ++ buf.take n ++ d.drop (off + n)), buf.drop n)
  | .node fs cs, off, buf =>
    let r := modifyL cs 0 off buf
    (.node fs r.1, r.2)
/-- the `for i, bs := range fsn.BlockSizes()` loop: `cur` = sum of the block sizes passed so far -/
def modifyL : List (FNode × Nat) → Nat → Nat → List UInt8 → List (FNode × Nat) × List UInt8
  | [], _, _, buf => ([], buf)
  | c :: r, cur, off, buf =>
    if cur + c.2 > off then
      let m := modifyDag c.1 (off - cur) buf
      if m.2.isEmpty then ((m.1, c.2) :: r, m.2)      -- "No more bytes to write!": break
      else
        let t := modifyL r (cur + c.2) (cur + c.2) m.2
        ((m.1, c.2) :: t.1, t.2)
    else
      let t := modifyL r (cur + c.2) off buf
      (c :: t.1, t.2)
end

mutual
/-- dagTruncate(n, size); `none` = no child contains `size` (`modified == nil`: the Go code would fail) -/
def dagTruncate : FNode → Nat → Option FNode
  | .leaf d, sz => some (.leaf (d.take sz))
  | .node _ cs, sz =>
    match truncL cs 0 sz with
    | none => none
    | some l => some (.node (recSum l) l)        -- RemoveAllBlockSizes, then AddBlockSize for every kept child
/-- the `for i, lnk := range nd.Links()` loop; `cur` = sum of the sizes of the children passed so far -/
def truncL : List (FNode × Nat) → Nat → Nat → Option (List (FNode × Nat))
  | [], _, _ => none
  | c :: r, cur, sz =>
    if sz < cur + size c.1 then
      match dagTruncate c.1 (sz - cur) with
      | none => none
      | some t => some [(t, sz - cur)]
    else
      match truncL r (cur + size c.1) sz with
      | none => none
      | some l => some ((c.1, size c.1) :: l)
end

/-- chunker.NewSizeSplitter(r, k) over a reader holding `bs` -/
def sizeSplit (k : Nat) : Nat → List UInt8 → List Chunk
  | 0, _ => []
  | fuel + 1, bs => if bs.isEmpty then [] else bs.take k :: sizeSplit k fuel (bs.drop k)

def chunksOf (k : Nat) (bs : List UInt8) : List Chunk := sizeSplit k (bs.length + 1) bs

/-- appendData(nd, spl) for a splitter that returns `chunks` -/
def appendData (c : Cfg) (t : FNode) (chunks : List Chunk) : Option FNode :=
  match t with
  | .node _ _ => (append c.w t chunks).map (·.root)
  | .leaf d =>
    if c.raw ∨ ¬ d.isEmpty then
      -- RawNode root, or (after the fix) a dag-pb leaf with data: file node with that leaf as first block
      (append c.w (.node d.length [(.leaf d, d.length)]) chunks).map (·.root)
    else
      -- an empty dag-pb file node: NewFSNFromDag gives an FSNodeOverDag without links
      (append c.w (.node 0 []) chunks).map (·.root)

/-- does appendData execute `fsn.SetModTime(time.Now())` (trickle.Append's early return, taken when the new blocks
all fit among the root's direct blocks)?  Only the flag; the tree is `appendData`'s. -/
def appendTouches (c : Cfg) (t : FNode) (chunks : List Chunk) : Bool :=
  let base : FNode := match t with
    | .node _ _ => t
    | .leaf d => if c.raw ∨ ¬ d.isEmpty then .node d.length [(.leaf d, d.length)] else .node 0 []
  match append c.w base chunks with
  | some o => o.mtimeTouched
  | none => false

/-- modifyDag / dagTruncate rewrite the UnixFS data of a dag-pb LEAF and refresh its mtime when it has one;
for the root that is the case exactly when the file is a single dag-pb leaf -/
def leafRootTouches (c : Cfg) (t : FNode) : Bool :=
  match t with
  | .leaf _ => !c.raw
  | .node _ [] => true      -- a dag-pb file node without links (the empty trickle root) is treated as a leaf too
  | .node _ _ => false

/-- expandSparse(n): `n` zero bytes in blocks of 4096 -/
def expandSparse (c : Cfg) (t : FNode) (n : Nat) : Option FNode :=
  appendData c t (chunksOf 4096 (List.replicate n 0))

/-- maybeCollapseToRawLeaf; `Cfg.hasMeta` = the root carries a mode or an mtime (then it is kept as it is) -/
def collapse (c : Cfg) (t : FNode) : FNode :=
  if c.raw && !c.hasMeta then
    match t with
    | .node _ [(.leaf d, _)] => .leaf d
    | _ => t
  else t

/-! ### control layer -/

structure DM where
  cur : FNode
  writeStart : Nat := 0
  curWrOff : Nat := 0
  wrBuf : Option (List UInt8) := none
  /-- ghost: `SetModTime(time.Now())` was executed on the root's UnixFS data since the modifier was created
  (observable only if the root carries an mtime; tied by the correspondence, not used by the theorems) -/
  touched : Bool := false

/-- Size() -/
def DM.size (s : DM) : Nat :=
  match s.wrBuf with
  | none => FileTree.size s.cur
  | some buf => max (FileTree.size s.cur) (buf.length + s.writeStart)

/-- Sync(); `none` = error -/
def sync (c : Cfg) (s : DM) : Option DM :=
  match s.wrBuf with
  | none => some s
  | some buf =>
    let cur1 := if FileTree.size s.cur < s.writeStart then expandSparse c s.cur (s.writeStart - FileTree.size s.cur)
                else some s.cur
    match cur1 with
    | none => none
    | some cur1 =>
      let m := modifyDag cur1 s.writeStart buf
      let cur2 := if m.2.isEmpty then some m.1 else appendData c m.1 (chunksOf c.k m.2)
      match cur2 with
      | none => none
      | some cur2 =>
        let t := (FileTree.size s.cur < s.writeStart &&
                    appendTouches c s.cur (chunksOf 4096 (List.replicate (s.writeStart - FileTree.size s.cur) 0))) ||
                 leafRootTouches c cur1 || (!m.2.isEmpty && appendTouches c m.1 (chunksOf c.k m.2))
        some { s with cur := cur2, writeStart := s.writeStart + buf.length, wrBuf := none,
                      touched := (s.touched || t) }

/-- Write(b): `(state, n, ok)` -/
def write (c : Cfg) (s : DM) (b : List UInt8) : DM × Nat × Bool :=
  let buf := s.wrBuf.getD []
  let s1 : DM := { s with wrBuf := some (buf ++ b),
                          writeStart := if s.wrBuf.isNone then s.curWrOff else s.writeStart,
                          curWrOff := s.curWrOff + b.length }
  if (buf ++ b).length > c.wbs then
    match sync c s1 with
    | none => (s1, b.length, false)
    | some s2 => (s2, b.length, true)
  else (s1, b.length, true)

/-- WriteAt(b, offset) for `offset ≥ 0` -/
def writeAt (c : Cfg) (s : DM) (b : List UInt8) (off : Nat) : DM × Nat × Bool :=
  match s.wrBuf with
  | some buf =>
    if off = s.writeStart ∧ b.length ≥ buf.length then
      write c { s with wrBuf := some [], curWrOff := s.writeStart } b
    else general
  | none => general
where
  general : DM × Nat × Bool :=
    if off ≠ s.curWrOff then
      let sz := s.size
      let cur1 := if off > sz then expandSparse c s.cur (off - sz) else some s.cur
      match cur1 with
      | none => (s, 0, false)
      | some cur1 =>
        let t := decide (off > sz) && appendTouches c s.cur (chunksOf 4096 (List.replicate (off - sz) 0))
        match sync c { s with cur := cur1, touched := (s.touched || t) } with
        | none => ({ s with cur := cur1 }, 0, false)
        | some s2 => write c { s2 with writeStart := off, curWrOff := off } b
    else write c s b

/-- Seek(offset, whence): `(state, returned position, ok)` -/
def seek (c : Cfg) (s : DM) (off : Int) (whence : Nat) : DM × Int × Bool :=
  match sync c s with
  | none => (s, 0, false)
  | some s1 =>
    let fisize : Int := s1.size
    let target : Option Int :=
      if whence = 1 then some ((s1.curWrOff : Int) + off)
      else if whence = 0 then some off
      else if whence = 2 then some (fisize + off)
      else none
    match target with
    | none => (s1, 0, false)
    | some t =>
      if t < 0 then (s1, 0, false)
      else
        let cur1 := if t > fisize then expandSparse c s1.cur (t - fisize).toNat else some s1.cur
        match cur1 with
        | none => (s1, 0, false)
        | some cur1 =>
          let tt := decide (t > fisize) &&
            appendTouches c s1.cur (chunksOf 4096 (List.replicate (t - fisize).toNat 0))
          ({ s1 with cur := cur1, curWrOff := t.toNat, writeStart := t.toNat, touched := (s1.touched || tt) }, t, true)

/-- Read(b) / CtxReadFull(ctx, b) with `len(b) = k`: `(state, bytes read, ok)` -/
def read (c : Cfg) (s : DM) (k : Nat) : DM × List UInt8 × Bool :=
  match sync c s with
  | none => (s, [], false)
  | some s1 =>
    let data := ((content s1.cur).drop s1.curWrOff).take k
    ({ s1 with curWrOff := s1.curWrOff + data.length }, data, true)

/-- Truncate(size) for `size ≥ 0` -/
def truncate (c : Cfg) (s : DM) (sz : Nat) : DM × Bool :=
  match sync c s with
  | none => (s, false)
  | some s1 =>
    let real := s1.size
    if sz = real then (s1, true)
    else if sz > real then
      match expandSparse c s1.cur (sz - real) with
      | none => (s1, false)
      | some t =>
        let tt := appendTouches c s1.cur (chunksOf 4096 (List.replicate (sz - real) 0))
        ({ s1 with cur := t, touched := (s1.touched || tt) }, true)
    else
      match dagTruncate s1.cur sz with
      | none => (s1, false)
      | some t =>
        -- `if dm.curWrOff > size { dm.curWrOff = max(dm.writeStart, size) }`: forget read progress beyond the new end
        ({ s1 with cur := t, curWrOff := if s1.curWrOff > sz then max s1.writeStart sz else s1.curWrOff,
                   touched := (s1.touched || leafRootTouches c s1.cur) }, true)

/-- WriteAt(b, offset) with a Go `int64` offset: `if offset < 0 { return 0, ErrNegativeOffset }` -/
def writeAtI (c : Cfg) (s : DM) (b : List UInt8) (off : Int) : DM × Nat × Bool :=
  if off < 0 then (s, 0, false) else writeAt c s b off.toNat

/-- Truncate(size) with a Go `int64` size: `if size < 0 { return ErrNegativeOffset }` -/
def truncateI (c : Cfg) (s : DM) (sz : Int) : DM × Bool :=
  if sz < 0 then (s, false) else truncate c s sz.toNat

/-- GetNode() -/
def getNode (c : Cfg) (s : DM) : DM × Option FNode :=
  match sync c s with
  | none => (s, none)
  | some s1 => (s1, some (collapse c s1.cur))

def hasChanges (s : DM) : Bool := s.wrBuf.isSome

end C10
