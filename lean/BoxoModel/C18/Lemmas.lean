import BoxoModel.C18.Model
/-! C18 helper lemmas: permission-bit conversions (on the regenerated `Gen.C18` definitions), the pb.Data
round trip, mode / mtime setters and getters, the file-size invariant. -/
namespace C18
open Varint Proto Gen.C18

/-- split `i < 32` into its 32 values -/
macro "bits32 " i:ident : tactic => `(tactic|
  (obtain h__ | h__ | h__ | h__ | h__ | h__ | h__ | h__ | h__ | h__ | h__ | h__ | h__ | h__ | h__ | h__ | h__ | h__ | h__ | h__ | h__ | h__ | h__ | h__ | h__ | h__ | h__ | h__ | h__ | h__ | h__ | h__ :
      $i = 0 ∨ $i = 1 ∨ $i = 2 ∨ $i = 3 ∨ $i = 4 ∨ $i = 5 ∨ $i = 6 ∨ $i = 7 ∨ $i = 8 ∨ $i = 9 ∨ $i = 10 ∨ $i = 11 ∨ $i = 12 ∨ $i = 13 ∨ $i = 14 ∨ $i = 15 ∨ $i = 16 ∨ $i = 17 ∨ $i = 18 ∨ $i = 19 ∨ $i = 20 ∨ $i = 21 ∨ $i = 22 ∨ $i = 23 ∨ $i = 24 ∨ $i = 25 ∨ $i = 26 ∨ $i = 27 ∨ $i = 28 ∨ $i = 29 ∨ $i = 30 ∨ $i = 31 := by omega
   all_goals subst h__))

/-- os.ModePerm | ModeSetuid | ModeSetgid | ModeSticky -/
def permMask : BitVec 32 := 0x00D001FF#32

/-- the non-zero branch of `UnixPermsToModePerms` -/
def spread (u : BitVec 32) : BitVec 32 :=
  ((u &&& 511#32) ||| ((u &&& 3072#32) <<< 12)) ||| ((u &&& 512#32) <<< 11)

theorem unixPermsToModePerms_eq_spread (u : BitVec 32) : unixPermsToModePerms u = spread u := by
  unfold unixPermsToModePerms spread
  split
  · next h =>
    have h0 : u = 0#32 := by simpa using h
    subst h0
    decide
  · rfl

theorem toUnix_low12 (m : BitVec 32) : modePermsToUnixPerms m &&& 0xFFF#32 = modePermsToUnixPerms m := by
  ext i hi
  simp only [modePermsToUnixPerms, BitVec.getElem_and, BitVec.getElem_or, BitVec.getElem_ushiftRight]
  bits32 i <;> simp

theorem spread_toUnix (m : BitVec 32) : spread (modePermsToUnixPerms m) = m &&& permMask := by
  ext i hi
  simp only [spread, modePermsToUnixPerms, permMask, BitVec.getElem_and, BitVec.getElem_or,
    BitVec.getElem_ushiftRight, BitVec.getElem_shiftLeft]
  bits32 i <;> simp

theorem toUnix_spread (p : BitVec 32) (hp : p &&& 0xFFF#32 = p) : modePermsToUnixPerms (spread p) = p := by
  rw [← hp]
  ext i hi
  simp only [spread, modePermsToUnixPerms, BitVec.getElem_and, BitVec.getElem_or,
    BitVec.getElem_ushiftRight, BitVec.getElem_shiftLeft]
  bits32 i <;> simp

theorem toMode_toUnix (m : BitVec 32) : unixPermsToModePerms (modePermsToUnixPerms m) = m &&& permMask := by
  rw [unixPermsToModePerms_eq_spread, spread_toUnix]

theorem toUnix_toMode (p : BitVec 32) (hp : p &&& 0xFFF#32 = p) :
    modePermsToUnixPerms (unixPermsToModePerms p) = p := by
  rw [unixPermsToModePerms_eq_spread, toUnix_spread p hp]

theorem toUnix_eq_zero_iff (m : BitVec 32) : modePermsToUnixPerms m = 0#32 ↔ m &&& permMask = 0#32 := by
  constructor
  · intro h
    rw [← toMode_toUnix, h]; decide
  · intro h
    have h1 := toUnix_toMode (modePermsToUnixPerms m) (toUnix_low12 m)
    rw [toMode_toUnix, h] at h1
    rw [← h1]; decide

end C18
