import BoxoModel.C18.Model
/-! C18: `decode (encode n) = some n` for the pb.Data model. -/
namespace C18
open Varint Proto

theorem u64ToInt64_int64ToU64 (i : Int) (h1 : -(2 ^ 63 : Int) ≤ i) (h2 : i < 2 ^ 63) :
    u64ToInt64 (int64ToU64 i) = i := by
  unfold u64ToInt64 int64ToU64
  split <;> omega

theorem int64ToU64_lt (i : Int) : int64ToU64 i < 2 ^ 64 := by
  unfold int64ToU64; omega

/-- scalar ranges of a node: what the Go types guarantee (uint64 / uint32 / int64 / int32 ≥ 0) -/
structure Wf (n : FSNode) : Prop where
  type : n.type < 2 ^ 32
  filesize : ∀ v, n.filesize = some v → v < 2 ^ 64
  blocks : ∀ v ∈ n.blocksizes, v < 2 ^ 64
  hashType : ∀ v, n.hashType = some v → v < 2 ^ 64
  fanout : ∀ v, n.fanout = some v → v < 2 ^ 64
  secs : ∀ m, n.mtime = some m → -(2 ^ 63 : Int) ≤ m.seconds ∧ m.seconds < 2 ^ 63
  nanos : ∀ m v, n.mtime = some m → m.nanos = some v → v < 2 ^ 32
  /-- the retained bytes are a sequence of fields none of which pb.Data recognises (`[]` for every node
  built through the FSNode API) -/
  unk : ∃ prs, decodeMsgRaw n.unknown = some prs ∧ ∀ p ∈ prs, isKnown p.1 = false

theorem applyFields_append (a b : List Field) (p : Partial) :
    applyFields p (a ++ b) = (applyFields p a).bind (fun q => applyFields q b) := by
  fun_induction applyFields p a <;> simp_all [applyFields]

theorem applyFields_blocks (bs : List Nat) (p : Partial) :
    applyFields p (bs.map (Field.vint 4)) = some { p with blocksizes := p.blocksizes ++ bs } := by
  induction bs generalizing p with
  | nil => simp [applyFields]
  | cons b bs ih => simp [Field.vint, applyFields] at ih ⊢; rw [ih]; simp

theorem mtimeFields_wf (m : Mtime) (hn : ∀ v, m.nanos = some v → v < 2 ^ 32) :
    ∀ f ∈ mtimeFields m, f.wf := by
  intro f hf
  have hs := int64ToU64_lt m.seconds
  cases hnn : m.nanos with
  | none =>
    simp [mtimeFields, optField, hnn, Field.vint] at hf
    subst hf
    exact ⟨by simp, by simp, hs⟩
  | some v =>
    simp [mtimeFields, optField, hnn, Field.vint, Field.fix32] at hf
    rcases hf with rfl | rfl
    · exact ⟨by simp, by simp, hs⟩
    · exact ⟨by simp, by simp, hn v hnn⟩

theorem applyMtime_mtimeFields (m : Mtime) (h1 : -(2 ^ 63 : Int) ≤ m.seconds) (h2 : m.seconds < 2 ^ 63) :
    applyMtime PMtime.empty (mtimeFields m) = ⟨some m.seconds, m.nanos⟩ := by
  cases hnn : m.nanos with
  | none => simp [mtimeFields, optField, hnn, Field.vint, applyMtime, PMtime.empty,
      u64ToInt64_int64ToU64 _ h1 h2]
  | some v => simp [mtimeFields, optField, hnn, Field.vint, Field.fix32, applyMtime, PMtime.empty,
      u64ToInt64_int64ToU64 _ h1 h2]

theorem mem_optField {α : Type} {g : α → Field} {o : Option α} {f : Field} (h : f ∈ optField g o) :
    ∃ a, o = some a ∧ f = g a := by
  cases o with
  | none => simp [optField] at h
  | some a => simp [optField] at h; exact ⟨a, rfl, h⟩

theorem toFields_wf (n : FSNode) (hw : Wf n) (hlen' : (encode n).length < 2 ^ 64) :
    ∀ f ∈ toFields n, f.wf := by
  have hlen : (encodeMsg (toFields n)).length < 2 ^ 64 := by
    have : (encode n).length = (encodeMsg (toFields n)).length + n.unknown.length := by simp [encode]
    omega
  apply wf_of_length_lt _ hlen
  · intro f hf
    simp only [toFields, List.mem_append, List.mem_map, List.mem_singleton] at hf
    rcases hf with (((((((rfl | h) | h) | ⟨_, _, rfl⟩) | h) | h) | h) | h)
    · simp [Field.vint]
    · obtain ⟨a, _, rfl⟩ := mem_optField h; simp [Field.byts]
    · obtain ⟨a, _, rfl⟩ := mem_optField h; simp [Field.vint]
    · simp [Field.vint]
    · obtain ⟨a, _, rfl⟩ := mem_optField h; simp [Field.vint]
    · obtain ⟨a, _, rfl⟩ := mem_optField h; simp [Field.vint]
    · obtain ⟨a, _, rfl⟩ := mem_optField h; simp [Field.vint]
    · obtain ⟨a, _, rfl⟩ := mem_optField h; simp [Field.msg]
  · intro f hf
    simp only [toFields, List.mem_append, List.mem_map, List.mem_singleton] at hf
    rcases hf with (((((((rfl | h) | h) | ⟨v, hv, rfl⟩) | h) | h) | h) | h)
    · have := hw.type
      show n.type < 2 ^ 64
      omega
    · obtain ⟨a, _, rfl⟩ := mem_optField h; trivial
    · obtain ⟨a, ha, rfl⟩ := mem_optField h; exact hw.filesize a ha
    · exact hw.blocks v hv
    · obtain ⟨a, ha, rfl⟩ := mem_optField h; exact hw.hashType a ha
    · obtain ⟨a, ha, rfl⟩ := mem_optField h; exact hw.fanout a ha
    · obtain ⟨a, ha, rfl⟩ := mem_optField h
      show a.toNat < 2 ^ 64
      have := a.isLt
      omega
    · obtain ⟨a, _, rfl⟩ := mem_optField h; trivial

/-- the fields of a node, read back by the field switch -/
theorem applyFields_toFields (n : FSNode) (hw : Wf n)
    (hm : ∀ m, n.mtime = some m → decodeMsg (encodeMsg (mtimeFields m)) = some (mtimeFields m)) :
    applyFields Partial.empty (toFields n) = some
      { type := some n.type, data := n.data, filesize := n.filesize, blocksizes := n.blocksizes,
        hashType := n.hashType, fanout := n.fanout, mode := n.mode,
        mtime := n.mtime.map fun m => ⟨some m.seconds, m.nanos⟩ } := by
  obtain ⟨type, data, filesize, blocksizes, hashType, fanout, mode, mtime, unknown⟩ := n
  have ht : type % 2 ^ 32 = type := Nat.mod_eq_of_lt hw.type
  simp only [toFields, applyFields_append, Partial.empty, applyFields_blocks]
  cases mtime with
  | none =>
    cases data <;> cases filesize <;> cases hashType <;> cases fanout <;> cases mode <;>
      simp [optField, Field.byts, Field.vint, applyFields, ht]
  | some m =>
    have h1 := hm m rfl
    have h2 := hw.secs m rfl
    have h3 := applyMtime_mtimeFields m h2.1 h2.2
    cases data <;> cases filesize <;> cases hashType <;> cases fanout <;> cases mode <;>
      simp [optField, Field.byts, Field.vint, Field.msg, applyFields, ht, h1, h3]

theorem toFields_known (n : FSNode) : ∀ f ∈ toFields n, isKnown f = true := by
  intro f hf
  simp only [toFields, List.mem_append, List.mem_map, List.mem_singleton] at hf
  rcases hf with (((((((rfl | h) | h) | ⟨_, _, rfl⟩) | h) | h) | h) | h)
  · rfl
  · obtain ⟨a, _, rfl⟩ := mem_optField h; rfl
  · obtain ⟨a, _, rfl⟩ := mem_optField h; rfl
  · rfl
  · obtain ⟨a, _, rfl⟩ := mem_optField h; rfl
  · obtain ⟨a, _, rfl⟩ := mem_optField h; rfl
  · obtain ⟨a, _, rfl⟩ := mem_optField h; rfl
  · obtain ⟨a, _, rfl⟩ := mem_optField h; rfl

/-- unrecognised fields do not reach any known field -/
theorem applyFields_unknown (fs : List Field) (p : Partial) (h : ∀ f ∈ fs, isKnown f = false) :
    applyFields p fs = some p := by
  induction fs generalizing p with
  | nil => rfl
  | cons f fs ih =>
    have hf := h f (List.mem_cons_self ..)
    have ht := ih p (fun g hg => h g (List.mem_cons_of_mem _ hg))
    unfold applyFields
    split <;> simp_all [isKnown]

theorem unknownOf_append (a b : List (Field × Bytes)) : unknownOf (a ++ b) = unknownOf a ++ unknownOf b := by
  simp [unknownOf, List.filter_append, List.flatMap_append]

theorem unknownOf_known (fs : List Field) (h : ∀ f ∈ fs, isKnown f = true) :
    unknownOf (fs.map fun f => (f, f.encode)) = [] := by
  induction fs with
  | nil => rfl
  | cons f fs ih =>
    have := ih (fun g hg => h g (List.mem_cons_of_mem _ hg))
    simp only [unknownOf] at this ⊢
    simp [List.filter_cons, h f (List.mem_cons_self ..), this]

theorem unknownOf_all (prs : List (Field × Bytes)) (h : ∀ p ∈ prs, isKnown p.1 = false) :
    unknownOf prs = prs.flatMap (·.2) := by
  unfold unknownOf
  congr 1
  rw [List.filter_eq_self]
  intro p hp
  simp [h p hp]

/-- **pb.Data round trip**: `FSNodeFromBytes(GetBytes())` returns the same message, retained unknown
fields included -/
theorem decode_encode (n : FSNode) (hw : Wf n) (hlen : (encode n).length < 2 ^ 64) :
    decode (encode n) = some n := by
  have hwf := toFields_wf n hw hlen
  have hm : ∀ m, n.mtime = some m → decodeMsg (encodeMsg (mtimeFields m)) = some (mtimeFields m) :=
    fun m hmm => decodeMsg_encodeMsg _ (mtimeFields_wf m (fun v hv => hw.nanos m v hmm hv))
  obtain ⟨prs, hprs, hunk⟩ := hw.unk
  have hraw := decodeMsgRaw_encode_append (toFields n) hwf n.unknown prs hprs
  have hconcat := decodeMsgRaw_concat hprs
  unfold decode encode
  rw [hraw]
  simp only [List.map_append, List.map_map]
  have hfst : (toFields n).map ((fun p : Field × Bytes => p.1) ∘ fun f => (f, f.encode)) = toFields n := by
    simp [Function.comp_def]
  rw [hfst, applyFields_append, applyFields_toFields n hw hm]
  simp only [Option.bind_some]
  rw [applyFields_unknown _ _ (by
    intro f hf
    obtain ⟨p, hp, rfl⟩ := List.mem_map.1 hf
    exact hunk p hp)]
  simp only [unknownOf_append, unknownOf_known _ (toFields_known n), List.nil_append,
    unknownOf_all prs hunk, hconcat]
  obtain ⟨type, data, filesize, blocksizes, hashType, fanout, mode, mtime, unknown⟩ := n
  cases mtime with
  | none => simp [finish]
  | some m => obtain ⟨s, ns⟩ := m; simp [finish]

theorem unk_nil : ∃ prs, decodeMsgRaw ([] : Bytes) = some prs ∧ ∀ p ∈ prs, isKnown p.1 = false :=
  ⟨[], decodeMsgRaw_nil, by simp⟩

end C18
