import BoxoModel.C18.Lemmas
import BoxoModel.C18.Codec
/-! C18: setters / getters of mode, mtime and size on the node model. -/
namespace C18
open Varint Proto Gen.C18

/-- the type bit `Mode()` adds: ModeDir for Directory / HAMTShard, ModeSymlink for Symlink -/
def typeBits (t : Nat) : BitVec 32 :=
  if t = 1 ∨ t = 5 then modeDir else if t = 4 then modeSymlink else 0#32

theorem low_of_mix (a u : BitVec 32) :
    ((a &&& 0xFFFFF000#32) ||| (u &&& 0xFFF#32)) &&& 0xFFF#32 = u &&& 0xFFF#32 := by
  ext i hi
  simp only [BitVec.getElem_and, BitVec.getElem_or]
  bits32 i <;> simp

theorem high_of_mix (a u : BitVec 32) :
    ((a &&& 0xFFFFF000#32) ||| (u &&& 0xFFF#32)) &&& 0xFFFFF000#32 = a &&& 0xFFFFF000#32 := by
  ext i hi
  simp only [BitVec.getElem_and, BitVec.getElem_or]
  bits32 i <;> simp

theorem perms_setModeFromUnix (n : FSNode) (u : BitVec 32) :
    (setModeFromUnix n u).mode.getD 0 &&& 0xFFF#32 = u &&& 0xFFF#32 := by
  unfold setModeFromUnix
  simp only []
  split
  · next h =>
    simp only [Bool.and_eq_true, beq_iff_eq] at h
    have hu : u = 0#32 := h.1
    subst hu; simp
  · simp [low_of_mix]

theorem ext_setModeFromUnix (n : FSNode) (u : BitVec 32) :
    extendedMode (setModeFromUnix n u) = extendedMode n := by
  unfold setModeFromUnix extendedMode
  simp only []
  split
  · next h =>
    simp only [Bool.and_eq_true, beq_iff_eq] at h
    have h2 := h.2
    rw [high_of_mix] at h2
    rw [h2]; simp
  · simp [high_of_mix]

theorem type_setModeFromUnix (n : FSNode) (u : BitVec 32) : (setModeFromUnix n u).type = n.type := by
  unfold setModeFromUnix; simp only []; split <;> rfl

/-- `Mode()` right after `SetMode(m)` -/
theorem modeOf_setMode (n : FSNode) (m : BitVec 32) :
    modeOf (setMode n m) = if m &&& permMask = 0#32 then 0#32 else (m &&& permMask) ||| typeBits n.type := by
  have hp : (setMode n m).mode.getD 0 &&& 0xFFF#32 = modePermsToUnixPerms m := by
    rw [setMode, perms_setModeFromUnix, toUnix_low12]
  have ht : (setMode n m).type = n.type := type_setModeFromUnix n _
  unfold modeOf
  simp only [hp, ht]
  by_cases hz : m &&& permMask = 0#32
  · have := (toUnix_eq_zero_iff m).2 hz
    simp [this, hz]
  · have hne : modePermsToUnixPerms m ≠ 0#32 := fun h => hz ((toUnix_eq_zero_iff m).1 h)
    have hb : (modePermsToUnixPerms m != 0) = true := by simpa using hne
    rw [if_pos hb, if_neg hz]
    simp only [toMode_toUnix, typeBits]
    by_cases h1 : n.type = 1 ∨ n.type = 5
    · simp [h1]
    · by_cases h4 : n.type = 4
      · simp [h1, h4]
      · simp [h1, h4]

theorem typeBits_and_permMask (t : Nat) : typeBits t &&& permMask = 0#32 := by
  unfold typeBits; split
  · decide
  · split <;> decide

theorem and_or_distrib_right (a b c : BitVec 32) : (a ||| b) &&& c = (a &&& c) ||| (b &&& c) := by
  ext i hi; simp [Bool.and_or_distrib_right]

theorem and_self_mask (a c : BitVec 32) : (a &&& c) &&& c = a &&& c := by
  ext i hi; simp [Bool.and_assoc]

/-- the permission bits read back are the permission bits set -/
theorem modeOf_setMode_perm (n : FSNode) (m : BitVec 32) :
    modeOf (setMode n m) &&& permMask = m &&& permMask := by
  rw [modeOf_setMode]
  split
  · next h => rw [h]; decide
  · rw [and_or_distrib_right, typeBits_and_permMask, and_self_mask]; simp

/-! ### mtime -/

/-- a Go `time.Time` whose Unix seconds fit int64 (always true in Go) and nanosecond in [0, 10^9) -/
def Time.valid (t : Time) : Prop := -(2 ^ 63 : Int) ≤ t.sec ∧ t.sec < 2 ^ 63 ∧ t.nsec < 1000000000

theorem modTime_setModTime (n : FSNode) (t : Time) (hv : t.valid) :
    modTime (setModTime n t) = if t.isZero then Time.zero else t := by
  unfold setModTime
  split
  · simp [modTime]
  · obtain ⟨s, ns⟩ := t
    obtain ⟨_, _, h3⟩ := hv
    simp only at h3
    by_cases hns : ns > 0
    · have : ¬ (ns < 1 ∨ ns > 999999999) := by omega
      simp [modTime, mtimeOf, hns]
      intro hc; omega
    · have : ns = 0 := by omega
      subst this
      simp [modTime, mtimeOf]

/-! ### size bookkeeping -/

/-- `Filesize` = length of the inline data + sum of the child block sizes (uint64 arithmetic) -/
def SizeOk (n : FSNode) : Prop := n.filesize = some ((dataLen n + n.blocksizes.sum) % 2 ^ 64)

theorem upd_eq (a : Nat) (d : Int) (ha : a < 2 ^ 64) :
    int64ToU64 (u64ToInt64 a + d) = (((a : Int) + d) % (2 ^ 64 : Int)).toNat := by
  unfold int64ToU64 u64ToInt64
  split <;> congr 1 <;> omega

theorem sizeOk_new (t : Nat) : SizeOk (newFSNode t) := by
  simp [SizeOk, newFSNode, updateFilesize, dataLen, int64ToU64, u64ToInt64]

theorem sizeOk_setData (n : FSNode) (d : Option Bytes) (h : SizeOk n) : SizeOk (setData n d) := by
  unfold SizeOk at *
  simp only [setData, updateFilesize, dataLen]
  rw [h]
  simp only [Option.getD_some]
  rw [upd_eq _ _ (Nat.mod_lt _ (by decide))]
  congr 1
  simp only [dataLen]
  omega

theorem sizeOk_addBlockSize (n : FSNode) (s : Nat) (hs : s < 2 ^ 64) (h : SizeOk n) :
    SizeOk (addBlockSize n s) := by
  unfold SizeOk at *
  simp only [addBlockSize, updateFilesize, dataLen, List.sum_append, List.sum_cons, List.sum_nil]
  rw [h]
  simp only [Option.getD_some]
  rw [upd_eq _ _ (Nat.mod_lt _ (by decide))]
  congr 1
  unfold u64ToInt64
  simp only [dataLen]
  split <;> omega

theorem sum_eraseIdx (l : List Nat) (i : Nat) (hi : i < l.length) :
    (l.eraseIdx i).sum + l.getD i 0 = l.sum := by
  induction l generalizing i with
  | nil => simp at hi
  | cons x xs ih =>
    cases i with
    | zero => simp; omega
    | succ j =>
      have := ih j (by simpa using hi)
      simp only [List.eraseIdx_cons_succ, List.sum_cons, List.getD_cons_succ]
      omega

theorem getD_lt_of_all (l : List Nat) (i : Nat) (h : ∀ v ∈ l, v < 2 ^ 64) : l.getD i 0 < 2 ^ 64 := by
  induction l generalizing i with
  | nil => simp
  | cons x xs ih =>
    cases i with
    | zero => simpa using h x (List.mem_cons_self ..)
    | succ j => simpa using ih j (fun v hv => h v (List.mem_cons_of_mem _ hv))

theorem sizeOk_removeBlockSize (n : FSNode) (i : Nat) (hi : i < n.blocksizes.length)
    (hb : ∀ v ∈ n.blocksizes, v < 2 ^ 64) (h : SizeOk n) : SizeOk (removeBlockSize n i) := by
  unfold SizeOk at *
  have hsum := sum_eraseIdx n.blocksizes i hi
  have hlt := getD_lt_of_all n.blocksizes i hb
  simp only [removeBlockSize, updateFilesize, dataLen]
  rw [h]
  simp only [Option.getD_some]
  rw [upd_eq _ _ (Nat.mod_lt _ (by decide))]
  congr 1
  unfold u64ToInt64
  simp only [dataLen]
  split <;> omega

/-- `RemoveAllBlockSizes` re-establishes the invariant from any state -/
theorem sizeOk_removeAll (n : FSNode) (hd : dataLen n < 2 ^ 64) : SizeOk (removeAllBlockSizes n) := by
  simp only [SizeOk, removeAllBlockSizes, List.sum_nil, Nat.add_zero]
  have : dataLen { n with blocksizes := [], filesize := some (dataLen n) } = dataLen n := rfl
  rw [this, Nat.mod_eq_of_lt hd]

theorem fileSize_of_sizeOk (n : FSNode) (h : SizeOk n) (ht : n.type = 2 ∨ n.type = 0) :
    fileSize n = (dataLen n + n.blocksizes.sum) % 2 ^ 64 := by
  unfold SizeOk at h
  unfold fileSize
  rcases ht with ht | ht <;> simp [ht, h]

theorem fileSize_symlink (n : FSNode) (ht : n.type = 4) : fileSize n = dataLen n := by
  simp [fileSize, ht]

/-! ### scalar ranges are preserved by the setters -/

theorem wf_setModeFromUnix (n : FSNode) (u : BitVec 32) (h : Wf n) : Wf (setModeFromUnix n u) := by
  unfold setModeFromUnix; simp only []
  split <;> exact ⟨h.type, h.filesize, h.blocks, h.hashType, h.fanout, h.secs, h.nanos, h.unk⟩

theorem wf_setExtendedMode (n : FSNode) (x : BitVec 32) (h : Wf n) : Wf (setExtendedMode n x) := by
  unfold setExtendedMode; simp only []
  split <;> exact ⟨h.type, h.filesize, h.blocks, h.hashType, h.fanout, h.secs, h.nanos, h.unk⟩

theorem wf_mtimeOf (t : Time) (hv : t.valid) :
    (-(2 ^ 63 : Int) ≤ (mtimeOf t).seconds ∧ (mtimeOf t).seconds < 2 ^ 63) ∧
    ∀ v, (mtimeOf t).nanos = some v → v < 2 ^ 32 := by
  obtain ⟨h1, h2, h3⟩ := hv
  refine ⟨⟨h1, h2⟩, ?_⟩
  intro v hvv
  simp only [mtimeOf] at hvv
  split at hvv
  · have : t.nsec = v := Option.some.inj hvv
    omega
  · cases hvv

theorem wf_setModTime (n : FSNode) (t : Time) (hv : t.valid) (h : Wf n) : Wf (setModTime n t) := by
  have hm := wf_mtimeOf t hv
  unfold setModTime
  split
  · exact ⟨h.type, h.filesize, h.blocks, h.hashType, h.fanout, by simp, by simp, h.unk⟩
  · refine ⟨h.type, h.filesize, h.blocks, h.hashType, h.fanout, ?_, ?_, h.unk⟩
    · intro m hmm; simp at hmm; subst hmm; exact hm.1
    · intro m v hmm hvv; simp at hmm; subst hmm; exact hm.2 v hvv

theorem updateFilesize_lt (n : FSNode) (d : Int) : ∀ v, (updateFilesize n d).filesize = some v → v < 2 ^ 64 := by
  intro v hv
  simp only [updateFilesize] at hv
  have := int64ToU64_lt (u64ToInt64 (n.filesize.getD 0) + d)
  have : int64ToU64 (u64ToInt64 (n.filesize.getD 0) + d) = v := Option.some.inj hv
  omega

theorem wf_new (t : Nat) (ht : t < 2 ^ 32) : Wf (newFSNode t) :=
  ⟨ht, updateFilesize_lt _ _, by simp [newFSNode, updateFilesize], by simp [newFSNode, updateFilesize],
    by simp [newFSNode, updateFilesize], by simp [newFSNode, updateFilesize],
    by simp [newFSNode, updateFilesize], unk_nil⟩

theorem wf_setData (n : FSNode) (d : Option Bytes) (h : Wf n) : Wf (setData n d) :=
  ⟨h.type, updateFilesize_lt _ _, h.blocks, h.hashType, h.fanout, h.secs, h.nanos, h.unk⟩

theorem wf_addBlockSize (n : FSNode) (s : Nat) (hs : s < 2 ^ 64) (h : Wf n) : Wf (addBlockSize n s) := by
  refine ⟨h.type, updateFilesize_lt _ _, ?_, h.hashType, h.fanout, h.secs, h.nanos, h.unk⟩
  intro v hv
  simp only [addBlockSize, updateFilesize, List.mem_append, List.mem_singleton] at hv
  rcases hv with hv | rfl
  · exact h.blocks v hv
  · exact hs

theorem wf_removeBlockSize (n : FSNode) (i : Nat) (h : Wf n) : Wf (removeBlockSize n i) := by
  refine ⟨h.type, updateFilesize_lt _ _, ?_, h.hashType, h.fanout, h.secs, h.nanos, h.unk⟩
  intro v hv
  simp only [removeBlockSize, updateFilesize] at hv
  exact h.blocks v (List.mem_of_mem_eraseIdx hv)

theorem wf_removeAll (n : FSNode) (hd : dataLen n < 2 ^ 64) (h : Wf n) : Wf (removeAllBlockSizes n) := by
  refine ⟨h.type, ?_, by simp [removeAllBlockSizes], h.hashType, h.fanout, h.secs, h.nanos, h.unk⟩
  intro v hv
  simp only [removeAllBlockSizes] at hv
  have : dataLen n = v := Option.some.inj hv
  omega

/-! ### size is untouched by the metadata setters -/

theorem sizeOk_setModeFromUnix (n : FSNode) (u : BitVec 32) (h : SizeOk n) : SizeOk (setModeFromUnix n u) := by
  unfold setModeFromUnix; simp only []; split <;> exact h

theorem sizeOk_setExtendedMode (n : FSNode) (x : BitVec 32) (h : SizeOk n) : SizeOk (setExtendedMode n x) := by
  unfold setExtendedMode; simp only []; split <;> exact h

theorem sizeOk_setModTime (n : FSNode) (t : Time) (h : SizeOk n) : SizeOk (setModTime n t) := by
  unfold setModTime; split <;> exact h

/-! ### `pbDataAddStat` -/

theorem modeOf_addStat (n : FSNode) (mode : BitVec 32) (t : Time) (hm : n.mode = none) :
    modeOf (addStat n mode t) =
      if mode &&& permMask = 0#32 then 0#32 else (mode &&& permMask) ||| typeBits n.type := by
  have key : ∀ k : FSNode, k.type = n.type →
      k.mode = (if mode != 0 then some (modePermsToUnixPerms mode) else none) →
      modeOf k = if mode &&& permMask = 0#32 then 0#32 else (mode &&& permMask) ||| typeBits n.type := by
    intro k hkt hkm
    by_cases hz : mode &&& permMask = 0#32
    · have hu := (toUnix_eq_zero_iff mode).2 hz
      unfold modeOf
      rw [hkm]
      split <;> simp [hu, hz]
    · have hne : modePermsToUnixPerms mode ≠ 0#32 := fun h => hz ((toUnix_eq_zero_iff mode).1 h)
      have hm0 : mode ≠ 0#32 := by
        intro h0; subst h0; exact hz (by decide)
      have hb : (mode != 0) = true := by simpa using hm0
      have hb2 : (modePermsToUnixPerms mode != 0) = true := by simpa using hne
      unfold modeOf
      rw [hkm, if_pos hb]
      simp only [Option.getD_some, toUnix_low12, hkt]
      rw [if_pos hb2, if_neg hz]
      simp only [toMode_toUnix, typeBits]
      by_cases h1 : n.type = 1 ∨ n.type = 5
      · simp [h1]
      · by_cases h4 : n.type = 4
        · simp [h1, h4]
        · simp [h1, h4]
  unfold addStat
  simp only []
  split
  · apply key
    · split <;> rfl
    · split <;> simp_all
  · apply key
    · split <;> rfl
    · split <;> simp_all

theorem modTime_addStat (n : FSNode) (mode : BitVec 32) (t : Time) (hv : t.valid) (hm : n.mtime = none) :
    modTime (addStat n mode t) = if t.isZero then Time.zero else t := by
  have h := modTime_setModTime n t hv
  by_cases hz : t.isZero = true
  · have : (addStat n mode t).mtime = none := by
      unfold addStat; simp only [hz, if_true]; split <;> exact hm
    simp [modTime, this, hz]
  · have h1 : (addStat n mode t).mtime = some (mtimeOf t) := by
      have hz' : t.isZero = false := by simpa using hz
      unfold addStat; simp only [hz', Bool.false_eq_true, if_false]
    have h2 : (setModTime n t).mtime = some (mtimeOf t) := by
      unfold setModTime; simp [hz]
    have h3 : modTime (addStat n mode t) = modTime (setModTime n t) := by
      unfold modTime; rw [h1, h2]
    rw [h3, h]

theorem wf_addStat (n : FSNode) (mode : BitVec 32) (t : Time) (hv : t.valid) (h : Wf n) :
    Wf (addStat n mode t) := by
  have hm := wf_mtimeOf t hv
  unfold addStat
  simp only []
  split
  · split <;> exact ⟨h.type, h.filesize, h.blocks, h.hashType, h.fanout, h.secs, h.nanos, h.unk⟩
  · split
    all_goals
      refine ⟨h.type, h.filesize, h.blocks, h.hashType, h.fanout, ?_, ?_, h.unk⟩
      · intro m hmm; simp at hmm; subst hmm; exact hm.1
      · intro m v hmm hvv; simp at hmm; subst hmm; exact hm.2 v hvv

end C18
