import BoxoModel.C22.Steps
/-!
Helper lemmas for C22, part 7: a second call inside the window in which doPinRecursive / Update
have released the pinner lock (`stepNested`).
-/
namespace C22

theorem good_pinRecursiveResume {s0 : Store} {s : St} (h : Good s0 s) (dag : Dag) (c name : Nat)
    (found changed : Bool) : Good s0 (pinRecursiveResume dag s c name found changed).1 := by
  unfold pinRecursiveResume
  split
  · exact h
  · split
    · exact h
    · exact good_flushPins (good_removeIds _ _ _ _ _ (good_removeIds _ _ _ _ _ (good_addPin h _ _ _)))

theorem good_updateResume {s0 : Store} {s : St} (h : Good s0 s) (dag : Dag) (src dst : Nat) (u : Bool) :
    Good s0 (updateResume dag s src dst u).1 := by
  unfold updateResume
  simp only []
  repeat' split
  all_goals first
    | exact h
    | exact good_flushPins (good_removePinsForCid (good_addPin h _ _ _) _ _)
    | exact good_flushPins (good_addPin h _ _ _)

theorem Good.relog {s0 : Store} {s : St} (h : Good s0 s) : Good s.store { s with log := [] } :=
  ⟨Tr.start s ⟨h.cons.1, fun _ => h.cons.2⟩, h.cons, h.flag, h.fresh, h.nodup⟩

theorem pinRecursiveResume_fail (dag : Dag) (s : St) (c name : Nat) (found changed : Bool)
    (hf : (pinRecursiveResume dag s c name found changed).2 ≠ .ok) :
    (pinRecursiveResume dag s c name found changed).1 = s := by
  unfold pinRecursiveResume at hf ⊢
  by_cases h1 : (!fetchOk dag s.present c) = true
  · rw [if_pos h1]
  · rw [if_neg h1] at hf ⊢
    by_cases h2 : (!found) = true ∧ changed = true ∧ s.store.idxR.hasAny c = true
    · rw [if_pos h2]
    · rw [if_neg h2] at hf; exact absurd rfl hf

theorem updateResume_fail (dag : Dag) (s : St) (src dst : Nat) (u : Bool)
    (hf : (updateResume dag s src dst u).2 ≠ .ok) : (updateResume dag s src dst u).1 = s := by
  unfold updateResume at hf ⊢
  simp only [] at hf ⊢
  by_cases h1 : (!diffEnum dag s.present (dag.n + 1) src dst) = true
  · rw [if_pos h1]
  · rw [if_neg h1] at hf ⊢
    by_cases h2 : (s.store.idxR.search src).length ≠ 1
    · rw [if_pos h2]
    · rw [if_neg h2] at hf ⊢
      by_cases h3 : s.store.idxR.hasAny dst = true
      · rw [if_pos h3]
      · rw [if_neg h3] at hf ⊢
        cases h4 : RMap.find s.store.recs ((s.store.idxR.search src).headD 0) with
        | none => rfl
        | some pp => rw [h4] at hf; exact absurd rfl hf

/-- the invariant survives a call B inside the window of a call A -/
theorem inv_stepNested (dag : Dag) {s : St} (h : Inv s) (opA opB : Op) : Inv (stepNested dag s opA opB).st := by
  have hs : ∀ p, Inv { s with log := [], present := p } := fun p => (h.good p).inv
  unfold stepNested
  split
  · exact (good_pinRecursiveResume (good_step dag (hs _) opB).relog dag _ _ _ _).inv
  · unfold nestedUpdate
    simp only []
    split
    · exact hs _
    · split
      · exact hs _
      · split
        · exact hs _
        · exact (good_updateResume (good_step dag (hs _) opB).relog dag _ _ _).inv
  · exact inv_step dag h opA

/-- a call A that fails (also after its window) has written nothing -/
theorem nested_failed_noop (dag : Dag) (s : St) (opA opB : Op)
    (hf : (stepNested dag s opA opB).resA ≠ .ok) : (stepNested dag s opA opB).logA = [] := by
  unfold stepNested at hf ⊢
  split
  · rename_i c name
    simp only [] at hf
    unfold nestedPin at hf ⊢
    simp only [] at hf ⊢
    rw [pinRecursiveResume_fail _ _ _ _ _ _ hf]
  · rename_i src dst u
    simp only [] at hf
    unfold nestedUpdate at hf ⊢
    simp only [] at hf ⊢
    by_cases h1 : (s.store.idxR.search src).length ≠ 1
    · rw [if_pos h1]
    · rw [if_neg h1] at hf ⊢
      by_cases h2 : src = dst
      · rw [if_pos h2]
      · rw [if_neg h2] at hf ⊢
        by_cases h3 : s.store.idxR.hasAny dst = true
        · rw [if_pos h3]
        · rw [if_neg h3] at hf ⊢
          simp only [] at hf ⊢
          rw [updateResume_fail _ _ _ _ _ hf]
  · rename_i hne1 hne2
    simp only [] at hf ⊢
    exact (failed_noop dag s opA hf).2.2.2

/-- what the resumed recursive pin guarantees: on success the cid is a recursive root; one pin per
(cid, mode) is preserved -/
theorem pinRecursiveResume_spec {s0 : Store} {s : St} (h : Good s0 s) (dag : Dag) (c name : Nat)
    (found changed : Bool) :
    ((pinRecursiveResume dag s c name found changed).2 = .ok → IsR (pinRecursiveResume dag s c name found changed).1 c) ∧
    (Uniq s → Uniq (pinRecursiveResume dag s c name found changed).1) := by
  unfold pinRecursiveResume
  by_cases h1 : (!fetchOk dag s.present c) = true
  · rw [if_pos h1]; exact ⟨fun hh => by simp at hh, fun hu => hu⟩
  · rw [if_neg h1]
    by_cases h2 : (!found) = true ∧ changed = true ∧ s.store.idxR.hasAny c = true
    · rw [if_pos h2]
      exact ⟨fun _ => (isR_iff_hasAny s c).1 h2.2.2, fun hu => hu⟩
    · rw [if_neg h2]
      have sp := pinRecursive_spec h c name
      exact ⟨fun _ => (sp.isR c).2 (Or.inl rfl), sp.uniq⟩

theorem updateResume_uniq {s0 : Store} {s : St} (h : Good s0 s) (dag : Dag) (src dst : Nat) (u : Bool)
    (hne : src ≠ dst) (hu : Uniq s) : Uniq (updateResume dag s src dst u).1 := by
  unfold updateResume
  simp only []
  by_cases h1 : (!diffEnum dag s.present (dag.n + 1) src dst) = true
  · rw [if_pos h1]; exact hu
  · rw [if_neg h1]
    by_cases h2 : (s.store.idxR.search src).length ≠ 1
    · rw [if_pos h2]; exact hu
    · rw [if_neg h2]
      by_cases h3 : s.store.idxR.hasAny dst = true
      · rw [if_pos h3]; exact hu
      · rw [if_neg h3]
        cases h4 : RMap.find s.store.recs ((s.store.idxR.search src).headD 0) with
        | none => exact hu
        | some pp =>
          simp only []
          have hdst : ¬ IsR s dst := fun hh => h3 ((isR_iff_hasAny s dst).2 hh)
          have sp := update_spec h src dst pp.name u hne hdst
          have := sp.uniq hu
          cases u <;> simpa using this

/-- one pin per (cid, mode) survives a call B inside the window of a call A -/
theorem uniq_stepNested (dag : Dag) {s : St} (h : Inv s) (hu : Uniq s) (opA opB : Op) :
    Uniq (stepNested dag s opA opB).st := by
  have hs : ∀ p, Inv { s with log := [], present := p } := fun p => (h.good p).inv
  have hus : ∀ p, Uniq { s with log := [], present := p } := fun p =>
    (uniq_congr (a := { s with log := [], present := p }) (b := s) rfl).2 hu
  unfold stepNested
  split
  · unfold nestedPin
    simp only []
    rename_i c name
    have g := (good_step dag (hs (if s.present.contains c then s.present else c :: s.present)) opB).relog
    have ub := step_uniq dag (hs (if s.present.contains c then s.present else c :: s.present)) (hus _) opB
    exact (pinRecursiveResume_spec g dag _ _ _ _).2 ((uniq_congr rfl).1 ub)
  · unfold nestedUpdate
    simp only []
    rename_i src dst u
    by_cases h1 : (s.store.idxR.search src).length ≠ 1
    · rw [if_pos h1]; exact hus _
    · rw [if_neg h1]
      by_cases h2 : src = dst
      · rw [if_pos h2]; exact hus _
      · rw [if_neg h2]
        by_cases h3 : s.store.idxR.hasAny dst = true
        · rw [if_pos h3]; exact hus _
        · rw [if_neg h3]
          simp only []
          have g := (good_step dag (hs s.present) opB).relog
          have ub := step_uniq dag (hs s.present) (hus s.present) opB
          exact updateResume_uniq g dag src dst u h2 ((uniq_congr rfl).1 ub)
  · exact step_uniq dag h hu opA

/-- a recursive Pin that returns ok leaves its cid recursively pinned, whatever ran inside its window -/
theorem nested_pin_ok (dag : Dag) {s : St} (h : Inv s) (c name : Nat) (opB : Op)
    (hok : (stepNested dag s (.pin c true name .ok) opB).resA = .ok) :
    IsR (stepNested dag s (.pin c true name .ok) opB).st c := by
  have hs : ∀ p, Inv { s with log := [], present := p } := fun p => (h.good p).inv
  simp only [stepNested, nestedPin] at hok ⊢
  exact (pinRecursiveResume_spec (good_step dag (hs _) opB).relog dag _ _ _ _).1 hok

end C22
