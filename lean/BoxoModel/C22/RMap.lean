/-
C22.RMap — private copy of the association-list map used for the pin records (`find / insert / erase`
with the lemmas the C22/C23 proofs need), so that the C22/C23 modules do not depend on a shared
library file that other properties keep extending.  Same definitions as `Lib/RMap.lean`.
Core Lean only.
-/
namespace C22.RMap

variable {κ ν : Type} [DecidableEq κ]

abbrev Map (κ ν : Type) := List (κ × ν)

def find : Map κ ν → κ → Option ν
  | [], _ => none
  | (k', v) :: r, k => if k' = k then some v else find r k

def erase (m : Map κ ν) (k : κ) : Map κ ν := m.filter fun p => p.1 ≠ k

def insert (m : Map κ ν) (k : κ) (v : ν) : Map κ ν := (k, v) :: erase m k

def keys (m : Map κ ν) : List κ := m.map (·.1)

def contains (m : Map κ ν) (k : κ) : Bool := (find m k).isSome

def NoDupKeys (m : Map κ ν) : Prop := (keys m).Nodup

/-- observational equality -/
def Equiv (a b : Map κ ν) : Prop := ∀ k, find a k = find b k

@[simp] theorem find_nil (k : κ) : find ([] : Map κ ν) k = none := rfl

theorem find_cons (k' : κ) (v : ν) (r : Map κ ν) (k : κ) :
    find ((k', v) :: r) k = if k' = k then some v else find r k := rfl

theorem find_erase_self (m : Map κ ν) (k : κ) : find (erase m k) k = none := by
  induction m with
  | nil => rfl
  | cons p r ih =>
    obtain ⟨k', v⟩ := p
    by_cases h : k' = k
    · simpa [erase, List.filter_cons, h] using ih
    · simpa [erase, List.filter_cons, h, find_cons] using ih

theorem find_erase_ne (m : Map κ ν) (k k2 : κ) (h : k ≠ k2) : find (erase m k) k2 = find m k2 := by
  induction m with
  | nil => rfl
  | cons p r ih =>
    obtain ⟨k', v⟩ := p
    by_cases h1 : k' = k
    · subst h1
      simpa [erase, List.filter_cons, find_cons, h] using ih
    · by_cases h2 : k' = k2
      · subst h2
        simp [erase, h1, find_cons]
      · simpa [erase, List.filter_cons, h1, find_cons, h2] using ih

theorem find_erase (m : Map κ ν) (k k2 : κ) :
    find (erase m k) k2 = if k = k2 then none else find m k2 := by
  by_cases h : k = k2
  · subst h; simp [find_erase_self]
  · simp [h, find_erase_ne m k k2 h]

theorem find_insert_self (m : Map κ ν) (k : κ) (v : ν) : find (insert m k v) k = some v := by
  simp [insert, find_cons]

theorem find_insert_ne (m : Map κ ν) (k k2 : κ) (v : ν) (h : k ≠ k2) :
    find (insert m k v) k2 = find m k2 := by
  simp [insert, find_cons, h, find_erase_ne m k k2 h]

theorem find_insert (m : Map κ ν) (k k2 : κ) (v : ν) :
    find (insert m k v) k2 = if k = k2 then some v else find m k2 := by
  by_cases h : k = k2
  · subst h; simp [find_insert_self]
  · simp [h, find_insert_ne m k k2 v h]

theorem mem_keys_iff (m : Map κ ν) (k : κ) : k ∈ keys m ↔ (find m k).isSome = true := by
  induction m with
  | nil => simp [keys]
  | cons p r ih =>
    obtain ⟨k', v⟩ := p
    by_cases h : k' = k
    · simp [keys, find_cons, h]
    · have h' : ¬ k = k' := fun e => h e.symm
      simp only [keys, List.map_cons, List.mem_cons, find_cons, h, if_false, h', false_or] at ih ⊢
      exact ih

theorem find_eq_none_iff (m : Map κ ν) (k : κ) : find m k = none ↔ k ∉ keys m := by
  rw [mem_keys_iff]; cases find m k <;> simp

theorem mem_of_find (m : Map κ ν) (k : κ) (v : ν) (h : find m k = some v) : (k, v) ∈ m := by
  induction m with
  | nil => simp at h
  | cons p r ih =>
    obtain ⟨k', v'⟩ := p
    by_cases h1 : k' = k
    · simp [find_cons, h1] at h; simp [h1, h]
    · simp [find_cons, h1] at h; exact List.mem_cons_of_mem _ (ih h)

theorem find_of_mem (m : Map κ ν) (hm : NoDupKeys m) (k : κ) (v : ν) (h : (k, v) ∈ m) :
    find m k = some v := by
  induction m with
  | nil => simp at h
  | cons p r ih =>
    obtain ⟨k', v'⟩ := p
    simp only [NoDupKeys, keys, List.map_cons, List.nodup_cons] at hm
    rcases List.mem_cons.mp h with e | h
    · cases e; simp [find_cons]
    · have : k' ≠ k := by
        intro e; subst e
        exact hm.1 (List.mem_map.mpr ⟨(k', v), h, rfl⟩)
      simp [find_cons, this]; exact ih hm.2 h

theorem mem_keys_erase (m : Map κ ν) (k k2 : κ) : k2 ∈ keys (erase m k) ↔ k2 ≠ k ∧ k2 ∈ keys m := by
  rw [mem_keys_iff, mem_keys_iff, find_erase]
  by_cases h : k = k2
  · subst h; simp
  · have : k2 ≠ k := fun e => h e.symm
    simp [h, this]

theorem mem_keys_insert (m : Map κ ν) (k k2 : κ) (v : ν) :
    k2 ∈ keys (insert m k v) ↔ k2 = k ∨ k2 ∈ keys m := by
  rw [mem_keys_iff, mem_keys_iff, find_insert]
  by_cases h : k = k2
  · subst h; simp
  · have : k2 ≠ k := fun e => h e.symm
    simp [h, this]

omit [DecidableEq κ] in
theorem noDupKeys_nil : NoDupKeys ([] : Map κ ν) := by simp [NoDupKeys, keys]

theorem noDupKeys_erase (m : Map κ ν) (k : κ) (h : NoDupKeys m) : NoDupKeys (erase m k) := by
  unfold NoDupKeys keys erase at *
  exact (List.filter_sublist.map _).nodup h

theorem noDupKeys_insert (m : Map κ ν) (k : κ) (v : ν) (h : NoDupKeys m) : NoDupKeys (insert m k v) := by
  have h1 := noDupKeys_erase m k h
  have h2 : k ∉ keys (erase m k) := by rw [mem_keys_erase]; simp
  simp only [NoDupKeys, insert, keys, List.map_cons, List.nodup_cons] at *
  exact ⟨h2, h1⟩

end C22.RMap
