import BoxoModel.C22.Spec
/-!
Helper lemmas for C22, part 5: the query functions answer according to the pin model.
-/
namespace C22

/-- a DAG whose links go strictly down a rank bounded by the pool size (acyclic, finite depth) -/
def Dag.WF (dag : Dag) : Prop := ∃ rk : Nat → Nat, (∀ x y, y ∈ dag.links x → rk y < rk x) ∧ ∀ x, rk x ≤ dag.n

/-- the pin model's answer to "is `c` pinned indirectly" -/
def IndirectAns (dag : Dag) (s : St) (c : Nat) (r : QRes) : Prop :=
  (r = .no ∧ ∀ root, IsR s root → ¬ Reach dag root c) ∨
    ∃ root, r = .via root ∧ IsR s root ∧ Reach dag root c

theorem indirect_ans (dag : Dag) (s : St) (c : Nat) :
    indirectLoop dag s.present c s.store.idxR [] = .notfound ∨
      IndirectAns dag s c (indirectLoop dag s.present c s.store.idxR []) := by
  obtain ⟨h1, h2, h3, h4, h5⟩ := indirectLoop_spec dag s.present c s.store.idxR []
    (by intro x hx; simp at hx)
  cases hr : indirectLoop dag s.present c s.store.idxR [] with
  | notfound => exact Or.inl rfl
  | via root =>
    obtain ⟨⟨id, hid⟩, hre⟩ := h1 root hr
    exact Or.inr (Or.inr ⟨root, rfl, ⟨id, hid⟩, hre⟩)
  | no =>
    refine Or.inr (Or.inl ⟨rfl, ?_⟩)
    rintro root ⟨id, hid⟩
    exact h2 hr root id hid
  | recursive => exact absurd hr h3
  | direct => exact absurd hr h4
  | invalid => exact absurd hr h5

theorem isR_iff_hasAny (s : St) (c : Nat) : s.store.idxR.hasAny c = true ↔ IsR s c := by
  rw [Idx.hasAny_iff]; rfl
theorem isD_iff_hasAny (s : St) (c : Nat) : s.store.idxD.hasAny c = true ↔ IsD s c := by
  rw [Idx.hasAny_iff]; rfl
theorem isR_iff_search (s : St) (c : Nat) : s.store.idxR.search c ≠ [] ↔ IsR s c := by
  rw [← Idx.hasAny_iff_search]; exact isR_iff_hasAny s c
theorem isD_iff_search (s : St) (c : Nat) : s.store.idxD.search c ≠ [] ↔ IsD s c := by
  rw [← Idx.hasAny_iff_search]; exact isD_iff_hasAny s c

/-- the answer of IsPinnedWithType for every mode -/
def QuerySpec (dag : Dag) (s : St) (c : Nat) (mode : Int) (r : QRes) : Prop :=
  if mode = 0 then (IsR s c ∧ r = .recursive) ∨ (¬ IsR s c ∧ r = .no)
  else if mode = 1 then (IsD s c ∧ r = .direct) ∨ (¬ IsD s c ∧ r = .no)
  else if mode = 3 then r = .no
  else if mode = 2 then (IsR s c ∧ r = .no) ∨ (¬ IsR s c ∧ (r = .notfound ∨ IndirectAns dag s c r))
  else if mode = 5 then (IsR s c ∧ r = .recursive) ∨ (¬ IsR s c ∧ IsD s c ∧ r = .direct) ∨
    (¬ IsR s c ∧ ¬ IsD s c ∧ (r = .notfound ∨ IndirectAns dag s c r))
  else r = .invalid

theorem isPinnedWithType_spec (dag : Dag) (s : St) (c : Nat) (mode : Int) :
    QuerySpec dag s c mode (isPinnedWithType dag s c mode) := by
  unfold QuerySpec isPinnedWithType
  have hR := isR_iff_hasAny s c
  have hD := isD_iff_hasAny s c
  have hi := indirect_ans dag s c
  by_cases m0 : mode = 0
  · simp only [m0, if_true]
    by_cases h : s.store.idxR.hasAny c = true
    · simp [h, hR.1 h]
    · have nr : ¬ IsR s c := fun hh => h (hR.2 hh)
      simp [h, nr]
  · by_cases m1 : mode = 1
    · simp only [m0, m1, if_true, if_false]
      by_cases h : s.store.idxD.hasAny c = true
      · simp [h, hD.1 h]
      · have nd : ¬ IsD s c := fun hh => h (hD.2 hh)
        simp [h, nd]
    · by_cases m3 : mode = 3
      · simp [m3]
      · by_cases m2 : mode = 2
        · simp only [m2, if_true]
          by_cases h : s.store.idxR.hasAny c = true
          · simp [h, hR.1 h]
          · have : ¬ IsR s c := fun hh => h (hR.2 hh)
            simp only [h, this]
            simpa using hi
        · by_cases m5 : mode = 5
          · simp only [m5, if_true]
            by_cases h : s.store.idxR.hasAny c = true
            · simp [h, hR.1 h]
            · have nr : ¬ IsR s c := fun hh => h (hR.2 hh)
              by_cases h' : s.store.idxD.hasAny c = true
              · simp [h, h', nr, hD.1 h']
              · have nd : ¬ IsD s c := fun hh => h' (hD.2 hh)
                simp only [h, h', nr, nd]
                simpa using hi
          · simp [m0, m1, m2, m3, m5]

/-- no error when every block below the recursive roots is in the block store -/
theorem isPinnedWithType_no_error (dag : Dag) (wf : dag.WF) (s : St) (c : Nat) (mode : Int)
    (hall : ∀ root, IsR s root → root ∈ s.present ∧ ∀ x, Reach dag root x → x ∈ s.present) :
    isPinnedWithType dag s c mode ≠ .notfound := by
  obtain ⟨rk, hrk, hn⟩ := wf
  have hi := indirectLoop_no_error dag s.present c rk hrk hn s.store.idxR []
    (fun r id hm => hall r ⟨id, hm⟩)
  unfold isPinnedWithType
  simp only []
  repeat' split
  all_goals first
    | exact hi
    | simp

end C22

namespace C22

theorem pinName_R {s : St} (no : s.store.NoOrphan) (c : Nat) (h : s.store.idxR.search c ≠ []) :
    RName s c (pinName s (s.store.idxR.search c)) := by
  cases hs : s.store.idxR.search c with
  | nil => exact absurd hs h
  | cons id rest =>
    have hid : s.store.has .R c id := (search_has s.store .R c id).1 (by rw [show (s.store.idx .R) = s.store.idxR from rfl, hs]; simp)
    obtain ⟨nm, e⟩ := no.r c id hid
    refine ⟨id, _, hid, e, ?_⟩
    have e' : RMap.find s.store.recs id = some ⟨c, .recursive, nm⟩ := e
    simp [pinName, e']

theorem pinName_D {s : St} (no : s.store.NoOrphan) (c : Nat) (h : s.store.idxD.search c ≠ []) :
    DName s c (pinName s (s.store.idxD.search c)) := by
  cases hs : s.store.idxD.search c with
  | nil => exact absurd hs h
  | cons id rest =>
    have hid : s.store.has .D c id := (search_has s.store .D c id).1 (by rw [show (s.store.idx .D) = s.store.idxD from rfl, hs]; simp)
    obtain ⟨nm, e⟩ := no.d c id hid
    refine ⟨id, _, hid, e, ?_⟩
    have e' : RMap.find s.store.recs id = some ⟨c, .direct, nm⟩ := e
    simp [pinName, e']

theorem viaRoot_spec (dag : Dag) (wf : dag.WF) (s : St) (c : Nat) :
    (∀ r, viaRoot dag s.store.idxR c = some r → IsR s r ∧ (c = r ∨ Reach dag r c)) ∧
    (viaRoot dag s.store.idxR c = none → ∀ r, IsR s r → ¬ (c = r ∨ Reach dag r c)) := by
  obtain ⟨rk, hrk, hn⟩ := wf
  unfold viaRoot
  constructor
  · intro r hr
    cases hf : s.store.idxR.find? (fun e => reachStar dag e.1 c) with
    | none => simp [hf] at hr
    | some e =>
      simp [hf] at hr; subst hr
      have h1 := List.find?_some hf
      have h2 := List.mem_of_find?_eq_some hf
      exact ⟨⟨e.2, h2⟩, (reachStar_iff dag rk hrk hn e.1 c).1 h1⟩
  · intro hnone r ⟨id, hid⟩ hre
    cases hf : s.store.idxR.find? (fun e => reachStar dag e.1 c) with
    | some e => simp [hf] at hnone
    | none =>
      rw [List.find?_eq_none] at hf
      have := hf (r, id) hid
      exact this ((reachStar_iff dag rk hrk hn r c).2 hre)

/-- the pin model's answer for one cid of a batch query -/
def BatchSpec (dag : Dag) (s : St) (mode : Int) (names : Bool) (c : Nat) (e : BRes) : Prop :=
  let ind := (e = .no ∧ ∀ root, IsR s root → ¬ Reach dag root c) ∨
    ∃ root, e = .ind root ∧ IsR s root ∧ Reach dag root c
  let recu := ∃ nm, e = .recursive nm ∧ (if names = true then RName s c nm else nm = 0)
  let dire := ∃ nm, e = .direct nm ∧ (if names = true then DName s c nm else nm = 0)
  if mode = 0 then (IsR s c ∧ recu) ∨ (¬ IsR s c ∧ e = .no)
  else if mode = 1 then (IsD s c ∧ dire) ∨ (¬ IsD s c ∧ e = .no)
  else if mode = 2 then (IsR s c ∧ e = .no) ∨ (¬ IsR s c ∧ ind)
  else if mode = 5 then (IsR s c ∧ recu) ∨ (¬ IsR s c ∧ IsD s c ∧ dire) ∨ (¬ IsR s c ∧ ¬ IsD s c ∧ ind)
  else e = .no

theorem batchEntry_spec (dag : Dag) (wf : dag.WF) (s : St) (no : s.store.NoOrphan)
    (mode : Int) (names : Bool) (c : Nat) :
    BatchSpec dag s mode names c (batchEntry dag s mode names c) := by
  have hR := isR_iff_search s c
  have hD := isD_iff_search s c
  obtain ⟨v1, v2⟩ := viaRoot_spec dag wf s c
  -- the indirect answer, for a cid that is not itself a recursive root
  have hind : ¬ IsR s c →
      let e := (match viaRoot dag s.store.idxR c with | some r => BRes.ind r | none => BRes.no)
      (e = .no ∧ ∀ root, IsR s root → ¬ Reach dag root c) ∨
        ∃ root, e = .ind root ∧ IsR s root ∧ Reach dag root c := by
    intro nr
    cases hv : viaRoot dag s.store.idxR c with
    | none =>
      left
      exact ⟨rfl, fun root hroot hre => v2 hv root hroot (Or.inr hre)⟩
    | some r =>
      right
      obtain ⟨a, b⟩ := v1 r hv
      refine ⟨r, rfl, a, ?_⟩
      rcases b with rfl | b
      · exact absurd a nr
      · exact b
  have hnmR : s.store.idxR.search c ≠ [] →
      (if names = true then RName s c (if names = true then pinName s (s.store.idxR.search c) else 0)
        else (if names = true then pinName s (s.store.idxR.search c) else 0) = 0) := by
    intro h; cases names <;> simp [pinName_R no c h]
  have hnmD : s.store.idxD.search c ≠ [] →
      (if names = true then DName s c (if names = true then pinName s (s.store.idxD.search c) else 0)
        else (if names = true then pinName s (s.store.idxD.search c) else 0) = 0) := by
    intro h; cases names <;> simp [pinName_D no c h]
  by_cases m0 : mode = 0
  · subst m0
    have e1 : batchEntry dag s 0 names c = if s.store.idxR.search c ≠ [] then
        .recursive (if names = true then pinName s (s.store.idxR.search c) else 0) else .no := by
      simp [batchEntry]
    rw [e1]
    simp only [BatchSpec, if_true]
    by_cases h : s.store.idxR.search c ≠ []
    · rw [if_pos h]
      exact Or.inl ⟨hR.1 h, _, rfl, hnmR h⟩
    · rw [if_neg h]
      exact Or.inr ⟨fun hh => h (hR.2 hh), rfl⟩
  · by_cases m1 : mode = 1
    · subst m1
      have e1 : batchEntry dag s 1 names c = if s.store.idxD.search c ≠ [] then
          .direct (if names = true then pinName s (s.store.idxD.search c) else 0) else .no := by
        simp [batchEntry]
      rw [e1]
      simp only [BatchSpec, if_true, show ¬ ((1 : Int) = 0) by decide, if_false]
      by_cases h : s.store.idxD.search c ≠ []
      · rw [if_pos h]
        exact Or.inl ⟨hD.1 h, _, rfl, hnmD h⟩
      · rw [if_neg h]
        exact Or.inr ⟨fun hh => h (hD.2 hh), rfl⟩
    · by_cases m2 : mode = 2
      · subst m2
        have e1 : batchEntry dag s 2 names c = if s.store.idxR.search c ≠ [] then .no else
            (match viaRoot dag s.store.idxR c with | some r => BRes.ind r | none => BRes.no) := by
          unfold batchEntry; rfl
        rw [e1]
        simp only [BatchSpec, if_true, show ¬ ((2 : Int) = 0) by decide, show ¬ ((2 : Int) = 1) by decide, if_false]
        by_cases h : s.store.idxR.search c ≠ []
        · rw [if_pos h]
          exact Or.inl ⟨hR.1 h, rfl⟩
        · rw [if_neg h]
          have nr : ¬ IsR s c := fun hh => h (hR.2 hh)
          exact Or.inr ⟨nr, hind nr⟩
      · by_cases m5 : mode = 5
        · subst m5
          have e1 : batchEntry dag s 5 names c = if s.store.idxR.search c ≠ [] then
              .recursive (if names = true then pinName s (s.store.idxR.search c) else 0)
              else if s.store.idxD.search c ≠ [] then
                .direct (if names = true then pinName s (s.store.idxD.search c) else 0)
              else (match viaRoot dag s.store.idxR c with | some r => BRes.ind r | none => BRes.no) := by
            unfold batchEntry; rfl
          rw [e1]
          simp only [BatchSpec, if_true, show ¬ ((5 : Int) = 0) by decide, show ¬ ((5 : Int) = 1) by decide,
            show ¬ ((5 : Int) = 2) by decide, if_false]
          by_cases h : s.store.idxR.search c ≠ []
          · rw [if_pos h]
            exact Or.inl ⟨hR.1 h, _, rfl, hnmR h⟩
          · have nr : ¬ IsR s c := fun hh => h (hR.2 hh)
            rw [if_neg h]
            by_cases h' : s.store.idxD.search c ≠ []
            · rw [if_pos h']
              exact Or.inr (Or.inl ⟨nr, hD.1 h', _, rfl, hnmD h'⟩)
            · have nd : ¬ IsD s c := fun hh => h' (hD.2 hh)
              rw [if_neg h']
              exact Or.inr (Or.inr ⟨nr, nd, hind nr⟩)
        · simp [BatchSpec, batchEntry, m0, m1, m2, m5]

end C22

namespace C22

/-- the streamIndex loop -/
theorem listKeys_go_spec (s : St) (detailed : Bool) :
    ∀ (idx : Idx) (seen : List Nat),
      (∀ c id, (c, id) ∈ idx → ∃ pp, s.store.rec? id = some pp ∧ pp.cid = c) →
      ((listKeys.go s detailed idx seen).map (·.1)).Nodup ∧
      (∀ c, c ∈ (listKeys.go s detailed idx seen).map (·.1) ↔ c ∉ seen ∧ ∃ id, (c, id) ∈ idx) ∧
      (∀ e ∈ listKeys.go s detailed idx seen,
        (detailed = true → ∃ id pp, e.2 = some pp ∧ (e.1, id) ∈ idx ∧ s.store.rec? id = some pp) ∧
        (detailed = false → e.2 = none)) := by
  intro idx
  induction idx with
  | nil => intro seen _; simp [listKeys.go]
  | cons e rest ih =>
    intro seen hrec
    obtain ⟨c, id⟩ := e
    have hrec' : ∀ c id, (c, id) ∈ rest → ∃ pp, s.store.rec? id = some pp ∧ pp.cid = c :=
      fun c' id' hm => hrec c' id' (by simp [hm])
    have lift : ∀ (l : List (Nat × Option PinRec)),
        (∀ e ∈ l, (detailed = true → ∃ id pp, e.2 = some pp ∧ (e.1, id) ∈ rest ∧ s.store.rec? id = some pp) ∧
          (detailed = false → e.2 = none)) →
        (∀ e ∈ l, (detailed = true → ∃ id' pp, e.2 = some pp ∧ (e.1, id') ∈ (c, id) :: rest ∧ s.store.rec? id' = some pp) ∧
          (detailed = false → e.2 = none)) := by
      intro l hl e he
      refine ⟨fun hd => ?_, (hl e he).2⟩
      obtain ⟨id', pp, x, y, z⟩ := (hl e he).1 hd
      exact ⟨id', pp, x, by simp [y], z⟩
    unfold listKeys.go
    by_cases hs : seen.contains c = true
    · simp only [hs, if_true]
      obtain ⟨a1, a2, a3⟩ := ih seen hrec'
      refine ⟨a1, ?_, lift _ a3⟩
      intro c'
      rw [a2]
      have hsm : c ∈ seen := by simpa using hs
      constructor
      · rintro ⟨h1, id', h2⟩; exact ⟨h1, id', by simp [h2]⟩
      · rintro ⟨h1, id', h2⟩
        refine ⟨h1, ?_⟩
        simp only [List.mem_cons, Prod.mk.injEq] at h2
        rcases h2 with ⟨rfl, _⟩ | h2
        · exact absurd hsm h1
        · exact ⟨id', h2⟩
    · simp only [hs]
      have hsm : c ∉ seen := by simpa using hs
      obtain ⟨pp, hp, hpc⟩ := hrec c id (by simp)
      obtain ⟨a1, a2, a3⟩ := ih (c :: seen) hrec'
      have hp' : RMap.find s.store.recs id = some pp := hp
      have goal : ∀ o : Option PinRec, (detailed = true → o = some pp) → (detailed = false → o = none) →
          (((c, o) :: listKeys.go s detailed rest (c :: seen)).map (·.1)).Nodup ∧
          (∀ c', c' ∈ ((c, o) :: listKeys.go s detailed rest (c :: seen)).map (·.1) ↔
            c' ∉ seen ∧ ∃ id', (c', id') ∈ (c, id) :: rest) ∧
          (∀ e ∈ (c, o) :: listKeys.go s detailed rest (c :: seen),
            (detailed = true → ∃ id' pp', e.2 = some pp' ∧ (e.1, id') ∈ (c, id) :: rest ∧ s.store.rec? id' = some pp') ∧
            (detailed = false → e.2 = none)) := by
        intro o ho1 ho2
        have key : ((c, o) :: listKeys.go s detailed rest (c :: seen)).map (·.1) =
            c :: (listKeys.go s detailed rest (c :: seen)).map (·.1) := by simp
        refine ⟨?_, ?_, ?_⟩
        · rw [key, List.nodup_cons]
          refine ⟨?_, a1⟩
          rw [a2]; simp
        · intro c'
          rw [key, List.mem_cons, a2]
          constructor
          · rintro (rfl | ⟨h1, id', h2⟩)
            · exact ⟨hsm, id, by simp⟩
            · simp only [List.mem_cons, not_or] at h1
              exact ⟨h1.2, id', by simp [h2]⟩
          · rintro ⟨h1, id', h2⟩
            by_cases hc : c' = c
            · exact Or.inl hc
            · right
              simp only [List.mem_cons, Prod.mk.injEq] at h2
              rcases h2 with ⟨rfl, _⟩ | h2
              · exact absurd rfl hc
              · exact ⟨by simp [hc, h1], id', h2⟩
        · intro e he
          simp only [List.mem_cons] at he
          rcases he with rfl | he
          · exact ⟨fun hd => ⟨id, pp, ho1 hd, by simp, hp⟩, ho2⟩
          · exact lift _ a3 e he
      cases detailed with
      | false => simpa using goal none (by simp) (fun _ => rfl)
      | true => simpa [hp', hpc] using goal (some pp) (fun _ => rfl) (by simp)

end C22

namespace C22

/-- `dangling`: some recursive root reaches (or is) a block that is not in the block store -/
theorem dangling_iff (dag : Dag) (wf : dag.WF) (s : St) :
    dangling dag s = true ↔ ∃ root, IsR s root ∧ ∃ x, (x = root ∨ Reach dag root x) ∧ x ∉ s.present := by
  obtain ⟨rk, hrk, hn⟩ := wf
  have hmem : ∀ r x, x ∈ reachSet dag (dag.n + 1) [] r ↔ (x = r ∨ Reach dag r x) := by
    intro r x
    rw [← reachStar_iff dag rk hrk hn r x, reachStar, List.contains_iff_mem]
  unfold dangling
  rw [List.any_eq_true]
  constructor
  · rintro ⟨⟨r, id⟩, hm, hx⟩
    rw [List.any_eq_true] at hx
    obtain ⟨x, hx1, hx2⟩ := hx
    exact ⟨r, ⟨id, hm⟩, x, (hmem r x).1 hx1, by simpa using hx2⟩
  · rintro ⟨r, ⟨id, hm⟩, x, hx1, hx2⟩
    refine ⟨(r, id), hm, ?_⟩
    rw [List.any_eq_true]
    exact ⟨x, (hmem r x).2 hx1, by simpa using hx2⟩

end C22

namespace C22

/-! ### one pin per (cid, mode) ⇒ the index lists one id -/

def Store.NodupIdx (st : Store) : Prop := st.idxR.Nodup ∧ st.idxD.Nodup

theorem apply_nodupIdx (st : Store) (w : Write) (h : st.NodupIdx) : (st.apply w).NodupIdx := by
  cases w with
  | putDirty b => exact h
  | putRec id r => exact h
  | delRec id => exact h
  | addIdx x k v => cases x <;> simp only [Store.apply, Store.setIdx, Store.idx, Store.NodupIdx] <;>
      first | exact ⟨Idx.nodup_add _ _ h.1, h.2⟩ | exact ⟨h.1, Idx.nodup_add _ _ h.2⟩ | exact h
  | delIdx x k v => cases x <;> simp only [Store.apply, Store.setIdx, Store.idx, Store.NodupIdx] <;>
      first | exact ⟨Idx.nodup_del _ _ h.1, h.2⟩ | exact ⟨h.1, Idx.nodup_del _ _ h.2⟩ | exact h

theorem applyAll_nodupIdx (X : List Write) : ∀ st : Store, st.NodupIdx → (st.applyAll X).NodupIdx := by
  induction X with
  | nil => intro st h; exact h
  | cons w r ih => intro st h; exact ih _ (apply_nodupIdx st w h)

theorem step_nodupIdx (dag : Dag) {s : St} (h : Inv s) (op : Op) (hn : s.store.NodupIdx) :
    (step dag s op).1.store.NodupIdx := by
  rw [(good_step dag h op).tr.1]
  exact applyAll_nodupIdx _ _ hn

theorem length_le_one_of_all_eq {α : Type} (l : List α) (hn : l.Nodup) (he : ∀ a ∈ l, ∀ b ∈ l, a = b) :
    l.length ≤ 1 := by
  match l, hn, he with
  | [], _, _ => simp
  | [_], _, _ => simp
  | a :: b :: r, hn, he =>
    have : a = b := he a (by simp) b (by simp)
    subst this
    simp at hn

theorem search_nodup (x : Idx) (c : Nat) (h : x.Nodup) : (x.search c).Nodup := by
  unfold Idx.search
  have hf : (x.filter (·.1 == c)).Nodup := h.sublist List.filter_sublist
  rw [List.nodup_iff_pairwise_ne, List.pairwise_map]
  rw [List.nodup_iff_pairwise_ne] at hf
  refine List.Pairwise.imp_of_mem ?_ hf
  intro a b ha hb hab h2
  simp only [List.mem_filter, beq_iff_eq] at ha hb
  exact hab (Prod.ext (ha.2.trans hb.2.symm) h2)

theorem search_length (s : St) (hn : s.store.NodupIdx) (hu : Uniq s) (c : Nat) :
    (s.store.idxR.search c).length ≤ 1 ∧ (s.store.idxD.search c).length ≤ 1 := by
  constructor
  · apply length_le_one_of_all_eq _ (search_nodup _ c hn.1)
    intro a ha b hb
    exact (hu c a b).1 ((search_has s.store .R c a).1 ha) ((search_has s.store .R c b).1 hb)
  · apply length_le_one_of_all_eq _ (search_nodup _ c hn.2)
    intro a ha b hb
    exact (hu c a b).2 ((search_has s.store .D c a).1 ha) ((search_has s.store .D c b).1 hb)

end C22
