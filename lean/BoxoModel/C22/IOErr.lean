import BoxoModel.C22.Window
/-!
Helper lemmas for C23 (deepening): the state left by a call whose k-th datastore write failed.
-/
namespace C22

/-- a call aborted by a failed write leaves exactly the first k writes (a crash image), plus — when the
failed write was addPin's name-index entry — the deletion of the cid index entry just added -/
theorem stepIO_abort (dag : Dag) (s : St) (op : Op) (k : Nat) (h : (stepIO dag s op k).res = none) :
    ∃ comp : List Write, (comp = [] ∨ ∃ x c id, comp = [.delIdx x c id]) ∧
      ((∀ a b, (step dag s op).1.log[k]? ≠ some (.addIdx .N a b)) → comp = []) ∧
      (stepIO dag s op k).st.store = (s.store.applyAll ((step dag s op).1.log.take k)).applyAll comp := by
  unfold stepIO at h ⊢
  simp only [] at h ⊢
  cases hk : (step dag s op).1.log[k]? with
  | none => simp [hk] at h
  | some w =>
    cases w with
    | putDirty b =>
      rw [hk] at h
      exfalso
      match b, h with
      | 0, h => simp at h
      | 1, h => simp at h
      | n + 2, h => simp at h
    | putRec id r =>
      refine ⟨[], Or.inl rfl, fun _ => rfl, ?_⟩
      simp [Store.applyAll]
    | delRec id =>
      refine ⟨[], Or.inl rfl, fun _ => rfl, ?_⟩
      simp [Store.applyAll]
    | delIdx x c id =>
      refine ⟨[], Or.inl rfl, fun _ => rfl, ?_⟩
      simp [Store.applyAll]
    | addIdx x c id =>
      cases x with
      | R => exact ⟨[], Or.inl rfl, fun _ => rfl, by simp [Store.applyAll]⟩
      | D => exact ⟨[], Or.inl rfl, fun _ => rfl, by simp [Store.applyAll]⟩
      | N =>
        cases hp : (step dag s op).1.log[k - 1]? with
        | none => exact ⟨[], Or.inl rfl, fun hh => rfl, by simp [Store.applyAll, hp]⟩
        | some w' =>
          cases w' with
          | addIdx x' c' id' =>
            refine ⟨[.delIdx x' c' id'], Or.inr ⟨_, _, _, rfl⟩, fun hh => absurd rfl (hh c id), ?_⟩
            simp [Store.applyAll, hp, List.foldl_append]
          | putDirty b => exact ⟨[], Or.inl rfl, fun hh => rfl, by simp [Store.applyAll, hp]⟩
          | putRec a b => exact ⟨[], Or.inl rfl, fun hh => rfl, by simp [Store.applyAll, hp]⟩
          | delRec a => exact ⟨[], Or.inl rfl, fun hh => rfl, by simp [Store.applyAll, hp]⟩
          | delIdx a b c => exact ⟨[], Or.inl rfl, fun hh => rfl, by simp [Store.applyAll, hp]⟩

/-- after a failed write the live pinner never has an index entry without its pin record -/
theorem stepIO_noOrphan (dag : Dag) {s : St} (hi : Inv s) (op : Op) (k : Nat)
    (h : (stepIO dag s op k).res = none) : (stepIO dag s op k).st.store.NoOrphan := by
  obtain ⟨comp, hc, _, e⟩ := stepIO_abort dag s op k h
  rw [e]
  have hs := ((good_step dag hi op).tr.2 k).1
  rcases hc with rfl | ⟨x, c, id, rfl⟩
  · simpa [Store.applyAll] using hs
  · simpa [Store.applyAll] using hs.delIdx x c id

end C22
