import BoxoModel.C22.Lemmas
/-!
Helper lemmas for C22, part 3: what the operations do to the views (`has`, `rec?`) of a
consistent store.
-/
namespace C22

/-- in a store without orphans all index entries of a pin id belong to its record -/
theorem entries_of_id {st : Store} (h : st.NoOrphan) (id : Nat) (pp : PinRec) (hp : st.rec? id = some pp)
    (w : Which) (k : Nat) (hk : st.has w k id) :
    (w = modeIdx pp.mode ∧ k = pp.cid) ∨ (w = .N ∧ pp.name ≠ 0 ∧ k = pp.name) := by
  cases w with
  | R => obtain ⟨nm, e⟩ := h.r k id hk; rw [hp] at e; cases e; simp [modeIdx]
  | D => obtain ⟨nm, e⟩ := h.d k id hk; rw [hp] at e; cases e; simp [modeIdx]
  | N => obtain ⟨h0, c, m, e⟩ := h.n k id hk; rw [hp] at e; cases e; simp [h0]

theorem removePin_has' {s0 : Store} {s : St} (h : Good s0 s) (id : Nat) (pp : PinRec)
    (hp : s.store.rec? id = some pp) (w : Which) (k v : Nat) :
    (removePin s id pp).store.has w k v ↔ s.store.has w k v ∧ v ≠ id := by
  rw [removePin_has]
  constructor
  · rintro ⟨h1, h2, h3⟩
    refine ⟨h1, ?_⟩
    rintro rfl
    rcases entries_of_id h.cons.1 v pp hp w k h1 with ⟨a, b⟩ | ⟨a, b, c⟩
    · exact h2 ⟨a, b, rfl⟩
    · exact h3 ⟨a, b, c, rfl⟩
  · rintro ⟨h1, h2⟩
    exact ⟨h1, fun hh => h2 hh.2.2, fun hh => h2 hh.2.2.2⟩

theorem removeIds_effect {s0 : Store} (c : Nat) (mode : Option Mode) :
    ∀ (ids : List Nat) (s : St) (removed : Bool), Good s0 s →
      (∀ id ∈ ids, ∀ pp, s.store.rec? id = some pp → mode = none ∨ mode = some pp.mode) →
      (∀ w k v, (removeIds c mode ids s removed).1.store.has w k v ↔ s.store.has w k v ∧ v ∉ ids) ∧
      (∀ j, (removeIds c mode ids s removed).1.store.rec? j = if j ∈ ids then none else s.store.rec? j) := by
  intro ids
  induction ids with
  | nil => intro s removed _ _; simp [removeIds]
  | cons id rest ih =>
    intro s removed h hm
    unfold removeIds
    cases hp : RMap.find s.store.recs id with
    | some pp =>
      simp only []
      have hmode := hm id (by simp) pp hp
      have hcond : mode = none ∨ mode = some pp.mode := hmode
      simp only [hcond, if_true]
      have g1 := good_removePin h id pp hp
      obtain ⟨e1, e2⟩ := ih (removePin s id pp) true g1 (by
        intro id' hid' pp' hp'
        rw [removePin_rec] at hp'
        split at hp'
        · simp at hp'
        · exact hm id' (by simp [hid']) pp' hp')
      refine ⟨?_, ?_⟩
      · intro w k v
        rw [e1, removePin_has' h id pp hp]
        simp only [List.mem_cons, not_or]
        constructor
        · rintro ⟨⟨a, b⟩, c'⟩; exact ⟨a, b, c'⟩
        · rintro ⟨a, b, c'⟩; exact ⟨⟨a, b⟩, c'⟩
      · intro j
        rw [e2, removePin_rec]
        by_cases hj : j = id
        · subst hj; simp
        · have : ¬ id = j := fun e => hj e.symm
          simp [hj, this]
    | none =>
      simp only []
      -- repair branch: the id has no record, hence (no orphans) no index entry at all
      have hnone : ∀ w k, ¬ s.store.has w k id := h.cons.1.noEntry id hp
      have m1 := good_setDirty h
      have hi1 : (setDirty s).store.Indexed := by
        intro j pj hj
        simp only [setDirty_rec, setDirty_has] at hj ⊢
        exact h.cons.2 j pj hj
      have hid1 : (setDirty s).store.rec? id = none := by rw [setDirty_rec]; exact hp
      have hfr : ∀ t : St, t.nextId = s.nextId → (∀ j, t.store.rec? j = s.store.rec? j) →
          ∀ j, t.nextId ≤ j → t.store.rec? j = none := by
        intro t h1 h2 j hj; rw [h2]; exact h.fresh j (by omega)
      -- the state after the repair writes, in each of the three modes
      have hmid : ∃ t : St, Good s0 t ∧ (∀ w k v, t.store.has w k v ↔ s.store.has w k v) ∧
          (∀ j, t.store.rec? j = s.store.rec? j) ∧
          setClean (repairIdx (setDirty s) c mode id) = t := by
        refine ⟨_, ?_, ?_, ?_, rfl⟩
        · unfold repairIdx
          apply good_setClean
          cases mode with
          | none =>
            obtain ⟨a1, a2, a3⟩ := mid_delOrphan m1 hi1 .R c id hid1
            obtain ⟨b1, b2, _⟩ := mid_delOrphan a1 a2 .D c id a3
            exact b1.toGood b2 (hfr _ (by simp) (by intro j; simp [Store.rec_apply]))
          | some md =>
            cases md with
            | recursive =>
              obtain ⟨a1, a2, _⟩ := mid_delOrphan m1 hi1 .R c id hid1
              exact a1.toGood a2 (hfr _ (by simp) (by intro j; simp [Store.rec_apply]))
            | direct =>
              obtain ⟨a1, a2, _⟩ := mid_delOrphan m1 hi1 .D c id hid1
              exact a1.toGood a2 (hfr _ (by simp) (by intro j; simp [Store.rec_apply]))
        · intro w k v
          cases mode with
          | none =>
            simp only [repairIdx, setClean_has, write_has, Store.has_apply, setDirty_has]
            constructor
            · exact fun hh => hh.1.1
            · intro hh
              refine ⟨⟨hh, ?_⟩, ?_⟩ <;> (rintro ⟨_, _, rfl⟩; exact hnone _ _ hh)
          | some md =>
            cases md <;>
            · simp only [repairIdx, setClean_has, write_has, Store.has_apply, setDirty_has]
              constructor
              · exact fun hh => hh.1
              · intro hh
                refine ⟨hh, ?_⟩
                rintro ⟨_, _, rfl⟩; exact hnone _ _ hh
        · intro j
          cases mode with
          | none => simp [repairIdx, Store.rec_apply]
          | some md => cases md <;> simp [repairIdx, Store.rec_apply]
      obtain ⟨t, gt, ht1, ht2, et⟩ := hmid
      rw [et]
      obtain ⟨e1, e2⟩ := ih t true gt (by
        intro id' hid' pp' hp'
        rw [ht2] at hp'
        exact hm id' (by simp [hid']) pp' hp')
      refine ⟨?_, ?_⟩
      · intro w k v
        rw [e1, ht1]
        simp only [List.mem_cons, not_or]
        constructor
        · rintro ⟨a, b⟩
          exact ⟨a, fun e => hnone w k (e ▸ a), b⟩
        · rintro ⟨a, _, b⟩; exact ⟨a, b⟩
      · intro j
        rw [e2, ht2]
        by_cases hj : j = id
        · subst hj; simp [Store.rec?, hp]
        · simp [hj]

end C22

namespace C22

/-- ids found in the cid index of mode `m` have records of mode `m` -/
theorem search_mode {st : Store} (h : st.NoOrphan) (m : Mode) (c id : Nat)
    (hid : id ∈ (st.idx (modeIdx m)).search c) (pp : PinRec) (hp : st.rec? id = some pp) :
    pp.mode = m ∧ pp.cid = c := by
  rw [Idx.mem_search] at hid
  cases m with
  | recursive =>
    obtain ⟨nm, e⟩ := h.r c id hid
    rw [hp] at e; cases e; exact ⟨rfl, rfl⟩
  | direct =>
    obtain ⟨nm, e⟩ := h.d c id hid
    rw [hp] at e; cases e; exact ⟨rfl, rfl⟩

theorem search_has (st : Store) (w : Which) (c id : Nat) : id ∈ (st.idx w).search c ↔ st.has w c id := by
  rw [Idx.mem_search]; rfl

/-- the views after the successful branch of doPinRecursive -/
theorem pinRecursive_views {s0 : Store} {s : St} (h : Good s0 s) (c name : Nat) :
    let oldR := s.store.idxR.search c
    let oldD := s.store.idxD.search c
    let s' := flushPins (removeIds c (some .direct) oldD
      (removeIds c (some .recursive) oldR (addPin s c .recursive name) false).1 false).1
    (∀ w k v, s'.store.has w k v ↔
      ((w = .R ∧ k = c ∧ v = s.nextId) ∨ (w = .N ∧ name ≠ 0 ∧ k = name ∧ v = s.nextId) ∨ s.store.has w k v) ∧
        v ∉ oldR ∧ v ∉ oldD) ∧
    (∀ j, s'.store.rec? j = if j ∈ oldR ∨ j ∈ oldD then none
      else if s.nextId = j then some ⟨c, .recursive, name⟩ else s.store.rec? j) := by
  intro oldR oldD s'
  have hnew : s.store.rec? s.nextId = none := h.fresh _ (Nat.le_refl _)
  have hnewR : s.nextId ∉ oldR := by
    intro hh
    obtain ⟨nm, e⟩ := h.cons.1.r c _ ((search_has s.store .R c _).1 hh)
    simp [hnew] at e
  have hnewD : s.nextId ∉ oldD := by
    intro hh
    obtain ⟨nm, e⟩ := h.cons.1.d c _ ((search_has s.store .D c _).1 hh)
    simp [hnew] at e
  have g1 := good_addPin h c .recursive name
  obtain ⟨a1, a2⟩ := removeIds_effect (s0 := s0) c (some .recursive) oldR (addPin s c .recursive name) false g1 (by
    intro id hid pp hp
    rw [addPin_rec] at hp
    have : ¬ s.nextId = id := fun e => hnewR (e ▸ hid)
    simp only [this, if_false] at hp
    exact Or.inr (by rw [(search_mode h.cons.1 .recursive c id hid pp hp).1]))
  have g2 := good_removeIds (s0 := s0) c (some .recursive) oldR _ false g1
  obtain ⟨b1, b2⟩ := removeIds_effect (s0 := s0) c (some .direct) oldD _ false g2 (by
    intro id hid pp hp
    rw [a2, addPin_rec] at hp
    split at hp
    · simp at hp
    · have : ¬ s.nextId = id := fun e => hnewD (e ▸ hid)
      simp only [this, if_false] at hp
      exact Or.inr (by rw [(search_mode h.cons.1 .direct c id hid pp hp).1]))
  refine ⟨?_, ?_⟩
  · intro w k v
    simp only [s', flushPins_has]
    rw [b1, a1, addPin_has]
    simp only [modeIdx]
    constructor
    · rintro ⟨⟨x, y⟩, z⟩; exact ⟨x, y, z⟩
    · rintro ⟨x, y, z⟩; exact ⟨⟨x, y⟩, z⟩
  · intro j
    simp only [s', flushPins_rec]
    rw [b2, a2, addPin_rec]
    by_cases h1 : j ∈ oldD <;> by_cases h2 : j ∈ oldR <;> simp [h1, h2]

/-- the views after the successful branch of doPinDirect -/
theorem pinDirect_views {s0 : Store} {s : St} (h : Good s0 s) (c name : Nat) :
    let oldD := s.store.idxD.search c
    let s' := flushPins (removeIds c (some .direct) oldD (addPin s c .direct name) false).1
    (∀ w k v, s'.store.has w k v ↔
      ((w = .D ∧ k = c ∧ v = s.nextId) ∨ (w = .N ∧ name ≠ 0 ∧ k = name ∧ v = s.nextId) ∨ s.store.has w k v) ∧
        v ∉ oldD) ∧
    (∀ j, s'.store.rec? j = if j ∈ oldD then none
      else if s.nextId = j then some ⟨c, .direct, name⟩ else s.store.rec? j) := by
  intro oldD s'
  have hnew : s.store.rec? s.nextId = none := h.fresh _ (Nat.le_refl _)
  have hnewD : s.nextId ∉ oldD := by
    intro hh
    obtain ⟨nm, e⟩ := h.cons.1.d c _ ((search_has s.store .D c _).1 hh)
    simp [hnew] at e
  have g1 := good_addPin h c .direct name
  obtain ⟨a1, a2⟩ := removeIds_effect (s0 := s0) c (some .direct) oldD (addPin s c .direct name) false g1 (by
    intro id hid pp hp
    rw [addPin_rec] at hp
    have : ¬ s.nextId = id := fun e => hnewD (e ▸ hid)
    simp only [this, if_false] at hp
    exact Or.inr (by rw [(search_mode h.cons.1 .direct c id hid pp hp).1]))
  refine ⟨?_, ?_⟩
  · intro w k v
    simp only [s', flushPins_has]
    rw [a1, addPin_has]
    simp only [modeIdx]
  · intro j
    simp only [s', flushPins_rec]
    rw [a2, addPin_rec]

/-- the views after removePinsForCid(c, Any) -/
theorem unpin_views {s0 : Store} {s : St} (h : Good s0 s) (c : Nat) :
    let ids := s.store.idxR.search c ++ s.store.idxD.search c
    (∀ w k v, (removePinsForCid s c none).1.store.has w k v ↔ s.store.has w k v ∧ v ∉ ids) ∧
    (∀ j, (removePinsForCid s c none).1.store.rec? j = if j ∈ ids then none else s.store.rec? j) := by
  intro ids
  exact removeIds_effect (s0 := s0) c none ids s false h (fun _ _ _ _ => Or.inl rfl)

/-- the views after removePinsForCid(c, Recursive) -/
theorem removeRec_views {s0 : Store} {s : St} (h : Good s0 s) (c : Nat) :
    let ids := s.store.idxR.search c
    (∀ w k v, (removePinsForCid s c (some .recursive)).1.store.has w k v ↔ s.store.has w k v ∧ v ∉ ids) ∧
    (∀ j, (removePinsForCid s c (some .recursive)).1.store.rec? j = if j ∈ ids then none else s.store.rec? j) := by
  intro ids
  exact removeIds_effect (s0 := s0) c (some .recursive) ids s false h (by
    intro id hid pp hp
    exact Or.inr (by rw [(search_mode h.cons.1 .recursive c id hid pp hp).1]))

end C22
