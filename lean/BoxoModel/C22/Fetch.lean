import BoxoModel.C22.Dfs
/-!
Helper lemmas for C22 (deepening): `fetchOk` (the model of merkledag.FetchGraph's outcome) succeeds
exactly when every block at or below the root is in the block store.
-/
namespace C22

/-- what a successful walk guarantees -/
def WDone (dag : Dag) (present : List Nat) (links vis v S : List Nat) : Prop :=
  (∀ a ∈ vis, a ∈ v) ∧ Closed' dag v S ∧ (∀ y ∈ links, y ∈ v) ∧ ∀ a ∈ v, a ∉ vis → a ∈ present

theorem walk_fold_sound (dag : Dag) (present : List Nat) (f : Nat)
    (ih : ∀ vis x v S, walk dag present f vis x = some v → Closed' dag vis S → WDone dag present [x] vis v S) :
    ∀ (cs vis v S : List Nat), cs.foldlM (fun v y => walk dag present f v y) vis = some v →
      Closed' dag vis S → WDone dag present cs vis v S := by
  intro cs
  induction cs with
  | nil =>
    intro vis v S h hc
    simp at h; subst h
    exact ⟨fun _ h => h, hc, by simp, fun a ha hn => absurd ha hn⟩
  | cons c cs ihc =>
    intro vis v S h hc
    simp only [List.foldlM_cons] at h
    cases hw : walk dag present f vis c with
    | none => simp [hw] at h
    | some v1 =>
      simp only [hw] at h
      obtain ⟨a1, a2, a3, a4⟩ := ih vis c v1 S hw hc
      obtain ⟨b1, b2, b3, b4⟩ := ihc v1 v S h a2
      refine ⟨fun a ha => b1 _ (a1 _ ha), b2, ?_, ?_⟩
      · intro y hy
        simp only [List.mem_cons] at hy
        rcases hy with rfl | hy
        · exact b1 _ (a3 _ (by simp))
        · exact b3 y hy
      · intro a ha hn
        by_cases h1 : a ∈ v1
        · exact a4 a h1 hn
        · exact b4 a ha h1

theorem walk_sound (dag : Dag) (present : List Nat) :
    ∀ f vis x v S, walk dag present f vis x = some v → Closed' dag vis S → WDone dag present [x] vis v S := by
  intro f
  induction f with
  | zero => intro vis x v S h; simp [walk] at h
  | succ f ih =>
    intro vis x v S h hc
    unfold walk at h
    by_cases hx : vis.contains x = true
    · simp only [hx, if_true] at h
      cases h
      exact ⟨fun _ h => h, hc, by simpa using hx, fun a ha hn => absurd ha hn⟩
    · simp only [hx] at h
      by_cases hp : (!present.contains x) = true
      · rw [if_pos hp] at h; cases h
      · rw [if_neg hp] at h
        have hc' : Closed' dag (x :: vis) (x :: S) := by
          intro a ha has y hy
          simp only [List.mem_cons, not_or] at ha has
          rcases ha with rfl | ha
          · exact absurd rfl has.1
          · simp [hc a ha has.2 y hy]
        obtain ⟨a1, a2, a3, a4⟩ := walk_fold_sound dag present f ih (dag.links x) (x :: vis) v (x :: S) h hc'
        refine ⟨fun a ha => a1 _ (by simp [ha]), ?_, ?_, ?_⟩
        · intro a ha has y hy
          by_cases hax : a = x
          · subst hax; exact a3 y hy
          · exact a2 a ha (by simp [hax, has]) y hy
        · intro y hy
          simp only [List.mem_singleton] at hy
          subst hy
          exact a1 _ (by simp)
        · intro a ha hn
          by_cases hax : a = x
          · subst hax; simpa using hp
          · exact a4 a ha (by simp [hax, hn])

theorem walk_fold_some (dag : Dag) (present : List Nat) (f : Nat) :
    ∀ (cs vis : List Nat), (∀ c ∈ cs, ∀ vis, walk dag present f vis c ≠ none) →
      cs.foldlM (fun v y => walk dag present f v y) vis ≠ none := by
  intro cs
  induction cs with
  | nil => intro vis _; simp
  | cons c cs ih =>
    intro vis h
    simp only [List.foldlM_cons]
    cases hw : walk dag present f vis c with
    | none => exact absurd hw (h c (by simp) vis)
    | some v1 => exact ih v1 (fun c' hc' => h c' (by simp [hc']))

theorem walk_some (dag : Dag) (present : List Nat) (rk : Nat → Nat)
    (hrk : ∀ x y, y ∈ dag.links x → rk y < rk x) :
    ∀ f vis x, rk x < f → x ∈ present → (∀ y, Reach dag x y → y ∈ present) →
      walk dag present f vis x ≠ none := by
  intro f
  induction f with
  | zero => intro vis x h; omega
  | succ f ih =>
    intro vis x hf hp hall
    unfold walk
    split
    · simp
    · have : present.contains x = true := by simpa using hp
      simp only [this, Bool.not_true, Bool.false_eq_true, if_false]
      apply walk_fold_some
      intro c hc vis'
      exact ih vis' c (by have := hrk x c hc; omega) (hall c (.link hc)) (fun y hy => hall y (.step hc hy))

/-- FetchGraph succeeds iff the root and every block below it are in the block store -/
theorem fetchOk_iff (dag : Dag) (rk : Nat → Nat) (hrk : ∀ x y, y ∈ dag.links x → rk y < rk x)
    (hn : ∀ x, rk x ≤ dag.n) (present : List Nat) (c : Nat) :
    fetchOk dag present c = true ↔ c ∈ present ∧ ∀ y, Reach dag c y → y ∈ present := by
  unfold fetchOk
  constructor
  · intro h
    cases hw : walk dag present (dag.n + 1) [] c with
    | none => simp [hw] at h
    | some v =>
      obtain ⟨_, a2, a3, a4⟩ := walk_sound dag present _ _ _ _ [] hw (by intro a ha; simp at ha)
      have hc : c ∈ v := a3 c (by simp)
      exact ⟨a4 c hc (by simp), fun y hy => a4 y (closed'_reach a2 hc hy) (by simp)⟩
  · rintro ⟨h1, h2⟩
    have := walk_some dag present rk hrk (dag.n + 1) [] c (by have := hn c; omega) h1 h2
    cases hw : walk dag present (dag.n + 1) [] c with
    | none => exact absurd hw this
    | some v => simp

end C22
