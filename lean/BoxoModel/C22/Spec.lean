import BoxoModel.C22.Effects
import BoxoModel.C22.Dfs
/-!
Helper lemmas for C22, part 4: the abstract pin model read off a state, and how each successful
operation changes it.
-/
namespace C22

/-- `c` is a recursive root / a direct pin according to the indexes -/
def IsR (s : St) (c : Nat) : Prop := ∃ id, s.store.has .R c id
def IsD (s : St) (c : Nat) : Prop := ∃ id, s.store.has .D c id

/-- `c` is pinned recursively / directly under the name `nm` -/
def RName (s : St) (c nm : Nat) : Prop :=
  ∃ id pp, s.store.has .R c id ∧ s.store.rec? id = some pp ∧ pp.name = nm
def DName (s : St) (c nm : Nat) : Prop :=
  ∃ id pp, s.store.has .D c id ∧ s.store.rec? id = some pp ∧ pp.name = nm

/-- one pin per (cid, mode) -/
def Uniq (s : St) : Prop :=
  ∀ c id1 id2, (s.store.has .R c id1 → s.store.has .R c id2 → id1 = id2) ∧
    (s.store.has .D c id1 → s.store.has .D c id2 → id1 = id2)

theorem owner_RR {st : Store} (h : st.NoOrphan) {k k' v : Nat} (h1 : st.has .R k v) (h2 : st.has .R k' v) : k = k' := by
  obtain ⟨_, e1⟩ := h.r k v h1
  obtain ⟨_, e2⟩ := h.r k' v h2
  rw [e1] at e2; cases e2; rfl

theorem owner_DD {st : Store} (h : st.NoOrphan) {k k' v : Nat} (h1 : st.has .D k v) (h2 : st.has .D k' v) : k = k' := by
  obtain ⟨_, e1⟩ := h.d k v h1
  obtain ⟨_, e2⟩ := h.d k' v h2
  rw [e1] at e2; cases e2; rfl

theorem owner_RD {st : Store} (h : st.NoOrphan) {k k' v : Nat} (h1 : st.has .R k v) (h2 : st.has .D k' v) : False := by
  obtain ⟨_, e1⟩ := h.r k v h1
  obtain ⟨_, e2⟩ := h.d k' v h2
  rw [e1] at e2; cases e2

theorem fresh_no_entry {s0 : Store} {s : St} (h : Good s0 s) (w : Which) (k : Nat) : ¬ s.store.has w k s.nextId :=
  h.cons.1.noEntry _ (h.fresh _ (Nat.le_refl _)) w k

/-- pin model after a successful recursive pin of `c` under `name` -/
structure PinRecSpec (s s' : St) (c name : Nat) : Prop where
  isR : ∀ k, IsR s' k ↔ k = c ∨ IsR s k
  isD : ∀ k, IsD s' k ↔ k ≠ c ∧ IsD s k
  rname : ∀ k nm, RName s' k nm ↔ if k = c then nm = name else RName s k nm
  dname : ∀ k nm, DName s' k nm ↔ k ≠ c ∧ DName s k nm
  uniq : Uniq s → Uniq s'

theorem pinRecursive_spec {s0 : Store} {s : St} (h : Good s0 s) (c name : Nat) :
    PinRecSpec s (flushPins (removeIds c (some .direct) (s.store.idxD.search c)
      (removeIds c (some .recursive) (s.store.idxR.search c) (addPin s c .recursive name) false).1 false).1) c name := by
  obtain ⟨hv, hr⟩ := pinRecursive_views h c name
  have no := h.cons.1
  have inR : ∀ v, v ∈ s.store.idxR.search c ↔ s.store.has .R c v := fun v => search_has s.store .R c v
  have inD : ∀ v, v ∈ s.store.idxD.search c ↔ s.store.has .D c v := fun v => search_has s.store .D c v
  have hR : ∀ k v, (flushPins (removeIds c (some .direct) (s.store.idxD.search c)
      (removeIds c (some .recursive) (s.store.idxR.search c) (addPin s c .recursive name) false).1 false).1).store.has .R k v ↔
      (k = c ∧ v = s.nextId) ∨ (k ≠ c ∧ s.store.has .R k v) := by
    intro k v
    rw [hv, inR, inD]
    constructor
    · rintro ⟨(⟨_, rfl, rfl⟩ | ⟨hw, _⟩ | hh), n1, n2⟩
      · exact Or.inl ⟨rfl, rfl⟩
      · cases hw
      · by_cases hk : k = c
        · subst hk; exact absurd hh n1
        · exact Or.inr ⟨hk, hh⟩
    · rintro (⟨rfl, rfl⟩ | ⟨hk, hh⟩)
      · exact ⟨Or.inl ⟨rfl, rfl, rfl⟩, fresh_no_entry h _ _, fresh_no_entry h _ _⟩
      · exact ⟨Or.inr (Or.inr hh), fun h2 => hk (owner_RR no hh h2), fun h2 => owner_RD no hh h2⟩
  have hD : ∀ k v, (flushPins (removeIds c (some .direct) (s.store.idxD.search c)
      (removeIds c (some .recursive) (s.store.idxR.search c) (addPin s c .recursive name) false).1 false).1).store.has .D k v ↔
      k ≠ c ∧ s.store.has .D k v := by
    intro k v
    rw [hv, inR, inD]
    constructor
    · rintro ⟨(⟨hw, _⟩ | ⟨hw, _⟩ | hh), n1, n2⟩
      · cases hw
      · cases hw
      · exact ⟨fun hk => n2 (hk ▸ hh), hh⟩
    · rintro ⟨hk, hh⟩
      exact ⟨Or.inr (Or.inr hh), fun h2 => owner_RD no h2 hh, fun h2 => hk (owner_DD no hh h2)⟩
  have hrec_old : ∀ k v, k ≠ c → (s.store.has .R k v ∨ s.store.has .D k v) →
      (flushPins (removeIds c (some .direct) (s.store.idxD.search c)
      (removeIds c (some .recursive) (s.store.idxR.search c) (addPin s c .recursive name) false).1 false).1).store.rec? v = s.store.rec? v := by
    intro k v hk hh
    rw [hr]
    have n1 : ¬ s.store.has .R c v := by
      rintro h2; rcases hh with hh | hh
      · exact hk (owner_RR no hh h2)
      · exact owner_RD no h2 hh
    have n2 : ¬ s.store.has .D c v := by
      rintro h2; rcases hh with hh | hh
      · exact owner_RD no hh h2
      · exact hk (owner_DD no hh h2)
    have n3 : ¬ s.nextId = v := by
      rintro rfl; rcases hh with hh | hh <;> exact fresh_no_entry h _ _ hh
    have e1 : ¬ (v ∈ s.store.idxR.search c ∨ v ∈ s.store.idxD.search c) := by
      rw [inR, inD]; exact fun hx => hx.elim n1 n2
    rw [if_neg e1, if_neg n3]
  refine ⟨?_, ?_, ?_, ?_, ?_⟩
  · intro k
    simp only [IsR, hR]
    constructor
    · rintro ⟨id, (⟨rfl, _⟩ | ⟨_, hh⟩)⟩
      · exact Or.inl rfl
      · exact Or.inr ⟨id, hh⟩
    · rintro (rfl | ⟨id, hh⟩)
      · exact ⟨_, Or.inl ⟨rfl, rfl⟩⟩
      · by_cases hk : k = c
        · exact ⟨_, Or.inl ⟨hk, rfl⟩⟩
        · exact ⟨id, Or.inr ⟨hk, hh⟩⟩
  · intro k
    simp only [IsD, hD]
    constructor
    · rintro ⟨id, hk, hh⟩; exact ⟨hk, id, hh⟩
    · rintro ⟨hk, id, hh⟩; exact ⟨id, hk, hh⟩
  · intro k nm
    by_cases hk : k = c
    · rw [if_pos hk]
      have e1 : ¬ (s.nextId ∈ s.store.idxR.search c ∨ s.nextId ∈ s.store.idxD.search c) := by
        rw [inR, inD]; exact fun hx => hx.elim (fresh_no_entry h _ _) (fresh_no_entry h _ _)
      constructor
      · rintro ⟨id, pp, hh, hp, rfl⟩
        rcases (hR k id).1 hh with ⟨_, rfl⟩ | ⟨hk', _⟩
        · rw [hr, if_neg e1, if_pos rfl] at hp
          cases hp; rfl
        · exact absurd hk hk'
      · rintro rfl
        refine ⟨s.nextId, ⟨c, .recursive, nm⟩, (hR k _).2 (Or.inl ⟨hk, rfl⟩), ?_, rfl⟩
        rw [hr, if_neg e1, if_pos rfl]
    · rw [if_neg hk]
      simp only [RName, hR]
      constructor
      · rintro ⟨id, pp, (⟨hk', _⟩ | ⟨_, hh⟩), hp, rfl⟩
        · exact absurd hk' hk
        · rw [hrec_old k id hk (Or.inl hh)] at hp
          exact ⟨id, pp, hh, hp, rfl⟩
      · rintro ⟨id, pp, hh, hp, rfl⟩
        exact ⟨id, pp, Or.inr ⟨hk, hh⟩, by rw [hrec_old k id hk (Or.inl hh)]; exact hp, rfl⟩
  · intro k nm
    simp only [DName, hD]
    constructor
    · rintro ⟨id, pp, ⟨hk, hh⟩, hp, rfl⟩
      rw [hrec_old k id hk (Or.inr hh)] at hp
      exact ⟨hk, id, pp, hh, hp, rfl⟩
    · rintro ⟨hk, id, pp, hh, hp, rfl⟩
      exact ⟨id, pp, ⟨hk, hh⟩, by rw [hrec_old k id hk (Or.inr hh)]; exact hp, rfl⟩
  · intro hu k id1 id2
    refine ⟨?_, ?_⟩
    · rw [hR, hR]
      rintro (⟨_, rfl⟩ | ⟨hk, h1⟩) (⟨hk', rfl⟩ | ⟨_, h2⟩)
      · rfl
      · exact absurd ‹k = c› ‹k ≠ c›
      · exact absurd hk' hk
      · exact (hu k id1 id2).1 h1 h2
    · rw [hD, hD]
      rintro ⟨_, h1⟩ ⟨_, h2⟩
      exact (hu k id1 id2).2 h1 h2

end C22

namespace C22

/-- pin model after a successful direct pin of `c` under `name` -/
structure PinDirSpec (s s' : St) (c name : Nat) : Prop where
  isR : ∀ k, IsR s' k ↔ IsR s k
  isD : ∀ k, IsD s' k ↔ k = c ∨ IsD s k
  rname : ∀ k nm, RName s' k nm ↔ RName s k nm
  dname : ∀ k nm, DName s' k nm ↔ if k = c then nm = name else DName s k nm
  uniq : Uniq s → Uniq s'

theorem pinDirect_spec {s0 : Store} {s : St} (h : Good s0 s) (c name : Nat) :
    PinDirSpec s (flushPins (removeIds c (some .direct) (s.store.idxD.search c)
      (addPin s c .direct name) false).1) c name := by
  obtain ⟨hv, hr⟩ := pinDirect_views h c name
  have no := h.cons.1
  have inD : ∀ v, v ∈ s.store.idxD.search c ↔ s.store.has .D c v := fun v => search_has s.store .D c v
  generalize (flushPins (removeIds c (some .direct) (s.store.idxD.search c)
      (addPin s c .direct name) false).1) = s' at hv hr ⊢
  have hR : ∀ k v, s'.store.has .R k v ↔ s.store.has .R k v := by
    intro k v
    rw [hv, inD]
    constructor
    · rintro ⟨(⟨hw, _⟩ | ⟨hw, _⟩ | hh), _⟩
      · cases hw
      · cases hw
      · exact hh
    · intro hh
      exact ⟨Or.inr (Or.inr hh), fun h2 => owner_RD no hh h2⟩
  have hD : ∀ k v, s'.store.has .D k v ↔ (k = c ∧ v = s.nextId) ∨ (k ≠ c ∧ s.store.has .D k v) := by
    intro k v
    rw [hv, inD]
    constructor
    · rintro ⟨(⟨_, rfl, rfl⟩ | ⟨hw, _⟩ | hh), n1⟩
      · exact Or.inl ⟨rfl, rfl⟩
      · cases hw
      · by_cases hk : k = c
        · subst hk; exact absurd hh n1
        · exact Or.inr ⟨hk, hh⟩
    · rintro (⟨rfl, rfl⟩ | ⟨hk, hh⟩)
      · exact ⟨Or.inl ⟨rfl, rfl, rfl⟩, fresh_no_entry h _ _⟩
      · exact ⟨Or.inr (Or.inr hh), fun h2 => hk (owner_DD no hh h2)⟩
  have hrec_old : ∀ k v, (s.store.has .R k v ∨ (k ≠ c ∧ s.store.has .D k v)) →
      s'.store.rec? v = s.store.rec? v := by
    intro k v hh
    rw [hr]
    have n2 : ¬ v ∈ s.store.idxD.search c := by
      rw [inD]
      rintro h2; rcases hh with hh | ⟨hk, hh⟩
      · exact owner_RD no hh h2
      · exact hk (owner_DD no hh h2)
    have n3 : ¬ s.nextId = v := by
      rintro rfl; rcases hh with hh | ⟨_, hh⟩ <;> exact fresh_no_entry h _ _ hh
    rw [if_neg n2, if_neg n3]
  have e1 : ¬ s.nextId ∈ s.store.idxD.search c := by rw [inD]; exact fresh_no_entry h _ _
  refine ⟨?_, ?_, ?_, ?_, ?_⟩
  · intro k; simp only [IsR, hR]
  · intro k
    simp only [IsD, hD]
    constructor
    · rintro ⟨id, (⟨rfl, _⟩ | ⟨_, hh⟩)⟩
      · exact Or.inl rfl
      · exact Or.inr ⟨id, hh⟩
    · rintro (rfl | ⟨id, hh⟩)
      · exact ⟨_, Or.inl ⟨rfl, rfl⟩⟩
      · by_cases hk : k = c
        · exact ⟨_, Or.inl ⟨hk, rfl⟩⟩
        · exact ⟨id, Or.inr ⟨hk, hh⟩⟩
  · intro k nm
    simp only [RName, hR]
    constructor
    · rintro ⟨id, pp, hh, hp, rfl⟩
      rw [hrec_old k id (Or.inl hh)] at hp
      exact ⟨id, pp, hh, hp, rfl⟩
    · rintro ⟨id, pp, hh, hp, rfl⟩
      exact ⟨id, pp, hh, by rw [hrec_old k id (Or.inl hh)]; exact hp, rfl⟩
  · intro k nm
    by_cases hk : k = c
    · rw [if_pos hk]
      constructor
      · rintro ⟨id, pp, hh, hp, rfl⟩
        rcases (hD k id).1 hh with ⟨_, rfl⟩ | ⟨hk', _⟩
        · rw [hr, if_neg e1, if_pos rfl] at hp
          cases hp; rfl
        · exact absurd hk hk'
      · rintro rfl
        refine ⟨s.nextId, ⟨c, .direct, nm⟩, (hD k _).2 (Or.inl ⟨hk, rfl⟩), ?_, rfl⟩
        rw [hr, if_neg e1, if_pos rfl]
    · rw [if_neg hk]
      constructor
      · rintro ⟨id, pp, hh, hp, rfl⟩
        rcases (hD k id).1 hh with ⟨hk', _⟩ | ⟨_, hh'⟩
        · exact absurd hk' hk
        · rw [hrec_old k id (Or.inr ⟨hk, hh'⟩)] at hp
          exact ⟨id, pp, hh', hp, rfl⟩
      · rintro ⟨id, pp, hh, hp, rfl⟩
        exact ⟨id, pp, (hD k id).2 (Or.inr ⟨hk, hh⟩), by rw [hrec_old k id (Or.inr ⟨hk, hh⟩)]; exact hp, rfl⟩
  · intro hu k id1 id2
    refine ⟨?_, ?_⟩
    · rw [hR, hR]; exact (hu k id1 id2).1
    · rw [hD, hD]
      rintro (⟨hk1, rfl⟩ | ⟨hk, h1⟩) (⟨hk', rfl⟩ | ⟨hk2, h2⟩)
      · rfl
      · exact absurd hk1 hk2
      · exact absurd hk' hk
      · exact (hu k id1 id2).2 h1 h2

/-- pin model after a successful unpin of `c` -/
structure UnpinSpec (s s' : St) (c : Nat) : Prop where
  isR : ∀ k, IsR s' k ↔ k ≠ c ∧ IsR s k
  isD : ∀ k, IsD s' k ↔ k ≠ c ∧ IsD s k
  rname : ∀ k nm, RName s' k nm ↔ k ≠ c ∧ RName s k nm
  dname : ∀ k nm, DName s' k nm ↔ k ≠ c ∧ DName s k nm
  uniq : Uniq s → Uniq s'

theorem unpin_spec_of_views {s0 : Store} {s s' : St} (h : Good s0 s) (c : Nat)
    (hv : ∀ w k v, s'.store.has w k v ↔ s.store.has w k v ∧ v ∉ s.store.idxR.search c ++ s.store.idxD.search c)
    (hr : ∀ j, s'.store.rec? j = if j ∈ s.store.idxR.search c ++ s.store.idxD.search c then none else s.store.rec? j) :
    UnpinSpec s s' c := by
  have no := h.cons.1
  have inRD : ∀ v, v ∈ s.store.idxR.search c ++ s.store.idxD.search c ↔ s.store.has .R c v ∨ s.store.has .D c v := by
    intro v
    rw [List.mem_append]
    exact or_congr (search_has s.store .R c v) (search_has s.store .D c v)
  have hR : ∀ k v, s'.store.has .R k v ↔ k ≠ c ∧ s.store.has .R k v := by
    intro k v
    rw [hv, inRD]
    constructor
    · rintro ⟨hh, n1⟩
      exact ⟨fun hk => n1 (Or.inl (hk ▸ hh)), hh⟩
    · rintro ⟨hk, hh⟩
      exact ⟨hh, fun hx => hx.elim (fun h2 => hk (owner_RR no hh h2)) (fun h2 => owner_RD no hh h2)⟩
  have hD : ∀ k v, s'.store.has .D k v ↔ k ≠ c ∧ s.store.has .D k v := by
    intro k v
    rw [hv, inRD]
    constructor
    · rintro ⟨hh, n1⟩
      exact ⟨fun hk => n1 (Or.inr (hk ▸ hh)), hh⟩
    · rintro ⟨hk, hh⟩
      exact ⟨hh, fun hx => hx.elim (fun h2 => owner_RD no h2 hh) (fun h2 => hk (owner_DD no hh h2))⟩
  have hrec_old : ∀ k v, k ≠ c → (s.store.has .R k v ∨ s.store.has .D k v) → s'.store.rec? v = s.store.rec? v := by
    intro k v hk hh
    rw [hr]
    have n1 : ¬ v ∈ s.store.idxR.search c ++ s.store.idxD.search c := by
      rw [inRD]
      rintro (h2 | h2) <;> rcases hh with hh | hh
      · exact hk (owner_RR no hh h2)
      · exact owner_RD no h2 hh
      · exact owner_RD no hh h2
      · exact hk (owner_DD no hh h2)
    rw [if_neg n1]
  refine ⟨?_, ?_, ?_, ?_, ?_⟩
  · intro k; simp only [IsR, hR]
    constructor
    · rintro ⟨id, hk, hh⟩; exact ⟨hk, id, hh⟩
    · rintro ⟨hk, id, hh⟩; exact ⟨id, hk, hh⟩
  · intro k; simp only [IsD, hD]
    constructor
    · rintro ⟨id, hk, hh⟩; exact ⟨hk, id, hh⟩
    · rintro ⟨hk, id, hh⟩; exact ⟨id, hk, hh⟩
  · intro k nm
    simp only [RName, hR]
    constructor
    · rintro ⟨id, pp, ⟨hk, hh⟩, hp, rfl⟩
      rw [hrec_old k id hk (Or.inl hh)] at hp
      exact ⟨hk, id, pp, hh, hp, rfl⟩
    · rintro ⟨hk, id, pp, hh, hp, rfl⟩
      exact ⟨id, pp, ⟨hk, hh⟩, by rw [hrec_old k id hk (Or.inl hh)]; exact hp, rfl⟩
  · intro k nm
    simp only [DName, hD]
    constructor
    · rintro ⟨id, pp, ⟨hk, hh⟩, hp, rfl⟩
      rw [hrec_old k id hk (Or.inr hh)] at hp
      exact ⟨hk, id, pp, hh, hp, rfl⟩
    · rintro ⟨hk, id, pp, hh, hp, rfl⟩
      exact ⟨id, pp, ⟨hk, hh⟩, by rw [hrec_old k id hk (Or.inr hh)]; exact hp, rfl⟩
  · intro hu k id1 id2
    refine ⟨?_, ?_⟩
    · rw [hR, hR]; rintro ⟨_, h1⟩ ⟨_, h2⟩; exact (hu k id1 id2).1 h1 h2
    · rw [hD, hD]; rintro ⟨_, h1⟩ ⟨_, h2⟩; exact (hu k id1 id2).2 h1 h2

end C22

namespace C22

/-- pin model after a successful Update(src, dst, u) with src ≠ dst; `nm0` is the name kept -/
structure UpdateSpec (s s' : St) (src dst : Nat) (u : Bool) (nm0 : Nat) : Prop where
  isR : ∀ k, IsR s' k ↔ k = dst ∨ (IsR s k ∧ ¬ (u = true ∧ k = src))
  isD : ∀ k, IsD s' k ↔ IsD s k
  rname : ∀ k nm, RName s' k nm ↔ if k = dst then nm = nm0 else (RName s k nm ∧ ¬ (u = true ∧ k = src))
  dname : ∀ k nm, DName s' k nm ↔ DName s k nm
  uniq : Uniq s → Uniq s'

theorem update_spec {s0 : Store} {s : St} (h : Good s0 s) (src dst nm0 : Nat) (u : Bool)
    (hne : src ≠ dst) (hdst : ¬ IsR s dst) :
    UpdateSpec s (flushPins (if u = true then (removePinsForCid (addPin s dst .recursive nm0) src (some .recursive)).1
      else addPin s dst .recursive nm0)) src dst u nm0 := by
  have no := h.cons.1
  have g1 := good_addPin h dst .recursive nm0
  -- views of the final state
  have hviews : ∀ s', s' = (flushPins (if u = true then (removePinsForCid (addPin s dst .recursive nm0) src (some .recursive)).1
      else addPin s dst .recursive nm0)) →
      (∀ w k v, s'.store.has w k v ↔ ((w = .R ∧ k = dst ∧ v = s.nextId) ∨ (w = .N ∧ nm0 ≠ 0 ∧ k = nm0 ∧ v = s.nextId) ∨
        s.store.has w k v) ∧ (u = true → ¬ s.store.has .R src v)) ∧
      (∀ j, s'.store.rec? j = if u = true ∧ j ∈ s.store.idxR.search src then none
        else if s.nextId = j then some ⟨dst, .recursive, nm0⟩ else s.store.rec? j) := by
    intro s' e
    subst e
    have hin : ∀ v, v ∈ (addPin s dst .recursive nm0).store.idxR.search src ↔ s.store.has .R src v := by
      intro v
      refine (search_has (addPin s dst .recursive nm0).store .R src v).trans ?_
      rw [addPin_has]
      constructor
      · rintro (⟨_, hk, _⟩ | ⟨hw, _⟩ | hh)
        · exact absurd hk hne
        · cases hw
        · exact hh
      · exact fun hh => Or.inr (Or.inr hh)
    cases u with
    | false =>
      simp only [Bool.false_eq_true, if_false, flushPins_has, flushPins_rec, false_and, false_implies, and_true]
      exact ⟨fun w k v => by rw [addPin_has]; simp [modeIdx], fun j => by rw [addPin_rec]⟩
    | true =>
      obtain ⟨a1, a2⟩ := removeRec_views g1 src
      simp only [if_true, flushPins_has, flushPins_rec, true_and, true_implies]
      refine ⟨?_, ?_⟩
      · intro w k v
        rw [a1, hin, addPin_has]; simp [modeIdx]
      · intro j
        rw [a2, addPin_rec]
        have hs : j ∈ s.store.idxR.search src ↔ s.store.has .R src j := search_has s.store .R src j
        by_cases hj : s.store.has .R src j
        · rw [if_pos ((hin j).2 hj), if_pos (hs.2 hj)]
        · rw [if_neg (fun hx => hj ((hin j).1 hx)), if_neg (fun hx => hj (hs.1 hx))]
  obtain ⟨hv, hr⟩ := hviews _ rfl
  generalize (flushPins (if u = true then (removePinsForCid (addPin s dst .recursive nm0) src (some .recursive)).1
      else addPin s dst .recursive nm0)) = s' at hv hr ⊢
  have hR : ∀ k v, s'.store.has .R k v ↔ (k = dst ∧ v = s.nextId) ∨
      (s.store.has .R k v ∧ ¬ (u = true ∧ k = src)) := by
    intro k v
    rw [hv]
    constructor
    · rintro ⟨(⟨_, rfl, rfl⟩ | ⟨hw, _⟩ | hh), n1⟩
      · exact Or.inl ⟨rfl, rfl⟩
      · cases hw
      · exact Or.inr ⟨hh, fun ⟨hu, hk⟩ => n1 hu (hk ▸ hh)⟩
    · rintro (⟨rfl, rfl⟩ | ⟨hh, hn⟩)
      · exact ⟨Or.inl ⟨rfl, rfl, rfl⟩, fun _ => fresh_no_entry h _ _⟩
      · exact ⟨Or.inr (Or.inr hh), fun hu h2 => hn ⟨hu, owner_RR no hh h2⟩⟩
  have hD : ∀ k v, s'.store.has .D k v ↔ s.store.has .D k v := by
    intro k v
    rw [hv]
    constructor
    · rintro ⟨(⟨hw, _⟩ | ⟨hw, _⟩ | hh), _⟩
      · cases hw
      · cases hw
      · exact hh
    · intro hh
      exact ⟨Or.inr (Or.inr hh), fun _ h2 => owner_RD no h2 hh⟩
  have hrec_old : ∀ v, ¬ (u = true ∧ s.store.has .R src v) → (∃ w k, s.store.has w k v) →
      s'.store.rec? v = s.store.rec? v := by
    intro v h1 ⟨w, k, hh⟩
    have n3 : ¬ s.nextId = v := by rintro rfl; exact fresh_no_entry h _ _ hh
    have hs : v ∈ s.store.idxR.search src ↔ s.store.has .R src v := search_has s.store .R src v
    rw [hr, if_neg (fun hx => h1 ⟨hx.1, hs.1 hx.2⟩), if_neg n3]
  have hnew : s'.store.rec? s.nextId = some ⟨dst, .recursive, nm0⟩ := by
    rw [hr, if_neg (fun hx => fresh_no_entry h _ _ ((search_has s.store .R src _).1 hx.2)), if_pos rfl]
  refine ⟨?_, ?_, ?_, ?_, ?_⟩
  · intro k
    simp only [IsR, hR]
    constructor
    · rintro ⟨id, (⟨rfl, _⟩ | ⟨hh, hn⟩)⟩
      · exact Or.inl rfl
      · exact Or.inr ⟨⟨id, hh⟩, hn⟩
    · rintro (rfl | ⟨⟨id, hh⟩, hn⟩)
      · exact ⟨_, Or.inl ⟨rfl, rfl⟩⟩
      · exact ⟨id, Or.inr ⟨hh, hn⟩⟩
  · intro k; simp only [IsD, hD]
  · intro k nm
    by_cases hk : k = dst
    · rw [if_pos hk]
      constructor
      · rintro ⟨id, pp, hh, hp, rfl⟩
        rcases (hR k id).1 hh with ⟨_, rfl⟩ | ⟨hh', _⟩
        · rw [hnew] at hp; cases hp; rfl
        · exact absurd ⟨id, hk ▸ hh'⟩ hdst
      · rintro rfl
        exact ⟨s.nextId, _, (hR k _).2 (Or.inl ⟨hk, rfl⟩), hnew, rfl⟩
    · rw [if_neg hk]
      constructor
      · rintro ⟨id, pp, hh, hp, rfl⟩
        rcases (hR k id).1 hh with ⟨hk', _⟩ | ⟨hh', hn⟩
        · exact absurd hk' hk
        · rw [hrec_old id (fun hx => hn ⟨hx.1, owner_RR no hh' hx.2⟩) ⟨_, _, hh'⟩] at hp
          exact ⟨⟨id, pp, hh', hp, rfl⟩, hn⟩
      · rintro ⟨⟨id, pp, hh, hp, rfl⟩, hn⟩
        refine ⟨id, pp, (hR k id).2 (Or.inr ⟨hh, hn⟩), ?_, rfl⟩
        rw [hrec_old id (fun hx => hn ⟨hx.1, owner_RR no hh hx.2⟩) ⟨_, _, hh⟩]; exact hp
  · intro k nm
    simp only [DName, hD]
    constructor
    · rintro ⟨id, pp, hh, hp, rfl⟩
      rw [hrec_old id (fun hx => owner_RD no hx.2 hh) ⟨_, _, hh⟩] at hp
      exact ⟨id, pp, hh, hp, rfl⟩
    · rintro ⟨id, pp, hh, hp, rfl⟩
      exact ⟨id, pp, hh, by rw [hrec_old id (fun hx => owner_RD no hx.2 hh) ⟨_, _, hh⟩]; exact hp, rfl⟩
  · intro hu k id1 id2
    refine ⟨?_, ?_⟩
    · rw [hR, hR]
      rintro (⟨hk1, rfl⟩ | ⟨h1, _⟩) (⟨hk2, rfl⟩ | ⟨h2, _⟩)
      · rfl
      · exact absurd ⟨id2, hk1 ▸ h2⟩ hdst
      · exact absurd ⟨id1, hk2 ▸ h1⟩ hdst
      · exact (hu k id1 id2).1 h1 h2
    · rw [hD, hD]; exact (hu k id1 id2).2

end C22
