import BoxoModel.C22.RMap
/-!
C22 / C23 — pinning/pinner/dspinner: executable model of the datastore pinner (shared by both properties).

Transcribed from /repo/pinning/pinner/dspinner/pin.go (with the two `fix:` commits of branch
verif/pin: old pins are replaced only after the fetch succeeded and the new pin is stored;
`isPinnedWithType(Indirect)` answers "not pinned" for a recursive root) and
pinning/pinner/dsindex/indexer.go.

* The datastore under `/pins` is `Store`: the dirty flag, the pin records `/pins/pin/<id>` and the
  three dsindex indexes (cid→id recursive, cid→id direct, name→id), each a multimap kept as a list
  of pairs in key order (the harness datastore lists keys in key order; pool CIDs are numbered in
  that order).  Every datastore write the pinner makes is a `Write`; `St.write` applies it to the
  store and appends it to the write log of the running operation (C23 cuts this log).
* CIDs are pool indices, pin ids are a counter (the real ids are random uuids, the harness maps
  them to creation ordinals), names are numbers with `0` = the empty name.
* The DAG is a parameter: `links` (block contents) and the set of blocks in the block store
  (`present`, grows when `Pin` adds the root block).  `merkledag.FetchGraph`, `dagutils.DiffEnumerate`
  and the concurrent `merkledag.Walk` of the batch queries are modelled by their outcome
  (`fetchOk`, `diffEnum`, `reachStar`); `hasChild` (pin.go) is transcribed with its visited set.
* `update` omits the re-check of the two index lookups after DiffEnumerate (fix 6296254): within one
  atomic call nothing changed in between, the re-check is in `updateResume`.
* `step` is one API call executed atomically; the window in which `doPinRecursive`/`Update`
  release the lock is modelled separately (`stepNested`).
Core-only: also imported by the drivers.
-/
namespace C22

inductive Mode where
  | recursive | direct
  deriving DecidableEq, Repr, Inhabited

structure PinRec where
  cid : Nat
  mode : Mode
  name : Nat
  deriving DecidableEq, Repr, Inhabited

/-- which dsindex index -/
inductive Which where
  | R | D | N
  deriving DecidableEq, Repr

abbrev Idx := List (Nat × Nat)

def pairLt (a b : Nat × Nat) : Bool := a.1 < b.1 || (a.1 == b.1 && a.2 < b.2)

/-- insertion at the place given by key order -/
def Idx.ins : Idx → Nat × Nat → Idx
  | [], p => [p]
  | q :: r, p => if pairLt p q then p :: q :: r else q :: Idx.ins r p

/-- Put of the key `/<enc k>/<enc v>`: the entry appears once, at its place in key order -/
def Idx.add (x : Idx) (p : Nat × Nat) : Idx := if x.contains p then x else x.ins p

def Idx.del (x : Idx) (p : Nat × Nat) : Idx := x.filter (· ≠ p)
def Idx.search (x : Idx) (k : Nat) : List Nat := (x.filter (·.1 == k)).map (·.2)
def Idx.hasAny (x : Idx) (k : Nat) : Bool := x.any (·.1 == k)
def Idx.hasValue (x : Idx) (k v : Nat) : Bool := x.contains (k, v)

structure Store where
  dirty : Option Nat := none          -- value byte of /pins/state/dirty, `none` = key absent
  recs : RMap.Map Nat PinRec := []    -- /pins/pin/<id>
  idxR : Idx := []
  idxD : Idx := []
  idxN : Idx := []

inductive Write where
  | putDirty (b : Nat)
  | putRec (id : Nat) (r : PinRec)
  | delRec (id : Nat)
  | addIdx (w : Which) (k v : Nat)
  | delIdx (w : Which) (k v : Nat)
  deriving DecidableEq, Repr

def Store.idx (s : Store) : Which → Idx
  | .R => s.idxR
  | .D => s.idxD
  | .N => s.idxN

def Store.setIdx (s : Store) (w : Which) (x : Idx) : Store :=
  match w with
  | .R => { s with idxR := x }
  | .D => { s with idxD := x }
  | .N => { s with idxN := x }

def Store.apply (s : Store) : Write → Store
  | .putDirty b => { s with dirty := some b }
  | .putRec id r => { s with recs := RMap.insert s.recs id r }
  | .delRec id => { s with recs := RMap.erase s.recs id }
  | .addIdx w k v => s.setIdx w ((s.idx w).add (k, v))
  | .delIdx w k v => s.setIdx w ((s.idx w).del (k, v))

def Store.applyAll (s : Store) (ws : List Write) : Store := ws.foldl Store.apply s

/-- block contents (static) -/
structure Dag where
  n : Nat
  links : Nat → List Nat

/-- in-memory pinner + its datastore + the block store -/
structure St where
  store : Store := {}
  memDirty : Bool := false     -- p.dirty ≠ p.clean
  nextId : Nat := 1
  present : List Nat := []
  log : List Write := []       -- writes of the running operation
  autoSync : Bool := true      -- p.autoSync (SetAutosync)

def St.write (s : St) (w : Write) : St :=
  { s with store := s.store.apply w, log := s.log ++ [w] }

def modeIdx : Mode → Which
  | .recursive => .R
  | .direct => .D

/-- setDirty: persist the flag before the first change when the state was clean -/
def setDirty (s : St) : St :=
  if s.memDirty then s else { s.write (.putDirty 1) with memDirty := true }

/-- setClean (called by flushPins after the sync) -/
def setClean (s : St) : St :=
  if s.memDirty then { s.write (.putDirty 0) with memDirty := false } else s

/-- flushPins(force = false): Sync + setClean only when autoSync is on; flushPins(force = true) is `setClean` -/
def flushPins (s : St) : St := if s.autoSync then setClean s else s

/-- addPin: record, cid index, name index -/
def addPin (s : St) (c : Nat) (m : Mode) (name : Nat) : St :=
  let id := s.nextId
  let s := { s with nextId := id + 1 }
  let s := setDirty s
  let s := s.write (.putRec id ⟨c, m, name⟩)
  let s := s.write (.addIdx (modeIdx m) c id)
  if name ≠ 0 then s.write (.addIdx .N name id) else s

/-- removePin: cid index, name index, record last -/
def removePin (s : St) (id : Nat) (pp : PinRec) : St :=
  let s := setDirty s
  let s := s.write (.delIdx (modeIdx pp.mode) pp.cid id)
  let s := if pp.name ≠ 0 then s.write (.delIdx .N pp.name id) else s
  s.write (.delRec id)

/-- the repair branch of removePinsWithIDs: delete the index entry of a pin id that has no record -/
def repairIdx (s : St) (c : Nat) (mode : Option Mode) (id : Nat) : St :=
  match mode with
  | some .recursive => s.write (.delIdx .R c id)
  | some .direct => s.write (.delIdx .D c id)
  | none => (s.write (.delIdx .R c id)).write (.delIdx .D c id)

/-- removePinsWithIDs(c, mode, ids); `mode = none` is `Any`.  Returns the state and `removed`. -/
def removeIds (c : Nat) (mode : Option Mode) : List Nat → St → Bool → St × Bool
  | [], s, removed => (s, removed)
  | id :: rest, s, removed =>
    match RMap.find s.store.recs id with
    | none =>
      -- index entry without pin record: repair the index, flush
      let s := repairIdx (setDirty s) c mode id
      let s := setClean s          -- flushPins(ctx, true)
      removeIds c mode rest s true
    | some pp =>
      if mode = none ∨ mode = some pp.mode then removeIds c mode rest (removePin s id pp) true
      else removeIds c mode rest s removed

/-- removePinsForCid -/
def removePinsForCid (s : St) (c : Nat) (mode : Option Mode) : St × Bool :=
  let ids := match mode with
    | some .recursive => s.store.idxR.search c
    | some .direct => s.store.idxD.search c
    | none => s.store.idxR.search c ++ s.store.idxD.search c
  removeIds c mode ids s false

/-! ### DAG access -/

/-- merkledag.Walk with a shared visited set over `GetLinksDirect`: `none` = some block missing -/
def walk (dag : Dag) (present : List Nat) : Nat → List Nat → Nat → Option (List Nat)
  | 0, _, _ => none
  | f + 1, vis, x =>
    if vis.contains x then some vis
    else if !present.contains x then none
    else (dag.links x).foldlM (fun v y => walk dag present f v y) (x :: vis)

/-- FetchGraph succeeds iff every block reachable from the root is in the block store -/
def fetchOk (dag : Dag) (present : List Nat) (c : Nat) : Bool :=
  (walk dag present (dag.n + 1) [] c).isSome

/-- every node reachable from `x` (including `x`), ignoring the block store -/
def reachSet (dag : Dag) : Nat → List Nat → Nat → List Nat
  | 0, vis, _ => vis
  | f + 1, vis, x =>
    if vis.contains x then vis else (dag.links x).foldl (fun v y => reachSet dag f v y) (x :: vis)

def reachStar (dag : Dag) (r c : Nat) : Bool := (reachSet dag (dag.n + 1) [] r).contains c

/-- dagutils.getLinkDiff on the link lists -/
def linkDiff (a b : List Nat) : List (Option Nat × Nat) :=
  let aonly := a.filter (fun l => !b.contains l)
  let rec go : List Nat → List Nat → List (Option Nat × Nat)
    | [], _ => []
    | l :: bs, ao =>
      if a.contains l then go bs ao
      else match ao with
        | x :: ao' => (some x, l) :: go bs ao'
        | [] => (none, l) :: go bs []
  go b aonly

/-- dagutils.DiffEnumerate: true = no error -/
def diffEnum (dag : Dag) (present : List Nat) : Nat → Nat → Nat → Bool
  | 0, _, _ => false
  | f + 1, a, b =>
    present.contains a && present.contains b &&
    (let diff := linkDiff (dag.links a) (dag.links b)
     let sset := diff.filterMap (·.1)
     (diff.foldlM (fun (ss : List Nat) (p : Option Nat × Nat) =>
        match p.1 with
        | none => if ss.contains p.2 then some ss else walk dag present (dag.n + 1) ss p.2
        | some bef => if diffEnum dag present f bef p.2 then some ss else none) sset).isSome)

/-- the `for _, lnk := range links` loop of hasChild; `recur` is hasChild on a child -/
def hcLoop (child : Nat) (recur : List Nat → Nat → Option (Bool × List Nat)) :
    List Nat → List Nat → Option (Bool × List Nat)
  | [], vis => some (false, vis)
  | c :: cs, vis =>
    if c = child then some (true, vis)
    else if vis.contains c then hcLoop child recur cs vis
    else match recur (c :: vis) c with
      | none => none
      | some (true, v) => some (true, v)
      | some (false, v) => hcLoop child recur cs v

/-- hasChild(root, child, visit): `none` = GetLinks failed (block missing) -/
def hasChild (dag : Dag) (present : List Nat) (child : Nat) : Nat → List Nat → Nat → Option (Bool × List Nat)
  | 0, _, _ => none
  | f + 1, vis, root =>
    if !present.contains root then none
    else hcLoop child (hasChild dag present child f) (dag.links root) vis

/-! ### queries -/

inductive QRes where
  | recursive | direct | via (root : Nat) | no | invalid | notfound
  deriving DecidableEq, Repr

/-- the `cidRIndex.ForEach` loop of isPinnedWithType over the recursive roots -/
def indirectLoop (dag : Dag) (present : List Nat) (c : Nat) : Idx → List Nat → QRes
  | [], _ => .no
  | (rc, _) :: rest, vis =>
    match hasChild dag present c (dag.n + 1) vis rc with
    | none => .notfound
    | some (true, _) => .via rc
    | some (false, v) => indirectLoop dag present c rest v

def isPinnedWithType (dag : Dag) (s : St) (c : Nat) (mode : Int) : QRes :=
  let indirect := indirectLoop dag s.present c s.store.idxR []
  if mode = 0 then (if s.store.idxR.hasAny c then .recursive else .no)
  else if mode = 1 then (if s.store.idxD.hasAny c then .direct else .no)
  else if mode = 3 then .no
  else if mode = 2 then (if s.store.idxR.hasAny c then .no else indirect)
  else if mode = 5 then
    (if s.store.idxR.hasAny c then .recursive else if s.store.idxD.hasAny c then .direct else indirect)
  else .invalid

def isPinned (dag : Dag) (s : St) (c : Nat) : QRes := isPinnedWithType dag s c 5

/-- loadPinName: name of the record of the first id; a missing record leaves the name empty -/
def pinName (s : St) (ids : List Nat) : Nat :=
  match ids with
  | [] => 0
  | id :: _ => match RMap.find s.store.recs id with
    | some pp => pp.name
    | none => 0

inductive BRes where
  | recursive (name : Nat) | direct (name : Nat) | ind (via : Nat) | no
  deriving DecidableEq, Repr

/-- traverseIndirectPins for one cid: the first recursive root (index order) whose graph contains it -/
def viaRoot (dag : Dag) (idxR : Idx) (c : Nat) : Option Nat :=
  (idxR.find? (fun e => reachStar dag e.1 c)).map (·.1)

/-- some recursive root reaches a block that is not in the block store -/
def dangling (dag : Dag) (s : St) : Bool :=
  s.store.idxR.any (fun e => (reachSet dag (dag.n + 1) [] e.1).any (fun x => !s.present.contains x))

inductive Batch where
  | res (l : List BRes)
  | dangling   -- concurrent walk over a graph with a missing block: outcome depends on scheduling
  | invalid
  deriving DecidableEq, Repr

def batchEntry (dag : Dag) (s : St) (mode : Int) (names : Bool) (c : Nat) : BRes :=
  let nm := fun ids => if names then pinName s ids else 0
  let rIds := s.store.idxR.search c
  let dIds := s.store.idxD.search c
  let ind := match viaRoot dag s.store.idxR c with
    | some r => BRes.ind r
    | none => BRes.no
  if mode = 0 then (if rIds ≠ [] then .recursive (nm rIds) else .no)
  else if mode = 1 then (if dIds ≠ [] then .direct (nm dIds) else .no)
  else if mode = 2 then (if rIds ≠ [] then .no else ind)
  else if mode = 5 then (if rIds ≠ [] then .recursive (nm rIds) else if dIds ≠ [] then .direct (nm dIds) else ind)
  else .no

/-- does the batch query have to walk the graphs (toCheck non-empty)? -/
def needWalk (s : St) (mode : Int) (cids : List Nat) : Bool :=
  if mode = 2 then cids.any (fun c => !s.store.idxR.hasAny c)
  else if mode = 5 then cids.any (fun c => !s.store.idxR.hasAny c && !s.store.idxD.hasAny c)
  else false

/-- CheckIfPinnedWithType(mode, names, cids…) for distinct cids, result in the order of `cids` -/
def checkIfPinnedWithType (dag : Dag) (s : St) (mode : Int) (names : Bool) (cids : List Nat) : Batch :=
  if mode = 0 ∨ mode = 1 ∨ mode = 2 ∨ mode = 3 ∨ mode = 5 then
    if needWalk s mode cids && dangling dag s then .dangling
    else .res (cids.map (batchEntry dag s mode names))
  else .invalid

def checkIfPinned (dag : Dag) (s : St) (cids : List Nat) : Batch := checkIfPinnedWithType dag s 5 false cids

/-- streamIndex: one entry per distinct cid of the index (first id wins) -/
def listKeys (s : St) (idx : Idx) (detailed : Bool) : List (Nat × Option PinRec) :=
  let rec go : Idx → List Nat → List (Nat × Option PinRec)
    | [], _ => []
    | (c, id) :: rest, seen =>
      if seen.contains c then go rest seen
      else if detailed then
        match RMap.find s.store.recs id with
        | some pp => (pp.cid, some pp) :: go rest (c :: seen)
        | none => go rest seen
      else (c, none) :: go rest (c :: seen)
  go idx []

/-! ### mutations -/

inductive Ctx where
  | ok | pre | mid   -- live / cancelled before the call / cancelled at the first block fetch
  deriving DecidableEq, Repr

inductive Res where
  | ok | cancelled | notpinned | alreadyRec | isRec | fromNotRec | toRec | badmode | notfound | other
  deriving DecidableEq, Repr

/-- doPinRecursive -/
def pinRecursive (dag : Dag) (s : St) (c : Nat) (fetch : Bool) (name : Nat) (ctx : Ctx) : St × Res :=
  if ctx = .pre then (s, .cancelled)                     -- cidRIndex.HasAny → ForEach → ctx.Err()
  else if fetch ∧ ctx = .mid then (s, .cancelled)        -- FetchGraph
  else if fetch ∧ !fetchOk dag s.present c then (s, .notfound)
  else
    let oldR := s.store.idxR.search c
    let oldD := s.store.idxD.search c
    let s := addPin s c .recursive name
    let s := (removeIds c (some .recursive) oldR s false).1
    let s := (removeIds c (some .direct) oldD s false).1
    (flushPins s, .ok)

/-- doPinDirect -/
def pinDirect (s : St) (c : Nat) (name : Nat) (ctx : Ctx) : St × Res :=
  if ctx = .pre then (s, .cancelled)
  else if s.store.idxR.hasAny c then (s, .alreadyRec)
  else
    let oldD := s.store.idxD.search c
    let s := addPin s c .direct name
    let s := (removeIds c (some .direct) oldD s false).1
    (flushPins s, .ok)

inductive Op where
  | pin (c : Nat) (recursive : Bool) (name : Nat) (ctx : Ctx)
  | pinMode (c : Nat) (mode : Int) (name : Nat) (ctx : Ctx)
  | unpin (c : Nat) (recursive : Bool) (ctx : Ctx)
  | update (src dst : Nat) (unpin : Bool) (ctx : Ctx)
  | setAutosync (auto : Bool)
  | flush
  deriving DecidableEq, Repr

def unpin (s : St) (c : Nat) (recursive : Bool) (ctx : Ctx) : St × Res :=
  if ctx = .pre then (s, .cancelled)
  else
    let go : St × Res :=
      let r := removePinsForCid s c none
      if r.2 then (flushPins r.1, .ok) else (r.1, .ok)
    if s.store.idxR.hasAny c then (if recursive then go else (s, .isRec))
    else if s.store.idxD.hasAny c then go
    else (s, .notpinned)

def update (dag : Dag) (s : St) (src dst : Nat) (doUnpin : Bool) (ctx : Ctx) : St × Res :=
  let fromVals := s.store.idxR.search src
  if fromVals.length ≠ 1 then (s, .fromNotRec)
  else if src = dst then (s, .ok)
  else if ctx = .pre then (s, .cancelled)                -- cidRIndex.HasAny(to)
  else if s.store.idxR.hasAny dst then (s, .toRec)
  else if ctx = .mid then (s, .cancelled)                -- DiffEnumerate
  else if !diffEnum dag s.present (dag.n + 1) src dst then (s, .notfound)
  else match RMap.find s.store.recs (fromVals.headD 0) with
    | none => (s, .notfound)                              -- loadPin: datastore key not found
    | some pp =>
      let s := addPin s dst .recursive pp.name
      let s := if doUnpin then (removePinsForCid s src (some .recursive)).1 else s
      (flushPins s, .ok)

/-- one API call; the write log of the returned state is the log of this call -/
def step (dag : Dag) (s : St) (op : Op) : St × Res :=
  let s := { s with log := [] }
  match op with
  | .pin c recursive name ctx =>
    let s := { s with present := if s.present.contains c then s.present else c :: s.present }  -- dserv.Add(node)
    if recursive then pinRecursive dag s c true name ctx else pinDirect s c name ctx
  | .pinMode c mode name ctx =>
    if mode = 0 then pinRecursive dag s c false name ctx
    else if mode = 1 then pinDirect s c name ctx
    else (s, .badmode)
  | .unpin c recursive ctx => unpin s c recursive ctx
  | .update src dst u ctx => update dag s src dst u ctx
  | .setAutosync auto => ({ s with autoSync := auto }, .ok)
  | .flush => (setClean s, .ok)                           -- Flush: flushDagService(force), flushPins(force)

/-! ### the window in which doPinRecursive / Update release the lock (two-call interleavings)

`FetchGraph` / `DiffEnumerate` run with the pinner lock released; another call `B` can run completely
inside that window.  `…Resume` is the rest of the interrupted call after it has re-acquired the lock. -/

def Write.isFlag : Write → Bool
  | .putDirty _ => true
  | _ => false

/-- doPinRecursive after the window; `found` = the CID had a recursive pin before the window,
`changed` = `p.dirty != dirtyBefore` (some call inside the window called setDirty) -/
def pinRecursiveResume (dag : Dag) (s : St) (c : Nat) (name : Nat) (found changed : Bool) : St × Res :=
  if !fetchOk dag s.present c then (s, .notfound)
  else if !found ∧ changed ∧ s.store.idxR.hasAny c then (s, .ok)   -- pinned in the meantime: nothing left to do
  else
    let oldR := s.store.idxR.search c
    let oldD := s.store.idxD.search c
    let s := addPin s c .recursive name
    let s := (removeIds c (some .recursive) oldR s false).1
    let s := (removeIds c (some .direct) oldD s false).1
    (flushPins s, .ok)

/-- Update after the window: the two index checks are repeated (fix 6296254), then as in `update` -/
def updateResume (dag : Dag) (s : St) (src dst : Nat) (doUnpin : Bool) : St × Res :=
  if !diffEnum dag s.present (dag.n + 1) src dst then (s, .notfound)
  else
    let fromVals := s.store.idxR.search src
    if fromVals.length ≠ 1 then (s, .fromNotRec)
    else if s.store.idxR.hasAny dst then (s, .toRec)
    else match RMap.find s.store.recs (fromVals.headD 0) with
      | none => (s, .notfound)                            -- loadPin: datastore key not found
      | some pp =>
        let s := addPin s dst .recursive pp.name
        let s := if doUnpin then (removePinsForCid s src (some .recursive)).1 else s
        (flushPins s, .ok)

/-- Update after the window as it was before fix 6296254: no re-check, stale pin id of `src` -/
def updateResumeOld (dag : Dag) (s : St) (src dst : Nat) (doUnpin : Bool) (fromId : Nat) : St × Res :=
  if !diffEnum dag s.present (dag.n + 1) src dst then (s, .notfound)
  else match RMap.find s.store.recs fromId with
    | none => (s, .notfound)
    | some pp =>
      let s := addPin s dst .recursive pp.name
      let s := if doUnpin then (removePinsForCid s src (some .recursive)).1 else s
      (flushPins s, .ok)

structure Nested where
  st : St
  resA : Res
  resB : Option Res        -- `none`: A failed before its window, B did not run
  logB : List Write
  logA : List Write

/-- Pin(c, recursive, name) with the complete call B inside its FetchGraph window -/
def nestedPin (dag : Dag) (s : St) (c name : Nat) (opB : Op) : Nested :=
  let s := { s with log := [], present := if s.present.contains c then s.present else c :: s.present }
  let found := s.store.idxR.hasAny c
  let rb := step dag s opB
  let changed := rb.1.log.any (fun w => !w.isFlag)
  let ra := pinRecursiveResume dag { rb.1 with log := [] } c name found changed
  { st := ra.1, resA := ra.2, resB := some rb.2, logB := rb.1.log, logA := ra.1.log }

/-- Update(src, dst, u) with the complete call B inside its DiffEnumerate window -/
def nestedUpdate (dag : Dag) (s : St) (src dst : Nat) (u : Bool) (opB : Op) : Nested :=
  let s := { s with log := [] }
  if (s.store.idxR.search src).length ≠ 1 then { st := s, resA := .fromNotRec, resB := none, logB := [], logA := [] }
  else if src = dst then { st := s, resA := .ok, resB := none, logB := [], logA := [] }
  else if s.store.idxR.hasAny dst then { st := s, resA := .toRec, resB := none, logB := [], logA := [] }
  else
    let rb := step dag s opB
    let ra := updateResume dag { rb.1 with log := [] } src dst u
    { st := ra.1, resA := ra.2, resB := some rb.2, logB := rb.1.log, logA := ra.1.log }

/-- call A (Pin(recursive) or Update, live context) with the complete call B inside A's window -/
def stepNested (dag : Dag) (s : St) (opA opB : Op) : Nested :=
  match opA with
  | .pin c true name .ok => nestedPin dag s c name opB
  | .update src dst u .ok => nestedUpdate dag s src dst u opB
  | _ =>
    let ra := step dag s opA
    { st := ra.1, resA := ra.2, resB := none, logB := [], logA := ra.1.log }

/-! ### the code before the fix (kept for the counterexample theorems only) -/

def pinRecursiveOld (dag : Dag) (s : St) (c : Nat) (fetch : Bool) (name : Nat) (ctx : Ctx) : St × Res :=
  if ctx = .pre then (s, .cancelled)
  else
    let s := if s.store.idxR.hasAny c then (removePinsForCid s c (some .recursive)).1 else s
    if fetch ∧ ctx = .mid then (s, .cancelled)
    else if fetch ∧ !fetchOk dag s.present c then (s, .notfound)
    else
      let s := if s.store.idxD.hasAny c then (removePinsForCid s c (some .direct)).1 else s
      let s := addPin s c .recursive name
      (flushPins s, .ok)

/-! ### a datastore write that fails (scripted I/O error)

Derived from the code's error handling: a failed Put/Delete makes the call return the error at once
(nothing after it is written, no flushPins), with two exceptions: setDirty / setClean only log a failed
flag write and carry on; addPin deletes the cid index entry it has just added when the name index write
fails.  `stepIO dag s op k` = the call `op` whose k-th write attempt (0-based) fails, expressed through
the write log of the undisturbed call. -/

def Write.isPut' : Write → Bool
  | .putRec _ _ => true
  | _ => false

/-- drop the first `putDirty 1` of a log -/
def dropDirty1 : List Write → List Write
  | [] => []
  | .putDirty 1 :: r => r
  | w :: r => w :: dropDirty1 r

structure IOOut where
  st : St
  res : Option Res     -- `none` = the injected datastore error was returned

def stepIO (dag : Dag) (s : St) (op : Op) (k : Nat) : IOOut :=
  let full := step dag s op
  let L := full.1.log
  match L[k]? with
  | none => { st := full.1, res := some full.2 }
  | some (.putDirty 1) =>
    -- setDirty: the flag is not persisted, the call carries on
    let L' := L.take k ++ L.drop (k + 1)
    { st := { full.1 with store := s.store.applyAll L', log := L' }, res := some full.2 }
  | some (.putDirty _) =>
    -- setClean: the pinner stays dirty in memory; a later setDirty writes nothing
    let rest := dropDirty1 (L.drop (k + 1))
    let L' := L.take k ++ rest
    let cleanedLater := rest.any (fun w => w == .putDirty 0)
    { st := { full.1 with store := s.store.applyAll L', log := L',
                          memDirty := if cleanedLater then full.1.memDirty else true },
      res := some full.2 }
  | some w =>
    let comp : List Write := match w, L[k - 1]? with
      | .addIdx .N _ _, some (.addIdx x c id) => [.delIdx x c id]     -- addPin's compensation
      | _, _ => []
    let L' := L.take k ++ comp
    { st := { store := s.store.applyAll L', memDirty := true,
              nextId := if (L.take k).any Write.isPut' then full.1.nextId else s.nextId,
              present := full.1.present, log := L', autoSync := full.1.autoSync },
      res := none }

/-! ### crash and reopen (C23) -/

/-- the index of the other mode -/
def staleIdx : Mode → Which
  | .recursive => .D
  | .direct => .R

/-- rebuildIndexes for one pin record -/
def rebuildOne (s : St) (id : Nat) (pp : PinRec) : St :=
  let s := if (s.store.idx (staleIdx pp.mode)).hasValue pp.cid id then s.write (.delIdx (staleIdx pp.mode) pp.cid id) else s
  let s := if (s.store.idx (modeIdx pp.mode)).hasValue pp.cid id then s
           else s.write (.addIdx (modeIdx pp.mode) pp.cid id)
  if pp.name ≠ 0 ∧ !s.store.idxN.hasValue pp.name id then s.write (.addIdx .N pp.name id) else s

/-- the records in the order in which the datastore lists `/pins/pin/*` (by creation of the id) -/
def insRec (e : Nat × PinRec) : List (Nat × PinRec) → List (Nat × PinRec)
  | [] => [e]
  | x :: r => if e.1 < x.1 then e :: x :: r else x :: insRec e r

def sortRecs (l : List (Nat × PinRec)) : List (Nat × PinRec) := l.foldr insRec []

/-- New(): load the dirty flag, rebuild the indexes from the records when it is 1 -/
def reopenStore (st : Store) (nextId : Nat) (present : List Nat) : St :=
  let s : St := { store := st, memDirty := false, nextId := nextId, present := present, log := [], autoSync := true }
  if st.dirty = some 1 then
    let s := { s with memDirty := true }
    let s := (sortRecs st.recs).foldl (fun s e => rebuildOne s e.1 e.2) s
    setClean s                   -- flushPins(ctx, true)
  else s

/-- the process stops after the first `n` writes of `op`; a new pinner is opened on what was persisted -/
def crashReopen (dag : Dag) (s : St) (op : Op) (n : Nat) : St :=
  let r := (step dag s op).1
  reopenStore (s.store.applyAll (r.log.take n)) r.nextId r.present

/-- the process stops after n writes of the call, is restarted, stops again after j writes of
New + rebuildIndexes, and is restarted once more -/
def crashReopen2 (dag : Dag) (s : St) (op : Op) (n j : Nat) : St :=
  let r := crashReopen dag s op n
  reopenStore ((s.store.applyAll ((step dag s op).1.log.take n)).applyAll (r.log.take j)) r.nextId r.present

/-- harness corruption: the record of the first pin of cid `c` in the index of `mode` disappears
(an index entry without its record; exercises the repair branch of removePinsWithIDs) -/
def plant (s : St) (c : Nat) (mode : Mode) : St × Bool :=
  match (s.store.idx (modeIdx mode)).search c with
  | [] => (s, false)
  | id :: _ => ({ s with store := { s.store with recs := RMap.erase s.store.recs id } }, true)

end C22
