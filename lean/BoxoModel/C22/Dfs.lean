import BoxoModel.C22.Lemmas
/-!
Helper lemmas for C22, part 2: the graph walks (`hasChild` with its visited set, `reachSet`)
compute reachability.
-/
namespace C22

theorem Reach.trans_link {dag : Dag} {r x c : Nat} (h : Reach dag r x) (hl : c ∈ dag.links x) : Reach dag r c := by
  induction h with
  | link h0 => exact .step h0 (.link hl)
  | step h0 _ ih => exact .step h0 (ih hl)

/-- every visited node outside the current DFS stack `S` has all its links visited and none of
them is the searched child -/
def Closed (dag : Dag) (child : Nat) (V S : List Nat) : Prop :=
  ∀ x ∈ V, x ∉ S → ∀ y ∈ dag.links x, y ≠ child ∧ y ∈ V

theorem closed_no_reach {dag : Dag} {child : Nat} {V : List Nat} (hc : Closed dag child V [])
    {r : Nat} (hr : ∀ y ∈ dag.links r, y ≠ child ∧ y ∈ V) : ¬ Reach dag r child := by
  intro h
  generalize hcc : child = c' at h
  induction h with
  | link h0 => subst hcc; exact (hr _ h0).1 rfl
  | step h0 _ ih =>
    subst hcc
    exact ih (fun y hy => hc _ (hr _ h0).2 (by simp) y hy) rfl

/-- soundness of the link loop -/
theorem hcLoop_true {dag : Dag} {child : Nat} {recur : List Nat → Nat → Option (Bool × List Nat)}
    (hrec : ∀ vis x v, recur vis x = some (true, v) → Reach dag x child) :
    ∀ cs vis v, hcLoop child recur cs vis = some (true, v) → ∃ c ∈ cs, c = child ∨ Reach dag c child := by
  intro cs
  induction cs with
  | nil => intro vis v h; simp [hcLoop] at h
  | cons c cs ih =>
    intro vis v h
    unfold hcLoop at h
    by_cases h1 : c = child
    · exact ⟨c, by simp, Or.inl h1⟩
    · simp only [h1, if_false] at h
      by_cases h2 : vis.contains c = true
      · simp only [h2, if_true] at h
        obtain ⟨c', hc', h'⟩ := ih _ _ h
        exact ⟨c', by simp [hc'], h'⟩
      · simp only [h2] at h
        cases hr : recur (c :: vis) c with
        | none => simp [hr] at h
        | some p =>
          obtain ⟨b, v1⟩ := p
          cases b with
          | true => exact ⟨c, by simp, Or.inr (hrec _ _ _ hr)⟩
          | false =>
            simp only [hr] at h
            obtain ⟨c', hc', h'⟩ := ih _ _ h
            exact ⟨c', by simp [hc'], h'⟩

theorem hasChild_true (dag : Dag) (present : List Nat) (child : Nat) :
    ∀ fuel vis root v, hasChild dag present child fuel vis root = some (true, v) → Reach dag root child := by
  intro fuel
  induction fuel with
  | zero => intro vis root v h; simp [hasChild] at h
  | succ f ih =>
    intro vis root v h
    unfold hasChild at h
    split at h
    · simp at h
    · obtain ⟨c, hc, h'⟩ := hcLoop_true (fun vis x v hx => ih vis x v hx) _ _ _ h
      rcases h' with rfl | h'
      · exact .link hc
      · exact .step hc h'

/-- what a completed (unsuccessful) search guarantees -/
def Done (dag : Dag) (child : Nat) (links : List Nat) (vis v S : List Nat) : Prop :=
  (∀ x ∈ vis, x ∈ v) ∧ Closed dag child v S ∧ ∀ y ∈ links, y ≠ child ∧ y ∈ v

theorem hcLoop_false {dag : Dag} {child : Nat} {recur : List Nat → Nat → Option (Bool × List Nat)}
    (hrec : ∀ vis x v S, recur vis x = some (false, v) → Closed dag child vis S →
      Done dag child (dag.links x) vis v S) :
    ∀ cs vis v S, hcLoop child recur cs vis = some (false, v) → Closed dag child vis S →
      Done dag child cs vis v S := by
  intro cs
  induction cs with
  | nil =>
    intro vis v S h hc
    simp [hcLoop] at h; subst h
    exact ⟨fun _ h => h, hc, by simp⟩
  | cons c cs ih =>
    intro vis v S h hc
    unfold hcLoop at h
    by_cases h1 : c = child
    · simp [h1] at h
    · simp only [h1, if_false] at h
      by_cases h2 : vis.contains c = true
      · simp only [h2, if_true] at h
        obtain ⟨a1, a2, a3⟩ := ih _ _ _ h hc
        refine ⟨a1, a2, ?_⟩
        intro y hy
        simp only [List.mem_cons] at hy
        rcases hy with rfl | hy
        · exact ⟨h1, a1 _ (by simpa using h2)⟩
        · exact a3 y hy
      · simp only [h2] at h
        cases hr : recur (c :: vis) c with
        | none => simp [hr] at h
        | some p =>
          obtain ⟨b, v1⟩ := p
          cases b with
          | true => simp [hr] at h
          | false =>
            simp only [hr] at h
            have hc' : Closed dag child (c :: vis) (c :: S) := by
              intro x hx hxs y hy
              simp only [List.mem_cons, not_or] at hx hxs
              rcases hx with rfl | hx
              · exact absurd rfl hxs.1
              · have := hc x hx hxs.2 y hy
                exact ⟨this.1, by simp [this.2]⟩
            obtain ⟨b1, b2, b3⟩ := hrec _ _ _ _ hr hc'
            have hc1 : Closed dag child v1 S := by
              intro x hx hxs y hy
              by_cases hxc : x = c
              · subst hxc; exact b3 y hy
              · exact b2 x hx (by simp [hxc, hxs]) y hy
            obtain ⟨a1, a2, a3⟩ := ih _ _ _ h hc1
            refine ⟨fun x hx => a1 _ (b1 _ (by simp [hx])), a2, ?_⟩
            intro y hy
            simp only [List.mem_cons] at hy
            rcases hy with rfl | hy
            · exact ⟨h1, a1 _ (b1 _ (by simp))⟩
            · exact a3 y hy

theorem hasChild_false (dag : Dag) (present : List Nat) (child : Nat) :
    ∀ fuel vis root v S, hasChild dag present child fuel vis root = some (false, v) →
      Closed dag child vis S → Done dag child (dag.links root) vis v S := by
  intro fuel
  induction fuel with
  | zero => intro vis root v S h; simp [hasChild] at h
  | succ f ih =>
    intro vis root v S h hc
    unfold hasChild at h
    split at h
    · simp at h
    · exact hcLoop_false (fun vis x v S hx hcx => ih vis x v S hx hcx) _ _ _ _ h hc

/-- the loop of isPinnedWithType over the recursive roots -/
theorem indirectLoop_spec (dag : Dag) (present : List Nat) (c : Nat) :
    ∀ (idx : Idx) (vis : List Nat), Closed dag c vis [] →
      (∀ r, indirectLoop dag present c idx vis = .via r → (∃ id, (r, id) ∈ idx) ∧ Reach dag r c) ∧
      (indirectLoop dag present c idx vis = .no → ∀ r id, (r, id) ∈ idx → ¬ Reach dag r c) ∧
      indirectLoop dag present c idx vis ≠ .recursive ∧ indirectLoop dag present c idx vis ≠ .direct ∧
      indirectLoop dag present c idx vis ≠ .invalid := by
  intro idx
  induction idx with
  | nil => intro vis _; simp [indirectLoop]
  | cons e rest ih =>
    intro vis hc
    obtain ⟨rc, id0⟩ := e
    unfold indirectLoop
    cases hr : hasChild dag present c (dag.n + 1) vis rc with
    | none => simp
    | some p =>
      obtain ⟨b, v⟩ := p
      cases b with
      | true =>
        simp only []
        refine ⟨?_, by simp, by simp, by simp, by simp⟩
        intro r hrr
        cases hrr
        exact ⟨⟨id0, by simp⟩, hasChild_true dag present c _ _ _ _ hr⟩
      | false =>
        simp only []
        obtain ⟨a1, a2, a3⟩ := hasChild_false dag present c _ _ _ _ [] hr hc
        obtain ⟨i1, i2, i3⟩ := ih v a2
        refine ⟨?_, ?_, i3⟩
        · intro r hrr
          obtain ⟨⟨id, hid⟩, h2⟩ := i1 r hrr
          exact ⟨⟨id, by simp [hid]⟩, h2⟩
        · intro hno r id hm
          simp only [List.mem_cons, Prod.mk.injEq] at hm
          rcases hm with ⟨rfl, _⟩ | hm
          · exact closed_no_reach a2 a3
          · exact i2 hno r id hm

end C22

namespace C22

/-! ### the walk does not fail when every block below the root is in the block store -/

theorem hcLoop_some {child : Nat} {recur : List Nat → Nat → Option (Bool × List Nat)} :
    ∀ cs vis, (∀ c ∈ cs, ∀ vis, recur vis c ≠ none) → hcLoop child recur cs vis ≠ none := by
  intro cs
  induction cs with
  | nil => intro vis _; simp [hcLoop]
  | cons c cs ih =>
    intro vis h
    unfold hcLoop
    split
    · simp
    · split
      · exact ih _ (fun c' hc' => h c' (by simp [hc']))
      · cases hr : recur (c :: vis) c with
        | none => exact absurd hr (h c (by simp) _)
        | some p =>
          obtain ⟨b, v⟩ := p
          cases b with
          | true => simp
          | false => exact ih _ (fun c' hc' => h c' (by simp [hc']))

theorem hasChild_some (dag : Dag) (present : List Nat) (child : Nat) (rk : Nat → Nat)
    (hrk : ∀ x y, y ∈ dag.links x → rk y < rk x) :
    ∀ fuel vis root, rk root < fuel → root ∈ present → (∀ x, Reach dag root x → x ∈ present) →
      hasChild dag present child fuel vis root ≠ none := by
  intro fuel
  induction fuel with
  | zero => intro vis root h; omega
  | succ f ih =>
    intro vis root hf hp hall
    unfold hasChild
    have : present.contains root = true := by simpa using hp
    simp only [this, Bool.not_true, Bool.false_eq_true, if_false]
    apply hcLoop_some
    intro c hc vis'
    apply ih
    · have := hrk root c hc; omega
    · exact hall c (.link hc)
    · intro x hx; exact hall x (.step hc hx)

theorem indirectLoop_no_error (dag : Dag) (present : List Nat) (c : Nat) (rk : Nat → Nat)
    (hrk : ∀ x y, y ∈ dag.links x → rk y < rk x) (hn : ∀ x, rk x ≤ dag.n) :
    ∀ (idx : Idx) (vis : List Nat),
      (∀ r id, (r, id) ∈ idx → r ∈ present ∧ ∀ x, Reach dag r x → x ∈ present) →
      indirectLoop dag present c idx vis ≠ .notfound := by
  intro idx
  induction idx with
  | nil => intro vis _; simp [indirectLoop]
  | cons e rest ih =>
    intro vis h
    obtain ⟨rc, id0⟩ := e
    unfold indirectLoop
    have hh := h rc id0 (by simp)
    cases hr : hasChild dag present c (dag.n + 1) vis rc with
    | none =>
      exact absurd hr (hasChild_some dag present c rk hrk _ _ _ (by have := hn rc; omega) hh.1 hh.2)
    | some p =>
      obtain ⟨b, v⟩ := p
      cases b with
      | true => simp
      | false => exact ih _ (fun r id hm => h r id (by simp [hm]))

end C22

namespace C22

/-! ### `reachSet` (the model of merkledag.Walk in the batch queries) computes reachability -/

theorem reachSet_fold_sound (dag : Dag) (f : Nat)
    (ih : ∀ vis x y, y ∈ reachSet dag f vis x → y ∈ vis ∨ y = x ∨ Reach dag x y) :
    ∀ (cs : List Nat) (vis : List Nat) (y : Nat),
      y ∈ cs.foldl (fun v c => reachSet dag f v c) vis → y ∈ vis ∨ ∃ c ∈ cs, y = c ∨ Reach dag c y := by
  intro cs
  induction cs with
  | nil => intro vis y h; exact Or.inl h
  | cons c cs ihc =>
    intro vis y h
    simp only [List.foldl_cons] at h
    rcases ihc _ y h with h1 | ⟨c', hc', h2⟩
    · rcases ih vis c y h1 with h3 | h3 | h3
      · exact Or.inl h3
      · exact Or.inr ⟨c, by simp, Or.inl h3⟩
      · exact Or.inr ⟨c, by simp, Or.inr h3⟩
    · exact Or.inr ⟨c', by simp [hc'], h2⟩

theorem reachSet_sound (dag : Dag) : ∀ f vis x y, y ∈ reachSet dag f vis x → y ∈ vis ∨ y = x ∨ Reach dag x y := by
  intro f
  induction f with
  | zero => intro vis x y h; exact Or.inl h
  | succ f ih =>
    intro vis x y h
    unfold reachSet at h
    split at h
    · exact Or.inl h
    · rcases reachSet_fold_sound dag f ih _ _ y h with h1 | ⟨c, hc, h2⟩
      · simp only [List.mem_cons] at h1
        rcases h1 with h1 | h1
        · exact Or.inr (Or.inl h1)
        · exact Or.inl h1
      · rcases h2 with rfl | h2
        · exact Or.inr (Or.inr (.link hc))
        · exact Or.inr (Or.inr (.step hc h2))

/-- every visited node outside the stack has all its links visited -/
def Closed' (dag : Dag) (V S : List Nat) : Prop := ∀ a ∈ V, a ∉ S → ∀ y ∈ dag.links a, y ∈ V

def Done' (dag : Dag) (links vis v S : List Nat) : Prop :=
  (∀ a ∈ vis, a ∈ v) ∧ Closed' dag v S ∧ ∀ y ∈ links, y ∈ v

theorem reachSet_fold_complete (dag : Dag) (f : Nat) (rk : Nat → Nat)
    (ih : ∀ vis x S, rk x < f → Closed' dag vis S → Done' dag [x] vis (reachSet dag f vis x) S) :
    ∀ (cs vis S : List Nat), (∀ c ∈ cs, rk c < f) → Closed' dag vis S →
      Done' dag cs vis (cs.foldl (fun v c => reachSet dag f v c) vis) S := by
  intro cs
  induction cs with
  | nil => intro vis S _ hc; exact ⟨fun _ h => h, hc, by simp⟩
  | cons c cs ihc =>
    intro vis S hr hc
    simp only [List.foldl_cons]
    obtain ⟨a1, a2, a3⟩ := ih vis c S (hr c (by simp)) hc
    obtain ⟨b1, b2, b3⟩ := ihc _ S (fun c' hc' => hr c' (by simp [hc'])) a2
    refine ⟨fun a ha => b1 _ (a1 _ ha), b2, ?_⟩
    intro y hy
    simp only [List.mem_cons] at hy
    rcases hy with rfl | hy
    · exact b1 _ (a3 _ (by simp))
    · exact b3 y hy

theorem reachSet_complete (dag : Dag) (rk : Nat → Nat) (hrk : ∀ x y, y ∈ dag.links x → rk y < rk x) :
    ∀ f vis x S, rk x < f → Closed' dag vis S → Done' dag [x] vis (reachSet dag f vis x) S := by
  intro f
  induction f with
  | zero => intro vis x S h; omega
  | succ f ih =>
    intro vis x S hf hc
    unfold reachSet
    split
    · rename_i hx
      exact ⟨fun _ h => h, hc, by simpa using hx⟩
    · have hc' : Closed' dag (x :: vis) (x :: S) := by
        intro a ha has y hy
        simp only [List.mem_cons, not_or] at ha has
        rcases ha with rfl | ha
        · exact absurd rfl has.1
        · simp [hc a ha has.2 y hy]
      obtain ⟨a1, a2, a3⟩ := reachSet_fold_complete dag f rk ih (dag.links x) (x :: vis) (x :: S)
        (fun c hcl => by have := hrk x c hcl; omega) hc'
      refine ⟨fun a ha => a1 _ (by simp [ha]), ?_, ?_⟩
      · intro a ha has y hy
        by_cases hax : a = x
        · subst hax; exact a3 y hy
        · exact a2 a ha (by simp [hax, has]) y hy
      · intro y hy
        simp only [List.mem_singleton] at hy
        subst hy
        exact a1 _ (by simp)

theorem closed'_reach {dag : Dag} {V : List Nat} (hc : Closed' dag V []) {r c : Nat}
    (hr : r ∈ V) (h : Reach dag r c) : c ∈ V := by
  induction h with
  | link h0 => exact hc _ hr (by simp) _ h0
  | step h0 _ ih => exact ih (hc _ hr (by simp) _ h0)

theorem reachStar_iff (dag : Dag) (rk : Nat → Nat) (hrk : ∀ x y, y ∈ dag.links x → rk y < rk x)
    (hn : ∀ x, rk x ≤ dag.n) (r c : Nat) : reachStar dag r c = true ↔ c = r ∨ Reach dag r c := by
  unfold reachStar
  rw [List.contains_iff_mem]
  constructor
  · intro h
    rcases reachSet_sound dag _ _ _ _ h with h | h | h
    · simp at h
    · exact Or.inl h
    · exact Or.inr h
  · obtain ⟨_, a2, a3⟩ := reachSet_complete dag rk hrk (dag.n + 1) [] r []
      (by have := hn r; omega) (by intro a ha; simp at ha)
    rintro (rfl | h)
    · exact a3 _ (by simp)
    · exact closed'_reach a2 (a3 _ (by simp)) h

end C22
