import BoxoModel.C22.Model
/-!
Line-protocol rendering shared by Drivers/C22.lean and Drivers/C23.lean (core-only).
The formats mirror harness/pinh/pinh.go.
-/
namespace C22

def resTok : Res → String
  | .ok => "ok" | .cancelled => "cancelled" | .notpinned => "notpinned" | .alreadyRec => "already-rec"
  | .isRec => "is-rec" | .fromNotRec => "from-notrec" | .toRec => "to-rec" | .badmode => "badmode"
  | .notfound => "notfound" | .other => "other"

def modeNum : Mode → Nat
  | .recursive => 0
  | .direct => 1

def modeChar : Mode → String
  | .recursive => "r"
  | .direct => "d"

def whichChar : Which → String
  | .R => "R" | .D => "D" | .N => "N"

def writeKey : Write → String
  | .putDirty b => s!"dirty={b}"
  | .putRec id r => s!"rec{id}={r.cid},{modeNum r.mode},{r.name}"
  | .delRec id => s!"rec{id}"
  | .addIdx w k v => s!"{whichChar w}{k}.{v}"
  | .delIdx w k v => s!"{whichChar w}{k}.{v}"

def writeSign : Write → String
  | .putDirty _ | .putRec _ _ | .addIdx _ _ _ => "+"
  | .delRec _ | .delIdx _ _ _ => "-"

def writeTok (w : Write) : String := writeSign w ++ writeKey w

def writesTok (ws : List Write) : String := "[" ++ ";".intercalate (ws.map writeTok) ++ "]"

/-- sort key of a canonical key: kind rank, then the numbers before `=` -/
def writeRank : Write → Nat × List Nat
  | .putDirty _ => (0, [])
  | .putRec id _ => (1, [id])
  | .delRec id => (1, [id])
  | .addIdx w k v => ((match w with | .R => 2 | .D => 3 | .N => 4), [k, v])
  | .delIdx w k v => ((match w with | .R => 2 | .D => 3 | .N => 4), [k, v])

def listLt : List Nat → List Nat → Bool
  | [], [] => false
  | [], _ :: _ => true
  | _ :: _, [] => false
  | a :: as, b :: bs => a < b || (a == b && listLt as bs)

def rankLt (a b : (Nat × List Nat) × String) : Bool :=
  a.1.1 < b.1.1 || (a.1.1 == b.1.1 && (listLt a.1.2 b.1.2 || (a.1.2 == b.1.2 && a.2 < b.2)))

def insertBy {α : Type} (lt : α → α → Bool) (x : α) : List α → List α
  | [] => [x]
  | y :: r => if lt x y then x :: y :: r else y :: insertBy lt x r

def sortBy {α : Type} (lt : α → α → Bool) (xs : List α) : List α := xs.foldr (insertBy lt) []

/-- the writes of an index rebuild, sorted like the harness does -/
def rebuildTok (ws : List Write) : String :=
  let es := sortBy rankLt (ws.map fun w => (writeRank w, writeTok w))
  "[" ++ ";".intercalate (es.map (·.2)) ++ "]"

/-- the /pins keyspace -/
def rawTok (st : Store) : String :=
  let d := match st.dirty with | some b => [s!"dirty={b}"] | none => []
  let recs := sortBy (fun (a b : Nat × PinRec) => a.1 < b.1) st.recs
  let rs := recs.map fun e => s!"rec{e.1}={e.2.cid},{modeNum e.2.mode},{e.2.name}"
  let ix := fun (ch : String) (x : Idx) => x.map fun e => s!"{ch}{e.1}.{e.2}"
  "{" ++ ";".intercalate (d ++ rs ++ ix "R" st.idxR ++ ix "D" st.idxD ++ ix "N" st.idxN) ++ "}"

def qTok : QRes → String
  | .recursive => "r" | .direct => "d" | .via r => s!"i{r}" | .no => "n" | .invalid => "Einvalid" | .notfound => "Enotfound"

def dedupSorted (xs : List Nat) : List Nat :=
  (sortBy (fun a b => decide (a < b)) xs).eraseDups

/-- canonical name: with several pins for one (cid, mode) the harness prints the candidate set -/
def nameTok (s : St) (idx : Idx) (c : Nat) (got : Nat) : String :=
  let cands := dedupSorted ((idx.search c).filterMap fun id => (RMap.find s.store.recs id).map (·.name))
  if cands.length > 1 ∧ cands.contains got then "|".intercalate (cands.map toString) else toString got

def bTok (s : St) (names : Bool) (c : Nat) : BRes → String
  | .recursive nm => "r" ++ (if names then "/" ++ nameTok s s.store.idxR c nm else "")
  | .direct nm => "d" ++ (if names then "/" ++ nameTok s s.store.idxD c nm else "")
  | .ind v => s!"i{v}"
  | .no => "n"

def batchTok (s : St) (names : Bool) (cids : List Nat) : Batch → String
  | .invalid => "Einvalid"
  | .dangling => "dangling"
  | .res l => ",".intercalate ((cids.zip l).map fun e => s!"{e.1}:{bTok s names e.1 e.2}")

def listTok (s : St) (idx : Idx) (detailed : Bool) : String :=
  ",".intercalate ((listKeys s idx detailed).map fun e =>
    match e.2 with
    | some pp => s!"{e.1}:{modeChar pp.mode}/{nameTok s idx e.1 pp.name}"
    | none => toString e.1)

def queryModes : List Int := [0, 1, 2, 3, 4, 5, 6]

def dumpLine (dag : Dag) (s : St) : String :=
  let cids := List.range dag.n
  let ip := "ip=" ++ ",".intercalate (cids.map fun c => qTok (isPinned dag s c))
  let ts := queryModes.map fun m => s!" t{m}=" ++ ",".intercalate (cids.map fun c => qTok (isPinnedWithType dag s c m))
  let ck := " ck=" ++ batchTok s false cids (checkIfPinned dag s cids)
  let ks := queryModes.flatMap fun m => [false, true].map fun nm =>
    s!" k{m}{if nm then 1 else 0}=" ++ batchTok s nm cids (checkIfPinnedWithType dag s m nm cids)
  ip ++ String.join ts ++ ck ++ String.join ks ++
    " dk0=" ++ listTok s s.store.idxD false ++ " dk1=" ++ listTok s s.store.idxD true ++
    " rk0=" ++ listTok s s.store.idxR false ++ " rk1=" ++ listTok s s.store.idxR true

/-- the reduced dump used for the crash images of C23 -/
def dumpLight (dag : Dag) (s : St) : String :=
  let cids := List.range dag.n
  "ip=" ++ ",".intercalate (cids.map fun c => qTok (isPinned dag s c)) ++
    " ck=" ++ batchTok s false cids (checkIfPinned dag s cids) ++
    " k51=" ++ batchTok s true cids (checkIfPinnedWithType dag s 5 true cids) ++
    " dk1=" ++ listTok s s.store.idxD true ++ " rk1=" ++ listTok s s.store.idxR true

/-! parsing -/

def parseCtx : String → Option Ctx
  | "ok" => some .ok | "pre" => some .pre | "mid" => some .mid | _ => none

def parseOp : List String → Option Op
  | ["pin", c, r, n, x] => do pure (.pin (← c.toNat?) ((← r.toNat?) == 1) (← n.toNat?) (← parseCtx x))
  | ["pinmode", c, m, n, x] => do pure (.pinMode (← c.toNat?) (← m.toInt?) (← n.toNat?) (← parseCtx x))
  | ["unpin", c, r, x] => do pure (.unpin (← c.toNat?) ((← r.toNat?) == 1) (← parseCtx x))
  | ["update", a, b, u, x] => do pure (.update (← a.toNat?) (← b.toNat?) ((← u.toNat?) == 1) (← parseCtx x))
  | ["autosync", b] => do pure (.setAutosync ((← b.toNat?) == 1))
  | ["flush"] => some .flush
  | _ => none

def splitAt2 (ts : List String) : List String × List String :=
  (ts.takeWhile (· ≠ ";;"), (ts.dropWhile (· ≠ ";;")).drop 1)

/-- result token of a call (SetAutosync returns the previous value) -/
def callTok (before : St) (op : Op) (r : Res) : String :=
  match op with
  | .setAutosync _ => if before.autoSync then "was1" else "was0"
  | _ => resTok r

/-- `dag <n> <tok>…`, tok = ('+'|'!') salt ':' links -/
def parseDag (ts : List String) : Option (Dag × List Nat) :=
  match ts with
  | n :: toks => do
    let n ← n.toNat?
    let parsed ← toks.mapM fun (t : String) =>
      match t.splitOn ":" with
      | [hd, ls] =>
        let links := if ls == "" then some [] else (ls.splitOn ",").mapM String.toNat?
        links.map fun l => (hd.startsWith "+", l)
      | _ => none
    let arr := parsed.toArray
    if arr.size ≠ n then none
    else
      let links := fun i => match arr[i]? with | some e => e.2 | none => []
      let present := (List.range n).filter fun i => match arr[i]? with | some e => e.1 | none => false
      pure ({ n := n, links := links }, present)
  | _ => none

def fields (line : String) : List String :=
  (line.trimAscii.toString.splitOn " ").filter (· ≠ "")

end C22
