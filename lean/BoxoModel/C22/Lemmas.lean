import BoxoModel.C22.Model
/-!
Helper lemmas for C22 / C23 (the property theorems are in Props/C22.lean and Props/C23.lean).
Part 1: the index multimap and the store "views" (`find` on records, membership in the indexes).
-/
namespace C22

/-! ### index multimap -/

theorem Idx.mem_add (x : Idx) (p y : Nat × Nat) : y ∈ Idx.add x p ↔ y = p ∨ y ∈ x := by
  induction x with
  | nil => simp [Idx.add]
  | cons q r ih =>
    unfold Idx.add
    by_cases h1 : p = q
    · subst h1; simp
    · by_cases h2 : pairLt p q = true
      · simp [h1, h2]
      · simp [h1, h2, ih]; grind

theorem Idx.mem_del (x : Idx) (p y : Nat × Nat) : y ∈ Idx.del x p ↔ y ∈ x ∧ y ≠ p := by
  simp [Idx.del]

theorem Idx.mem_search (x : Idx) (k v : Nat) : v ∈ Idx.search x k ↔ (k, v) ∈ x := by
  simp [Idx.search]

theorem Idx.hasAny_iff (x : Idx) (k : Nat) : Idx.hasAny x k = true ↔ ∃ v, (k, v) ∈ x := by
  simp [Idx.hasAny]

theorem Idx.hasAny_iff_search (x : Idx) (k : Nat) : Idx.hasAny x k = true ↔ Idx.search x k ≠ [] := by
  rw [Idx.hasAny_iff]
  constructor
  · rintro ⟨v, h⟩ he
    have := (Idx.mem_search x k v).2 h
    simp [he] at this
  · intro h
    cases hs : Idx.search x k with
    | nil => exact absurd hs h
    | cons v r => exact ⟨v, (Idx.mem_search x k v).1 (by simp [hs])⟩

theorem Idx.hasValue_iff (x : Idx) (k v : Nat) : Idx.hasValue x k v = true ↔ (k, v) ∈ x := by
  simp [Idx.hasValue]

/-! ### store views -/

/-- membership in one of the three indexes -/
def Store.has (st : Store) (w : Which) (k v : Nat) : Prop := (k, v) ∈ st.idx w

/-- the pin record of an id -/
def Store.rec? (st : Store) (id : Nat) : Option PinRec := AMap.find st.recs id

@[simp] theorem Store.idx_setIdx (st : Store) (w w' : Which) (x : Idx) :
    (st.setIdx w x).idx w' = if w' = w then x else st.idx w' := by
  cases w <;> cases w' <;> simp [Store.setIdx, Store.idx]

@[simp] theorem Store.recs_setIdx (st : Store) (w : Which) (x : Idx) : (st.setIdx w x).recs = st.recs := by
  cases w <;> rfl

@[simp] theorem Store.dirty_setIdx (st : Store) (w : Which) (x : Idx) : (st.setIdx w x).dirty = st.dirty := by
  cases w <;> rfl

theorem Store.has_apply (st : Store) (wr : Write) (w : Which) (k v : Nat) :
    (st.apply wr).has w k v ↔
      match wr with
      | .addIdx w' k' v' => (w = w' ∧ k = k' ∧ v = v') ∨ st.has w k v
      | .delIdx w' k' v' => st.has w k v ∧ ¬ (w = w' ∧ k = k' ∧ v = v')
      | _ => st.has w k v := by
  cases wr with
  | putDirty b => cases w <;> simp [Store.apply, Store.has, Store.idx]
  | putRec id r => cases w <;> simp [Store.apply, Store.has, Store.idx]
  | delRec id => cases w <;> simp [Store.apply, Store.has, Store.idx]
  | addIdx w' k' v' =>
    simp only [Store.apply, Store.has, Store.idx_setIdx]
    by_cases h : w = w'
    · subst h; simp [Idx.mem_add]
    · simp [h]
  | delIdx w' k' v' =>
    simp only [Store.apply, Store.has, Store.idx_setIdx]
    by_cases h : w = w'
    · subst h; simp [Idx.mem_del]
    · simp [h]

theorem Store.rec_apply (st : Store) (wr : Write) (id : Nat) :
    (st.apply wr).rec? id =
      match wr with
      | .putRec id' r => if id' = id then some r else st.rec? id
      | .delRec id' => if id' = id then none else st.rec? id
      | _ => st.rec? id := by
  cases wr with
  | putDirty b => rfl
  | putRec id' r => simp [Store.apply, Store.rec?, AMap.find_insert]
  | delRec id' => simp [Store.apply, Store.rec?, AMap.find_erase]
  | addIdx w k v => simp [Store.apply, Store.rec?]
  | delIdx w k v => simp [Store.apply, Store.rec?]

theorem Store.dirty_apply (st : Store) (wr : Write) :
    (st.apply wr).dirty = match wr with | .putDirty b => some b | _ => st.dirty := by
  cases wr <;> simp [Store.apply]

end C22
