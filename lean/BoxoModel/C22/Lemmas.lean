import BoxoModel.C22.Model
/-!
Helper lemmas for C22 / C23 (the property theorems are in Props/C22.lean and Props/C23.lean).
Part 1: the index multimap and the store "views" (`find` on records, membership in the indexes).
-/
namespace C22

/-! ### index multimap -/

theorem Idx.ins_perm (x : Idx) (p : Nat × Nat) : (Idx.ins x p).Perm (p :: x) := by
  induction x with
  | nil => simp [Idx.ins]
  | cons q r ih =>
    unfold Idx.ins
    split
    · exact List.Perm.refl _
    · exact (List.Perm.cons q ih).trans (List.Perm.swap p q r)

theorem Idx.mem_add (x : Idx) (p y : Nat × Nat) : y ∈ Idx.add x p ↔ y = p ∨ y ∈ x := by
  unfold Idx.add
  by_cases h : x.contains p = true
  · rw [if_pos h]
    have : p ∈ x := by simpa using h
    constructor
    · exact Or.inr
    · rintro (rfl | h') <;> assumption
  · rw [if_neg h, (Idx.ins_perm x p).mem_iff]; simp

theorem Idx.nodup_add (x : Idx) (p : Nat × Nat) (h : x.Nodup) : (Idx.add x p).Nodup := by
  unfold Idx.add
  by_cases hc : x.contains p = true
  · rw [if_pos hc]; exact h
  · rw [if_neg hc, (Idx.ins_perm x p).nodup_iff, List.nodup_cons]
    exact ⟨by simpa using hc, h⟩

theorem Idx.nodup_del (x : Idx) (p : Nat × Nat) (h : x.Nodup) : (Idx.del x p).Nodup :=
  h.sublist List.filter_sublist

theorem Idx.mem_del (x : Idx) (p y : Nat × Nat) : y ∈ Idx.del x p ↔ y ∈ x ∧ y ≠ p := by
  simp [Idx.del]

theorem Idx.mem_search (x : Idx) (k v : Nat) : v ∈ Idx.search x k ↔ (k, v) ∈ x := by
  simp [Idx.search]

theorem Idx.hasAny_iff (x : Idx) (k : Nat) : Idx.hasAny x k = true ↔ ∃ v, (k, v) ∈ x := by
  simp [Idx.hasAny]

theorem Idx.hasAny_iff_search (x : Idx) (k : Nat) : Idx.hasAny x k = true ↔ Idx.search x k ≠ [] := by
  rw [Idx.hasAny_iff]
  constructor
  · rintro ⟨v, h⟩ he
    have := (Idx.mem_search x k v).2 h
    simp [he] at this
  · intro h
    cases hs : Idx.search x k with
    | nil => exact absurd hs h
    | cons v r => exact ⟨v, (Idx.mem_search x k v).1 (by simp [hs])⟩

theorem Idx.hasValue_iff (x : Idx) (k v : Nat) : Idx.hasValue x k v = true ↔ (k, v) ∈ x := by
  simp [Idx.hasValue]

/-! ### store views -/

/-- membership in one of the three indexes -/
def Store.has (st : Store) (w : Which) (k v : Nat) : Prop := (k, v) ∈ st.idx w

/-- the pin record of an id -/
def Store.rec? (st : Store) (id : Nat) : Option PinRec := RMap.find st.recs id

@[simp] theorem Store.idx_setIdx (st : Store) (w w' : Which) (x : Idx) :
    (st.setIdx w x).idx w' = if w' = w then x else st.idx w' := by
  cases w <;> cases w' <;> simp [Store.setIdx, Store.idx]

@[simp] theorem Store.recs_setIdx (st : Store) (w : Which) (x : Idx) : (st.setIdx w x).recs = st.recs := by
  cases w <;> rfl

@[simp] theorem Store.dirty_setIdx (st : Store) (w : Which) (x : Idx) : (st.setIdx w x).dirty = st.dirty := by
  cases w <;> rfl

theorem Store.has_apply (st : Store) (wr : Write) (w : Which) (k v : Nat) :
    (st.apply wr).has w k v ↔
      match wr with
      | .addIdx w' k' v' => (w = w' ∧ k = k' ∧ v = v') ∨ st.has w k v
      | .delIdx w' k' v' => st.has w k v ∧ ¬ (w = w' ∧ k = k' ∧ v = v')
      | _ => st.has w k v := by
  cases wr with
  | putDirty b => cases w <;> simp [Store.apply, Store.has, Store.idx]
  | putRec id r => cases w <;> simp [Store.apply, Store.has, Store.idx]
  | delRec id => cases w <;> simp [Store.apply, Store.has, Store.idx]
  | addIdx w' k' v' =>
    simp only [Store.apply, Store.has, Store.idx_setIdx]
    by_cases h : w = w'
    · subst h; simp [Idx.mem_add]
    · simp [h]
  | delIdx w' k' v' =>
    simp only [Store.apply, Store.has, Store.idx_setIdx]
    by_cases h : w = w'
    · subst h; simp [Idx.mem_del]
    · simp [h]

theorem Store.rec_apply (st : Store) (wr : Write) (id : Nat) :
    (st.apply wr).rec? id =
      match wr with
      | .putRec id' r => if id' = id then some r else st.rec? id
      | .delRec id' => if id' = id then none else st.rec? id
      | _ => st.rec? id := by
  cases wr with
  | putDirty b => rfl
  | putRec id' r => simp [Store.apply, Store.rec?, RMap.find_insert]
  | delRec id' => simp [Store.apply, Store.rec?, RMap.find_erase]
  | addIdx w k v => simp [Store.apply, Store.rec?]
  | delIdx w k v => simp [Store.apply, Store.rec?]

theorem Store.dirty_apply (st : Store) (wr : Write) :
    (st.apply wr).dirty = match wr with | .putDirty b => some b | _ => st.dirty := by
  cases wr <;> simp [Store.apply]

/-! ### consistency predicates -/

/-- every index entry has a matching pin record (cid, mode, name) -/
structure Store.NoOrphan (st : Store) : Prop where
  r : ∀ c id, st.has .R c id → ∃ nm, st.rec? id = some ⟨c, .recursive, nm⟩
  d : ∀ c id, st.has .D c id → ∃ nm, st.rec? id = some ⟨c, .direct, nm⟩
  n : ∀ nm id, st.has .N nm id → nm ≠ 0 ∧ ∃ c m, st.rec? id = some ⟨c, m, nm⟩

/-- every pin record is indexed: in the cid index of its mode, and in the name index when named -/
def Store.Indexed (st : Store) : Prop :=
  ∀ id pp, st.rec? id = some pp →
    st.has (modeIdx pp.mode) pp.cid id ∧ (pp.name ≠ 0 → st.has .N pp.name id)

/-- records and indexes agree (the predicate of property C23) -/
def Store.Consistent (st : Store) : Prop := st.NoOrphan ∧ st.Indexed

/-- what a crash image must satisfy for `New` to repair it: no orphan index entries, and complete
indexes unless the dirty flag is set -/
def Store.Safe (st : Store) : Prop := st.NoOrphan ∧ (st.dirty ≠ some 1 → st.Indexed)

theorem Store.applyAll_append (st : Store) (a b : List Write) :
    st.applyAll (a ++ b) = (st.applyAll a).applyAll b := by
  simp [Store.applyAll, List.foldl_append]

/-- the store is the start store plus the log, and every prefix of the log gives a safe image -/
def Tr (s0 : Store) (s : St) : Prop :=
  s.store = s0.applyAll s.log ∧ ∀ n, (s0.applyAll (s.log.take n)).Safe

theorem Tr.write {s0 : Store} {s : St} (h : Tr s0 s) (w : Write) (hs : (s.store.apply w).Safe) :
    Tr s0 (s.write w) := by
  obtain ⟨h1, h2⟩ := h
  refine ⟨?_, ?_⟩
  · simp only [St.write, Store.applyAll_append]
    rw [← h1]; rfl
  · intro n
    by_cases hn : n ≤ s.log.length
    · have : (s.log ++ [w]).take n = s.log.take n := by
        rw [List.take_append_of_le_length hn]
      simpa [St.write, this] using h2 n
    · have : (s.log ++ [w]).take n = s.log ++ [w] := by
        apply List.take_of_length_le; simp; omega
      simp only [St.write, this, Store.applyAll_append, ← h1]
      simpa [Store.applyAll] using hs

theorem Tr.start (s : St) (h : s.store.Safe) : Tr s.store { s with log := [] } := by
  refine ⟨by simp [Store.applyAll], ?_⟩
  intro n; simpa [Store.applyAll] using h

/-- invariant at the boundaries between the primitive steps of an operation -/
structure Good (s0 : Store) (s : St) : Prop where
  tr : Tr s0 s
  cons : s.store.Consistent
  flag : s.memDirty = true ↔ s.store.dirty = some 1
  fresh : ∀ id, s.nextId ≤ id → s.store.rec? id = none
  nodup : RMap.NoDupKeys s.store.recs

/-- invariant inside a primitive step, after `setDirty` -/
structure Mid (s0 : Store) (s : St) : Prop where
  tr : Tr s0 s
  noOrphan : s.store.NoOrphan
  dirty : s.store.dirty = some 1
  mem : s.memDirty = true
  nodup : RMap.NoDupKeys s.store.recs

theorem Mid.write {s0 : Store} {s : St} (h : Mid s0 s) (w : Write) (hw : ∀ b, w ≠ .putDirty b)
    (hno : (s.store.apply w).NoOrphan) : Mid s0 (s.write w) := by
  have hd : (s.store.apply w).dirty = some 1 := by
    rw [Store.dirty_apply]; cases w <;> simp_all [h.dirty]
  refine ⟨h.tr.write w ⟨hno, by simp [hd]⟩, hno, hd, h.mem, ?_⟩
  cases w with
  | putRec id r => exact RMap.noDupKeys_insert _ _ _ h.nodup
  | delRec id => exact RMap.noDupKeys_erase _ _ h.nodup
  | putDirty b => exact h.nodup
  | addIdx w k v => simpa [St.write, Store.apply] using h.nodup
  | delIdx w k v => simpa [St.write, Store.apply] using h.nodup

theorem good_setDirty {s0 : Store} {s : St} (h : Good s0 s) : Mid s0 (setDirty s) := by
  unfold C22.setDirty
  by_cases hm : s.memDirty = true
  · simp only [hm, if_true]
    exact ⟨h.tr, h.cons.1, h.flag.1 hm, hm, h.nodup⟩
  · simp only [hm]
    have hno : (s.store.apply (.putDirty 1)).NoOrphan := by
      constructor <;> intro a b hab <;> simp only [Store.has_apply, Store.rec_apply] at hab ⊢
      · exact h.cons.1.r a b hab
      · exact h.cons.1.d a b hab
      · exact h.cons.1.n a b hab
    have ht := h.tr.write (.putDirty 1) ⟨hno, by simp [Store.dirty_apply]⟩
    exact ⟨ht, hno, by simp [St.write, Store.dirty_apply], rfl, by simpa [St.write, Store.apply] using h.nodup⟩

theorem mid_setDirty {s0 : Store} {s : St} (h : Mid s0 s) : setDirty s = s := by
  simp [C22.setDirty, h.mem]

/-- leaving a primitive step: the indexes are complete again -/
theorem Mid.toGood {s0 : Store} {s : St} (h : Mid s0 s) (hi : s.store.Indexed)
    (hf : ∀ id, s.nextId ≤ id → s.store.rec? id = none) : Good s0 s :=
  ⟨h.tr, ⟨h.noOrphan, hi⟩, ⟨fun _ => h.dirty, fun _ => h.mem⟩, hf, h.nodup⟩

theorem good_setClean {s0 : Store} {s : St} (h : Good s0 s) : Good s0 (setClean s) := by
  unfold C22.setClean
  by_cases hm : s.memDirty = true
  · simp only [hm, if_true]
    have hno : (s.store.apply (.putDirty 0)).NoOrphan := by
      constructor <;> intro a b hab <;> simp only [Store.has_apply, Store.rec_apply] at hab ⊢
      · exact h.cons.1.r a b hab
      · exact h.cons.1.d a b hab
      · exact h.cons.1.n a b hab
    have hix : (s.store.apply (.putDirty 0)).Indexed := by
      intro id pp hp
      simp only [Store.has_apply, Store.rec_apply] at hp ⊢
      exact h.cons.2 id pp hp
    refine ⟨h.tr.write _ ⟨hno, fun _ => hix⟩, ⟨hno, hix⟩, by simp [St.write, Store.dirty_apply], ?_, by simpa [St.write, Store.apply] using h.nodup⟩
    intro id hid
    simpa [St.write, Store.rec_apply] using h.fresh id hid
  · simp only [hm]
    exact h

theorem good_flushPins {s0 : Store} {s : St} (h : Good s0 s) : Good s0 (flushPins s) := by
  unfold flushPins; split
  · exact good_setClean h
  · exact h

/-! ### effects of the primitive steps on the views -/

@[simp] theorem write_rec (s : St) (w : Write) (id : Nat) :
    (s.write w).store.rec? id = (s.store.apply w).rec? id := rfl
@[simp] theorem write_has (s : St) (w : Write) (x : Which) (k v : Nat) :
    (s.write w).store.has x k v ↔ (s.store.apply w).has x k v := Iff.rfl
@[simp] theorem write_nextId (s : St) (w : Write) : (s.write w).nextId = s.nextId := rfl
@[simp] theorem write_present (s : St) (w : Write) : (s.write w).present = s.present := rfl
@[simp] theorem write_memDirty (s : St) (w : Write) : (s.write w).memDirty = s.memDirty := rfl

@[simp] theorem setDirty_rec (s : St) (id : Nat) : (setDirty s).store.rec? id = s.store.rec? id := by
  unfold setDirty; split <;> simp [Store.rec_apply]
@[simp] theorem setDirty_has (s : St) (x : Which) (k v : Nat) :
    (setDirty s).store.has x k v ↔ s.store.has x k v := by
  unfold setDirty; split <;> simp [Store.has_apply]
@[simp] theorem setDirty_nextId (s : St) : (setDirty s).nextId = s.nextId := by
  unfold setDirty; split <;> simp
@[simp] theorem setDirty_present (s : St) : (setDirty s).present = s.present := by
  unfold setDirty; split <;> simp

@[simp] theorem setClean_rec (s : St) (id : Nat) : (setClean s).store.rec? id = s.store.rec? id := by
  unfold setClean; split <;> simp [Store.rec_apply]
@[simp] theorem setClean_has (s : St) (x : Which) (k v : Nat) :
    (setClean s).store.has x k v ↔ s.store.has x k v := by
  unfold setClean; split <;> simp [Store.has_apply]
@[simp] theorem setClean_nextId (s : St) : (setClean s).nextId = s.nextId := by
  unfold setClean; split <;> simp
@[simp] theorem setClean_present (s : St) : (setClean s).present = s.present := by
  unfold setClean; split <;> simp
@[simp] theorem setClean_memDirty (s : St) : (setClean s).memDirty = false := by
  unfold setClean; split <;> simp_all
@[simp] theorem flushPins_rec (s : St) (id : Nat) : (flushPins s).store.rec? id = s.store.rec? id := by
  unfold flushPins; split <;> simp
@[simp] theorem flushPins_has (s : St) (x : Which) (k v : Nat) :
    (flushPins s).store.has x k v ↔ s.store.has x k v := by
  unfold flushPins; split <;> simp
@[simp] theorem flushPins_nextId (s : St) : (flushPins s).nextId = s.nextId := by
  unfold flushPins; split <;> simp
@[simp] theorem flushPins_present (s : St) : (flushPins s).present = s.present := by
  unfold flushPins; split <;> simp

theorem addPin_rec (s : St) (c : Nat) (m : Mode) (name : Nat) (id : Nat) :
    (addPin s c m name).store.rec? id = if s.nextId = id then some ⟨c, m, name⟩ else s.store.rec? id := by
  unfold addPin
  by_cases hn : name = 0 <;> simp [hn, Store.rec_apply]

theorem addPin_has (s : St) (c : Nat) (m : Mode) (name : Nat) (x : Which) (k v : Nat) :
    (addPin s c m name).store.has x k v ↔
      (x = modeIdx m ∧ k = c ∧ v = s.nextId) ∨ (x = .N ∧ name ≠ 0 ∧ k = name ∧ v = s.nextId) ∨
        s.store.has x k v := by
  unfold addPin
  by_cases hn : name = 0
  · simp [hn, Store.has_apply]
  · simp [hn, Store.has_apply]; grind

@[simp] theorem addPin_nextId (s : St) (c : Nat) (m : Mode) (name : Nat) :
    (addPin s c m name).nextId = s.nextId + 1 := by
  unfold addPin; by_cases hn : name = 0 <;> simp [hn]

@[simp] theorem addPin_present (s : St) (c : Nat) (m : Mode) (name : Nat) :
    (addPin s c m name).present = s.present := by
  unfold addPin; by_cases hn : name = 0 <;> simp [hn]

theorem removePin_rec (s : St) (id : Nat) (pp : PinRec) (j : Nat) :
    (removePin s id pp).store.rec? j = if id = j then none else s.store.rec? j := by
  unfold removePin
  by_cases hn : pp.name = 0 <;> simp [hn, Store.rec_apply]

theorem removePin_has (s : St) (id : Nat) (pp : PinRec) (x : Which) (k v : Nat) :
    (removePin s id pp).store.has x k v ↔
      s.store.has x k v ∧ ¬ (x = modeIdx pp.mode ∧ k = pp.cid ∧ v = id) ∧
        ¬ (x = .N ∧ pp.name ≠ 0 ∧ k = pp.name ∧ v = id) := by
  unfold removePin
  by_cases hn : pp.name = 0
  · simp [hn, Store.has_apply]
  · simp [hn, Store.has_apply]; grind

@[simp] theorem removePin_nextId (s : St) (id : Nat) (pp : PinRec) : (removePin s id pp).nextId = s.nextId := by
  unfold removePin; by_cases hn : pp.name = 0 <;> simp [hn]
@[simp] theorem removePin_present (s : St) (id : Nat) (pp : PinRec) : (removePin s id pp).present = s.present := by
  unfold removePin; by_cases hn : pp.name = 0 <;> simp [hn]

/-! ### NoOrphan under single writes -/

theorem Store.NoOrphan.noEntry {st : Store} (h : st.NoOrphan) (id : Nat) (hid : st.rec? id = none)
    (w : Which) (k : Nat) : ¬ st.has w k id := by
  intro hh
  cases w with
  | R => obtain ⟨nm, e⟩ := h.r k id hh; simp [hid] at e
  | D => obtain ⟨nm, e⟩ := h.d k id hh; simp [hid] at e
  | N => obtain ⟨_, c, m, e⟩ := h.n k id hh; simp [hid] at e

theorem Store.NoOrphan.putRec {st : Store} (h : st.NoOrphan) (id : Nat) (r : PinRec)
    (hid : st.rec? id = none) : (st.apply (.putRec id r)).NoOrphan := by
  constructor
  · intro c j hj
    simp only [Store.has_apply, Store.rec_apply] at hj ⊢
    have : id ≠ j := fun e => h.noEntry id hid .R c (e ▸ hj)
    simpa [this] using h.r c j hj
  · intro c j hj
    simp only [Store.has_apply, Store.rec_apply] at hj ⊢
    have : id ≠ j := fun e => h.noEntry id hid .D c (e ▸ hj)
    simpa [this] using h.d c j hj
  · intro c j hj
    simp only [Store.has_apply, Store.rec_apply] at hj ⊢
    have : id ≠ j := fun e => h.noEntry id hid .N c (e ▸ hj)
    simpa [this] using h.n c j hj

theorem Store.NoOrphan.delIdx {st : Store} (h : st.NoOrphan) (w : Which) (k v : Nat) :
    (st.apply (.delIdx w k v)).NoOrphan := by
  constructor <;> intro a b hab <;> simp only [Store.has_apply, Store.rec_apply] at hab ⊢
  · exact h.r a b hab.1
  · exact h.d a b hab.1
  · exact h.n a b hab.1

theorem Store.NoOrphan.addIdx {st : Store} (h : st.NoOrphan) (w : Which) (k v : Nat)
    (hr : match w with
      | .R => ∃ nm, st.rec? v = some ⟨k, .recursive, nm⟩
      | .D => ∃ nm, st.rec? v = some ⟨k, .direct, nm⟩
      | .N => k ≠ 0 ∧ ∃ c m, st.rec? v = some ⟨c, m, k⟩) :
    (st.apply (.addIdx w k v)).NoOrphan := by
  constructor <;> intro a b hab <;> simp only [Store.has_apply, Store.rec_apply] at hab ⊢
  · rcases hab with ⟨rfl, rfl, rfl⟩ | hab
    · exact hr
    · exact h.r a b hab
  · rcases hab with ⟨rfl, rfl, rfl⟩ | hab
    · exact hr
    · exact h.d a b hab
  · rcases hab with ⟨rfl, rfl, rfl⟩ | hab
    · exact hr
    · exact h.n a b hab

theorem Store.NoOrphan.delRec {st : Store} (h : st.NoOrphan) (id : Nat)
    (hno : ∀ w k, ¬ st.has w k id) : (st.apply (.delRec id)).NoOrphan := by
  constructor <;> intro a b hab <;> simp only [Store.has_apply, Store.rec_apply] at hab ⊢
  · have : id ≠ b := fun e => hno .R a (e ▸ hab)
    simpa [this] using h.r a b hab
  · have : id ≠ b := fun e => hno .D a (e ▸ hab)
    simpa [this] using h.d a b hab
  · have : id ≠ b := fun e => hno .N a (e ▸ hab)
    simpa [this] using h.n a b hab

/-! ### the primitive steps preserve `Good` -/

theorem good_addPin {s0 : Store} {s : St} (h : Good s0 s) (c : Nat) (m : Mode) (name : Nat) :
    Good s0 (addPin s c m name) := by
  have hid : s.store.rec? s.nextId = none := h.fresh _ (Nat.le_refl _)
  have h1 : Good s0 { s with nextId := s.nextId + 1 } :=
    ⟨h.tr, h.cons, h.flag, fun id hh => h.fresh id (by simp at hh; omega), h.nodup⟩
  have m2 := good_setDirty h1
  have m3 := m2.write (.putRec s.nextId ⟨c, m, name⟩) (by simp)
    (m2.noOrphan.putRec _ _ (by simpa using hid))
  have m4 := m3.write (.addIdx (modeIdx m) c s.nextId) (by simp)
    (m3.noOrphan.addIdx _ _ _ (by cases m <;> simp [modeIdx, Store.rec_apply]))
  have hfin : Good s0 (addPin s c m name) := by
    by_cases hn : name = 0
    · have e : addPin s c m name = ((setDirty { s with nextId := s.nextId + 1 }).write
          (.putRec s.nextId ⟨c, m, name⟩)).write (.addIdx (modeIdx m) c s.nextId) := by
        simp [C22.addPin, hn]
      rw [e]
      refine m4.toGood ?_ ?_
      · intro id pp hp
        simp only [write_rec, write_has, Store.rec_apply, Store.has_apply, setDirty_rec, setDirty_has] at hp ⊢
        by_cases hi : s.nextId = id
        · subst hi; simp at hp; subst hp; simp [hn]
        · simp only [hi, if_false] at hp
          have := h.cons.2 id pp hp
          exact ⟨Or.inr this.1, fun h2 => Or.inr (this.2 h2)⟩
      · intro id hh
        simp only [write_rec, Store.rec_apply, setDirty_rec, write_nextId, setDirty_nextId] at hh ⊢
        have : s.nextId ≠ id := by omega
        simpa [this] using h.fresh id (by omega)
    · have m5 := m4.write (.addIdx .N name s.nextId) (by simp)
        (m4.noOrphan.addIdx _ _ _ (by simp [Store.rec_apply, hn]))
      have e : addPin s c m name = (((setDirty { s with nextId := s.nextId + 1 }).write
          (.putRec s.nextId ⟨c, m, name⟩)).write (.addIdx (modeIdx m) c s.nextId)).write
            (.addIdx .N name s.nextId) := by
        simp [C22.addPin, hn]
      rw [e]
      refine m5.toGood ?_ ?_
      · intro id pp hp
        simp only [write_rec, write_has, Store.rec_apply, Store.has_apply, setDirty_rec, setDirty_has] at hp ⊢
        by_cases hi : s.nextId = id
        · subst hi; simp at hp; subst hp; cases m <;> simp [modeIdx]
        · simp only [hi, if_false] at hp
          have := h.cons.2 id pp hp
          exact ⟨Or.inr (Or.inr this.1), fun h2 => Or.inr (Or.inr (this.2 h2))⟩
      · intro id hh
        simp only [write_rec, Store.rec_apply, setDirty_rec, write_nextId, setDirty_nextId] at hh ⊢
        have : s.nextId ≠ id := by omega
        simpa [this] using h.fresh id (by omega)
  exact hfin

theorem good_removePin {s0 : Store} {s : St} (h : Good s0 s) (id : Nat) (pp : PinRec)
    (hp : s.store.rec? id = some pp) : Good s0 (removePin s id pp) := by
  have m1 := good_setDirty h
  have m2 := m1.write (.delIdx (modeIdx pp.mode) pp.cid id) (by simp) (m1.noOrphan.delIdx _ _ _)
  -- every index entry that points at `id` is one of the (at most) two entries being deleted
  have key : ∀ w k, s.store.has w k id → (w = modeIdx pp.mode ∧ k = pp.cid) ∨ (w = .N ∧ pp.name ≠ 0 ∧ k = pp.name) := by
    intro w k hk
    cases w with
    | R => obtain ⟨nm, e⟩ := h.cons.1.r k id hk; rw [hp] at e; cases e; simp [modeIdx]
    | D => obtain ⟨nm, e⟩ := h.cons.1.d k id hk; rw [hp] at e; cases e; simp [modeIdx]
    | N => obtain ⟨h0, c, m, e⟩ := h.cons.1.n k id hk; rw [hp] at e; cases e; simp [h0]
  have fin : ∀ s3 : St, Mid s0 s3 → (∀ j, s3.store.rec? j = s.store.rec? j) → s3.nextId = s.nextId →
      (∀ w k v, s3.store.has w k v ↔ s.store.has w k v ∧ ¬ (w = modeIdx pp.mode ∧ k = pp.cid ∧ v = id) ∧
        ¬ (w = .N ∧ pp.name ≠ 0 ∧ k = pp.name ∧ v = id)) → Good s0 (s3.write (.delRec id)) := by
    intro s3 m3 hrec hnx hhas
    have m4 := m3.write (.delRec id) (by simp) (m3.noOrphan.delRec id (by
      intro w k hk
      rw [hhas] at hk
      rcases key w k hk.1 with ⟨a, b⟩ | ⟨a, b, c⟩
      · exact hk.2.1 ⟨a, b, rfl⟩
      · exact hk.2.2 ⟨a, b, c, rfl⟩))
    refine m4.toGood ?_ ?_
    · intro j pj hj
      simp only [write_rec, write_has, Store.rec_apply, Store.has_apply] at hj ⊢
      by_cases hij : id = j
      · simp [hij] at hj
      · simp only [hij, if_false, hrec] at hj
        have := h.cons.2 j pj hj
        rw [hhas, hhas]
        refine ⟨⟨this.1, ?_, ?_⟩, fun hn => ⟨this.2 hn, ?_, ?_⟩⟩ <;> (intro hh; omega)
    · intro j hj
      simp only [write_rec, Store.rec_apply, write_nextId, hnx, hrec] at hj ⊢
      split
      · rfl
      · exact h.fresh j hj
  by_cases hn : pp.name = 0
  · have e : removePin s id pp = ((setDirty s).write (.delIdx (modeIdx pp.mode) pp.cid id)).write (.delRec id) := by
      simp [removePin, hn]
    rw [e]
    apply fin _ m2
    · intro j; simp [Store.rec_apply]
    · simp
    · intro w k v; simp [Store.has_apply, hn]
  · have m3 := m2.write (.delIdx .N pp.name id) (by simp) (m2.noOrphan.delIdx _ _ _)
    have e : removePin s id pp = (((setDirty s).write (.delIdx (modeIdx pp.mode) pp.cid id)).write
        (.delIdx .N pp.name id)).write (.delRec id) := by
      simp [removePin, hn]
    rw [e]
    apply fin _ m3
    · intro j; simp [Store.rec_apply]
    · simp
    · intro w k v; simp [Store.has_apply, hn]; grind

/-- deleting index entries whose value has no pin record keeps the store consistent -/
theorem mid_delOrphan {s0 : Store} {s : St} (m : Mid s0 s) (hi : s.store.Indexed)
    (w : Which) (k id : Nat) (hid : s.store.rec? id = none) :
    Mid s0 (s.write (.delIdx w k id)) ∧ (s.write (.delIdx w k id)).store.Indexed ∧
      (s.write (.delIdx w k id)).store.rec? id = none := by
  refine ⟨m.write _ (by simp) (m.noOrphan.delIdx _ _ _), ?_, by simpa [Store.rec_apply] using hid⟩
  intro j pj hj
  simp only [write_rec, write_has, Store.rec_apply, Store.has_apply] at hj ⊢
  have hne : j ≠ id := by intro e; subst e; simp [hid] at hj
  have := hi j pj hj
  exact ⟨⟨this.1, by intro hh; exact hne hh.2.2⟩, fun hn => ⟨this.2 hn, by intro hh; exact hne hh.2.2⟩⟩

theorem good_removeIds {s0 : Store} (c : Nat) (mode : Option Mode) :
    ∀ (ids : List Nat) (s : St) (removed : Bool), Good s0 s → Good s0 (removeIds c mode ids s removed).1 := by
  intro ids
  induction ids with
  | nil => intro s removed h; simpa [removeIds] using h
  | cons id rest ih =>
    intro s removed h
    unfold removeIds
    cases hp : RMap.find s.store.recs id with
    | some pp =>
      simp only []
      split
      · exact ih _ _ (good_removePin h id pp hp)
      · exact ih _ _ h
    | none =>
      simp only []
      apply ih
      have m1 := good_setDirty h
      have hi1 : (setDirty s).store.Indexed := by
        intro j pj hj
        simp only [setDirty_rec, setDirty_has] at hj ⊢
        exact h.cons.2 j pj hj
      have hid1 : (setDirty s).store.rec? id = none := by rw [setDirty_rec]; exact hp
      have hfr : ∀ t : St, t.nextId = s.nextId → (∀ j, t.store.rec? j = s.store.rec? j) →
          ∀ j, t.nextId ≤ j → t.store.rec? j = none := by
        intro t h1 h2 j hj; rw [h2]; exact h.fresh j (by omega)
      apply good_setClean
      cases mode with
      | none =>
        obtain ⟨a1, a2, a3⟩ := mid_delOrphan m1 hi1 .R c id hid1
        obtain ⟨b1, b2, _⟩ := mid_delOrphan a1 a2 .D c id a3
        exact b1.toGood b2 (hfr _ (by simp) (by intro j; simp [Store.rec_apply]))
      | some md =>
        cases md with
        | recursive =>
          obtain ⟨a1, a2, _⟩ := mid_delOrphan m1 hi1 .R c id hid1
          exact a1.toGood a2 (hfr _ (by simp) (by intro j; simp [Store.rec_apply]))
        | direct =>
          obtain ⟨a1, a2, _⟩ := mid_delOrphan m1 hi1 .D c id hid1
          exact a1.toGood a2 (hfr _ (by simp) (by intro j; simp [Store.rec_apply]))

theorem good_removePinsForCid {s0 : Store} {s : St} (h : Good s0 s) (c : Nat) (mode : Option Mode) :
    Good s0 (removePinsForCid s c mode).1 := by
  unfold removePinsForCid
  exact good_removeIds c mode _ s false h

/-! ### the operations preserve the state invariant -/

/-- invariant of the pinner between API calls -/
structure Inv (s : St) : Prop where
  cons : s.store.Consistent
  flag : s.memDirty = true ↔ s.store.dirty = some 1
  fresh : ∀ id, s.nextId ≤ id → s.store.rec? id = none
  nodup : RMap.NoDupKeys s.store.recs

theorem Inv.good {s : St} (h : Inv s) (p : List Nat) :
    Good s.store { s with log := [], present := p } :=
  ⟨Tr.start { s with present := p } ⟨h.cons.1, fun _ => h.cons.2⟩, h.cons, h.flag, h.fresh, h.nodup⟩

theorem Good.inv {s0 : Store} {s : St} (h : Good s0 s) : Inv s :=
  ⟨h.cons, h.flag, h.fresh, h.nodup⟩

theorem removeIds_removed (c : Nat) (mode : Option Mode) :
    ∀ (ids : List Nat) (s : St), (removeIds c mode ids s true).2 = true := by
  intro ids
  induction ids with
  | nil => intro s; rfl
  | cons id rest ih =>
    intro s
    unfold removeIds
    cases RMap.find s.store.recs id with
    | none => simp [ih]
    | some pp => simp only []; split <;> simp [ih]

theorem removeIds_any_not_removed (c : Nat) (ids : List Nat) (s : St)
    (h : (removeIds c none ids s false).2 = false) : (removeIds c none ids s false).1 = s := by
  cases ids with
  | nil => rfl
  | cons id rest =>
    unfold removeIds at h
    cases hp : RMap.find s.store.recs id with
    | none => simp [hp, removeIds_removed] at h
    | some pp => simp [hp, removeIds_removed] at h

theorem good_pinRecursive {s0 : Store} {s : St} (h : Good s0 s)
    (dag : Dag) (c : Nat) (fetch : Bool) (name : Nat) (ctx : Ctx) :
    Good s0 (pinRecursive dag s c fetch name ctx).1 := by
  unfold pinRecursive
  split
  · exact h
  · split
    · exact h
    · split
      · exact h
      · exact good_flushPins (good_removeIds _ _ _ _ _ (good_removeIds _ _ _ _ _ (good_addPin h _ _ _)))

theorem good_pinDirect {s0 : Store} {s : St} (h : Good s0 s) (c : Nat) (name : Nat) (ctx : Ctx) :
    Good s0 (pinDirect s c name ctx).1 := by
  unfold pinDirect
  split
  · exact h
  · split
    · exact h
    · exact good_flushPins (good_removeIds _ _ _ _ _ (good_addPin h _ _ _))

theorem good_unpin {s0 : Store} {s : St} (h : Good s0 s) (c : Nat) (recursive : Bool) (ctx : Ctx) :
    Good s0 (unpin s c recursive ctx).1 := by
  have go : Good s0 (if (removePinsForCid s c none).2 then (flushPins (removePinsForCid s c none).1, Res.ok)
        else ((removePinsForCid s c none).1, Res.ok)).1 := by
    split
    · exact good_flushPins (good_removePinsForCid h c none)
    · exact good_removePinsForCid h c none
  unfold unpin
  split
  · exact h
  · simp only []
    split
    · split
      · exact go
      · exact h
    · split
      · exact go
      · exact h

theorem good_update {s0 : Store} {s : St} (h : Good s0 s)
    (dag : Dag) (src dst : Nat) (u : Bool) (ctx : Ctx) :
    Good s0 (update dag s src dst u ctx).1 := by
  unfold update
  simp only []
  repeat' split
  all_goals first
    | exact h
    | exact good_flushPins (good_removePinsForCid (good_addPin h _ _ _) _ _)
    | exact good_flushPins (good_addPin h _ _ _)

theorem Good.setAutosync {s0 : Store} {s : St} (h : Good s0 s) (b : Bool) : Good s0 { s with autoSync := b } :=
  ⟨h.tr, h.cons, h.flag, h.fresh, h.nodup⟩

theorem good_step (dag : Dag) {s : St} (h : Inv s) (op : Op) : Good s.store (step dag s op).1 := by
  unfold step
  cases op with
  | pin c recursive name ctx =>
    simp only []
    split
    · exact good_pinRecursive (h.good _) _ _ _ _ _
    · exact good_pinDirect (h.good _) _ _ _
  | pinMode c mode name ctx =>
    simp only []
    split
    · exact good_pinRecursive (h.good _) _ _ _ _ _
    · split
      · exact good_pinDirect (h.good _) _ _ _
      · exact h.good _
  | unpin c recursive ctx => exact good_unpin (h.good _) _ _ _
  | update src dst u ctx => exact good_update (h.good _) _ _ _ _ _
  | setAutosync b => exact (h.good _).setAutosync b
  | flush => exact good_setClean (h.good _)

theorem inv_step (dag : Dag) {s : St} (h : Inv s) (op : Op) : Inv (step dag s op).1 :=
  (good_step dag h op).inv

/-! ### reopen: New + rebuildIndexes -/

theorem hasValue_has (st : Store) (w : Which) (k v : Nat) :
    (st.idx w).hasValue k v = true ↔ st.has w k v := by
  simp [Idx.hasValue_iff, Store.has]

structure SameBut (s s' : St) : Prop where
  recs : s'.store.recs = s.store.recs
  dirty : s'.store.dirty = s.store.dirty
  mem : s'.memDirty = s.memDirty
  nextId : s'.nextId = s.nextId
  present : s'.present = s.present

theorem SameBut.write_idx (s : St) (w : Which) (k v : Nat) (add : Bool) :
    SameBut s (s.write (if add then .addIdx w k v else .delIdx w k v)) := by
  cases add <;> exact ⟨by simp [St.write, Store.apply], by simp [St.write, Store.dirty_apply], rfl, rfl, rfl⟩

theorem rebuildOne_spec (s : St) (id : Nat) (pp : PinRec) (hno : s.store.NoOrphan)
    (hp : s.store.rec? id = some pp) :
    (rebuildOne s id pp).store.NoOrphan ∧ SameBut s (rebuildOne s id pp) ∧
    ∀ w k v, (rebuildOne s id pp).store.has w k v ↔ s.store.has w k v ∨
      (w = modeIdx pp.mode ∧ k = pp.cid ∧ v = id) ∨ (w = .N ∧ pp.name ≠ 0 ∧ k = pp.name ∧ v = id) := by
  -- the stale-entry branch is dead: an entry in the other index would need a record of the other mode
  have hstale : (s.store.idx (staleIdx pp.mode)).hasValue pp.cid id = false := by
    cases hb : (s.store.idx (staleIdx pp.mode)).hasValue pp.cid id with
    | false => rfl
    | true =>
      rw [hasValue_has] at hb
      cases hm : pp.mode with
      | recursive =>
        rw [hm] at hb
        obtain ⟨nm, e⟩ := hno.d _ _ (by simpa [staleIdx] using hb)
        rw [hp] at e; injection e with e
        have := congrArg PinRec.mode e; simp [hm] at this
      | direct =>
        rw [hm] at hb
        obtain ⟨nm, e⟩ := hno.r _ _ (by simpa [staleIdx] using hb)
        rw [hp] at e; injection e with e
        have := congrArg PinRec.mode e; simp [hm] at this
  simp only [rebuildOne, hstale, Bool.false_eq_true, if_false]
  -- first step: cid index
  have step1 : ∀ s1 : St, s1 = (if (s.store.idx (modeIdx pp.mode)).hasValue pp.cid id = true then s
        else s.write (.addIdx (modeIdx pp.mode) pp.cid id)) →
      s1.store.NoOrphan ∧ SameBut s s1 ∧ (∀ j, s1.store.rec? j = s.store.rec? j) ∧
      ∀ w k v, s1.store.has w k v ↔ s.store.has w k v ∨ (w = modeIdx pp.mode ∧ k = pp.cid ∧ v = id) := by
    intro s1 e
    by_cases hh : (s.store.idx (modeIdx pp.mode)).hasValue pp.cid id = true
    · simp only [hh, if_true] at e
      subst e
      refine ⟨hno, ⟨rfl, rfl, rfl, rfl, rfl⟩, fun _ => rfl, ?_⟩
      intro w k v
      rw [hasValue_has] at hh
      constructor
      · exact Or.inl
      · rintro (h | ⟨rfl, rfl, rfl⟩)
        · exact h
        · exact hh
    · simp only [hh] at e
      subst e
      refine ⟨?_, ?_, ?_, ?_⟩
      · apply hno.addIdx
        cases hm : pp.mode <;> simp [modeIdx, hp] <;> (cases pp; simp_all)
      · exact ⟨by simp [St.write, Store.apply], by simp [St.write, Store.dirty_apply], rfl, rfl, rfl⟩
      · intro j; simp [Store.rec_apply]
      · intro w k v; simp [Store.has_apply]; grind
  obtain ⟨n1, sb1, r1, h1⟩ := step1 _ rfl
  generalize (if (s.store.idx (modeIdx pp.mode)).hasValue pp.cid id = true then s
        else s.write (.addIdx (modeIdx pp.mode) pp.cid id)) = s1 at n1 sb1 r1 h1 ⊢
  by_cases h0 : pp.name = 0
  · simp only [h0, ne_eq, not_true_eq_false, false_and, if_false]
    refine ⟨n1, sb1, ?_⟩
    intro w k v
    rw [h1]
    simp [h0]
  · cases hb : s1.store.idxN.hasValue pp.name id with
    | true =>
      simp only [hb, ne_eq, h0, not_false_eq_true, Bool.not_true, Bool.false_eq_true, and_false, if_false]
      refine ⟨n1, sb1, ?_⟩
      intro w k v
      rw [h1]
      have h2 : s1.store.has .N pp.name id := (hasValue_has s1.store .N _ _).1 hb
      have h3 := (h1 .N pp.name id).1 h2
      constructor
      · rintro (h | h)
        · exact Or.inl h
        · exact Or.inr (Or.inl h)
      · rintro (h | h | ⟨hw, _, hk, hv⟩)
        · exact Or.inl h
        · exact Or.inr h
        · rw [hw, hk, hv]; exact h3
    | false =>
      simp only [hb, ne_eq, h0, not_false_eq_true, Bool.not_false, and_self, if_true]
      refine ⟨?_, ?_, ?_⟩
      · show (s1.store.apply (Write.addIdx Which.N pp.name id)).NoOrphan
        apply n1.addIdx
        refine ⟨h0, pp.cid, pp.mode, ?_⟩
        rw [r1, hp]
      · exact ⟨by simp [St.write, Store.apply, sb1.recs], by simp [St.write, Store.dirty_apply, sb1.dirty],
          sb1.mem, sb1.nextId, sb1.present⟩
      · intro w k v
        simp only [write_has, Store.has_apply, h1]
        grind

theorem SameBut.refl (s : St) : SameBut s s := ⟨rfl, rfl, rfl, rfl, rfl⟩
theorem SameBut.trans {a b c : St} (h1 : SameBut a b) (h2 : SameBut b c) : SameBut a c :=
  ⟨h2.recs.trans h1.recs, h2.dirty.trans h1.dirty, h2.mem.trans h1.mem, h2.nextId.trans h1.nextId,
    h2.present.trans h1.present⟩
theorem SameBut.recOf {a b : St} (h : SameBut a b) (j : Nat) : b.store.rec? j = a.store.rec? j := by
  simp [Store.rec?, h.recs]

/-- what one record contributes to the indexes -/
def entryOf (e : Nat × PinRec) (w : Which) (k v : Nat) : Prop :=
  (w = modeIdx e.2.mode ∧ k = e.2.cid ∧ v = e.1) ∨ (w = .N ∧ e.2.name ≠ 0 ∧ k = e.2.name ∧ v = e.1)

theorem rebuild_fold (l : List (Nat × PinRec)) : ∀ s : St, s.store.NoOrphan →
    (∀ e ∈ l, s.store.rec? e.1 = some e.2) →
    (l.foldl (fun s e => rebuildOne s e.1 e.2) s).store.NoOrphan ∧
    SameBut s (l.foldl (fun s e => rebuildOne s e.1 e.2) s) ∧
    ∀ w k v, (l.foldl (fun s e => rebuildOne s e.1 e.2) s).store.has w k v ↔
      s.store.has w k v ∨ ∃ e ∈ l, entryOf e w k v := by
  induction l with
  | nil => intro s hno _; exact ⟨hno, SameBut.refl s, by simp⟩
  | cons e r ih =>
    intro s hno hl
    obtain ⟨n1, sb1, h1⟩ := rebuildOne_spec s e.1 e.2 hno (hl e (by simp))
    obtain ⟨n2, sb2, h2⟩ := ih (rebuildOne s e.1 e.2) n1 (by
      intro e' he'
      rw [sb1.recOf]
      exact hl e' (by simp [he']))
    refine ⟨n2, sb1.trans sb2, ?_⟩
    intro w k v
    simp only [List.foldl_cons]
    rw [h2, h1]
    simp only [List.mem_cons, exists_eq_or_imp, entryOf]
    grind

theorem insRec_perm (e : Nat × PinRec) (l : List (Nat × PinRec)) : (insRec e l).Perm (e :: l) := by
  induction l with
  | nil => simp [insRec]
  | cons x r ih =>
    unfold insRec
    split
    · exact List.Perm.refl _
    · exact (List.Perm.cons x ih).trans (List.Perm.swap e x r)

theorem sortRecs_perm (l : List (Nat × PinRec)) : (sortRecs l).Perm l := by
  induction l with
  | nil => exact List.Perm.refl _
  | cons x r ih => exact (insRec_perm x _).trans (List.Perm.cons x ih)

theorem mem_sortRecs (l : List (Nat × PinRec)) (e : Nat × PinRec) : e ∈ sortRecs l ↔ e ∈ l :=
  (sortRecs_perm l).mem_iff

theorem reopen_inv (st : Store) (n : Nat) (p : List Nat) (hs : st.Safe)
    (hnd : RMap.NoDupKeys st.recs) (hf : ∀ id, n ≤ id → st.rec? id = none) :
    Inv (reopenStore st n p) ∧ (reopenStore st n p).store.recs = st.recs ∧
      (reopenStore st n p).nextId = n ∧ (reopenStore st n p).present = p := by
  unfold reopenStore
  by_cases hd : st.dirty = some 1
  · simp only [hd, if_true]
    obtain ⟨n1, sb1, h1⟩ := rebuild_fold (sortRecs st.recs)
      { store := st, memDirty := true, nextId := n, present := p, log := [] } hs.1 (by
        intro e he
        exact RMap.find_of_mem st.recs hnd e.1 e.2 ((mem_sortRecs _ _).1 he))
    generalize ((sortRecs st.recs).foldl (fun s e => rebuildOne s e.1 e.2)
      { store := st, memDirty := true, nextId := n, present := p, log := [] }) = s1 at n1 sb1 h1
    have hix : s1.store.Indexed := by
      intro id pp hp
      rw [sb1.recOf] at hp
      have hm : (id, pp) ∈ st.recs := RMap.mem_of_find st.recs id pp hp
      exact ⟨(h1 _ _ _).2 (Or.inr ⟨(id, pp), (mem_sortRecs _ _).2 hm, Or.inl ⟨rfl, rfl, rfl⟩⟩),
        fun h0 => (h1 _ _ _).2 (Or.inr ⟨(id, pp), (mem_sortRecs _ _).2 hm, Or.inr ⟨rfl, h0, rfl, rfl⟩⟩)⟩
    have hmem : s1.memDirty = true := sb1.mem
    refine ⟨⟨⟨?_, ?_⟩, ?_, ?_, ?_⟩, ?_, ?_, ?_⟩
    · constructor <;> intro a b hab <;> simp only [setClean_has, setClean_rec] at hab ⊢
      · exact n1.r a b hab
      · exact n1.d a b hab
      · exact n1.n a b hab
    · intro id pp hp
      simp only [setClean_has, setClean_rec] at hp ⊢
      exact hix id pp hp
    · simp [setClean, hmem, St.write, Store.dirty_apply]
    · intro id hid
      simp only [setClean_rec, setClean_nextId, sb1.nextId, sb1.recOf] at hid ⊢
      exact hf id hid
    · simp [setClean, hmem, St.write, Store.apply, sb1.recs, hnd]
    · simp [setClean, hmem, St.write, Store.apply, sb1.recs]
    · simp [sb1.nextId]
    · simp [sb1.present]
  · simp only [hd, if_false]
    refine ⟨⟨⟨hs.1, hs.2 hd⟩, ⟨fun e => by simp at e, fun e => absurd e hd⟩, hf, hnd⟩, ?_⟩
    simp

/-! ### shape of the write log of one operation -/

def Write.isPut : Write → Bool
  | .putRec _ _ => true
  | _ => false

def Write.isRecW : Write → Bool
  | .putRec _ _ => true
  | .delRec _ => true
  | _ => false

/-- a record is written only while no record has been written or deleted yet in this operation -/
def OrderOK (L : List Write) : Prop :=
  ∀ A w B, L = A ++ w :: B → w.isPut = true → ∀ a ∈ A, a.isRecW = false

structure LogOK (s : St) : Prop where
  order : OrderOK s.log
  bound : ∀ id r, Write.putRec id r ∈ s.log → id < s.nextId

def NoRecW (s : St) : Prop := ∀ a ∈ s.log, a.isRecW = false

theorem OrderOK.snoc {L : List Write} (h : OrderOK L) (w : Write)
    (hw : w.isPut = true → ∀ a ∈ L, a.isRecW = false) : OrderOK (L ++ [w]) := by
  intro A x B e hx a ha
  -- either x is the last element or it lies inside L
  rcases List.eq_nil_or_concat B with hB | ⟨B', y, hB⟩
  · subst hB
    have := List.append_inj' e (by simp)
    obtain ⟨e1, e2⟩ := this
    simp at e2; subst e2; subst e1
    exact hw hx a ha
  · subst hB
    have e' : L ++ [w] = (A ++ x :: B') ++ [y] := by simp [e]
    have := List.append_inj' e' (by simp)
    exact h A x B' this.1 hx a ha

theorem LogOK.write_nonput {s : St} (h : LogOK s) (w : Write) (hw : w.isPut = false) : LogOK (s.write w) := by
  refine ⟨h.order.snoc w (by simp [hw]), ?_⟩
  intro id r hm
  simp only [St.write, List.mem_append, List.mem_singleton] at hm
  rcases hm with hm | hm
  · exact h.bound id r hm
  · subst hm; simp [Write.isPut] at hw

theorem LogOK.write_put {s : St} (h : LogOK s) (hn : NoRecW s) (id : Nat) (r : PinRec) (hid : id < s.nextId) :
    LogOK (s.write (.putRec id r)) := by
  refine ⟨h.order.snoc _ (fun _ => hn), ?_⟩
  intro id' r' hm
  simp only [St.write, List.mem_append, List.mem_singleton] at hm
  rcases hm with hm | hm
  · exact h.bound id' r' hm
  · cases hm; exact hid

theorem logOK_setDirty {s : St} (h : LogOK s) : LogOK (setDirty s) := by
  unfold setDirty
  split
  · exact h
  · have := h.write_nonput (.putDirty 1) rfl
    exact ⟨this.order, this.bound⟩

theorem noRecW_setDirty {s : St} (h : NoRecW s) : NoRecW (setDirty s) := by
  unfold setDirty
  split
  · exact h
  · intro a ha
    simp only [St.write, List.mem_append, List.mem_singleton] at ha
    rcases ha with ha | ha
    · exact h a ha
    · subst ha; rfl

theorem logOK_setClean {s : St} (h : LogOK s) : LogOK (setClean s) := by
  unfold setClean
  split
  · have := h.write_nonput (.putDirty 0) rfl
    exact ⟨this.order, this.bound⟩
  · exact h

theorem logOK_flushPins {s : St} (h : LogOK s) : LogOK (flushPins s) := by
  unfold flushPins; split
  · exact logOK_setClean h
  · exact h

theorem logOK_addPin {s : St} (h : LogOK s) (hn : NoRecW s) (c : Nat) (m : Mode) (name : Nat) :
    LogOK (addPin s c m name) := by
  have h1 : LogOK { s with nextId := s.nextId + 1 } :=
    ⟨h.order, fun id r hm => Nat.lt_succ_of_lt (h.bound id r hm)⟩
  have n1 : NoRecW { s with nextId := s.nextId + 1 } := hn
  have h2 := logOK_setDirty h1
  have n2 := noRecW_setDirty n1
  have h3 := h2.write_put n2 s.nextId ⟨c, m, name⟩ (by simp)
  have h4 := h3.write_nonput (.addIdx (modeIdx m) c s.nextId) rfl
  unfold addPin
  by_cases hnm : name = 0
  · simpa [hnm] using h4
  · simpa [hnm] using h4.write_nonput (.addIdx .N name s.nextId) rfl

theorem logOK_removePin {s : St} (h : LogOK s) (id : Nat) (pp : PinRec) : LogOK (removePin s id pp) := by
  have h1 := logOK_setDirty h
  have h2 := h1.write_nonput (.delIdx (modeIdx pp.mode) pp.cid id) rfl
  unfold removePin
  by_cases hnm : pp.name = 0
  · simpa [hnm] using h2.write_nonput (.delRec id) rfl
  · simpa [hnm] using (h2.write_nonput (.delIdx .N pp.name id) rfl).write_nonput (.delRec id) rfl

theorem logOK_removeIds (c : Nat) (mode : Option Mode) :
    ∀ (ids : List Nat) (s : St) (removed : Bool), LogOK s → LogOK (removeIds c mode ids s removed).1 := by
  intro ids
  induction ids with
  | nil => intro s removed h; simpa [removeIds] using h
  | cons id rest ih =>
    intro s removed h
    unfold removeIds
    cases RMap.find s.store.recs id with
    | some pp =>
      simp only []
      split
      · exact ih _ _ (logOK_removePin h id pp)
      · exact ih _ _ h
    | none =>
      simp only []
      apply ih
      apply logOK_setClean
      have h1 := logOK_setDirty h
      cases mode with
      | none => exact (h1.write_nonput (.delIdx .R c id) rfl).write_nonput (.delIdx .D c id) rfl
      | some md => cases md <;> exact h1.write_nonput _ rfl

theorem nextId_removeIds (c : Nat) (mode : Option Mode) :
    ∀ (ids : List Nat) (s : St) (removed : Bool), (removeIds c mode ids s removed).1.nextId = s.nextId := by
  intro ids
  induction ids with
  | nil => intro s removed; rfl
  | cons id rest ih =>
    intro s removed
    unfold removeIds
    cases RMap.find s.store.recs id with
    | some pp => simp only []; split <;> simp [ih]
    | none =>
      simp only [ih, setClean_nextId, repairIdx]
      cases mode with
      | none => simp
      | some md => cases md <;> simp

theorem present_removeIds (c : Nat) (mode : Option Mode) :
    ∀ (ids : List Nat) (s : St) (removed : Bool), (removeIds c mode ids s removed).1.present = s.present := by
  intro ids
  induction ids with
  | nil => intro s removed; rfl
  | cons id rest ih =>
    intro s removed
    unfold removeIds
    cases RMap.find s.store.recs id with
    | some pp => simp only []; split <;> simp [ih]
    | none =>
      simp only [ih, setClean_present, repairIdx]
      cases mode with
      | none => simp
      | some md => cases md <;> simp

theorem logOK_removePinsForCid {s : St} (h : LogOK s) (c : Nat) (mode : Option Mode) :
    LogOK (removePinsForCid s c mode).1 := logOK_removeIds c mode _ s false h

theorem nextId_removePinsForCid (s : St) (c : Nat) (mode : Option Mode) :
    (removePinsForCid s c mode).1.nextId = s.nextId := nextId_removeIds c mode _ s false

theorem logOK_step (dag : Dag) (s : St) (op : Op) : LogOK (step dag s op).1 := by
  have h0 : ∀ p, LogOK { s with log := [], present := p } := fun p =>
    ⟨by intro A w B e; simp at e, by intro id r hm; simp at hm⟩
  have n0 : ∀ p, NoRecW { s with log := [], present := p } := fun p => by intro a ha; simp at ha
  have hrec : ∀ p c fetch name ctx, LogOK (pinRecursive dag { s with log := [], present := p } c fetch name ctx).1 := by
    intro p c fetch name ctx
    unfold pinRecursive
    repeat' split
    all_goals first
      | exact h0 p
      | exact logOK_flushPins (logOK_removeIds _ _ _ _ _ (logOK_removeIds _ _ _ _ _ (logOK_addPin (h0 p) (n0 p) _ _ _)))
  have hdir : ∀ p c name ctx, LogOK (pinDirect { s with log := [], present := p } c name ctx).1 := by
    intro p c name ctx
    unfold pinDirect
    repeat' split
    all_goals first
      | exact h0 p
      | exact logOK_flushPins (logOK_removeIds _ _ _ _ _ (logOK_addPin (h0 p) (n0 p) _ _ _))
  unfold step
  cases op with
  | pin c recursive name ctx =>
    simp only []
    split
    · exact hrec _ _ _ _ _
    · exact hdir _ _ _ _
  | pinMode c mode name ctx =>
    simp only []
    split
    · exact hrec _ _ _ _ _
    · split
      · exact hdir _ _ _ _
      · exact h0 _
  | unpin c recursive ctx =>
    simp only [unpin]
    repeat' split
    all_goals first
      | exact h0 _
      | exact logOK_flushPins (logOK_removePinsForCid (h0 _) _ _)
      | exact logOK_removePinsForCid (h0 _) _ _
  | update src dst u ctx =>
    simp only [update]
    repeat' split
    all_goals first
      | exact h0 _
      | exact logOK_flushPins (logOK_removePinsForCid (logOK_addPin (h0 _) (n0 _) _ _ _) _ _)
      | exact logOK_flushPins (logOK_addPin (h0 _) (n0 _) _ _ _)
  | setAutosync b => exact ⟨(h0 s.present).order, (h0 s.present).bound⟩
  | flush => exact logOK_setClean (h0 s.present)

theorem nextId_step_le (dag : Dag) (s : St) (op : Op) : s.nextId ≤ (step dag s op).1.nextId := by
  unfold step
  cases op with
  | pin c recursive name ctx =>
    simp only [pinRecursive, pinDirect]
    repeat' split
    all_goals simp [nextId_removeIds]
  | pinMode c mode name ctx =>
    simp only [pinRecursive, pinDirect]
    repeat' split
    all_goals simp [nextId_removeIds]
  | unpin c recursive ctx =>
    simp only [unpin]
    repeat' split
    all_goals simp [nextId_removePinsForCid]
  | update src dst u ctx =>
    simp only [update]
    repeat' split
    all_goals simp [nextId_removePinsForCid]
  | setAutosync b => simp
  | flush => simp

/-! ### crash images -/

theorem applyAll_noRecW (X : List Write) : ∀ st : Store, (∀ w ∈ X, w.isRecW = false) →
    (st.applyAll X).recs = st.recs := by
  induction X with
  | nil => intro st _; rfl
  | cons w r ih =>
    intro st h
    have hw := h w (by simp)
    show ((st.apply w).applyAll r).recs = st.recs
    rw [ih _ (fun a ha => h a (by simp [ha]))]
    cases w <;> simp [Write.isRecW, Store.apply] at hw ⊢

theorem applyAll_noPut (X : List Write) : ∀ st : Store, (∀ w ∈ X, w.isPut = false) →
    ∀ id pp, (st.applyAll X).rec? id = some pp → st.rec? id = some pp := by
  induction X with
  | nil => intro st _ id pp h; exact h
  | cons w r ih =>
    intro st h id pp hp
    have hw := h w (by simp)
    have := ih (st.apply w) (fun a ha => h a (by simp [ha])) id pp hp
    rw [Store.rec_apply] at this
    cases w with
    | putRec => simp [Write.isPut] at hw
    | delRec id' => simp only at this; split at this <;> simp_all
    | putDirty => exact this
    | addIdx => exact this
    | delIdx => exact this

theorem applyAll_rec_origin (X : List Write) : ∀ st : Store, ∀ id pp,
    (st.applyAll X).rec? id = some pp → st.rec? id = some pp ∨ ∃ r, Write.putRec id r ∈ X := by
  induction X with
  | nil => intro st id pp h; exact Or.inl h
  | cons w r ih =>
    intro st id pp hp
    rcases ih (st.apply w) id pp hp with h | ⟨r', h⟩
    · rw [Store.rec_apply] at h
      cases w with
      | putRec id' r' =>
        simp only at h
        by_cases e : id' = id
        · subst e; exact Or.inr ⟨r', by simp⟩
        · simp [e] at h; exact Or.inl h
      | delRec id' => simp only at h; split at h <;> simp_all
      | putDirty => exact Or.inl h
      | addIdx => exact Or.inl h
      | delIdx => exact Or.inl h
    · exact Or.inr ⟨r', by simp [h]⟩

theorem applyAll_nodup (X : List Write) : ∀ st : Store, RMap.NoDupKeys st.recs →
    RMap.NoDupKeys (st.applyAll X).recs := by
  induction X with
  | nil => intro st h; exact h
  | cons w r ih =>
    intro st h
    apply ih
    cases w with
    | putRec id r => exact RMap.noDupKeys_insert _ _ _ h
    | delRec id => exact RMap.noDupKeys_erase _ _ h
    | putDirty b => exact h
    | addIdx w k v => simpa [Store.apply] using h
    | delIdx w k v => simpa [Store.apply] using h

theorem orderOK_split {L : List Write} (h : OrderOK L) (n : Nat) :
    (∀ w ∈ L.take n, w.isRecW = false) ∨ (∀ w ∈ L.drop n, w.isPut = false) := by
  by_cases hd : ∀ w ∈ L.drop n, w.isPut = false
  · exact Or.inr hd
  · left
    have hd' : ∃ w, w ∈ L.drop n ∧ w.isPut = true := by
      apply Classical.byContradiction
      intro hc
      apply hd
      intro w hw
      cases hb : w.isPut with
      | false => rfl
      | true => exact absurd ⟨w, hw, hb⟩ hc
    obtain ⟨w, hw, hp⟩ := hd'
    obtain ⟨A, B, e⟩ := List.append_of_mem hw
    have hL : L = (L.take n ++ A) ++ w :: B := by
      conv => lhs; rw [← List.take_append_drop n L, e]
      simp
    intro a ha
    exact h _ w B hL (by simpa using hp) a (by simp [ha])

/-! ### the pin model: what "pinned" means -/

/-- `c` is reachable from `r` through at least one link -/
inductive Reach (dag : Dag) : Nat → Nat → Prop
  | link {r c : Nat} : c ∈ dag.links r → Reach dag r c
  | step {r x c : Nat} : x ∈ dag.links r → Reach dag x c → Reach dag r c

/-- `c` is pinned according to the indexes: recursively, directly, or indirectly (below a recursive root) -/
def Pinned (dag : Dag) (st : Store) (c : Nat) : Prop :=
  (∃ id, st.has .R c id) ∨ (∃ id, st.has .D c id) ∨ ∃ r id, st.has .R r id ∧ Reach dag r c

/-- the same, read off the pin records -/
def RecPinned (dag : Dag) (st : Store) (c : Nat) : Prop :=
  (∃ id m nm, st.rec? id = some ⟨c, m, nm⟩) ∨
    ∃ r id nm, st.rec? id = some ⟨r, .recursive, nm⟩ ∧ Reach dag r c

theorem pinned_iff_recPinned (dag : Dag) (st : Store) (h : st.Consistent) (c : Nat) :
    Pinned dag st c ↔ RecPinned dag st c := by
  constructor
  · rintro (⟨id, hr⟩ | ⟨id, hd⟩ | ⟨r, id, hr, hre⟩)
    · obtain ⟨nm, e⟩ := h.1.r c id hr; exact Or.inl ⟨id, _, nm, e⟩
    · obtain ⟨nm, e⟩ := h.1.d c id hd; exact Or.inl ⟨id, _, nm, e⟩
    · obtain ⟨nm, e⟩ := h.1.r r id hr; exact Or.inr ⟨r, id, nm, e, hre⟩
  · rintro (⟨id, m, nm, e⟩ | ⟨r, id, nm, e, hre⟩)
    · have := (h.2 id _ e).1
      cases m with
      | recursive => exact Or.inl ⟨id, this⟩
      | direct => exact Or.inr (Or.inl ⟨id, this⟩)
    · exact Or.inr (Or.inr ⟨r, id, (h.2 id _ e).1, hre⟩)

theorem recPinned_mono (dag : Dag) (a b : Store) (hsub : ∀ id pp, a.rec? id = some pp → b.rec? id = some pp)
    (c : Nat) (h : RecPinned dag a c) : RecPinned dag b c := by
  rcases h with ⟨id, m, nm, e⟩ | ⟨r, id, nm, e, hre⟩
  · exact Or.inl ⟨id, m, nm, hsub _ _ e⟩
  · exact Or.inr ⟨r, id, nm, hsub _ _ e, hre⟩

/-- the records of every crash image contain the records before the call or the records after it -/
theorem crash_recs (dag : Dag) (s : St) (op : Op) (n : Nat) :
    (∀ id pp, s.store.rec? id = some pp →
        (s.store.applyAll ((step dag s op).1.log.take n)).rec? id = some pp) ∨
    (∀ id pp, (s.store.applyAll (step dag s op).1.log).rec? id = some pp →
        (s.store.applyAll ((step dag s op).1.log.take n)).rec? id = some pp) := by
  rcases orderOK_split (logOK_step dag s op).order n with h | h
  · left
    intro id pp hp
    simp only [Store.rec?, applyAll_noRecW _ _ h] at hp ⊢
    exact hp
  · right
    intro id pp hp
    have e : (step dag s op).1.log = (step dag s op).1.log.take n ++ (step dag s op).1.log.drop n :=
      (List.take_append_drop n _).symm
    rw [e, Store.applyAll_append] at hp
    exact applyAll_noPut _ _ h id pp hp

/-- pin ids in a crash image are below the id counter -/
theorem crash_fresh (dag : Dag) (s : St) (op : Op) (n : Nat) (h : Inv s) :
    ∀ id, (step dag s op).1.nextId ≤ id →
      (s.store.applyAll ((step dag s op).1.log.take n)).rec? id = none := by
  intro id hid
  cases hr : (s.store.applyAll ((step dag s op).1.log.take n)).rec? id with
  | none => rfl
  | some pp =>
    exfalso
    rcases applyAll_rec_origin _ _ _ _ hr with h0 | ⟨r, hm⟩
    · have := h.fresh id (Nat.le_trans (nextId_step_le dag s op) hid)
      simp [this] at h0
    · have := (logOK_step dag s op).bound id r (List.mem_of_mem_take hm)
      omega

theorem crashReopen_spec (dag : Dag) (s : St) (op : Op) (n : Nat) (h : Inv s) :
    Inv (crashReopen dag s op n) ∧
    (crashReopen dag s op n).store.recs = (s.store.applyAll ((step dag s op).1.log.take n)).recs := by
  unfold crashReopen
  have := reopen_inv _ (step dag s op).1.nextId (step dag s op).1.present
    ((good_step dag h op).tr.2 n) (applyAll_nodup _ _ h.nodup) (crash_fresh dag s op n h)
  exact ⟨this.1, this.2.1⟩

end C22
