import BoxoModel.C22.Queries
/-!
Helper lemmas for C22, part 6: every API call either fails and leaves the store untouched, or
succeeds and changes the pin model as the property says.
-/
namespace C22

/-- a failing call returns before its first datastore write -/
theorem failed_noop (dag : Dag) (s : St) (op : Op) (h : (step dag s op).2 ≠ .ok) :
    (step dag s op).1.store = s.store ∧ (step dag s op).1.nextId = s.nextId ∧
      (step dag s op).1.memDirty = s.memDirty ∧ (step dag s op).1.log = [] := by
  unfold step at h ⊢
  cases op with
  | pin c recursive name ctx =>
    simp only [pinRecursive, pinDirect] at h ⊢
    repeat' split
    all_goals first
      | exact ⟨rfl, rfl, rfl, rfl⟩
      | (exfalso; revert h; simp_all)
  | pinMode c mode name ctx =>
    simp only [pinRecursive, pinDirect] at h ⊢
    repeat' split
    all_goals first
      | exact ⟨rfl, rfl, rfl, rfl⟩
      | (exfalso; revert h; simp_all)
  | unpin c recursive ctx =>
    simp only [unpin] at h ⊢
    repeat' split
    all_goals first
      | exact ⟨rfl, rfl, rfl, rfl⟩
      | (exfalso; revert h; simp_all)
  | update src dst u ctx =>
    simp only [update] at h ⊢
    repeat' split
    all_goals first
      | exact ⟨rfl, rfl, rfl, rfl⟩
      | (exfalso; revert h; simp_all)
  | setAutosync b => simp at h
  | flush => simp at h

/-- what a successful call does to the pin model -/
def OkSpec (s s' : St) : Op → Prop
  | .pin c recursive name _ => if recursive = true then PinRecSpec s s' c name else PinDirSpec s s' c name
  | .pinMode c mode name _ =>
    if mode = 0 then PinRecSpec s s' c name else if mode = 1 then PinDirSpec s s' c name else False
  | .unpin c _ _ => UnpinSpec s s' c
  | .update src dst u _ =>
    (src = dst → s'.store = s.store) ∧ (src ≠ dst → ∃ nm0, RName s src nm0 ∧ UpdateSpec s s' src dst u nm0)
  | .setAutosync _ => s'.store = s.store
  | .flush => (∀ w k v, s'.store.has w k v ↔ s.store.has w k v) ∧ ∀ j, s'.store.rec? j = s.store.rec? j

theorem pinRecursive_ok {s0 : Store} {s : St} (h : Good s0 s) (dag : Dag) (c : Nat) (fetch : Bool)
    (name : Nat) (ctx : Ctx) (hok : (pinRecursive dag s c fetch name ctx).2 = .ok) :
    PinRecSpec s (pinRecursive dag s c fetch name ctx).1 c name := by
  unfold pinRecursive at hok ⊢
  by_cases h1 : ctx = .pre
  · rw [if_pos h1] at hok; cases hok
  · rw [if_neg h1] at hok ⊢
    by_cases h2 : (fetch = true ∧ ctx = .mid)
    · rw [if_pos h2] at hok; cases hok
    · rw [if_neg h2] at hok ⊢
      by_cases h3 : (fetch = true ∧ (!fetchOk dag s.present c) = true)
      · rw [if_pos h3] at hok; cases hok
      · rw [if_neg h3]
        exact pinRecursive_spec h c name

theorem pinDirect_ok {s0 : Store} {s : St} (h : Good s0 s) (c : Nat) (name : Nat) (ctx : Ctx)
    (hok : (pinDirect s c name ctx).2 = .ok) : PinDirSpec s (pinDirect s c name ctx).1 c name := by
  unfold pinDirect at hok ⊢
  by_cases h1 : ctx = .pre
  · rw [if_pos h1] at hok; cases hok
  · rw [if_neg h1] at hok ⊢
    by_cases h2 : s.store.idxR.hasAny c = true
    · rw [if_pos h2] at hok; cases hok
    · rw [if_neg h2]
      exact pinDirect_spec h c name

theorem unpin_ok {s0 : Store} {s : St} (h : Good s0 s) (c : Nat) (recursive : Bool) (ctx : Ctx)
    (hok : (unpin s c recursive ctx).2 = .ok) : UnpinSpec s (unpin s c recursive ctx).1 c := by
  have go : UnpinSpec s (if (removePinsForCid s c none).2 = true then (flushPins (removePinsForCid s c none).1, Res.ok)
        else ((removePinsForCid s c none).1, Res.ok)).1 c := by
    obtain ⟨hv, hr⟩ := unpin_views h c
    apply unpin_spec_of_views h c
    · intro w k v
      by_cases hb : (removePinsForCid s c none).2 = true
      · rw [if_pos hb]; simp only [flushPins_has]; exact hv w k v
      · rw [if_neg hb]; exact hv w k v
    · intro j
      by_cases hb : (removePinsForCid s c none).2 = true
      · rw [if_pos hb]; simp only [flushPins_rec]; exact hr j
      · rw [if_neg hb]; exact hr j
  unfold unpin at hok ⊢
  by_cases h1 : ctx = .pre
  · rw [if_pos h1] at hok; cases hok
  · rw [if_neg h1] at hok ⊢
    simp only [] at hok ⊢
    by_cases h2 : s.store.idxR.hasAny c = true
    · rw [if_pos h2] at hok ⊢
      by_cases h3 : recursive = true
      · rw [if_pos h3]; exact go
      · rw [if_neg h3] at hok; cases hok
    · rw [if_neg h2] at hok ⊢
      by_cases h3 : s.store.idxD.hasAny c = true
      · rw [if_pos h3]; exact go
      · rw [if_neg h3] at hok; cases hok

theorem update_ok {s0 : Store} {s : St} (h : Good s0 s) (dag : Dag) (src dst : Nat) (u : Bool) (ctx : Ctx)
    (hok : (update dag s src dst u ctx).2 = .ok) :
    (src = dst → (update dag s src dst u ctx).1.store = s.store) ∧
    (src ≠ dst → ∃ nm0, RName s src nm0 ∧ UpdateSpec s (update dag s src dst u ctx).1 src dst u nm0) := by
  unfold update at hok ⊢
  simp only [] at hok ⊢
  by_cases h1 : (s.store.idxR.search src).length ≠ 1
  · rw [if_pos h1] at hok; cases hok
  · rw [if_neg h1] at hok ⊢
    by_cases h2 : src = dst
    · rw [if_pos h2]
      exact ⟨fun _ => rfl, fun hne => absurd h2 hne⟩
    · rw [if_neg h2] at hok ⊢
      refine ⟨fun he => absurd he h2, fun _ => ?_⟩
      by_cases h3 : ctx = .pre
      · rw [if_pos h3] at hok; cases hok
      · rw [if_neg h3] at hok ⊢
        by_cases h4 : s.store.idxR.hasAny dst = true
        · rw [if_pos h4] at hok; cases hok
        · rw [if_neg h4] at hok ⊢
          by_cases h5 : ctx = .mid
          · rw [if_pos h5] at hok; cases hok
          · rw [if_neg h5] at hok ⊢
            by_cases h6 : (!diffEnum dag s.present (dag.n + 1) src dst) = true
            · rw [if_pos h6] at hok; cases hok
            · rw [if_neg h6] at hok ⊢
              cases h7 : RMap.find s.store.recs ((s.store.idxR.search src).headD 0) with
              | none => rw [h7] at hok; cases hok
              | some pp =>
                simp only []
                -- the single id of `src` and its record
                have hlen : (s.store.idxR.search src).length = 1 := by
                  simpa using h1
                obtain ⟨id0, hid0⟩ : ∃ id0, s.store.idxR.search src = [id0] := by
                  match hs : s.store.idxR.search src, hlen with
                  | [a], _ => exact ⟨a, rfl⟩
                have hhas : s.store.has .R src id0 :=
                  (search_has s.store .R src id0).1 (by rw [show s.store.idx .R = s.store.idxR from rfl, hid0]; simp)
                have hp : s.store.rec? id0 = some pp := by
                  have : (s.store.idxR.search src).headD 0 = id0 := by rw [hid0]; rfl
                  rw [this] at h7; exact h7
                refine ⟨pp.name, ⟨id0, pp, hhas, hp, rfl⟩, ?_⟩
                have hdst : ¬ IsR s dst := fun hh => h4 ((isR_iff_hasAny s dst).2 hh)
                have := update_spec h src dst pp.name u h2 hdst
                cases u <;> simpa using this

/-! the pin model only depends on the datastore -/
theorem isR_congr {a b : St} (e : a.store = b.store) (k : Nat) : IsR a k ↔ IsR b k := by unfold IsR; rw [e]
theorem isD_congr {a b : St} (e : a.store = b.store) (k : Nat) : IsD a k ↔ IsD b k := by unfold IsD; rw [e]
theorem rname_congr {a b : St} (e : a.store = b.store) (k nm : Nat) : RName a k nm ↔ RName b k nm := by
  unfold RName; rw [e]
theorem dname_congr {a b : St} (e : a.store = b.store) (k nm : Nat) : DName a k nm ↔ DName b k nm := by
  unfold DName; rw [e]
theorem uniq_congr {a b : St} (e : a.store = b.store) : Uniq a ↔ Uniq b := by unfold Uniq; rw [e]

theorem PinRecSpec.transfer {a b s' : St} {c n : Nat} (h : PinRecSpec a s' c n) (e : a.store = b.store) :
    PinRecSpec b s' c n :=
  ⟨fun k => by rw [← isR_congr e]; exact h.isR k,
   fun k => by rw [← isD_congr e]; exact h.isD k,
   fun k nm => by rw [← rname_congr e]; exact h.rname k nm,
   fun k nm => by rw [← dname_congr e]; exact h.dname k nm,
   fun hu => h.uniq ((uniq_congr e).2 hu)⟩

theorem PinDirSpec.transfer {a b s' : St} {c n : Nat} (h : PinDirSpec a s' c n) (e : a.store = b.store) :
    PinDirSpec b s' c n :=
  ⟨fun k => by rw [← isR_congr e]; exact h.isR k,
   fun k => by rw [← isD_congr e]; exact h.isD k,
   fun k nm => by rw [← rname_congr e]; exact h.rname k nm,
   fun k nm => by rw [← dname_congr e]; exact h.dname k nm,
   fun hu => h.uniq ((uniq_congr e).2 hu)⟩

theorem UnpinSpec.transfer {a b s' : St} {c : Nat} (h : UnpinSpec a s' c) (e : a.store = b.store) :
    UnpinSpec b s' c :=
  ⟨fun k => by rw [← isR_congr e]; exact h.isR k,
   fun k => by rw [← isD_congr e]; exact h.isD k,
   fun k nm => by rw [← rname_congr e]; exact h.rname k nm,
   fun k nm => by rw [← dname_congr e]; exact h.dname k nm,
   fun hu => h.uniq ((uniq_congr e).2 hu)⟩

theorem UpdateSpec.transfer {a b s' : St} {src dst n : Nat} {u : Bool} (h : UpdateSpec a s' src dst u n)
    (e : a.store = b.store) : UpdateSpec b s' src dst u n :=
  ⟨fun k => by rw [← isR_congr e]; exact h.isR k,
   fun k => by rw [← isD_congr e]; exact h.isD k,
   fun k nm => by rw [← rname_congr e]; exact h.rname k nm,
   fun k nm => by rw [← dname_congr e]; exact h.dname k nm,
   fun hu => h.uniq ((uniq_congr e).2 hu)⟩

theorem step_ok (dag : Dag) {s : St} (h : Inv s) (op : Op) (hok : (step dag s op).2 = .ok) :
    OkSpec s (step dag s op).1 op := by
  cases op with
  | pin c recursive name ctx =>
    cases recursive with
    | true =>
      have e : step dag s (.pin c true name ctx) = pinRecursive dag
          { s with log := [], present := (if s.present.contains c then s.present else c :: s.present) }
          c true name ctx := by simp [step]
      rw [e] at hok ⊢
      simp only [OkSpec, if_true]
      exact (pinRecursive_ok (h.good _) dag c true name ctx hok).transfer rfl
    | false =>
      have e : step dag s (.pin c false name ctx) = pinDirect
          { s with log := [], present := (if s.present.contains c then s.present else c :: s.present) }
          c name ctx := by simp [step]
      rw [e] at hok ⊢
      simp only [OkSpec, Bool.false_eq_true, if_false]
      exact (pinDirect_ok (h.good _) c name ctx hok).transfer rfl
  | pinMode c mode name ctx =>
    by_cases m0 : mode = 0
    · have e : step dag s (.pinMode c mode name ctx) = pinRecursive dag { s with log := [], present := s.present }
          c false name ctx := by simp [step, m0]
      rw [e] at hok ⊢
      simp only [OkSpec, m0, if_true]
      exact (pinRecursive_ok (h.good _) dag c false name ctx hok).transfer rfl
    · by_cases m1 : mode = 1
      · have e : step dag s (.pinMode c mode name ctx) = pinDirect { s with log := [], present := s.present }
            c name ctx := by simp [step, m1]
        rw [e] at hok ⊢
        simp only [OkSpec, m0, m1, if_true, if_false]
        exact (pinDirect_ok (h.good _) c name ctx hok).transfer rfl
      · simp [step, m0, m1] at hok
  | unpin c recursive ctx =>
    have e : step dag s (.unpin c recursive ctx) = unpin { s with log := [], present := s.present } c recursive ctx := by
      simp [step]
    rw [e] at hok ⊢
    exact (unpin_ok (h.good _) c recursive ctx hok).transfer rfl
  | update src dst u ctx =>
    have e : step dag s (.update src dst u ctx) = update dag { s with log := [], present := s.present } src dst u ctx := by
      simp [step]
    rw [e] at hok ⊢
    obtain ⟨a, b⟩ := update_ok (h.good _) dag src dst u ctx hok
    refine ⟨a, fun hne => ?_⟩
    obtain ⟨nm0, x, y⟩ := b hne
    exact ⟨nm0, (rname_congr (a := { s with log := [], present := s.present }) (b := s) rfl src nm0).1 x, y.transfer rfl⟩
  | setAutosync b => simp [step, OkSpec]
  | flush =>
    simp only [step, OkSpec]
    exact ⟨fun w k v => by simp, fun j => by simp⟩

/-- one pin per (cid, mode) is preserved by every call -/
theorem step_uniq (dag : Dag) {s : St} (h : Inv s) (hu : Uniq s) (op : Op) : Uniq (step dag s op).1 := by
  by_cases hok : (step dag s op).2 = .ok
  · have := step_ok dag h op hok
    cases op with
    | pin c recursive name ctx =>
      cases recursive with
      | true => simp only [OkSpec, if_true] at this; exact this.uniq hu
      | false => simp only [OkSpec, Bool.false_eq_true, if_false] at this; exact this.uniq hu
    | pinMode c mode name ctx =>
      simp only [OkSpec] at this
      by_cases m0 : mode = 0
      · subst m0; simp only [if_true] at this; exact this.uniq hu
      · by_cases m1 : mode = 1
        · subst m1; simp only [if_true, if_false, show ¬ ((1 : Int) = 0) by decide] at this; exact this.uniq hu
        · simp [m0, m1] at this
    | unpin c recursive ctx => exact this.uniq hu
    | update src dst u ctx =>
      by_cases hsd : src = dst
      · exact (uniq_congr (this.1 hsd)).2 hu
      · obtain ⟨nm0, _, y⟩ := this.2 hsd
        exact y.uniq hu
    | setAutosync b => exact (uniq_congr this).2 hu
    | flush =>
      intro c id1 id2
      simp only [this.1]
      exact hu c id1 id2
  · exact (uniq_congr (failed_noop dag s op hok).1).2 hu

end C22

namespace C22

/-! ### which calls fail, in terms of the pin model -/

theorem result_pinDirect (s : St) (c name : Nat) (ctx : Ctx) :
    (ctx = .pre → (pinDirect s c name ctx).2 = .cancelled) ∧
    (ctx ≠ .pre → IsR s c → (pinDirect s c name ctx).2 = .alreadyRec) ∧
    (ctx ≠ .pre → ¬ IsR s c → (pinDirect s c name ctx).2 = .ok) := by
  have hR := isR_iff_hasAny s c
  unfold pinDirect
  refine ⟨fun h => by simp [h], fun h1 h2 => ?_, fun h1 h2 => ?_⟩
  · simp [h1, hR.2 h2]
  · have : ¬ s.store.idxR.hasAny c = true := fun hh => h2 (hR.1 hh)
    simp [h1, this]

theorem result_pinRecursive (dag : Dag) (s : St) (c : Nat) (fetch : Bool) (name : Nat) (ctx : Ctx) :
    (ctx = .pre → (pinRecursive dag s c fetch name ctx).2 = .cancelled) ∧
    (ctx = .mid → fetch = true → (pinRecursive dag s c fetch name ctx).2 = .cancelled) ∧
    (ctx = .ok → fetch = true → fetchOk dag s.present c = false → (pinRecursive dag s c fetch name ctx).2 = .notfound) ∧
    (ctx = .ok → fetch = true → fetchOk dag s.present c = true → (pinRecursive dag s c fetch name ctx).2 = .ok) ∧
    (ctx ≠ .pre → fetch = false → (pinRecursive dag s c fetch name ctx).2 = .ok) := by
  unfold pinRecursive
  refine ⟨fun h => by simp [h], fun h1 h2 => by simp [h1, h2], fun h1 h2 h3 => by simp [h1, h2, h3],
    fun h1 h2 h3 => by simp [h1, h2, h3], fun h1 h2 => by simp [h1, h2]⟩

theorem result_unpin (s : St) (c : Nat) (recursive : Bool) (ctx : Ctx) :
    (ctx = .pre → (unpin s c recursive ctx).2 = .cancelled) ∧
    (ctx ≠ .pre → IsR s c → recursive = false → (unpin s c recursive ctx).2 = .isRec) ∧
    (ctx ≠ .pre → ¬ IsR s c → ¬ IsD s c → (unpin s c recursive ctx).2 = .notpinned) ∧
    (ctx ≠ .pre → (IsR s c ∧ recursive = true) ∨ (¬ IsR s c ∧ IsD s c) → (unpin s c recursive ctx).2 = .ok) := by
  have hR := isR_iff_hasAny s c
  have hD := isD_iff_hasAny s c
  unfold unpin
  refine ⟨fun h => by simp [h], fun h1 h2 h3 => ?_, fun h1 h2 h3 => ?_, fun h1 h2 => ?_⟩
  · simp [h1, hR.2 h2, h3]
  · have n1 : ¬ s.store.idxR.hasAny c = true := fun hh => h2 (hR.1 hh)
    have n2 : ¬ s.store.idxD.hasAny c = true := fun hh => h3 (hD.1 hh)
    simp [h1, n1, n2]
  · have go : ∀ (x : St × Bool), (if x.2 = true then (flushPins x.1, Res.ok) else (x.1, Res.ok)).2 = Res.ok := by
      intro x; split <;> rfl
    rcases h2 with ⟨a, b⟩ | ⟨a, b⟩
    · rw [if_neg h1]
      simp only []
      rw [if_pos (hR.2 a), if_pos b]
      exact go _
    · have n1 : ¬ s.store.idxR.hasAny c = true := fun hh => a (hR.1 hh)
      rw [if_neg h1]
      simp only []
      rw [if_neg n1, if_pos (hD.2 b)]
      exact go _

theorem result_update (dag : Dag) (s : St) (no : s.store.NoOrphan) (hn : s.store.NodupIdx) (hu : Uniq s)
    (src dst : Nat) (u : Bool) (ctx : Ctx) :
    (¬ IsR s src → (update dag s src dst u ctx).2 = .fromNotRec) ∧
    (IsR s src → src = dst → (update dag s src dst u ctx).2 = .ok) ∧
    (IsR s src → src ≠ dst → ctx = .pre → (update dag s src dst u ctx).2 = .cancelled) ∧
    (IsR s src → src ≠ dst → ctx ≠ .pre → IsR s dst → (update dag s src dst u ctx).2 = .toRec) ∧
    (IsR s src → src ≠ dst → ctx = .mid → ¬ IsR s dst → (update dag s src dst u ctx).2 = .cancelled) ∧
    (IsR s src → src ≠ dst → ctx = .ok → ¬ IsR s dst → diffEnum dag s.present (dag.n + 1) src dst = false →
      (update dag s src dst u ctx).2 = .notfound) ∧
    (IsR s src → src ≠ dst → ctx = .ok → ¬ IsR s dst → diffEnum dag s.present (dag.n + 1) src dst = true →
      (update dag s src dst u ctx).2 = .ok) := by
  have hlen0 : ¬ IsR s src → (s.store.idxR.search src).length ≠ 1 := by
    intro h he
    have : s.store.idxR.search src ≠ [] := by intro e; simp [e] at he
    exact h ((isR_iff_search s src).1 this)
  have hlen1 : IsR s src → (s.store.idxR.search src).length = 1 := by
    intro h
    have h1 := (search_length s hn hu src).1
    have h2 : s.store.idxR.search src ≠ [] := (isR_iff_search s src).2 h
    cases hs : s.store.idxR.search src with
    | nil => exact absurd hs h2
    | cons a r => rw [hs] at h1; simp at h1 ⊢; exact h1
  have hD := isR_iff_hasAny s dst
  unfold update
  simp only []
  refine ⟨fun h => by simp [hlen0 h], fun h1 h2 => by subst h2; simp [hlen1 h1],
    fun h1 h2 h3 => by simp [hlen1 h1, h2, h3], fun h1 h2 h3 h4 => by simp [hlen1 h1, h2, h3, hD.2 h4],
    fun h1 h2 h3 h4 => ?_, fun h1 h2 h3 h4 h5 => ?_, fun h1 h2 h3 h4 h5 => ?_⟩
  · have n : ¬ s.store.idxR.hasAny dst = true := fun hh => h4 (hD.1 hh)
    simp [hlen1 h1, h2, h3, n]
  · have n : ¬ s.store.idxR.hasAny dst = true := fun hh => h4 (hD.1 hh)
    simp [hlen1 h1, h2, h3, n, h5]
  · have n : ¬ s.store.idxR.hasAny dst = true := fun hh => h4 (hD.1 hh)
    -- the record of the single id exists (no orphans)
    obtain ⟨id0, hid0⟩ : ∃ id0, s.store.idxR.search src = [id0] := by
      match hs : s.store.idxR.search src, hlen1 h1 with
      | [a], _ => exact ⟨a, rfl⟩
    have hhas : s.store.has .R src id0 :=
      (search_has s.store .R src id0).1 (by rw [show s.store.idx .R = s.store.idxR from rfl, hid0]; simp)
    obtain ⟨nm, e⟩ := no.r src id0 hhas
    have e' : RMap.find s.store.recs id0 = some ⟨src, .recursive, nm⟩ := e
    simp [hid0, h2, h3, n, h5, e']

end C22

namespace C22

/-! the query functions only read the datastore and the block store -/

theorem listKeys_go_congr (a b : St) (e : a.store = b.store) (detailed : Bool) :
    ∀ (idx : Idx) (seen : List Nat), listKeys.go a detailed idx seen = listKeys.go b detailed idx seen := by
  intro idx
  induction idx with
  | nil => intro seen; simp [listKeys.go]
  | cons x rest ih =>
    intro seen
    obtain ⟨c, id⟩ := x
    unfold listKeys.go
    simp only [e, ih]

theorem queries_congr (dag : Dag) (a b : St) (e1 : a.store = b.store) (e2 : a.present = b.present)
    (c : Nat) (mode : Int) (names : Bool) (cids : List Nat) :
    isPinnedWithType dag a c mode = isPinnedWithType dag b c mode ∧
    checkIfPinnedWithType dag a mode names cids = checkIfPinnedWithType dag b mode names cids ∧
    listKeys a a.store.idxR names = listKeys b b.store.idxR names ∧
    listKeys a a.store.idxD names = listKeys b b.store.idxD names := by
  refine ⟨?_, ?_, ?_, ?_⟩
  · simp only [isPinnedWithType, e1, e2]
  · have hb : ∀ c, batchEntry dag a mode names c = batchEntry dag b mode names c := by
      intro c; simp only [batchEntry, pinName, e1]
    have hm : cids.map (batchEntry dag a mode names) = cids.map (batchEntry dag b mode names) := by
      apply List.map_congr_left; intro c _; exact hb c
    unfold checkIfPinnedWithType needWalk dangling
    rw [e1, e2, hm]
  · simp only [listKeys, e1]; exact listKeys_go_congr a b e1 names _ _
  · simp only [listKeys, e1]; exact listKeys_go_congr a b e1 names _ _

end C22
