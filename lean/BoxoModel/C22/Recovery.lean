import BoxoModel.C22.IOErr
/-!
Helper lemmas for C23 (deepening): the recovery (New + rebuildIndexes) can itself be interrupted.
-/
namespace C22

theorem stale_false {s : St} (hno : s.store.NoOrphan) (id : Nat) (pp : PinRec)
    (hp : s.store.rec? id = some pp) : (s.store.idx (staleIdx pp.mode)).hasValue pp.cid id = false := by
  cases hb : (s.store.idx (staleIdx pp.mode)).hasValue pp.cid id with
  | false => rfl
  | true =>
    rw [hasValue_has] at hb
    cases hm : pp.mode with
    | recursive =>
      rw [hm] at hb
      obtain ⟨nm, e⟩ := hno.d _ _ (by simpa [staleIdx] using hb)
      rw [hp] at e; injection e with e
      have := congrArg PinRec.mode e; simp [hm] at this
    | direct =>
      rw [hm] at hb
      obtain ⟨nm, e⟩ := hno.r _ _ (by simpa [staleIdx] using hb)
      rw [hp] at e; injection e with e
      have := congrArg PinRec.mode e; simp [hm] at this

/-- state carried through rebuildIndexes: every prefix of its writes is a safe image, it writes no record -/
structure RMid (s0 : Store) (s : St) : Prop where
  mid : Mid s0 s
  norec : NoRecW s

theorem RMid.addIdx {s0 : Store} {s : St} (m : RMid s0 s) (w : Which) (k v : Nat)
    (hr : match w with
      | .R => ∃ nm, s.store.rec? v = some ⟨k, .recursive, nm⟩
      | .D => ∃ nm, s.store.rec? v = some ⟨k, .direct, nm⟩
      | .N => k ≠ 0 ∧ ∃ c m, s.store.rec? v = some ⟨c, m, k⟩) :
    RMid s0 (s.write (.addIdx w k v)) := by
  refine ⟨m.mid.write _ (by simp) (m.mid.noOrphan.addIdx w k v hr), ?_⟩
  intro a ha
  simp only [St.write, List.mem_append, List.mem_singleton] at ha
  rcases ha with ha | rfl
  · exact m.norec a ha
  · rfl

theorem rmid_rebuildOne {s0 : Store} {s : St} (m : RMid s0 s) (id : Nat) (pp : PinRec)
    (hp : s.store.rec? id = some pp) :
    RMid s0 (rebuildOne s id pp) ∧ ∀ j, (rebuildOne s id pp).store.rec? j = s.store.rec? j := by
  have hstale := stale_false m.mid.noOrphan id pp hp
  simp only [rebuildOne, hstale, Bool.false_eq_true, if_false]
  -- cid index
  have step1 : RMid s0 (if (s.store.idx (modeIdx pp.mode)).hasValue pp.cid id = true then s
        else s.write (.addIdx (modeIdx pp.mode) pp.cid id)) ∧
      ∀ j, (if (s.store.idx (modeIdx pp.mode)).hasValue pp.cid id = true then s
        else s.write (.addIdx (modeIdx pp.mode) pp.cid id)).store.rec? j = s.store.rec? j := by
    by_cases hh : (s.store.idx (modeIdx pp.mode)).hasValue pp.cid id = true
    · rw [if_pos hh]; exact ⟨m, fun _ => rfl⟩
    · rw [if_neg hh]
      refine ⟨m.addIdx _ _ _ ?_, fun j => by simp [Store.rec_apply]⟩
      cases hm : pp.mode <;> simp [modeIdx, hp] <;> (cases pp; simp_all)
  obtain ⟨m1, r1⟩ := step1
  generalize (if (s.store.idx (modeIdx pp.mode)).hasValue pp.cid id = true then s
        else s.write (.addIdx (modeIdx pp.mode) pp.cid id)) = s1 at m1 r1 ⊢
  by_cases hc : pp.name ≠ 0 ∧ (!s1.store.idxN.hasValue pp.name id) = true
  · rw [if_pos hc]
    refine ⟨m1.addIdx .N _ _ ⟨hc.1, pp.cid, pp.mode, by rw [r1, hp]⟩, fun j => ?_⟩
    simp [Store.rec_apply, r1]
  · rw [if_neg hc]; exact ⟨m1, r1⟩

theorem rmid_fold {s0 : Store} (l : List (Nat × PinRec)) : ∀ s : St, RMid s0 s →
    (∀ e ∈ l, s.store.rec? e.1 = some e.2) →
    RMid s0 (l.foldl (fun s e => rebuildOne s e.1 e.2) s) := by
  induction l with
  | nil => intro s m _; exact m
  | cons e r ih =>
    intro s m hl
    obtain ⟨m1, r1⟩ := rmid_rebuildOne m e.1 e.2 (hl e (by simp))
    exact ih _ m1 (fun e' he' => by rw [r1]; exact hl e' (by simp [he']))

/-- every prefix of the writes of New + rebuildIndexes, applied to a safe image, is a safe image again,
and the recovery writes no pin record -/
theorem reopen_tr (img : Store) (n : Nat) (p : List Nat) (hs : img.Safe) (hnd : RMap.NoDupKeys img.recs) :
    Tr img (reopenStore img n p) ∧ NoRecW (reopenStore img n p) := by
  unfold reopenStore
  by_cases hd : img.dirty = some 1
  · simp only [hd, if_true]
    have m0 : RMid img { store := img, memDirty := true, nextId := n, present := p, log := [] } :=
      ⟨⟨Tr.start { store := img, memDirty := true, nextId := n, present := p, log := [], autoSync := true } hs,
        hs.1, hd, rfl, hnd⟩, by intro a ha; simp at ha⟩
    have m1 := rmid_fold (sortRecs img.recs) _ m0 (fun e he => RMap.find_of_mem img.recs hnd e.1 e.2 ((mem_sortRecs _ _).1 he))
    obtain ⟨n1, sb1, h1⟩ := rebuild_fold (sortRecs img.recs)
      { store := img, memDirty := true, nextId := n, present := p, log := [] } hs.1
      (fun e he => RMap.find_of_mem img.recs hnd e.1 e.2 ((mem_sortRecs _ _).1 he))
    generalize ((sortRecs img.recs).foldl (fun s e => rebuildOne s e.1 e.2)
      { store := img, memDirty := true, nextId := n, present := p, log := [] }) = s1 at m1 n1 sb1 h1
    have hix : s1.store.Indexed := by
      intro id pp hp
      rw [sb1.recOf] at hp
      have hm : (id, pp) ∈ img.recs := RMap.mem_of_find img.recs id pp hp
      exact ⟨(h1 _ _ _).2 (Or.inr ⟨(id, pp), (mem_sortRecs _ _).2 hm, Or.inl ⟨rfl, rfl, rfl⟩⟩),
        fun h0 => (h1 _ _ _).2 (Or.inr ⟨(id, pp), (mem_sortRecs _ _).2 hm, Or.inr ⟨rfl, h0, rfl, rfl⟩⟩)⟩
    have hmem : s1.memDirty = true := m1.mid.mem
    have hno : (s1.store.apply (.putDirty 0)).NoOrphan := by
      constructor <;> intro a b hab <;> simp only [Store.has_apply, Store.rec_apply] at hab ⊢
      · exact m1.mid.noOrphan.r a b hab
      · exact m1.mid.noOrphan.d a b hab
      · exact m1.mid.noOrphan.n a b hab
    have hix' : (s1.store.apply (.putDirty 0)).Indexed := by
      intro id pp hp
      simp only [Store.has_apply, Store.rec_apply] at hp ⊢
      exact hix id pp hp
    have t := m1.mid.tr.write (.putDirty 0) ⟨hno, fun _ => hix'⟩
    refine ⟨?_, ?_⟩
    · simpa [setClean, hmem, Tr, St.write] using t
    · intro a ha
      simp only [setClean, hmem, if_true, St.write, List.mem_append, List.mem_singleton] at ha
      rcases ha with ha | rfl
      · exact m1.norec a ha
      · rfl
  · simp only [hd, if_false]
    exact ⟨Tr.start { store := img, memDirty := false, nextId := n, present := p, log := [], autoSync := true } hs,
      by intro a ha; simp at ha⟩

end C22
