/-
C43 — routing/http/types/iter: executable model of the iterator combinators.

Transcribed from /repo/routing/http/types/iter/{slice,map,filter,limit,json}.go, field for field:
  SliceIter {Slice, i, val}          ~ `SrcSt {rest, val, nexts, closes}` (rest = Slice[i+1:], plus call counters)
  MapIter   {iter, f, done, val}     ~ shape `.map f s`,    state `(LSt{done,val}, inner)`
  FilterIter{iter, f, done, val}     ~ shape `.filter p s`, state `(LSt{done,val}, inner)`
  LimitIter {iter, limit, count}     ~ shape `.limit l s`,  state `(LSt{count}, inner)`
The static part of an iterator (which combinators, which functions) is `Shape`; the mutable fields are
`State shape`.  `nexts`/`closes` are ghost counters of the calls that reach the underlying source; the
Go harness uses an instrumented source with the same counters.
Core-only (no Mathlib): this file is also imported by the line-protocol driver.
-/
namespace C43

inductive Shape where
  | src
  | map (f : Int → Int) (s : Shape)
  | filter (p : Int → Bool) (s : Shape)
  | limit (lim : Int) (s : Shape)

structure SrcSt where
  rest : List Int
  val : Int
  nexts : Nat
  closes : Nat

/-- mutable fields of one combinator layer (a layer uses only the fields its Go struct has) -/
structure LSt where
  done : Bool := false
  val : Int := 0
  count : Nat := 0

def State : Shape → Type
  | .src => SrcSt
  | .map _ s => LSt × State s
  | .filter _ s => LSt × State s
  | .limit _ s => LSt × State s

/-- state right after the constructors `FromSlice`, `Map`, `Filter`, `Limit` -/
def fresh (xs : List Int) : (sh : Shape) → State sh
  | .src => ({ rest := xs, val := 0, nexts := 0, closes := 0 } : SrcSt)
  | .map _ s => (({} : LSt), fresh xs s)
  | .filter _ s => (({} : LSt), fresh xs s)
  | .limit _ s => (({} : LSt), fresh xs s)

/-- Val() -/
def val : (sh : Shape) → State sh → Int
  | .src, st => SrcSt.val st
  | .map _ _, (l, _) => l.val
  | .filter _ _, (l, _) => l.val
  | .limit _ s, (_, i) => val s i

/-- Close(): cascades to the source; no combinator changes its own fields. -/
def close : (sh : Shape) → State sh → State sh
  | .src, st => ({ st with closes := SrcSt.closes st + 1 } : SrcSt)
  | .map _ s, (l, i) => (l, close s i)
  | .filter _ s, (l, i) => (l, close s i)
  | .limit _ s, (l, i) => (l, close s i)

def source : (sh : Shape) → State sh → SrcSt
  | .src, st => st
  | .map _ s, (_, i) => source s i
  | .filter _ s, (_, i) => source s i
  | .limit _ s, (_, i) => source s i

/-- Number of elements still held by the underlying source. -/
def remaining (sh : Shape) (st : State sh) : Nat := (source sh st).rest.length

/-- The `for` loop of FilterIter.Next over an inner iterator given by its `Next` and `Val`.
`fuel` bounds the number of iterations; `C43.filterLoop_fuel_ok` shows `remaining inner + 1`
always suffices, so the `none` (out of fuel) answer is unreachable. -/
def filterLoop {σ : Type} (nextI : σ → σ × Bool) (valI : σ → Int) (p : Int → Bool) :
    Nat → σ → Bool → Int → Option (σ × Bool × Int × Bool)
  | 0, _, _, _ => none
  | fuel + 1, i, done, v =>
    if done then some (i, done, v, false)
    else
      let r := nextI i
      if !r.2 then some (r.1, true, v, false)
      else
        let v' := valI r.1
        if p v' then some (r.1, false, v', true)
        else filterLoop nextI valI p fuel r.1 false v'

/-- Next(): new state and the returned bool. -/
def next : (sh : Shape) → State sh → State sh × Bool
  | .src, st =>
    match SrcSt.rest st with
    | [] => (({ st with nexts := SrcSt.nexts st + 1 } : SrcSt), false)
    | x :: r => (({ st with rest := r, val := x, nexts := SrcSt.nexts st + 1 } : SrcSt), true)
  | .map f s, (l, i) =>
    if l.done then ((l, i), false)
    else
      let r := next s i
      if !r.2 then (({ l with done := true }, r.1), false)
      else (({ l with done := false, val := f (val s r.1) }, r.1), true)
  | .filter p s, (l, i) =>
    match filterLoop (next s) (val s) p (remaining s i + 1) i l.done l.val with
    | some (i', d', v', b) => (({ l with done := d', val := v' }, i'), b)
    | none => ((l, i), false)   -- unreachable (filterLoop_fuel_ok)
  | .limit lim s, (l, i) =>
    if lim > 0 ∧ (l.count : Int) ≥ lim then ((l, i), false)
    else
      let r := next s i
      if !r.2 then ((l, r.1), false)
      else (({ l with count := l.count + 1 }, r.1), true)

/-- The `for iter.Next() { vs = append(vs, iter.Val()) }` loop of ReadAll (without the deferred Close). -/
def drain (sh : Shape) : Nat → State sh → State sh × List Int
  | 0, st => (st, [])
  | fuel + 1, st =>
    let r := next sh st
    if r.2 then
      let r' := drain sh fuel r.1
      (r'.1, val sh r.1 :: r'.2)
    else (r.1, [])

/-- ReadAll: drain then Close. `remaining + 1` calls of Next always reach the `false` answer. -/
def readAll (sh : Shape) (st : State sh) : State sh × List Int :=
  let r := drain sh (remaining sh st + 1) st
  (close sh r.1, r.2)

/-- Abstract meaning of an iterator state: the list of values it will still yield. -/
def toList : (sh : Shape) → State sh → List Int
  | .src, st => SrcSt.rest st
  | .map f s, (l, i) => if l.done then [] else (toList s i).map f
  | .filter p s, (l, i) => if l.done then [] else (toList s i).filter p
  | .limit lim s, (l, i) => if lim > 0 then (toList s i).take (lim.toNat - l.count) else toList s i

/-! JSONIter over a token stream, for any element type `α` (Go: `JSONIter[T]`; `zero` is T's zero
value, i.e. the fresh `var val T` that every `Next` decodes into). A token is `some v` (a well-formed
JSON value, decoded into a FRESH variable — never merged into the previous one) or `none` (malformed
input: Decode returns a non-EOF error). End of list = io.EOF. -/
structure JIt (α : Type) where
  zero : α
  toks : List (Option α)
  done : Bool := false
  val : α
  err : Bool := false

namespace JIt
def fresh {α : Type} (zero : α) (toks : List (Option α)) : JIt α := { zero := zero, toks := toks, val := zero }
def next {α : Type} (j : JIt α) : JIt α × Bool :=
  if j.done then (j, false)
  else match j.toks with
    | [] => ({ j with done := true, val := j.zero, err := false }, false)
    | some v :: r => ({ j with toks := r, done := false, val := v, err := false }, true)
    | none :: r => ({ j with toks := r, done := true, val := j.zero, err := true }, true)
def close {α : Type} (j : JIt α) : JIt α := { j with done := true }

/-- `ReadAllResults` over a JSONIter: the loop `for iter.Next() { if res.Err != nil { return nil, error at i } … }`
(no Close). Result: `.inl vs` = all values, no error; `.inr i` = error reported for result number `i`. -/
def readAllResults {α : Type} : Nat → JIt α → Nat → List α → List α ⊕ Nat
  | 0, _, _, acc => .inl acc.reverse
  | fuel + 1, j, i, acc =>
    let r := j.next
    if r.2 then (if r.1.err then .inr i else readAllResults fuel r.1 (i + 1) (r.1.val :: acc))
    else .inl acc.reverse
end JIt

end C43
