import BoxoModel.C43.Model
/-! Helper lemmas for C43. The property theorems live in `BoxoModel/Props/C43.lean`. -/
namespace C43

/-- What one call of an iterator's Next must satisfy with respect to its abstract list `T`
and a progress measure `R`. -/
def StepSpec {σ : Type} (nextI : σ → σ × Bool) (valI : σ → Int) (T : σ → List Int) (R : σ → Nat) : Prop :=
  ∀ i, ((nextI i).2 = true → T i = valI (nextI i).1 :: T (nextI i).1 ∧ R (nextI i).1 < R i) ∧
       ((nextI i).2 = false → T i = [] ∧ T (nextI i).1 = [] ∧ R (nextI i).1 ≤ R i)

theorem filterLoop_spec {σ : Type} (nextI : σ → σ × Bool) (valI : σ → Int) (T : σ → List Int)
    (R : σ → Nat) (p : Int → Bool) (H : StepSpec nextI valI T R) :
    ∀ (fuel : Nat) (i : σ) (done : Bool) (v : Int), R i < fuel →
      ∃ i' d' v' b, filterLoop nextI valI p fuel i done v = some (i', d', v', b) ∧
        (b = true → (if done then [] else (T i).filter p) = v' :: (T i').filter p ∧ d' = false ∧ R i' < R i) ∧
        (b = false → (if done then [] else (T i).filter p) = [] ∧ d' = true ∧ R i' ≤ R i) := by
  intro fuel
  induction fuel with
  | zero => intro i done v h; omega
  | succ fuel ih =>
    intro i done v hR
    unfold filterLoop
    by_cases hd : done = true
    · subst hd
      exact ⟨i, true, v, false, by simp, by simp, by simp⟩
    · have hd' : done = false := by cases done <;> simp_all
      subst hd'
      have hs := H i
      cases hb : (nextI i).2 with
      | false =>
        obtain ⟨h1, h2, h3⟩ := hs.2 hb
        refine ⟨(nextI i).1, true, v, false, by simp [hb], by simp, ?_⟩
        intro _; simp [h1]; exact h3
      | true =>
        obtain ⟨h1, h2⟩ := hs.1 hb
        by_cases hp : p (valI (nextI i).1) = true
        · refine ⟨(nextI i).1, false, valI (nextI i).1, true, by simp [hb, hp], ?_, by simp⟩
          intro _; simp [h1, hp]; exact h2
        · have hp' : p (valI (nextI i).1) = false := by
            cases h : p (valI (nextI i).1) <;> simp_all
          obtain ⟨i', d', v', b, he, hT, hF⟩ := ih (nextI i).1 false (valI (nextI i).1) (by omega)
          refine ⟨i', d', v', b, by simp [hb, hp', he], ?_, ?_⟩
          · intro hbt
            obtain ⟨a, b', c⟩ := hT hbt
            refine ⟨?_, b', by omega⟩
            simpa [h1, hp'] using a
          · intro hbf
            obtain ⟨a, b', c⟩ := hF hbf
            refine ⟨?_, b', by omega⟩
            simpa [h1, hp'] using a

theorem source_close (sh : Shape) (st : State sh) :
    source sh (close sh st) = { source sh st with closes := (source sh st).closes + 1 } := by
  induction sh with
  | src => rfl
  | map f s ih => obtain ⟨l, i⟩ := st; simpa [source, close] using ih i
  | filter p s ih => obtain ⟨l, i⟩ := st; simpa [source, close] using ih i
  | limit lim s ih => obtain ⟨l, i⟩ := st; simpa [source, close] using ih i

theorem toList_close (sh : Shape) (st : State sh) : toList sh (close sh st) = toList sh st := by
  induction sh with
  | src => rfl
  | map f s ih => obtain ⟨l, i⟩ := st; simp [toList, close, ih i]
  | filter p s ih => obtain ⟨l, i⟩ := st; simp [toList, close, ih i]
  | limit lim s ih => obtain ⟨l, i⟩ := st; simp [toList, close, ih i]

/-- Main lemma: every iterator's Next meets `StepSpec` for `toList` and `remaining`. -/
theorem next_spec (sh : Shape) : StepSpec (next sh) (val sh) (toList sh) (remaining sh) := by
  induction sh with
  | src =>
    intro st
    cases h : SrcSt.rest st with
    | nil => simp [next, h, toList, remaining, source]
    | cons x r => simp [next, h, toList, remaining, source, val]
  | map f s ih =>
    rintro ⟨l, i⟩
    have hs := ih i
    by_cases hd : l.done = true
    · simp [next, hd, toList, remaining, source]
    · have hd' : l.done = false := by cases h : l.done <;> simp_all
      cases hb : (next s i).2 with
      | false =>
        obtain ⟨h1, h2, h3⟩ := hs.2 hb
        simp only [remaining] at h3
        simp [next, hd', hb, toList, h1, remaining, source, h3]
      | true =>
        obtain ⟨h1, h2⟩ := hs.1 hb
        simp only [remaining] at h2
        simp [next, hd', hb, toList, h1, remaining, source, val, h2]
  | filter p s ih =>
    rintro ⟨l, i⟩
    obtain ⟨i', d', v', b, he, hT, hF⟩ :=
      filterLoop_spec (next s) (val s) (toList s) (remaining s) p ih (remaining s i + 1) i l.done l.val (by omega)
    simp only [next, he]
    constructor
    · intro hb
      obtain ⟨a, b', c⟩ := hT hb
      simp only [remaining] at c
      simp [toList, a, b', val, remaining, source, c]
    · intro hb
      obtain ⟨a, b', c⟩ := hF hb
      simp only [remaining] at c
      simp [toList, a, b', remaining, source, c]
  | limit lim s ih =>
    rintro ⟨l, i⟩
    have hs := ih i
    by_cases hl : lim > 0 ∧ (l.count : Int) ≥ lim
    · have : lim.toNat - l.count = 0 := by omega
      simp [next, hl, toList, this, remaining, source]
    · cases hb : (next s i).2 with
      | false =>
        obtain ⟨h1, h2, h3⟩ := hs.2 hb
        simp only [remaining] at h3
        simp [next, hl, hb, toList, h1, h2, remaining, source, h3]
      | true =>
        obtain ⟨h1, h2⟩ := hs.1 hb
        simp only [remaining] at h2
        simp only [next, hl, hb, toList, remaining, source, val]
        refine ⟨fun _ => ⟨?_, h2⟩, by simp⟩
        by_cases hp : lim > 0
        · have hc : lim.toNat - l.count = (lim.toNat - (l.count + 1)) + 1 := by omega
          simp [hp, h1, hc, List.take_succ_cons, val, toList]
        · simp [hp, h1, val, toList]

/-- the filter fuel `remaining inner + 1` is always enough: the `none` branch of `next` is dead code -/
theorem filterLoop_fuel_ok (p : Int → Bool) (s : Shape) (l : LSt) (i : State s) :
    filterLoop (next s) (val s) p (remaining s i + 1) i l.done l.val ≠ none := by
  obtain ⟨i', d', v', b, he, _⟩ :=
    filterLoop_spec (next s) (val s) (toList s) (remaining s) p (next_spec s) (remaining s i + 1) i l.done l.val (by omega)
  simp [he]

theorem drain_spec (sh : Shape) : ∀ (fuel : Nat) (st : State sh),
    toList sh st = (drain sh fuel st).2 ++ toList sh (drain sh fuel st).1 := by
  intro fuel
  induction fuel with
  | zero => intro st; simp [drain]
  | succ fuel ih =>
    intro st
    have hs := next_spec sh st
    cases hb : (next sh st).2 with
    | false => simp [drain, hb, (hs.2 hb).1, (hs.2 hb).2.1]
    | true =>
      have := ih (next sh st).1
      simp [drain, hb, (hs.1 hb).1]
      exact this

theorem drain_done (sh : Shape) : ∀ (fuel : Nat) (st : State sh), remaining sh st < fuel →
    toList sh (drain sh fuel st).1 = [] := by
  intro fuel
  induction fuel with
  | zero => intro st h; omega
  | succ fuel ih =>
    intro st hR
    have hs := next_spec sh st
    cases hb : (next sh st).2 with
    | false => simp [drain, hb, (hs.2 hb).2.1]
    | true =>
      have := ih (next sh st).1 (by have := (hs.1 hb).2; omega)
      simp [drain, hb]
      exact this

theorem next_closes (sh : Shape) (st : State sh) :
    (source sh (next sh st).1).closes = (source sh st).closes := by
  induction sh with
  | src =>
    cases h : SrcSt.rest st <;> simp [next, h, source]
  | map f s ih =>
    obtain ⟨l, i⟩ := st
    by_cases hd : l.done = true
    · simp [next, hd]
    · have hd' : l.done = false := by cases h : l.done <;> simp_all
      cases hb : (next s i).2 <;> simp [next, hd', hb, source, ih i]
  | filter p s ih =>
    obtain ⟨l, i⟩ := st
    -- generic: the loop only moves the inner iterator through `next s`
    have key : ∀ (fuel : Nat) (i : State s) (d : Bool) (v : Int) r,
        filterLoop (next s) (val s) p fuel i d v = some r → (source s r.1).closes = (source s i).closes := by
      intro fuel
      induction fuel with
      | zero => intro i d v r h; simp [filterLoop] at h
      | succ fuel ihf =>
        intro i d v r h
        unfold filterLoop at h
        by_cases hd : d = true
        · simp [hd] at h; subst h; rfl
        · have hd' : d = false := by cases d <;> simp_all
          subst hd'
          cases hb : (next s i).2 with
          | false => simp [hb] at h; subst h; exact ih i
          | true =>
            by_cases hp : p (val s (next s i).1) = true
            · simp [hb, hp] at h; subst h; exact ih i
            · have hp' : p (val s (next s i).1) = false := by
                cases h' : p (val s (next s i).1) <;> simp_all
              simp [hb, hp'] at h
              rw [ihf _ _ _ _ h]; exact ih i
    cases he : filterLoop (next s) (val s) p (remaining s i + 1) i l.done l.val with
    | none => simp [next, he]
    | some r =>
      obtain ⟨i', d', v', b⟩ := r
      have := key _ _ _ _ _ he
      simp [next, he, source]; exact this
  | limit lim s ih =>
    obtain ⟨l, i⟩ := st
    by_cases hl : lim > 0 ∧ (l.count : Int) ≥ lim
    · simp [next, hl]
    · cases hb : (next s i).2 <;> simp [next, hl, hb, source, ih i]

theorem drain_closes (sh : Shape) : ∀ (fuel : Nat) (st : State sh),
    (source sh (drain sh fuel st).1).closes = (source sh st).closes := by
  intro fuel
  induction fuel with
  | zero => intro st; rfl
  | succ fuel ih =>
    intro st
    cases hb : (next sh st).2 with
    | false => simp [drain, hb, next_closes]
    | true => simp [drain, hb, ih, next_closes]

/-- `FilterIter.Next` once the loop's answer is known (unfolding lemma that keeps `next s` folded) -/
theorem next_filter_eq (p : Int → Bool) (s : Shape) (l : LSt) (i : State s) (r : State s × Bool × Int × Bool)
    (he : filterLoop (next s) (val s) p (remaining s i + 1) i l.done l.val = some r) :
    next (.filter p s) (l, i) = (({ l with done := r.2.1, val := r.2.2.1 }, r.1), r.2.2.2) := by
  obtain ⟨a, b, c, d⟩ := r
  simp [next, he]
  rfl

/-- source `Next` calls made so far plus elements the source still holds: every successful source
`Next` keeps it, only a call past the end raises it -/
def mu (sh : Shape) (st : State sh) : Nat := (source sh st).nexts + (source sh st).rest.length

theorem filterLoop_mu (s : Shape) (p : Int → Bool)
    (ih : ∀ i : State s, ((next s i).2 = true → mu s (next s i).1 = mu s i) ∧ mu s (next s i).1 ≤ mu s i + 1) :
    ∀ (fuel : Nat) (i : State s) (d : Bool) (v : Int) r,
      filterLoop (next s) (val s) p fuel i d v = some r →
      (r.2.2.2 = true → mu s r.1 = mu s i) ∧ mu s r.1 ≤ mu s i + 1 := by
  intro fuel
  induction fuel with
  | zero => intro i d v r h; simp [filterLoop] at h
  | succ fuel ihf =>
    intro i d v r hr
    unfold filterLoop at hr
    cases d with
    | true => simp at hr; subst hr; simp
    | false =>
      have hi := ih i
      cases hn : (next s i).2 with
      | false => simp [hn] at hr; subst hr; simp; exact hi.2
      | true =>
        have hk := hi.1 hn
        by_cases hp : p (val s (next s i).1) = true
        · simp [hn, hp] at hr; subst hr; simp [hk]
        · have hp' : p (val s (next s i).1) = false := by
            cases h' : p (val s (next s i).1) <;> simp_all
          simp [hn, hp'] at hr
          have := ihf _ _ _ _ hr
          rw [hk] at this
          exact this

theorem next_mu (sh : Shape) : ∀ st : State sh,
    ((next sh st).2 = true → mu sh (next sh st).1 = mu sh st) ∧ mu sh (next sh st).1 ≤ mu sh st + 1 := by
  induction sh with
  | src =>
    intro st
    cases hr : SrcSt.rest st with
    | nil => simp [next, mu, source, hr]
    | cons x r => simp [next, mu, source, hr]; omega
  | map f s ih =>
    rintro ⟨l, i⟩
    have := ih i
    by_cases hd : l.done = true
    · simp [next, hd, mu, source]
    · cases hn : (next s i).2 with
      | false => simp [next, hd, hn, mu, source] at this ⊢; exact this
      | true => simp [next, hd, hn, mu, source] at this ⊢; exact this
  | filter p s ih =>
    rintro ⟨l, i⟩
    cases he : filterLoop (next s) (val s) p (remaining s i + 1) i l.done l.val with
    | none => exact absurd he (filterLoop_fuel_ok p s l i)
    | some r =>
      have hn := next_filter_eq p s l i r he
      have := filterLoop_mu s p ih _ _ _ _ _ he
      rw [hn]
      simpa [mu, source] using this
  | limit lim s ih =>
    rintro ⟨l, i⟩
    have := ih i
    by_cases hc : lim > 0 ∧ (l.count : Int) ≥ lim
    · simp [next, hc, mu, source]
    · cases hn : (next s i).2 with
      | false => simp [next, hc, hn, mu, source] at this ⊢; exact this
      | true => simp [next, hc, hn, mu, source] at this ⊢; exact this

end C43
