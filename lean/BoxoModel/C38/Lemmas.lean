import BoxoModel.C38.Model
import BoxoModel.Lib.FSLemmas
/-! Helper lemmas for C38 (the property theorems are in `Props/C38.lean`). -/
namespace C38
open FS

/-- what may happen to an ancestor directory of the target: it is (still, or newly created as) a
directory; an existing one keeps everything but its mtime -/
def AncOK (a b : Option Node) : Prop := isDir b = true ∧ (a = none ∨ Eqv a b)

/-- general shape of "only allowed changes": each node is unchanged, or lies in the free region `A`, or
lies in `B` and changed like an ancestor directory may -/
def Chg (A B : Path → Prop) (w w' : World) : Prop :=
  ∀ q, find w' q = find w q ∨ A q ∨ (B q ∧ AncOK (find w q) (find w' q))

theorem Chg.refl (A B : Path → Prop) (w : World) : Chg A B w w := fun _ => Or.inl rfl

theorem AncOK.trans_eqv {a b c : Option Node} (h1 : AncOK a b) (h2 : AncOK b c) : AncOK a c := by
  refine ⟨h2.1, ?_⟩
  rcases h1.2 with e | e
  · exact Or.inl e
  · rcases h2.2 with e2 | e2
    · subst e2; have := h1.1; simp [isDir] at this
    · exact Or.inr (e.trans e2)

theorem Chg.trans {A B : Path → Prop} {w w' w'' : World} (h1 : Chg A B w w') (h2 : Chg A B w' w'') : Chg A B w w'' := by
  intro q
  rcases h2 q with e2 | a2 | ⟨b2, k2⟩
  · rcases h1 q with e1 | a1 | ⟨b1, k1⟩
    · exact Or.inl (e2.trans e1)
    · exact Or.inr (Or.inl a1)
    · exact Or.inr (Or.inr ⟨b1, by rw [e2]; exact k1⟩)
  · exact Or.inr (Or.inl a2)
  · rcases h1 q with e1 | a1 | ⟨b1, k1⟩
    · exact Or.inr (Or.inr ⟨b2, by rw [← e1]; exact k2⟩)
    · exact Or.inr (Or.inl a1)
    · exact Or.inr (Or.inr ⟨b2, k1.trans_eqv k2⟩)

theorem Chg.mono {A B A' B' : Path → Prop} {w w' : World} (h : Chg A B w w') (hA : ∀ q, A q → A' q)
    (hB : ∀ q, B q → A' q ∨ B' q) : Chg A' B' w w' := by
  intro q
  rcases h q with e | a | ⟨b, k⟩
  · exact Or.inl e
  · exact Or.inr (Or.inl (hA q a))
  · rcases hB q b with x | x
    · exact Or.inr (Or.inl x)
    · exact Or.inr (Or.inr ⟨x, k⟩)

/-- **confinement**: outside the target nothing changes, except that the directories on the way to the
target may be created (when missing) and get a new mtime (when an entry is added to them) -/
def Confined (T : Path) (w w' : World) : Prop := Chg (fun q => T <+: q) (fun q => q <+: T) w w'

/-- only the prefixes of `p` change, each like an ancestor directory (`MkdirAll`) -/
def PrefixMod (p : Path) (w w' : World) : Prop := Chg (fun _ => False) (fun q => q <+: p) w w'

theorem PrefixMod.confined {T p : Path} {w w' : World} (h : PrefixMod p w w') (hT : T <+: p) : Confined T w w' :=
  Chg.mono h (fun _ f => f.elim) (fun q hq => by
    rcases List.prefix_or_prefix_of_prefix hT hq with x | x
    · exact Or.inl x
    · exact Or.inr x)

theorem PrefixMod.mono {p p' : Path} {w w' : World} (h : PrefixMod p w w') (hp : p <+: p') : PrefixMod p' w w' :=
  Chg.mono h (fun _ f => f) (fun q hq => Or.inr (hq.trans hp))

/-- directories stay directories, present nodes stay present -/
def Kept (w w' : World) : Prop :=
  ∀ q, (isDir (find w q) = true → isDir (find w' q) = true) ∧ ((find w q).isSome = true → (find w' q).isSome = true)

theorem AncOK.kept {a b : Option Node} (h : AncOK a b) :
    (isDir a = true → isDir b = true) ∧ (a.isSome = true → b.isSome = true) := by
  refine ⟨fun _ => h.1, fun _ => ?_⟩
  have := h.1
  cases b with
  | none => simp [isDir] at this
  | some _ => rfl

theorem PrefixMod.kept {p : Path} {w w' : World} (h : PrefixMod p w w') : Kept w w' := by
  intro q
  rcases h q with e | f | ⟨_, k⟩
  · rw [e]; exact ⟨id, id⟩
  · exact f.elim
  · exact k.kept

theorem Kept.refl (w : World) : Kept w w := fun _ => ⟨id, id⟩
theorem Kept.trans {w w' w'' : World} (h1 : Kept w w') (h2 : Kept w' w'') : Kept w w'' :=
  fun q => ⟨fun h => (h2 q).1 ((h1 q).1 h), fun h => (h2 q).2 ((h1 q).2 h)⟩

theorem Kept.lexDir {w w' : World} (h : Kept w w') {d : Path} (hd : LexDir w d) : LexDir w' d :=
  ⟨hd.1, fun pre hp => (h pre).1 (hd.2 pre hp)⟩

/-- a step inside directory `par` whose changed entries are all at or below the target -/
theorem estep_confined {T par : Path} {S : List String} {w w' : World} (h : EStep par S w w')
    (hS : ∀ nm ∈ S, T <+: par ++ [nm]) (hpar : T <+: par ∨ (par <+: T ∧ isDir (find w' par) = true)) :
    Confined T w w' := by
  intro q
  by_cases hq : ∃ nm ∈ S, q = par ++ [nm]
  · obtain ⟨nm, hm, e⟩ := hq
    exact Or.inr (Or.inl (by rw [e]; exact hS nm hm))
  · have hq' : ∀ nm ∈ S, q ≠ par ++ [nm] := fun nm hm e => hq ⟨nm, hm, e⟩
    by_cases e : q = par
    · subst e
      rcases hpar with x | ⟨x, y⟩
      · exact Or.inr (Or.inl x)
      · exact Or.inr (Or.inr ⟨x, y, Or.inr h.parent⟩)
    · exact Or.inl (h.frame q hq' e)

/-- pure metadata change of the node at `p` -/
structure MetaOnly (p : Path) (w w' : World) : Prop where
  frame : ∀ q, q ≠ p → find w' q = find w q
  kind : (find w' p).map (·.kind) = (find w p).map (·.kind)

theorem MetaOnly.refl (p : Path) (w : World) : MetaOnly p w w := ⟨fun _ _ => rfl, rfl⟩
theorem MetaOnly.trans {p : Path} {w w' w'' : World} (h1 : MetaOnly p w w') (h2 : MetaOnly p w' w'') : MetaOnly p w w'' :=
  ⟨fun q hq => (h2.frame q hq).trans (h1.frame q hq), h2.kind.trans h1.kind⟩

theorem MetaOnly.kinds {p : Path} {w w' : World} (h : MetaOnly p w w') (q : Path) :
    (find w' q).map (·.kind) = (find w q).map (·.kind) := by
  by_cases e : q = p
  · subst e; exact h.kind
  · rw [h.frame q e]

theorem isDir_of_kind {a b : Option Node} (h : b.map (·.kind) = a.map (·.kind)) : isDir b = isDir a := by
  cases a <;> cases b <;> simp [isDir] at h ⊢
  rw [h]

theorem isLink_of_kind {a b : Option Node} (h : b.map (·.kind) = a.map (·.kind)) : isLink b = isLink a := by
  cases a <;> cases b <;> simp [isLink] at h ⊢
  rw [h]

theorem isSome_of_kind {a b : Option Node} (h : b.map (·.kind) = a.map (·.kind)) : b.isSome = a.isSome := by
  cases a <;> cases b <;> simp at h ⊢

theorem MetaOnly.kept {p : Path} {w w' : World} (h : MetaOnly p w w') : Kept w w' :=
  fun q => ⟨fun hd => by rw [isDir_of_kind (h.kinds q)]; exact hd, fun hs => by rw [isSome_of_kind (h.kinds q)]; exact hs⟩

theorem MetaOnly.confined {T p : Path} {w w' : World} (h : MetaOnly p w w') (hT : T <+: p) : Confined T w w' := by
  intro q
  by_cases e : q = p
  · subst e; exact Or.inr (Or.inl hT)
  · exact Or.inl (h.frame q e)

theorem pChmod_meta (w : World) (p : Path) (mode : Nat) : MetaOnly p w (pChmod w p mode).1 := by
  unfold pChmod
  cases hf : find w p with
  | none => exact MetaOnly.refl p w
  | some n =>
    refine ⟨fun q hq => ?_, ?_⟩
    · have h2 : ¬ p = q := fun e => hq e.symm
      simp [find_insert, h2]
    · simp [find_insert, hf]

theorem pUtimens_meta (w : World) (p : Path) (t : Int) : MetaOnly p w (pUtimens w p t).1 := by
  unfold pUtimens
  cases hf : find w p with
  | none => exact MetaOnly.refl p w
  | some n =>
    refine ⟨fun q hq => ?_, ?_⟩
    · have h2 : ¬ p = q := fun e => hq e.symm
      simp [find_insert, h2]
    · simp [find_insert, hf]

/-! ### MkdirAll -/

theorem noLink_of_prefixMod {p par : Path} {w w' : World} (h : PrefixMod p w w') (hn : NoLinkUpTo w par) :
    NoLinkUpTo w' par := by
  intro q hq
  rcases h q with e | f | ⟨_, k⟩
  · rw [e]; exact hn q hq
  · exact f.elim
  · have := k.1
    cases hf : find w' q with
    | none => rfl
    | some n => simp only [hf, isDir, beq_iff_eq] at this; simp [isLink, this]

theorem mkdir_prefixMod {w : World} (hroot : isDir (find w []) = true) (p : Path) (hs : ∀ c ∈ p, simple c = true)
    (hn : NoLinkUpTo w p.dropLast) (mode : Nat) : PrefixMod p w (mkdir w p mode).1 := by
  rcases List.eq_nil_or_concat p with e | ⟨par, nm, e⟩
  · subst e
    have : resolve w [] false = .ok [] := by unfold resolve walk; simp [walkSeg]
    have hsome : (find w []).isSome = true := by
      cases hf : find w [] with
      | none => simp [hf, isDir] at hroot
      | some _ => rfl
    simp [mkdir, withPath, this, pMkdir, hsome, Chg.refl, PrefixMod]
  · rw [List.concat_eq_append] at e
    subst e
    have hs1 : ∀ c ∈ par, simple c = true := fun c hc => hs c (by simp [hc])
    have hs2 : simple nm = true := hs nm (by simp)
    rw [List.dropLast_concat] at hn
    rcases resolve_dich hroot hs1 hn nm hs2 with ⟨e, he⟩ | hl
    · simp [mkdir, withPath, he, Chg.refl, PrefixMod]
    · rw [mkdir_entry hl nm hs2]
      unfold pMkdir
      split
      · exact Chg.refl _ _ _
      · rename_i hnone
        have hnone' : find w (par ++ [nm]) = none := by simpa using hnone
        simp only [List.dropLast_concat]
        intro q
        rw [find_insert_touch]
        by_cases h1 : q = par ++ [nm]
        · subst h1
          refine Or.inr (Or.inr ⟨List.prefix_refl _, ?_, Or.inl hnone'⟩)
          simp [isDir, dirNode]
        · by_cases h2 : q = par
          · subst h2
            have hd := hl.2 q (List.prefix_refl q)
            refine Or.inr (Or.inr ⟨List.prefix_append q [nm], ?_, Or.inr ?_⟩)
            · simp only [h1, if_false, if_true]; rw [isDir_clearM]; exact hd
            · simp only [h1, if_false, if_true]; unfold Eqv; cases find w q <;> simp [clearM]
          · simp [h1, h2]

theorem mkdirAllAux_spec (mode : Nat) : ∀ (fuel : Nat) (p : Path) (w : World),
    isDir (find w []) = true → (∀ c ∈ p, simple c = true) → NoLinkUpTo w p.dropLast →
    PrefixMod p w (mkdirAllAux w mode fuel p).1 := by
  intro fuel
  induction fuel with
  | zero => intro p w _ _ _; exact Chg.refl _ _ _
  | succ fuel ih =>
    intro p w hroot hs hn
    rw [mkdirAllAux]
    split
    · split <;> exact Chg.refl _ _ _
    · -- Stat failed: make the parent, then Mkdir
      have hdl : p.dropLast <+: p := List.dropLast_prefix p
      have h1 : PrefixMod p.dropLast w
          (if p.length > 1 then mkdirAllAux w mode fuel p.dropLast else (w, none)).1 := by
        split
        · exact ih p.dropLast w hroot (fun c hc => hs c ((List.dropLast_prefix p).subset hc))
            (fun q hq => hn q (hq.trans (List.dropLast_prefix _)))
        · exact Chg.refl _ _ _
      generalize (if p.length > 1 then mkdirAllAux w mode fuel p.dropLast else (w, none)) = r1 at h1
      have hroot1 : isDir (find r1.1 []) = true := (h1.kept []).1 hroot
      have h2 : PrefixMod p r1.1 (mkdir r1.1 p mode).1 :=
        mkdir_prefixMod hroot1 p hs (noLink_of_prefixMod h1 hn) mode
      have h12 : PrefixMod p w (mkdir r1.1 p mode).1 := (h1.mono hdl).trans h2
      simp only
      split
      · exact h1.mono hdl
      · split
        · exact h12
        · split
          · split <;> exact h12
          · exact h12

theorem mkdirAll_spec {w : World} (hroot : isDir (find w []) = true) (p : Path) (hs : ∀ c ∈ p, simple c = true)
    (hn : NoLinkUpTo w p.dropLast) (mode : Nat) : PrefixMod p w (mkdirAll w p mode).1 :=
  mkdirAllAux_spec mode _ p w hroot hs hn

/-- `extractDir`: only prefixes of `p` change; on success `p` is a directory reached through real directories -/
theorem extractDir_spec {w : World} (hroot : isDir (find w []) = true) (p : Path) (hs : ∀ c ∈ p, simple c = true)
    (hn : NoLinkUpTo w p.dropLast) :
    PrefixMod p w (extractDir w p).1 ∧ ((extractDir w p).2 = none → p ≠ [] → LexDir (extractDir w p).1 p) := by
  have h1 := mkdirAll_spec hroot p hs hn 0o755
  unfold extractDir
  generalize mkdirAll w p 0o755 = r at h1
  have hroot1 : isDir (find r.1 []) = true := (h1.kept []).1 hroot
  have hn1 := noLink_of_prefixMod h1 hn
  simp only
  cases hr : r.2 with
  | some e => exact ⟨h1, fun h => by simp at h⟩
  | none =>
    simp only
    cases hl : lstat r.1 p with
    | error e => exact ⟨h1, fun h => by simp at h⟩
    | ok n =>
      simp only
      by_cases hk : (n.kind != Kind.dir) = true
      · simp only [hk, if_true]; exact ⟨h1, fun h => by simp at h⟩
      · simp only [hk, Bool.false_eq_true, if_false]
        refine ⟨h1, fun _ hne => ?_⟩
        rcases List.eq_nil_or_concat p with e | ⟨par, nm, e⟩
        · exact absurd e hne
        · rw [List.concat_eq_append] at e
          subst e
          rw [List.dropLast_concat] at hn1
          have hs1 : ∀ c ∈ par, simple c = true := fun c hc => hs c (by simp [hc])
          have hs2 : simple nm = true := hs nm (by simp)
          rcases resolve_dich hroot1 hs1 hn1 nm hs2 with ⟨e, he⟩ | hlx
          · simp [lstat, he] at hl
          · rw [lstat_entry hlx nm hs2] at hl
            refine ⟨hs, fun pre hp => ?_⟩
            rcases List.prefix_concat_iff.mp hp with e | e
            · subst e
              cases hf : find r.1 (par ++ [nm]) with
              | none => simp [hf] at hl
              | some m =>
                simp only [hf, Except.ok.injEq] at hl; subst hl
                have : m.kind = Kind.dir := by simpa using hk
                simp [isDir, this]
            · exact hlx.2 pre e

/-! ### operations on an entry `par ++ [nm]` of a real directory `par` -/

theorem MetaOnly.estep {par : Path} {nm : String} {w w' : World} (h : MetaOnly (par ++ [nm]) w w') :
    EStep par [nm] w w' :=
  ⟨fun q hq _ => h.frame q (hq nm (by simp)), Eqv.of_eq (h.frame par (ne_concat par nm))⟩

theorem MetaOnly.lexDir {p : Path} {w w' : World} (h : MetaOnly p w w') {d : Path} (hd : LexDir w d) : LexDir w' d :=
  h.kept.lexDir hd

theorem updateMeta_spec {w : World} {par : Path} (hl : LexDir w par) (nm : String) (hs : simple nm = true)
    (hnl : isLink (find w (par ++ [nm])) = false) (mode : Nat) (mtime : Int) :
    MetaOnly (par ++ [nm]) w (updateMeta w (par ++ [nm]) mode mtime).1 := by
  unfold updateMeta
  rw [utimens_entry hl nm hs]
  have h1 := pUtimens_meta w (par ++ [nm]) (tsSec mtime)
  generalize pUtimens w (par ++ [nm]) (tsSec mtime) = r at h1
  simp only
  split
  · exact h1
  · split
    · exact h1
    · have hnl1 : isLink (find r.1 (par ++ [nm])) = false := by rw [isLink_of_kind h1.kind]; exact hnl
      rw [chmod_entry (h1.lexDir hl) nm hs hnl1]
      exact h1.trans (pChmod_meta _ _ _)

theorem applyDeferred_spec {w : World} {par : Path} (hl : LexDir w par) (nm : String) (hs : simple nm = true)
    (d : Deferred) (hd : d.path = par ++ [nm]) : MetaOnly (par ++ [nm]) w (applyDeferred true w d).1 := by
  unfold applyDeferred
  simp only [if_true, hd]
  rw [lstat_entry hl nm hs]
  cases hf : find w (par ++ [nm]) with
  | none => exact MetaOnly.refl _ _
  | some n =>
    simp only
    split
    · exact MetaOnly.refl _ _
    · rename_i hk
      have : n.kind = Kind.dir := by simpa using hk
      exact updateMeta_spec hl nm hs (by simp [hf, isLink, this]) _ _

/-- facts about an operation that may replace the entry `par ++ [nm]` -/
structure OpOK (par : Path) (nm : String) (w w' : World) (ok : Bool) : Prop where
  step : EStep par [nm] w w'
  busy : isDir (find w (par ++ [nm])) = true → hasChild w (par ++ [nm]) = true → w' = w ∧ ok = false
  present : ok = true → (find w' (par ++ [nm])).isSome = true

theorem removeIfExists_spec {w : World} {par : Path} (hl : LexDir w par) (nm : String) (hs : simple nm = true) :
    ((removeIfExists w (par ++ [nm])).2 ≠ none → (removeIfExists w (par ++ [nm])).1 = w) ∧
    ((removeIfExists w (par ++ [nm])).2 = none →
        find (removeIfExists w (par ++ [nm])).1 (par ++ [nm]) = none ∧
        EStep par [nm] w (removeIfExists w (par ++ [nm])).1 ∧
        ¬ (isDir (find w (par ++ [nm])) = true ∧ hasChild w (par ++ [nm]) = true)) := by
  unfold removeIfExists
  rw [remove_entry hl nm hs]
  unfold pRemove
  cases hf : find w (par ++ [nm]) with
  | none => simp [hf, EStep.refl, isDir]
  | some n =>
    have hne : (par ++ [nm] == []) = false := by simp
    simp only [hne, Bool.false_eq_true, if_false, List.dropLast_concat]
    by_cases hb : (n.kind == Kind.dir && hasChild w (par ++ [nm])) = true
    · simp [hb]
    · simp only [hb, if_false]
      refine ⟨fun h => by simp at h, fun _ => ⟨find_erase_touch w par nm _ |>.trans (by simp), estep_erase_touch w par nm, ?_⟩⟩
      rintro ⟨h1, h2⟩
      apply hb
      simp only [isDir] at h1
      simp [h1, h2]

theorem extractSymlink_spec {w : World} {par : Path} (hl : LexDir w par) (nm : String) (hs : simple nm = true)
    (e : Entry) :
    OpOK par nm w (extractSymlink w (par ++ [nm]) e).1 ((extractSymlink w (par ++ [nm]) e).2 == none) := by
  obtain ⟨r1, r2⟩ := removeIfExists_spec hl nm hs
  unfold extractSymlink
  generalize removeIfExists w (par ++ [nm]) = r at r1 r2
  simp only
  cases hr : r.2 with
  | some err =>
    have := r1 (by simp [hr])
    simp only [this]
    exact ⟨EStep.refl _ _ _, fun _ _ => ⟨rfl, by simp⟩, fun h => by simp at h⟩
  | none =>
    obtain ⟨hnone, hstep, hnb⟩ := r2 hr
    have hl1 := hstep.lexDir hl (List.prefix_refl par)
    simp only
    rw [symlink_entry hl1 nm hs]
    unfold pSymlink
    by_cases ht : (e.linkname == [] || e.linkname == [""]) = true
    · simp only [ht, if_true]
      exact ⟨hstep, fun h1 h2 => absurd ⟨h1, h2⟩ hnb, fun h => by simp at h⟩
    · simp only [ht, Bool.false_eq_true, if_false, hnone, Option.isSome_none, List.dropLast_concat]
      have hs2 := estep_insert_touch r.1 par nm (linkNode e.linkname)
      have hf2 := find_insert_touch r.1 par nm (linkNode e.linkname) (par ++ [nm])
      generalize touch (AMap.insert r.1 (par ++ [nm]) (linkNode e.linkname)) par = w2 at hs2 hf2
      have hl2 := hs2.lexDir hl1 (List.prefix_refl par)
      rw [utimens_entry hl2 nm hs]
      have h3 := pUtimens_meta w2 (par ++ [nm]) (tsSec e.mtime)
      refine ⟨((hstep.trans hs2).trans h3.estep).mono (by simp), fun h1 h2 => absurd ⟨h1, h2⟩ hnb, fun _ => ?_⟩
      rw [isSome_of_kind h3.kind, hf2]; simp

theorem extractFile_spec (tmp : String) (hst : simple tmp = true) {w : World} {par : Path} (hl : LexDir w par)
    (nm : String) (hs : simple nm = true) (e : Entry) :
    OpOK par nm w (extractFile tmp w (par ++ [nm]) e).1 ((extractFile tmp w (par ++ [nm]) e).2 == none) ∧
    ((extractFile tmp w (par ++ [nm]) e).2 = none →
        LexDir (extractFile tmp w (par ++ [nm]) e).1 par ∧
        isLink (find (extractFile tmp w (par ++ [nm]) e).1 (par ++ [nm])) = false) := by
  obtain ⟨r1, r2⟩ := removeIfExists_spec hl nm hs
  unfold extractFile
  generalize removeIfExists w (par ++ [nm]) = r at r1 r2
  simp only [List.dropLast_concat]
  cases hr : r.2 with
  | some err =>
    have := r1 (by simp [hr])
    simp only [this]
    exact ⟨⟨EStep.refl _ _ _, fun _ _ => ⟨rfl, by simp⟩, fun h => by simp at h⟩, fun h => by simp at h⟩
  | none =>
    obtain ⟨hnone, hstep, hnb⟩ := r2 hr
    have hbusy : isDir (find w (par ++ [nm])) = true → hasChild w (par ++ [nm]) = true →
        ∀ (w' : World) (b : Bool), w' = w ∧ b = false :=
      fun h1 h2 => absurd ⟨h1, h2⟩ hnb
    have hl1 := hstep.lexDir hl (List.prefix_refl par)
    simp only
    rw [create_entry hl1 tmp hst]
    unfold pCreate
    by_cases hex : (find r.1 (par ++ [tmp])).isSome = true
    · simp only [hex, if_true]
      exact ⟨⟨hstep, fun h1 h2 => hbusy h1 h2 _ _, fun h => by simp at h⟩, fun h => by simp at h⟩
    · simp only [hex, Bool.false_eq_true, if_false, List.dropLast_concat]
      have htnone : find r.1 (par ++ [tmp]) = none := by simpa using hex
      have hs1 := estep_insert_touch r.1 par tmp (fileNode 0o600)
      have hf1 := find_insert_touch r.1 par tmp (fileNode 0o600) (par ++ [tmp])
      generalize touch (AMap.insert r.1 (par ++ [tmp]) (fileNode 0o600)) par = w1 at hs1 hf1
      simp only [if_true] at hf1
      have hl2 := hs1.lexDir hl1 (List.prefix_refl par)
      -- the copy
      have hcopy : ∃ w2 n2, (if e.data.isEmpty = true then (w1, none) else append w1 (par ++ [tmp]) e.data) = (w2, none) ∧
          EStep par [tmp] w1 w2 ∧ find w2 (par ++ [tmp]) = some n2 ∧ n2.kind = Kind.file := by
        by_cases hd : e.data.isEmpty = true
        · exact ⟨w1, fileNode 0o600, by simp [hd], EStep.refl _ _ _, hf1, rfl⟩
        · refine ⟨AMap.insert w1 (par ++ [tmp]) { fileNode 0o600 with data := (fileNode 0o600).data ++ e.data, mtime := none },
            { fileNode 0o600 with data := (fileNode 0o600).data ++ e.data, mtime := none }, ?_, estep_insert _ _ _ _,
            by simp [find_insert], rfl⟩
          simp only [hd, Bool.false_eq_true, if_false]
          rw [append_entry hl2 tmp hst (by simp [hf1, isLink, fileNode])]
          simp [pAppend, hf1, fileNode]
      obtain ⟨w2, n2, hc, hs2, hf2, hk2⟩ := hcopy
      rw [hc]
      simp only
      have hl3 := hs2.lexDir hl2 (List.prefix_refl par)
      rw [rename_entry hl3 tmp hst nm hs]
      by_cases htn : tmp = nm
      · subst htn
        have : pRename w2 (par ++ [tmp]) (par ++ [tmp]) = (w2, none) := by simp [pRename, hf2]
        simp only [this]
        refine ⟨⟨((hstep.trans hs1).trans hs2).mono (by simp), fun h1 h2 => hbusy h1 h2 _ _, fun _ => by simp [hf2]⟩,
          fun _ => ⟨hl3, by simp [hf2, isLink, hk2]⟩⟩
      · have hp2 : find w2 (par ++ [nm]) = none := by
          have hne : par ++ [nm] ≠ par ++ [tmp] := by simpa using fun h => htn h.symm
          rw [hs2.frame _ (by simpa using hne) (ne_concat par nm).symm,
              hs1.frame _ (by simpa using hne) (ne_concat par nm).symm]
          exact hnone
        rw [pRename_file_absent w2 par tmp nm htn n2 hf2 (by simp [hk2]) hp2]
        simp only
        have hf3 := find_rename_touch w2 par tmp nm n2
        generalize touch (touch (AMap.insert (AMap.erase w2 (par ++ [tmp])) (par ++ [nm]) n2) par) par = w3 at hf3
        have hstep3 : EStep par [nm] w w3 := by
          refine ⟨fun q hq hp => ?_, ?_⟩
          · have hqn := hq nm (by simp)
            rw [hf3]
            simp only [hqn, hp, if_false]
            by_cases hqt : q = par ++ [tmp]
            · subst hqt
              simp only [if_true]
              rw [← htnone]
              exact hstep.frame _ (by simpa using hqn) hp
            · simp only [hqt, if_false]
              rw [hs2.frame q (by simpa using hqt) hp, hs1.frame q (by simpa using hqt) hp, hstep.frame q hq hp]
          · have h123 := ((hstep.trans hs1).trans hs2).parent
            refine h123.trans ?_
            rw [hf3]
            simp only [(ne_concat par nm), (ne_concat par tmp), if_false, if_true]
            unfold Eqv; cases find w2 par <;> simp [clearM]
        have hp3 : find w3 (par ++ [nm]) = some n2 := by rw [hf3]; simp
        refine ⟨⟨hstep3, fun h1 h2 => hbusy h1 h2 _ _, fun _ => by simp [hp3]⟩,
          fun _ => ⟨hstep3.lexDir hl (List.prefix_refl par), by simp [hp3, isLink, hk2]⟩⟩

theorem extractReg_spec (tmp : String) (hst : simple tmp = true) {w : World} {par : Path} (hl : LexDir w par)
    (nm : String) (hs : simple nm = true) (e : Entry) :
    OpOK par nm w (extractReg tmp w (par ++ [nm]) e).1 ((extractReg tmp w (par ++ [nm]) e).2 == none) := by
  obtain ⟨h1, h2⟩ := extractFile_spec tmp hst hl nm hs e
  unfold extractReg
  generalize extractFile tmp w (par ++ [nm]) e = r at h1 h2
  simp only
  cases hr : r.2 with
  | some err => simpa [hr] using h1
  | none =>
    simp only
    obtain ⟨hl1, hnl⟩ := h2 hr
    have hm := updateMeta_spec hl1 nm hs hnl e.mode e.mtime
    simp only [hr, beq_self_eq_true] at h1
    refine ⟨(h1.step.trans hm.estep).mono (by simp), fun a b => ?_, fun _ => ?_⟩
    · exact absurd (h1.busy a b).2 (by simp)
    · rw [isSome_of_kind hm.kind]; exact h1.present rfl

/-! ### when `par` is not a real directory nothing happens -/

theorem withPath_fail {w : World} {p : Path} {f : Path → FS.Res} (h : ∃ e, resolve w p false = .error e) :
    (withPath w p false f).1 = w := by
  obtain ⟨e, he⟩ := h
  simp [withPath, he]

theorem removeIfExists_fail {w : World} {p : Path} (h : ∃ e, resolve w p false = .error e) :
    (removeIfExists w p).1 = w := by
  obtain ⟨e, he⟩ := h
  unfold removeIfExists remove
  simp only [withPath, he]
  split <;> rfl

theorem extractSymlink_fail {w : World} {par : Path} (hroot : isDir (find w []) = true)
    (hs : ∀ c ∈ par, simple c = true) (hn : NoLinkUpTo w par) (hnl : ¬ LexDir w par)
    (nm : String) (hnm : simple nm = true) (e : Entry) : (extractSymlink w (par ++ [nm]) e).1 = w := by
  have hf := resolve_fails hroot hs hn hnl nm hnm
  have h1 := removeIfExists_fail (w := w) hf
  unfold extractSymlink
  generalize removeIfExists w (par ++ [nm]) = r at h1
  simp only
  split
  · exact h1
  · obtain ⟨err, he⟩ := hf
    have : symlink r.1 e.linkname (par ++ [nm]) = (r.1, some err) := by
      simp [symlink, withPath, h1, he]
    simp only [this]; exact h1

theorem extractFile_fail (tmp : String) (hst : simple tmp = true) {w : World} {par : Path} (hroot : isDir (find w []) = true)
    (hs : ∀ c ∈ par, simple c = true) (hn : NoLinkUpTo w par) (hnl : ¬ LexDir w par)
    (nm : String) (hnm : simple nm = true) (e : Entry) :
    (extractFile tmp w (par ++ [nm]) e).1 = w ∧ (extractFile tmp w (par ++ [nm]) e).2 ≠ none := by
  have hf := resolve_fails hroot hs hn hnl nm hnm
  obtain ⟨err, he⟩ := resolve_fails hroot hs hn hnl tmp hst
  have h1 := removeIfExists_fail (w := w) hf
  unfold extractFile
  generalize removeIfExists w (par ++ [nm]) = r at h1
  simp only [List.dropLast_concat]
  cases hr : r.2 with
  | some e1 => exact ⟨h1, by simp⟩
  | none =>
    have : create r.1 (par ++ [tmp]) 0o600 = (r.1, some err) := by
      simp [create, withPath, h1, he]
    simp only [this]
    exact ⟨h1, by simp⟩

theorem extractReg_fail (tmp : String) (hst : simple tmp = true) {w : World} {par : Path} (hroot : isDir (find w []) = true)
    (hs : ∀ c ∈ par, simple c = true) (hn : NoLinkUpTo w par) (hnl : ¬ LexDir w par)
    (nm : String) (hnm : simple nm = true) (e : Entry) : (extractReg tmp w (par ++ [nm]) e).1 = w := by
  obtain ⟨h1, h2⟩ := extractFile_fail tmp hst hroot hs hn hnl nm hnm e
  unfold extractReg
  generalize extractFile tmp w (par ++ [nm]) e = r at h1 h2
  simp only
  cases hr : r.2 with
  | some e1 => exact h1
  | none => exact absurd hr h2

/-- replacing the entry `par ++ [nm]` (file or symlink entry of the archive): confined as soon as that
entry is at or below the target, whatever `par` is -/
theorem replace_confined (tmp : String) (hst : simple tmp = true) {T : Path} {w : World} {par : Path}
    (hroot : isDir (find w []) = true) (hs : ∀ c ∈ par, simple c = true) (hn : NoLinkUpTo w par)
    (nm : String) (hnm : simple nm = true) (hT : T <+: par ++ [nm]) (e : Entry) (reg : Bool) :
    Confined T w (if reg then extractReg tmp w (par ++ [nm]) e else extractSymlink w (par ++ [nm]) e).1 := by
  by_cases hl : LexDir w par
  · have hop : ∃ ok, OpOK par nm w (if reg then extractReg tmp w (par ++ [nm]) e else extractSymlink w (par ++ [nm]) e).1 ok := by
      cases reg
      · exact ⟨_, extractSymlink_spec hl nm hnm e⟩
      · exact ⟨_, extractReg_spec tmp hst hl nm hnm e⟩
    obtain ⟨ok, hop⟩ := hop
    refine estep_confined hop.step (fun x hx => by simp at hx; subst hx; exact hT) ?_
    rcases List.prefix_concat_iff.mp hT with e1 | e1
    · right
      refine ⟨by rw [e1]; exact List.prefix_append par [nm], ?_⟩
      exact (hop.step.lexDir hl (List.prefix_refl par)).2 par (List.prefix_refl par)
    · exact Or.inl e1
  · have : (if reg then extractReg tmp w (par ++ [nm]) e else extractSymlink w (par ++ [nm]) e).1 = w := by
      cases reg
      · exact extractSymlink_fail hroot hs hn hl nm hnm e
      · exact extractReg_fail tmp hst hroot hs hn hl nm hnm e
    rw [this]; exact Chg.refl _ _ _

/-! ### the loop invariant -/

/-- a deferred directory is below the target and reached from it through real directories -/
structure DefOK (T : Path) (w : World) (d : Deferred) : Prop where
  below : T <+: d.path
  simple : ∀ c ∈ d.path, simple c = true
  chain : ∀ q, T <+: q → q <+: d.path → q ≠ d.path → isDir (find w q) = true

structure LInv (T : Path) (w0 w : World) (ds : List Deferred) : Prop where
  conf : Confined T w0 w
  lexT : LexDir w T
  defs : ∀ d ∈ ds, DefOK T w d

def Present (w : World) (ds : List Deferred) : Prop := ∀ d ∈ ds, (find w d.path).isSome = true

theorem DefOK.lexParent {T : Path} {w : World} {d : Deferred} (h : DefOK T w d) (hl : LexDir w T)
    {par : Path} {nm : String} (hd : d.path = par ++ [nm]) : LexDir w par := by
  refine ⟨fun c hc => h.simple c (by rw [hd]; simp [hc]), fun pre hp => ?_⟩
  have hpd : pre <+: d.path := by rw [hd]; exact hp.trans (List.prefix_append par [nm])
  rcases List.prefix_or_prefix_of_prefix h.below hpd with x | x
  · exact h.chain pre x hpd (by
      intro e; have := hp.length_le; rw [e, hd] at this; simp at this; omega)
  · exact hl.2 pre x

theorem LInv.of_kept {T : Path} {w0 w w' : World} {ds : List Deferred} (I : LInv T w0 w ds)
    (hc : Confined T w w') (hk : Kept w w') : LInv T w0 w' ds :=
  ⟨I.conf.trans hc, hk.lexDir I.lexT, fun d hd =>
    ⟨(I.defs d hd).below, (I.defs d hd).simple, fun q h1 h2 h3 => (hk q).1 ((I.defs d hd).chain q h1 h2 h3)⟩⟩

theorem Present.of_kept {w w' : World} {ds : List Deferred} (P : Present w ds) (hk : Kept w w') : Present w' ds :=
  fun d hd => (hk d.path).2 (P d hd)

theorem LInv.of_opOK {T : Path} {w0 w w' : World} {ds : List Deferred} (I : LInv T w0 w ds) (P : Present w ds)
    {par : Path} {nm : String} (hT : T <+: par) {ok : Bool} (h : OpOK par nm w w' ok) :
    LInv T w0 w' ds ∧ (ok = true → Present w' ds) := by
  have hkeep : ∀ d ∈ ds, ∀ q, T <+: q → q <+: d.path → q ≠ d.path → isDir (find w' q) = true := by
    intro d hd q h1 h2 h3
    have hdir := (I.defs d hd).chain q h1 h2 h3
    by_cases e : q = par ++ [nm]
    · -- the replaced entry lies strictly above a deferred directory: it is a non-empty directory, untouched
      obtain ⟨t, ht⟩ := h2
      cases t with
      | nil => simp at ht; exact absurd ht h3
      | cons c rest =>
        have hq' : q ++ [c] <+: d.path := ⟨rest, by rw [← ht]; simp⟩
        have hpres : (find w (q ++ [c])).isSome = true := by
          by_cases e2 : q ++ [c] = d.path
          · rw [e2]; exact P d hd
          · have := (I.defs d hd).chain (q ++ [c]) (h1.trans (List.prefix_append q [c])) hq' e2
            cases hf : find w (q ++ [c]) with
            | none => simp [hf, isDir] at this
            | some _ => rfl
        have hch : hasChild w q = true := (hasChild_iff w q).mpr ⟨c, hpres⟩
        have hdir' := hdir
        rw [e] at hdir' hch
        rw [(h.busy hdir' hch).1]; exact hdir
    · rw [(h.step.eqv q (by simpa using e)).isDir]; exact hdir
  refine ⟨⟨I.conf.trans (estep_confined h.step (fun x hx => by
      simp at hx; subst hx; exact hT.trans (List.prefix_append par [x])) (Or.inl hT)),
    h.step.lexDir I.lexT hT, fun d hd => ⟨(I.defs d hd).below, (I.defs d hd).simple, hkeep d hd⟩⟩, fun hok d hd => ?_⟩
  by_cases e : d.path = par ++ [nm]
  · rw [e]; exact h.present hok
  · rw [(h.step.eqv d.path (by simpa using e)).isSome]; exact P d hd

/-! ### outputPath, deferUpdate, the loop, doUpdates -/

theorem outputPath_spec {w : World} : ∀ (rel : List String) (cur p : Path), LexDir w cur →
    (∀ c ∈ rel, simple c = true) → outputPath w cur rel = .ok p →
    p = cur ++ rel ∧ (rel ≠ [] → LexDir w (cur ++ rel.dropLast))
  | [], cur, p, _, _, h => by simp [outputPath] at h; simp [h]
  | [c], cur, p, hl, _, h => by
    unfold outputPath at h
    split at h
    · simp at h; simp [h, hl]
    · simp at h
  | c :: c2 :: rest, cur, p, hl, hs, h => by
    unfold outputPath at h
    split at h
    · simp at h
    · have hsc : simple c = true := hs c (by simp)
      rw [lstat_entry hl c hsc] at h
      cases hf : find w (cur ++ [c]) with
      | none => simp [hf] at h
      | some n =>
        simp only [hf] at h
        split at h
        · simp at h
        · rename_i hk
          have hkd : n.kind = Kind.dir := by simpa using hk
          have hl' : LexDir w (cur ++ [c]) := by
            refine ⟨fun x hx => ?_, fun pre hp => ?_⟩
            · rcases List.mem_append.mp hx with h1 | h1
              · exact hl.1 x h1
              · simp at h1; subst h1; exact hsc
            · rcases List.prefix_concat_iff.mp hp with e | e
              · subst e; simp [hf, isDir, hkd]
              · exact hl.2 pre e
          obtain ⟨e1, e2⟩ := outputPath_spec (c2 :: rest) (cur ++ [c]) p hl' (fun x hx => hs x (by simp [hx])) h
          refine ⟨by simp [e1], fun _ => ?_⟩
          have := e2 (by simp)
          simpa [List.dropLast_cons_cons] using this

theorem applyDeferred_inv {T : Path} (hT : T ≠ []) {w0 w : World} {ds : List Deferred} (I : LInv T w0 w ds)
    (m : Deferred) (hm : DefOK T w m) :
    LInv T w0 (applyDeferred true w m).1 ds ∧ Kept w (applyDeferred true w m).1 := by
  have hne : m.path ≠ [] := by
    intro e; have := hm.below; rw [e] at this; simp at this; exact hT this
  rcases List.eq_nil_or_concat m.path with e | ⟨par, nm, e⟩
  · exact absurd e hne
  · rw [List.concat_eq_append] at e
    have hl := hm.lexParent I.lexT e
    have hmeta := applyDeferred_spec hl nm (hm.simple nm (by rw [e]; simp)) m e
    exact ⟨I.of_kept (hmeta.confined (by rw [← e]; exact hm.below)) hmeta.kept, hmeta.kept⟩

theorem deferUpdate_inv {T : Path} (hT : T ≠ []) {w0 w : World} {ds : List Deferred} (I : LInv T w0 w ds)
    (P : Present w ds) (p : Path) (hp : T <+: p) (hlp : LexDir w p) (e : Entry) :
    LInv T w0 (deferUpdate true w ds p e).1.1 (deferUpdate true w ds p e).2 ∧
    ((deferUpdate true w ds p e).1.2 = none → Present (deferUpdate true w ds p e).1.1 (deferUpdate true w ds p e).2) := by
  have newOK : ∀ w', Kept w w' → DefOK T w' { path := p, mode := e.mode, mtime := e.mtime } := fun w' hk =>
    ⟨hp, hlp.1, fun q _ h2 _ => (hk q).1 (hlp.2 q h2)⟩
  have newP : ∀ w', Kept w w' → (find w' p).isSome = true := fun w' hk => by
    apply (hk p).2
    have := hlp.2 p (List.prefix_refl p)
    cases hf : find w p with
    | none => simp [hf, isDir] at this
    | some _ => rfl
  have pushOK : ∀ (w' : World) (ds' : List Deferred), LInv T w0 w' ds' → Present w' ds' → Kept w w' →
      LInv T w0 w' ({ path := p, mode := e.mode, mtime := e.mtime } :: ds') ∧
      Present w' ({ path := p, mode := e.mode, mtime := e.mtime } :: ds') := by
    intro w' ds' I' P' hk
    refine ⟨⟨I'.conf, I'.lexT, fun d hd => ?_⟩, fun d hd => ?_⟩
    · rcases List.mem_cons.mp hd with e1 | e1
      · rw [e1]; exact newOK w' hk
      · exact I'.defs d e1
    · rcases List.mem_cons.mp hd with e1 | e1
      · rw [e1]; exact newP w' hk
      · exact P' d e1
  unfold deferUpdate
  cases ds with
  | nil =>
    simp only
    have := pushOK w [] I P (Kept.refl w)
    exact ⟨this.1, fun _ => this.2⟩
  | cons m rest =>
    simp only
    split
    · obtain ⟨I1, K1⟩ := applyDeferred_inv hT I m (I.defs m (by simp))
      generalize applyDeferred true w m = r at I1 K1
      cases hr : r.2 with
      | some err => simp only; exact ⟨I1, fun h => by simp at h⟩
      | none =>
        simp only
        have I1' : LInv T w0 r.1 rest := ⟨I1.conf, I1.lexT, fun d hd => I1.defs d (by simp [hd])⟩
        have P1' : Present r.1 rest := fun d hd => (P.of_kept K1) d (by simp [hd])
        have := pushOK r.1 rest I1' P1' K1
        exact ⟨this.1, fun _ => this.2⟩
    · have := pushOK w (m :: rest) I P (Kept.refl w)
      exact ⟨this.1, fun _ => this.2⟩

theorem doUpdates_inv {T : Path} (hT : T ≠ []) {w0 : World} : ∀ (ds : List Deferred) (w : World),
    LInv T w0 w ds → Confined T w0 (doUpdates true w ds)
  | [], w, I => I.conf
  | d :: ds, w, I => by
    unfold doUpdates
    obtain ⟨I1, _⟩ := applyDeferred_inv hT I d (I.defs d (by simp))
    generalize applyDeferred true w d = r at I1
    simp only
    split
    · exact I1.conf
    · exact doUpdates_inv hT ds r.1 ⟨I1.conf, I1.lexT, fun x hx => I1.defs x (by simp [hx])⟩

theorem stepEntry_inv (tmp : String) (hst : simple tmp = true) {T : Path} (hT : T ≠ []) (rootName : String)
    {w0 : World} (s : St) (I : LInv T w0 s.w s.ds) (P : Present s.w s.ds) (e : Entry) :
    LInv T w0 (stepEntry true tmp T rootName s e).w (stepEntry true tmp T rootName s e).ds ∧
    ((stepEntry true tmp T rootName s e).err = false →
      Present (stepEntry true tmp T rootName s e).w (stepEntry true tmp T rootName s e).ds) := by
  unfold stepEntry
  split
  · exact ⟨I, fun h => by simp at h⟩
  split
  · exact ⟨I, fun h => by simp at h⟩
  · rename_i hv
    split
    · exact ⟨I, fun h => by simp at h⟩
    · simp only
      have hvalid : ∀ c ∈ e.name, simple c = true := by simpa [validTarPath] using hv
      have hrel : ∀ c ∈ e.name.tail, simple c = true := fun c hc => hvalid c (List.mem_of_mem_tail hc)
      cases ho : outputPath s.w T e.name.tail with
      | error _ => exact ⟨I, fun h => by simp at h⟩
      | ok p =>
        simp only
        split
        · exact ⟨I, fun h => by simp at h⟩
        · rename_i hne
          have hrne : e.name.tail ≠ [] := by
            intro h0; apply hne; simp [h0]
          obtain ⟨hp, hlpar⟩ := outputPath_spec _ T p I.lexT hrel ho
          have hlpar := hlpar hrne
          obtain ⟨nm, hnm⟩ : ∃ nm, e.name.tail = e.name.tail.dropLast ++ [nm] :=
            ⟨e.name.tail.getLast hrne, (List.dropLast_concat_getLast hrne).symm⟩
          have hpar : p = (T ++ e.name.tail.dropLast) ++ [nm] := by rw [hp, List.append_assoc, ← hnm]
          have hsnm : simple nm = true := hrel nm (by rw [hnm]; simp)
          have hTpar : T <+: T ++ e.name.tail.dropLast := List.prefix_append _ _
          have hTp : T <+: p := by rw [hp]; exact List.prefix_append _ _
          have hsp : ∀ c ∈ p, simple c = true := by
            intro c hc; rw [hp] at hc
            rcases List.mem_append.mp hc with h1 | h1
            · exact I.lexT.1 c h1
            · exact hrel c h1
          cases ht : e.typ with
          | other => exact ⟨I, fun h => by simp at h⟩
          | bad => exact ⟨I, fun h => by simp at h⟩
          | reg =>
            simp only
            rw [hpar]
            have := I.of_opOK P hTpar (extractReg_spec tmp hst hlpar nm hsnm e)
            refine ⟨this.1, fun herr => this.2 ?_⟩
            cases hx : (extractReg tmp s.w (T ++ e.name.tail.dropLast ++ [nm]) e).2 with
            | none => simp
            | some _ => simp only [List.append_assoc] at hx herr; simp [hx] at herr
          | symlink =>
            simp only
            rw [hpar]
            have := I.of_opOK P hTpar (extractSymlink_spec hlpar nm hsnm e)
            refine ⟨this.1, fun herr => this.2 ?_⟩
            cases hx : (extractSymlink s.w (T ++ e.name.tail.dropLast ++ [nm]) e).2 with
            | none => simp
            | some _ => simp only [List.append_assoc] at hx herr; simp [hx] at herr
          | dir =>
            simp only
            have hroot : isDir (find s.w []) = true := I.lexT.2 [] (List.nil_prefix)
            have hnl : NoLinkUpTo s.w p.dropLast := by
              rw [hpar, List.dropLast_concat]; exact hlpar.noLink
            obtain ⟨hpm, hok⟩ := extractDir_spec hroot p hsp hnl
            generalize extractDir s.w p = r at hpm hok
            have I1 : LInv T w0 r.1 s.ds := I.of_kept (hpm.confined hTp) hpm.kept
            have P1 : Present r.1 s.ds := P.of_kept hpm.kept
            cases hr : r.2 with
            | some _ => exact ⟨I1, fun h => by simp at h⟩
            | none =>
              simp only
              have hlp : LexDir r.1 p := hok hr (by rw [hpar]; simp)
              have := deferUpdate_inv hT I1 P1 p hTp hlp e
              generalize deferUpdate true r.1 s.ds p e = r2 at this
              obtain ⟨⟨w2, e2⟩, ds2⟩ := r2
              refine ⟨this.1, fun herr => this.2 ?_⟩
              cases e2 with
              | none => rfl
              | some _ => simp at herr

theorem loopEntries_inv (tmp : String) (hst : simple tmp = true) {T : Path} (hT : T ≠ []) (rootName : String)
    {w0 : World} : ∀ (es : List Entry) (s : St), LInv T w0 s.w s.ds → Present s.w s.ds →
    LInv T w0 (loopEntries true tmp T rootName s es).w (loopEntries true tmp T rootName s es).ds
  | [], s, I, _ => I
  | e :: es, s, I, P => by
    unfold loopEntries
    obtain ⟨I1, P1⟩ := stepEntry_inv tmp hst hT rootName s I P e
    generalize stepEntry true tmp T rootName s e = s' at I1 P1
    simp only
    split
    · exact I1
    · rename_i herr
      exact loopEntries_inv tmp hst hT rootName es s' I1 (P1 (by simpa using herr))

/-- first entry of the archive is a file or a symlink (the "single object" archives) -/
theorem c38_root_entry (tmp : String) (htmp : simple tmp = true) (w : World) (T : Path) (h : Entry) (rest : List Entry)
    (hroot : isDir (find w []) = true) (hT : T ≠ []) (hsT : ∀ c ∈ T, simple c = true)
    (hanc : NoLinkUpTo w T.dropLast) (hrn : simple (h.name.headD "") = true) (reg : Bool)
    (hreg : (h.typ == EType.reg) = reg) :
    Confined T w
      (let probe : Except Errno Bool :=
        match lstat w T with
        | .error e => if e == Errno.noent then .ok false else .error e
        | .ok n => .ok (n.kind == Kind.dir)
      match probe with
      | .error _ => (w, true)
      | .ok rootIsDir =>
        if rootIsDir && !validComponent (h.name.headD "") then (w, true)
        else
          let p := if rootIsDir then T ++ [h.name.headD ""] else T
          let r := if h.typ == EType.reg then extractReg tmp w p h else extractSymlink w p h
          match r.2 with
          | some _ => (r.1, true)
          | none => (r.1, !rest.isEmpty)).1 := by
  obtain ⟨par0, nm0, eT⟩ : ∃ par0 nm0, T = par0 ++ [nm0] := by
    rcases List.eq_nil_or_concat T with e | ⟨a, b, e⟩
    · exact absurd e hT
    · exact ⟨a, b, by rw [e, List.concat_eq_append]⟩
  have hs0 : ∀ c ∈ par0, simple c = true := fun c hc => hsT c (by rw [eT]; simp [hc])
  have hsn0 : simple nm0 = true := hsT nm0 (by rw [eT]; simp)
  have hanc0 : NoLinkUpTo w par0 := by rw [eT, List.dropLast_concat] at hanc; exact hanc
  -- extraction at the target itself
  have hAtT : Confined T w (if reg then extractReg tmp w T h else extractSymlink w T h).1 := by
    have := replace_confined tmp htmp (T := T) hroot hs0 hanc0 nm0 hsn0 (by rw [eT]; exact List.prefix_refl _) h reg
    rw [← eT] at this; exact this
  simp only [hreg]
  cases hl : lstat w T with
  | error e =>
    simp only
    by_cases hne : (e == Errno.noent) = true
    · simp only [hne, if_true, Bool.false_and, Bool.false_eq_true, if_false]
      split <;> exact hAtT
    · simp only [hne, Bool.false_eq_true, if_false]
      exact Chg.refl _ _ _
  | ok n =>
    simp only
    by_cases hk : (n.kind == Kind.dir) = true
    · simp only [hk, Bool.true_and, if_true]
      split
      · exact Chg.refl _ _ _
      · -- the target is an existing directory: extract into it under the root name
        have hlT : LexDir w T := by
          rcases resolve_dich hroot hs0 hanc0 nm0 hsn0 with ⟨e, he⟩ | hl0
          · rw [eT] at hl; simp [lstat, he] at hl
          · rw [eT, lstat_entry hl0 nm0 hsn0] at hl
            refine ⟨hsT, fun pre hp => ?_⟩
            rw [eT] at hp
            rcases List.prefix_concat_iff.mp hp with e | e
            · subst e
              cases hf : find w (par0 ++ [nm0]) with
              | none => simp [hf] at hl
              | some m =>
                simp only [hf, Except.ok.injEq] at hl; subst hl
                have : m.kind = Kind.dir := by simpa using hk
                simp [isDir, this]
            · exact hl0.2 pre e
        have := replace_confined tmp htmp (T := T) hroot hsT hlT.noLink (h.name.headD "") hrn
          (List.prefix_append T _) h reg
        split <;> exact this
    · simp only [hk, Bool.false_and, Bool.false_eq_true, if_false]
      split <;> exact hAtT

end C38
