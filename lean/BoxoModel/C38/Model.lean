import BoxoModel.Lib.FS
/-!
# C38 — model of `tar.Extractor.Extract` (`/repo/tar/extractor.go`, `sanitize.go`, `files/meta*.go`) on `Lib.FS`

An archive is the list of headers `archive/tar.Reader` yields, with `Name` and `Linkname` already split
at `/` (Go `strings.Split`, done by the driver).  Every file-system call of the Go code is the
corresponding OS-level operation of `Lib.FS` on the full path (`target ++ …`), so symbolic links are
followed exactly where the kernel follows them; nothing in this file knows where the target ends.

`fixed = true` is the code after the `fix:` commit (a deferred directory update is applied only if
`os.Lstat` still reports a directory); `fixed = false` the code before (used by the counterexample).

Parameters: `tmp` — the name `os.CreateTemp(dir, "")` picks (any ordinary name; if it is taken the
model reports an error where the real code would try another name).
Not reachable through `archive/tar` and therefore absent: a zero `ModTime` (`time.Unix(0,0)` is not
`IsZero`), NUL bytes in names, negative modes / times.
-/
namespace C38
open FS

inductive EType where
  | dir | reg | symlink
  /-- any other type flag (hard link, character / block device, fifo, contiguous file, unknown) -/
  | other
  /-- not a header: `tarReader.Next()` returned an error at this point (malformed header) -/
  | bad
  deriving DecidableEq, Repr, Inhabited

structure Entry where
  name : List String
  typ : EType
  linkname : List String := []
  mode : Nat := 0
  mtime : Int := 0
  data : List UInt8 := []
  deriving Repr, Inhabited

structure Deferred where
  path : Path
  mode : Nat
  mtime : Int
  deriving Repr, Inhabited

abbrev Res := World × Option Errno

def hasNul (c : String) : Bool := c.toList.contains (Char.ofNat 0)

/-- `validatePathComponent` (sanitize.go, !windows) -/
def validComponent (c : String) : Bool := !(c == "..") && !hasNul c

/-- `validateTarPath`: not empty, not absolute, no `""`, `.`, `..` element -/
def validTarPath (name : List String) : Bool := name.all simple

/-- the seconds `updateMtime` hands to `utimensat`: `syscall.NsecToTimespec(mtime.UnixNano())` — `UnixNano`
is computed in wrapping int64 arithmetic (years before 1678 / after 2262 overflow), `NsecToTimespec` takes
the floor -/
def tsSec (t : Int) : Int :=
  ((t * 1000000000 + 9223372036854775808) % 18446744073709551616 - 9223372036854775808) / 1000000000

/-- `files.UpdateMetaUnix(path, uint32(mode), mtime)`: `utimensat(AT_SYMLINK_NOFOLLOW)` first, then
`os.Chmod` (FOLLOWS links) unless the converted mode is 0.  `UnixPermsToModePerms` followed by
`syscallMode` keeps exactly the 12 permission bits. -/
def updateMeta (w : World) (p : Path) (mode : Nat) (mtime : Int) : Res :=
  let r := utimensNoFollow w p (tsSec mtime)
  match r.2 with
  | some e => (r.1, some e)
  | none =>
    let m := (mode % 4294967296) % 4096
    if m == 0 then (r.1, none) else chmod r.1 p m

/-- one deferred directory update (`applyDeferredUpdate` after the fix; plain `UpdateMetaUnix` before) -/
def applyDeferred (fixed : Bool) (w : World) (d : Deferred) : Res :=
  if fixed then
    match lstat w d.path with
    | .error e => (w, some e)
    | .ok n => if n.kind != .dir then (w, none) else updateMeta w d.path d.mode d.mtime
  else updateMeta w d.path d.mode d.mtime

/-- `doUpdates`: newest first, stop at the first error (which `Extract` then drops) -/
def doUpdates (fixed : Bool) (w : World) : List Deferred → World
  | [] => w
  | d :: ds =>   -- the list is kept newest-first here
    let r := applyDeferred fixed w d
    match r.2 with
    | some _ => r.1
    | none => doUpdates fixed r.1 ds

/-- the string of a path below the (common) absolute prefix: `/a/b` -/
def pstr (p : Path) : String := String.join (p.map ("/" ++ ·))

/-- `deferUpdate`.  The deferred list is kept newest-first (`ds.head?` = Go's last element). -/
def deferUpdate (fixed : Bool) (w : World) (ds : List Deferred) (p : Path) (e : Entry) : Res × List Deferred :=
  let push (w : World) (ds : List Deferred) : Res × List Deferred :=
    ((w, none), { path := p, mode := e.mode, mtime := e.mtime } :: ds)
  match ds with
  | m :: rest =>
    if (pstr p).utf8ByteSize < (pstr m.path).utf8ByteSize && (pstr m.path).startsWith (pstr p.dropLast) then
      let r := applyDeferred fixed w m
      match r.2 with
      | some err => ((r.1, some err), ds)
      | none => push r.1 rest
    else push w ds
  | [] => push w ds

/-- `extractDir` -/
def extractDir (w : World) (p : Path) : Res :=
  let r := mkdirAll w p 0o755
  match r.2 with
  | some e => (r.1, some e)
  | none =>
    match lstat r.1 p with
    | .error e => (r.1, some e)
    | .ok n => if n.kind != .dir then (r.1, some .inval) else (r.1, none)

/-- `os.Remove` whose ENOENT is tolerated -/
def removeIfExists (w : World) (p : Path) : Res :=
  let r := remove w p
  match r.2 with
  | some .noent => (r.1, none)
  | _ => r

/-- `extractSymlink` -/
def extractSymlink (w : World) (p : Path) (e : Entry) : Res :=
  let r := removeIfExists w p
  match r.2 with
  | some err => (r.1, some err)
  | none =>
    let r2 := symlink r.1 e.linkname p
    match r2.2 with
    | some err => (r2.1, some err)
    | none => utimensNoFollow r2.1 p (tsSec e.mtime)

/-- `extractFile`: remove, temp file in the parent, copy, rename -/
def extractFile (tmp : String) (w : World) (p : Path) (e : Entry) : Res :=
  let r := removeIfExists w p
  match r.2 with
  | some err => (r.1, some err)
  | none =>
    let t := p.dropLast ++ [tmp]
    let r1 := create r.1 t 0o600
    match r1.2 with
    | some err => (r1.1, some err)
    | none =>
      let r2 := if e.data.isEmpty then (r1.1, none) else append r1.1 t e.data
      match r2.2 with
      | some err => ((remove r2.1 t).1, some err)
      | none =>
        let r3 := rename r2.1 t p
        match r3.2 with
        | some err => ((remove r3.1 t).1, some err)
        | none => (r3.1, none)

/-- file entry: `extractFile` then `UpdateMetaUnix` -/
def extractReg (tmp : String) (w : World) (p : Path) (e : Entry) : Res :=
  let r := extractFile tmp w p e
  match r.2 with
  | some err => (r.1, some err)
  | none => updateMeta r.1 p e.mode e.mtime

/-- `outputPath`: append the elements one at a time; every element but the last must, by `os.Lstat`, be a
real directory -/
def outputPath (w : World) : Path → List String → Except Errno Path
  | p, [] => .ok p
  | p, [c] => if validComponent c then .ok (p ++ [c]) else .error .inval
  | p, c :: rest =>
    if !validComponent c then .error .inval
    else
      match lstat w (p ++ [c]) with
      | .error e => .error e
      | .ok n => if n.kind != .dir then .error .notdir else outputPath w (p ++ [c]) rest

structure St where
  w : World
  ds : List Deferred := []
  err : Bool := false

/-- one non-root entry (body of the `for` loop) -/
def stepEntry (fixed : Bool) (tmp : String) (target : Path) (rootName : String) (s : St) (e : Entry) : St :=
  if e.typ == EType.bad then { s with err := true }
  else if !validTarPath e.name then { s with err := true }
  else if !(e.name.head? == some rootName && e.name.length ≥ 2) then { s with err := true }   -- getRelativePath
  else
    let rel := e.name.tail
    match outputPath s.w target rel with
    | .error _ => { s with err := true }
    | .ok p =>
      if rel.isEmpty || rel.contains ".." then { s with err := true }   -- filepath.Rel double check
      else
        match e.typ with
        | .dir =>
          let r := extractDir s.w p
          match r.2 with
          | some _ => { s with w := r.1, err := true }
          | none =>
            let (r2, ds) := deferUpdate fixed r.1 s.ds p e
            { w := r2.1, ds := ds, err := r2.2.isSome }
        | .reg =>
          let r := extractReg tmp s.w p e
          { s with w := r.1, err := r.2.isSome }
        | .symlink =>
          let r := extractSymlink s.w p e
          { s with w := r.1, err := r.2.isSome }
        | .other => { s with err := true }
        | .bad => { s with err := true }

def loopEntries (fixed : Bool) (tmp : String) (target : Path) (rootName : String) : St → List Entry → St
  | s, [] => s
  | s, e :: es =>
    let s' := stepEntry fixed tmp target rootName s e
    if s'.err then s' else loopEntries fixed tmp target rootName s' es

/-- `Extract`: returns the final world and whether an error was returned -/
def extract (fixed : Bool) (tmp : String) (w : World) (target : Path) (entries : List Entry) : World × Bool :=
  match entries with
  | [] => (w, true)
  | h :: rest =>
    if h.typ == EType.bad then (w, true)
    else if h.name.length > 1 then (w, true)
    else
      let rootName := h.name.headD ""
      if rootName == "" || rootName == "." || rootName == ".." then (w, true)
      else
        let fin (s : St) : World × Bool := (doUpdates fixed s.w s.ds, s.err)
        match h.typ with
        | .dir =>
          let r := extractDir w target
          match r.2 with
          | some _ => (r.1, true)
          | none =>
            let (r2, ds) := deferUpdate fixed r.1 [] target h
            if r2.2.isSome then fin { w := r2.1, ds := ds, err := true }
            else fin (loopEntries fixed tmp target rootName { w := r2.1, ds := ds } rest)
        | .other => (w, true)
        | .bad => (w, true)
        | _ =>
          let probe : Except Errno Bool :=
            match lstat w target with
            | .error e => if e == Errno.noent then .ok false else .error e
            | .ok n => .ok (n.kind == Kind.dir)
          match probe with
          | .error _ => (w, true)
          | .ok rootIsDir =>
            if rootIsDir && !validComponent rootName then (w, true)
            else
              let p := if rootIsDir then target ++ [rootName] else target
              let r := if h.typ == EType.reg then extractReg tmp w p h else extractSymlink w p h
              match r.2 with
              | some _ => (r.1, true)
              | none =>
                -- any further entry: "the root was not a directory and the tar has multiple entries"
                (r.1, !rest.isEmpty)

end C38
