/-
C36 — the task workers of the decision engine as a small-step system (counter abstraction: workers are
interchangeable, so the state counts how many are at each program point).

Transcribed from engine.go `taskWorker` / `nextEnvelope` / `signalNewWork`:

  taskWorker:  for { e.outbox <- oneTimeUse            -- blocks until the consumer of Outbox() takes it   (atOutbox)
                     envelope := e.nextEnvelope(ctx)    -- below                                             (running)
                     oneTimeUse <- envelope }           -- buffered: never blocks
  nextEnvelope: for { PopTasks; for none popped { select { <-e.workSignal | <-e.ticker.C } ; PopTasks }      (waiting)
                      build message; if empty { TasksDone; continue } ; return envelope }
  signalNewWork: select { case e.workSignal <- struct{}{}: default: }     -- capacity 1, never blocks
  MessageReceived / NotifyNewBlocks: PushTasks…, then signalNewWork;  Envelope.Sent: TasksDone, signalNewWork

`pending` is the total number of pending tasks of the request queue (the engine model's
Σ_p (s.pq p).pending.length); a pop removes `m ≥ 1` of them when there are any (`c36_answered`: every enabled pop of
the engine model strictly shortens a queue). Core-only.
-/
namespace C36.Worker

structure WSt where
  pending : Nat := 0
  signal : Bool := false     -- workSignal holds a token
  atOutbox : Nat             -- workers blocked in `e.outbox <- oneTimeUse`
  running : Nat := 0         -- workers about to call PopTasks
  waiting : Nat := 0         -- workers in the select of nextEnvelope's wait loop

inductive WEv where
  | push (k : Nat)            -- MessageReceived / NotifyNewBlocks queue k+1 tasks, then signalNewWork
  | signal                    -- Envelope.Sent → signalNewWork
  | take                      -- the consumer of Outbox() receives a oneTimeUse channel
  | pop (m : Nat) (empty : Bool)   -- a running worker calls PopTasks: m+1 tasks popped (capped by pending) if any are
                                   -- pending; `empty`: the message came out empty (TasksDone; continue)
  | wake                      -- a waiting worker receives from workSignal
  | tick                      -- a waiting worker receives from the 100 ms ticker
  deriving DecidableEq, Repr

def step (s : WSt) : WEv → Option WSt
  | .push k => some { s with pending := s.pending + (k + 1), signal := true }
  | .signal => some { s with signal := true }
  | .take => if s.atOutbox > 0 then some { s with atOutbox := s.atOutbox - 1, running := s.running + 1 } else none
  | .pop m empty =>
    if s.running = 0 then none
    else if s.pending = 0 then some { s with running := s.running - 1, waiting := s.waiting + 1 }
    else
      let s1 := { s with pending := s.pending - min (m + 1) s.pending }
      if empty then some s1 else some { s1 with running := s1.running - 1, atOutbox := s1.atOutbox + 1 }
  | .wake =>
    if s.waiting > 0 ∧ s.signal then some { s with signal := false, waiting := s.waiting - 1, running := s.running + 1 }
    else none
  | .tick => if s.waiting > 0 then some { s with waiting := s.waiting - 1, running := s.running + 1 } else none

def run (s : WSt) : List WEv → WSt
  | [] => s
  | e :: r => run ((step s e).getD s) r

/-- no lost wake-up: work is pending ⇒ the signal token is there, or some worker is not asleep -/
def Inv (s : WSt) : Prop := s.pending > 0 → s.signal = true ∨ s.atOutbox + s.running > 0

def isPush : WEv → Bool
  | .push _ => true
  | .signal => true
  | _ => false

/-- well-founded measure of the worker / consumer events while work is pending -/
def lt (a b : WSt) : Prop :=
  a.pending < b.pending ∨ (a.pending = b.pending ∧ a.atOutbox + a.waiting < b.atOutbox + b.waiting)

theorem step_inv (s : WSt) (e : WEv) (s' : WSt) (h : Inv s) (hs : step s e = some s') : Inv s' := by
  unfold Inv at *
  cases e with
  | push k => simp only [step, Option.some.injEq] at hs; subst hs; intro _; left; rfl
  | signal => simp only [step, Option.some.injEq] at hs; subst hs; intro _; left; rfl
  | take =>
    simp only [step] at hs
    split at hs
    · simp only [Option.some.injEq] at hs; subst hs; intro _; right; dsimp only; omega
    · simp at hs
  | pop m empty =>
    simp only [step] at hs
    split at hs
    · simp at hs
    · split at hs
      · rename_i h0
        simp only [Option.some.injEq] at hs; subst hs
        intro hp; simp only at hp; omega
      · split at hs
        · simp only [Option.some.injEq] at hs; subst hs; intro _; right; dsimp only; omega
        · simp only [Option.some.injEq] at hs; subst hs; intro _; right; dsimp only; omega
  | wake =>
    simp only [step] at hs
    split at hs
    · simp only [Option.some.injEq] at hs; subst hs; intro _; right; dsimp only; omega
    · simp at hs
  | tick =>
    simp only [step] at hs
    split at hs
    · simp only [Option.some.injEq] at hs; subst hs; intro _; right; dsimp only; omega
    · simp at hs

theorem run_inv (evs : List WEv) : ∀ s, Inv s → Inv (run s evs) := by
  induction evs with
  | nil => intro s h; exact h
  | cons e r ih =>
    intro s h
    simp only [run]
    cases hs : step s e with
    | none => simpa using ih s h
    | some s' => simpa using ih s' (step_inv s e s' h hs)

/-- while work is pending some worker / consumer event is enabled -/
theorem enabled (s : WSt) (h : Inv s) (hn : s.atOutbox + s.running + s.waiting > 0) (hp : s.pending > 0) :
    (step s .take).isSome ∨ (step s (.pop 0 false)).isSome ∨ (step s .wake).isSome := by
  by_cases h1 : s.atOutbox > 0
  · left; simp [step, h1]
  · by_cases h2 : s.running > 0
    · right; left
      have : ¬ s.running = 0 := by omega
      have : ¬ s.pending = 0 := by omega
      simp [step, *]
    · right; right
      rcases h hp with hsig | hw
      · -- all workers asleep: at least one exists only if waiting > 0; otherwise there are no workers at all
        by_cases h3 : s.waiting > 0
        · simp [step, h3, hsig]
        · exfalso; omega
      · exfalso; omega

/-- … and every worker / consumer event that is taken makes progress in the well-founded order
(pending tasks, then workers not yet running) -/
theorem progress (s : WSt) (e : WEv) (s' : WSt) (hp : s.pending > 0) (he : isPush e = false)
    (hs : step s e = some s') : lt s' s := by
  unfold lt
  cases e with
  | push k => simp [isPush] at he
  | signal => simp [isPush] at he
  | take =>
    simp only [step] at hs
    split at hs
    · simp only [Option.some.injEq] at hs; subst hs; right; dsimp only; omega
    · simp at hs
  | pop m empty =>
    simp only [step] at hs
    split at hs
    · simp at hs
    · split at hs
      · exfalso; omega
      · split at hs
        · simp only [Option.some.injEq] at hs; subst hs; left; dsimp only; omega
        · simp only [Option.some.injEq] at hs; subst hs; left; dsimp only; omega
  | wake =>
    simp only [step] at hs
    split at hs
    · simp only [Option.some.injEq] at hs; subst hs; right; dsimp only; omega
    · simp at hs
  | tick =>
    simp only [step] at hs
    split at hs
    · simp only [Option.some.injEq] at hs; subst hs; right; dsimp only; omega
    · simp at hs

def workers (s : WSt) : Nat := s.atOutbox + s.running + s.waiting

theorem step_workers (s : WSt) (e : WEv) (s' : WSt) (hs : step s e = some s') : workers s' = workers s := by
  unfold workers
  cases e with
  | push k => simp only [step, Option.some.injEq] at hs; subst hs; rfl
  | signal => simp only [step, Option.some.injEq] at hs; subst hs; rfl
  | take =>
    simp only [step] at hs
    split at hs
    · simp only [Option.some.injEq] at hs; subst hs; dsimp only; omega
    · simp at hs
  | pop m empty =>
    simp only [step] at hs
    split at hs
    · simp at hs
    · split at hs
      · simp only [Option.some.injEq] at hs; subst hs; dsimp only; omega
      · split at hs
        · simp only [Option.some.injEq] at hs; subst hs; rfl
        · simp only [Option.some.injEq] at hs; subst hs; dsimp only; omega
  | wake =>
    simp only [step] at hs
    split at hs
    · simp only [Option.some.injEq] at hs; subst hs; dsimp only; omega
    · simp at hs
  | tick =>
    simp only [step] at hs
    split at hs
    · simp only [Option.some.injEq] at hs; subst hs; dsimp only; omega
    · simp at hs

theorem run_workers (evs : List WEv) : ∀ s, workers (run s evs) = workers s := by
  induction evs with
  | nil => intro s; rfl
  | cons e r ih =>
    intro s
    simp only [run]
    cases hs : step s e with
    | none => simpa using ih s
    | some s' => simpa [step_workers s e s' hs] using ih s'

end C36.Worker
