import BoxoModel.C36.Spec
/-! Helper lemmas for C36: the five ledger primitives in terms of the two lookups `lookP` / `lookC`,
and lifting of ledger-only invariants through every engine operation. -/
namespace C36
open AMap

/-! ### generic association-list facts -/

theorem find_getD_nil {κ ν : Type} [DecidableEq κ] {μ : Type} [DecidableEq μ]
    (m : Map κ (Map μ ν)) (k : κ) (c : μ) :
    find ((find m k).getD []) c = (find m k).bind (fun w => find w c) := by
  cases find m k <;> simp

theorem erase_length_lt {κ ν : Type} [DecidableEq κ] (m : Map κ ν) (k : κ) (h : (find m k).isSome) :
    (erase m k).length < m.length := by
  induction m with
  | nil => simp at h
  | cons x r ih =>
    obtain ⟨k', v⟩ := x
    by_cases hk : k' = k
    · subst hk
      have := keys_erase_length_le r k'
      simp [erase, List.filter_cons] at this ⊢
      omega
    · have h' : (find r k).isSome := by simpa [find_cons, hk] using h
      have := ih h'
      simp [erase, List.filter_cons, hk] at this ⊢
      omega

theorem find_of_erase_nil {κ ν : Type} [DecidableEq κ] (m : Map κ ν) (k k2 : κ)
    (h : (erase m k).length = 0) (hne : k ≠ k2) : find m k2 = none := by
  have h0 : erase m k = [] := List.eq_nil_of_length_eq_zero h
  have := find_erase_ne m k k2 hne
  rw [h0] at this
  simpa using this.symm

/-! ### ledger lookups -/

/-- `peers[p][c]` -/
def lookP (l : Ledger) (p : Peer) (c : Cid) : Option Entry := (find l.peers p).bind fun w => find w c
/-- `cids[c][p]` -/
def lookC (l : Ledger) (c : Cid) (p : Peer) : Option Entry := (find l.cids c).bind fun m => find m p

theorem lookP_wantlist (l : Ledger) (p : Peer) (c : Cid) : find (l.wantlistForPeer p) c = lookP l p c := by
  simp [Ledger.wantlistForPeer, lookP, find_getD_nil]

theorem lookC_peersOf (l : Ledger) (c : Cid) (p : Peer) : find (l.peersOf c) p = lookC l c p := by
  simp [Ledger.peersOf, lookC, find_getD_nil]

/-- the two maps are inversions of each other -/
def Ledger.Consistent (l : Ledger) : Prop := ∀ p c, lookP l p c = lookC l c p

theorem removePeerFromCid_lookP (l : Ledger) (p : Peer) (k : Cid) (p' : Peer) (c' : Cid) :
    lookP (l.removePeerFromCid p k) p' c' = lookP l p' c' := by
  unfold Ledger.removePeerFromCid lookP
  split
  · rfl
  · simp only; split <;> rfl

theorem removePeerFromCid_lookC (l : Ledger) (p : Peer) (k : Cid) (c' : Cid) (p' : Peer) :
    lookC (l.removePeerFromCid p k) c' p' = if c' = k ∧ p' = p then none else lookC l c' p' := by
  unfold Ledger.removePeerFromCid
  split
  · rename_i h
    by_cases hc : c' = k ∧ p' = p
    · obtain ⟨rfl, rfl⟩ := hc
      simp [lookC, h]
    · simp [hc]
  · rename_i m h
    by_cases hlen : (erase m p).length = 0
    · simp only [hlen, if_true]
      by_cases hck : c' = k
      · subst hck
        by_cases hp : p' = p
        · subst hp; simp [lookC, find_erase_self]
        · have hp2 : p ≠ p' := fun e => hp e.symm
          simp [lookC, find_erase_self, hp, h, find_of_erase_nil m p p' hlen hp2]
      · have : k ≠ c' := fun e => hck e.symm
        simp [lookC, find_erase_ne _ _ _ this, hck]
    · simp only [hlen, if_false]
      by_cases hck : c' = k
      · subst hck
        by_cases hp : p' = p
        · subst hp; simp [lookC, find_insert_self, find_erase_self]
        · have hp2 : p ≠ p' := fun e => hp e.symm
          simp [lookC, find_insert_self, find_erase_ne _ _ _ hp2, hp, h]
      · have : k ≠ c' := fun e => hck e.symm
        simp [lookC, find_insert_ne _ _ _ _ this, hck]

/-- effect of `Wants` on both lookups -/
theorem wants_look (l : Ledger) (limit : Nat) (p : Peer) (c : Cid) (e : Entry) :
    ((l.wants limit p c e).2 = true →
      (∀ p' c', lookP (l.wants limit p c e).1 p' c' = if p' = p ∧ c' = c then some e else lookP l p' c') ∧
      (∀ c' p', lookC (l.wants limit p c e).1 c' p' = if c' = c ∧ p' = p then some e else lookC l c' p')) ∧
    ((l.wants limit p c e).2 = false → (l.wants limit p c e).1 = l) := by
  have key : ∀ w : Map Cid Entry, (∀ c', find w c' = lookP l p c') →
      let l' : Ledger := { peers := insert l.peers p (insert w c e),
                           cids := insert l.cids c (insert ((find l.cids c).getD []) p e) }
      (∀ p' c', lookP l' p' c' = if p' = p ∧ c' = c then some e else lookP l p' c') ∧
      (∀ c' p', lookC l' c' p' = if c' = c ∧ p' = p then some e else lookC l c' p') := by
    intro w hw
    refine ⟨?_, ?_⟩
    · intro p' c'
      by_cases hp : p' = p
      · subst hp
        by_cases hc : c' = c
        · subst hc; simp [lookP, find_insert_self]
        · have : c ≠ c' := fun e => hc e.symm
          simp [lookP, find_insert_self, find_insert_ne _ _ _ _ this, hc, hw]
      · have : p ≠ p' := fun e => hp e.symm
        simp [lookP, find_insert_ne _ _ _ _ this, hp]
    · intro c' p'
      by_cases hc : c' = c
      · subst hc
        by_cases hp : p' = p
        · subst hp; simp [lookC, find_insert_self]
        · have : p ≠ p' := fun e => hp e.symm
          simp [lookC, find_insert_self, find_insert_ne _ _ _ _ this, hp, find_getD_nil]
      · have : c ≠ c' := fun e => hc e.symm
        simp [lookC, find_insert_ne _ _ _ _ this, hc]
  unfold Ledger.wants
  cases hf : find l.peers p with
  | none =>
    simp only
    refine ⟨fun _ => ?_, fun h => by simp at h⟩
    exact key [] (by intro c'; simp [lookP, hf])
  | some w =>
    simp only
    split
    · exact ⟨fun h => by simp at h, fun _ => rfl⟩
    · refine ⟨fun _ => ?_, fun h => by simp at h⟩
      exact key w (by intro c'; simp [lookP, hf])

/-- the peer-side update shared by CancelWant / CancelWantWithType -/
theorem erasePeerSide_lookP (l : Ledger) (p : Peer) (k : Cid) (w : Map Cid Entry) (hf : find l.peers p = some w)
    (p' : Peer) (c' : Cid) :
    lookP (if (erase w k).length = 0 then { l with peers := erase l.peers p }
           else { l with peers := insert l.peers p (erase w k) } : Ledger) p' c'
      = if p' = p ∧ c' = k then none else lookP l p' c' := by
  by_cases hlen : (erase w k).length = 0
  · simp only [hlen, if_true]
    by_cases hp : p' = p
    · subst hp
      by_cases hc : c' = k
      · subst hc; simp [lookP, find_erase_self]
      · have : k ≠ c' := fun e => hc e.symm
        simp [lookP, find_erase_self, hc, hf, find_of_erase_nil w k c' hlen this]
    · have : p ≠ p' := fun e => hp e.symm
      simp [lookP, find_erase_ne _ _ _ this, hp]
  · simp only [hlen, if_false]
    by_cases hp : p' = p
    · subst hp
      by_cases hc : c' = k
      · subst hc; simp [lookP, find_insert_self, find_erase_self]
      · have : k ≠ c' := fun e => hc e.symm
        simp [lookP, find_insert_self, find_erase_ne _ _ _ this, hc, hf]
    · have : p ≠ p' := fun e => hp e.symm
      simp [lookP, find_insert_ne _ _ _ _ this, hp]

theorem erasePeerSide_lookC (l : Ledger) (p : Peer) (k : Cid) (w : Map Cid Entry) (c' : Cid) (p' : Peer) :
    lookC (if (erase w k).length = 0 then { l with peers := erase l.peers p }
           else { l with peers := insert l.peers p (erase w k) } : Ledger) c' p' = lookC l c' p' := by
  split <;> rfl

theorem cancelWant_lookP (l : Ledger) (p : Peer) (k : Cid) (p' : Peer) (c' : Cid) :
    lookP (l.cancelWant p k).1 p' c' = if p' = p ∧ c' = k then none else lookP l p' c' := by
  unfold Ledger.cancelWant
  cases hf : find l.peers p with
  | none =>
    by_cases h : p' = p ∧ c' = k
    · obtain ⟨rfl, rfl⟩ := h; simp [lookP, hf]
    · simp [h]
  | some w => simp only [removePeerFromCid_lookP]; exact erasePeerSide_lookP l p k w hf p' c'

theorem cancelWant_lookC (l : Ledger) (hl : l.Consistent) (p : Peer) (k : Cid) (c' : Cid) (p' : Peer) :
    lookC (l.cancelWant p k).1 c' p' = if c' = k ∧ p' = p then none else lookC l c' p' := by
  unfold Ledger.cancelWant
  cases hf : find l.peers p with
  | none =>
    by_cases h : c' = k ∧ p' = p
    · obtain ⟨rfl, rfl⟩ := h
      have := hl p' c'
      simp [lookP, hf] at this
      simp [← this]
    · simp [h]
  | some w => simp only [removePeerFromCid_lookC, erasePeerSide_lookC]

theorem cancelWant_had (l : Ledger) (p : Peer) (k : Cid) : (l.cancelWant p k).2 = (lookP l p k).isSome := by
  unfold Ledger.cancelWant lookP
  cases find l.peers p <;> simp

theorem cancelWant_consistent (l : Ledger) (hl : l.Consistent) (p : Peer) (k : Cid) : (l.cancelWant p k).1.Consistent := by
  intro p' c'
  rw [cancelWant_lookP, cancelWant_lookC l hl, hl p' c']
  by_cases h : p' = p ∧ c' = k
  · have : c' = k ∧ p' = p := ⟨h.2, h.1⟩
    simp [h, this]
  · have : ¬ (c' = k ∧ p' = p) := fun x => h ⟨x.2, x.1⟩
    simp [h, this]

theorem wants_consistent (l : Ledger) (hl : l.Consistent) (limit : Nat) (p : Peer) (c : Cid) (e : Entry) :
    (l.wants limit p c e).1.Consistent := by
  have h := wants_look l limit p c e
  cases hb : (l.wants limit p c e).2 with
  | false => rw [h.2 hb]; exact hl
  | true =>
    obtain ⟨h1, h2⟩ := h.1 hb
    intro p' c'
    rw [h1, h2, hl p' c']
    by_cases hx : p' = p ∧ c' = c
    · have : c' = c ∧ p' = p := ⟨hx.2, hx.1⟩
      simp [hx, this]
    · have : ¬ (c' = c ∧ p' = p) := fun x => hx ⟨x.2, x.1⟩
      simp [hx, this]

/-- CancelWantWithType either does nothing or acts as CancelWant -/
theorem cancelWantWithType_eq (l : Ledger) (p : Peer) (k : Cid) (t : WT) :
    l.cancelWantWithType p k t = l ∨ l.cancelWantWithType p k t = (l.cancelWant p k).1 := by
  unfold Ledger.cancelWantWithType Ledger.cancelWant
  cases find l.peers p with
  | none => left; rfl
  | some w =>
    simp only
    cases find w k with
    | none => left; rfl
    | some e =>
      simp only
      split
      · left; rfl
      · right; rfl

theorem cancelWantWithType_consistent (l : Ledger) (hl : l.Consistent) (p : Peer) (k : Cid) (t : WT) :
    (l.cancelWantWithType p k t).Consistent := by
  rcases cancelWantWithType_eq l p k t with h | h <;> rw [h]
  · exact hl
  · exact cancelWant_consistent l hl p k

/-- the fold of ClearPeerWantlist over the peer's CIDs -/
theorem clearFold_look (p : Peer) (ks : List Cid) (l : Ledger) :
    (∀ p' c', lookP (ks.foldl (fun l c => l.removePeerFromCid p c) l) p' c' = lookP l p' c') ∧
    (∀ c' p', lookC (ks.foldl (fun l c => l.removePeerFromCid p c) l) c' p'
        = if c' ∈ ks ∧ p' = p then none else lookC l c' p') := by
  induction ks generalizing l with
  | nil => simp
  | cons k r ih =>
    obtain ⟨i1, i2⟩ := ih (l.removePeerFromCid p k)
    refine ⟨?_, ?_⟩
    · intro p' c'; simp only [List.foldl_cons]; rw [i1, removePeerFromCid_lookP]
    · intro c' p'
      simp only [List.foldl_cons]
      rw [i2, removePeerFromCid_lookC]
      by_cases hp : p' = p
      · by_cases hk : c' = k
        · simp [hp, hk]
        · simp [hp, hk]
      · simp [hp]

theorem clear_lookP (l : Ledger) (p p' : Peer) (c' : Cid) :
    lookP (l.clearPeerWantlist p) p' c' = if p' = p then none else lookP l p' c' := by
  unfold Ledger.clearPeerWantlist
  cases hf : find l.peers p with
  | none =>
    by_cases hp : p' = p
    · subst hp; simp [lookP, hf]
    · simp [hp]
  | some w =>
    simp only
    by_cases hp : p' = p
    · subst hp; simp [lookP, find_insert_self]
    · have : p ≠ p' := fun e => hp e.symm
      have := (clearFold_look p (keys w) l).1 p' c'
      simp only [lookP] at this
      simp [lookP, find_insert_ne _ _ _ _ ‹p ≠ p'›, hp, this]

theorem clear_lookC (l : Ledger) (hl : l.Consistent) (p : Peer) (c' : Cid) (p' : Peer) :
    lookC (l.clearPeerWantlist p) c' p' = if p' = p then none else lookC l c' p' := by
  unfold Ledger.clearPeerWantlist
  cases hf : find l.peers p with
  | none =>
    by_cases hp : p' = p
    · subst hp
      have := hl p' c'
      simp [lookP, hf] at this
      simp [← this]
    · simp [hp]
  | some w =>
    simp only
    have h2 := (clearFold_look p (keys w) l).2 c' p'
    have : lookC ({ (List.foldl (fun l c => l.removePeerFromCid p c) l (keys w)) with
        peers := insert (List.foldl (fun l c => l.removePeerFromCid p c) l (keys w)).peers p [] } : Ledger) c' p'
        = lookC (List.foldl (fun l c => l.removePeerFromCid p c) l (keys w)) c' p' := rfl
    rw [this, h2]
    by_cases hp : p' = p
    · subst hp
      by_cases hk : c' ∈ keys w
      · simp [hk]
      · have h3 := hl p' c'
        have h4 : lookP l p' c' = none := by
          simp only [lookP, hf, Option.bind_some]
          exact (find_eq_none_iff w c').2 hk
        simp [hk, ← h3, h4]
    · simp [hp]

theorem clear_consistent (l : Ledger) (hl : l.Consistent) (p : Peer) : (l.clearPeerWantlist p).Consistent := by
  intro p' c'
  rw [clear_lookP, clear_lookC l hl, hl p' c']

theorem disc_lookP (l : Ledger) (p p' : Peer) (c' : Cid) :
    lookP (l.peerDisconnected p) p' c' = if p' = p then none else lookP l p' c' := by
  unfold Ledger.peerDisconnected
  by_cases hp : p' = p
  · subst hp; simp [lookP, find_erase_self]
  · have h1 : p ≠ p' := fun e => hp e.symm
    have := clear_lookP l p p' c'
    simp only [lookP] at this
    simp [lookP, find_erase_ne _ _ _ h1, hp, this]

theorem disc_lookC (l : Ledger) (hl : l.Consistent) (p : Peer) (c' : Cid) (p' : Peer) :
    lookC (l.peerDisconnected p) c' p' = if p' = p then none else lookC l c' p' := by
  have := clear_lookC l hl p c' p'
  unfold Ledger.peerDisconnected
  exact this

theorem disc_consistent (l : Ledger) (hl : l.Consistent) (p : Peer) : (l.peerDisconnected p).Consistent := by
  intro p' c'
  rw [disc_lookP, disc_lookC l hl, hl p' c']

end C36

namespace C36
open AMap

/-! ### lifting a ledger-only invariant through every engine operation -/

/-- a predicate on ledgers preserved by the primitives of peer_ledger.go when they are applied for peer `p`,
`Wants` only with CIDs satisfying `allowed` (CancelWantWithType is covered by `cancel` through
`cancelWantWithType_eq`) -/
structure LedgerInvAt (limit : Nat) (p : Peer) (allowed : Cid → Prop) (P : Ledger → Prop) : Prop where
  wants : ∀ l c e, allowed c → P l → P (l.wants limit p c e).1
  cancel : ∀ l k, P l → P (l.cancelWant p k).1
  clear : ∀ l, P l → P (l.clearPeerWantlist p)
  disc : ∀ l, P l → P (l.peerDisconnected p)

/-- … for every peer and every CID -/
def LedgerInv (limit : Nat) (P : Ledger → Prop) : Prop := ∀ p, LedgerInvAt limit p (fun _ => True) P

variable {limit : Nat} {P : Ledger → Prop} {p : Peer} {allowed : Cid → Prop}

theorem LedgerInvAt.cancelT (h : LedgerInvAt limit p allowed P) (l : Ledger) (k : Cid) (t : WT) (hl : P l) :
    P (l.cancelWantWithType p k t) := by
  rcases cancelWantWithType_eq l p k t with e | e <;> rw [e]
  · exact hl
  · exact h.cancel l k hl

theorem filterOverflow_inv (cfg : Cfg) (h : LedgerInvAt cfg.limit p allowed P) (es : List MEntry) :
    ∀ (l : Ledger) (kept over : List MEntry), (∀ et ∈ es, allowed et.cid) → P l →
      P (filterOverflow cfg p es l kept over).1 := by
  induction es with
  | nil => intro l kept over _ hl; exact hl
  | cons et r ih =>
    intro l kept over hal hl
    unfold filterOverflow
    have := h.wants l et.cid ⟨et.prio, et.wt⟩ (hal et (List.mem_cons_self ..)) hl
    have hal' : ∀ et ∈ r, allowed et.cid := fun x hx => hal x (List.mem_cons_of_mem _ hx)
    split
    rename_i l' ok heq
    have e1 : l' = (l.wants cfg.limit p et.cid ⟨et.prio, et.wt⟩).1 := by rw [heq]
    subst e1
    split
    · exact ih _ _ _ hal' this
    · exact ih _ _ _ hal' this

theorem ovCancel_inv (h : LedgerInvAt limit p allowed P) (o : OvSt) (c : Cid) (ho : P o.ledger) :
    P (o.cancel p c).ledger := by
  unfold OvSt.cancel
  exact h.cancel o.ledger c ho

theorem ovStage1_inv (cfg : Cfg) (h : LedgerInvAt cfg.limit p allowed P) (s : State) :
    ∀ (ws : List (Cid × Entry)) (i : Nat) (over : List MEntry) (removed : List Nat) (o : OvSt),
      (∀ et ∈ over, allowed et.cid) → P o.ledger →
      P (ovStage1 cfg s p i ws over removed o).1.ledger := by
  intro ws
  induction ws with
  | nil => intro i over removed o _ ho; simpa [ovStage1] using ho
  | cons w ws ih =>
    intro i over removed o hal ho
    obtain ⟨c, e⟩ := w
    cases over with
    | nil => simpa [ovStage1] using ho
    | cons n ns =>
      unfold ovStage1
      have h1 := ovCancel_inv h o c ho
      have h2 := h.wants (o.cancel p c).ledger n.cid ⟨n.prio, n.wt⟩ (hal n (List.mem_cons_self ..)) h1
      have hal' : ∀ et ∈ ns, allowed et.cid := fun x hx => hal x (List.mem_cons_of_mem _ hx)
      split
      · simp only
        split
        · exact h2
        · exact ih _ _ _ _ hal' h2
      · exact ih _ _ _ _ hal ho

/-- the overflow entries `ovStage1` hands on are among those it was given -/
theorem ovStage1_over (cfg : Cfg) (s : State) (p : Peer) :
    ∀ (ws : List (Cid × Entry)) (i : Nat) (over : List MEntry) (removed : List Nat) (o : OvSt),
      ∀ et ∈ (ovStage1 cfg s p i ws over removed o).2.1, et ∈ over := by
  intro ws
  induction ws with
  | nil => intro i over removed o et h; simpa [ovStage1] using h
  | cons w ws ih =>
    intro i over removed o et h
    obtain ⟨c, e⟩ := w
    cases over with
    | nil => simp [ovStage1] at h
    | cons n ns =>
      unfold ovStage1 at h
      split at h
      · simp only at h
        split at h
        · simp at h
        · exact List.mem_cons_of_mem _ (ih _ _ _ _ et h)
      · exact ih _ _ _ _ et h

theorem ovStage2_inv (cfg : Cfg) (h : LedgerInvAt cfg.limit p allowed P) :
    ∀ (ws : List (Cid × Entry)) (i : Nat) (removed : List Nat) (over : List MEntry) (o : OvSt),
      (∀ et ∈ over, allowed et.cid) → P o.ledger →
      P (ovStage2 cfg p i ws removed over o).ledger := by
  intro ws
  induction ws with
  | nil =>
    intro i removed over o _ ho
    cases over <;> simpa [ovStage2] using ho
  | cons w ws ih =>
    intro i removed over o hal ho
    obtain ⟨c, e⟩ := w
    cases over with
    | nil => simpa [ovStage2] using ho
    | cons n ns =>
      unfold ovStage2
      have h1 := ovCancel_inv h o c ho
      have h2 := h.wants (o.cancel p c).ledger n.cid ⟨n.prio, n.wt⟩ (hal n (List.mem_cons_self ..)) h1
      have hal' : ∀ et ∈ ns, allowed et.cid := fun x hx => hal x (List.mem_cons_of_mem _ hx)
      split
      · exact ih _ _ _ _ hal ho
      · split
        · exact ho
        · exact ih _ _ _ _ hal' h2

theorem handleOverflow_inv (cfg : Cfg) (h : LedgerInvAt cfg.limit p allowed P) (s : State) (l : Ledger) (q : PQ)
    (overflow wants : List MEntry) (hal : ∀ et ∈ overflow, allowed et.cid) (hl : P l) :
    P (handleOverflow cfg s p l q overflow wants).ledger := by
  unfold handleOverflow
  simp only
  have hal1 : ∀ et ∈ overflow.mergeSort (overLe cfg), allowed et.cid :=
    fun et het => hal et (List.mem_mergeSort.mp het)
  have h1 := ovStage1_inv cfg h s ((l.wantlistForPeer p).mergeSort (existLe cfg)) 0
    (overflow.mergeSort (overLe cfg)) [] { ledger := l, q := q, wants := wants } hal1 hl
  split
  · exact h1
  · exact ovStage2_inv cfg h _ _ _ _ _ (fun et het => hal1 et (ovStage1_over cfg s p _ _ _ _ _ et het)) h1

/-- what filterOverflow returns is made of the entries it was given -/
theorem filterOverflow_mem (cfg : Cfg) (p : Peer) (es : List MEntry) :
    ∀ (l : Ledger) (kept over : List MEntry),
      (∀ et ∈ (filterOverflow cfg p es l kept over).2.1, et ∈ kept ∨ et ∈ es) ∧
      (∀ et ∈ (filterOverflow cfg p es l kept over).2.2, et ∈ over ∨ et ∈ es) := by
  induction es with
  | nil => intro l kept over; exact ⟨fun et h => Or.inl h, fun et h => Or.inl h⟩
  | cons e r ih =>
    intro l kept over
    unfold filterOverflow
    split
    rename_i l' ok heq
    split
    · obtain ⟨i1, i2⟩ := ih l' (kept ++ [e]) over
      refine ⟨fun et h => ?_, fun et h => ?_⟩
      · rcases i1 et h with h | h
        · rcases List.mem_append.mp h with h | h
          · left; exact h
          · right; simp at h; simp [h]
        · right; exact List.mem_cons_of_mem _ h
      · rcases i2 et h with h | h
        · left; exact h
        · right; exact List.mem_cons_of_mem _ h
    · obtain ⟨i1, i2⟩ := ih l' kept (over ++ [e])
      refine ⟨fun et h => ?_, fun et h => ?_⟩
      · rcases i1 et h with h | h
        · left; exact h
        · right; exact List.mem_cons_of_mem _ h
      · rcases i2 et h with h | h
        · rcases List.mem_append.mp h with h | h
          · left; exact h
          · right; simp at h; simp [h]
        · right; exact List.mem_cons_of_mem _ h

theorem intake_inv (cfg : Cfg) (h : LedgerInvAt cfg.limit p allowed P) (s : State) (full : Bool) (w0 : List MEntry)
    (hal : ∀ et ∈ w0, allowed et.cid) (hfull : full = true → P (s.ledger.clearPeerWantlist p))
    (hs : full = false → P s.ledger) : P (intake cfg s p full w0).ledger := by
  have h1 : P (if full then s.ledger.clearPeerWantlist p else s.ledger) := by
    split
    · rename_i hf; exact hfull hf
    · rename_i hf; exact hs (by simpa using hf)
  have h2 := filterOverflow_inv cfg h w0 _ [] [] hal h1
  unfold intake
  simp only
  by_cases he : (filterOverflow cfg p w0 (if full then s.ledger.clearPeerWantlist p else s.ledger) [] []).2.2.isEmpty
  · rw [if_pos he]; exact h2
  · rw [if_neg he]
    refine handleOverflow_inv cfg h s _ _ _ _ (fun et het => ?_) h2
    rcases (filterOverflow_mem cfg p w0 _ [] []).2 et het with h | h
    · simp at h
    · exact hal et h

theorem applyCancels_inv (h : LedgerInvAt limit p allowed P) (cs : List MEntry) :
    ∀ lq : Ledger × PQ, P lq.1 → P (applyCancels p cs lq).1 := by
  induction cs with
  | nil => intro lq hl; exact hl
  | cons c r ih =>
    intro lq hl
    simp only [applyCancels, List.foldl_cons]
    exact ih _ (h.cancel lq.1 c.cid hl)

theorem setPq_ledger (s : State) (p : Peer) (q : PQ) : (s.setPq p q).ledger = s.ledger := rfl

theorem msgReceived_ledger (cfg : Cfg) (s : State) (p : Peer) (full : Bool) (es : List MEntry) :
    (msgReceived cfg s p full es).state.ledger =
      if es.isEmpty then s.ledger
      else (applyCancels p (split cfg p es [] [] []).2.1
        ((intake cfg s p full (split cfg p es [] [] []).1).ledger, (intake cfg s p full (split cfg p es [] [] []).1).q)).1 := by
  unfold msgReceived
  split <;> rfl

theorem msgReceived_inv (cfg : Cfg) (h : LedgerInvAt cfg.limit p allowed P) (s : State) (full : Bool) (es : List MEntry)
    (hal : ∀ et ∈ (split cfg p es [] [] []).1, allowed et.cid) (hs : P s.ledger) :
    P (msgReceived cfg s p full es).state.ledger := by
  rw [msgReceived_ledger]
  split
  · exact hs
  · exact applyCancels_inv h _ _ (intake_inv cfg h s full _ hal (fun _ => h.clear _ hs) (fun _ => hs))

theorem notify_ledger (cfg : Cfg) (k : Cid) (ps : List (Peer × Entry)) :
    ∀ s : State, (ps.foldl (fun s (pe : Peer × Entry) =>
      s.setPq pe.1 (pushTrunc cfg.limit (s.pq pe.1)
        [{ topic := k, prio := pe.2.prio, work := if sendAsBlock cfg pe.2.wt (cfg.size k) then cfg.size k else cfg.pres k,
           d := { blockSize := cfg.size k, haveBlock := true, isWantBlock := sendAsBlock cfg pe.2.wt (cfg.size k),
                  sendDontHave := false } }])) s).ledger = s.ledger := by
  induction ps with
  | nil => intro s; rfl
  | cons x r ih => intro s; simp only [List.foldl_cons]; rw [ih]; rfl

theorem notifyNewBlock_ledger (cfg : Cfg) (s : State) (k : Cid) : (notifyNewBlock cfg s k).ledger = s.ledger := by
  unfold notifyNewBlock
  exact notify_ledger cfg k _ s

theorem popOnce_ledger (cfg : Cfg) (s : State) (p : Peer) (sel : List Cid) : (popOnce cfg s p sel).1.ledger = s.ledger := by
  unfold popOnce
  simp only
  split
  · rfl
  · split <;> rfl

theorem messageSent_inv (env : Env) (h : LedgerInvAt limit env.peer allowed P) (l : Ledger) (hl : P l) :
    P (messageSent l env) := by
  unfold messageSent
  have fold : ∀ (t : WT) (cs : List Cid) (l : Ledger), P l →
      P (cs.foldl (fun l c => l.cancelWantWithType env.peer c t) l) := by
    intro t cs
    induction cs with
    | nil => intro l hl; exact hl
    | cons c r ih => intro l hl; exact ih _ (h.cancelT l c t hl)
  exact fold _ _ _ (fold _ _ _ hl)

theorem ack_ledger (s : State) (id : Nat) :
    (ack s id).ledger = s.ledger ∨ ∃ env, (ack s id).ledger = messageSent s.ledger env := by
  unfold ack
  split
  · left; rfl
  · right; exact ⟨_, rfl⟩

/-- every engine operation preserves a ledger invariant -/
theorem step_ledgerInv (cfg : Cfg) (h : LedgerInv cfg.limit P) (s : State) (op : Op) (hs : P s.ledger) :
    P (step cfg s op).ledger := by
  cases op with
  | msg p full es => exact msgReceived_inv cfg (h p) s full es (fun _ _ => trivial) hs
  | add c => simp only [step]; rw [notifyNewBlock_ledger]; exact hs
  | rm c => exact hs
  | pop p sel => simp only [step]; rw [popOnce_ledger]; exact hs
  | ack id =>
    simp only [step]
    rcases ack_ledger s id with e | ⟨env, e⟩ <;> rw [e]
    · exact hs
    · exact messageSent_inv env (h env.peer) _ hs
  | disc p => exact (h p).disc s.ledger hs

theorem run_ledgerInv (cfg : Cfg) (h : LedgerInv cfg.limit P) (ops : List Op) :
    ∀ s : State, P s.ledger → P (run cfg s ops).ledger := by
  induction ops with
  | nil => intro s hs; exact hs
  | cons op r ih => intro s hs; exact ih _ (step_ledgerInv cfg h s op hs)

theorem consistent_inv (limit : Nat) : LedgerInv limit Ledger.Consistent := fun p => {
  wants := fun l c e _ hl => wants_consistent l hl limit p c e
  cancel := fun l k hl => cancelWant_consistent l hl p k
  clear := fun l hl => clear_consistent l hl p
  disc := fun l hl => disc_consistent l hl p }

/-! ### the want-list bound -/

/-- no peer's list is longer than the limit -/
def Ledger.Bounded (limit : Nat) (l : Ledger) : Prop := ∀ p w, find l.peers p = some w → w.length ≤ limit

theorem removePeerFromCid_peers (l : Ledger) (p : Peer) (k : Cid) : (l.removePeerFromCid p k).peers = l.peers := by
  unfold Ledger.removePeerFromCid
  split
  · rfl
  · simp only; split <;> rfl

theorem foldRemove_peers (p : Peer) (ks : List Cid) :
    ∀ l : Ledger, (ks.foldl (fun l c => l.removePeerFromCid p c) l).peers = l.peers := by
  induction ks with
  | nil => intro l; rfl
  | cons k r ih => intro l; simp only [List.foldl_cons]; rw [ih, removePeerFromCid_peers]

theorem bounded_clear (limit : Nat) (l : Ledger) (p : Peer) (hl : Ledger.Bounded limit l) :
    Ledger.Bounded limit (l.clearPeerWantlist p) := by
  unfold Ledger.clearPeerWantlist
  cases hf : find l.peers p with
  | none => exact hl
  | some w =>
    simp only
    intro p' w' hf'
    by_cases hp : p = p'
    · subst hp
      rw [find_insert_self] at hf'
      cases hf'; simp
    · rw [find_insert_ne _ _ _ _ hp, foldRemove_peers] at hf'; exact hl p' w' hf'

theorem bounded_inv (limit : Nat) (hpos : 0 < limit) : LedgerInv limit (Ledger.Bounded limit) := fun p => {
  wants := fun l c e _ hl => by
    have key : ∀ w : Map Cid Entry, (AMap.insert w c e).length ≤ limit →
        Ledger.Bounded limit { peers := AMap.insert l.peers p (AMap.insert w c e),
                               cids := AMap.insert l.cids c (AMap.insert ((find l.cids c).getD []) p e) } := by
      intro w hw p' w' hf
      by_cases hp : p = p'
      · subst hp
        rw [find_insert_self] at hf
        cases hf; exact hw
      · rw [find_insert_ne _ _ _ _ hp] at hf
        exact hl p' w' hf
    unfold Ledger.wants
    cases hf : find l.peers p with
    | none =>
      simp only
      exact key [] (by simp [AMap.insert, erase]; omega)
    | some w =>
      simp only
      split
      · exact hl
      · rename_i hcond
        apply key
        have hw := hl p w hf
        cases hfc : find w c with
        | some e0 =>
          have := erase_length_lt w c (by simp [hfc])
          simp [AMap.insert]; omega
        | none =>
          have h1 : ¬ (limit ≠ 0 ∧ w.length = limit) := by
            intro hx; exact hcond ⟨hx.1, hx.2, by simp [hfc]⟩
          have := keys_erase_length_le w c
          have : w.length ≠ limit := fun e => h1 ⟨by omega, e⟩
          simp [AMap.insert]; omega
  cancel := fun l k hl => by
    unfold Ledger.cancelWant
    cases hf : find l.peers p with
    | none => exact hl
    | some w =>
      simp only
      intro p' w' hf'
      rw [removePeerFromCid_peers] at hf'
      split at hf'
      · by_cases hp : p = p'
        · subst hp; simp [find_erase_self] at hf'
        · rw [find_erase_ne _ _ _ hp] at hf'; exact hl p' w' hf'
      · by_cases hp : p = p'
        · subst hp
          rw [find_insert_self] at hf'
          cases hf'
          have := keys_erase_length_le w k
          have := hl p w hf
          omega
        · rw [find_insert_ne _ _ _ _ hp] at hf'; exact hl p' w' hf'
  clear := fun l hl => bounded_clear limit l p hl
  disc := fun l hl => by
    intro p' w' hf'
    unfold Ledger.peerDisconnected at hf'
    simp only at hf'
    by_cases hp : p = p'
    · subst hp; simp [find_erase_self] at hf'
    · rw [find_erase_ne _ _ _ hp] at hf'
      exact bounded_clear limit l p hl p' w' hf' }

end C36

namespace C36
open AMap

/-! ### request queue: membership and length facts -/

theorem pq_setPq (s : State) (p : Peer) (q : PQ) (p' : Peer) :
    (s.setPq p q).pq p' = if p = p' then q else s.pq p' := by
  unfold State.setPq State.pq
  simp only [find_insert]
  split <;> rfl

theorem mem_remove (q : PQ) (c : Cid) (t : Task) : t ∈ (q.remove c).pending ↔ t ∈ q.pending ∧ t.topic ≠ c := by
  simp [PQ.remove, List.mem_filter]

theorem remove_active (q : PQ) (c : Cid) : (q.remove c).active = q.active := rfl

theorem remove_length (q : PQ) (c : Cid) : (q.remove c).pending.length ≤ q.pending.length := by
  simp [PQ.remove]; exact List.length_filter_le _ _

/-- the task `pushOne` stores when a pending task with the same topic exists -/
def mergedWith (t ex : Task) : Task := merge t (if t.prio > ex.prio then { ex with prio := t.prio } else ex)

theorem mem_replaceTopic (ts : List Task) (t x : Task) (h : x ∈ replaceTopic ts t) : x ∈ ts ∨ x = t := by
  unfold replaceTopic at h
  obtain ⟨y, hy, rfl⟩ := List.mem_map.mp h
  split
  · right; rfl
  · left; exact hy

theorem pushOne_mem (q : PQ) (t x : Task) (h : x ∈ (pushOne q t).pending) :
    x ∈ q.pending ∨ x = t ∨ ∃ ex ∈ q.pending, ex.topic = t.topic ∧ x = mergedWith t ex := by
  unfold pushOne at h
  simp only at h
  split at h
  · left; exact h
  · split at h
    · rename_i ex hex
      rcases mem_replaceTopic _ _ _ h with h1 | h1
      · left; exact h1
      · right; right
        refine ⟨ex, List.mem_of_find?_eq_some hex, ?_, h1⟩
        have := List.find?_some hex
        simpa using this
    · simp only [List.mem_append, List.mem_singleton] at h
      rcases h with h | h
      · left; exact h
      · right; left; exact h

theorem pushOne_active (q : PQ) (t : Task) : (pushOne q t).active = q.active := by
  unfold pushOne
  simp only
  split
  · rfl
  · split <;> rfl

theorem pushOne_length (q : PQ) (t : Task) : (pushOne q t).pending.length ≤ q.pending.length + 1 := by
  unfold pushOne
  simp only
  split
  · omega
  · split
    · simp [replaceTopic]
    · simp

theorem foldl_pushOne_length (ts : List Task) : ∀ q : PQ, (ts.foldl pushOne q).pending.length ≤ q.pending.length + ts.length := by
  induction ts with
  | nil => intro q; simp
  | cons t r ih =>
    intro q
    have := ih (pushOne q t)
    have := pushOne_length q t
    simp only [List.foldl_cons, List.length_cons]
    omega

theorem foldl_pushOne_active (ts : List Task) : ∀ q : PQ, (ts.foldl pushOne q).active = q.active := by
  induction ts with
  | nil => intro q; rfl
  | cons t r ih => intro q; simp only [List.foldl_cons]; rw [ih, pushOne_active]

theorem pushTrunc_length (n : Nat) (q : PQ) (ts : List Task) (h : q.pending.length ≤ n) :
    (pushTrunc n q ts).pending.length ≤ n := by
  unfold pushTrunc
  simp only
  split
  · have := foldl_pushOne_length (ts.take (n - q.pending.length)) q
    have : (ts.take (n - q.pending.length)).length ≤ n - q.pending.length := by
      rw [List.length_take]; omega
    omega
  · have := foldl_pushOne_length ts q
    omega

theorem pushTrunc_active (n : Nat) (q : PQ) (ts : List Task) : (pushTrunc n q ts).active = q.active := by
  unfold pushTrunc
  simp only
  split <;> exact foldl_pushOne_active _ _

/-- every task pending after a (truncated) push was pending before, is one of the pushed tasks, or is the
merge of a pushed task into a task of the same topic that satisfies `Q` -/
theorem foldl_pushOne_all (Q : Task → Prop) (hm : ∀ t ex, Q t → Q ex → ex.topic = t.topic → Q (mergedWith t ex))
    (ts : List Task) : ∀ q : PQ, (∀ x ∈ q.pending, Q x) → (∀ t ∈ ts, Q t) → ∀ x ∈ (ts.foldl pushOne q).pending, Q x := by
  induction ts with
  | nil => intro q hq _ x hx; exact hq x hx
  | cons t r ih =>
    intro q hq ht
    simp only [List.foldl_cons]
    apply ih
    · intro x hx
      rcases pushOne_mem q t x hx with h | h | ⟨ex, hex, htop, rfl⟩
      · exact hq x h
      · subst h; exact ht _ (List.mem_cons_self ..)
      · exact hm t ex (ht _ (List.mem_cons_self ..)) (hq ex hex) htop
    · intro t' ht'; exact ht t' (List.mem_cons_of_mem _ ht')

theorem pushTrunc_all (Q : Task → Prop) (hm : ∀ t ex, Q t → Q ex → ex.topic = t.topic → Q (mergedWith t ex))
    (n : Nat) (q : PQ) (ts : List Task) (hq : ∀ x ∈ q.pending, Q x) (ht : ∀ t ∈ ts, Q t) :
    ∀ x ∈ (pushTrunc n q ts).pending, Q x := by
  unfold pushTrunc
  simp only
  split
  · exact foldl_pushOne_all Q hm _ q hq (fun t h => ht t (List.mem_of_mem_take h))
  · exact foldl_pushOne_all Q hm _ q hq ht

theorem popLoop_mem (target : Nat) (sel : List Cid) :
    ∀ (pend : List Task) (work : Nat) (out : List Task),
      (∀ t ∈ (popLoop target sel pend work out).1, t ∈ out ∨ t ∈ pend) ∧
      (∀ t ∈ (popLoop target sel pend work out).2, t ∈ pend) := by
  induction sel with
  | nil => intro pend work out; simp only [popLoop]; exact ⟨fun t h => Or.inl h, fun t h => h⟩
  | cons c cs ih =>
    intro pend work out
    unfold popLoop
    split
    · split
      · rename_i t ht
        obtain ⟨i1, i2⟩ := ih (pend.filter (·.topic ≠ c)) (work + t.work) (out ++ [t])
        refine ⟨?_, ?_⟩
        · intro x hx
          rcases i1 x hx with h | h
          · rcases List.mem_append.mp h with h | h
            · left; exact h
            · right; simp at h; subst h; exact List.mem_of_find?_eq_some ht
          · right; exact (List.mem_filter.mp h).1
        · intro x hx; exact (List.mem_filter.mp (i2 x hx)).1
      · exact ih pend work out
    · exact ⟨fun t h => Or.inl h, fun t h => h⟩

theorem popLoop_length (target : Nat) (sel : List Cid) :
    ∀ (pend : List Task) (work : Nat) (out : List Task), (popLoop target sel pend work out).2.length ≤ pend.length := by
  induction sel with
  | nil => intro pend work out; simp [popLoop]
  | cons c cs ih =>
    intro pend work out
    unfold popLoop
    split
    · split
      · rename_i t ht
        have := ih (pend.filter (·.topic ≠ c)) (work + t.work) (out ++ [t])
        have := List.length_filter_le (fun x : Task => decide (x.topic ≠ c)) pend
        omega
      · exact ih pend work out
    · simp

/-! the queue component through handleOverflow / intake / cancels: tasks are only removed -/

theorem ovCancel_q (o : OvSt) (p : Peer) (c : Cid) (t : Task) (h : t ∈ (o.cancel p c).q.pending) : t ∈ o.q.pending := by
  unfold OvSt.cancel at h
  simp only at h
  split at h
  · exact ((mem_remove _ _ _).mp h).1
  · exact h

theorem ovCancel_active (o : OvSt) (p : Peer) (c : Cid) : (o.cancel p c).q.active = o.q.active := by
  unfold OvSt.cancel
  simp only
  split <;> rfl

theorem ovStage1_q (cfg : Cfg) (s : State) (p : Peer) :
    ∀ (ws : List (Cid × Entry)) (i : Nat) (over : List MEntry) (removed : List Nat) (o : OvSt),
      (∀ t ∈ (ovStage1 cfg s p i ws over removed o).1.q.pending, t ∈ o.q.pending) ∧
      (ovStage1 cfg s p i ws over removed o).1.q.active = o.q.active := by
  intro ws
  induction ws with
  | nil => intro i over removed o; simp [ovStage1]
  | cons w ws ih =>
    intro i over removed o
    obtain ⟨c, e⟩ := w
    cases over with
    | nil => simp [ovStage1]
    | cons n ns =>
      unfold ovStage1
      split
      · simp only
        split
        · exact ⟨fun t ht => ovCancel_q o p c t ht, ovCancel_active o p c⟩
        · obtain ⟨i1, i2⟩ := ih (i + 1) ns (removed ++ [i])
            { (o.cancel p c) with ledger := ((o.cancel p c).ledger.wants cfg.limit p n.cid ⟨n.prio, n.wt⟩).1,
                                  wants := (o.cancel p c).wants ++ [n],
                                  log := (o.cancel p c).log ++ [⟨c, e.prio, false, n, 1⟩] }
          exact ⟨fun t ht => ovCancel_q o p c t (i1 t ht), by rw [i2]; exact ovCancel_active o p c⟩
      · exact ih _ _ _ _

theorem ovStage2_q (cfg : Cfg) (p : Peer) :
    ∀ (ws : List (Cid × Entry)) (i : Nat) (removed : List Nat) (over : List MEntry) (o : OvSt),
      (∀ t ∈ (ovStage2 cfg p i ws removed over o).q.pending, t ∈ o.q.pending) ∧
      (ovStage2 cfg p i ws removed over o).q.active = o.q.active := by
  intro ws
  induction ws with
  | nil => intro i removed over o; cases over <;> simp [ovStage2]
  | cons w ws ih =>
    intro i removed over o
    obtain ⟨c, e⟩ := w
    cases over with
    | nil => simp [ovStage2]
    | cons n ns =>
      unfold ovStage2
      split
      · exact ih _ _ _ _
      · split
        · simp
        · obtain ⟨i1, i2⟩ := ih (i + 1) removed ns
            { (o.cancel p c) with ledger := ((o.cancel p c).ledger.wants cfg.limit p n.cid ⟨n.prio, n.wt⟩).1,
                                  wants := (o.cancel p c).wants ++ [n],
                                  log := (o.cancel p c).log ++ [⟨c, e.prio, true, n, 2⟩] }
          exact ⟨fun t ht => ovCancel_q o p c t (i1 t ht), by rw [i2]; exact ovCancel_active o p c⟩

theorem handleOverflow_q (cfg : Cfg) (s : State) (p : Peer) (l : Ledger) (q : PQ) (overflow wants : List MEntry) :
    (∀ t ∈ (handleOverflow cfg s p l q overflow wants).q.pending, t ∈ q.pending) ∧
    (handleOverflow cfg s p l q overflow wants).q.active = q.active := by
  unfold handleOverflow
  simp only
  obtain ⟨a1, a2⟩ := ovStage1_q cfg s p ((l.wantlistForPeer p).mergeSort (existLe cfg)) 0
    (overflow.mergeSort (overLe cfg)) [] { ledger := l, q := q, wants := wants }
  split
  · exact ⟨a1, a2⟩
  · obtain ⟨b1, b2⟩ := ovStage2_q cfg p ((l.wantlistForPeer p).mergeSort (existLe cfg)) 0
      (ovStage1 cfg s p 0 ((l.wantlistForPeer p).mergeSort (existLe cfg)) (overflow.mergeSort (overLe cfg)) []
        { ledger := l, q := q, wants := wants }).2.2
      (ovStage1 cfg s p 0 ((l.wantlistForPeer p).mergeSort (existLe cfg)) (overflow.mergeSort (overLe cfg)) []
        { ledger := l, q := q, wants := wants }).2.1
      (ovStage1 cfg s p 0 ((l.wantlistForPeer p).mergeSort (existLe cfg)) (overflow.mergeSort (overLe cfg)) []
        { ledger := l, q := q, wants := wants }).1
    exact ⟨fun t ht => a1 t (b1 t ht), by rw [b2, a2]⟩

/-- after `intake` the peer's pending tasks are a subset of the old ones, and none is left after a full message -/
theorem intake_q (cfg : Cfg) (s : State) (p : Peer) (full : Bool) (w0 : List MEntry) :
    (∀ t ∈ (intake cfg s p full w0).q.pending, t ∈ (s.pq p).pending ∧ full = false) ∧
    (intake cfg s p full w0).q.active = (s.pq p).active := by
  unfold intake
  simp only
  by_cases he : (filterOverflow cfg p w0 (if full then s.ledger.clearPeerWantlist p else s.ledger) [] []).2.2.isEmpty
  · rw [if_pos he]
    cases full <;> simp
  · rw [if_neg he]
    obtain ⟨a1, a2⟩ := handleOverflow_q cfg s p
      (filterOverflow cfg p w0 (if full then s.ledger.clearPeerWantlist p else s.ledger) [] []).1
      (if full then { (s.pq p) with pending := [] } else s.pq p)
      (filterOverflow cfg p w0 (if full then s.ledger.clearPeerWantlist p else s.ledger) [] []).2.2
      (filterOverflow cfg p w0 (if full then s.ledger.clearPeerWantlist p else s.ledger) [] []).2.1
    refine ⟨?_, ?_⟩
    · intro t ht
      have := a1 t ht
      cases full <;> simp_all
    · simp only [a2]; cases full <;> rfl

theorem applyCancels_q (p : Peer) (cs : List MEntry) :
    ∀ (lq : Ledger × PQ),
      (∀ t, t ∈ (applyCancels p cs lq).2.pending ↔ t ∈ lq.2.pending ∧ ∀ c ∈ cs, t.topic ≠ c.cid) ∧
      (applyCancels p cs lq).2.active = lq.2.active := by
  induction cs with
  | nil => intro lq; simp [applyCancels]
  | cons c r ih =>
    intro lq
    simp only [applyCancels, List.foldl_cons]
    obtain ⟨i1, i2⟩ := ih ((lq.1.cancelWant p c.cid).1, lq.2.remove c.cid)
    simp only [applyCancels] at i1 i2
    refine ⟨?_, ?_⟩
    · intro t
      rw [i1 t, mem_remove]
      simp only [List.mem_cons, forall_eq_or_imp]
      exact and_assoc
    · exact i2

end C36

namespace C36
open AMap

/-! ### the same facts as sublists (for lengths) -/

theorem ovCancel_sub (o : OvSt) (p : Peer) (c : Cid) : (o.cancel p c).q.pending.Sublist o.q.pending := by
  unfold OvSt.cancel
  simp only
  split
  · exact List.filter_sublist
  · exact List.Sublist.refl _

theorem ovStage1_sub (cfg : Cfg) (s : State) (p : Peer) :
    ∀ (ws : List (Cid × Entry)) (i : Nat) (over : List MEntry) (removed : List Nat) (o : OvSt),
      (ovStage1 cfg s p i ws over removed o).1.q.pending.Sublist o.q.pending := by
  intro ws
  induction ws with
  | nil => intro i over removed o; simp [ovStage1]
  | cons w ws ih =>
    intro i over removed o
    obtain ⟨c, e⟩ := w
    cases over with
    | nil => simp [ovStage1]
    | cons n ns =>
      unfold ovStage1
      split
      · simp only
        split
        · exact ovCancel_sub o p c
        · exact (ih (i + 1) ns (removed ++ [i])
            { (o.cancel p c) with ledger := ((o.cancel p c).ledger.wants cfg.limit p n.cid ⟨n.prio, n.wt⟩).1,
                                  wants := (o.cancel p c).wants ++ [n],
                                  log := (o.cancel p c).log ++ [⟨c, e.prio, false, n, 1⟩] }).trans (ovCancel_sub o p c)
      · exact ih _ _ _ _

theorem ovStage2_sub (cfg : Cfg) (p : Peer) :
    ∀ (ws : List (Cid × Entry)) (i : Nat) (removed : List Nat) (over : List MEntry) (o : OvSt),
      (ovStage2 cfg p i ws removed over o).q.pending.Sublist o.q.pending := by
  intro ws
  induction ws with
  | nil => intro i removed over o; cases over <;> simp [ovStage2]
  | cons w ws ih =>
    intro i removed over o
    obtain ⟨c, e⟩ := w
    cases over with
    | nil => simp [ovStage2]
    | cons n ns =>
      unfold ovStage2
      split
      · exact ih _ _ _ _
      · split
        · exact List.Sublist.refl _
        · exact (ih (i + 1) removed ns
            { (o.cancel p c) with ledger := ((o.cancel p c).ledger.wants cfg.limit p n.cid ⟨n.prio, n.wt⟩).1,
                                  wants := (o.cancel p c).wants ++ [n],
                                  log := (o.cancel p c).log ++ [⟨c, e.prio, true, n, 2⟩] }).trans (ovCancel_sub o p c)

theorem handleOverflow_sub (cfg : Cfg) (s : State) (p : Peer) (l : Ledger) (q : PQ) (overflow wants : List MEntry) :
    (handleOverflow cfg s p l q overflow wants).q.pending.Sublist q.pending := by
  unfold handleOverflow
  simp only
  have a := ovStage1_sub cfg s p ((l.wantlistForPeer p).mergeSort (existLe cfg)) 0
    (overflow.mergeSort (overLe cfg)) [] { ledger := l, q := q, wants := wants }
  split
  · exact a
  · exact (ovStage2_sub cfg p _ _ _ _ _).trans a

theorem intake_sub (cfg : Cfg) (s : State) (p : Peer) (full : Bool) (w0 : List MEntry) :
    (intake cfg s p full w0).q.pending.Sublist (s.pq p).pending := by
  unfold intake
  simp only
  have hq : (if full then { (s.pq p) with pending := [] } else s.pq p : PQ).pending.Sublist (s.pq p).pending := by
    cases full <;> simp
  by_cases he : (filterOverflow cfg p w0 (if full then s.ledger.clearPeerWantlist p else s.ledger) [] []).2.2.isEmpty
  · rw [if_pos he]; exact hq
  · rw [if_neg he]; exact (handleOverflow_sub cfg s p _ _ _ _).trans hq

theorem applyCancels_sub (p : Peer) (cs : List MEntry) :
    ∀ (lq : Ledger × PQ), (applyCancels p cs lq).2.pending.Sublist lq.2.pending := by
  induction cs with
  | nil => intro lq; exact List.Sublist.refl _
  | cons c r ih =>
    intro lq
    simp only [applyCancels, List.foldl_cons]
    have := ih ((lq.1.cancelWant p c.cid).1, lq.2.remove c.cid)
    simp only [applyCancels] at this
    exact this.trans List.filter_sublist

/-- pending-queue bound through one step -/
def QBounded (n : Nat) (s : State) : Prop := ∀ p, (s.pq p).pending.length ≤ n

theorem msgReceived_pq (cfg : Cfg) (s : State) (p : Peer) (full : Bool) (es : List MEntry) (p' : Peer) :
    (msgReceived cfg s p full es).state.pq p' =
      if es.isEmpty then s.pq p'
      else if p = p' then
        (let o := intake cfg s p full (split cfg p es [] [] []).1
         let lq := applyCancels p (split cfg p es [] [] []).2.1 (o.ledger, o.q)
         let active := activeEntries cfg (blockSizeFor cfg s (split cfg p es [] [] []).1) (split cfg p es [] [] []).2.2 o.wants
         if active.isEmpty then lq.2 else pushTrunc cfg.limit lq.2 active)
      else s.pq p' := by
  unfold msgReceived
  split
  · rfl
  · simp only [pq_setPq]
    split <;> rfl

theorem notify_pq_other (cfg : Cfg) (k : Cid) (mk : Peer × Entry → Task) (ps : List (Peer × Entry)) (p' : Peer) :
    ∀ s : State, (∀ pe ∈ ps, pe.1 ≠ p') →
      ((ps.foldl (fun s (pe : Peer × Entry) => s.setPq pe.1 (pushTrunc cfg.limit (s.pq pe.1) [mk pe])) s).pq p') = s.pq p' := by
  induction ps with
  | nil => intro s _; rfl
  | cons x r ih =>
    intro s h
    simp only [List.foldl_cons]
    rw [ih _ (fun pe hpe => h pe (List.mem_cons_of_mem _ hpe)), pq_setPq]
    simp [h x (List.mem_cons_self ..)]

/-- a property of one peer's queue that `pushTrunc` of a notify task preserves is preserved by the whole fold -/
theorem notify_fold_inv (cfg : Cfg) (mk : Peer × Entry → Task) (R : Peer → PQ → Prop) (ps : List (Peer × Entry))
    (hstep : ∀ pe ∈ ps, ∀ q, R pe.1 q → R pe.1 (pushTrunc cfg.limit q [mk pe])) :
    ∀ s : State, (∀ p, R p (s.pq p)) →
      ∀ p, R p ((ps.foldl (fun s (pe : Peer × Entry) => s.setPq pe.1 (pushTrunc cfg.limit (s.pq pe.1) [mk pe])) s).pq p) := by
  induction ps with
  | nil => intro s h p; exact h p
  | cons x r ih =>
    intro s h
    simp only [List.foldl_cons]
    apply ih (fun pe hpe => hstep pe (List.mem_cons_of_mem _ hpe))
    intro p
    rw [pq_setPq]
    split
    · rename_i e; subst e; exact hstep x (List.mem_cons_self ..) _ (h x.1)
    · exact h p

/-- the task NotifyNewBlocks pushes for one (peer, ledger entry) -/
def notifyTask (cfg : Cfg) (k : Cid) (pe : Peer × Entry) : Task :=
  { topic := k, prio := pe.2.prio, work := if sendAsBlock cfg pe.2.wt (cfg.size k) then cfg.size k else cfg.pres k,
    d := { blockSize := cfg.size k, haveBlock := true, isWantBlock := sendAsBlock cfg pe.2.wt (cfg.size k),
           sendDontHave := false } }

theorem notifyNewBlock_eq (cfg : Cfg) (s : State) (k : Cid) :
    notifyNewBlock cfg s k = (s.ledger.peersOf k).foldl
      (fun s (pe : Peer × Entry) => s.setPq pe.1 (pushTrunc cfg.limit (s.pq pe.1) [notifyTask cfg k pe])) s := rfl

theorem popOnce_pq (cfg : Cfg) (s : State) (p : Peer) (sel : List Cid) (p' : Peer) :
    (p ≠ p' → (popOnce cfg s p sel).1.pq p' = s.pq p') ∧
    ((popOnce cfg s p sel).1.pq p).pending.Sublist (s.pq p).pending := by
  unfold popOnce
  simp only
  have hsub : ∀ (sel : List Cid) (pend : List Task) (w : Nat) (out : List Task),
      (popLoop cfg.target sel pend w out).2.Sublist pend := by
    intro sel
    induction sel with
    | nil => intro pend w out; simp [popLoop]
    | cons c cs ih =>
      intro pend w out
      unfold popLoop
      split
      · split
        · exact (ih _ _ _).trans List.filter_sublist
        · exact ih _ _ _
      · exact List.Sublist.refl _
  split
  · exact ⟨fun _ => rfl, List.Sublist.refl _⟩
  · split
    · refine ⟨fun hne => ?_, ?_⟩
      · simp only [pq_setPq, hne, if_false]
      · simp only [pq_setPq, if_true]; exact hsub _ _ _ _
    · refine ⟨fun hne => ?_, ?_⟩
      · show (State.setPq s p _).pq p' = _
        simp only [pq_setPq, hne, if_false]
      · show ((State.setPq s p _).pq p).pending.Sublist _
        simp only [pq_setPq, if_true]; exact hsub _ _ _ _

theorem ack_pq (s : State) (id : Nat) (p' : Peer) : ((ack s id).pq p').pending = (s.pq p').pending := by
  unfold ack
  split
  · rfl
  · rename_i env _
    show ((State.setPq s env.peer _).pq p').pending = _
    rw [pq_setPq]
    split
    · rename_i e; subst e; rfl
    · rfl

theorem disconnect_pq (s : State) (p p' : Peer) :
    (disconnect s p).pq p' = if p = p' then {} else s.pq p' := by
  unfold disconnect State.pq
  simp only [find_erase]
  split <;> rfl

theorem step_qBounded (cfg : Cfg) (s : State) (op : Op) (h : QBounded cfg.limit s) : QBounded cfg.limit (step cfg s op) := by
  cases op with
  | msg p full es =>
    intro p'
    simp only [step]
    rw [msgReceived_pq]
    split
    · exact h p'
    · split
      · rename_i e; subst e
        have h1 := (applyCancels_sub p (split cfg p es [] [] []).2.1
          ((intake cfg s p full (split cfg p es [] [] []).1).ledger, (intake cfg s p full (split cfg p es [] [] []).1).q)).length_le
        have h2 := (intake_sub cfg s p full (split cfg p es [] [] []).1).length_le
        have h3 := h p
        simp only at h1
        simp only
        split
        · omega
        · exact pushTrunc_length _ _ _ (by omega)
      · exact h p'
  | add c =>
    simp only [step]
    rw [notifyNewBlock_eq]
    exact notify_fold_inv cfg (notifyTask cfg c) (fun _ q => q.pending.length ≤ cfg.limit) _
      (fun pe _ q hq => pushTrunc_length _ _ _ hq) _ h
  | rm c => exact h
  | pop p sel =>
    intro p'
    simp only [step]
    by_cases hp : p = p'
    · subst hp
      have := ((popOnce_pq cfg s p sel p).2).length_le
      have := h p
      omega
    · rw [(popOnce_pq cfg s p sel p').1 hp]; exact h p'
  | ack id => intro p'; simp only [step]; rw [ack_pq]; exact h p'
  | disc p =>
    intro p'
    simp only [step]
    rw [disconnect_pq]
    split
    · simp
    · exact h p'

end C36
