import BoxoModel.Lib.AMap
/-
C36 — bitswap server decision engine: executable model.

Transcribed from /repo/bitswap/server/internal/decision/{engine.go, peer_ledger.go, taskmerger.go}
(with the four `fix:` commits of branch verif/bsserver and the two of verif/bsserver2) and, for the request queue, from the parts of
go-peertaskqueue v0.8.3 the engine relies on (peertracker.PushTasksTruncated / PopTasks / TaskDone /
Remove, peertaskqueue.Clear), branch for branch:

  peerLedger {peers, cids}        ~ `Ledger`  (the two maps VERBATIM, as association lists; that they mirror
                                     each other is theorem `c36_ledger_consistent`, not an assumption)
  blockstore                      ~ `store : List Cid` (present blocks) + `Cfg.size` (block length per CID)
  PeerTracker {pendingTasks, activeTasks} ~ `PQ {pending, active}`; the ORDER in which pending tasks are popped
                                     and the peer that is served are arguments of the pop step (`Op.pop p sel`):
                                     theorems quantify over every choice, the driver instantiates the choice
                                     with the total order the harness installs through WithTaskComparator
  Envelope                        ~ `Env` (blocks / HAVEs / DONT_HAVEs / pendingBytes), outstanding until `ack`
  splitWantsCancelsDenials, filterOverflow, handleOverflow, MessageReceived, NotifyNewBlocks, nextEnvelope,
  MessageSent, PeerDisconnected   ~ `split`, `filterOverflow`, `handleOverflow`, `msgReceived`, `notifyNewBlock`,
                                     `popOnce`, `messageSent`, `disconnect`

Parameters (never modelled, supplied by the harness per case): CID byte length, identity flag, block-presence
size, block length, the request filter, the order of equal priorities inside handleOverflow (`tie`: the Go code
leaves it to map iteration and an unstable sort; the harness fixes it through the verif schedule point).
Core-only (no Mathlib): imported by the line-protocol driver.
-/
namespace C36
open AMap

abbrev Peer := Nat
abbrev Cid := Nat

inductive WT where
  | block
  | have
  deriving DecidableEq, Repr

/-- peer_ledger.go `entry` -/
structure Entry where
  prio : Int
  wt : WT
  deriving DecidableEq, Repr

/-- bsmsg.Entry (wantlist.Entry + Cancel + SendDontHave) -/
structure MEntry where
  cid : Cid
  prio : Int
  wt : WT
  cancel : Bool
  sdh : Bool
  deriving DecidableEq, Repr

structure Cfg where
  limit : Nat            -- maxQueuedWantlistEntriesPerPeer (= peerLedger.maxEntriesPerPeer)
  replace : Nat          -- wantHaveReplaceSize
  sdh : Bool             -- sendDontHaves
  target : Nat           -- targetMessageSize
  maxCid : Nat           -- maxCidSize (0 = no limit)
  byteLen : Cid → Nat
  isIdent : Cid → Bool
  pres : Cid → Nat       -- bsmsg.BlockPresenceSize
  size : Cid → Nat       -- length of the block a CID names
  denied : Peer → Cid → Bool   -- ¬ peerBlockRequestFilter
  tie : Cid → Nat

/-! ## peer ledger (peer_ledger.go) -/

structure Ledger where
  peers : Map Peer (Map Cid Entry) := []
  cids : Map Cid (Map Peer Entry) := []

namespace Ledger

/-- `Wants`: false when the peer's list is full and the CID is new. -/
def wants (l : Ledger) (limit : Nat) (p : Peer) (c : Cid) (e : Entry) : Ledger × Bool :=
  let go (w : Map Cid Entry) : Ledger × Bool :=
    let m := (find l.cids c).getD []
    ({ peers := insert l.peers p (insert w c e), cids := insert l.cids c (insert m p e) }, true)
  match find l.peers p with
  | none => go []
  | some w =>
    if limit ≠ 0 ∧ w.length = limit ∧ (find w c).isNone then (l, false) else go w

def removePeerFromCid (l : Ledger) (p : Peer) (k : Cid) : Ledger :=
  match find l.cids k with
  | none => l
  | some m =>
    let m' := erase m p
    if m'.length = 0 then { l with cids := erase l.cids k } else { l with cids := insert l.cids k m' }

/-- `CancelWant` -/
def cancelWant (l : Ledger) (p : Peer) (k : Cid) : Ledger × Bool :=
  match find l.peers p with
  | none => (l, false)
  | some w =>
    let had := (find w k).isSome
    let w' := erase w k
    let l1 : Ledger := if w'.length = 0 then { l with peers := erase l.peers p } else { l with peers := insert l.peers p w' }
    (removePeerFromCid l1 p k, had)

/-- `CancelWantWithType` -/
def cancelWantWithType (l : Ledger) (p : Peer) (k : Cid) (typ : WT) : Ledger :=
  match find l.peers p with
  | none => l
  | some w =>
    match find w k with
    | none => l
    | some e =>
      if typ = .have ∧ e.wt = .block then l
      else
        let w' := erase w k
        let l1 : Ledger := if w'.length = 0 then { l with peers := erase l.peers p } else { l with peers := insert l.peers p w' }
        removePeerFromCid l1 p k

/-- `ClearPeerWantlist` (with the fix: the per-peer map is emptied too, and kept) -/
def clearPeerWantlist (l : Ledger) (p : Peer) : Ledger :=
  match find l.peers p with
  | none => l
  | some w =>
    let l1 := (keys w).foldl (fun l c => removePeerFromCid l p c) l
    { l1 with peers := insert l1.peers p [] }

/-- `PeerDisconnected` -/
def peerDisconnected (l : Ledger) (p : Peer) : Ledger :=
  let l1 := clearPeerWantlist l p
  { l1 with peers := erase l1.peers p }

/-- `WantlistForPeer` (Go: map iteration order; callers sort) -/
def wantlistForPeer (l : Ledger) (p : Peer) : Map Cid Entry := (find l.peers p).getD []

/-- `Peers(k)` -/
def peersOf (l : Ledger) (k : Cid) : Map Peer Entry := (find l.cids k).getD []

end Ledger

/-! ## request queue (go-peertaskqueue as used by the engine; taskmerger.go) -/

/-- taskmerger.go `taskData` -/
structure TData where
  isWantBlock : Bool
  sendDontHave : Bool
  blockSize : Nat
  haveBlock : Bool
  deriving DecidableEq, Repr

/-- peertask.Task -/
structure Task where
  topic : Cid
  prio : Int
  work : Nat
  d : TData
  deriving DecidableEq, Repr

/-- taskMerger.HasNewInfo -/
def hasNewInfo (t : Task) (existing : List Task) : Bool :=
  let haveSize := existing.any (·.d.haveBlock)
  let isWantBlock := existing.any (·.d.isWantBlock)
  (!isWantBlock && t.d.isWantBlock) || (!haveSize && t.d.haveBlock)

/-- taskMerger.Merge (the three `if`s in sequence, on the mutated existing task) -/
def merge (new ex : Task) : Task :=
  -- 1. size information arrives
  let hb1 := if !ex.d.haveBlock && new.d.haveBlock then new.d.haveBlock else ex.d.haveBlock
  let bs1 := if !ex.d.haveBlock && new.d.haveBlock then new.d.blockSize else ex.d.blockSize
  -- 2. want-have replaced by want-block
  let up := !ex.d.isWantBlock && new.d.isWantBlock
  let wb2 := if up then true else ex.d.isWantBlock
  let up2 := up && (!hb1 || new.d.haveBlock)
  let hb2 := if up2 then new.d.haveBlock else hb1
  let work2 := if up2 then new.work else ex.work
  -- 3. want-block with a size: work = block size
  let work3 := if wb2 && hb2 then bs1 else work2
  { ex with work := work3, d := { ex.d with isWantBlock := wb2, haveBlock := hb2, blockSize := bs1 } }

/-- one PeerTracker: pending tasks (Go: map by topic + heap) and active tasks tagged with the envelope
that carries them (Go: pointer identity in TaskDone) -/
structure PQ where
  pending : List Task := []
  active : List (Nat × Task) := []

def replaceTopic (ts : List Task) (t : Task) : List Task :=
  ts.map fun x => if x.topic = t.topic then t else x

/-- body of the `for _, task := range tasks` loop of PeerTracker.PushTasksTruncated -/
def pushOne (q : PQ) (t : Task) : PQ :=
  let act := (q.active.filter (·.2.topic = t.topic)).map (·.2)
  if !(act.isEmpty || hasNewInfo t act) then q      -- taskHasMoreInfoThanActiveTasks
  else
    match q.pending.find? (·.topic = t.topic) with
    | some ex =>
      let ex1 := if t.prio > ex.prio then { ex with prio := t.prio } else ex
      { q with pending := replaceTopic q.pending (merge t ex1) }
    | none => { q with pending := q.pending ++ [t] }

/-- PeerTracker.PushTasksTruncated(n, tasks...): truncation BEFORE merging, as in the library -/
def pushTrunc (n : Nat) (q : PQ) (tasks : List Task) : PQ :=
  let l := q.pending.length
  let tasks := if l + tasks.length > n then tasks.take (n - l) else tasks
  tasks.foldl pushOne q

/-- PeerTracker.Remove(topic) -/
def PQ.remove (q : PQ) (c : Cid) : PQ := { q with pending := q.pending.filter (·.topic ≠ c) }

/-- PeerTracker.PopTasks: pops, in the order `sel` (the heap order — arbitrary here), while work < target -/
def popLoop (target : Nat) : List Cid → List Task → Nat → List Task → List Task × List Task
  | [], pend, _, out => (out, pend)
  | c :: cs, pend, work, out =>
    if work < target then
      match pend.find? (·.topic = c) with
      | some t => popLoop target cs (pend.filter (·.topic ≠ c)) (work + t.work) (out ++ [t])
      | none => popLoop target cs pend work out
    else (out, pend)

def pendingWork (ts : List Task) : Nat := (ts.map (·.work)).sum

/-! ## engine state -/

structure Env where
  id : Nat
  peer : Peer
  blocks : List Cid
  haves : List Cid
  dontHaves : List Cid
  pendingBytes : Nat
  deriving Repr

structure State where
  ledger : Ledger := {}
  store : List Cid := []
  q : Map Peer PQ := []
  outst : List Env := []
  nextId : Nat := 0

def State.pq (s : State) (p : Peer) : PQ := (find s.q p).getD {}
def State.setPq (s : State) (p : Peer) (q : PQ) : State := { s with q := insert s.q p q }
def State.has (s : State) (c : Cid) : Bool := s.store.contains c

/-- peerRequestQueue.Remove(c, p) -/
def State.qRemove (s : State) (p : Peer) (c : Cid) : State := s.setPq p ((s.pq p).remove c)

/-- blockstoreManager.getBlockSizes (sizes start at -1 = not found; a stored block may have length 0) -/
def getBlockSize (cfg : Cfg) (s : State) (c : Cid) : Option Nat :=
  if s.has c then some (cfg.size c) else none

/-- Engine.sendAsBlock -/
def sendAsBlock (cfg : Cfg) (wt : WT) (blockSize : Nat) : Bool := wt = .block || blockSize ≤ cfg.replace

/-! ## MessageReceived -/

/-- splitWantsCancelsDenials -/
def split (cfg : Cfg) (p : Peer) : List MEntry → List MEntry → List MEntry → List MEntry →
    List MEntry × List MEntry × List MEntry
  | [], wants, cancels, denials => (wants, cancels, denials)
  | et :: r, wants, cancels, denials =>
    if cfg.maxCid ≠ 0 ∧ cfg.byteLen et.cid > cfg.maxCid then split cfg p r wants cancels denials
    else if cfg.isIdent et.cid then split cfg p r wants cancels denials
    else if et.cancel then split cfg p r wants (cancels ++ [et]) denials
    else if cfg.denied p et.cid then split cfg p r wants cancels (denials ++ [et])
    else if wants.length < cfg.limit then split cfg p r (wants ++ [et]) cancels denials
    else split cfg p r wants cancels denials

/-- filterOverflow: entries the ledger accepts stay, the others go to `overflow` -/
def filterOverflow (cfg : Cfg) (p : Peer) : List MEntry → Ledger → List MEntry → List MEntry →
    Ledger × List MEntry × List MEntry
  | [], l, kept, over => (l, kept, over)
  | et :: r, l, kept, over =>
    let (l', ok) := l.wants cfg.limit p et.cid ⟨et.prio, et.wt⟩
    if ok then filterOverflow cfg p r l' (kept ++ [et]) over
    else filterOverflow cfg p r l' kept (over ++ [et])

/-- one eviction performed by handleOverflow (ghost output used by `c36_overflow_order`) -/
structure Evict where
  cid : Cid
  prio : Int
  hadBlock : Bool
  by_ : MEntry
  stage : Nat
  deriving Repr

structure OvSt where
  ledger : Ledger
  q : PQ
  wants : List MEntry
  log : List Evict := []
  panic : Bool := false

/-- `if e.peerLedger.CancelWant(p, c) { e.peerRequestQueue.Remove(c, p) }` -/
def OvSt.cancel (o : OvSt) (p : Peer) (c : Cid) : OvSt :=
  let (l, had) := o.ledger.cancelWant p c
  { o with ledger := l, q := if had then o.q.remove c else o.q }

/-- first loop of handleOverflow: wants without a local block are cancelled, each replaced by the best
remaining overflow entry. Returns the indices removed and the overflow entries left (none left = return). -/
def ovStage1 (cfg : Cfg) (s : State) (p : Peer) : Nat → List (Cid × Entry) → List MEntry → List Nat → OvSt →
    OvSt × List MEntry × List Nat
  | _, [], over, removed, o => (o, over, removed)
  | _, _ :: _, [], removed, o => (o, [], removed)
  | i, (c, e) :: ws, n :: ns, removed, o =>
    if (getBlockSize cfg s c).isNone then
      let o1 := o.cancel p c
      let (l2, _) := o1.ledger.wants cfg.limit p n.cid ⟨n.prio, n.wt⟩
      let o2 := { o1 with ledger := l2, wants := o1.wants ++ [n],
                          log := o1.log ++ [⟨c, e.prio, false, n, 1⟩] }
      if ns.isEmpty then (o2, [], removed ++ [i])
      else ovStage1 cfg s p (i + 1) ws ns (removed ++ [i]) o2
    else ovStage1 cfg s p (i + 1) ws (n :: ns) removed o

/-- second loop of handleOverflow. `i` is `replace`, the list is `existingWants[replace:]`; the first
branch is the inner `for len(removed) != 0 && replace == removed[0]` loop; running out of existing wants
is Go's index-out-of-range panic. -/
def ovStage2 (cfg : Cfg) (p : Peer) : Nat → List (Cid × Entry) → List Nat → List MEntry → OvSt → OvSt
  | _, _, _, [], o => o
  | _, [], _, _ :: _, o => { o with panic := true }
  | i, (c, e) :: ws, removed, n :: ns, o =>
    if removed.head? = some i then ovStage2 cfg p (i + 1) ws removed.tail (n :: ns) o
    else if n.prio < e.prio then o
    else
      let o1 := o.cancel p c
      let (l2, _) := o1.ledger.wants cfg.limit p n.cid ⟨n.prio, n.wt⟩
      ovStage2 cfg p (i + 1) ws removed ns
        { o1 with ledger := l2, wants := o1.wants ++ [n], log := o1.log ++ [⟨c, e.prio, true, n, 2⟩] }

/-- overflow entries: most important first; equal priorities in `tie` order -/
def overLe (cfg : Cfg) (a b : MEntry) : Bool :=
  a.prio > b.prio || (a.prio == b.prio && cfg.tie a.cid ≤ cfg.tie b.cid)

/-- existing wants: least important first (the fixed direction); equal priorities in `tie` order -/
def existLe (cfg : Cfg) (a b : Cid × Entry) : Bool :=
  a.2.prio < b.2.prio || (a.2.prio == b.2.prio && cfg.tie a.1 ≤ cfg.tie b.1)

/-- handleOverflow -/
def handleOverflow (cfg : Cfg) (s : State) (p : Peer) (l : Ledger) (q : PQ) (overflow wants : List MEntry) : OvSt :=
  let over := overflow.mergeSort (overLe cfg)
  let existing := (l.wantlistForPeer p).mergeSort (existLe cfg)
  let (o1, over1, removed) := ovStage1 cfg s p 0 existing over [] { ledger := l, q := q, wants := wants }
  if over1.isEmpty then o1 else ovStage2 cfg p 0 existing removed over1 o1

/-- the DONT_HAVE task of the `sendDontHave` closure -/
def dontHaveTask (cfg : Cfg) (et : MEntry) : List Task :=
  if cfg.sdh && et.sdh then
    [{ topic := et.cid, prio := et.prio, work := cfg.pres et.cid,
       d := { blockSize := 0, haveBlock := false, isWantBlock := et.wt = .block, sendDontHave := et.sdh } }]
  else []

/-- the `blockSizes` map of MessageReceived, as a lookup: getBlockSizes for want-blocks (and want-haves
when replacing is enabled), hasBlocks (size 0) for want-haves when it is not -/
def blockSizeFor (cfg : Cfg) (s : State) (wantsAll : List MEntry) (c : Cid) : Option Nat :=
  let noReplace := cfg.replace = 0
  let inHave := wantsAll.any fun e => e.cid = c && (noReplace && e.wt = .have)
  let inWant := wantsAll.any fun e => e.cid = c && !(noReplace && e.wt = .have)
  if inHave ∧ s.has c then some 0
  else if inWant then getBlockSize cfg s c else none

def wantTask (cfg : Cfg) (bs : Cid → Option Nat) (et : MEntry) : List Task :=
  match bs et.cid with
  | none => dontHaveTask cfg et
  | some blockSize =>
    let isWantBlock := !(cfg.replace = 0 && et.wt = .have) && sendAsBlock cfg et.wt blockSize
    let entrySize := if isWantBlock then blockSize else cfg.pres et.cid
    [{ topic := et.cid, prio := et.prio, work := entrySize,
       d := { blockSize := blockSize, haveBlock := true, isWantBlock := isWantBlock, sendDontHave := et.sdh } }]

structure MsgOut where
  state : State
  log : List Evict := []
  panic : Bool := false

/-- the part of MessageReceived under `e.lock` before the cancels: Full ⇒ purge the peer's pending tasks and
clear its ledger entries; filterOverflow; handleOverflow; wants that handleOverflow evicted again are dropped -/
def intake (cfg : Cfg) (s : State) (p : Peer) (full : Bool) (wants0 : List MEntry) : OvSt :=
  let q0 := s.pq p
  let q1 : PQ := if full then { q0 with pending := [] } else q0
  let l1 := if full then s.ledger.clearPeerWantlist p else s.ledger
  let r := filterOverflow cfg p wants0 l1 [] []
  if r.2.2.isEmpty then { ledger := r.1, q := q1, wants := r.2.1 }
  else
    let o := handleOverflow cfg s p r.1 q1 r.2.2 r.2.1
    { o with wants := o.wants.filter fun et => (find (o.ledger.wantlistForPeer p) et.cid).isSome }

/-- the cancels of a message: CancelWant, and the queued task is removed unconditionally -/
def applyCancels (p : Peer) (cancels : List MEntry) (lq : Ledger × PQ) : Ledger × PQ :=
  cancels.foldl (fun (lq : Ledger × PQ) et => ((lq.1.cancelWant p et.cid).1, lq.2.remove et.cid)) lq

/-- the tasks MessageReceived pushes: DONT_HAVEs for the denials, then one task per accepted want -/
def activeEntries (cfg : Cfg) (bs : Cid → Option Nat) (denials wants : List MEntry) : List Task :=
  (denials.map (dontHaveTask cfg)).flatten ++ (wants.map (wantTask cfg bs)).flatten

/-- Engine.MessageReceived -/
def msgReceived (cfg : Cfg) (s : State) (p : Peer) (full : Bool) (entries : List MEntry) : MsgOut :=
  if entries.isEmpty then { state := s } else      -- m.Empty()
  let sp := split cfg p entries [] [] []            -- (wants, cancels, denials)
  let bs := blockSizeFor cfg s sp.1                 -- looked up before the lock is taken
  let o := intake cfg s p full sp.1
  let lq := applyCancels p sp.2.1 (o.ledger, o.q)
  let active := activeEntries cfg bs sp.2.2 o.wants
  let q4 := if active.isEmpty then lq.2 else pushTrunc cfg.limit lq.2 active
  { state := ({ s with ledger := lq.1 }).setPq p q4, log := o.log, panic := o.panic }

/-! ## NotifyNewBlocks, nextEnvelope, MessageSent, PeerDisconnected -/

/-- NotifyNewBlocks for one block that was just put into the store -/
def notifyNewBlock (cfg : Cfg) (s : State) (k : Cid) : State :=
  let blockSize := cfg.size k
  (s.ledger.peersOf k).foldl (fun s (pe : Peer × Entry) =>
    let isWantBlock := sendAsBlock cfg pe.2.wt blockSize
    let entrySize := if isWantBlock then blockSize else cfg.pres k
    s.setPq pe.1 (pushTrunc cfg.limit (s.pq pe.1)
      [{ topic := k, prio := pe.2.prio, work := entrySize,
         d := { blockSize := blockSize, haveBlock := true, isWantBlock := isWantBlock, sendDontHave := false } }])) s

/-- one iteration of the `for` loop of nextEnvelope for the scheduler's choice (peer `p`, pop order `sel`):
PopTasks, message construction with the blocks re-read from the store; an empty message completes its tasks
at once (`TasksDone` + `continue`). -/
def popOnce (cfg : Cfg) (s : State) (p : Peer) (sel : List Cid) : State × Option Env :=
  let q := s.pq p
  let (tasks, pend) := popLoop cfg.target sel q.pending 0 []
  if tasks.isEmpty then (s, none) else
  let haves := (tasks.filter fun t => t.d.haveBlock && !t.d.isWantBlock).map (·.topic)
  let dh0 := (tasks.filter fun t => !t.d.haveBlock).map (·.topic)
  let blockTasks := tasks.filter fun t => t.d.haveBlock && t.d.isWantBlock
  let blocks := (blockTasks.filter fun t => s.has t.topic).map (·.topic)
  let dh1 := (blockTasks.filter fun t => !s.has t.topic && t.d.sendDontHave).map (·.topic)
  if blocks.isEmpty ∧ haves.isEmpty ∧ (dh0 ++ dh1).isEmpty then
    (s.setPq p { q with pending := pend }, none)
  else
    let env : Env := { id := s.nextId, peer := p, blocks := blocks, haves := haves, dontHaves := dh0 ++ dh1,
                       pendingBytes := pendingWork pend }
    -- a block task whose block vanished is completed at once (TasksDone inside the loop over blockTasks)
    let stay := tasks.filter fun t => !(t.d.haveBlock && t.d.isWantBlock && !s.has t.topic)
    let q' : PQ := { pending := pend, active := q.active ++ stay.map fun t => (s.nextId, t) }
    ({ (s.setPq p q') with outst := s.outst ++ [env], nextId := s.nextId + 1 }, some env)

/-- Engine.MessageSent -/
def messageSent (l : Ledger) (env : Env) : Ledger :=
  let l1 := env.blocks.foldl (fun l c => l.cancelWantWithType env.peer c .block) l
  env.haves.foldl (fun l c => l.cancelWantWithType env.peer c .have) l1

/-- the network layer took envelope `id`: MessageSent, then Envelope.Sent (TasksDone) -/
def ack (s : State) (id : Nat) : State :=
  match s.outst.find? (·.id = id) with
  | none => s
  | some env =>
    let q := s.pq env.peer
    { (s.setPq env.peer { q with active := q.active.filter (·.1 ≠ id) }) with
      ledger := messageSent s.ledger env, outst := s.outst.filter (·.id ≠ id) }

/-- Engine.PeerDisconnected (queue Clear + ledger); envelopes in flight to the peer fail -/
def disconnect (s : State) (p : Peer) : State :=
  { s with q := erase s.q p, ledger := s.ledger.peerDisconnected p, outst := s.outst.filter (·.peer ≠ p) }

/-! ## step function -/

inductive Op where
  | msg (p : Peer) (full : Bool) (entries : List MEntry)
  | add (c : Cid)
  | rm (c : Cid)
  | pop (p : Peer) (sel : List Cid)
  | ack (id : Nat)
  | disc (p : Peer)

def step (cfg : Cfg) (s : State) : Op → State
  | .msg p full es => (msgReceived cfg s p full es).state
  | .add c => notifyNewBlock cfg { s with store := if s.has c then s.store else c :: s.store } c
  | .rm c => { s with store := s.store.filter (· ≠ c) }
  | .pop p sel => (popOnce cfg s p sel).1
  | .ack id => ack s id
  | .disc p => disconnect s p

def run (cfg : Cfg) (s : State) (ops : List Op) : State := ops.foldl (step cfg) s

end C36
