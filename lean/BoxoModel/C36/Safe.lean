import BoxoModel.C36.Lemmas
/-! C36 — the invariant behind `c36_send_safe`: ledger ⊆ protocol-level want-list, every pending task is
justified by the ghost state, store ⊆ ever-present. -/
namespace C36
open AMap

/-! ### splitWantsCancelsDenials -/

theorem split_spec (cfg : Cfg) (p : Peer) (es : List MEntry) :
    ∀ (w c d : List MEntry),
      (∀ e ∈ (split cfg p es w c d).1, e ∈ w ∨ (e ∈ es ∧ isWant cfg p e = true)) ∧
      (∀ e, e ∈ (split cfg p es w c d).2.1 ↔ e ∈ c ∨ (e ∈ es ∧ isCancel cfg e = true)) ∧
      (∀ e ∈ (split cfg p es w c d).2.2, e ∈ d ∨ (e ∈ es ∧ isAsk cfg e = true ∧ cfg.denied p e.cid = true)) := by
  induction es with
  | nil => intro w c d; simp [split]
  | cons et r ih =>
    intro w c d
    unfold split
    by_cases h1 : cfg.maxCid ≠ 0 ∧ cfg.byteLen et.cid > cfg.maxCid
    · rw [if_pos h1]
      obtain ⟨i1, i2, i3⟩ := ih w c d
      have hs : staticOk cfg et = false := by simp [staticOk, h1]
      refine ⟨fun e he => ?_, fun e => ?_, fun e he => ?_⟩
      · rcases i1 e he with h | h
        · left; exact h
        · right; exact ⟨List.mem_cons_of_mem _ h.1, h.2⟩
      · rw [i2 e]
        constructor
        · rintro (h | h)
          · left; exact h
          · right; exact ⟨List.mem_cons_of_mem _ h.1, h.2⟩
        · rintro (h | ⟨h, h'⟩)
          · left; exact h
          · rcases List.mem_cons.mp h with rfl | h
            · simp [isCancel, hs] at h'
            · right; exact ⟨h, h'⟩
      · rcases i3 e he with h | h
        · left; exact h
        · right; exact ⟨List.mem_cons_of_mem _ h.1, h.2⟩
    · rw [if_neg h1]
      by_cases h2 : cfg.isIdent et.cid = true
      · rw [if_pos h2]
        obtain ⟨i1, i2, i3⟩ := ih w c d
        have hs : staticOk cfg et = false := by simp [staticOk, h2]
        refine ⟨fun e he => ?_, fun e => ?_, fun e he => ?_⟩
        · rcases i1 e he with h | h
          · left; exact h
          · right; exact ⟨List.mem_cons_of_mem _ h.1, h.2⟩
        · rw [i2 e]
          constructor
          · rintro (h | h)
            · left; exact h
            · right; exact ⟨List.mem_cons_of_mem _ h.1, h.2⟩
          · rintro (h | ⟨h, h'⟩)
            · left; exact h
            · rcases List.mem_cons.mp h with rfl | h
              · simp [isCancel, hs] at h'
              · right; exact ⟨h, h'⟩
        · rcases i3 e he with h | h
          · left; exact h
          · right; exact ⟨List.mem_cons_of_mem _ h.1, h.2⟩
      · rw [if_neg h2]
        have hs : staticOk cfg et = true := by
          simp only [staticOk, Bool.and_eq_true, Bool.not_eq_true', decide_eq_false_iff_not]
          exact ⟨h1, by simpa using h2⟩
        by_cases h3 : et.cancel = true
        · rw [if_pos h3]
          obtain ⟨i1, i2, i3⟩ := ih w (c ++ [et]) d
          refine ⟨fun e he => ?_, fun e => ?_, fun e he => ?_⟩
          · rcases i1 e he with h | h
            · left; exact h
            · right; exact ⟨List.mem_cons_of_mem _ h.1, h.2⟩
          · rw [i2 e]
            constructor
            · rintro (h | h)
              · rcases List.mem_append.mp h with h | h
                · left; exact h
                · right; simp at h; subst h; exact ⟨List.mem_cons_self .., by simp [isCancel, hs, h3]⟩
              · right; exact ⟨List.mem_cons_of_mem _ h.1, h.2⟩
            · rintro (h | ⟨h, h'⟩)
              · left; exact List.mem_append_left _ h
              · rcases List.mem_cons.mp h with rfl | h
                · left; simp
                · right; exact ⟨h, h'⟩
          · rcases i3 e he with h | h
            · left; exact h
            · right; exact ⟨List.mem_cons_of_mem _ h.1, h.2⟩
        · rw [if_neg h3]
          have h3' : et.cancel = false := by simpa using h3
          have notc : ∀ e, (e ∈ r ∧ isCancel cfg e = true) ↔ (e ∈ et :: r ∧ isCancel cfg e = true) := by
            intro e
            constructor
            · rintro ⟨h, h'⟩; exact ⟨List.mem_cons_of_mem _ h, h'⟩
            · rintro ⟨h, h'⟩
              rcases List.mem_cons.mp h with rfl | h
              · simp [isCancel, h3'] at h'
              · exact ⟨h, h'⟩
          by_cases h4 : cfg.denied p et.cid = true
          · rw [if_pos h4]
            obtain ⟨i1, i2, i3⟩ := ih w c (d ++ [et])
            refine ⟨fun e he => ?_, fun e => ?_, fun e he => ?_⟩
            · rcases i1 e he with h | h
              · left; exact h
              · right; exact ⟨List.mem_cons_of_mem _ h.1, h.2⟩
            · rw [i2 e, notc e]
            · rcases i3 e he with h | h
              · rcases List.mem_append.mp h with h | h
                · left; exact h
                · right; simp at h; subst h
                  exact ⟨List.mem_cons_self .., by simp [isAsk, hs, h3'], h4⟩
              · right; exact ⟨List.mem_cons_of_mem _ h.1, h.2⟩
          · rw [if_neg h4]
            have h4' : cfg.denied p et.cid = false := by simpa using h4
            by_cases h5 : w.length < cfg.limit
            · rw [if_pos h5]
              obtain ⟨i1, i2, i3⟩ := ih (w ++ [et]) c d
              refine ⟨fun e he => ?_, fun e => ?_, fun e he => ?_⟩
              · rcases i1 e he with h | h
                · rcases List.mem_append.mp h with h | h
                  · left; exact h
                  · right; simp at h; subst h
                    exact ⟨List.mem_cons_self .., by simp [isWant, hs, h3', h4']⟩
                · right; exact ⟨List.mem_cons_of_mem _ h.1, h.2⟩
              · rw [i2 e, notc e]
              · rcases i3 e he with h | h
                · left; exact h
                · right; exact ⟨List.mem_cons_of_mem _ h.1, h.2⟩
            · rw [if_neg h5]
              obtain ⟨i1, i2, i3⟩ := ih w c d
              refine ⟨fun e he => ?_, fun e => ?_, fun e he => ?_⟩
              · rcases i1 e he with h | h
                · left; exact h
                · right; exact ⟨List.mem_cons_of_mem _ h.1, h.2⟩
              · rw [i2 e, notc e]
              · rcases i3 e he with h | h
                · left; exact h
                · right; exact ⟨List.mem_cons_of_mem _ h.1, h.2⟩

/-! ### the wants MessageReceived enqueues come from the message -/

theorem ovStage1_wants (cfg : Cfg) (s : State) (p : Peer) :
    ∀ (ws : List (Cid × Entry)) (i : Nat) (over : List MEntry) (removed : List Nat) (o : OvSt),
      ∀ et ∈ (ovStage1 cfg s p i ws over removed o).1.wants, et ∈ o.wants ∨ et ∈ over := by
  intro ws
  induction ws with
  | nil => intro i over removed o et h; left; simpa [ovStage1] using h
  | cons w ws ih =>
    intro i over removed o et h
    obtain ⟨c, e⟩ := w
    cases over with
    | nil => left; simpa [ovStage1] using h
    | cons n ns =>
      unfold ovStage1 at h
      have hc : (o.cancel p c).wants = o.wants := by unfold OvSt.cancel; rfl
      split at h
      · simp only at h
        split at h
        · simp only [List.mem_append, List.mem_singleton, hc] at h
          rcases h with h | h
          · left; exact h
          · right; simp [h]
        · rcases ih _ _ _ _ et h with h | h
          · simp only [List.mem_append, List.mem_singleton, hc] at h
            rcases h with h | h
            · left; exact h
            · right; simp [h]
          · right; exact List.mem_cons_of_mem _ h
      · exact ih _ _ _ _ et h

theorem ovStage2_wants (cfg : Cfg) (p : Peer) :
    ∀ (ws : List (Cid × Entry)) (i : Nat) (removed : List Nat) (over : List MEntry) (o : OvSt),
      ∀ et ∈ (ovStage2 cfg p i ws removed over o).wants, et ∈ o.wants ∨ et ∈ over := by
  intro ws
  induction ws with
  | nil => intro i removed over o et h; cases over <;> (left; simpa [ovStage2] using h)
  | cons w ws ih =>
    intro i removed over o et h
    obtain ⟨c, e⟩ := w
    cases over with
    | nil => left; simpa [ovStage2] using h
    | cons n ns =>
      unfold ovStage2 at h
      have hc : (o.cancel p c).wants = o.wants := by unfold OvSt.cancel; rfl
      split at h
      · exact ih _ _ _ _ et h
      · split at h
        · left; exact h
        · rcases ih _ _ _ _ et h with h | h
          · simp only [List.mem_append, List.mem_singleton, hc] at h
            rcases h with h | h
            · left; exact h
            · right; simp [h]
          · right; exact List.mem_cons_of_mem _ h

theorem handleOverflow_wants (cfg : Cfg) (s : State) (p : Peer) (l : Ledger) (q : PQ) (overflow wants : List MEntry) :
    ∀ et ∈ (handleOverflow cfg s p l q overflow wants).wants, et ∈ wants ∨ et ∈ overflow := by
  intro et h
  unfold handleOverflow at h
  simp only at h
  have a := ovStage1_wants cfg s p ((l.wantlistForPeer p).mergeSort (existLe cfg)) 0
    (overflow.mergeSort (overLe cfg)) [] { ledger := l, q := q, wants := wants }
  split at h
  · rcases a et h with h | h
    · left; exact h
    · right; exact List.mem_mergeSort.mp h
  · rcases ovStage2_wants cfg p _ _ _ _ _ et h with h | h
    · rcases a et h with h | h
      · left; exact h
      · right; exact List.mem_mergeSort.mp h
    · right; exact List.mem_mergeSort.mp (ovStage1_over cfg s p _ _ _ _ _ et h)

theorem intake_wants (cfg : Cfg) (s : State) (p : Peer) (full : Bool) (w0 : List MEntry) :
    ∀ et ∈ (intake cfg s p full w0).wants, et ∈ w0 := by
  intro et h
  unfold intake at h
  simp only at h
  have fm := filterOverflow_mem cfg p w0 (if full then s.ledger.clearPeerWantlist p else s.ledger) [] []
  by_cases he : (filterOverflow cfg p w0 (if full then s.ledger.clearPeerWantlist p else s.ledger) [] []).2.2.isEmpty
  · rw [if_pos he] at h
    rcases fm.1 et h with h | h
    · simp at h
    · exact h
  · rw [if_neg he] at h
    simp only at h
    have h := (List.mem_filter.mp h).1
    rcases handleOverflow_wants cfg s p _ _ _ _ et h with h | h
    · rcases fm.1 et h with h | h
      · simp at h
      · exact h
    · rcases fm.2 et h with h | h
      · simp at h
      · exact h

/-! ### cancels -/

theorem applyCancels_lookP (p : Peer) (cs : List MEntry) :
    ∀ (lq : Ledger × PQ) (p' : Peer) (c' : Cid),
      lookP (applyCancels p cs lq).1 p' c' = if p' = p ∧ c' ∈ cs.map (·.cid) then none else lookP lq.1 p' c' := by
  induction cs with
  | nil => intro lq p' c'; simp [applyCancels]
  | cons c r ih =>
    intro lq p' c'
    simp only [applyCancels, List.foldl_cons]
    have := ih ((lq.1.cancelWant p c.cid).1, lq.2.remove c.cid) p' c'
    simp only [applyCancels] at this
    rw [this, cancelWant_lookP]
    by_cases hp : p' = p
    · by_cases h1 : c' ∈ r.map (·.cid)
      · simp [hp, h1]
      · by_cases h2 : c' = c.cid
        · simp [hp, h2]
        · simp [hp, h1, h2]
    · simp [hp]

/-! ### TaskOk: merge closure and monotonicity -/

theorem taskOk_merge (cfg : Cfg) (sp : Spec) (p : Peer) (t ex : Task) (ht : TaskOk cfg sp p t) (hex : TaskOk cfg sp p ex)
    (htop : ex.topic = t.topic) : TaskOk cfg sp p (mergedWith t ex) := by
  obtain ⟨t1, t2, _⟩ := ht
  obtain ⟨e1, e2, e3⟩ := hex
  have topic_eq : (mergedWith t ex).topic = ex.topic := by
    unfold mergedWith merge; split <;> rfl
  have sdh_eq : (mergedWith t ex).d.sendDontHave = ex.d.sendDontHave := by
    unfold mergedWith merge; split <;> rfl
  have hb : (mergedWith t ex).d.haveBlock = true → ex.d.haveBlock = true ∨ t.d.haveBlock = true := by
    unfold mergedWith merge
    split <;> (simp only; cases ex.d.haveBlock <;> cases t.d.haveBlock <;> cases ex.d.isWantBlock <;> cases t.d.isWantBlock <;> simp)
  have hb' : (mergedWith t ex).d.haveBlock = false → ex.d.haveBlock = false := by
    unfold mergedWith merge
    split <;> (simp only; cases ex.d.haveBlock <;> cases t.d.haveBlock <;> cases ex.d.isWantBlock <;> cases t.d.isWantBlock <;> simp)
  refine ⟨fun h => ?_, fun h => ?_, fun h => ?_⟩
  · rw [topic_eq]
    rcases hb h with h | h
    · exact e1 h
    · rw [htop]; exact t1 h
  · rw [topic_eq, sdh_eq]
    exact e2 (hb' h)
  · rw [topic_eq]; rw [sdh_eq] at h; exact e3 h

end C36

namespace C36
open AMap

theorem taskOk_mono (cfg : Cfg) (sp sp' : Spec) (p : Peer) (t : Task)
    (hW : ∀ c, sp.W p c = true → sp'.W p c = true) (hE : ∀ c, sp.E c = true → sp'.E c = true)
    (hA : ∀ c, sp.A p c = true → sp'.A p c = true) (hD : ∀ c, sp.D p c = true → sp'.D p c = true)
    (h : TaskOk cfg sp p t) : TaskOk cfg sp' p t := by
  obtain ⟨h1, h2, h3⟩ := h
  refine ⟨fun hb => ?_, fun hb => ?_, fun hb => hD _ (h3 hb)⟩
  · obtain ⟨a, b, c⟩ := h1 hb; exact ⟨hW _ a, b, hE _ c⟩
  · obtain ⟨a, b, c⟩ := h2 hb
    exact ⟨a, b.imp (hW _) id, hA _ c⟩

/-- the invariant -/
structure Inv (cfg : Cfg) (s : State) (sp : Spec) : Prop where
  cons : s.ledger.Consistent
  led : ∀ p c, (lookP s.ledger p c).isSome → sp.W p c = true ∧ cfg.denied p c = false
  que : ∀ p, ∀ t ∈ (s.pq p).pending, TaskOk cfg sp p t
  sto : ∀ c, s.has c = true → sp.E c = true

theorem blockSizeFor_some (cfg : Cfg) (s : State) (w0 : List MEntry) (c : Cid) (n : Nat)
    (h : blockSizeFor cfg s w0 c = some n) : s.has c = true := by
  unfold blockSizeFor at h
  simp only at h
  split at h
  · rename_i hc; exact hc.2
  · split at h
    · unfold getBlockSize at h
      split at h
      · rename_i hc; exact hc
      · simp at h
    · simp at h

theorem blockSizeFor_none (cfg : Cfg) (s : State) (w0 : List MEntry) (e : MEntry) (he : e ∈ w0)
    (h : blockSizeFor cfg s w0 e.cid = none) : s.has e.cid = false := by
  unfold blockSizeFor at h
  simp only at h
  split at h
  · simp at h
  · rename_i hc
    split at h
    · unfold getBlockSize at h
      split at h
      · simp at h
      · rename_i hg; simpa using hg
    · rename_i hw
      have hin : (w0.any fun x => x.cid = e.cid && (decide (cfg.replace = 0) && decide (x.wt = .have))) = true := by
        have : (w0.any fun x => x.cid = e.cid && !(decide (cfg.replace = 0) && decide (x.wt = .have))) = false := by
          simpa using hw
        rw [List.any_eq_true]
        refine ⟨e, he, ?_⟩
        have h2 := (List.any_eq_false.mp this) e he
        simpa using h2
      by_cases hh : s.has e.cid = true
      · exact absurd ⟨hin, hh⟩ hc
      · simpa using hh

/-- new ghost want-list after a non-empty message -/
theorem specW_msg (cfg : Cfg) (s : State) (sp : Spec) (p : Peer) (full : Bool) (es : List MEntry) (hne : es.isEmpty = false)
    (p' : Peer) (c : Cid) :
    (specStep cfg s sp (.msg p full es)).W p' c =
      if p' = p then
        ((!full && sp.W p c) || es.any fun e => isWant cfg p e && e.cid == c) &&
          !(es.any fun e => isCancel cfg e && e.cid == c)
      else sp.W p' c := by
  simp [specStep, hne]

theorem specA_msg (cfg : Cfg) (s : State) (sp : Spec) (p : Peer) (full : Bool) (es : List MEntry) (hne : es.isEmpty = false)
    (p' : Peer) (c : Cid) :
    (specStep cfg s sp (.msg p full es)).A p' c =
      if p' = p then
        sp.A p c || es.any fun e => isAsk cfg e && e.cid == c && (cfg.denied p c || !s.has c)
      else sp.A p' c := by
  simp [specStep, hne]

theorem specD_msg (cfg : Cfg) (s : State) (sp : Spec) (p : Peer) (full : Bool) (es : List MEntry) (hne : es.isEmpty = false)
    (p' : Peer) (c : Cid) :
    (specStep cfg s sp (.msg p full es)).D p' c =
      if p' = p then sp.D p c || es.any fun e => isAsk cfg e && e.cid == c && e.sdh
      else sp.D p' c := by
  simp [specStep, hne]

theorem specE_msg (cfg : Cfg) (s : State) (sp : Spec) (p : Peer) (full : Bool) (es : List MEntry) :
    (specStep cfg s sp (.msg p full es)).E = sp.E := by
  simp only [specStep]; split <;> rfl

theorem no_cancel_any (cfg : Cfg) (p : Peer) (es : List MEntry) (c : Cid)
    (h : c ∉ ((split cfg p es [] [] []).2.1).map (·.cid)) :
    (es.any fun e => isCancel cfg e && e.cid == c) = false := by
  rw [List.any_eq_false]
  intro e he hcon
  simp only [Bool.and_eq_true, beq_iff_eq] at hcon
  apply h
  rw [List.mem_map]
  exact ⟨e, ((split_spec cfg p es [] [] []).2.1 e).2 (Or.inr ⟨he, hcon.1⟩), hcon.2⟩

theorem msgReceived_store (cfg : Cfg) (s : State) (p : Peer) (full : Bool) (es : List MEntry) :
    (msgReceived cfg s p full es).state.store = s.store := by
  unfold msgReceived
  split <;> rfl

theorem msgReceived_empty (cfg : Cfg) (s : State) (p : Peer) (full : Bool) (es : List MEntry) (h : es.isEmpty = true) :
    (msgReceived cfg s p full es).state = s := by
  unfold msgReceived
  rw [if_pos h]

/-- ledger of the sender after a message, other peers untouched -/
theorem msg_led (cfg : Cfg) (s : State) (p : Peer) (full : Bool) (es : List MEntry) (hne : es.isEmpty = false) :
    (∀ c, (lookP (msgReceived cfg s p full es).state.ledger p c).isSome →
        c ∉ ((split cfg p es [] [] []).2.1).map (·.cid) ∧
        ((full = false ∧ (lookP s.ledger p c).isSome) ∨ c ∈ ((split cfg p es [] [] []).1).map (·.cid))) ∧
    (∀ p' c, p' ≠ p → lookP (msgReceived cfg s p full es).state.ledger p' c = lookP s.ledger p' c) := by
  let w0 := (split cfg p es [] [] []).1
  let P : Ledger → Prop := fun l =>
    (∀ c, (lookP l p c).isSome → (full = false ∧ (lookP s.ledger p c).isSome) ∨ c ∈ w0.map (·.cid)) ∧
    (∀ p' c, p' ≠ p → lookP l p' c = lookP s.ledger p' c)
  have hinv : LedgerInvAt cfg.limit p (fun c => c ∈ w0.map (·.cid)) P := {
    wants := fun l c e hal hl => by
      have hw := wants_look l cfg.limit p c e
      cases hb : (l.wants cfg.limit p c e).2 with
      | false => rw [hw.2 hb]; exact hl
      | true =>
        obtain ⟨h1, _⟩ := hw.1 hb
        refine ⟨fun c' hc' => ?_, fun p' c' hp' => ?_⟩
        · rw [h1] at hc'
          by_cases hx : c' = c
          · right; rw [hx]; exact hal
          · simp only [hx, and_false, if_false] at hc'; exact hl.1 c' hc'
        · rw [h1]; simp only [hp', false_and, if_false]; exact hl.2 p' c' hp'
    cancel := fun l k hl => by
      refine ⟨fun c' hc' => ?_, fun p' c' hp' => ?_⟩
      · rw [cancelWant_lookP] at hc'
        split at hc'
        · simp at hc'
        · exact hl.1 c' hc'
      · rw [cancelWant_lookP]; simp only [hp', false_and, if_false]; exact hl.2 p' c' hp'
    clear := fun l hl => by
      refine ⟨fun c' hc' => ?_, fun p' c' hp' => ?_⟩
      · rw [clear_lookP] at hc'; simp at hc'
      · rw [clear_lookP]; simp only [hp', if_false]; exact hl.2 p' c' hp'
    disc := fun l hl => by
      refine ⟨fun c' hc' => ?_, fun p' c' hp' => ?_⟩
      · rw [disc_lookP] at hc'; simp at hc'
      · rw [disc_lookP]; simp only [hp', if_false]; exact hl.2 p' c' hp' }
  have hP0 : full = false → P s.ledger := fun hf => ⟨fun c hc => Or.inl ⟨hf, hc⟩, fun _ _ _ => rfl⟩
  have hPc : full = true → P (s.ledger.clearPeerWantlist p) := fun _ => by
    refine ⟨fun c' hc' => ?_, fun p' c' hp' => ?_⟩
    · rw [clear_lookP] at hc'; simp at hc'
    · rw [clear_lookP]; simp [hp']
  have hI := intake_inv cfg hinv s full w0 (fun et het => List.mem_map.mpr ⟨et, het, rfl⟩) hPc hP0
  rw [msgReceived_ledger]
  simp only [hne, Bool.false_eq_true, if_false]
  refine ⟨fun c hc => ?_, fun p' c hp' => ?_⟩
  · rw [applyCancels_lookP] at hc
    split at hc
    · simp at hc
    · rename_i hn
      refine ⟨fun hmem => hn ⟨rfl, hmem⟩, hI.1 c hc⟩
  · rw [applyCancels_lookP]; simp only [hp', false_and, if_false]; exact hI.2 p' c hp'

end C36

namespace C36
open AMap

theorem mem_find_isSome {κ ν : Type} [DecidableEq κ] (m : Map κ ν) (k : κ) (v : ν) (h : (k, v) ∈ m) :
    (find m k).isSome = true := by
  rw [← mem_keys_iff]
  exact List.mem_map.mpr ⟨(k, v), h, rfl⟩

/-- tasks pending for the sender after a non-empty message -/
theorem msg_que (cfg : Cfg) (s : State) (sp : Spec) (p : Peer) (full : Bool) (es : List MEntry)
    (hne : es.isEmpty = false) (hwf : Op.WF (.msg p full es)) (h : Inv cfg s sp) :
    ∀ t ∈ ((msgReceived cfg s p full es).state.pq p).pending, TaskOk cfg (specStep cfg s sp (.msg p full es)) p t := by
  let sp' := specStep cfg s sp (.msg p full es)
  have hsplit := split_spec cfg p es [] [] []
  -- ghost facts
  have W_keep : ∀ c, sp.W p c = true → full = false → c ∉ ((split cfg p es [] [] []).2.1).map (·.cid) →
      sp'.W p c = true := by
    intro c hw hf hc
    show (specStep cfg s sp (.msg p full es)).W p c = true
    rw [specW_msg cfg s sp p full es hne, if_pos rfl, no_cancel_any cfg p es c hc]
    simp [hw, hf]
  have W_new : ∀ e ∈ es, isWant cfg p e = true → sp'.W p e.cid = true := by
    intro e he hw
    show (specStep cfg s sp (.msg p full es)).W p e.cid = true
    rw [specW_msg cfg s sp p full es hne, if_pos rfl]
    have h1 : (es.any fun x => isWant cfg p x && x.cid == e.cid) = true :=
      List.any_eq_true.mpr ⟨e, he, by simp [hw]⟩
    have h2 : (es.any fun x => isCancel cfg x && x.cid == e.cid) = false := by
      rw [List.any_eq_false]
      intro a ha hcon
      simp only [Bool.and_eq_true, beq_iff_eq] at hcon
      have hac : a.cancel = true := by
        have := hcon.1; simp only [isCancel, Bool.and_eq_true] at this; exact this.2
      have hec : e.cancel = false := by
        simp only [isWant, Bool.and_eq_true, Bool.not_eq_true'] at hw; exact hw.1.2
      exact hwf a ha e he hac hec hcon.2
    simp [h1, h2]
  have A_mono : ∀ c, sp.A p c = true → sp'.A p c = true := by
    intro c hc
    show (specStep cfg s sp (.msg p full es)).A p c = true
    rw [specA_msg cfg s sp p full es hne, if_pos rfl]; simp [hc]
  have A_new : ∀ e ∈ es, isAsk cfg e = true → (cfg.denied p e.cid = true ∨ s.has e.cid = false) →
      sp'.A p e.cid = true := by
    intro e he ha hx
    show (specStep cfg s sp (.msg p full es)).A p e.cid = true
    rw [specA_msg cfg s sp p full es hne, if_pos rfl]
    have : (es.any fun x => isAsk cfg x && x.cid == e.cid &&
        (cfg.denied p e.cid || !s.has e.cid)) = true := by
      refine List.any_eq_true.mpr ⟨e, he, ?_⟩
      rcases hx with hx | hx <;> simp [ha, hx]
    simp [this]
  have D_mono : ∀ c, sp.D p c = true → sp'.D p c = true := by
    intro c hc
    show (specStep cfg s sp (.msg p full es)).D p c = true
    rw [specD_msg cfg s sp p full es hne, if_pos rfl]; simp [hc]
  have D_new : ∀ e ∈ es, isAsk cfg e = true → e.sdh = true → sp'.D p e.cid = true := by
    intro e he ha hx
    show (specStep cfg s sp (.msg p full es)).D p e.cid = true
    rw [specD_msg cfg s sp p full es hne, if_pos rfl]
    have : (es.any fun x => isAsk cfg x && x.cid == e.cid && x.sdh) = true :=
      List.any_eq_true.mpr ⟨e, he, by simp [ha, hx]⟩
    simp [this]
  have E_eq : sp'.E = sp.E := specE_msg cfg s sp p full es
  -- old tasks that survive
  have hold : ∀ x ∈ (applyCancels p (split cfg p es [] [] []).2.1
      ((intake cfg s p full (split cfg p es [] [] []).1).ledger, (intake cfg s p full (split cfg p es [] [] []).1).q)).2.pending,
      TaskOk cfg sp' p x := by
    intro x hx
    obtain ⟨hx1, hx2⟩ := ((applyCancels_q p _ _).1 x).mp hx
    obtain ⟨hx3, hfull⟩ := (intake_q cfg s p full _).1 x hx1
    have hnc : x.topic ∉ ((split cfg p es [] [] []).2.1).map (·.cid) := by
      intro hm
      obtain ⟨e, he, hec⟩ := List.mem_map.mp hm
      exact hx2 e he hec.symm
    obtain ⟨o1, o2, o3⟩ := h.que p x hx3
    refine ⟨fun hb => ?_, fun hb => ?_, fun hb => D_mono _ (o3 hb)⟩
    · obtain ⟨a, b, c⟩ := o1 hb
      exact ⟨W_keep _ a hfull hnc, b, by rw [E_eq]; exact c⟩
    · obtain ⟨a, b, c⟩ := o2 hb
      exact ⟨a, b.imp (fun w => W_keep _ w hfull hnc) id, A_mono _ c⟩
  -- new tasks
  have hnew : ∀ t ∈ activeEntries cfg (blockSizeFor cfg s (split cfg p es [] [] []).1) (split cfg p es [] [] []).2.2
      (intake cfg s p full (split cfg p es [] [] []).1).wants, TaskOk cfg sp' p t := by
    intro t ht
    unfold activeEntries at ht
    rcases List.mem_append.mp ht with ht | ht
    · obtain ⟨l, hl, htl⟩ := List.mem_flatten.mp ht
      obtain ⟨e, he, rfl⟩ := List.mem_map.mp hl
      rcases hsplit.2.2 e he with hx | ⟨hes, hask, hden⟩
      · simp at hx
      · unfold dontHaveTask at htl
        split at htl
        · rename_i hc
          simp only [List.mem_singleton] at htl
          subst htl
          simp only [Bool.and_eq_true] at hc
          exact ⟨fun hb => by simp at hb, fun _ => ⟨hc.2, Or.inr hden, A_new e hes hask (Or.inl hden)⟩,
            fun _ => D_new e hes hask hc.2⟩
        · simp at htl
    · obtain ⟨l, hl, htl⟩ := List.mem_flatten.mp ht
      obtain ⟨e, he, rfl⟩ := List.mem_map.mp hl
      have he0 := intake_wants cfg s p full _ e he
      rcases hsplit.1 e he0 with hx | ⟨hes, hw⟩
      · simp at hx
      · have hnd : cfg.denied p e.cid = false := by
          simp only [isWant, Bool.and_eq_true, Bool.not_eq_true'] at hw; exact hw.2
        have hask : isAsk cfg e = true := by
          simp only [isWant, Bool.and_eq_true, Bool.not_eq_true'] at hw
          simp [isAsk, hw.1.1, hw.1.2]
        unfold wantTask at htl
        split at htl
        · rename_i hbs
          unfold dontHaveTask at htl
          split at htl
          · rename_i hc
            simp only [List.mem_singleton] at htl
            subst htl
            simp only [Bool.and_eq_true] at hc
            exact ⟨fun hb => by simp at hb,
              fun _ => ⟨hc.2, Or.inl (W_new e hes hw), A_new e hes hask (Or.inr (blockSizeFor_none cfg s _ e he0 hbs))⟩,
              fun _ => D_new e hes hask hc.2⟩
          · simp at htl
        · rename_i n hbs
          simp only [List.mem_singleton] at htl
          subst htl
          refine ⟨fun _ => ⟨W_new e hes hw, hnd, ?_⟩, fun hb => by simp at hb, fun hb => D_new e hes hask hb⟩
          rw [E_eq]; exact h.sto _ (blockSizeFor_some cfg s _ _ _ hbs)
  intro t ht
  rw [msgReceived_pq] at ht
  simp only [hne, Bool.false_eq_true, if_false, if_true] at ht
  split at ht
  · exact hold t ht
  · exact pushTrunc_all (TaskOk cfg sp' p) (fun t ex a b c => taskOk_merge cfg sp' p t ex a b c) _ _ _ hold hnew t ht

theorem notify_store (cfg : Cfg) (mk : Peer × Entry → Task) (ps : List (Peer × Entry)) :
    ∀ s : State, (ps.foldl (fun s (pe : Peer × Entry) => s.setPq pe.1 (pushTrunc cfg.limit (s.pq pe.1) [mk pe])) s).store = s.store := by
  induction ps with
  | nil => intro s; rfl
  | cons x r ih => intro s; simp only [List.foldl_cons]; rw [ih]; rfl

theorem popOnce_store (cfg : Cfg) (s : State) (p : Peer) (sel : List Cid) : (popOnce cfg s p sel).1.store = s.store := by
  unfold popOnce
  simp only
  split
  · rfl
  · split <;> rfl

theorem ack_store (s : State) (id : Nat) : (ack s id).store = s.store := by
  unfold ack
  split <;> rfl

theorem add_has (cfg : Cfg) (s : State) (c c' : Cid) (h : (step cfg s (.add c)).has c' = true) :
    c' = c ∨ s.has c' = true := by
  have e : (step cfg s (.add c)).store = if s.has c then s.store else c :: s.store := by
    simp only [step, notifyNewBlock_eq, notify_store]
  unfold State.has at h
  rw [e] at h
  cases hs : s.has c with
  | true => right; rw [hs] at h; simpa [State.has] using h
  | false =>
    rw [hs] at h
    simp only [Bool.false_eq_true, if_false, List.contains_cons, Bool.or_eq_true, beq_iff_eq] at h
    rcases h with h | h
    · left; exact h
    · right; exact h

/-- the invariant is preserved by every operation (messages as the wire format delivers them) -/
theorem step_inv (cfg : Cfg) (s : State) (sp : Spec) (op : Op) (hwf : op.WF) (h : Inv cfg s sp) :
    Inv cfg (step cfg s op) (specStep cfg s sp op) := by
  have hcons := step_ledgerInv cfg (consistent_inv cfg.limit) s op h.cons
  cases op with
  | msg p full es =>
    by_cases hne : es.isEmpty = true
    · have e1 : step cfg s (.msg p full es) = s := by simp only [step]; exact msgReceived_empty cfg s p full es hne
      have e2 : specStep cfg s sp (.msg p full es) = sp := by simp [specStep, hne]
      rw [e1, e2]; exact h
    · have hne : es.isEmpty = false := by simpa using hne
      obtain ⟨l1, l2⟩ := msg_led cfg s p full es hne
      refine ⟨hcons, ?_, ?_, ?_⟩
      · intro p' c hc
        simp only [step] at hc
        by_cases hp : p' = p
        · subst hp
          obtain ⟨hnc, hsrc⟩ := l1 c hc
          rw [specW_msg cfg s sp p' full es hne, if_pos rfl, no_cancel_any cfg p' es c hnc]
          rcases hsrc with ⟨hf, hold⟩ | hnew
          · obtain ⟨a, b⟩ := h.led p' c hold
            exact ⟨by simp [hf, a], b⟩
          · obtain ⟨e, he, hec⟩ := List.mem_map.mp hnew
            rcases (split_spec cfg p' es [] [] []).1 e he with hx | ⟨hes, hw⟩
            · simp at hx
            · have hnd : cfg.denied p' e.cid = false := by
                simp only [isWant, Bool.and_eq_true, Bool.not_eq_true'] at hw; exact hw.2
              have : (es.any fun x => isWant cfg p' x && x.cid == c) = true :=
                List.any_eq_true.mpr ⟨e, hes, by simp [hw, hec]⟩
              exact ⟨by simp [this], by rw [← hec]; exact hnd⟩
        · rw [l2 p' c hp] at hc
          obtain ⟨a, b⟩ := h.led p' c hc
          rw [specW_msg cfg s sp p full es hne, if_neg hp]
          exact ⟨a, b⟩
      · intro p' t ht
        by_cases hp : p' = p
        · subst hp; exact msg_que cfg s sp p' full es hne hwf h t ht
        · simp only [step] at ht
          rw [msgReceived_pq] at ht
          have hp2 : ¬ p = p' := fun e => hp e.symm
          simp only [hne, Bool.false_eq_true, if_false, hp2] at ht
          refine taskOk_mono cfg sp _ p' t (fun c hc => ?_) (fun c hc => ?_) (fun c hc => ?_) (fun c hc => ?_) (h.que p' t ht)
          · rw [specW_msg cfg s sp p full es hne, if_neg hp]; exact hc
          · rw [specE_msg]; exact hc
          · rw [specA_msg cfg s sp p full es hne, if_neg hp]; exact hc
          · rw [specD_msg cfg s sp p full es hne, if_neg hp]; exact hc
      · intro c hc
        rw [specE_msg]
        apply h.sto
        simp only [step, State.has, msgReceived_store] at hc
        exact hc
  | add c =>
    let s1 : State := { s with store := if s.has c then s.store else c :: s.store }
    have hE : ∀ c', sp.E c' = true → (specStep cfg s sp (.add c)).E c' = true := by
      intro c' hc'; simp [specStep, hc']
    have hEc : (specStep cfg s sp (.add c)).E c = true := by simp [specStep]
    refine ⟨hcons, ?_, ?_, ?_⟩
    · intro p' c' hc'
      simp only [step, notifyNewBlock_ledger] at hc'
      exact h.led p' c' hc'
    · simp only [step]
      rw [notifyNewBlock_eq]
      refine notify_fold_inv cfg (notifyTask cfg c) (fun p q => ∀ t ∈ q.pending, TaskOk cfg (specStep cfg s sp (.add c)) p t)
        _ ?_ s1 ?_
      · intro pe hpe q hq
        refine pushTrunc_all _ (fun t ex a b c => taskOk_merge cfg _ pe.1 t ex a b c) _ _ _ hq ?_
        intro t ht
        simp only [List.mem_singleton] at ht
        subst ht
        have hC : (lookC s.ledger c pe.1).isSome = true := by
          rw [← lookC_peersOf]; exact mem_find_isSome _ _ _ hpe
        rw [← h.cons pe.1 c] at hC
        obtain ⟨a, b⟩ := h.led pe.1 c hC
        exact ⟨fun _ => ⟨a, b, hEc⟩, fun hb => by simp [notifyTask] at hb, fun hb => by simp [notifyTask] at hb⟩
      · intro p' t ht
        exact taskOk_mono cfg sp _ p' t (fun _ x => x) hE (fun _ x => x) (fun _ x => x) (h.que p' t ht)
    · intro c' hc'
      rcases add_has cfg s c c' hc' with hx | hx
      · rw [hx]; exact hEc
      · exact hE _ (h.sto _ hx)
  | rm c =>
    refine ⟨hcons, h.led, h.que, ?_⟩
    intro c' hc'
    apply h.sto
    simp only [step, State.has, List.contains_eq_mem, List.mem_filter, decide_eq_true_eq] at hc' ⊢
    exact hc'.1
  | pop p sel =>
    refine ⟨hcons, ?_, ?_, ?_⟩
    · intro p' c hc; simp only [step, popOnce_ledger] at hc; exact h.led p' c hc
    · intro p' t ht
      simp only [step] at ht
      by_cases hp : p = p'
      · subst hp; exact h.que p t ((popOnce_pq cfg s p sel p).2.subset ht)
      · rw [(popOnce_pq cfg s p sel p').1 hp] at ht; exact h.que p' t ht
    · intro c hc; simp only [step, State.has, popOnce_store] at hc; exact h.sto c hc
  | ack id =>
    refine ⟨hcons, ?_, ?_, ?_⟩
    · have hshr : ∀ p c, (lookP (ack s id).ledger p c).isSome → (lookP s.ledger p c).isSome := by
        rcases ack_ledger s id with e | ⟨env, e⟩ <;> rw [e]
        · exact fun _ _ x => x
        · have hinv : LedgerInvAt cfg.limit env.peer (fun _ => False)
              (fun l => ∀ p c, (lookP l p c).isSome → (lookP s.ledger p c).isSome) := {
            wants := fun _ _ _ hf _ => hf.elim
            cancel := fun l k hl p c hc => by
              rw [cancelWant_lookP] at hc
              split at hc
              · simp at hc
              · exact hl p c hc
            clear := fun l hl p c hc => by
              rw [clear_lookP] at hc
              split at hc
              · simp at hc
              · exact hl p c hc
            disc := fun l hl p c hc => by
              rw [disc_lookP] at hc
              split at hc
              · simp at hc
              · exact hl p c hc }
          exact messageSent_inv env hinv s.ledger (fun _ _ x => x)
      intro p c hc
      exact h.led p c (hshr p c hc)
    · intro p' t ht; simp only [step, ack_pq] at ht; exact h.que p' t ht
    · intro c hc; simp only [step, State.has, ack_store] at hc; exact h.sto c hc
  | disc p =>
    refine ⟨hcons, ?_, ?_, ?_⟩
    · intro p' c hc
      simp only [step, disconnect] at hc
      rw [disc_lookP] at hc
      split at hc
      · simp at hc
      · rename_i hp
        obtain ⟨a, b⟩ := h.led p' c hc
        exact ⟨by simp [specStep, hp, a], b⟩
    · intro p' t ht
      simp only [step] at ht
      rw [disconnect_pq] at ht
      split at ht
      · simp at ht
      · rename_i hp
        have hp' : ¬ p' = p := fun e => hp e.symm
        exact taskOk_mono cfg sp _ p' t (fun c hc => by simp [specStep, hp', hc]) (fun _ x => x) (fun _ x => x) (fun _ x => x) (h.que p' t ht)
    · intro c hc; exact h.sto c hc

theorem inv_init (cfg : Cfg) : Inv cfg {} {} :=
  ⟨fun _ _ => rfl, fun p c hc => by simp [lookP] at hc, fun p t ht => by simp [State.pq] at ht,
   fun c hc => by simp [State.has] at hc⟩

theorem runBoth_inv (cfg : Cfg) (ops : List Op) :
    ∀ (s : State) (sp : Spec), (∀ op ∈ ops, op.WF) → Inv cfg s sp → Inv cfg (runBoth cfg s sp ops).1 (runBoth cfg s sp ops).2 := by
  induction ops with
  | nil => intro s sp _ h; exact h
  | cons op r ih =>
    intro s sp hwf h
    simp only [runBoth]
    exact ih _ _ (fun o ho => hwf o (List.mem_cons_of_mem _ ho)) (step_inv cfg s sp op (hwf op (List.mem_cons_self ..)) h)

theorem runBoth_fst (cfg : Cfg) (ops : List Op) : ∀ (s : State) (sp : Spec), (runBoth cfg s sp ops).1 = run cfg s ops := by
  induction ops with
  | nil => intro s sp; rfl
  | cons op r ih => intro s sp; simp only [runBoth, run, List.foldl_cons]; exact ih _ _

end C36

namespace C36
open AMap

/-- the tasks `popOnce` pops for its choice -/
def popped (cfg : Cfg) (s : State) (p : Peer) (sel : List Cid) : List Task :=
  (popLoop cfg.target sel (s.pq p).pending 0 []).1

theorem popped_pending (cfg : Cfg) (s : State) (p : Peer) (sel : List Cid) :
    ∀ t ∈ popped cfg s p sel, t ∈ (s.pq p).pending := by
  intro t ht
  rcases (popLoop_mem cfg.target sel (s.pq p).pending 0 []).1 t ht with h | h
  · simp at h
  · exact h

/-- what an envelope contains, in terms of the popped tasks and the store at send time -/
theorem popOnce_env (cfg : Cfg) (s : State) (p : Peer) (sel : List Cid) (env : Env)
    (h : (popOnce cfg s p sel).2 = some env) :
    env.peer = p ∧
    (∀ c ∈ env.blocks, s.has c = true ∧ ∃ t ∈ popped cfg s p sel, t.topic = c ∧ t.d.haveBlock = true) ∧
    (∀ c ∈ env.haves, ∃ t ∈ popped cfg s p sel, t.topic = c ∧ t.d.haveBlock = true) ∧
    (∀ c ∈ env.dontHaves, ∃ t ∈ popped cfg s p sel, t.topic = c ∧
        (t.d.haveBlock = false ∨ (s.has c = false ∧ t.d.sendDontHave = true))) := by
  unfold popOnce at h
  simp only at h
  split at h
  · simp at h
  · split at h
    · simp at h
    · simp only [Option.some.injEq] at h
      subst h
      refine ⟨rfl, ?_, ?_, ?_⟩
      · intro c hc
        simp only [List.mem_map, List.mem_filter] at hc
        obtain ⟨t, ⟨⟨ht, hb⟩, hs⟩, rfl⟩ := hc
        simp only [Bool.and_eq_true] at hb
        exact ⟨hs, t, ht, rfl, hb.1⟩
      · intro c hc
        simp only [List.mem_map, List.mem_filter] at hc
        obtain ⟨t, ⟨ht, hb⟩, rfl⟩ := hc
        simp only [Bool.and_eq_true] at hb
        exact ⟨t, ht, rfl, hb.1⟩
      · intro c hc
        simp only [List.mem_append, List.mem_map, List.mem_filter] at hc
        rcases hc with ⟨t, ⟨ht, hb⟩, rfl⟩ | ⟨t, ⟨⟨ht, _⟩, hb⟩, rfl⟩
        · exact ⟨t, ht, rfl, Or.inl (by simpa using hb)⟩
        · simp only [Bool.and_eq_true, Bool.not_eq_true'] at hb
          exact ⟨t, ht, rfl, Or.inr hb⟩

end C36

namespace C36
open AMap

/-- where the ghost flag `A p c` comes from: it was set already, or some message of `p` in the history asked
for `c` when the filter denied it or the block was absent -/
theorem specA_origin (cfg : Cfg) (p : Peer) (c : Cid) (ops : List Op) :
    ∀ (s : State) (sp : Spec), (runBoth cfg s sp ops).2.A p c = true →
      sp.A p c = true ∨
      ∃ pre full es post, ops = pre ++ Op.msg p full es :: post ∧ (∃ e ∈ es, isAsk cfg e = true ∧ e.cid = c) ∧
        (cfg.denied p c = true ∨ (run cfg s pre).has c = false) := by
  induction ops with
  | nil => intro s sp h; left; exact h
  | cons op r ih =>
    intro s sp h
    simp only [runBoth] at h
    rcases ih _ _ h with h1 | ⟨pre, full, es, post, e1, e2, e3⟩
    · -- the flag was set by `op` or before
      cases op with
      | msg p' full es =>
        by_cases hne : es.isEmpty = true
        · left; simpa [specStep, hne] using h1
        · have hne : es.isEmpty = false := by simpa using hne
          rw [specA_msg cfg s sp p' full es hne] at h1
          split at h1
          · rename_i hp
            subst hp
            simp only [Bool.or_eq_true] at h1
            rcases h1 with h1 | h1
            · left; exact h1
            · right
              obtain ⟨e, he, hx⟩ := List.any_eq_true.mp h1
              simp only [Bool.and_eq_true, beq_iff_eq, Bool.or_eq_true, Bool.not_eq_true'] at hx
              refine ⟨[], full, es, r, rfl, ⟨e, he, hx.1.1, hx.1.2⟩, ?_⟩
              rcases hx.2 with hx | hx
              · left; exact hx
              · right; exact hx
          · left; exact h1
      | add c' => left; exact h1
      | rm c' => left; exact h1
      | pop p' sel => left; exact h1
      | ack id => left; exact h1
      | disc p' => left; exact h1
    · right
      refine ⟨op :: pre, full, es, post, by rw [e1]; rfl, e2, ?_⟩
      simpa [run] using e3

end C36
