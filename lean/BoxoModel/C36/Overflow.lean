import BoxoModel.C36.Spec
/-! C36 — functional characterisation of the eviction log of `handleOverflow`. -/
namespace C36
open AMap

/-- a want of the existing list has no local block (as `getBlockSizes` reports it) -/
def noBlk (cfg : Cfg) (s : State) (ce : Cid × Entry) : Bool := (getBlockSize cfg s ce.1).isNone

/-- first loop, as a list function: the wants without a local block, in list order, each replaced by the next
overflow entry -/
def zip1 : List (Cid × Entry) → List MEntry → List Evict
  | ce :: ws, n :: ns => ⟨ce.1, ce.2.prio, false, n, 1⟩ :: zip1 ws ns
  | _, _ => []

/-- second loop, as a list function: the wants with a local block, in list order, each replaced by the next
overflow entry as long as that entry's priority is not lower -/
def zip2 : List (Cid × Entry) → List MEntry → List Evict
  | ce :: ws, n :: ns => if n.prio < ce.2.prio then [] else ⟨ce.1, ce.2.prio, true, n, 2⟩ :: zip2 ws ns
  | _, _ => []

/-- indices (starting at `i`) of the entries without a local block -/
def idxs (cfg : Cfg) (s : State) : Nat → List (Cid × Entry) → List Nat
  | _, [] => []
  | i, ce :: ws => if noBlk cfg s ce then i :: idxs cfg s (i + 1) ws else idxs cfg s (i + 1) ws

theorem idxs_ge (cfg : Cfg) (s : State) (ws : List (Cid × Entry)) : ∀ i, ∀ j ∈ idxs cfg s i ws, i ≤ j := by
  induction ws with
  | nil => intro i j h; simp [idxs] at h
  | cons ce ws ih =>
    intro i j h
    unfold idxs at h
    split at h
    · rcases List.mem_cons.mp h with h | h
      · omega
      · have := ih (i + 1) j h; omega
    · have := ih (i + 1) j h; omega

theorem ovCancel_log (o : OvSt) (p : Peer) (c : Cid) : (o.cancel p c).log = o.log := by
  unfold OvSt.cancel; rfl

/-- first loop -/
theorem ovStage1_spec (cfg : Cfg) (s : State) (p : Peer) :
    ∀ (ws : List (Cid × Entry)) (i : Nat) (over : List MEntry) (removed : List Nat) (o : OvSt),
      (ovStage1 cfg s p i ws over removed o).1.log = o.log ++ zip1 (ws.filter (noBlk cfg s)) over ∧
      (ovStage1 cfg s p i ws over removed o).2.1 = over.drop (ws.filter (noBlk cfg s)).length ∧
      ((ovStage1 cfg s p i ws over removed o).2.1 ≠ [] →
        (ovStage1 cfg s p i ws over removed o).2.2 = removed ++ idxs cfg s i ws) := by
  intro ws
  induction ws with
  | nil => intro i over removed o; simp [ovStage1, zip1, idxs]
  | cons ce ws ih =>
    intro i over removed o
    obtain ⟨c, e⟩ := ce
    cases over with
    | nil =>
      simp only [ovStage1, List.drop_nil, ne_eq, not_true_eq_false, false_implies, and_true]
      cases (List.filter (noBlk cfg s) ((c, e) :: ws)) <;> simp [zip1]
    | cons n ns =>
      unfold ovStage1
      by_cases hb : (getBlockSize cfg s c).isNone = true
      · have hnb : noBlk cfg s (c, e) = true := hb
        rw [if_pos hb]
        simp only [List.filter_cons, hnb, if_true, zip1, List.length_cons, List.drop_succ_cons, idxs]
        by_cases hne : ns.isEmpty = true
        · rw [if_pos hne]
          have : ns = [] := by simpa using hne
          subst this
          simp only [ovCancel_log, List.drop_nil, ne_eq, not_true_eq_false, false_implies, and_true]
          cases (List.filter (noBlk cfg s) ws) <;> simp [zip1]
        · rw [if_neg hne]
          obtain ⟨i1, i2, i3⟩ := ih (i + 1) ns (removed ++ [i])
            { (o.cancel p c) with ledger := ((o.cancel p c).ledger.wants cfg.limit p n.cid ⟨n.prio, n.wt⟩).1,
                                  wants := (o.cancel p c).wants ++ [n],
                                  log := (o.cancel p c).log ++ [⟨c, e.prio, false, n, 1⟩] }
          refine ⟨?_, i2, ?_⟩
          · rw [i1]; simp [ovCancel_log]
          · intro h; rw [i3 h]; simp
      · have hnb : noBlk cfg s (c, e) = false := by
          simp only [noBlk]; cases hx : (getBlockSize cfg s c).isNone with
          | true => exact absurd hx hb
          | false => rfl
        rw [if_neg hb]
        simp only [List.filter_cons, hnb, Bool.false_eq_true, if_false, idxs]
        exact ih (i + 1) (n :: ns) removed o

/-- second loop, when `removed` is exactly the list of indices of the entries without a local block -/
theorem ovStage2_spec (cfg : Cfg) (s : State) (p : Peer) :
    ∀ (ws : List (Cid × Entry)) (i : Nat) (over : List MEntry) (o : OvSt),
      (ovStage2 cfg p i ws (idxs cfg s i ws) over o).log =
        o.log ++ zip2 (ws.filter fun ce => !noBlk cfg s ce) over := by
  intro ws
  induction ws with
  | nil => intro i over o; cases over <;> simp [ovStage2, zip2]
  | cons ce ws ih =>
    intro i over o
    obtain ⟨c, e⟩ := ce
    cases over with
    | nil =>
      simp only [ovStage2]
      cases (List.filter (fun ce => !noBlk cfg s ce) ((c, e) :: ws)) <;> simp [zip2]
    | cons n ns =>
      unfold ovStage2
      by_cases hnb : noBlk cfg s (c, e) = true
      · simp only [idxs, hnb, if_true, List.head?_cons, List.tail_cons, List.filter_cons, Bool.not_true,
          Bool.false_eq_true, if_false]
        exact ih (i + 1) (n :: ns) o
      · have hnb' : noBlk cfg s (c, e) = false := by simpa using hnb
        have hhead : (idxs cfg s (i + 1) ws).head? ≠ some i := by
          intro h
          have hm : i ∈ idxs cfg s (i + 1) ws := by
            cases hl : idxs cfg s (i + 1) ws with
            | nil => rw [hl] at h; simp at h
            | cons a r => rw [hl] at h; simp at h; subst h; exact List.mem_cons_self ..
          have := idxs_ge cfg s ws (i + 1) i hm
          omega
        simp only [idxs, hnb', Bool.false_eq_true, if_false, hhead, List.filter_cons, Bool.not_false, if_true, zip2]
        by_cases hp : n.prio < e.prio
        · simp [hp]
        · simp only [hp, if_false]
          rw [ih (i + 1) ns]
          simp [ovCancel_log]

theorem handleOverflow_log (cfg : Cfg) (s : State) (p : Peer) (l : Ledger) (q : PQ) (overflow wants : List MEntry) :
    let existing := (l.wantlistForPeer p).mergeSort (existLe cfg)
    let over := overflow.mergeSort (overLe cfg)
    (handleOverflow cfg s p l q overflow wants).log =
      zip1 (existing.filter (noBlk cfg s)) over ++
      zip2 (existing.filter fun ce => !noBlk cfg s ce) (over.drop (existing.filter (noBlk cfg s)).length) := by
  intro existing over
  unfold handleOverflow
  simp only
  obtain ⟨a1, a2, a3⟩ := ovStage1_spec cfg s p existing 0 over [] { ledger := l, q := q, wants := wants }
  by_cases he : (ovStage1 cfg s p 0 existing over [] { ledger := l, q := q, wants := wants }).2.1.isEmpty = true
  · rw [if_pos he]
    have : (ovStage1 cfg s p 0 existing over [] { ledger := l, q := q, wants := wants }).2.1 = [] := by simpa using he
    rw [a2] at this
    rw [a1, this]
    cases (List.filter (fun ce => !noBlk cfg s ce) existing) <;> simp [zip2]
  · rw [if_neg he]
    have hne : (ovStage1 cfg s p 0 existing over [] { ledger := l, q := q, wants := wants }).2.1 ≠ [] := by
      simpa using he
    rw [a3 hne, a2, List.nil_append, ovStage2_spec, a1]
    rfl

/-! sortedness of the two lists -/

theorem existLe_sorted (cfg : Cfg) (l : List (Cid × Entry)) :
    (l.mergeSort (existLe cfg)).Pairwise fun a b => a.2.prio ≤ b.2.prio := by
  have h := List.pairwise_mergeSort (le := existLe cfg)
    (by
      intro a b c h1 h2
      simp only [existLe, Bool.or_eq_true, decide_eq_true_eq, Bool.and_eq_true, beq_iff_eq] at *
      rcases h1 with h1 | ⟨h1, h1'⟩ <;> rcases h2 with h2 | ⟨h2, h2'⟩
      · left; omega
      · left; omega
      · left; omega
      · right; exact ⟨by omega, by omega⟩)
    (by
      intro a b
      simp only [existLe, Bool.or_eq_true, decide_eq_true_eq, Bool.and_eq_true, beq_iff_eq]
      by_cases h : a.2.prio < b.2.prio
      · left; left; exact h
      · by_cases h' : b.2.prio < a.2.prio
        · right; left; exact h'
        · have : a.2.prio = b.2.prio := by omega
          by_cases ht : cfg.tie a.1 ≤ cfg.tie b.1
          · left; right; exact ⟨this, ht⟩
          · right; right; exact ⟨this.symm, by omega⟩) l
  refine h.imp ?_
  intro a b hab
  simp only [existLe, Bool.or_eq_true, decide_eq_true_eq, Bool.and_eq_true, beq_iff_eq] at hab
  rcases hab with h | h <;> omega

theorem overLe_sorted (cfg : Cfg) (l : List MEntry) :
    (l.mergeSort (overLe cfg)).Pairwise fun a b => b.prio ≤ a.prio := by
  have h := List.pairwise_mergeSort (le := overLe cfg)
    (by
      intro a b c h1 h2
      simp only [overLe, Bool.or_eq_true, decide_eq_true_eq, Bool.and_eq_true, beq_iff_eq, gt_iff_lt] at *
      rcases h1 with h1 | ⟨h1, h1'⟩ <;> rcases h2 with h2 | ⟨h2, h2'⟩
      · left; omega
      · left; omega
      · left; omega
      · right; exact ⟨by omega, by omega⟩)
    (by
      intro a b
      simp only [overLe, Bool.or_eq_true, decide_eq_true_eq, Bool.and_eq_true, beq_iff_eq, gt_iff_lt]
      by_cases h : b.prio < a.prio
      · left; left; exact h
      · by_cases h' : a.prio < b.prio
        · right; left; exact h'
        · have : a.prio = b.prio := by omega
          by_cases ht : cfg.tie a.cid ≤ cfg.tie b.cid
          · left; right; exact ⟨this, ht⟩
          · right; right; exact ⟨this.symm, by omega⟩) l
  refine h.imp ?_
  intro a b hab
  simp only [overLe, Bool.or_eq_true, decide_eq_true_eq, Bool.and_eq_true, beq_iff_eq, gt_iff_lt] at hab
  rcases hab with h | h <;> omega

/-! properties of the two list functions -/

theorem zip1_mem (ws : List (Cid × Entry)) : ∀ (ns : List MEntry), ∀ ev ∈ zip1 ws ns,
    ev.stage = 1 ∧ ev.hadBlock = false ∧ (∃ ce ∈ ws, ev.cid = ce.1 ∧ ev.prio = ce.2.prio) ∧ ev.by_ ∈ ns := by
  induction ws with
  | nil => intro ns ev h; simp [zip1] at h
  | cons ce ws ih =>
    intro ns ev h
    cases ns with
    | nil => simp [zip1] at h
    | cons n ns =>
      simp only [zip1, List.mem_cons] at h
      rcases h with rfl | h
      · exact ⟨rfl, rfl, ⟨ce, List.mem_cons_self .., rfl, rfl⟩, List.mem_cons_self ..⟩
      · obtain ⟨a, b, ⟨ce', hce, hc⟩, d⟩ := ih ns ev h
        exact ⟨a, b, ⟨ce', List.mem_cons_of_mem _ hce, hc⟩, List.mem_cons_of_mem _ d⟩

/-- when the overflow entries outnumber them, the first loop evicts every want it is given -/
theorem zip1_all (ws : List (Cid × Entry)) : ∀ (ns : List MEntry), ws.length ≤ ns.length →
    ∀ ce ∈ ws, ∃ ev ∈ zip1 ws ns, ev.stage = 1 ∧ ev.cid = ce.1 := by
  induction ws with
  | nil => intro ns _ ce h; simp at h
  | cons c ws ih =>
    intro ns hl ce h
    cases ns with
    | nil => simp at hl
    | cons n ns =>
      rcases List.mem_cons.mp h with rfl | h
      · exact ⟨_, List.mem_cons_self .., rfl, rfl⟩
      · obtain ⟨ev, hev, a⟩ := ih ns (by simpa using hl) ce h
        exact ⟨ev, List.mem_cons_of_mem _ hev, a⟩

theorem zip2_mem (ws : List (Cid × Entry)) : ∀ (ns : List MEntry), ∀ ev ∈ zip2 ws ns,
    ev.stage = 2 ∧ ev.hadBlock = true ∧ ev.prio ≤ ev.by_.prio ∧ (∃ ce ∈ ws, ev.cid = ce.1 ∧ ev.prio = ce.2.prio) ∧ ev.by_ ∈ ns := by
  induction ws with
  | nil => intro ns ev h; simp [zip2] at h
  | cons ce ws ih =>
    intro ns ev h
    cases ns with
    | nil => simp [zip2] at h
    | cons n ns =>
      simp only [zip2] at h
      split at h
      · simp at h
      · rename_i hp
        rcases List.mem_cons.mp h with rfl | h
        · exact ⟨rfl, rfl, by simp only; omega, ⟨ce, List.mem_cons_self .., rfl, rfl⟩, List.mem_cons_self ..⟩
        · obtain ⟨a, b, c, ⟨ce', hce, hc⟩, d⟩ := ih ns ev h
          exact ⟨a, b, c, ⟨ce', List.mem_cons_of_mem _ hce, hc⟩, List.mem_cons_of_mem _ d⟩

/-- the second loop evicts a PREFIX of the wants it is given (they are sorted by ascending priority) -/
theorem zip2_prefix (ws : List (Cid × Entry)) : ∀ (ns : List MEntry),
    ((zip2 ws ns).map fun ev => (ev.cid, ev.prio)) <+: (ws.map fun ce => (ce.1, ce.2.prio)) := by
  induction ws with
  | nil => intro ns; simp [zip2]
  | cons ce ws ih =>
    intro ns
    cases ns with
    | nil => simp [zip2]
    | cons n ns =>
      simp only [zip2]
      split
      · simp
      · simp only [List.map_cons]
        exact List.prefix_cons_inj _ |>.mpr (ih ns)

/-- … and accepts a PREFIX of the overflow entries it is given (sorted by descending priority) -/
theorem zip2_prefix_over (ws : List (Cid × Entry)) : ∀ (ns : List MEntry), ((zip2 ws ns).map (·.by_)) <+: ns := by
  induction ws with
  | nil => intro ns; simp [zip2]
  | cons ce ws ih =>
    intro ns
    cases ns with
    | nil => simp [zip2]
    | cons n ns =>
      simp only [zip2]
      split
      · simp
      · simp only [List.map_cons]
        exact List.prefix_cons_inj _ |>.mpr (ih ns)

/-- where the second loop stops with both lists non-exhausted, the next newcomer has a lower priority than the
next (lowest remaining) want -/
theorem zip2_stop (ws : List (Cid × Entry)) : ∀ (ns : List MEntry) (ce : Cid × Entry) (n : MEntry),
    ws[(zip2 ws ns).length]? = some ce → ns[(zip2 ws ns).length]? = some n → n.prio < ce.2.prio := by
  induction ws with
  | nil => intro ns ce n h; simp at h
  | cons c ws ih =>
    intro ns ce n h1 h2
    cases ns with
    | nil => simp at h2
    | cons m ns =>
      simp only [zip2] at h1 h2
      split at h1
      · rename_i hp
        simp only [hp, if_true, List.length_nil, List.getElem?_cons_zero, Option.some.injEq] at h1 h2
        subst h1 h2; exact hp
      · rename_i hp
        simp only [hp, if_false, List.length_cons, List.getElem?_cons_succ] at h1 h2
        exact ih ns ce n h1 h2

end C36
