import BoxoModel.C36.Safe
/-! C36 — progress of the pop step and what happens to every popped task; intake without truncation. -/
namespace C36
open AMap

theorem popLoop_out_le (target : Nat) (sel : List Cid) :
    ∀ (pend : List Task) (work : Nat) (out : List Task), out.length ≤ (popLoop target sel pend work out).1.length := by
  induction sel with
  | nil => intro pend work out; simp [popLoop]
  | cons c cs ih =>
    intro pend work out
    unfold popLoop
    split
    · split
      · rename_i t _
        have := ih (pend.filter (·.topic ≠ c)) (work + t.work) (out ++ [t])
        simp only [List.length_append, List.length_singleton] at this; omega
      · exact ih pend work out
    · simp

/-- an enabled pop removes at least one pending task -/
theorem popLoop_progress (target : Nat) (sel : List Cid) :
    ∀ (pend : List Task) (work : Nat) (out : List Task), work < target →
      (∃ c ∈ sel, ∃ t ∈ pend, t.topic = c) →
      (popLoop target sel pend work out).2.length < pend.length ∧
      out.length < (popLoop target sel pend work out).1.length := by
  induction sel with
  | nil => intro pend work out _ h; obtain ⟨c, hc, _⟩ := h; simp at hc
  | cons c cs ih =>
    intro pend work out hw h
    unfold popLoop
    rw [if_pos hw]
    cases hf : pend.find? (·.topic = c) with
    | some t =>
      simp only
      have h1 := popLoop_length target cs (pend.filter (·.topic ≠ c)) (work + t.work) (out ++ [t])
      have h2 := popLoop_out_le target cs (pend.filter (·.topic ≠ c)) (work + t.work) (out ++ [t])
      have ht : t ∈ pend := List.mem_of_find?_eq_some hf
      have htc : t.topic = c := by simpa using List.find?_some hf
      have h3 : (pend.filter (·.topic ≠ c)).length < pend.length := by
        apply List.length_filter_lt_length_iff_exists.mpr
        exact ⟨t, ht, by simp [htc]⟩
      simp only [List.length_append, List.length_singleton] at h2
      exact ⟨by omega, by omega⟩
    | none =>
      simp only
      apply ih pend work out hw
      obtain ⟨c', hc', t, ht, htc⟩ := h
      rcases List.mem_cons.mp hc' with rfl | hc'
      · have := List.find?_eq_none.mp hf t ht
        simp [htc] at this
      · exact ⟨c', hc', t, ht, htc⟩

/-- how a popped task is answered: its CID is in the envelope, or it was a want-block task whose block has
vanished from the store and whose sender did not ask for DONT_HAVE -/
def Answered (s : State) (r : Option Env) (t : Task) : Prop :=
  (∃ env, r = some env ∧ (t.topic ∈ env.blocks ∨ t.topic ∈ env.haves ∨ t.topic ∈ env.dontHaves)) ∨
  (t.d.haveBlock = true ∧ t.d.isWantBlock = true ∧ s.has t.topic = false ∧ t.d.sendDontHave = false)

theorem popOnce_answered (cfg : Cfg) (s : State) (p : Peer) (sel : List Cid) :
    ∀ t ∈ popped cfg s p sel, Answered s (popOnce cfg s p sel).2 t := by
  intro t ht
  have hcase : (t.d.haveBlock = true ∧ t.d.isWantBlock = true ∧ s.has t.topic = false ∧ t.d.sendDontHave = false) ∨
      t.topic ∈ ((((popped cfg s p sel).filter fun t => t.d.haveBlock && t.d.isWantBlock).filter fun t => s.has t.topic).map (·.topic)) ∨
      t.topic ∈ (((popped cfg s p sel).filter fun t => t.d.haveBlock && !t.d.isWantBlock).map (·.topic)) ∨
      t.topic ∈ (((popped cfg s p sel).filter fun t => !t.d.haveBlock).map (·.topic) ++
        (((popped cfg s p sel).filter fun t => t.d.haveBlock && t.d.isWantBlock).filter fun t => !s.has t.topic && t.d.sendDontHave).map (·.topic)) := by
    cases hb : t.d.haveBlock with
    | false =>
      right; right; right
      exact List.mem_append_left _ (List.mem_map.mpr ⟨t, List.mem_filter.mpr ⟨ht, by simp [hb]⟩, rfl⟩)
    | true =>
      cases hw : t.d.isWantBlock with
      | false =>
        right; right; left
        exact List.mem_map.mpr ⟨t, List.mem_filter.mpr ⟨ht, by simp [hb, hw]⟩, rfl⟩
      | true =>
        cases hs : s.has t.topic with
        | true =>
          right; left
          exact List.mem_map.mpr ⟨t, List.mem_filter.mpr ⟨List.mem_filter.mpr ⟨ht, by simp [hb, hw]⟩, hs⟩, rfl⟩
        | false =>
          cases hd : t.d.sendDontHave with
          | false => left; exact ⟨rfl, rfl, rfl, rfl⟩
          | true =>
            right; right; right
            exact List.mem_append_right _ (List.mem_map.mpr ⟨t,
              List.mem_filter.mpr ⟨List.mem_filter.mpr ⟨ht, by simp [hb, hw]⟩, by simp [hs, hd]⟩, rfl⟩)
  unfold popped at hcase ht
  unfold popOnce
  simp only
  split
  · rename_i he
    have : (popLoop cfg.target sel (s.pq p).pending 0 []).1 = [] := by simpa using he
    rw [this] at ht; simp at ht
  · split
    · rename_i hempty
      obtain ⟨e1, e2, e3⟩ := hempty
      rcases hcase with h | h | h | h
      · right; exact h
      · have : ∀ l : List Cid, l.isEmpty = true → t.topic ∈ l → False := by intro l hl hm; cases l <;> simp_all
        exact (this _ e1 h).elim
      · have : ∀ l : List Cid, l.isEmpty = true → t.topic ∈ l → False := by intro l hl hm; cases l <;> simp_all
        exact (this _ e2 h).elim
      · have : ∀ l : List Cid, l.isEmpty = true → t.topic ∈ l → False := by intro l hl hm; cases l <;> simp_all
        exact (this _ e3 h).elim
    · rcases hcase with h | h | h | h
      · right; exact h
      · left; exact ⟨_, rfl, Or.inl h⟩
      · left; exact ⟨_, rfl, Or.inr (Or.inl h)⟩
      · left; exact ⟨_, rfl, Or.inr (Or.inr h)⟩

theorem popOnce_progress (cfg : Cfg) (htarget : 0 < cfg.target) (s : State) (p : Peer) (sel : List Cid)
    (h : ∃ c ∈ sel, ∃ t ∈ (s.pq p).pending, t.topic = c) :
    ((popOnce cfg s p sel).1.pq p).pending.length < (s.pq p).pending.length := by
  obtain ⟨h1, h2⟩ := popLoop_progress cfg.target sel (s.pq p).pending 0 [] htarget h
  unfold popOnce
  simp only
  split
  · rename_i he
    have : (popLoop cfg.target sel (s.pq p).pending 0 []).1 = [] := by simpa using he
    rw [this] at h2; simp at h2
  · split
    · simp only [pq_setPq, if_true]; exact h1
    · show ((State.setPq s p _).pq p).pending.length < _
      simp only [pq_setPq, if_true]; exact h1

end C36

namespace C36
open AMap

/-- the pushed task adds nothing to the tasks of the same CID that were already popped and are still
outstanding (`taskHasMoreInfoThanActiveTasks` is false): it is skipped -/
def Covered (q : PQ) (t : Task) : Prop :=
  (!(((q.active.filter (·.2.topic = t.topic)).map (·.2)).isEmpty ||
      hasNewInfo t ((q.active.filter (·.2.topic = t.topic)).map (·.2)))) = true

theorem mergedWith_topic (t ex : Task) : (mergedWith t ex).topic = ex.topic := by
  unfold mergedWith merge; split <;> rfl

theorem replaceTopic_hit (ts : List Task) (m x : Task) (hx : x ∈ ts) (h : x.topic = m.topic) : m ∈ replaceTopic ts m := by
  unfold replaceTopic
  exact List.mem_map.mpr ⟨x, hx, by simp [h]⟩

theorem replaceTopic_miss (ts : List Task) (m x : Task) (hx : x ∈ ts) (h : x.topic ≠ m.topic) : x ∈ replaceTopic ts m := by
  unfold replaceTopic
  exact List.mem_map.mpr ⟨x, hx, by simp [h]⟩

theorem pushOne_merge_eq (q : PQ) (t ex : Task)
    (hskip : ¬ (!(((q.active.filter (·.2.topic = t.topic)).map (·.2)).isEmpty ||
      hasNewInfo t ((q.active.filter (·.2.topic = t.topic)).map (·.2)))) = true)
    (hex : q.pending.find? (·.topic = t.topic) = some ex) :
    (pushOne q t).pending = replaceTopic q.pending (mergedWith t ex) := by
  unfold pushOne
  simp only
  rw [if_neg hskip, hex]
  rfl

theorem pushOne_new_eq (q : PQ) (t : Task)
    (hskip : ¬ (!(((q.active.filter (·.2.topic = t.topic)).map (·.2)).isEmpty ||
      hasNewInfo t ((q.active.filter (·.2.topic = t.topic)).map (·.2)))) = true)
    (hex : q.pending.find? (·.topic = t.topic) = none) :
    (pushOne q t).pending = q.pending ++ [t] := by
  unfold pushOne
  simp only
  rw [if_neg hskip, hex]

theorem pushOne_skip_eq (q : PQ) (t : Task)
    (hskip : (!(((q.active.filter (·.2.topic = t.topic)).map (·.2)).isEmpty ||
      hasNewInfo t ((q.active.filter (·.2.topic = t.topic)).map (·.2)))) = true) :
    pushOne q t = q := by
  unfold pushOne
  simp only
  rw [if_pos hskip]

theorem pushOne_topic_keep (q : PQ) (t x : Task) (hx : x ∈ q.pending) :
    ∃ x' ∈ (pushOne q t).pending, x'.topic = x.topic := by
  by_cases hskip : (!(((q.active.filter (·.2.topic = t.topic)).map (·.2)).isEmpty ||
      hasNewInfo t ((q.active.filter (·.2.topic = t.topic)).map (·.2)))) = true
  · rw [pushOne_skip_eq q t hskip]; exact ⟨x, hx, rfl⟩
  · cases hex : q.pending.find? (·.topic = t.topic) with
    | none => rw [pushOne_new_eq q t hskip hex]; exact ⟨x, List.mem_append_left _ hx, rfl⟩
    | some ex =>
      rw [pushOne_merge_eq q t ex hskip hex]
      have hext : ex.topic = t.topic := by simpa using List.find?_some hex
      have hm : (mergedWith t ex).topic = t.topic := by rw [mergedWith_topic, hext]
      by_cases hxt : x.topic = t.topic
      · exact ⟨mergedWith t ex, replaceTopic_hit _ _ x hx (by rw [hm, hxt]), by rw [hm, hxt]⟩
      · exact ⟨x, replaceTopic_miss _ _ x hx (by rw [hm]; exact hxt), rfl⟩

theorem pushOne_self (q : PQ) (t : Task) : (∃ x ∈ (pushOne q t).pending, x.topic = t.topic) ∨ Covered q t := by
  by_cases hskip : (!(((q.active.filter (·.2.topic = t.topic)).map (·.2)).isEmpty ||
      hasNewInfo t ((q.active.filter (·.2.topic = t.topic)).map (·.2)))) = true
  · right; exact hskip
  · left
    cases hex : q.pending.find? (·.topic = t.topic) with
    | none => rw [pushOne_new_eq q t hskip hex]; exact ⟨t, List.mem_append_right _ (List.mem_singleton.mpr rfl), rfl⟩
    | some ex =>
      rw [pushOne_merge_eq q t ex hskip hex]
      have hext : ex.topic = t.topic := by simpa using List.find?_some hex
      have hm : (mergedWith t ex).topic = t.topic := by rw [mergedWith_topic, hext]
      exact ⟨mergedWith t ex, replaceTopic_hit _ _ ex (List.mem_of_find?_eq_some hex) (by rw [hm, hext]), hm⟩

theorem covered_congr (q q' : PQ) (t : Task) (h : q'.active = q.active) : Covered q' t ↔ Covered q t := by
  unfold Covered; rw [h]

theorem foldl_pushOne_queued (ts : List Task) :
    ∀ q : PQ, (∀ x ∈ q.pending, ∃ x' ∈ (ts.foldl pushOne q).pending, x'.topic = x.topic) ∧
      ∀ t ∈ ts, (∃ x ∈ (ts.foldl pushOne q).pending, x.topic = t.topic) ∨ Covered q t := by
  induction ts with
  | nil => intro q; exact ⟨fun x hx => ⟨x, hx, rfl⟩, fun t ht => by simp at ht⟩
  | cons a r ih =>
    intro q
    obtain ⟨k1, k2⟩ := ih (pushOne q a)
    simp only [List.foldl_cons]
    refine ⟨fun x hx => ?_, fun t ht => ?_⟩
    · obtain ⟨x1, hx1, e1⟩ := pushOne_topic_keep q a x hx
      obtain ⟨x2, hx2, e2⟩ := k1 x1 hx1
      exact ⟨x2, hx2, by rw [e2, e1]⟩
    · rcases List.mem_cons.mp ht with rfl | ht
      · rcases pushOne_self q t with ⟨x, hx, e⟩ | h
        · left
          obtain ⟨x2, hx2, e2⟩ := k1 x hx
          exact ⟨x2, hx2, by rw [e2, e]⟩
        · right; exact h
      · rcases k2 t ht with h | h
        · left; exact h
        · right; exact (covered_congr q (pushOne q a) t (pushOne_active q a)).mp h

theorem pushTrunc_no_trunc (n : Nat) (q : PQ) (ts : List Task) (h : q.pending.length + ts.length ≤ n) :
    pushTrunc n q ts = ts.foldl pushOne q := by
  unfold pushTrunc
  simp only
  rw [if_neg (by omega)]

/-- every want-task of an accepted want that carries an answer -/
theorem wantTask_exists (cfg : Cfg) (bs : Cid → Option Nat) (et : MEntry)
    (h : (bs et.cid).isSome = true ∨ (cfg.sdh = true ∧ et.sdh = true)) :
    ∃ t ∈ wantTask cfg bs et, t.topic = et.cid := by
  unfold wantTask
  cases hb : bs et.cid with
  | some n => exact ⟨_, List.mem_singleton.mpr rfl, rfl⟩
  | none =>
    simp only
    rcases h with h | h
    · rw [hb] at h; simp at h
    · unfold dontHaveTask
      simp only [h.1, h.2, Bool.and_self, if_true]
      exact ⟨_, List.mem_singleton.mpr rfl, rfl⟩

end C36
