import BoxoModel.C36.Model
/-!
C36 — protocol-level ghost state used by the statements of `c36_send_safe` (no engine data in it):

* `W p c`  the peer's CURRENT want-list as the protocol defines it: a permitted want adds the CID, a cancel, a full
           want-list that does not repeat it, and a disconnect remove it. (The engine's limits play no role, so
           this is a superset of what any correct ledger holds.)
* `E c`    the block has been put into the store at some point of the history.
* `D p c`  peer `p` sent a want for `c` (CID not ignored) with the send-DONT_HAVE flag set, at some point.
* `A p c`  peer `p` asked for `c` (want, not cancel, CID not ignored) at a moment when the request filter denied it,
           or the block was not in the store.
-/
namespace C36

structure Spec where
  W : Peer → Cid → Bool := fun _ _ => false
  E : Cid → Bool := fun _ => false
  A : Peer → Cid → Bool := fun _ _ => false
  D : Peer → Cid → Bool := fun _ _ => false

/-- the CID is neither oversize nor an identity CID (otherwise the entry is ignored) -/
def staticOk (cfg : Cfg) (e : MEntry) : Bool :=
  !(decide (cfg.maxCid ≠ 0 ∧ cfg.byteLen e.cid > cfg.maxCid)) && !cfg.isIdent e.cid
/-- a want the filter permits -/
def isWant (cfg : Cfg) (p : Peer) (e : MEntry) : Bool := staticOk cfg e && !e.cancel && !cfg.denied p e.cid
def isCancel (cfg : Cfg) (e : MEntry) : Bool := staticOk cfg e && e.cancel
/-- a want, permitted or denied -/
def isAsk (cfg : Cfg) (e : MEntry) : Bool := staticOk cfg e && !e.cancel

def specStep (cfg : Cfg) (s : State) (sp : Spec) : Op → Spec
  | .msg p full es =>
    if es.isEmpty then sp
    else
      { sp with
        W := fun p' c =>
          if p' = p then
            ((!full && sp.W p c) || es.any fun e => isWant cfg p e && e.cid == c) &&
              !(es.any fun e => isCancel cfg e && e.cid == c)
          else sp.W p' c
        A := fun p' c =>
          if p' = p then
            sp.A p c || es.any fun e => isAsk cfg e && e.cid == c && (cfg.denied p c || !s.has c)
          else sp.A p' c
        D := fun p' c =>
          if p' = p then sp.D p c || es.any fun e => isAsk cfg e && e.cid == c && e.sdh
          else sp.D p' c }
  | .add c => { sp with E := fun c' => c' == c || sp.E c' }
  | .disc p => { sp with W := fun p' c => if p' = p then false else sp.W p' c }
  | _ => sp

/-- engine and ghost state run side by side -/
def runBoth (cfg : Cfg) : State → Spec → List Op → State × Spec
  | s, sp, [] => (s, sp)
  | s, sp, op :: r => runBoth cfg (step cfg s op) (specStep cfg s sp op) r

/-- what the wire format guarantees about one message: no CID is both wanted and cancelled in it
(bsmsg keys the want-list of a message by CID) -/
def Op.WF : Op → Prop
  | .msg _ _ es => ∀ a ∈ es, ∀ b ∈ es, a.cancel = true → b.cancel = false → a.cid ≠ b.cid
  | _ => True

/-- what a queued task must satisfy with respect to the ghost state -/
def TaskOk (cfg : Cfg) (sp : Spec) (p : Peer) (t : Task) : Prop :=
  (t.d.haveBlock = true → sp.W p t.topic = true ∧ cfg.denied p t.topic = false ∧ sp.E t.topic = true) ∧
  (t.d.haveBlock = false → t.d.sendDontHave = true ∧ (sp.W p t.topic = true ∨ cfg.denied p t.topic = true) ∧
    sp.A p t.topic = true) ∧
  (t.d.sendDontHave = true → sp.D p t.topic = true)

end C36
