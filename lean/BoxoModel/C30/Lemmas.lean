import BoxoModel.C30.Model
/-! C30 — helper lemmas: both range parsers factor through one lexer of a comma-separated piece;
range invariants of `parseRange`; the relation between the two parsers that the (non-seekable)
sniffing path relies on. Core-only. -/
namespace C30

/-- what both parsers read in one piece, before any size-dependent decision -/
inductive Lex where
  | skip
  | bad
  | suffix (n : Int)          -- "-n", n ≥ 0
  | «open» (i : Int)          -- "i-"
  | closed (i j : Int)        -- "i-j" (order not checked yet)
  | badEnd (i : Int)          -- "i-<garbage>"
  deriving DecidableEq, Repr

def lex (raw : Bytes) : Lex :=
  let ra := trim raw
  if ra.isEmpty then .skip
  else match cut 45 ra with
    | none => .bad
    | some (st, en) =>
      let st := trim st
      let en := trim en
      if st.isEmpty then
        if en.isEmpty || en.head? == some 45 then .bad
        else match parseInt en with
          | none => .bad
          | some i => if i < 0 then .bad else .suffix i
      else match parseInt st with
        | none => .bad
        | some i =>
          if en.isEmpty then .open i
          else match parseInt en with
            | none => .badEnd i
            | some j => .closed i j

def wlOf : Lex → PW
  | .skip => .skip
  | .bad => .bad
  | .suffix n => .rng { «from» := -n, to := none }
  | .open i => .rng { «from» := i, to := none }
  | .closed i j => if j < 0 || i > j then .bad else .rng { «from» := i, to := some j }
  | .badEnd _ => .bad

def lOf (size : Int) : Lex → PL
  | .skip => .skip
  | .bad => .bad
  | .suffix n =>
    let i := if n > size then size else n
    .rng { start := size - i, length := size - (size - i) }
  | .open i => if i < 0 then .bad else if i ≥ size then .noOverlap else .rng { start := i, length := size - i }
  | .closed i j =>
    if i < 0 then .bad else if i ≥ size then .noOverlap
    else if i > j then .bad
    else
      let j := if j ≥ size then size - 1 else j
      .rng { start := i, length := j - i + 1 }
  | .badEnd i => if i < 0 then .bad else if i ≥ size then .noOverlap else .bad

theorem pieceWL_eq (p : Bytes) : pieceWL p = wlOf (lex p) := by
  unfold pieceWL lex
  simp only []
  repeat' split
  all_goals first | (simp_all [wlOf]; done) | (simp_all [wlOf] <;> omega)

theorem pieceL_eq (size : Int) (p : Bytes) : pieceL size p = lOf size (lex p) := by
  unfold pieceL lex
  simp only []
  cases h1 : (trim p).isEmpty
  · simp only [Bool.false_eq_true, ↓reduceIte]
    cases h2 : cut 45 (trim p) with
    | none => simp [lOf]
    | some se =>
      obtain ⟨st, en⟩ := se
      simp only []
      cases h3 : (trim st).isEmpty
      · simp only [Bool.false_eq_true, ↓reduceIte]
        cases h4 : parseInt (trim st) with
        | none => simp [lOf]
        | some i =>
          simp only []
          cases h5 : (trim en).isEmpty
          · simp only [Bool.false_eq_true, ↓reduceIte]
            cases h6 : parseInt (trim en) with
            | none => simp [lOf]
            | some j => simp [lOf]
          · simp [lOf]
      · simp only [↓reduceIte]
        split
        · simp [lOf]
        · cases h6 : parseInt (trim en) with
          | none => simp [lOf]
          | some j =>
            simp only []
            split <;> simp [lOf]
  · simp [lOf]

/-! ### what the lexer guarantees -/

theorem mem_trimLeft {c : Nat} : ∀ {s : Bytes}, c ∈ trimLeft s → c ∈ s
  | [], h => by simp [trimLeft] at h
  | d :: r, h => by
    unfold trimLeft at h
    split at h
    · exact List.mem_cons_of_mem _ (mem_trimLeft h)
    · exact h

theorem mem_trim {c : Nat} {s : Bytes} (h : c ∈ trim s) : c ∈ s := by
  unfold trim at h
  have h1 := List.mem_reverse.mp h
  have h2 := mem_trimLeft h1
  have h3 := List.mem_reverse.mp h2
  exact mem_trimLeft h3

theorem cut_not_mem (sep : Nat) : ∀ (s a b : Bytes), cut sep s = some (a, b) → sep ∉ a
  | [], a, b, h => by simp [cut] at h
  | c :: r, a, b, h => by
    unfold cut at h
    split at h
    · simp only [Option.some.injEq, Prod.mk.injEq] at h; rw [← h.1]; simp
    · rename_i hc
      cases hr : cut sep r with
      | none => simp [hr] at h
      | some ab =>
        obtain ⟨a', b'⟩ := ab
        simp [hr] at h
        have ih := cut_not_mem sep r a' b' hr
        rw [← h.1]
        simp only [List.mem_cons, not_or]
        refine ⟨?_, ih⟩
        intro he; apply hc; simp [he]

theorem parseInt_nonneg {s : Bytes} {i : Int} (h : parseInt s = some i) (hm : 45 ∉ s) : 0 ≤ i := by
  unfold parseInt at h
  cases s with
  | nil => simp at h
  | cons c r =>
    have hc : c ≠ 45 := by intro he; apply hm; simp [he]
    simp only [] at h
    have : (c == 45) = false := by simp [hc]
    simp only [this] at h
    split at h <;> simp at h <;> (have := h.2.2; omega)

/-- facts about the numbers the lexer returns -/
def LexOK : Lex → Prop
  | .suffix n => 0 ≤ n
  | .open i => 0 ≤ i
  | .closed i _ => 0 ≤ i
  | .badEnd i => 0 ≤ i
  | _ => True

theorem lex_ok (p : Bytes) : LexOK (lex p) := by
  unfold lex
  simp only []
  cases h1 : (trim p).isEmpty
  · simp only [Bool.false_eq_true, ↓reduceIte]
    cases h2 : cut 45 (trim p) with
    | none => simp [LexOK]
    | some se =>
      obtain ⟨st, en⟩ := se
      have hnm : 45 ∉ trim st := fun h => cut_not_mem 45 _ _ _ h2 (mem_trim h)
      simp only []
      cases h3 : (trim st).isEmpty
      · simp only [Bool.false_eq_true, ↓reduceIte]
        cases h4 : parseInt (trim st) with
        | none => simp [LexOK]
        | some i =>
          have hi := parseInt_nonneg h4 hnm
          simp only []
          cases h5 : (trim en).isEmpty
          · simp only [Bool.false_eq_true, ↓reduceIte]
            cases h6 : parseInt (trim en) with
            | none => simpa [LexOK] using hi
            | some j => simpa [LexOK] using hi
          · simpa [LexOK] using hi
      · simp only [↓reduceIte]
        split
        · simp [LexOK]
        · cases h6 : parseInt (trim en) with
          | none => simp [LexOK]
          | some j =>
            simp only []
            split
            · simp [LexOK]
            · simp [LexOK]; omega
  · simp [LexOK]

end C30
