import BoxoModel.C30.Model
/-! C30 — helper lemmas: both range parsers factor through one lexer of a comma-separated piece;
range invariants of `parseRange`; the relation between the two parsers that the (non-seekable)
sniffing path relies on. Core-only. -/
namespace C30

/-- what both parsers read in one piece, before any size-dependent decision -/
inductive Lex where
  | skip
  | bad
  | suffix (n : Int)          -- "-n", n ≥ 0
  | «open» (i : Int)          -- "i-"
  | closed (i j : Int)        -- "i-j" (order not checked yet)
  | badEnd (i : Int)          -- "i-<garbage>"
  deriving DecidableEq, Repr

def lex (raw : Bytes) : Lex :=
  let ra := trim raw
  if ra.isEmpty then .skip
  else match cut 45 ra with
    | none => .bad
    | some (st, en) =>
      let st := trim st
      let en := trim en
      if st.isEmpty then
        if en.isEmpty || en.head? == some 45 then .bad
        else match parseInt en with
          | none => .bad
          | some i => if i < 0 then .bad else .suffix i
      else match parseInt st with
        | none => .bad
        | some i =>
          if en.isEmpty then .open i
          else match parseInt en with
            | none => .badEnd i
            | some j => .closed i j

def wlOf : Lex → PW
  | .skip => .skip
  | .bad => .bad
  | .suffix n => .rng { «from» := -n, to := none }
  | .open i => .rng { «from» := i, to := none }
  | .closed i j => if j < 0 || i > j then .bad else .rng { «from» := i, to := some j }
  | .badEnd _ => .bad

def lOf (size : Int) : Lex → PL
  | .skip => .skip
  | .bad => .bad
  | .suffix n =>
    let i := if n > size then size else n
    .rng { start := size - i, length := size - (size - i) }
  | .open i => if i < 0 then .bad else if i ≥ size then .noOverlap else .rng { start := i, length := size - i }
  | .closed i j =>
    if i < 0 then .bad else if i ≥ size then .noOverlap
    else if i > j then .bad
    else
      let j := if j ≥ size then size - 1 else j
      .rng { start := i, length := j - i + 1 }
  | .badEnd i => if i < 0 then .bad else if i ≥ size then .noOverlap else .bad

theorem pieceWL_eq (p : Bytes) : pieceWL p = wlOf (lex p) := by
  unfold pieceWL lex
  simp only []
  repeat' split
  all_goals first | (simp_all [wlOf]; done) | (simp_all [wlOf] <;> omega)

theorem pieceL_eq (size : Int) (p : Bytes) : pieceL size p = lOf size (lex p) := by
  unfold pieceL lex
  simp only []
  cases h1 : (trim p).isEmpty
  · simp only [Bool.false_eq_true, ↓reduceIte]
    cases h2 : cut 45 (trim p) with
    | none => simp [lOf]
    | some se =>
      obtain ⟨st, en⟩ := se
      simp only []
      cases h3 : (trim st).isEmpty
      · simp only [Bool.false_eq_true, ↓reduceIte]
        cases h4 : parseInt (trim st) with
        | none => simp [lOf]
        | some i =>
          simp only []
          cases h5 : (trim en).isEmpty
          · simp only [Bool.false_eq_true, ↓reduceIte]
            cases h6 : parseInt (trim en) with
            | none => simp [lOf]
            | some j => simp [lOf]
          · simp [lOf]
      · simp only [↓reduceIte]
        split
        · simp [lOf]
        · cases h6 : parseInt (trim en) with
          | none => simp [lOf]
          | some j =>
            simp only []
            split <;> simp [lOf]
  · simp [lOf]

/-! ### what the lexer guarantees -/

theorem mem_trimLeft {c : Nat} : ∀ {s : Bytes}, c ∈ trimLeft s → c ∈ s
  | [], h => by simp [trimLeft] at h
  | d :: r, h => by
    unfold trimLeft at h
    split at h
    · exact List.mem_cons_of_mem _ (mem_trimLeft h)
    · exact h

theorem mem_trim {c : Nat} {s : Bytes} (h : c ∈ trim s) : c ∈ s := by
  unfold trim at h
  have h1 := List.mem_reverse.mp h
  have h2 := mem_trimLeft h1
  have h3 := List.mem_reverse.mp h2
  exact mem_trimLeft h3

theorem cut_not_mem (sep : Nat) : ∀ (s a b : Bytes), cut sep s = some (a, b) → sep ∉ a
  | [], a, b, h => by simp [cut] at h
  | c :: r, a, b, h => by
    unfold cut at h
    split at h
    · simp only [Option.some.injEq, Prod.mk.injEq] at h; rw [← h.1]; simp
    · rename_i hc
      cases hr : cut sep r with
      | none => simp [hr] at h
      | some ab =>
        obtain ⟨a', b'⟩ := ab
        simp [hr] at h
        have ih := cut_not_mem sep r a' b' hr
        rw [← h.1]
        simp only [List.mem_cons, not_or]
        refine ⟨?_, ih⟩
        intro he; apply hc; simp [he]

theorem parseInt_nonneg {s : Bytes} {i : Int} (h : parseInt s = some i) (hm : 45 ∉ s) : 0 ≤ i := by
  unfold parseInt at h
  cases s with
  | nil => simp at h
  | cons c r =>
    have hc : c ≠ 45 := by intro he; apply hm; simp [he]
    simp only [] at h
    have : (c == 45) = false := by simp [hc]
    simp only [this] at h
    split at h <;> simp at h <;> (have := h.2.2; omega)

/-- facts about the numbers the lexer returns -/
def LexOK : Lex → Prop
  | .suffix n => 0 ≤ n
  | .open i => 0 ≤ i
  | .closed i _ => 0 ≤ i
  | .badEnd i => 0 ≤ i
  | _ => True

theorem lex_ok (p : Bytes) : LexOK (lex p) := by
  unfold lex
  simp only []
  cases h1 : (trim p).isEmpty
  · simp only [Bool.false_eq_true, ↓reduceIte]
    cases h2 : cut 45 (trim p) with
    | none => simp [LexOK]
    | some se =>
      obtain ⟨st, en⟩ := se
      have hnm : 45 ∉ trim st := fun h => cut_not_mem 45 _ _ _ h2 (mem_trim h)
      simp only []
      cases h3 : (trim st).isEmpty
      · simp only [Bool.false_eq_true, ↓reduceIte]
        cases h4 : parseInt (trim st) with
        | none => simp [LexOK]
        | some i =>
          have hi := parseInt_nonneg h4 hnm
          simp only []
          cases h5 : (trim en).isEmpty
          · simp only [Bool.false_eq_true, ↓reduceIte]
            cases h6 : parseInt (trim en) with
            | none => simpa [LexOK] using hi
            | some j => simpa [LexOK] using hi
          · simpa [LexOK] using hi
      · simp only [↓reduceIte]
        split
        · simp [LexOK]
        · cases h6 : parseInt (trim en) with
          | none => simp [LexOK]
          | some j =>
            simp only []
            split
            · simp [LexOK]
            · simp [LexOK]; omega
  · simp [LexOK]

/-! ### invariants of the ranges `parseRange` returns -/

/-- a range lies inside the file -/
def Inside (size : Int) (r : HRange) : Prop := 0 ≤ r.start ∧ 0 ≤ r.length ∧ r.start + r.length ≤ size

theorem loopWL_cons (p : Bytes) (ps : List Bytes) : loopWL (p :: ps) =
    match wlOf (lex p) with
    | .skip => loopWL ps
    | .bad => none
    | .rng r => (loopWL ps).map (r :: ·) := by
  rw [loopWL, pieceWL_eq]; cases wlOf (lex p) <;> rfl

theorem loopL_cons (size : Int) (p : Bytes) (ps : List Bytes) : loopL size (p :: ps) =
    match lOf size (lex p) with
    | .skip => loopL size ps
    | .bad => none
    | .noOverlap => (loopL size ps).map fun x => (x.1, true)
    | .rng r => (loopL size ps).map fun x => (r :: x.1, x.2) := by
  rw [loopL, pieceL_eq]; cases lOf size (lex p) <;> rfl

theorem lOf_inside {size : Int} (hs : 0 ≤ size) {l : Lex} (hl : LexOK l) {r : HRange}
    (h : lOf size l = .rng r) : Inside size r := by
  cases l <;> simp only [lOf, LexOK] at h hl
  all_goals try (simp at h; done)
  all_goals (repeat' split at h) <;> simp at h <;> subst h <;> simp [Inside] <;> omega

theorem loopL_inside {size : Int} (hs : 0 ≤ size) : ∀ (ps : List Bytes) (rs : List HRange) (no : Bool),
    loopL size ps = some (rs, no) → ∀ r ∈ rs, Inside size r
  | [], rs, no, h => by simp [loopL] at h; intro r hr; simp_all
  | p :: ps, rs, no, h => by
    rw [loopL_cons] at h
    cases hr : loopL size ps with
    | none => cases hl : lOf size (lex p) <;> simp [hl, hr] at h
    | some x =>
      obtain ⟨a, b⟩ := x
      have ih := loopL_inside hs ps a b hr
      cases hl : lOf size (lex p) with
      | skip => simp [hl, hr] at h; obtain ⟨rfl, _⟩ := h; exact ih
      | bad => simp [hl] at h
      | noOverlap => simp [hl, hr] at h; obtain ⟨rfl, _⟩ := h; exact ih
      | rng q =>
        simp [hl, hr] at h
        obtain ⟨rfl, _⟩ := h
        intro r hr'
        simp at hr'
        rcases hr' with rfl | hr'
        · exact lOf_inside hs (lex_ok p) hl
        · exact ih r hr'
theorem parseRange_inside {s : Bytes} {size : Int} (hs : 0 ≤ size) {rs : List HRange}
    (h : parseRange s size = .ok rs) : ∀ r ∈ rs, Inside size r := by
  unfold parseRange at h
  split at h
  · simp at h; intro r hr; simp_all
  · split at h
    · simp at h
    · split at h
      · simp at h
      · rename_i ranges no hl
        split at h
        · simp at h
        · simp at h; subst h
          exact loopL_inside hs _ _ _ hl

theorem wlOf_closed {i j : Int} (hi : 0 ≤ i) :
    wlOf (.closed i j) = if i > j then .bad else .rng { «from» := i, to := some j } := by
  simp only [wlOf]
  by_cases h : i > j
  · have : j < 0 ∨ i > j := Or.inr h
    simp [h]
  · simp [h]; omega

/-- `From < 0` only comes with `To = nil` (so seekToRangeStart's first error is unreachable) -/
theorem loopWL_to_none : ∀ (ps : List Bytes) (ws : List ByteRange), loopWL ps = some ws →
    ∀ w ∈ ws, w.from < 0 → w.to = none
  | [], ws, h => by simp [loopWL] at h; intro w hw; simp_all
  | p :: ps, ws, h => by
    rw [loopWL_cons] at h
    have ok := lex_ok p
    cases hr : loopWL ps with
    | none => cases hl : wlOf (lex p) <;> simp [hl, hr] at h
    | some a =>
      have ih := loopWL_to_none ps a hr
      cases hl : lex p with
      | skip => simp [hl, hr, wlOf] at h; subst h; exact ih
      | bad => simp [hl, wlOf] at h
      | badEnd i => simp [hl, wlOf] at h
      | suffix n =>
        simp [hl, hr, wlOf] at h; subst h
        intro w hw; simp at hw
        rcases hw with rfl | hw
        · simp
        · exact ih w hw
      | «open» i =>
        simp [hl, hr, wlOf] at h; subst h
        intro w hw; simp at hw
        rcases hw with rfl | hw
        · simp
        · exact ih w hw
      | closed i j =>
        simp only [hl, LexOK] at ok
        rw [hl, wlOf_closed ok] at h
        by_cases hij : i > j
        · simp [hij] at h
        · simp [hij, hr] at h; subst h
          intro w hw; simp at hw
          rcases hw with rfl | hw
          · simp; omega
          · exact ih w hw
theorem lOf_open {size i : Int} (hi : 0 ≤ i) :
    lOf size (.open i) = if i ≥ size then .noOverlap else .rng { start := i, length := size - i } := by
  simp only [lOf]
  have : ¬ i < 0 := by omega
  simp [this]

theorem lOf_closed {size i : Int} (j : Int) (hi : 0 ≤ i) :
    lOf size (.closed i j) = if i ≥ size then .noOverlap else if i > j then .bad
      else .rng { start := i, length := (if j ≥ size then size - 1 else j) - i + 1 } := by
  simp only [lOf]
  have : ¬ i < 0 := by omega
  simp [this]

theorem lOf_badEnd {size i : Int} (hi : 0 ≤ i) :
    lOf size (.badEnd i) = if i ≥ size then .noOverlap else .bad := by
  simp only [lOf]
  have : ¬ i < 0 := by omega
  simp [this]

/-- If the first range read without the length starts at 0 (or there is none), then the first range
`parseRange` keeps starts at 0 or is empty.  This is what makes the non-seekable (sniffing) path safe. -/
theorem loops_agree_at_zero {size : Int} (hs : 0 ≤ size) : ∀ (ps : List Bytes) (ws : List ByteRange)
    (rs : List HRange) (no : Bool), loopWL ps = some ws → loopL size ps = some (rs, no) →
    (∀ w, ws.head? = some w → w.from = 0) → ∀ r, rs.head? = some r → r.start = 0 ∨ r.length = 0
  | [], ws, rs, no, h1, h2, _ => by simp [loopL] at h2; intro r hr; simp_all
  | p :: ps, ws, rs, no, h1, h2, hz => by
    have hin := loopL_inside hs (p :: ps) rs no h2
    rw [loopWL_cons] at h1
    rw [loopL_cons] at h2
    have ok := lex_ok p
    cases hw : loopWL ps with
    | none => cases hl : wlOf (lex p) <;> simp [hl, hw] at h1
    | some a =>
    cases hr : loopL size ps with
    | none => cases hl : lOf size (lex p) <;> simp [hl, hr] at h2
    | some x =>
      obtain ⟨b, c⟩ := x
      -- when the file is empty every kept range is empty
      have hempty : size = 0 → ∀ r, rs.head? = some r → r.start = 0 ∨ r.length = 0 := by
        intro h0 r hr'
        have hi := hin r (List.mem_of_mem_head? hr')
        unfold Inside at hi
        omega
      cases hl : lex p with
      | skip =>
        simp [hl, hw, hr, wlOf, lOf] at h1 h2
        obtain ⟨rfl, rfl⟩ := h2
        subst h1
        exact loops_agree_at_zero hs ps a b c hw hr hz
      | bad => simp [hl, wlOf] at h1
      | badEnd i => simp [hl, wlOf] at h1
      | suffix n =>
        simp [hl, hw, hr, wlOf, lOf] at h1 h2
        subst h1
        have hn := hz _ rfl
        simp at hn
        subst hn
        obtain ⟨rfl, _⟩ := h2
        intro r hr'
        simp at hr'
        subst hr'
        right
        simp
        split <;> omega
      | «open» i =>
        simp only [hl, LexOK] at ok
        rw [hl, lOf_open ok] at h2
        simp [hl, hw, wlOf] at h1
        subst h1
        have hn := hz _ rfl
        simp at hn
        subst hn
        by_cases h0 : (0:Int) ≥ size
        · exact hempty (by omega)
        · simp [h0, hr] at h2
          obtain ⟨rfl, _⟩ := h2
          intro r hr'
          simp at hr'
          subst hr'
          simp
      | closed i j =>
        simp only [hl, LexOK] at ok
        rw [hl, lOf_closed j ok] at h2
        rw [hl, wlOf_closed ok] at h1
        by_cases hij : i > j
        · simp [hij] at h1
        · simp [hij, hw] at h1
          subst h1
          have hn := hz _ rfl
          simp at hn
          subst hn
          by_cases h0 : (0:Int) ≥ size
          · exact hempty (by omega)
          · simp [h0, hij, hr] at h2
            obtain ⟨rfl, _⟩ := h2
            intro r hr'
            simp at hr'
            subst hr'
            simp

/-- a header the length-less parser accepts is never "invalid" for `parseRange` -/
theorem loopL_of_loopWL (size : Int) : ∀ (ps : List Bytes) (ws : List ByteRange), loopWL ps = some ws →
    loopL size ps ≠ none
  | [], _, _ => by simp [loopL]
  | p :: ps, ws, h => by
    rw [loopWL_cons] at h
    rw [loopL_cons]
    have ok := lex_ok p
    cases hw : loopWL ps with
    | none => cases hl : wlOf (lex p) <;> simp [hl, hw] at h
    | some a =>
      have ih := loopL_of_loopWL size ps a hw
      cases hr : loopL size ps with
      | none => exact absurd hr ih
      | some x =>
        cases hl : lex p with
        | skip => simp [lOf]
        | bad => simp [hl, wlOf] at h
        | badEnd i => simp [hl, wlOf] at h
        | suffix n => simp [lOf]
        | «open» i =>
          simp only [hl, LexOK] at ok
          rw [lOf_open ok]
          by_cases h0 : i ≥ size <;> simp [h0]
        | closed i j =>
          simp only [hl, LexOK] at ok
          rw [lOf_closed j ok]
          rw [hl, wlOf_closed ok] at h
          by_cases hij : i > j
          · simp [hij] at h
          · by_cases h0 : i ≥ size <;> simp [h0, hij]
/-! ### errNoOverlap characterised -/

/-- first-byte-pos of a byte-range-spec, when it has one (suffix specs have none) -/
def firstPos : Lex → Option Int
  | .open i => some i
  | .closed i _ => some i
  | .badEnd i => some i
  | _ => none

/-- the piece names no byte of a file of `size` bytes: its first-byte-pos is at or beyond the end -/
def Beyond (size : Int) (l : Lex) : Prop := ∃ i, firstPos l = some i ∧ size ≤ i

theorem lOf_noOverlap_iff {size : Int} {l : Lex} (ok : LexOK l) : lOf size l = .noOverlap ↔ Beyond size l := by
  cases l with
  | skip => simp [lOf, Beyond, firstPos]
  | bad => simp [lOf, Beyond, firstPos]
  | suffix n => simp [lOf, Beyond, firstPos]
  | «open» i =>
    simp only [LexOK] at ok
    rw [lOf_open ok]
    by_cases h : i ≥ size <;> simp [h, Beyond, firstPos] <;> omega
  | closed i j =>
    simp only [LexOK] at ok
    rw [lOf_closed j ok]
    by_cases h : i ≥ size
    · simp [h, Beyond, firstPos]
    · by_cases h2 : i > j <;> simp [h, h2, Beyond, firstPos] <;> omega
  | badEnd i =>
    simp only [LexOK] at ok
    rw [lOf_badEnd ok]
    by_cases h : i ≥ size <;> simp [h, Beyond, firstPos] <;> omega

theorem lOf_skip_iff {size : Int} {l : Lex} : lOf size l = .skip ↔ l = .skip := by
  cases l <;> simp [lOf]
  all_goals (repeat' split) <;> simp

theorem loopL_nil_of {size : Int} : ∀ (ps : List Bytes), (∀ p ∈ ps, lex p = .skip ∨ Beyond size (lex p)) →
    ∃ no, loopL size ps = some ([], no) ∧ (no = true ↔ ∃ p ∈ ps, Beyond size (lex p))
  | [], _ => ⟨false, by simp [loopL]⟩
  | p :: ps, h => by
    obtain ⟨no, h1, h2⟩ := loopL_nil_of ps (fun q hq => h q (List.mem_cons_of_mem _ hq))
    rw [loopL_cons]
    rcases h p (by simp) with hp | hp
    · refine ⟨no, ?_, ?_⟩
      · simp [hp, lOf, h1]
      · simp [hp, h2, Beyond, firstPos]
    · refine ⟨true, ?_, ?_⟩
      · rw [(lOf_noOverlap_iff (lex_ok p)).mpr hp]; simp [h1]
      · simp; exact Or.inl hp

theorem loopL_nil_only {size : Int} : ∀ (ps : List Bytes) (no : Bool), loopL size ps = some ([], no) →
    ∀ p ∈ ps, lex p = .skip ∨ Beyond size (lex p)
  | [], _, _ => by simp
  | p :: ps, no, h => by
    rw [loopL_cons] at h
    cases hr : loopL size ps with
    | none => cases hl : lOf size (lex p) <;> simp [hl, hr] at h
    | some x =>
      obtain ⟨a, b⟩ := x
      cases hl : lOf size (lex p) with
      | skip =>
        simp [hl, hr] at h
        obtain ⟨rfl, _⟩ := h
        intro q hq; simp at hq
        rcases hq with rfl | hq
        · exact Or.inl (lOf_skip_iff.mp hl)
        · exact loopL_nil_only ps b hr q hq
      | bad => simp [hl] at h
      | noOverlap =>
        simp [hl, hr] at h
        obtain ⟨rfl, _⟩ := h
        intro q hq; simp at hq
        rcases hq with rfl | hq
        · exact Or.inr ((lOf_noOverlap_iff (lex_ok _)).mp hl)
        · exact loopL_nil_only ps b hr q hq
      | rng r => simp [hl, hr] at h

/-- the comma-separated pieces of a Range header value -/
def pieces (hdr : Bytes) : List Bytes := splitOn 44 (hdr.drop 6)

/-- errNoOverlap, characterised: every non-empty piece is a range-spec whose first-byte-pos is at or
beyond the end of the file, and there is at least one -/
theorem parseRange_noOverlap_iff {s : Bytes} {size : Int} : parseRange s size = .noOverlap ↔
    s ≠ [] ∧ hasPrefix s bytesPrefix = true ∧ (∀ p ∈ pieces s, lex p = .skip ∨ Beyond size (lex p)) ∧
      ∃ p ∈ pieces s, Beyond size (lex p) := by
  unfold parseRange pieces
  cases hs : s.isEmpty
  · have hne : s ≠ [] := by intro h; simp [h] at hs
    cases hp : hasPrefix s bytesPrefix
    · simp [hne]
    · simp only [hne, Bool.false_eq_true, ↓reduceIte, Bool.not_true, ne_eq, not_false_eq_true, true_and]
      constructor
      · intro h
        cases hl : loopL size (splitOn 44 (List.drop 6 s)) with
        | none => simp [hl] at h
        | some x =>
          obtain ⟨rs, no⟩ := x
          simp only [hl] at h
          split at h
          · rename_i hc
            simp at hc
            obtain ⟨rfl, rfl⟩ := hc
            have h1 := loopL_nil_only _ _ hl
            obtain ⟨no', h2, h3⟩ := loopL_nil_of (size := size) _ h1
            rw [hl] at h2
            simp at h2
            exact ⟨h1, h3.mp h2⟩
          · simp at h
      · rintro ⟨h1, h2⟩
        obtain ⟨no, h3, h4⟩ := loopL_nil_of (size := size) _ h1
        rw [h3]
        simp [h4.mpr h2]
  · simp at hs; simp [hs]
/-! ### reading from the file -/

theorem readAt_whole (c : Bytes) : readAt c 0 (c.length : Int) = c := by
  simp [readAt]

theorem readAt_length {c : Bytes} {a n : Int} (ha : 0 ≤ a) (hn : 0 ≤ n) (h : a + n ≤ c.length) :
    ((readAt c a n).length : Int) = n := by
  simp [readAt]
  omega

theorem readAt_zero_len (c : Bytes) (a b : Int) : readAt c a 0 = readAt c b 0 := by
  simp [readAt]

/-- the first kept range comes from the first piece that is neither empty nor beyond the end -/
theorem loopL_head {size : Int} : ∀ (ps : List Bytes) (rs : List HRange) (no : Bool) (ra : HRange),
    loopL size ps = some (rs, no) → rs.head? = some ra →
    ∃ pre p post, ps = pre ++ p :: post ∧ (∀ q ∈ pre, lex q = .skip ∨ Beyond size (lex q)) ∧
      lOf size (lex p) = .rng ra
  | [], rs, no, ra, h, hh => by simp [loopL] at h; simp_all
  | p :: ps, rs, no, ra, h, hh => by
    rw [loopL_cons] at h
    cases hr : loopL size ps with
    | none => cases hl : lOf size (lex p) <;> simp [hl, hr] at h
    | some x =>
      obtain ⟨a, b⟩ := x
      cases hl : lOf size (lex p) with
      | skip =>
        simp [hl, hr] at h
        obtain ⟨rfl, _⟩ := h
        obtain ⟨pre, q, post, e, h1, h2⟩ := loopL_head ps a b ra hr hh
        refine ⟨p :: pre, q, post, by simp [e], ?_, h2⟩
        intro z hz; simp at hz
        rcases hz with rfl | hz
        · exact Or.inl (lOf_skip_iff.mp hl)
        · exact h1 z hz
      | bad => simp [hl] at h
      | noOverlap =>
        simp [hl, hr] at h
        obtain ⟨rfl, _⟩ := h
        obtain ⟨pre, q, post, e, h1, h2⟩ := loopL_head ps a b ra hr hh
        refine ⟨p :: pre, q, post, by simp [e], ?_, h2⟩
        intro z hz; simp at hz
        rcases hz with rfl | hz
        · exact Or.inr ((lOf_noOverlap_iff (lex_ok _)).mp hl)
        · exact h1 z hz
      | rng q =>
        simp [hl, hr] at h
        obtain ⟨rfl, _⟩ := h
        simp at hh
        subst hh
        exact ⟨[], p, ps, by simp, by simp, hl⟩

/-! ### httpServeContent's plan -/

theorem parseRange_nil (size : Int) : parseRange [] size = .ok [] := by simp [parseRange]

/-- the three shapes of a plan -/
theorem plan_cases (f : File) (r : Req) :
    (∃ resp, planContent f r = .final resp ∧ resp.body = [] ∧
        (resp.status = 304 ∨ resp.status = 412 ∨ resp.status = 416)) ∨
    planContent f r = .send 200 .none 0 (f.content.length : Int) ∨
    ∃ ra hdr rs, planContent f r =
        .send 206 (.range ra.start (ra.start + ra.length - 1) (f.content.length : Int)) ra.start ra.length ∧
      checkPreconditions f r = .go hdr ∧ parseRange hdr (f.content.length : Int) = .ok rs ∧
      rs.head? = some ra := by
  unfold planContent
  cases hp : checkPreconditions f r with
  | failed => left; exact ⟨_, rfl, rfl, by simp⟩
  | notModified => left; exact ⟨_, rfl, rfl, by simp⟩
  | go hdr =>
    simp only []
    cases hr : parseRange hdr (f.content.length : Int) with
    | invalid => left; exact ⟨_, rfl, rfl, by simp⟩
    | noOverlap =>
      simp only []
      split
      · right; left; simp
      · left; exact ⟨_, rfl, rfl, by simp⟩
    | ok rs =>
      simp only []
      split
      · right; left; rfl
      · rename_i ra tl hsel
        right; right
        refine ⟨ra, hdr, rs, rfl, rfl, hr, ?_⟩
        split at hsel
        · simp at hsel
        · simp [hsel]

/-! ### the two parsers, header level -/

theorem parsers_agree_at_zero {s : Bytes} {size : Int} (hs : 0 ≤ size) {ws : List ByteRange}
    {rs : List HRange} (h1 : parseRangeWL s = some ws) (h2 : parseRange s size = .ok rs)
    (hz : ∀ w, ws.head? = some w → w.from = 0) : ∀ ra, rs.head? = some ra → ra.start = 0 ∨ ra.length = 0 := by
  unfold parseRangeWL at h1
  unfold parseRange at h2
  cases he : s.isEmpty
  · simp only [he, Bool.false_eq_true, ↓reduceIte] at h1 h2
    cases hp : hasPrefix s bytesPrefix
    · simp [hp] at h1
    · simp only [hp, Bool.not_true, Bool.false_eq_true, ↓reduceIte] at h1 h2
      cases hl : loopL size (splitOn 44 (List.drop 6 s)) with
      | none => simp [hl] at h2
      | some x =>
        obtain ⟨rs', no⟩ := x
        simp only [hl] at h2
        split at h2
        · simp at h2
        · simp at h2; subst h2
          exact loops_agree_at_zero hs _ _ _ _ h1 hl hz
  · simp [he] at h2; subst h2; simp

theorem parseRange_valid_of_WL {s : Bytes} (size : Int) {ws : List ByteRange}
    (h1 : parseRangeWL s = some ws) : parseRange s size ≠ .invalid := by
  unfold parseRangeWL at h1
  unfold parseRange
  cases he : s.isEmpty
  · simp only [he, Bool.false_eq_true, ↓reduceIte] at h1 ⊢
    cases hp : hasPrefix s bytesPrefix
    · simp [hp] at h1
    · simp only [hp, Bool.not_true, Bool.false_eq_true, ↓reduceIte] at h1 ⊢
      have := loopL_of_loopWL size _ _ h1
      cases hl : loopL size (splitOn 44 (List.drop 6 s)) with
      | none => exact absurd hl this
      | some x => simp only []; split <;> simp
  · simp

/-- checkPreconditions continues either with the Range header or with none (If-Range failed) -/
theorem pre_go {f : File} {r : Req} {hdr : Bytes} (h : checkPreconditions f r = .go hdr) :
    hdr = r.range ∨ (hdr = [] ∧ r.range ≠ [] ∧ checkIfRange f r = .false) := by
  unfold checkPreconditions at h
  simp only [] at h
  repeat' split at h
  all_goals first | (simp at h; done) | (simp at h; subst h; simp_all)

/-! ### unfolding `serve` -/

/-- the handler-level If-None-Match shortcut (handleIfNoneMatch) fires -/
def early304 (f : File) (r : Req) : Bool :=
  !r.ifNoneMatch.isEmpty && etagMatchAny r.ifNoneMatch [f.etag, f.dirEtag, f.dagEtag]

theorem preSeek_fixed_some (size : Int) (ws : List ByteRange)
    (h : ∀ w ∈ ws, w.from < 0 → w.to = none) : ∃ p, preSeek true size ws.head? = some p ∧
      ((∀ w, ws.head? = some w → w.from = 0) → p = 0) := by
  cases ws with
  | nil => exact ⟨0, rfl, fun _ => rfl⟩
  | cons w t =>
    have hw := h w (by simp)
    by_cases h0 : w.from = 0
    · exact ⟨0, by simp [preSeek, h0], fun _ => rfl⟩
    · by_cases h1 : w.from < 0
      · by_cases h2 : size + w.from < 0
        · exact ⟨0, by simp [preSeek, h0, h1, h2, hw h1], fun _ => rfl⟩
        · exact ⟨size + w.from, by simp [preSeek, h0, h1, h2, hw h1], fun hz => absurd (hz w rfl) h0⟩
      · exact ⟨w.from, by simp [preSeek, h0, h1], fun hz => absurd (hz w rfl) h0⟩

/-- GET, spelled out: what `serve` is once the early exits are excluded.  `seekable = false` is the
content-type sniffing path, which is only taken when the pre-seek position is 0. -/
theorem serve_get (f : File) (r : Req) (he : early304 f r = false) (hh : r.head = false)
    (ws : List ByteRange) (hw : parseRangeWL r.range = some ws) :
    ∃ (seekable : Bool) (pos0 : Int), (seekable = false → pos0 = 0 ∧ ∀ w, ws.head? = some w → w.from = 0) ∧
      serve f r = match planContent f r with
        | .final resp => resp
        | .send st cr start n =>
          { status := st, contentRange := cr, contentLength := some n, lastModified := hasMod f,
            etag := f.etag, body := readAt f.content (if seekable then start else pos0) n } := by
  have hto : ∀ w ∈ ws, w.from < 0 → w.to = none := by
    unfold parseRangeWL at hw
    split at hw
    · simp at hw; subst hw; simp
    · split at hw
      · simp at hw
      · exact loopWL_to_none _ _ hw
  obtain ⟨p, hp1, hp2⟩ := preSeek_fixed_some (f.content.length : Int) ws hto
  refine ⟨!((match ws.head? with | none => true | some ra => ra.from == 0) && !r.ctypeKnown), p, ?_, ?_⟩
  · intro hns
    have hz : ∀ w, ws.head? = some w → w.from = 0 := by
      intro w hw'
      rw [hw'] at hns
      simp at hns
      exact hns.1
    exact ⟨hp2 hz, hz⟩
  · unfold early304 at he
    unfold serve serveWith
    simp only [he, hh, hw, hp1, Bool.false_eq_true, ↓reduceIte, Bool.true_and]
    cases planContent f r <;> rfl

/-- HEAD, spelled out (the Range header passed the syntax check) -/
theorem serve_head (f : File) (r : Req) (he : early304 f r = false) (hh : r.head = true)
    (ws : List ByteRange) (hw : parseRangeWL r.range = some ws) :
    serve f r = match planContent f r with
      | .final resp => resp
      | .send st cr _ n =>
        { status := st, contentRange := cr, contentLength := some n, lastModified := hasMod f, etag := f.etag } := by
  unfold early304 at he
  unfold serve serveWith
  simp only [he, hh, hw, Option.isNone_some, Bool.and_false, Bool.false_eq_true, ↓reduceIte]
  cases planContent f r <;> rfl

theorem parseRange_head {s : Bytes} {size : Int} {rs : List HRange} {ra : HRange}
    (h : parseRange s size = .ok rs) (hh : rs.head? = some ra) :
    ∃ pre p post, pieces s = pre ++ p :: post ∧ (∀ q ∈ pre, lex q = .skip ∨ Beyond size (lex q)) ∧
      lOf size (lex p) = .rng ra := by
  unfold parseRange at h
  unfold pieces
  cases he : s.isEmpty
  · simp only [he, Bool.false_eq_true, ↓reduceIte] at h
    cases hp : hasPrefix s bytesPrefix
    · simp [hp] at h
    · simp only [hp, Bool.not_true, Bool.false_eq_true, ↓reduceIte] at h
      cases hl : loopL size (splitOn 44 (List.drop 6 s)) with
      | none => simp [hl] at h
      | some x =>
        obtain ⟨rs', no⟩ := x
        simp only [hl] at h
        split at h
        · simp at h
        · simp at h; subst h
          exact loopL_head _ _ _ _ hl hh
  · simp [he] at h; subst h; simp at hh

theorem serve_cases (f : File) (r : Req) :
    (early304 f r = true ∧ (serve f r).status = 304) ∨
    (early304 f r = false ∧ parseRangeWL r.range = none ∧ serve f r = { status := 400 }) ∨
    (early304 f r = false ∧ (∃ ws, parseRangeWL r.range = some ws) ∧
      ((∃ resp, planContent f r = .final resp ∧ serve f r = resp) ∨
       (∃ st cr start n, planContent f r = .send st cr start n ∧ (serve f r).status = st ∧
          (serve f r).contentRange = cr ∧ (serve f r).contentLength = some n))) := by
  cases he : early304 f r
  · right
    cases hw : parseRangeWL r.range with
    | none =>
      left
      refine ⟨rfl, rfl, ?_⟩
      unfold early304 at he
      unfold serve serveWith
      cases hh : r.head <;> simp [he, hh, hw]
    | some ws =>
      right
      refine ⟨rfl, ⟨ws, rfl⟩, ?_⟩
      cases hh : r.head
      · obtain ⟨sk, pos0, _, hs⟩ := serve_get f r he hh ws hw
        cases hp : planContent f r with
        | final resp => left; rw [hp] at hs; exact ⟨resp, rfl, hs⟩
        | send st cr start n => right; rw [hp] at hs; exact ⟨st, cr, start, n, rfl, by rw [hs], by rw [hs], by rw [hs]⟩
      · have hs := serve_head f r he hh ws hw
        cases hp : planContent f r with
        | final resp => left; rw [hp] at hs; exact ⟨resp, rfl, hs⟩
        | send st cr start n => right; rw [hp] at hs; exact ⟨st, cr, start, n, rfl, by rw [hs], by rw [hs], by rw [hs]⟩
  · left
    refine ⟨rfl, ?_⟩
    unfold early304 at he
    unfold serve serveWith
    simp only [he, ↓reduceIte]

/-- a final plan with status 416 -/
theorem plan_416 {f : File} {r : Req} {resp : Resp} (h : planContent f r = .final resp)
    (hs : resp.status = 416) : ∃ hdr, checkPreconditions f r = .go hdr ∧
      ((parseRange hdr (f.content.length : Int) = .noOverlap ∧ (f.content.length : Int) ≠ 0 ∧
          resp.contentRange = .unsat (f.content.length : Int)) ∨
       (parseRange hdr (f.content.length : Int) = .invalid ∧ resp.contentRange = .none)) := by
  unfold planContent at h
  cases hp : checkPreconditions f r with
  | failed => simp [hp] at h; subst h; simp at hs
  | notModified => simp [hp] at h; subst h; simp at hs
  | go hdr =>
    refine ⟨hdr, rfl, ?_⟩
    simp only [hp] at h
    cases hr : parseRange hdr (f.content.length : Int) with
    | invalid => simp only [hr] at h; simp at h; subst h; right; exact ⟨rfl, rfl⟩
    | noOverlap =>
      simp only [hr] at h
      split at h
      · split at h <;> simp at h
      · rename_i h0
        simp at h; subst h
        left
        refine ⟨rfl, ?_, rfl⟩
        simpa using h0
    | ok rs =>
      simp only [hr] at h
      split at h <;> simp at h

/-- without conditional headers the preconditions pass and the Range header is honoured -/
theorem pre_none {f : File} {r : Req} (h1 : r.ifRange = []) (h2 : r.ifNoneMatch = []) (h3 : r.ifMatch = [])
    (h4 : r.iusT = none) (h5 : r.imsT = none) : checkPreconditions f r = .go r.range := by
  unfold checkPreconditions checkIfMatch checkIfUnmodifiedSince checkIfNoneMatch checkIfModifiedSince checkIfRange
  simp [h1, h2, h3, h4, h5]

theorem planContent_head (f : File) (r : Req) (b : Bool) : planContent f { r with head := b } = planContent f r := rfl

/-! ### from header text to ranges: `bytes=a-b` in decimal -/

/-- decimal digits of `n`, least significant first (`fuel` > number of digits) -/
def digitsRev : Nat → Nat → Bytes
  | 0, _ => []
  | f + 1, n => (48 + n % 10) :: (if n / 10 = 0 then [] else digitsRev f (n / 10))

/-- strconv.Itoa for naturals -/
def digits (n : Nat) : Bytes := (digitsRev (n + 1) n).reverse

def valLSF : Bytes → Nat
  | [] => 0
  | d :: r => (d - 48) + 10 * valLSF r

theorem digitsVal_reverse (l : Bytes) : digitsVal l.reverse = valLSF l := by
  unfold digitsVal
  rw [List.foldl_reverse]
  induction l with
  | nil => rfl
  | cons d r ih => simp only [List.foldr, valLSF]; rw [ih]; omega

theorem valLSF_digitsRev : ∀ (f n : Nat), n < f → valLSF (digitsRev f n) = n
  | 0, n, h => by omega
  | f + 1, n, h => by
    simp only [digitsRev]
    by_cases h0 : n / 10 = 0
    · simp only [h0, ↓reduceIte, valLSF]; omega
    · simp only [h0, ↓reduceIte, valLSF]
      rw [valLSF_digitsRev f (n / 10) (by omega)]
      omega

theorem digitsRev_digit : ∀ (f n : Nat), ∀ c ∈ digitsRev f n, 48 ≤ c ∧ c ≤ 57
  | 0, _, c, h => by simp [digitsRev] at h
  | f + 1, n, c, h => by
    simp only [digitsRev] at h
    by_cases h0 : n / 10 = 0
    · simp [h0] at h; omega
    · simp [h0] at h
      rcases h with h | h
      · omega
      · exact digitsRev_digit f (n / 10) c h

theorem digits_digit (n : Nat) : ∀ c ∈ digits n, 48 ≤ c ∧ c ≤ 57 := by
  intro c h
  exact digitsRev_digit (n + 1) n c (by simpa [digits] using h)

theorem digits_ne_nil (n : Nat) : digits n ≠ [] := by
  simp [digits, digitsRev]

theorem parseInt_digits (n : Nat) (h : n < 2 ^ 63) : parseInt (digits n) = some (n : Int) := by
  have hd := digits_digit n
  have hne := digits_ne_nil n
  have hv : digitsVal (digits n) = n := by
    unfold digits
    rw [digitsVal_reverse, valLSF_digitsRev _ _ (by omega)]
  cases hs : digits n with
  | nil => exact absurd hs hne
  | cons c r =>
    have hc := hd c (by rw [hs]; simp)
    unfold parseInt
    have h43 : (c == 43) = false := by simp; omega
    have h45 : (c == 45) = false := by simp; omega
    simp only [h43, h45, Bool.or_self, Bool.false_eq_true, ↓reduceIte]
    have hall : (c :: r).all isDigit = true := by
      rw [← hs]
      simp only [List.all_eq_true]
      intro x hx
      have := hd x hx
      simp [isDigit]; omega
    rw [← hs] at hall ⊢
    simp only [hall, hv]
    have : (digits n).isEmpty = false := by rw [hs]; rfl
    simp [this, h]


theorem trimLeft_id {s : Bytes} (h : ∀ c, s.head? = some c → isWS c = false) : trimLeft s = s := by
  cases s with
  | nil => rfl
  | cons c r => simp [trimLeft, h c rfl]

theorem trim_id {s : Bytes} (h : ∀ c ∈ s, isWS c = false) : trim s = s := by
  unfold trim
  rw [trimLeft_id (fun c hc => h c (List.mem_of_mem_head? hc))]
  rw [trimLeft_id (fun c hc => h c (List.mem_reverse.mp (List.mem_of_mem_head? hc)))]
  simp

theorem cut_append' {sep : Nat} : ∀ {a : Bytes} (b : Bytes), sep ∉ a → cut sep (a ++ sep :: b) = some (a, b)
  | [], b, _ => by simp [cut]
  | c :: r, b, h => by
    have hc : c ≠ sep := by intro he; apply h; simp [he]
    have hr : sep ∉ r := fun hm => h (List.mem_cons_of_mem _ hm)
    simp [cut, hc, cut_append' b hr]

theorem splitOn_not_mem' {sep : Nat} : ∀ {s : Bytes}, sep ∉ s → splitOn sep s = [s]
  | [], _ => rfl
  | c :: r, h => by
    have hc : c ≠ sep := by intro he; apply h; simp [he]
    have hr : sep ∉ r := fun hm => h (List.mem_cons_of_mem _ hm)
    simp [splitOn, hc, splitOn_not_mem' hr]

/-- the header value `bytes=a-b` -/
def closedRange (a b : Nat) : Bytes := bytesPrefix ++ (digits a ++ 45 :: digits b)

theorem not_ws_digits (n : Nat) : ∀ c ∈ digits n, isWS c = false := by
  intro c hc
  have := digits_digit n c hc
  simp [isWS]; omega

theorem lex_closed (a b : Nat) (ha : a < 2 ^ 63) (hb : b < 2 ^ 63) :
    lex (digits a ++ 45 :: digits b) = .closed a b := by
  have hws : ∀ c ∈ digits a ++ 45 :: digits b, isWS c = false := by
    intro c hc
    simp at hc
    rcases hc with hc | hc | hc
    · exact not_ws_digits a c hc
    · subst hc; decide
    · exact not_ws_digits b c hc
  have h45 : 45 ∉ digits a := by
    intro h; have := digits_digit a 45 h; omega
  have hea : (digits a).isEmpty = false := by
    cases h : digits a with
    | nil => exact absurd h (digits_ne_nil a)
    | cons _ _ => rfl
  have heb : (digits b).isEmpty = false := by
    cases h : digits b with
    | nil => exact absurd h (digits_ne_nil b)
    | cons _ _ => rfl
  have hne : (digits a ++ 45 :: digits b).isEmpty = false := by
    cases h : digits a <;> simp
  unfold lex
  simp only [trim_id hws, hne, cut_append' (digits b) h45, trim_id (not_ws_digits a), trim_id (not_ws_digits b),
    hea, heb, parseInt_digits a ha, parseInt_digits b hb, Bool.false_eq_true, ↓reduceIte]

theorem pieces_closedRange (a b : Nat) : pieces (closedRange a b) = [digits a ++ 45 :: digits b] := by
  have h44 : 44 ∉ digits a ++ 45 :: digits b := by
    intro h
    simp at h
    rcases h with h | h
    · have := digits_digit a 44 h; omega
    · have := digits_digit b 44 h; omega
  unfold pieces closedRange
  have : (bytesPrefix ++ (digits a ++ 45 :: digits b)).drop 6 = digits a ++ 45 :: digits b := by
    simp [bytesPrefix]
  rw [this, splitOn_not_mem' h44]

theorem hasPrefix_self_append : ∀ (p s : Bytes), hasPrefix (p ++ s) p = true
  | [], s => by cases s <;> simp [hasPrefix]
  | c :: r, s => by simp [hasPrefix, hasPrefix_self_append r s]

/-- a GET request that carries only `Range: bytes=a-b` -/
def rangeOnly (a b : Nat) (ctypeKnown : Bool) : Req :=
  { head := false, ctypeKnown := ctypeKnown, range := closedRange a b, ifRange := [], ifNoneMatch := [], ifMatch := [],
    iusT := none, imsT := none, irT := none }

theorem plan_closedRange (f : File) (a b : Nat) (k : Bool) (hab : a ≤ b) (hb : b < 2 ^ 63) (ha : a < f.content.length) :
    planContent f (rangeOnly a b k) =
      .send 206 (.range a (min (b : Int) (f.content.length - 1)) f.content.length) a
        (min (b : Int) (f.content.length - 1) - a + 1) ∧
    parseRangeWL (closedRange a b) = some [{ «from» := a, to := some b }] := by
  have ha' : a < 2 ^ 63 := by omega
  have hne : (closedRange a b).isEmpty = false := by simp [closedRange, bytesPrefix]
  have hpre : hasPrefix (closedRange a b) bytesPrefix = true := hasPrefix_self_append _ _
  have hpc := pieces_closedRange a b
  unfold pieces at hpc
  have hlex := lex_closed a b ha' hb
  constructor
  · have hp : checkPreconditions f (rangeOnly a b k) = .go (closedRange a b) :=
      pre_none (r := rangeOnly a b k) rfl rfl rfl rfl rfl
    have hpr : parseRange (closedRange a b) f.content.length =
        .ok [{ start := a, length := min (b : Int) (f.content.length - 1) - a + 1 }] := by
      unfold parseRange
      simp only [hne, hpre, hpc, Bool.false_eq_true, ↓reduceIte, Bool.not_true]
      rw [loopL_cons, hlex, lOf_closed (b : Int) (by omega)]
      have h1 : ¬ ((a : Int) ≥ f.content.length) := by omega
      have h2 : ¬ ((a : Int) > b) := by omega
      simp only [h1, h2, ↓reduceIte, loopL, Option.map]
      by_cases h3 : (b : Int) ≥ f.content.length
      · have : min (b : Int) (f.content.length - 1) = f.content.length - 1 := by omega
        simp [h3, this]
      · have : min (b : Int) (f.content.length - 1) = b := by omega
        simp [h3, this]
    unfold planContent
    simp only [hp, hpr, sumRangesSize, List.foldl]
    have : ¬ (0 + (min (b : Int) (f.content.length - 1) - a + 1) > f.content.length) := by omega
    simp only [this, ↓reduceIte]
    have e : (a : Int) + (min (b : Int) (f.content.length - 1) - a + 1) - 1 = min (b : Int) (f.content.length - 1) := by
      omega
    rw [e]
  · unfold parseRangeWL
    simp only [hne, hpre, hpc, Bool.false_eq_true, ↓reduceIte, Bool.not_true]
    rw [loopWL_cons, hlex, wlOf_closed (by omega)]
    have h2 : ¬ ((a : Int) > b) := by omega
    simp [h2, loopWL]

end C30
