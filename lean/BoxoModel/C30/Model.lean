/-
C30 — gateway: serving a UnixFS file (GET / HEAD) with Range and conditional headers.

Transcribed from /repo/gateway (after the two `fix:` commits on branch verif/gw; the behaviour of the
unrepaired tree is kept behind `fixed := false` so that the defects can be stated as theorems):

  handler.go               handleIfNoneMatch / etagMatch (handler-level 304), serveContent
  handler_defaults.go      serveDefaults (GET: parseRangeWithoutLength ⇒ 400, backend.Get(ranges…)),
                           parseRangeWithoutLength
  backend_blocks.go        Get: seekToRangeStart(file, first range, size)   (the "pre-seek")
  handler_unixfs_file.go   serveFile: content-type sniffing wraps the reader (⇒ not seekable any more)
  serve_http_content.go    httpServeContent, checkPreconditions (+ checkIfMatch, checkIfUnmodifiedSince,
                           checkIfNoneMatch, checkIfModifiedSince, checkIfRange), scanETag,
                           etagStrongMatch, etagWeakMatch, parseRange, sumRangesSize, seekToRangeStart

Go strings are byte strings: `Bytes = List Nat` (every element < 256, not enforced: the code only
compares bytes with constants).  The file below the handler is a correct seekable byte reader
(that is property C09): reading `n` bytes at position `p` yields `take n (drop p content)`.
Dates are parameters: the harness passes the result of `http.ParseTime` on each date header; the
mtime is (seconds, nanoseconds): `Truncate(time.Second)` / `Unix()` are the seconds for the non-negative
times UnixFS stores.
Core-only (no Mathlib): this file is imported by the line-protocol driver.
-/
namespace C30

abbrev Bytes := List Nat

/-! ## string helpers (strings / textproto / strconv) -/

/-- textproto.isASCIISpace -/
def isWS (c : Nat) : Bool := c == 32 || c == 9 || c == 10 || c == 13

def trimLeft : Bytes → Bytes
  | [] => []
  | c :: r => if isWS c then trimLeft r else c :: r

/-- textproto.TrimString -/
def trim (s : Bytes) : Bytes := (trimLeft (trimLeft s).reverse).reverse

/-- strings.HasPrefix -/
def hasPrefix : Bytes → Bytes → Bool
  | _, [] => true
  | [], _ :: _ => false
  | c :: s, d :: p => c == d && hasPrefix s p

/-- strings.Split(s, sep) for a one-byte separator (always at least one piece) -/
def splitOn (sep : Nat) : Bytes → List Bytes
  | [] => [[]]
  | c :: r =>
    let rest := splitOn sep r
    if c == sep then [] :: rest else (c :: rest.headD []) :: rest.tail

/-- strings.Cut(s, sep) for a one-byte separator -/
def cut (sep : Nat) : Bytes → Option (Bytes × Bytes)
  | [] => none
  | c :: r =>
    if c == sep then some ([], r)
    else match cut sep r with
      | some (a, b) => some (c :: a, b)
      | none => none

def isDigit (c : Nat) : Bool := 48 ≤ c && c ≤ 57

def digitsVal (ds : Bytes) : Nat := ds.foldl (fun a d => a * 10 + (d - 48)) 0

/-- strconv.ParseInt(s, 10, 64): `none` = any error (syntax or range) -/
def parseInt (s : Bytes) : Option Int :=
  match s with
  | [] => none
  | c :: r =>
    let neg := c == 45
    let ds := if c == 43 || c == 45 then r else s
    if ds.isEmpty || !ds.all isDigit then none
    else
      let n := digitsVal ds
      if neg then (if n ≤ 2 ^ 63 then some (-(n : Int)) else none)
      else (if n < 2 ^ 63 then some (n : Int) else none)

def bytesPrefix : Bytes := [98, 121, 116, 101, 115, 61]   -- "bytes="

/-! ## parseRangeWithoutLength (handler_defaults.go) -/

/-- gateway.ByteRange -/
structure ByteRange where
  «from» : Int
  to : Option Int
  deriving DecidableEq, Repr

inductive PW where
  | skip | bad | rng (r : ByteRange)
  deriving DecidableEq, Repr

/-- body of the `for ra := range strings.SplitSeq(...)` loop of parseRangeWithoutLength -/
def pieceWL (raw : Bytes) : PW :=
  let ra := trim raw
  if ra.isEmpty then .skip
  else match cut 45 ra with
    | none => .bad
    | some (st, en) =>
      let st := trim st
      let en := trim en
      if st.isEmpty then
        if en.isEmpty || en.head? == some 45 then .bad
        else match parseInt en with
          | none => .bad
          | some i => if i < 0 then .bad else .rng { «from» := -i, to := none }
      else match parseInt st with
        | none => .bad
        | some i =>
          if en.isEmpty then .rng { «from» := i, to := none }
          else match parseInt en with
            | none => .bad
            | some j => if j < 0 || i > j then .bad else .rng { «from» := i, to := some j }

def loopWL : List Bytes → Option (List ByteRange)
  | [] => some []
  | p :: ps =>
    match pieceWL p with
    | .skip => loopWL ps
    | .bad => none
    | .rng r => (loopWL ps).map (r :: ·)

/-- parseRangeWithoutLength: `none` = "invalid range" -/
def parseRangeWL (s : Bytes) : Option (List ByteRange) :=
  if s.isEmpty then some []
  else if !hasPrefix s bytesPrefix then none
  else loopWL (splitOn 44 (s.drop 6))

/-! ## parseRange (serve_http_content.go, from net/http) -/

/-- httpRange -/
structure HRange where
  start : Int
  length : Int
  deriving DecidableEq, Repr

inductive PL where
  | skip | bad | noOverlap | rng (r : HRange)
  deriving DecidableEq, Repr

def pieceL (size : Int) (raw : Bytes) : PL :=
  let ra := trim raw
  if ra.isEmpty then .skip
  else match cut 45 ra with
    | none => .bad
    | some (st, en) =>
      let st := trim st
      let en := trim en
      if st.isEmpty then
        if en.isEmpty || en.head? == some 45 then .bad
        else match parseInt en with
          | none => .bad
          | some i =>
            if i < 0 then .bad
            else
              let i := if i > size then size else i
              .rng { start := size - i, length := size - (size - i) }
      else match parseInt st with
        | none => .bad
        | some i =>
          if i < 0 then .bad
          else if i ≥ size then .noOverlap
          else if en.isEmpty then .rng { start := i, length := size - i }
          else match parseInt en with
            | none => .bad
            | some j =>
              if i > j then .bad
              else
                let j := if j ≥ size then size - 1 else j
                .rng { start := i, length := j - i + 1 }

inductive PRes where
  | ok (rs : List HRange)
  | noOverlap            -- errNoOverlap
  | invalid              -- errors.New("invalid range")
  deriving DecidableEq, Repr

/-- the loop: `ranges = append(ranges, r)` and the `noOverlap` flag; the first malformed piece makes
the whole call return the error (nothing else of the loop is observable then) -/
def loopL (size : Int) : List Bytes → Option (List HRange × Bool)
  | [] => some ([], false)
  | p :: ps =>
    match pieceL size p with
    | .skip => loopL size ps
    | .bad => none
    | .noOverlap => (loopL size ps).map fun x => (x.1, true)
    | .rng r => (loopL size ps).map fun x => (r :: x.1, x.2)

def parseRange (s : Bytes) (size : Int) : PRes :=
  if s.isEmpty then .ok []
  else if !hasPrefix s bytesPrefix then .invalid
  else match loopL size (splitOn 44 (s.drop 6)) with
    | none => .invalid
    | some (ranges, noOverlap) => if noOverlap && ranges.isEmpty then .noOverlap else .ok ranges

def sumRangesSize (rs : List HRange) : Int := rs.foldl (fun a r => a + r.length) 0

/-! ## ETags (serve_http_content.go, from net/http) -/

def etagChar (c : Nat) : Bool := c == 0x21 || (c ≥ 0x23 && c ≤ 0x7E) || c ≥ 0x80

/-- the `for i := start+1; …` loop of scanETag over the bytes after the opening quote:
returns the bytes up to and including the closing quote and the rest -/
def scanBody : Bytes → Option (Bytes × Bytes)
  | [] => none
  | c :: r =>
    if etagChar c then
      match scanBody r with
      | some (a, b) => some (c :: a, b)
      | none => none
    else if c == 34 then some ([c], r)
    else none

/-- scanETag: `([], [])` stands for `"", ""` -/
def scanETag (s : Bytes) : Bytes × Bytes :=
  let s := trim s
  let weak := hasPrefix s [87, 47]     -- "W/"
  let pre : Bytes := if weak then [87, 47] else []
  let t := if weak then s.drop 2 else s
  match t with
  | [] => ([], [])
  | [_] => ([], [])
  | q :: r =>
    if q != 34 then ([], [])
    else match scanBody r with
      | some (a, b) => (pre ++ q :: a, b)
      | none => ([], [])

def etagStrongMatch (a b : Bytes) : Bool := a == b && !a.isEmpty && a.head? == some 34

def trimW (a : Bytes) : Bytes := if hasPrefix a [87, 47] then a.drop 2 else a

def etagWeakMatch (a b : Bytes) : Bool := trimW a == trimW b

inductive Cond where
  | none | true | false
  deriving DecidableEq, Repr

/-- the scanning loop shared by checkIfMatch / checkIfNoneMatch / etagMatch.
Returns `some true` when an entry matches (or `*`), `some false` when the list is exhausted or
malformed; `fuel` bounds the iterations (every iteration strictly shortens the buffer, so
`length + 1` suffices). -/
def scanList (match_ : Bytes → Bool) : Nat → Bytes → Bool
  | 0, _ => false
  | fuel + 1, buf =>
    let buf := trim buf
    match buf with
    | [] => false
    | c :: r =>
      if c == 44 then scanList match_ fuel r
      else if c == 42 then true
      else
        let (etag, remain) := scanETag buf
        if etag.isEmpty then false
        else if match_ etag then true
        else scanList match_ fuel remain

/-- handler.go etagMatch(ifNoneMatch, etags…): weak comparison against any of the given ETags -/
def etagMatchAny (hdr : Bytes) (etags : List Bytes) : Bool :=
  scanList (fun e => etags.any (etagWeakMatch e)) (hdr.length + 1) hdr

/-! ## the file and the request -/

structure File where
  content : Bytes
  /-- getEtag: `"<cid>"` -/
  etag : Bytes
  /-- getDirListingEtag / getDagIndexEtag of the same CID (handleIfNoneMatch checks them too) -/
  dirEtag : Bytes
  dagEtag : Bytes
  /-- UnixFS mtime: Unix seconds and fractional nanoseconds; (0, 0) = none (isZeroTime; immutable paths
  pass `noModtime` = the Unix epoch) -/
  modSec : Int
  modNanos : Nat := 0

structure Req where
  head : Bool
  /-- the Content-Type is known without sniffing (`?filename=x.txt`), so the reader is not wrapped -/
  ctypeKnown : Bool
  range : Bytes
  ifRange : Bytes
  ifNoneMatch : Bytes
  ifMatch : Bytes
  /-- http.ParseTime of If-Unmodified-Since / If-Modified-Since / If-Range, Unix seconds;
  `none` = header absent or unparsable -/
  iusT : Option Int
  imsT : Option Int
  irT : Option Int

inductive CRange where
  | none
  | range (a b size : Int)      -- "bytes a-b/size"
  | unsat (size : Int)          -- "bytes */size"
  deriving DecidableEq, Repr

structure Resp where
  status : Nat
  contentRange : CRange := .none
  contentLength : Option Int := none
  lastModified : Bool := false
  etag : Bytes := []
  body : Bytes := []
  deriving DecidableEq, Repr

/-- `!isZeroTime(modtime)`: a Last-Modified header is sent and the date preconditions apply -/
def hasMod (f : File) : Bool := f.modSec != 0 || f.modNanos != 0

/-! ## checkPreconditions -/

def checkIfMatch (f : File) (r : Req) : Cond :=
  if r.ifMatch.isEmpty then .none
  else if scanList (fun e => etagStrongMatch e f.etag) (r.ifMatch.length + 1) r.ifMatch then .true
  else .false

def checkIfUnmodifiedSince (f : File) (r : Req) : Cond :=
  match r.iusT with
  | none => .none
  | some t => if !hasMod f then .none else if f.modSec ≤ t then .true else .false

def checkIfNoneMatch (f : File) (r : Req) : Cond :=
  if r.ifNoneMatch.isEmpty then .none
  else if scanList (fun e => etagWeakMatch e f.etag) (r.ifNoneMatch.length + 1) r.ifNoneMatch then .false
  else .true

def checkIfModifiedSince (f : File) (r : Req) : Cond :=
  match r.imsT with
  | none => .none
  | some t => if !hasMod f then .none else if f.modSec ≤ t then .false else .true

/-- checkIfRange (method is GET or HEAD here). `modtime.IsZero()` is never true: an absent mtime is
passed as the Unix epoch (`noModtime`), so a date of 1970-01-01 matches a file without mtime. -/
def checkIfRange (f : File) (r : Req) : Cond :=
  if r.ifRange.isEmpty then .none
  else
    let (etag, _) := scanETag r.ifRange
    if !etag.isEmpty then (if etagStrongMatch etag f.etag then .true else .false)
    else match r.irT with
      | none => .false
      | some t => if t == f.modSec then .true else .false

inductive Pre where
  | failed                       -- 412 Precondition Failed
  | notModified                  -- 304 Not Modified
  | go (rangeHeader : Bytes)     -- continue, with the Range header to honour ("" = none)
  deriving DecidableEq, Repr

def checkPreconditions (f : File) (r : Req) : Pre :=
  let ch := match checkIfMatch f r with
    | .none => checkIfUnmodifiedSince f r
    | c => c
  if ch == .false then .failed
  else
    let go : Pre :=
      if !r.range.isEmpty && checkIfRange f r == .false then .go [] else .go r.range
    match checkIfNoneMatch f r with
    | .false => .notModified
    | .none => if checkIfModifiedSince f r == .false then .notModified else go
    | .true => go

/-! ## httpServeContent -/

/-- What httpServeContent decides: either a final error/precondition response, or the part to send. -/
inductive Plan where
  | final (resp : Resp)
  | send (status : Nat) (cr : CRange) (sendStart sendSize : Int)
  deriving DecidableEq, Repr

def planContent (f : File) (r : Req) : Plan :=
  let size : Int := f.content.length
  let lm := hasMod f
  match checkPreconditions f r with
  | .notModified => .final { status := 304, etag := f.etag }    -- writeNotModified drops Last-Modified (ETag is set)
  | .failed => .final { status := 412, etag := f.etag, lastModified := lm }
  | .go rangeReq =>
    let sel (ranges : List HRange) : Plan :=
      let ranges := if sumRangesSize ranges > size then [] else ranges
      match ranges with
      | [] => .send 200 .none 0 size
      | ra :: _ => .send 206 (.range ra.start (ra.start + ra.length - 1) size) ra.start ra.length
    match parseRange rangeReq size with
    | .ok ranges => sel ranges
    | .noOverlap =>
      if size == 0 then sel []
      else .final { status := 416, contentRange := .unsat size, etag := f.etag, lastModified := lm }
    | .invalid => .final { status := 416, etag := f.etag, lastModified := lm }

/-- reading `n` bytes from a correct reader positioned at `pos` (io.CopyN stops at EOF) -/
def readAt (content : Bytes) (pos n : Int) : Bytes :=
  (content.drop pos.toNat).take n.toNat

/-- seekToRangeStart: the position the backend leaves the reader at; `none` = error.
(`From < 0` with a non-nil `To` cannot come out of parseRangeWithoutLength.) -/
def preSeek (fixed : Bool) (size : Int) : Option ByteRange → Option Int
  | none => some 0
  | some ra =>
    if ra.from == 0 then some 0
    else if ra.from < 0 then
      if ra.to.isSome then none
      else
        let start := size + ra.from
        if start < 0 then (if fixed then some 0 else none) else some start
    else some ra.from

/-- The whole GET/HEAD path for `/ipfs/<cid-of-file>`; `fixed = false` is the tree before the first two
`fix:` commits (no re-positioning in httpServeContent, suffix longer than the file is an error — this is
also what a backend whose reader cannot be repositioned, like the CAR backend, behaves like);
`headFix = false` is the tree before "HEAD rejects a malformed Range header like GET does". -/
def serveWith (fixed headFix : Bool) (f : File) (r : Req) : Resp :=
  let size : Int := f.content.length
  -- handler.handleIfNoneMatch (before anything is loaded)
  if !r.ifNoneMatch.isEmpty && etagMatchAny r.ifNoneMatch [f.etag, f.dirEtag, f.dagEtag] then
    let m := if etagMatchAny r.ifNoneMatch [f.etag] then f.etag
      else if etagMatchAny r.ifNoneMatch [f.dirEtag] then f.dirEtag else f.dagEtag
    { status := 304, etag := m }
  else if r.head then
    -- (after "HEAD rejects a malformed Range header like GET does") the same syntax check as GET, then
    -- backend.Head, serveFile with the first bytes for sniffing, httpServeContent without a body
    if headFix && (parseRangeWL r.range).isNone then { status := 400 }
    else match planContent f r with
    | .final resp => resp
    | .send st cr _ n =>
      { status := st, contentRange := cr, contentLength := some n, lastModified := hasMod f, etag := f.etag }
  else
    -- serveDefaults, GET
    match parseRangeWL r.range with
    | none => { status := 400 }
    | some ranges0 =>
      match preSeek fixed size ranges0.head? with
      | none => { status := 500 }       -- backend.Get fails: "failed to resolve …"
      | some pos0 =>
        -- serveFile: sniffing wraps the reader in a MultiReader, which cannot seek
        let startsAtZero := match ranges0.head? with
          | none => true
          | some ra => ra.from == 0
        let seekable := !(startsAtZero && !r.ctypeKnown)
        match planContent f r with
        | .final resp => resp
        | .send st cr start n =>
          let pos := if fixed && seekable then start else pos0
          { status := st, contentRange := cr, contentLength := some n, lastModified := hasMod f,
            etag := f.etag, body := readAt f.content pos n }

def serve (f : File) (r : Req) : Resp := serveWith true true f r

/-- content generator shared with the Go harness: a position-identifying byte pattern -/
def genContent (seed size : Nat) : Bytes :=
  (List.range size).map fun i => (seed * 31 + i * 167 + (i / 256) * 13 + (i / 65536) * 7) % 256

/-- FNV-1a (32 bit) of the body, used only to compare bodies in the line protocol -/
def fnv (bs : Bytes) : UInt32 :=
  bs.foldl (fun h b => (h ^^^ (UInt32.ofNat b)) * 16777619) 2166136261

end C30
