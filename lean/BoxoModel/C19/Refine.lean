import BoxoModel.C19.Paths
/-!
C19 — every operation of the model is simulated by the operation of the plain-tree specification.
-/
namespace C19

/-- a specification action that does not change the tree -/
def Query {α : Type} (sf : N → Except Err (α × N)) : Prop := ∀ t a t', sf t = .ok (a, t') → t' = t

theorem query_atPath {α : Type} {sact : N → Except Err (α × N)} (h : Query sact) :
    ∀ p : List Name, Query (N.atPath p sact) := by
  intro p
  induction p with
  | nil => intro t a t' ht; exact h t a t' ht
  | cons k ks ih =>
    intro t a t' ht
    cases t with
    | file d m => simp [N.atPath] at ht
    | dir m kids =>
      cases hk : kids.find k with
      | none => simp [N.atPath, hk] at ht
      | some c =>
        cases hr : N.atPath ks sact c with
        | error e => simp [N.atPath, hk, hr] at ht
        | ok r =>
          obtain ⟨a', c'⟩ := r
          simp [N.atPath, hk, hr] at ht
          have := ih c a' c' hr
          subst this
          rw [← ht.2, NL.set_find_self _ hk]

theorem query_isDir : Query sIsDir := by
  intro t a t' h; cases t <;> simp [sIsDir] at h; exact h.symm

theorem query_child (k : Name) : Query (sChild k) := by
  intro t a t' h
  cases t with
  | file d m => simp [sChild] at h
  | dir m kids =>
    cases hk : kids.find k with
    | none => simp [sChild, hk] at h
    | some c => simp [sChild, hk] at h; exact h.2.symm

theorem query_get : Query sGet := by
  intro t a t' h; simp [sGet] at h; exact h.2.symm

theorem query_flush : Query sFlush := by
  intro t a t' h; simp [sFlush] at h; exact h.symm

/-- a query followed by anything -/
theorem sim_andThen {α β : Type} {f : L → R α} {sf : N → Except Err (α × N)}
    {g : α → L → R β} {sg : α → N → Except Err (β × N)}
    (hf : Sim f sf) (hq : Query sf) (hg : ∀ a, Sim (g a) (sg a)) :
    Sim (fun l => andThen (f l) g) (fun t => thenS (sf t) fun a => sg a t) := by
  constructor
  · intro l b h
    cases hr : (f l).res with
    | error e => simp [andThen, hr] at h
    | ok a =>
      simp only [andThen, hr] at h ⊢
      have h1 := hf.ok l a hr
      have h2 := hq _ _ _ h1
      have h3 := (hg a).ok (f l).l b h
      rw [h2] at h3
      simp [thenS, h1, h3]
  · intro l e h
    cases hr : (f l).res with
    | error e' =>
      simp [andThen, hr] at h
      have h1 := hf.err l e' hr
      simp [andThen, hr, thenS, h1.1, h1.2, ← h]
    | ok a =>
      simp only [andThen, hr] at h ⊢
      have h1 := hf.ok l a hr
      have h2 := hq _ _ _ h1
      have h3 := (hg a).err (f l).l e h
      rw [h2] at h3
      simp [thenS, h1, h3.1, h3.2]

theorem sim_putNode (p : Path) (nd : N) : Sim (putNode p nd) (sput p nd) := by
  by_cases hn : p.split.2 = ""
  · constructor
    · intro l a h; simp [putNode, hn] at h
    · intro l e h; simp [putNode, hn] at h; simp [putNode, sput, hn, ← h]
  · have := sim_andThen (f := atPath p.split.1 actIsDir) (g := fun _ root => atPath p.split.1 (actAddChild p.split.2 nd) root)
      (atPath_sim sim_isDir _) (query_atPath query_isDir _)
      (fun _ => atPath_sim (sim_addChild p.split.2 nd) p.split.1)
    constructor
    · intro l a h
      have h' := this.ok l a (by simpa [putNode, hn] using h)
      simpa [putNode, sput, hn] using h'
    · intro l e h
      have h' := this.err l e (by simpa [putNode, hn] using h)
      simpa [putNode, sput, hn] using h'

theorem sim_rm (p : Path) : Sim (rm p) (srm p) :=
  sim_andThen (f := atPath p.split.1 actIsDir) (g := fun _ root => atPath p.split.1 (actUnlink p.split.2) root)
    (atPath_sim sim_isDir _) (query_atPath query_isDir _)
    (fun _ => atPath_sim (sim_unlink p.split.2) p.split.1)

/-! ### mkdir -/

theorem NL.set_set (k : Name) (a b : N) (l : NL) : (l.set k a).set k b = l.set k b := by
  induction l with
  | nil => simp [NL.set]
  | cons k' n r ih =>
    by_cases h : k' = k
    · simp [NL.set, h]
    · simp [NL.set, h, ih]

/-- flushing a child that is there succeeds and shows the same tree -/
theorem flush_child {k : Name} {m : Meta} {e : Ents} {c : L} (hc : e.child k = some c) :
    (atPath [k] actFlush (.dir m e)).res = .ok () ∧ (atPath [k] actFlush (.dir m e)).l.view = (L.dir m e).view := by
  have hres : (atPath [k] actFlush (.dir m e)).res = .ok () := by
    simp only [atPath, hc]
    cases c <;> simp [actFlush]
  refine ⟨hres, ?_⟩
  have h1 := (atPath_sim sim_flush [k]).ok _ _ hres
  exact query_atPath query_flush [k] _ _ _ h1

/-- `mkdir -p` below a new empty directory cannot fail -/
theorem smkdir_fresh_ok (fm : Meta) : ∀ (ks : List Name) (m : Meta), ks ≠ [] →
    ∃ t', smkdirRec true fm ks (.dir m .nil) = .ok ((), t') := by
  intro ks
  induction ks with
  | nil => intro m h; exact absurd rfl h
  | cons k rest ih =>
    intro m _
    cases rest with
    | nil => exact ⟨.dir m (NL.set k (.dir fm .nil) .nil), by simp [smkdirRec, NL.find]⟩
    | cons k2 ks =>
      obtain ⟨t', ht'⟩ := ih {} (by simp)
      exact ⟨.dir m (NL.set k t' .nil), by simp [smkdirRec, NL.find, ht']⟩

theorem sim_mkdirFinal (parents flush : Bool) (fm : Meta) (k : Name) :
    Sim (mkdirFinal parents flush fm k) (smkdirRec parents fm [k]) := by
  constructor
  · intro l a h
    cases l with
    | file d m => simp [mkdirFinal] at h
    | dir m e =>
      cases hc : e.child k with
      | some c =>
        have hv := Ents.child_some hc
        have hp : (e.put k c none).child k = some c := Ents.put_child hc c none
        cases c with
        | file d' m' => simp [mkdirFinal, hc] at h
        | dir m' e' =>
          simp only [L.view] at hv
          cases parents with
          | false => simp [mkdirFinal, hc] at h
          | true =>
            cases flush with
            | false => simp [mkdirFinal, hc, smkdirRec, L.view, hv, Ents.put_same_view hc]
            | true =>
              have := (flush_child (m := m) hp).2
              simp [mkdirFinal, hc, this, L.view, smkdirRec, hv, Ents.put_same_view hc]
      | none =>
        have hv := Ents.child_none hc
        have hp := Ents.setLink_put_child hc (.dir fm .nil) (.dir fm .nil) none
        cases flush with
        | false => simp [mkdirFinal, hc, smkdirRec, L.view, hv, Ents.setLink_put_view hc, Ents.view]
        | true =>
          have := (flush_child (m := m) hp).2
          simp [mkdirFinal, hc, this, L.view, smkdirRec, hv, Ents.setLink_put_view hc, Ents.view]
  · intro l e h
    cases l with
    | file d m => simp [mkdirFinal] at h; simp [mkdirFinal, smkdirRec, L.view, ← h]
    | dir m en =>
      cases hc : en.child k with
      | some c =>
        have hv := Ents.child_some hc
        have hp : (en.put k c none).child k = some c := Ents.put_child hc c none
        cases c with
        | file d' m' =>
          simp only [L.view] at hv
          simp [mkdirFinal, hc] at h
          simp [mkdirFinal, hc, ← h, L.view, smkdirRec, hv, Ents.put_same_view hc]
        | dir m' e' =>
          simp only [L.view] at hv
          cases parents with
          | false =>
            simp [mkdirFinal, hc] at h
            simp [mkdirFinal, hc, ← h, L.view, smkdirRec, hv, Ents.put_same_view hc]
          | true =>
            cases flush with
            | false => simp [mkdirFinal, hc] at h
            | true =>
              have := (flush_child (m := m) hp).1
              simp [mkdirFinal, hc, this] at h
      | none =>
        have hp := Ents.setLink_put_child hc (.dir fm .nil) (.dir fm .nil) none
        cases flush with
        | false => simp [mkdirFinal, hc] at h
        | true =>
          have := (flush_child (m := m) hp).1
          simp [mkdirFinal, hc, this] at h

theorem sim_mkdirRec (parents flush : Bool) (fm : Meta) :
    ∀ p : List Name, Sim (mkdirRec parents flush fm p) (smkdirRec parents fm p) := by
  intro p
  induction p with
  | nil =>
    exact ⟨fun l a h => by simp [mkdirRec, smkdirRec], fun l e h => by simp [mkdirRec] at h⟩
  | cons k rest ih =>
    cases rest with
    | nil =>
      have := sim_mkdirFinal parents flush fm k
      exact ⟨fun l a h => by simpa [mkdirRec] using this.ok l a (by simpa [mkdirRec] using h),
             fun l e h => by simpa [mkdirRec] using this.err l e (by simpa [mkdirRec] using h)⟩
    | cons k2 ks =>
      constructor
      · intro l a h
        cases l with
        | file d m => simp [mkdirRec] at h
        | dir m e =>
          cases hc : e.child k with
          | some c =>
            simp only [mkdirRec, hc] at h ⊢
            have := ih.ok c a h
            simp [L.view, smkdirRec, Ents.child_some hc, this, Ents.put_view hc]
          | none =>
            cases parents with
            | false => simp [mkdirRec, hc] at h
            | true =>
              simp only [mkdirRec, hc] at h ⊢
              have := ih.ok (.dir {} .nil) a h
              have hp := Ents.setLink_put_child hc (.dir {} .nil) (.dir {} .nil) none
              simp [L.view, Ents.view] at this
              simp [L.view, smkdirRec, Ents.child_none hc, this, Ents.put_view hp,
                Ents.setLink_put_view hc, NL.set_set]
      · intro l e h
        cases l with
        | file d m => simp [mkdirRec] at h; simp [mkdirRec, smkdirRec, L.view, ← h]
        | dir m en =>
          cases hc : en.child k with
          | some c =>
            simp only [mkdirRec, hc] at h ⊢
            have := ih.err c e h
            simp [L.view, smkdirRec, Ents.child_some hc, this.1, Ents.put_view hc, this.2,
              NL.set_find_self _ (Ents.child_some hc)]
          | none =>
            cases parents with
            | false =>
              simp [mkdirRec, hc] at h
              simp [mkdirRec, hc, L.view, smkdirRec, Ents.child_none hc, ← h]
            | true =>
              simp only [mkdirRec, hc] at h
              have := (ih.err (.dir {} .nil) e h).1
              obtain ⟨t', ht'⟩ := smkdir_fresh_ok fm (k2 :: ks) {} (by simp)
              simp [L.view, Ents.view, ht'] at this

theorem sim_mkdir (p : List Name) (parents flush : Bool) (fm : Meta) :
    Sim (mkdir p parents flush fm) (smkdir p parents fm) := by
  cases p with
  | nil =>
    cases parents
    · exact ⟨fun l a h => by simp [mkdir] at h, fun l e h => by simp [mkdir] at h; simp [mkdir, smkdir, ← h]⟩
    · exact ⟨fun l a h => by simp [mkdir, smkdir], fun l e h => by simp [mkdir] at h⟩
  | cons k ks =>
    have := sim_mkdirRec parents flush fm (k :: ks)
    exact ⟨fun l a h => by simpa [mkdir, smkdir] using this.ok l a (by simpa [mkdir] using h),
           fun l e h => by simpa [mkdir, smkdir] using this.err l e (by simpa [mkdir] using h)⟩

/-! ### move -/

/-- simulation for the states whose view satisfies `P` -/
structure SimOn {α : Type} (P : N → Prop) (f : L → R α) (sf : N → Except Err (α × N)) : Prop where
  ok : ∀ l a, P l.view → (f l).res = .ok a → sf l.view = .ok (a, (f l).l.view)
  err : ∀ l e, P l.view → (f l).res = .error e → sf l.view = .error e ∧ (f l).l.view = l.view

theorem Sim.on {α : Type} {f : L → R α} {sf : N → Except Err (α × N)} (h : Sim f sf) (P : N → Prop) :
    SimOn P f sf := ⟨fun l a _ hr => h.ok l a hr, fun l e _ hr => h.err l e hr⟩

theorem SimOn.toSim {α : Type} {f : L → R α} {sf : N → Except Err (α × N)}
    (h : SimOn (fun _ => True) f sf) : Sim f sf :=
  ⟨fun l a hr => h.ok l a trivial hr, fun l e hr => h.err l e trivial hr⟩

theorem SimOn.mono {α : Type} {P Q : N → Prop} {f : L → R α} {sf : N → Except Err (α × N)}
    (h : SimOn P f sf) (hpq : ∀ t, Q t → P t) : SimOn Q f sf :=
  ⟨fun l a hq hr => h.ok l a (hpq _ hq) hr, fun l e hq hr => h.err l e (hpq _ hq) hr⟩

/-- a query followed by something that may rely on the query having succeeded -/
theorem simOn_andThen {α β : Type} {P : N → Prop} {f : L → R α} {sf : N → Except Err (α × N)}
    {g : α → L → R β} {sg : α → N → Except Err (β × N)}
    (hf : SimOn P f sf) (hq : Query sf)
    (hg : ∀ a, SimOn (fun t => P t ∧ sf t = .ok (a, t)) (g a) (sg a)) :
    SimOn P (fun l => andThen (f l) g) (fun t => thenS (sf t) fun a => sg a t) := by
  constructor
  · intro l b hP h
    cases hr : (f l).res with
    | error e => simp [andThen, hr] at h
    | ok a =>
      simp only [andThen, hr] at h ⊢
      have h1 := hf.ok l a hP hr
      have h2 := hq _ _ _ h1
      have h3 := (hg a).ok (f l).l b (by rw [h2]; exact ⟨hP, by rw [h1, h2]⟩) h
      rw [h2] at h3
      simp [thenS, h1, h3]
  · intro l e hP h
    cases hr : (f l).res with
    | error e' =>
      simp [andThen, hr] at h
      have h1 := hf.err l e' hP hr
      simp [andThen, hr, thenS, h1.1, h1.2, ← h]
    | ok a =>
      simp only [andThen, hr] at h ⊢
      have h1 := hf.ok l a hP hr
      have h2 := hq _ _ _ h1
      have h3 := (hg a).err (f l).l e (by rw [h2]; exact ⟨hP, by rw [h1, h2]⟩) h
      rw [h2] at h3
      simp [thenS, h1, h3.1, h3.2]

/-- an existing entry can be unlinked -/
theorem unlink_ok_of_get {S : List Name} {sn : Name} {t v : N} (h : N.get (S ++ [sn]) t = .ok v) :
    N.atPath S (sUnlink sn) t = .ok ((), N.modAt (eraseKid sn) S t) := by
  obtain ⟨m, kids, hg, hk⟩ := N.get_snoc.mp h
  exact unlink_ok hg hk

/-- once the insertion works, the rest of the move cannot fail -/
theorem smvGo_ok {sdir : List Name} {sname : Name} {nd : N} {ddir' : List Name} {dname' : Name} {t1 t2 : N}
    (hadd : N.atPath ddir' (sAddChild dname' nd) t1 = .ok ((), t2))
    (hsrc : (sdir = ddir' ∧ sname = dname') ∨ ∃ v, N.get (sdir ++ [sname]) t1 = .ok v) :
    ∃ t', smvGo sdir sname nd ddir' dname' t1 = .ok ((), t') := by
  by_cases hs : sdir = ddir' ∧ sname = dname'
  · exact ⟨t2, by simp [smvGo, hadd, hs]⟩
  · rcases hsrc with h | ⟨v, hv⟩
    · exact absurd h hs
    · obtain ⟨m, kids, hg, hk, rfl⟩ := add_spec hadd
      obtain ⟨v', hv'⟩ := get_after_add (nd := nd) hv hg hk
      exact ⟨N.modAt (eraseKid sname) sdir (N.modAt (setKid dname' nd) ddir' t1),
        by simp [smvGo, hadd, hs, unlink_ok_of_get hv']⟩

theorem sim_mvGo (sdir : List Name) (sname : Name) (nd : N) (ddir' : List Name) (dname' : Name) :
    SimOn (fun t => (sdir = ddir' ∧ sname = dname') ∨ ∃ v, N.get (sdir ++ [sname]) t = .ok v)
      (mvGo false sdir sname nd ddir' dname') (smvGo sdir sname nd ddir' dname') := by
  have simA := atPath_sim (sim_addChild dname' nd) ddir'
  have simU := atPath_sim (sim_unlink sname) sdir
  constructor
  · intro l a hP h
    cases hA : (atPath ddir' (actAddChild dname' nd) l).res with
    | error e => simp [mvGo, andThen, hA] at h
    | ok u =>
      have h1 := simA.ok l u hA
      by_cases hs : sdir = ddir' ∧ sname = dname'
      · simp [mvGo, andThen, hA, hs, smvGo, h1]
      · simp only [mvGo, andThen, hA] at h ⊢
        simp [hs] at h ⊢
        have h2 := simU.ok _ a h
        simp [smvGo, h1, hs, h2]
  · intro l e hP h
    cases hA : (atPath ddir' (actAddChild dname' nd) l).res with
    | error e' =>
      simp [mvGo, andThen, hA] at h
      have h1 := simA.err l e' hA
      simp [mvGo, andThen, hA, smvGo, h1.1, h1.2, ← h]
    | ok u =>
      have h1 := simA.ok l u hA
      by_cases hs : sdir = ddir' ∧ sname = dname'
      · simp [mvGo, andThen, hA, hs] at h
      · simp only [mvGo, andThen, hA] at h
        simp [hs] at h
        have h2 := (simU.err _ e h).1
        -- the source entry is still there after the insertion: the unlink cannot have failed
        obtain ⟨t', ht'⟩ := smvGo_ok (sdir := sdir) (sname := sname) h1 hP
        simp [smvGo, h1, hs, h2] at ht'

/-- the source entry survives the removal of the destination FILE, unless it is that file -/
theorem src_after_file_unlink {sdir : List Name} {sname : Name} {ddir : List Name} {dname : Name}
    {t t' t1 : N} {u : Unit}
    (hP : ∃ v, N.get (sdir ++ [sname]) t = .ok v)
    (s5 : N.atPath ddir (sChild dname) t = .ok (.file, t'))
    (sU : N.atPath ddir (sUnlink dname) t = .ok (u, t1)) :
    (sdir = ddir ∧ sname = dname) ∨ ∃ v, N.get (sdir ++ [sname]) t1 = .ok v := by
  by_cases hs : sdir = ddir ∧ sname = dname
  · exact .inl hs
  · right
    obtain ⟨m, kids, v, hg, hk, ht1⟩ := unlink_spec sU
    obtain ⟨v0, hv0⟩ := hP
    obtain ⟨m', kids', v', hg', hk', hkind⟩ := child_spec s5
    rw [hg] at hg'
    simp at hg'
    obtain ⟨rfl, rfl⟩ := hg'
    rw [hk] at hk'
    simp at hk'
    subst hk'
    rw [ht1]
    cases v with
    | dir _ _ => simp [N.kind] at hkind
    | file d fm =>
      exact get_after_unlink_file hv0 hg hk (by
        intro heq
        have := List.append_inj' heq rfl
        exact hs ⟨this.1, by simpa using this.2⟩)

theorem sim_mvTail (sdir : List Name) (sname : Name) (ddir : List Name) (dname : Name) (nd : N) :
    SimOn (fun t => ∃ v, N.get (sdir ++ [sname]) t = .ok v)
      (mvTail false sdir sname ddir dname nd) (smvTail sdir sname ddir dname nd) := by
  have sim5 := atPath_sim (sim_child dname) ddir
  have q5 := query_atPath (query_child dname) ddir
  have simU := atPath_sim (sim_unlink dname) ddir
  constructor
  · intro l a hP h
    cases h5 : (atPath ddir (actChild dname) l).res with
    | ok kd =>
      have s5 := sim5.ok l kd h5
      have v5 := q5 _ _ _ s5
      cases kd with
      | dir =>
        simp only [mvTail, h5] at h ⊢
        by_cases hself : sdir ++ [sname] = ddir ++ [dname]
        · simp [hself] at h
        · simp only [hself, if_false] at h ⊢
          have := (sim_mvGo sdir sname nd (ddir ++ [dname]) sname).ok _ a (by rw [v5]; exact .inr hP) h
          rw [v5] at this
          simp [smvTail, s5, this, hself]
      | file =>
        simp only [mvTail, h5] at h ⊢
        cases hU : (atPath ddir (actUnlink dname) (atPath ddir (actChild dname) l).l).res with
        | ok u =>
          have sU := simU.ok _ u hU
          rw [v5] at sU
          have hsrc := src_after_file_unlink hP s5 sU
          have := (sim_mvGo sdir sname nd ddir dname).ok _ a hsrc h
          simp [smvTail, s5, sU, this]
        | error e' =>
          have sU := simU.err _ e' hU
          rw [v5] at sU
          have := (sim_mvGo sdir sname nd ddir dname).ok _ a (by rw [sU.2]; exact .inr hP) h
          rw [sU.2] at this
          simp [smvTail, s5, sU.1, this]
    | error e5 =>
      have s5 := sim5.err l e5 h5
      cases e5 with
      | notfound =>
        simp only [mvTail, h5] at h ⊢
        have := (sim_mvGo sdir sname nd ddir dname).ok _ a (by rw [s5.2]; exact .inr hP) h
        rw [s5.2] at this
        simp [smvTail, s5.1, this]
      | _ => simp [mvTail, h5] at h
  · intro l e hP h
    cases h5 : (atPath ddir (actChild dname) l).res with
    | ok kd =>
      have s5 := sim5.ok l kd h5
      have v5 := q5 _ _ _ s5
      cases kd with
      | dir =>
        simp only [mvTail, h5] at h ⊢
        by_cases hself : sdir ++ [sname] = ddir ++ [dname]
        · simp [hself] at h
          simp [smvTail, s5, hself, v5, ← h]
        · simp only [hself, if_false] at h ⊢
          have := (sim_mvGo sdir sname nd (ddir ++ [dname]) sname).err _ e (by rw [v5]; exact .inr hP) h
          rw [v5] at this
          simp [smvTail, s5, this.1, this.2, hself]
      | file =>
        simp only [mvTail, h5] at h ⊢
        cases hU : (atPath ddir (actUnlink dname) (atPath ddir (actChild dname) l).l).res with
        | ok u =>
          have sU := simU.ok _ u hU
          rw [v5] at sU
          exfalso
          -- after unlinking the file the insertion works and the source is still there (or is that file)
          have hsrc := src_after_file_unlink hP s5 sU
          have herr := ((sim_mvGo sdir sname nd ddir dname).err _ e hsrc h).1
          obtain ⟨t2, ht2⟩ := add_after_unlink nd sU
          obtain ⟨t', ht'⟩ := smvGo_ok (sdir := sdir) (sname := sname) ht2 hsrc
          rw [herr] at ht'
          simp at ht'
        | error e' =>
          have sU := simU.err _ e' hU
          rw [v5] at sU
          have := (sim_mvGo sdir sname nd ddir dname).err _ e (by rw [sU.2]; exact .inr hP) h
          rw [sU.2] at this
          simp [smvTail, s5, sU.1, this.1, this.2, v5]
    | error e5 =>
      have s5 := sim5.err l e5 h5
      cases e5 with
      | notfound =>
        simp only [mvTail, h5] at h ⊢
        have := (sim_mvGo sdir sname nd ddir dname).err _ e (by rw [s5.2]; exact .inr hP) h
        rw [s5.2] at this
        simp [smvTail, s5.1, this.1, this.2]
      | _ =>
        simp [mvTail, h5] at h
        simp [mvTail, h5, smvTail, s5.1, s5.2, ← h]

theorem sim_mv (src dst : Path) : Sim (mv false src dst) (smv src dst) := by
  apply SimOn.toSim
  refine simOn_andThen ((atPath_sim sim_isDir _).on _) (query_atPath query_isDir _) fun _ => ?_
  refine simOn_andThen ((atPath_sim sim_isDir _).on _) (query_atPath query_isDir _) fun _ => ?_
  refine simOn_andThen ((atPath_sim (sim_child _) _).on _) (query_atPath (query_child _) _) fun kd => ?_
  refine simOn_andThen ((atPath_sim sim_getNode _).on _) (query_atPath query_get _) fun nd => ?_
  by_cases hself : nd.kind = .dir ∧
      (src.split.1 ++ [src.split.2]) <+: (if dst.trailing then dst.comps else dst.split.1)
  · simp only [hself, and_self, if_true]
    exact ⟨fun l a _ h => by simp at h, fun l e _ h => by simp at h; simp [← h]⟩
  · simp only [hself, if_false]
    refine (sim_mvTail _ _ _ _ nd).mono ?_
    intro t ht
    obtain ⟨m, kids, v, hg, hk, _⟩ := child_spec ht.1.2
    exact ⟨v, N.get_snoc.mpr ⟨m, kids, hg, hk⟩⟩

end C19
