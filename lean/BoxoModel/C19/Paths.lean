import BoxoModel.C19.Lemmas
/-!
C19 — reading and changing the plain tree by path: `N.get`, `N.modAt`, and how they commute.
-/
namespace C19

def bindE {α β : Type} (x : Except Err α) (f : α → Except Err β) : Except Err β :=
  match x with
  | .error e => .error e
  | .ok a => f a

@[simp] theorem bindE_ok {α β : Type} (a : α) (f : α → Except Err β) : bindE (.ok a) f = f a := rfl
@[simp] theorem bindE_error {α β : Type} (e : Err) (f : α → Except Err β) : bindE (.error e) f = .error e := rfl

/-- apply `f` to the node at path `p` (nothing happens when the path does not resolve) -/
def N.modAt (f : N → N) : List Name → N → N
  | [], t => f t
  | _ :: _, .file d m => .file d m
  | k :: ks, .dir m kids =>
    match kids.find k with
    | none => .dir m kids
    | some c => .dir m (kids.set k (N.modAt f ks c))

@[simp] theorem N.get_nil (t : N) : N.get [] t = .ok t := by cases t <;> rfl
@[simp] theorem N.modAt_nil (f : N → N) (t : N) : N.modAt f [] t = f t := by cases t <;> rfl

theorem N.get_cons_dir (k : Name) (ks : List Name) (m : Meta) (kids : NL) :
    N.get (k :: ks) (.dir m kids) = match kids.find k with
      | none => .error .notfound
      | some c => N.get ks c := rfl

/-- `N.atPath` is: read the node, run the action on it, write the result back -/
theorem N.atPath_eq {α : Type} (sact : N → Except Err (α × N)) :
    ∀ (p : List Name) (t : N), N.atPath p sact t =
      bindE (N.get p t) fun x => bindE (sact x) fun r => .ok (r.1, N.modAt (fun _ => r.2) p t) := by
  intro p
  induction p with
  | nil =>
    intro t
    simp [N.atPath]
    cases h : sact t with
    | error e => simp
    | ok r => simp
  | cons k ks ih =>
    intro t
    cases t with
    | file d m => simp [N.atPath, N.get]
    | dir m kids =>
      cases hk : kids.find k with
      | none => simp [N.atPath, N.get, hk]
      | some c =>
        simp only [N.atPath, N.get, hk, ih c]
        cases hg : N.get ks c with
        | error e => simp
        | ok x =>
          cases hs : sact x with
          | error e => simp [hs]
          | ok r => simp [hs, N.modAt, hk]

theorem N.get_append (p r : List Name) : ∀ t : N, N.get (p ++ r) t = bindE (N.get p t) (N.get r) := by
  induction p with
  | nil => intro t; simp
  | cons k ks ih =>
    intro t
    cases t with
    | file d m => cases r <;> simp [N.get]
    | dir m kids =>
      cases hk : kids.find k with
      | none => simp [N.get, hk]
      | some c => simp [N.get, hk, ih c]

/-- below the changed node: read through the change -/
theorem N.get_modAt_append (f : N → N) (p r : List Name) :
    ∀ t : N, N.get (p ++ r) (N.modAt f p t) = bindE (N.get p t) fun x => N.get r (f x) := by
  induction p with
  | nil => intro t; simp
  | cons k ks ih =>
    intro t
    cases t with
    | file d m => cases r <;> simp [N.get, N.modAt]
    | dir m kids =>
      cases hk : kids.find k with
      | none => simp [N.get, N.modAt, hk]
      | some c => simp [N.get, N.modAt, hk, ih c]

/-- above the changed node: the subtree read is the old one with the change applied inside -/
theorem N.get_modAt_prefix (f : N → N) (q r : List Name) :
    ∀ t : N, N.get q (N.modAt f (q ++ r) t) = bindE (N.get q t) fun x => .ok (N.modAt f r x) := by
  induction q with
  | nil => intro t; simp
  | cons k ks ih =>
    intro t
    cases t with
    | file d m => simp [N.get, N.modAt]
    | dir m kids =>
      cases hk : kids.find k with
      | none => simp [N.get, N.modAt, hk]
      | some c => simp [N.get, N.modAt, hk, ih c]

/-- beside the changed node: nothing changes -/
theorem N.get_modAt_diverge (f : N → N) (c : List Name) {a b : Name} (hab : a ≠ b) (p' q' : List Name) :
    ∀ t : N, N.get (c ++ b :: q') (N.modAt f (c ++ a :: p') t) = N.get (c ++ b :: q') t := by
  induction c with
  | nil =>
    intro t
    cases t with
    | file d m => simp [N.get, N.modAt]
    | dir m kids =>
      cases hk : kids.find a with
      | none => simp [N.modAt, hk]
      | some x => simp [N.get, N.modAt, hk, NL.find_set_ne _ _ (Ne.symm hab)]
  | cons k ks ih =>
    intro t
    cases t with
    | file d m => simp [N.get, N.modAt]
    | dir m kids =>
      cases hk : kids.find k with
      | none => simp [N.get, N.modAt, hk]
      | some x => simp [N.get, N.modAt, hk, ih x]

/-- two paths: one extends the other, or they part at some component -/
theorem paths_cases : ∀ p q : List Name,
    (∃ r, q = p ++ r) ∨ (∃ x r, p = q ++ x :: r) ∨
    (∃ c a b p' q', a ≠ b ∧ p = c ++ a :: p' ∧ q = c ++ b :: q') := by
  intro p
  induction p with
  | nil => intro q; exact .inl ⟨q, rfl⟩
  | cons a p ih =>
    intro q
    cases q with
    | nil => exact .inr (.inl ⟨a, p, rfl⟩)
    | cons b q =>
      by_cases hab : a = b
      · subst hab
        rcases ih q with ⟨r, h⟩ | ⟨x, r, h⟩ | ⟨c, a', b', p', q', h1, h2, h3⟩
        · exact .inl ⟨r, by simp [h]⟩
        · exact .inr (.inl ⟨x, r, by simp [h]⟩)
        · exact .inr (.inr ⟨a :: c, a', b', p', q', h1, by simp [h2], by simp [h3]⟩)
      · exact .inr (.inr ⟨[], a, b, p, q, hab, rfl, rfl⟩)

/-! ### entries -/

def eraseKid (k : Name) : N → N
  | .dir m kids => .dir m (kids.erase k)
  | .file d m => .file d m

def setKid (k : Name) (v : N) : N → N
  | .dir m kids => .dir m (kids.set k v)
  | .file d m => .file d m

theorem N.modAt_congr {f g : N → N} : ∀ (p : List Name) (t x : N), N.get p t = .ok x → f x = g x →
    N.modAt f p t = N.modAt g p t := by
  intro p
  induction p with
  | nil => intro t x h hfg; simp at h; subst h; simpa using hfg
  | cons k ks ih =>
    intro t x h hfg
    cases t with
    | file d m => simp [N.get] at h
    | dir m kids =>
      cases hk : kids.find k with
      | none => simp [N.get, hk] at h
      | some c =>
        simp [N.get, hk] at h
        simp [N.modAt, hk, ih c x h hfg]

theorem N.get_snoc {S : List Name} {sn : Name} {t v : N} :
    N.get (S ++ [sn]) t = .ok v ↔ ∃ m kids, N.get S t = .ok (.dir m kids) ∧ kids.find sn = some v := by
  rw [N.get_append]
  cases h : N.get S t with
  | error e => simp
  | ok x =>
    cases x with
    | file d m => simp [N.get]
    | dir m kids =>
      cases hk : kids.find sn with
      | none => simp [N.get, hk]
      | some c =>
        simp [N.get, hk]
        constructor
        · intro h; subst h; exact ⟨m, kids, ⟨rfl, rfl⟩, hk⟩
        · rintro ⟨m', kids', ⟨rfl, rfl⟩, h'⟩
          rw [hk] at h'; exact Option.some.inj h'

theorem unlink_spec {D : List Name} {k : Name} {t t1 : N} {u : Unit}
    (h : N.atPath D (sUnlink k) t = .ok (u, t1)) :
    ∃ m kids v, N.get D t = .ok (.dir m kids) ∧ kids.find k = some v ∧ t1 = N.modAt (eraseKid k) D t := by
  rw [N.atPath_eq] at h
  cases hg : N.get D t with
  | error e => simp [hg] at h
  | ok x =>
    cases x with
    | file d m => simp [hg, sUnlink] at h
    | dir m kids =>
      cases hk : kids.find k with
      | none => simp [hg, sUnlink, hk] at h
      | some v =>
        simp [hg, sUnlink, hk] at h
        refine ⟨m, kids, v, rfl, hk, ?_⟩
        rw [← h]
        exact N.modAt_congr D t _ hg (by simp [eraseKid])

theorem unlink_ok {D : List Name} {k : Name} {t : N} {m : Meta} {kids : NL} {v : N}
    (hg : N.get D t = .ok (.dir m kids)) (hk : kids.find k = some v) :
    N.atPath D (sUnlink k) t = .ok ((), N.modAt (eraseKid k) D t) := by
  rw [N.atPath_eq]
  simp [hg, sUnlink, hk]
  exact N.modAt_congr D t _ hg (by simp [eraseKid])

theorem add_spec {D : List Name} {k : Name} {nd t t2 : N} {u : Unit}
    (h : N.atPath D (sAddChild k nd) t = .ok (u, t2)) :
    ∃ m kids, N.get D t = .ok (.dir m kids) ∧ kids.find k = none ∧ t2 = N.modAt (setKid k nd) D t := by
  rw [N.atPath_eq] at h
  cases hg : N.get D t with
  | error e => simp [hg] at h
  | ok x =>
    cases x with
    | file d m => simp [hg, sAddChild] at h
    | dir m kids =>
      cases hk : kids.find k with
      | some v => simp [hg, sAddChild, hk] at h
      | none =>
        simp [hg, sAddChild, hk] at h
        refine ⟨m, kids, rfl, hk, ?_⟩
        rw [← h]
        exact N.modAt_congr D t _ hg (by simp [setKid])

theorem add_ok {D : List Name} {k : Name} {nd t : N} {m : Meta} {kids : NL}
    (hg : N.get D t = .ok (.dir m kids)) (hk : kids.find k = none) :
    N.atPath D (sAddChild k nd) t = .ok ((), N.modAt (setKid k nd) D t) := by
  rw [N.atPath_eq]
  simp [hg, sAddChild, hk]
  exact N.modAt_congr D t _ hg (by simp [setKid])

theorem child_spec {S : List Name} {sn : Name} {t t' : N} {kd : Kind}
    (h : N.atPath S (sChild sn) t = .ok (kd, t')) :
    ∃ m kids v, N.get S t = .ok (.dir m kids) ∧ kids.find sn = some v ∧ v.kind = kd := by
  rw [N.atPath_eq] at h
  cases hg : N.get S t with
  | error e => simp [hg] at h
  | ok x =>
    cases x with
    | file d m => simp [hg, sChild] at h
    | dir m kids =>
      cases hk : kids.find sn with
      | none => simp [hg, sChild, hk] at h
      | some v =>
        simp [hg, sChild, hk] at h
        exact ⟨m, kids, v, rfl, hk, h.1⟩

/-- an entry that exists survives an insertion anywhere -/
theorem get_after_add {q D : List Name} {k : Name} {nd t v : N} {m : Meta} {kids : NL}
    (hq : N.get q t = .ok v) (hg : N.get D t = .ok (.dir m kids)) (hk : kids.find k = none) :
    ∃ v', N.get q (N.modAt (setKid k nd) D t) = .ok v' := by
  rcases paths_cases D q with ⟨r, rfl⟩ | ⟨x, r, rfl⟩ | ⟨c, a, b, p', q', hab, rfl, rfl⟩
  · rw [N.get_modAt_append, hg]
    rw [N.get_append, hg] at hq
    simp at hq ⊢
    cases r with
    | nil => simp
    | cons k' r' =>
      simp [setKid]
      by_cases hkk : k' = k
      · subst hkk; simp [N.get, hk] at hq
      · simpa [N.get, NL.find_set_ne _ _ hkk] using ⟨v, hq⟩
  · rw [N.get_modAt_prefix, hq]; simp
  · rw [N.get_modAt_diverge _ _ hab]; exact ⟨v, hq⟩

/-- an entry that exists survives the removal of a FILE other than itself -/
theorem get_after_unlink_file {q D : List Name} {k : Name} {t v : N} {m fm : Meta} {kids : NL} {d : Bytes}
    (hq : N.get q t = .ok v) (hg : N.get D t = .ok (.dir m kids)) (hk : kids.find k = some (.file d fm))
    (hne : q ≠ D ++ [k]) :
    ∃ v', N.get q (N.modAt (eraseKid k) D t) = .ok v' := by
  rcases paths_cases D q with ⟨r, rfl⟩ | ⟨x, r, rfl⟩ | ⟨c, a, b, p', q', hab, rfl, rfl⟩
  · rw [N.get_modAt_append, hg]
    rw [N.get_append, hg] at hq
    simp at hq ⊢
    cases r with
    | nil => simp
    | cons k' r' =>
      simp [eraseKid]
      by_cases hkk : k' = k
      · subst hkk
        simp [N.get, hk] at hq
        cases r' with
        | nil => simp at hne
        | cons x r'' => simp [N.get] at hq
      · simpa [N.get, NL.find_erase_ne _ hkk] using ⟨v, hq⟩
  · rw [N.get_modAt_prefix, hq]; simp
  · rw [N.get_modAt_diverge _ _ hab]; exact ⟨v, hq⟩

/-- after removing an entry its name can be inserted again -/
theorem add_after_unlink {D : List Name} {k : Name} {t t1 : N} {u : Unit} (nd : N)
    (h : N.atPath D (sUnlink k) t = .ok (u, t1)) :
    ∃ t2, N.atPath D (sAddChild k nd) t1 = .ok ((), t2) := by
  obtain ⟨m, kids, v, hg, hk, rfl⟩ := unlink_spec h
  have : N.get D (N.modAt (eraseKid k) D t) = .ok (.dir m (kids.erase k)) := by
    have := N.get_modAt_append (eraseKid k) D [] t
    simpa [hg, eraseKid] using this
  exact ⟨_, add_ok this (by simp)⟩

end C19
