import BoxoModel.C19.Refine
/-!
C19 — what a successful move does to the plain tree, and what a flush hands upwards.
-/
namespace C19

/-- where `mv src dst` puts the entry, as the code decides it: under the name given by `dst` (the source's
name when `dst` ends in a slash), or -- when a directory already has that place -- inside that directory
under the source's name -/
def mvTarget (src dst : Path) (t : N) : List Name :=
  let base := (if dst.trailing then dst.comps else dst.split.1) ++ [if dst.trailing then src.split.2 else dst.split.2]
  match N.get base t with
  | .ok (.dir ..) => base ++ [src.split.2]
  | _ => base

theorem thenS_ok {α β : Type} {q : Except Err (α × N)} {k : α → Except Err (β × N)} {r : β × N}
    (h : thenS q k = .ok r) : ∃ a t', q = .ok (a, t') ∧ k a = .ok r := by
  cases q with
  | error e => simp [thenS] at h
  | ok p => exact ⟨p.1, p.2, rfl, by simpa [thenS] using h⟩

theorem get_of_sGet {p : List Name} {t nd t' : N} (h : N.atPath p sGet t = .ok (nd, t')) :
    N.get p t = .ok nd := by
  rw [N.atPath_eq] at h
  cases hg : N.get p t with
  | error e => simp [hg] at h
  | ok x => simp [hg, sGet] at h; rw [h.1]

/-- the end of a move on the plain tree -/
theorem smvGo_spec {sdir : List Name} {sname : Name} {nd : N} {ddir' : List Name} {dname' : Name} {t1 t' : N}
    (h : smvGo sdir sname nd ddir' dname' t1 = .ok ((), t'))
    (hsrc : (sdir = ddir' ∧ sname = dname') ∨ ∃ v, N.get (sdir ++ [sname]) t1 = .ok v)
    (hguard : ¬ ((sdir ++ [sname]) <+: (ddir' ++ [dname']) ∧ sdir ++ [sname] ≠ ddir' ++ [dname'])) :
    N.get (ddir' ++ [dname']) t' = .ok nd ∧
    (sdir ++ [sname] ≠ ddir' ++ [dname'] → ∃ e, N.get (sdir ++ [sname]) t' = .error e) := by
  cases hadd : N.atPath ddir' (sAddChild dname' nd) t1 with
  | error e => simp [smvGo, hadd] at h
  | ok r =>
    obtain ⟨u, t2⟩ := r
    obtain ⟨m, kids, hg, hk, ht2⟩ := add_spec hadd
    have hfin2 : N.get (ddir' ++ [dname']) t2 = .ok nd := by
      rw [ht2, N.get_modAt_append, hg]
      simp [setKid, N.get]
    have hfin1 : ∀ r, ∃ e, N.get (ddir' ++ [dname'] ++ r) t1 = .error e := by
      intro r
      rw [N.get_append]
      cases hx : N.get (ddir' ++ [dname']) t1 with
      | error e => exact ⟨e, rfl⟩
      | ok x =>
        obtain ⟨m', kids', hg', hk'⟩ := N.get_snoc.mp hx
        rw [hg] at hg'
        simp at hg'
        rw [← hg'.2, hk] at hk'
        simp at hk'
    by_cases hs : sdir = ddir' ∧ sname = dname'
    · simp [smvGo, hadd, hs] at h
      subst h
      refine ⟨hfin2, fun hne => ?_⟩
      exact absurd (by rw [hs.1, hs.2]) hne
    · simp [smvGo, hadd, hs] at h
      obtain ⟨ms, kidss, vs, hgs, hks, ht'⟩ := unlink_spec h
      have hsrc1 : ∃ v, N.get (sdir ++ [sname]) t1 = .ok v := by
        rcases hsrc with hh | hh
        · exact absurd hh hs
        · exact hh
      have hsdir1 : ∃ x, N.get sdir t1 = .ok x := by
        obtain ⟨v, hv⟩ := hsrc1
        obtain ⟨m', kids', hg', _⟩ := N.get_snoc.mp hv
        exact ⟨_, hg'⟩
      have hne : sdir ++ [sname] ≠ ddir' ++ [dname'] := by
        intro heq
        have := List.append_inj' heq rfl
        exact hs ⟨this.1, by simpa using this.2⟩
      constructor
      · rw [ht']
        rcases paths_cases sdir (ddir' ++ [dname']) with ⟨r, hr⟩ | ⟨x, r, hr⟩ | ⟨c, a, b, p', q', hab, hp, hq⟩
        · rw [hr, N.get_modAt_append, hgs]
          rw [hr, N.get_append, hgs] at hfin2
          simp at hfin2 ⊢
          cases r with
          | nil =>
            -- the destination would be the source directory itself: but it did not exist before
            exfalso
            obtain ⟨x, hx⟩ := hsdir1
            obtain ⟨e, he⟩ := hfin1 []
            simp at hr
            rw [← hr] at hx
            simp [hx] at he
          | cons k' r' =>
            simp [eraseKid, N.get] at hfin2 ⊢
            by_cases hkk : k' = sname
            · exfalso
              subst hkk
              apply hguard
              refine ⟨?_, hne⟩
              rw [hr]
              exact ⟨r', by simp⟩
            · rw [NL.find_erase_ne _ hkk]
              exact hfin2
        · -- the source directory would lie below the destination: but the destination did not exist before
          exfalso
          obtain ⟨y, hy⟩ := hsdir1
          obtain ⟨e, he⟩ := hfin1 (x :: r)
          rw [hr] at hy
          rw [hy] at he
          simp at he
        · rw [hp, hq, N.get_modAt_diverge _ _ hab]
          rw [hq] at hfin2
          exact hfin2
      · intro _
        rw [ht', N.get_modAt_append, hgs]
        simp [eraseKid, N.get]

theorem isDir_spec {p : List Name} {t t' : N} {u : Unit} (h : N.atPath p sIsDir t = .ok (u, t')) :
    ∃ m kids, N.get p t = .ok (.dir m kids) := by
  rw [N.atPath_eq] at h
  cases hg : N.get p t with
  | error e => simp [hg] at h
  | ok x =>
    cases x with
    | file d m => simp [hg, sIsDir] at h
    | dir m kids => exact ⟨m, kids, rfl⟩

/-- nothing resolves to a directory at or below a file -/
theorem no_dir_below_file {src ddir : List Name} {t : N} {d : Bytes} {fm m : Meta} {kids : NL}
    (hs : N.get src t = .ok (.file d fm)) (hd : N.get ddir t = .ok (.dir m kids)) : ¬ src <+: ddir := by
  rintro ⟨r, rfl⟩
  rw [N.get_append, hs] at hd
  cases r <;> simp [N.get] at hd

/-- the two refusals of `Mv` are exactly what keeps the destination out of the source's subtree -/
theorem guard_of_checks {src ddir : List Name} (x : Name) {t nd : N} {m : Meta} {kids : NL}
    (hnd : N.get src t = .ok nd) (hd : N.get ddir t = .ok (.dir m kids))
    (hc : ¬ (nd.kind = .dir ∧ src <+: ddir)) :
    ¬ (src <+: ddir ++ [x] ∧ src ≠ ddir ++ [x]) := by
  rintro ⟨hp, hne⟩
  rcases List.prefix_concat_iff.mp hp with h | h
  · exact hne h
  · cases nd with
    | dir _ _ => exact hc ⟨rfl, h⟩
    | file d fm => exact no_dir_below_file hnd hd h

/-- what a successful move does on the plain tree -/
theorem smv_spec {src dst : Path} {t t' : N} (h : smv src dst t = .ok ((), t')) :
    ∃ nd, N.get (src.split.1 ++ [src.split.2]) t = .ok nd ∧ N.get (mvTarget src dst t) t' = .ok nd ∧
      (src.split.1 ++ [src.split.2] ≠ mvTarget src dst t →
        ∃ e, N.get (src.split.1 ++ [src.split.2]) t' = .error e) := by
  unfold smv at h
  obtain ⟨_, _, hdd0, h⟩ := thenS_ok h
  obtain ⟨_, _, _, h⟩ := thenS_ok h
  obtain ⟨kd, _, hchild, h⟩ := thenS_ok h
  obtain ⟨nd, _, hget, h⟩ := thenS_ok h
  have hnd := get_of_sGet hget
  obtain ⟨md, kidsd, hddir⟩ := isDir_spec hdd0
  refine ⟨nd, hnd, ?_⟩
  generalize hsd : src.split.1 = sdir at *
  generalize hsn : src.split.2 = sname at *
  generalize hdd : (if dst.trailing then dst.comps else dst.split.1) = ddir at *
  generalize hdn' : (if dst.trailing then sname else dst.split.2) = dname at *
  by_cases hc : nd.kind = .dir ∧ (sdir ++ [sname]) <+: ddir
  · simp [hc] at h
  simp only [hc, if_false] at h
  have hsrc : ∃ v, N.get (sdir ++ [sname]) t = .ok v := ⟨nd, hnd⟩
  have htarget : mvTarget src dst t = match N.get (ddir ++ [dname]) t with
      | .ok (.dir ..) => ddir ++ [dname] ++ [sname]
      | _ => ddir ++ [dname] := by
    simp only [mvTarget, hsd, hsn, hdd, hdn']
  have hguard1 := guard_of_checks dname hnd hddir hc
  unfold smvTail at h
  cases h5 : N.atPath ddir (sChild dname) t with
  | ok r5 =>
    obtain ⟨kd5, t5⟩ := r5
    obtain ⟨m5, kids5, v5, hg5, hk5, hkind5⟩ := child_spec h5
    have hbase : N.get (ddir ++ [dname]) t = .ok v5 := N.get_snoc.mpr ⟨m5, kids5, hg5, hk5⟩
    cases kd5 with
    | dir =>
      simp only [h5] at h
      cases v5 with
      | file _ _ => simp [N.kind] at hkind5
      | dir mv kv =>
        have ht : mvTarget src dst t = ddir ++ [dname] ++ [sname] := by rw [htarget, hbase]
        rw [ht]
        by_cases hself : sdir ++ [sname] = ddir ++ [dname]
        · simp [hself] at h
        · simp only [hself, if_false] at h
          refine smvGo_spec h (.inr hsrc) ?_
          rintro ⟨hp, hne⟩
          rcases List.prefix_concat_iff.mp hp with h' | h'
          · exact hne h'
          · exact hguard1 ⟨h', hself⟩
    | file =>
      simp only [h5] at h
      cases v5 with
      | dir _ _ => simp [N.kind] at hkind5
      | file dv mv =>
        have ht : mvTarget src dst t = ddir ++ [dname] := by rw [htarget, hbase]
        rw [ht]
        have hU := unlink_ok hg5 hk5
        simp only [hU] at h
        exact smvGo_spec h (src_after_file_unlink hsrc h5 hU) hguard1
  | error e5 =>
    have hbase : ∃ e, N.get (ddir ++ [dname]) t = .error e := by
      cases hb : N.get (ddir ++ [dname]) t with
      | error e => exact ⟨e, rfl⟩
      | ok v =>
        obtain ⟨m, kids, hg, hk⟩ := N.get_snoc.mp hb
        rw [N.atPath_eq, hg] at h5
        simp [sChild, hk] at h5
    obtain ⟨eb, heb⟩ := hbase
    have ht : mvTarget src dst t = ddir ++ [dname] := by rw [htarget, heb]
    rw [ht]
    cases e5 with
    | notfound =>
      simp only [h5] at h
      exact smvGo_spec h (.inr hsrc) hguard1
    | _ => simp [h5] at h

/-! ### flush -/

/-- a successful `Flush` at path `p` hands a node up to the root in which everything at and below `p` is
exactly what the file system shows there -/
theorem flush_up : ∀ (p : List Name) (l : L), (atPath p actFlush l).res = .ok () →
    ∃ nd, (atPath p actFlush l).up = some nd ∧ N.get p nd = N.get p (atPath p actFlush l).l.view := by
  intro p
  induction p with
  | nil =>
    intro l _
    cases l with
    | file d m => exact ⟨_, rfl, by simp [atPath, actFlush, L.view]⟩
    | dir m e => exact ⟨_, rfl, by simp [atPath, actFlush, L.view]⟩
  | cons k ks ih =>
    intro l h
    cases l with
    | file d m => simp [atPath] at h
    | dir m e =>
      cases hc : e.child k with
      | none => simp [atPath, hc] at h
      | some c =>
        simp only [atPath, hc] at h ⊢
        obtain ⟨nd, hup, hget⟩ := ih c h
        refine ⟨.dir m (Ents.put k (atPath ks actFlush c).l (some nd) e).links, by simp [hup], ?_⟩
        simp only [hup, L.view, N.get, Ents.put_links_find hc, Ents.put_view hc, NL.find_set_self]
        exact hget

/-! ### the state machines -/

theorem sim_out {α : Type} (f : α → Out) {g : L → R α} {sg : N → Except Err (α × N)} (h : Sim g sg) :
    Sim (fun l => (g l).out f) (fun t => mapOut f (sg t)) := by
  constructor
  · intro l a hr
    cases hg : (g l).res with
    | error e => simp [R.out, hg, Except.map] at hr
    | ok b =>
      simp [R.out, hg, Except.map] at hr
      simp [R.out, mapOut, h.ok l b hg, hr]
  · intro l e hr
    cases hg : (g l).res with
    | ok b => simp [R.out, hg, Except.map] at hr
    | error e' =>
      simp [R.out, hg, Except.map] at hr
      have := h.err l e' hg
      simp [R.out, mapOut, this.1, this.2, ← hr]

/-- every operation of the (repaired) model is simulated by the plain-tree operation -/
theorem opR_sim : ∀ op : Op, Sim (opR false op) (specOp op)
  | .mkdir p parents flush fm => sim_out _ (sim_mkdir p parents flush fm)
  | .put p nd => sim_out _ (sim_putNode p nd)
  | .mv src dst => sim_out _ (sim_mv src dst)
  | .rm p => sim_out _ (sim_rm p)
  | .chmod p _ => sim_out _ (atPath_sim (sim_setMeta _) p)
  | .touch p _ => sim_out _ (atPath_sim (sim_setMeta _) p)
  | .write p _ _ sync => sim_out _ (atPath_sim (sim_write sync _) p)
  | .trunc p _ sync => sim_out _ (atPath_sim (sim_write sync _) p)
  | .read p => sim_out _ (atPath_sim sim_read p)
  | .flush p => sim_out _ (atPath_sim sim_flush p)
  | .stat p => sim_out _ (atPath_sim sim_stat p)
  | .ls p => sim_out _ (atPath_sim sim_ls p)
  | .lsl p => sim_out _ (atPath_sim sim_lsl p)
  | .dmkdir p k => sim_out _ (atPath_sim (sim_mkdirFinal false false {} k) p)
  | .rflush => ⟨fun l a h => by simp [opR] at h; simp [opR, specOp, L.view_sync, ← h], fun l e h => by simp [opR] at h⟩
  | .memfree => by
      have := sim_out (fun _ : Unit => Out.unit) sim_flush
      exact ⟨fun l a h => by simpa [opR, specOp, sFlush, mapOut] using this.ok l a h,
             fun l e h => by simpa [opR, specOp, sFlush, mapOut] using this.err l e h⟩
  | .reopen => ⟨fun l a h => by simp [opR] at h; simp [opR, specOp, L.node_sync, ← h], fun l e h => by simp [opR] at h⟩

theorem step_refines (s : St) (op : Op) :
    (step false s op).2 = (sstep s.root.view op).2 ∧
    (step false s op).1.root.view = (sstep s.root.view op).1 := by
  cases hr : (opR false op s.root).res with
  | ok o =>
    have := (opR_sim op).ok s.root o hr
    simp [step, sstep, hr, this]
  | error e =>
    have := (opR_sim op).err s.root e hr
    simp [step, sstep, hr, this.1, this.2]

theorem run_refines : ∀ (ops : List Op) (s : St),
    (run false s ops).2 = (srun s.root.view ops).2 ∧
    (run false s ops).1.root.view = (srun s.root.view ops).1 := by
  intro ops
  induction ops with
  | nil => intro s; simp [run, srun]
  | cons op ops ih =>
    intro s
    have h1 := step_refines s op
    have h2 := ih (step false s op).1
    rw [h1.2] at h2
    simp [run, srun, h1.1, h2.1, h2.2]

/-! ### descriptors -/

theorem sim_setFile (full : Bool) (d : Bytes) (m : Meta) : Sim (actSetFile full d m) (sSetFile d m) :=
  ⟨fun l a h => by cases l <;> simp [actSetFile] at h ⊢ <;> simp [sSetFile, L.view],
   fun l e h => by cases l <;> simp [actSetFile] at h ⊢ <;> simp [sSetFile, L.view, ← h]⟩

theorem sim_open : Sim actOpen (fun t => match t with
    | .file d m => .ok ((d, m), .file d m)
    | .dir .. => .error .isdir) :=
  ⟨fun l a h => by cases l <;> simp [actOpen] at h ⊢ <;> simp [L.view, ← h],
   fun l e h => by cases l <;> simp [actOpen] at h ⊢ <;> simp [L.view, ← h]⟩

/-- an action that hands its whole new view upwards: after `atPath`, what reaches the root describes the
target's place exactly as the file system shows it -/
theorem atPath_up {α : Type} {act : L → R α}
    (hact : ∀ l a, (act l).res = .ok a → (act l).up = some (act l).l.view) :
    ∀ (p : List Name) (l : L) (a : α), (atPath p act l).res = .ok a →
      ∃ nd, (atPath p act l).up = some nd ∧ N.get p nd = N.get p (atPath p act l).l.view := by
  intro p
  induction p with
  | nil => intro l a h; exact ⟨_, hact l a h, by simp [atPath]⟩
  | cons k ks ih =>
    intro l a h
    cases l with
    | file d m => simp [atPath] at h
    | dir m e =>
      cases hc : e.child k with
      | none => simp [atPath, hc] at h
      | some c =>
        simp only [atPath, hc] at h ⊢
        obtain ⟨nd, hup, hget⟩ := ih c a h
        refine ⟨.dir m (Ents.put k (atPath ks act c).l (some nd) e).links, by simp [hup], ?_⟩
        simp only [hup, L.view, N.get, Ents.put_links_find hc, Ents.put_view hc, NL.find_set_self]
        exact hget

/-- on the plain tree: setting bytes and metadata is a plain write when the metadata did not change -/
theorem setFile_eq_write {p : List Name} {t : N} {d d0 : Bytes} {m : Meta}
    (h : N.get p t = .ok (.file d0 m)) :
    N.atPath p (sSetFile d m) t = N.atPath p (sWrite fun _ => d) t := by
  rw [N.atPath_eq, N.atPath_eq, h]
  simp [sSetFile, sWrite]

/-! ### an operation in the propagation gap -/

theorem step_view_congr {s1 s2 : St} (h : s1.root.view = s2.root.view) (op : Op) :
    (step false s1 op).2 = (step false s2 op).2 ∧
    (step false s1 op).1.root.view = (step false s2 op).1.root.view := by
  have a := step_refines s1 op
  have b := step_refines s2 op
  rw [h] at a
  exact ⟨a.1.trans b.1.symm, a.2.trans b.2.symm⟩

theorem atPath_append {α : Type} (act : L → R α) : ∀ (P rest : List Name) (l : L),
    atPath (P ++ rest) act l = atPath P (atPath rest act) l := by
  intro P
  induction P with
  | nil => intro rest l; simp [atPath]
  | cons k ks ih =>
    intro rest l
    cases l with
    | file d m => simp [atPath]
    | dir m e =>
      cases hc : e.child k with
      | none => simp [atPath, hc]
      | some c => simp [atPath, hc, ih rest c]

theorem atPath_out {α : Type} (f : α → Out) (a : L → R α) : ∀ (p : List Name) (l : L),
    atPath p (fun l => (a l).out f) l = (atPath p a l).out f := by
  intro p
  induction p with
  | nil => intro l; simp [atPath]
  | cons k ks ih =>
    intro l
    cases l with
    | file d m => simp [atPath, R.out, Except.map]
    | dir m e =>
      cases hc : e.child k with
      | none => simp [atPath, hc, R.out, Except.map]
      | some c =>
        simp only [atPath, hc]
        rw [ih c]
        simp [R.out]

/-- withholding what the target hands upwards changes links only: same answer, same view -/
theorem atPath_cut_view {α β : Type} (φ : β → α) {f : L → R α} {g : L → R β}
    (h : ∀ l, (g l).res.map φ = (f l).res ∧ (g l).l = (f l).l) :
    ∀ (P : List Name) (l : L), (atPath P g l).res.map φ = (atPath P f l).res ∧
      (atPath P g l).l.view = (atPath P f l).l.view := by
  intro P
  induction P with
  | nil => intro l; simp [atPath, h l]
  | cons k ks ih =>
    intro l
    cases l with
    | file d m => simp [atPath, Except.map]
    | dir m e =>
      cases hc : e.child k with
      | none => simp [atPath, hc, Except.map]
      | some c =>
        have := ih c
        simp [atPath, hc, this.1, L.view, Ents.put_view hc, this.2]

theorem splitRun_view (k : Nat) (p : List Name) (act : L → R Out) (root : L) :
    (splitRun k p act root).1.res = (atPath p act root).res ∧
    (splitRun k p act root).1.l.view = (atPath p act root).l.view := by
  unfold splitRun
  split
  · exact ⟨rfl, rfl⟩
  · rename_i hk
    have hp : p = p.take (p.length - k) ++ p.drop (p.length - k) := (List.take_append_drop _ _).symm
    have key := atPath_cut_view (Prod.fst : Out × Option N → Out)
      (f := atPath (p.drop (p.length - k)) act)
      (g := fun D => ⟨(atPath (p.drop (p.length - k)) act D).res.map fun o => (o, (atPath (p.drop (p.length - k)) act D).up),
                      (atPath (p.drop (p.length - k)) act D).l, none⟩)
      (fun l => by
        constructor
        · cases (atPath (p.drop (p.length - k)) act l).res <;> simp [Except.map]
        · rfl)
      (p.take (p.length - k)) root
    rw [← atPath_append, ← hp] at key
    simp only at key ⊢
    split
    · rename_i e he
      rw [he] at key
      simp [Except.map] at key
      exact ⟨key.1, key.2⟩
    · rename_i o he
      rw [he] at key
      simp [Except.map] at key
      exact ⟨key.1, key.2⟩
    · rename_i o nd he
      rw [he] at key
      simp [Except.map] at key
      exact ⟨key.1, key.2⟩

theorem Ents.cached_child {k : Name} {e : Ents} {c : L} (h : e.cached k = some c) : e.child k = some c := by
  induction e with
  | nil => simp [Ents.cached] at h
  | dead k' n r ih =>
    by_cases h2 : k' = k
    · simp [Ents.cached, h2] at h
    · simp [Ents.cached, h2] at h; simp [Ents.child, h2, ih h]
  | live k' n l r ih =>
    by_cases h2 : k' = k
    · simp [Ents.cached, h2] at h; simp [Ents.child, h2, h]
    · simp [Ents.cached, h2] at h; simp [Ents.child, h2, ih h]

theorem Ents.setLink_view_cached {k : Name} {e : Ents} {c : L} (h : e.cached k = some c) (v : N) :
    (e.setLink k v).view = e.view := by
  induction e with
  | nil => simp [Ents.cached] at h
  | dead k' n r ih =>
    by_cases h2 : k' = k
    · simp [Ents.cached, h2] at h
    · simp [Ents.cached, h2] at h; simp [Ents.setLink, Ents.view, h2, ih h]
  | live k' n l r ih =>
    by_cases h2 : k' = k
    · simp [Ents.setLink, Ents.view, h2]
    · simp [Ents.cached, h2] at h; simp [Ents.setLink, Ents.view, h2, ih h]

/-- a link written under a cached child does not change what the file system shows -/
theorem linkUp_view (n : Name) (nd : N) : ∀ (Q : List Name) (l : L), l.cachedAt (Q ++ [n]) = true →
    (atPath Q (actLinkUp n nd) l).l.view = l.view := by
  intro Q
  induction Q with
  | nil =>
    intro l h
    cases l with
    | file d m => simp [L.cachedAt] at h
    | dir m e =>
      cases hc : e.cached n with
      | none => simp [L.cachedAt, hc] at h
      | some c => simp [atPath, actLinkUp, L.view, Ents.setLink_view_cached hc]
  | cons q Q ih =>
    intro l h
    cases l with
    | file d m => simp [L.cachedAt] at h
    | dir m e =>
      cases hc : e.cached q with
      | none => simp [L.cachedAt, hc] at h
      | some c =>
        simp [L.cachedAt, hc] at h
        have hch := Ents.cached_child hc
        simp [atPath, hch, L.view, Ents.put_view hch, ih c h, NL.set_find_self _ (Ents.child_some hch)]

theorem resume_view (s : St) (pend : Option (List Name × N)) : (resume s pend).root.view = s.root.view := by
  cases pend with
  | none => rfl
  | some pn =>
    obtain ⟨P, nd⟩ := pn
    cases P with
    | nil => rfl
    | cons a P' =>
      simp only [resume]
      split
      · rename_i hc
        have hP : a :: P' = (a :: P').dropLast ++ [lastName (a :: P')] := by
          cases hl : (a :: P').getLast? with
          | none => simp at hl
          | some last =>
            obtain ⟨ys, hys⟩ := List.getLast?_eq_some_iff.mp hl
            simp [lastName, hl, hys]
        rw [hP] at hc
        exact linkUp_view _ nd _ _ hc
      · rfl

theorem getNode_view (p : List Name) (l : L) : (atPath p actGetNode l).l.view = l.view := by
  cases hr : (atPath p actGetNode l).res with
  | ok a => exact query_atPath query_get p _ _ _ ((atPath_sim sim_getNode p).ok l a hr)
  | error e => exact ((atPath_sim sim_getNode p).err l e hr).2

end C19
