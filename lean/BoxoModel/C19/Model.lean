/-
C19 — MFS (mutable file system): executable model of the tree / two-level caching mechanism.

Transcribed from /repo/mfs/{ops,dir,file,fd,root}.go (with the two `fix:`es of `Mv`, see `mv`).

  Go                                            model
  -------------------------------------------   ---------------------------------------------------
  ipld node reachable from a CID (immutable)     `N`  (file: bytes + mode/mtime, dir: mode/mtime + links `NL`)
  *File   {node}                                 `L.file data meta`
  *Directory {unixfsDir, entriesCache}           `L.dir meta ents`;  one `Ents` entry per link of `unixfsDir`:
                                                   `dead k n`   : link `k -> n`, no cached child
                                                   `live k n l` : link `k -> n` AND `entriesCache[k] = l`
  d.unixfsDir.GetNode()                          `L.node`  (links only; what is cached is NOT in it)
  d.childUnsync(k) (+ cacheNode)                 `Ents.child k` then `Ents.put k c none`
  d.cacheSync(false) / d.GetNode()               `L.sync` / `(L.sync l).node`
  d.getNode(true) (Flush)                        `Ents.sync` then `Ents.uncache`
  d.localUpdate(child{k, nd}) / updateChildEntry `Ents.put k c (some nd)`, performed on the way back in `atPath`
  Root.updateChildEntry (what gets published)    `St.pub`
  Lookup / DirLookup                             `atPath p act` (walks with childUnsync, runs `act` on the target)

A cached child always has a link of the same name in the real code (mkdirWithOpts adds the link before it
caches, cacheNode caches what it found under a link, Unlink removes both): the two maps are therefore kept as
one list.  The harness checks this on the real `Directory` after every op (monitor `cache-not-subset-of-links`).

The HAMT / basic representation of `unixfsDir` is abstracted (properties C15/C16): a directory is its
name -> node map.  File contents use the byte-array spec of the DagModifier (property C10).
Ops are atomic and sequential: no `FSNode` or descriptor is kept across ops (property C20 is about that).
Core-only (no Mathlib): imported by the driver.
-/
namespace C19

abbrev Name := String
abbrev Bytes := List UInt8

/-- UnixFS metadata: permission bits (0 = not stored) and an mtime token (0 = not stored). -/
structure Meta where
  mode : Nat := 0
  mtime : Nat := 0
deriving DecidableEq, Repr, Inhabited

inductive Err where
  | notfound | exists_ | notdir | invalid | rootexists | isdir | intoself | busy | nofd
deriving DecidableEq, Repr

mutual
/-- an immutable DAG node (what a CID denotes); also the plain tree used as the specification -/
inductive N where
  | file (data : Bytes) (m : Meta)
  | dir (m : Meta) (kids : NL)
inductive NL where
  | nil
  | cons (k : Name) (n : N) (rest : NL)
end

mutual
/-- a live MFS object -/
inductive L where
  | file (data : Bytes) (m : Meta)
  | dir (m : Meta) (ents : Ents)
inductive Ents where
  | nil
  | dead (k : Name) (n : N) (rest : Ents)
  | live (k : Name) (n : N) (l : L) (rest : Ents)
end

deriving instance DecidableEq for N, NL
deriving instance DecidableEq for L, Ents
deriving instance DecidableEq for Except

instance : Inhabited N := ⟨.dir {} .nil⟩
instance : Inhabited L := ⟨.dir {} .nil⟩

/-! ### name -> node maps (`unixfsDir` seen as a map) -/

def NL.find (k : Name) : NL → Option N
  | .nil => none
  | .cons k' n r => if k' = k then some n else r.find k

/-- `unixfsDir.AddChild`: replace the link of that name, or append a new one -/
def NL.set (k : Name) (v : N) : NL → NL
  | .nil => .cons k v .nil
  | .cons k' n r => if k' = k then .cons k' v r else .cons k' n (r.set k v)

/-- `unixfsDir.RemoveChild` -/
def NL.erase (k : Name) : NL → NL
  | .nil => .nil
  | .cons k' n r => if k' = k then r.erase k else .cons k' n (r.erase k)

def NL.keys : NL → List Name
  | .nil => []
  | .cons k _ r => k :: r.keys

def NL.toList : NL → List (Name × N)
  | .nil => []
  | .cons k n r => (k, n) :: r.toList

/-! ### the two levels of a directory -/

/-- the links of `unixfsDir` -/
def Ents.links : Ents → NL
  | .nil => .nil
  | .dead k n r => .cons k n r.links
  | .live k n _ r => .cons k n r.links

/-- `unixfsDir.GetNode()` (Directory) / `fi.node` (File): the node as it is, nothing synced -/
def L.node : L → N
  | .file d m => .file d m
  | .dir m e => .dir m e.links

mutual
/-- what the file system shows: links overridden by the cached live children -/
def L.view : L → N
  | .file d m => .file d m
  | .dir m e => .dir m e.view
def Ents.view : Ents → NL
  | .nil => .nil
  | .dead k n r => .cons k n r.view
  | .live k _ l r => .cons k l.view r.view
end

def NL.toEnts : NL → Ents
  | .nil => .nil
  | .cons k n r => .dead k n r.toEnts

/-- `cacheNode`: NewDirectory / NewFile from a node (a fresh Directory has an empty cache) -/
def N.load : N → L
  | .file d m => .file d m
  | .dir m kids => .dir m kids.toEnts

/-- `childUnsync(k)`: the cached child, else the child loaded from the link, else not found -/
def Ents.child (k : Name) : Ents → Option L
  | .nil => none
  | .dead k' n r => if k' = k then some n.load else r.child k
  | .live k' _ l r => if k' = k then some l else r.child k

/-- `entriesCache[k] = c`, and with `up = some nd` also `unixfsDir.AddChild(k, nd)` on an existing link
(`localUpdate`).  Only used for names that have a link. -/
def Ents.put (k : Name) (c : L) (up : Option N) : Ents → Ents
  | .nil => .nil
  | .dead k' n r => if k' = k then .live k' (up.getD n) c r else .dead k' n (r.put k c up)
  | .live k' n l r => if k' = k then .live k' (up.getD n) c r else .live k' n l (r.put k c up)

/-- `unixfsDir.AddChild(k, n)` alone: replace the link (the cache is not touched) or append one -/
def Ents.setLink (k : Name) (v : N) : Ents → Ents
  | .nil => .dead k v .nil
  | .dead k' n r => if k' = k then .dead k' v r else .dead k' n (r.setLink k v)
  | .live k' n l r => if k' = k then .live k' v l r else .live k' n l (r.setLink k v)

/-- `delete(entriesCache, k)` + `unixfsDir.RemoveChild(k)` -/
def Ents.erase (k : Name) : Ents → Ents
  | .nil => .nil
  | .dead k' n r => if k' = k then r.erase k else .dead k' n (r.erase k)
  | .live k' n l r => if k' = k then r.erase k else .live k' n l (r.erase k)

/-- `entriesCache = make(map)` (the links stay) -/
def Ents.uncache : Ents → Ents
  | .nil => .nil
  | .dead k n r => .dead k n r.uncache
  | .live k n _ r => .dead k n r.uncache

mutual
/-- `cacheSync(false)` down the whole live subtree: every cached child's current node (its own cache synced
first, recursively: `entry.GetNode()`) is written into the link of its name.  The caches stay. -/
def L.sync : L → L
  | .file d m => .file d m
  | .dir m e => .dir m e.sync
def Ents.sync : Ents → Ents
  | .nil => .nil
  | .dead k n r => .dead k n r.sync
  | .live k _ l r => .live k l.sync.node l.sync r.sync
end

/-- `Directory.List` / `ForEachEntry`: every link's child is fetched with childUnsync (so it ends up cached)
and asked for its node with `GetNode()` (which syncs a child directory); the link itself is not updated. -/
def Ents.listAll : Ents → Ents
  | .nil => .nil
  | .dead k n r => .live k n n.load.sync r.listAll
  | .live k n l r => .live k n l.sync r.listAll

/-! ### walking paths -/

/-- result of running something on a live object: the answer, the object afterwards, and the node the
object handed to `parent.updateChildEntry` (if it did) -/
structure R (α : Type) where
  res : Except Err α
  l : L
  up : Option N := none

inductive Kind where
  | file | dir
deriving DecidableEq, Repr

def L.kind : L → Kind
  | .file .. => .file
  | .dir .. => .dir

def N.kind : N → Kind
  | .file .. => .file
  | .dir .. => .dir

/-- `DirLookup(path)` followed by `act` on the FSNode found.  Every step is `chdir.Child(p)` (childUnsync: the
child gets cached).  On the way back the object that was changed is what the parent's cache holds, and if
the target propagated a node upwards every ancestor does `localUpdate` with its child's new node and passes
its own new `unixfsDir` node on (`updateChildEntry`). -/
def atPath {α : Type} : List Name → (L → R α) → L → R α
  | [], act, l => act l
  | _ :: _, _, .file d m => ⟨.error .notdir, .file d m, none⟩
  | k :: ks, act, .dir m e =>
    match e.child k with
    | none => ⟨.error .notfound, .dir m e, none⟩
    | some c =>
      let r := atPath ks act c
      let e' := e.put k r.l r.up
      ⟨r.res, .dir m e', r.up.map fun _ => .dir m e'.links⟩

/-! ### actions on the object a path leads to -/

/-- `Lookup` alone: which kind of FSNode -/
def actKind (l : L) : R Kind := ⟨.ok l.kind, l, none⟩

/-- `lookupDir`: the FSNode must be a *Directory -/
def actIsDir : L → R Unit
  | .file d m => ⟨.error .notdir, .file d m, none⟩
  | .dir m e => ⟨.ok (), .dir m e, none⟩

/-- `fsn.GetNode()` -/
def actGetNode (l : L) : R N := ⟨.ok l.sync.node, l.sync, none⟩

/-- `d.Child(k)` on a directory -/
def actChild (k : Name) : L → R Kind
  | .file d m => ⟨.error .notdir, .file d m, none⟩
  | .dir m e =>
    match e.child k with
    | none => ⟨.error .notfound, .dir m e, none⟩
    | some c => ⟨.ok c.kind, .dir m (e.put k c none), none⟩

/-- `d.Unlink(k)` -/
def actUnlink (k : Name) : L → R Unit
  | .file d m => ⟨.error .notdir, .file d m, none⟩
  | .dir m e =>
    match e.links.find k with
    | none => ⟨.error .notfound, .dir m e, none⟩
    | some _ => ⟨.ok (), .dir m (e.erase k), none⟩

/-- `d.AddChild(k, nd)`: fails when childUnsync finds the name (and has cached it by then) -/
def actAddChild (k : Name) (nd : N) : L → R Unit
  | .file d m => ⟨.error .notdir, .file d m, none⟩
  | .dir m e =>
    match e.child k with
    | some c => ⟨.error .exists_, .dir m (e.put k c none), none⟩
    | none => ⟨.ok (), .dir m (e.setLink k nd), none⟩

/-- `SetMode` / `SetModTime`.  File: `setNodeData` replaces `fi.node` and tells the parent.  Directory:
`GetNode()` (syncs), a new node with the new metadata and the synced links is handed to the parent and
`unixfsDir` is rebuilt from it; the cache of live children is kept. -/
def actSetMeta (f : Meta → Meta) : L → R Unit
  | .file d m => ⟨.ok (), .file d (f m), some (.file d (f m))⟩
  | .dir m e => ⟨.ok (), .dir (f m) e.sync, some (.dir (f m) e.sync.links)⟩

/-- `Flush()`.  File: open for writing with Sync, `flushUp(true)`.  Directory: `getNode(true)` (sync, then
drop the cache) and `parent.updateChildEntry`. -/
def actFlush : L → R Unit
  | .file d m => ⟨.ok (), .file d m, some (.file d m)⟩
  | .dir m e => ⟨.ok (), .dir m e.sync.uncache, some (.dir m e.sync.uncache.links)⟩

/-- open for writing, change the bytes (`g`), Close: `flushUp(sync)` replaces `fi.node`; only a Sync
descriptor tells the parent -/
def actWrite (sync : Bool) (g : Bytes → Bytes) : L → R Unit
  | .file d m => ⟨.ok (), .file (g d) m, if sync then some (.file (g d) m) else none⟩
  | .dir m e => ⟨.error .isdir, .dir m e, none⟩

/-- open for reading, read everything, Close (`flushUp(false)` of an unmodified descriptor) -/
def actRead : L → R Bytes
  | .file d m => ⟨.ok d, .file d m, none⟩
  | .dir m e => ⟨.error .isdir, .dir m e, none⟩

inductive StatOut where
  | file (m : Meta) (size : Nat)
  | dir (m : Meta)
deriving DecidableEq, Repr

/-- `Mode()`, `ModTime()` (+ `Size()` for a file).  On a directory both go through `GetNode()`: two syncs. -/
def actStat : L → R StatOut
  | .file d m => ⟨.ok (.file m d.length), .file d m, none⟩
  | .dir m e => ⟨.ok (.dir m), .dir m e.sync.sync, none⟩

/-- `ListNames` (the links of `unixfsDir`; nothing gets cached); `none` for a file -/
def actLs : L → R (Option (List Name))
  | .file d m => ⟨.ok none, .file d m, none⟩
  | .dir m e => ⟨.ok (some e.links.keys), .dir m e, none⟩

def entryOf : N → Name × Option Nat
  | .file d _ => ("", some d.length)
  | .dir .. => ("", none)

/-- the listing (name, `some size` for a file / `none` for a directory) of a name -> node map -/
def NL.listing : NL → List (Name × Option Nat)
  | .nil => []
  | .cons k n r => (k, (entryOf n).2) :: r.listing

/-- `List` (see `Ents.listAll`) -/
def actLsl : L → R (Option (List (Name × Option Nat)))
  | .file d m => ⟨.ok none, .file d m, none⟩
  | .dir m e => ⟨.ok (some e.listAll.view.listing), .dir m e.listAll, none⟩

/-! ### paths as the Go functions see them -/

/-- a clean absolute path: its components and whether it was written with a trailing slash ("/" = `[]`, true) -/
structure Path where
  comps : List Name
  trailing : Bool
deriving DecidableEq, Repr

/-- `gopath.Split` -/
def Path.split (p : Path) : List Name × Name :=
  if p.trailing then (p.comps, "")
  else match p.comps.getLast? with
    | none => ([], "")
    | some last => (p.comps.dropLast, last)

/-! ### the operations of ops.go -/

/-- sequencing of two steps that both start from the root -/
def andThen {α β : Type} (r : R α) (f : α → L → R β) : R β :=
  match r.res with
  | .error e => ⟨.error e, r.l, r.up⟩
  | .ok a => f a r.l

/-- the last steps of `mkdirWithOpts(k)` on `cur`, then the `final.Flush()` of `Mkdir` -/
def mkdirFinal (parents flush : Bool) (fm : Meta) (k : Name) : L → R Unit
  | .file d m => ⟨.error .notdir, .file d m, none⟩
  | .dir m e =>
    match e.child k with
    | some c =>
      let cur := L.dir m (e.put k c none)
      match c with
      | .file .. => ⟨.error .exists_, cur, none⟩
      | .dir .. =>
        if parents then
          if flush then atPath [k] actFlush cur else ⟨.ok (), cur, none⟩
        else ⟨.error .exists_, cur, none⟩
    | none =>
      let cur := L.dir m ((e.setLink k (.dir fm .nil)).put k (.dir fm .nil) none)
      if flush then atPath [k] actFlush cur else ⟨.ok (), cur, none⟩

/-- the loop of `Mkdir` over `parts` starting at `cur` -/
def mkdirRec (parents flush : Bool) (fm : Meta) : List Name → L → R Unit
  | [], l => ⟨.ok (), l, none⟩
  | [k], l => mkdirFinal parents flush fm k l
  | _ :: _ :: _, .file d m => ⟨.error .notdir, .file d m, none⟩
  | k :: k2 :: ks, .dir m e =>
    match e.child k with
    | some c =>
      let r := mkdirRec parents flush fm (k2 :: ks) c
      let e' := e.put k r.l r.up
      ⟨r.res, .dir m e', r.up.map fun _ => .dir m e'.links⟩
    | none =>
      if parents then
        -- cur.mkdirWithOpts(d, parentsCfg): no mode, no mtime
        let e1 := (e.setLink k (.dir {} .nil)).put k (.dir {} .nil) none
        let r := mkdirRec parents flush fm (k2 :: ks) (.dir {} .nil)
        let e' := e1.put k r.l r.up
        ⟨r.res, .dir m e', r.up.map fun _ => .dir m e'.links⟩
      else ⟨.error .notfound, .dir m e, none⟩

/-- `Mkdir(r, pth, MkdirOpts{Mkparents, Flush}, WithMode, WithModTime)` -/
def mkdir (p : List Name) (parents flush : Bool) (fm : Meta) (root : L) : R Unit :=
  match p with
  | [] => if parents then ⟨.ok (), root, none⟩ else ⟨.error .rootexists, root, none⟩
  | _ :: _ => mkdirRec parents flush fm p root

/-- `PutNode(r, path, nd)` -/
def putNode (p : Path) (nd : N) (root : L) : R Unit :=
  if p.split.2 = "" then ⟨.error .invalid, root, none⟩
  else andThen (atPath p.split.1 actIsDir root) fun _ root =>
    atPath p.split.1 (actAddChild p.split.2 nd) root

/-- `lookupDir(parent)` then `dir.Unlink(name)` (what `ipfs files rm` does) -/
def rm (p : Path) (root : L) : R Unit :=
  andThen (atPath p.split.1 actIsDir root) fun _ root =>
    atPath p.split.1 (actUnlink p.split.2) root

def lastName (p : List Name) : Name := (p.getLast?).getD ""

/-- end of `Mv`: `dstDir.AddChild(dstFname, nd)`, then `srcDir.Unlink(srcFname)` unless source and
destination are taken to be the same entry -/
def mvGo (cmpNames : Bool) (sdir : List Name) (sname : Name) (nd : N) (ddir' : List Name) (dname' : Name)
    (root : L) : R Unit :=
  andThen (atPath ddir' (actAddChild dname' nd) root) fun _ root =>
    if (if cmpNames then lastName sdir = lastName ddir' else sdir = ddir') ∧ sname = dname' then
      ⟨.ok (), root, none⟩
    else atPath sdir (actUnlink sname) root

/-- middle of `Mv`: `fsn, err := dstDir.Child(dstFname)` and the switch on what is there -/
def mvTail (cmpNames : Bool) (sdir : List Name) (sname : Name) (ddir : List Name) (dname : Name) (nd : N)
    (root : L) : R Unit :=
  let r5 := atPath ddir (actChild dname) root
  match r5.res with
  | .ok .file =>            -- _ = dstDir.Unlink(dstFname)
    mvGo cmpNames sdir sname nd ddir dname (atPath ddir (actUnlink dname) r5.l).l
  | .ok .dir =>             -- n == srcObj: refused;  else dstDir = n; dstFname = srcFname
    if sdir ++ [sname] = ddir ++ [dname] then ⟨.error .intoself, r5.l, none⟩
    else mvGo cmpNames sdir sname nd (ddir ++ [dname]) sname r5.l
  | .error .notfound => mvGo cmpNames sdir sname nd ddir dname r5.l
  | .error e => ⟨.error e, r5.l, none⟩

/-- `Mv(r, src, dst)`.  `cmpNames = true` is the comparison as found (`srcDir.name == dstDir.name`),
`cmpNames = false` the repaired one (`srcDir == dstDir`, i.e. the same directory).  The refusal of a move
of a directory into itself (second `fix:`) is part of both; live objects are identified by their paths. -/
def mv (cmpNames : Bool) (src dst : Path) (root : L) : R Unit :=
  andThen (atPath (if dst.trailing then dst.comps else dst.split.1) actIsDir root) fun _ root =>  -- dstDir
  andThen (atPath src.split.1 actIsDir root) fun _ root =>                                        -- srcDir
  andThen (atPath src.split.1 (actChild src.split.2) root) fun _ root =>       -- srcObj := srcDir.Child(srcFname)
  andThen (atPath (src.split.1 ++ [src.split.2]) actGetNode root) fun nd root =>   -- nd := srcObj.GetNode()
  -- isSelfOrAncestor(srcObj, dstDir): a directory does not go into itself or below itself
  if nd.kind = .dir ∧ (src.split.1 ++ [src.split.2]) <+: (if dst.trailing then dst.comps else dst.split.1) then
    ⟨.error .intoself, root, none⟩
  else
  mvTail cmpNames src.split.1 src.split.2 (if dst.trailing then dst.comps else dst.split.1)
    (if dst.trailing then src.split.2 else dst.split.2) nd root

/-- byte-array spec of Seek(off) + Write(b) on a DagModifier (zero fill when `off` is past the end) -/
def writeAt (off : Nat) (b : Bytes) (d : Bytes) : Bytes :=
  d.take off ++ List.replicate (off - d.length) 0 ++ b ++ d.drop (off + b.length)

/-- byte-array spec of Truncate(size) (zero fill when growing) -/
def truncTo (size : Nat) (d : Bytes) : Bytes :=
  d.take size ++ List.replicate (size - d.length) 0

/-! ### the state machine -/

inductive Op where
  | mkdir (p : List Name) (parents flush : Bool) (fm : Meta)
  | put (p : Path) (nd : N)
  | mv (src dst : Path)
  | rm (p : Path)
  | chmod (p : List Name) (mode : Nat)
  | touch (p : List Name) (mtime : Nat)
  | write (p : List Name) (off : Nat) (b : Bytes) (sync : Bool)
  | trunc (p : List Name) (size : Nat) (sync : Bool)
  | read (p : List Name)
  | flush (p : List Name)
  | stat (p : List Name)
  | ls (p : List Name)
  | lsl (p : List Name)
  | dmkdir (p : List Name) (k : Name)   -- lookupDir(p).Mkdir(k)
  | rflush                              -- Root.Flush
  | memfree                             -- Root.FlushMemFree
  | reopen                              -- Root.Close, then NewRoot from the root directory's node

inductive Out where
  | unit
  | bytes (b : Bytes)
  | stat (s : StatOut)
  | names (ns : Option (List Name))
  | listing (es : Option (List (Name × Option Nat)))
deriving DecidableEq, Repr

/-- the whole MFS: the root directory and the node last handed to `Root.updateChildEntry` -/
structure St where
  root : L
  pub : N

/-- `NewEmptyRoot` -/
def St.init : St := ⟨.dir {} .nil, .dir {} .nil⟩

def R.out {α : Type} (f : α → Out) (r : R α) : R Out :=
  ⟨r.res.map f, r.l, r.up⟩

/-- one op on the root directory -/
def opR (cmpNames : Bool) : Op → L → R Out
  | .mkdir p parents flush fm, root => (mkdir p parents flush fm root).out fun _ => .unit
  | .put p nd, root => (putNode p nd root).out fun _ => .unit
  | .mv src dst, root => (mv cmpNames src dst root).out fun _ => .unit
  | .rm p, root => (rm p root).out fun _ => .unit
  | .chmod p mode, root => (atPath p (actSetMeta fun m => { m with mode := mode }) root).out fun _ => .unit
  | .touch p mt, root => (atPath p (actSetMeta fun m => { m with mtime := mt }) root).out fun _ => .unit
  | .write p off b sync, root => (atPath p (actWrite sync (writeAt off b)) root).out fun _ => .unit
  | .trunc p size sync, root => (atPath p (actWrite sync (truncTo size)) root).out fun _ => .unit
  | .read p, root => (atPath p actRead root).out .bytes
  | .flush p, root => (atPath p actFlush root).out fun _ => .unit
  | .stat p, root => (atPath p actStat root).out .stat
  | .ls p, root => (atPath p actLs root).out .names
  | .lsl p, root => (atPath p actLsl root).out .listing
  | .dmkdir p k, root => (atPath p (mkdirFinal false false {} k) root).out fun _ => .unit
  | .rflush, root => ⟨.ok .unit, root.sync, some root.sync.node⟩
  | .memfree, root => (actFlush root).out fun _ => .unit
  | .reopen, root => ⟨.ok .unit, root.sync.node.load, some root.sync.node⟩

/-- one op on the MFS: what reaches `Root.updateChildEntry` becomes the published node -/
def step (cmpNames : Bool) (s : St) (op : Op) : St × Except Err Out :=
  let r := opR cmpNames op s.root
  (⟨r.l, r.up.getD s.pub⟩, r.res)

def run (cmpNames : Bool) : St → List Op → St × List (Except Err Out)
  | s, [] => (s, [])
  | s, op :: ops =>
    let r := step cmpNames s op
    let r' := run cmpNames r.1 ops
    (r'.1, r.2 :: r'.2)

/-! ### a write descriptor kept open across operations

One descriptor at a time.  `fi.Open(Flags{Write, Sync})` builds a DagModifier from `fi.node`; writes go to the
modifier only; `flushUp` replaces `fi.node` by the modifier's node -- bytes AND the metadata the node had when
the descriptor was opened -- and tells the parent when asked to (`Flush`, or `Close` of a Sync descriptor),
unless the descriptor is already flushed and untouched (`stateFlushed`).  The `*File` stays the object cached
under its path until an operation unlinks that entry or an ancestor entry (`Unlink`, `Mv`); from then on what
the descriptor flushes reaches nothing that the root can see (`inode.unlinked` for the file, the `fix:` in
`Directory.updateChildEntry` for ancestors).  Operations that would block on the file's `desclock`, and
directory flushes above the open file (they drop the live object from the cache without unlinking it: see
docs/notes/C19.md, "floating descriptors"), are refused here and not executed by the harness (`busy`). -/

def Ents.cached (k : Name) : Ents → Option L
  | .nil => none
  | .dead k' _ r => if k' = k then none else r.cached k
  | .live k' _ l r => if k' = k then some l else r.cached k

/-- the object at the end of `p` is reached through cached children only -/
def L.cachedAt : List Name → L → Bool
  | [], _ => true
  | _ :: _, .file .. => false
  | k :: ks, .dir _ e =>
    match e.cached k with
    | some c => L.cachedAt ks c
    | none => false

structure Fd where
  path : List Name
  buf : Bytes
  m : Meta
  sync : Bool
  /-- `state == stateFlushed` -/
  clean : Bool
  /-- the `*File` is still the object cached under `path` -/
  att : Bool

structure StD where
  st : St
  fd : Option Fd

inductive OpD where
  | base (op : Op)
  | fdopen (p : List Name) (sync : Bool)
  | fdwrite (off : Nat) (b : Bytes)
  | fdtrunc (size : Nat)
  | fdflush
  | fdclose

/-- `fi.Open`: bytes and metadata of the node the DagModifier starts from -/
def actOpen : L → R (Bytes × Meta)
  | .file d m => ⟨.ok (d, m), .file d m, none⟩
  | .dir m e => ⟨.error .isdir, .dir m e, none⟩

/-- `flushUp`: the modifier's node replaces `fi.node` -/
def actSetFile (full : Bool) (d : Bytes) (m : Meta) : L → R Unit
  | .file _ _ => ⟨.ok (), .file d m, if full then some (.file d m) else none⟩
  | .dir m' e => ⟨.error .isdir, .dir m' e, none⟩

/-- would the operation block on the open file's lock, or drop the open file's live object from a cache? -/
def busyOp (fd : Fd) : Op → Bool
  | .write p _ _ _ => fd.att && p == fd.path
  | .trunc p _ _ => fd.att && p == fd.path
  | .read p => fd.att && p == fd.path
  | .flush p => fd.att && p.isPrefixOf fd.path
  | .mkdir p _ flush _ => fd.att && flush && p.isPrefixOf fd.path
  | .memfree => fd.att
  | .reopen => true
  | _ => false

/-- `flushUp(full)` of the open descriptor -/
def flushUp (full : Bool) (s : St) (fd : Fd) : St × Fd :=
  if fd.clean then (s, fd)
  else if fd.att then
    let r := atPath fd.path (actSetFile full fd.buf fd.m) s.root
    (⟨r.l, r.up.getD s.pub⟩, { fd with clean := true })
  else (s, { fd with clean := true })

def stepD (s : StD) : OpD → StD × Except Err Out
  | .base op =>
    match s.fd with
    | none => let r := step false s.st op; (⟨r.1, none⟩, r.2)
    | some fd =>
      if busyOp fd op then (s, .error .busy)
      else
        let r := step false s.st op
        (⟨r.1, some { fd with att := fd.att && r.1.root.cachedAt fd.path }⟩, r.2)
  | .fdopen p sync =>
    match s.fd with
    | some _ => (s, .error .busy)
    | none =>
      let r := atPath p actOpen s.st.root
      match r.res with
      | .error e => (⟨⟨r.l, s.st.pub⟩, none⟩, .error e)
      | .ok (d, m) => (⟨⟨r.l, s.st.pub⟩, some ⟨p, d, m, sync, false, true⟩⟩, .ok .unit)
  | .fdwrite off b =>
    match s.fd with
    | none => (s, .error .nofd)
    | some fd => (⟨s.st, some { fd with buf := writeAt off b fd.buf, clean := false }⟩, .ok .unit)
  | .fdtrunc size =>
    match s.fd with
    | none => (s, .error .nofd)
    | some fd => (⟨s.st, some { fd with buf := truncTo size fd.buf, clean := false }⟩, .ok .unit)
  | .fdflush =>
    match s.fd with
    | none => (s, .error .nofd)
    | some fd => let r := flushUp true s.st fd; (⟨r.1, some r.2⟩, .ok .unit)
  | .fdclose =>
    match s.fd with
    | none => (s, .error .nofd)
    | some fd => let r := flushUp fd.sync s.st fd; (⟨r.1, none⟩, .ok .unit)

def runD : StD → List OpD → StD × List (Except Err Out)
  | s, [] => (s, [])
  | s, op :: ops =>
    let r := stepD s op
    let r' := runD r.1 ops
    (r'.1, r.2 :: r'.2)

/-! ### an operation landing between a local update and its propagation

`Directory.updateChildEntry` does its local update (`localUpdate`: the link of the child that changed) and only
then calls its parent.  Another complete operation (`Mv` / `Unlink`, from another goroutine) can run in that
gap (schedule point `Directory.updateChildEntry:localDone`).  `stepRace k trig intr` is that interleaving: the
trigger (a Sync write / flush / descriptor flush at depth `d`) runs with the local updates of the `k` deepest
directories only, then `intr` runs completely, then the node of the directory at depth `d - k` is handed to its
parent -- unless that directory object is no longer the one cached under its path (it was unlinked: the check
of `d.unlinked` comes AFTER the gap). -/

/-- `parent.localUpdate(child{k, nd})` alone: the link, not the cache -/
def actLinkUp (k : Name) (nd : N) : L → R Unit
  | .file d m => ⟨.error .notdir, .file d m, none⟩
  | .dir m e => ⟨.ok (), .dir m (e.setLink k nd), some (.dir m (e.setLink k nd).links)⟩

/-- the operations whose propagation can be cut: target path and action -/
def trigAct : Op → Option (List Name × (L → R Out))
  | .write p off b sync => some (p, fun l => (actWrite sync (writeAt off b) l).out fun _ => .unit)
  | .trunc p size sync => some (p, fun l => (actWrite sync (truncTo size) l).out fun _ => .unit)
  | .flush p => some (p, fun l => (actFlush l).out fun _ => .unit)
  | _ => none

/-- run `act` at `p` with the local updates of the `k` deepest directories; what the directory at depth
`p.length - k` would hand to its parent is returned instead of being propagated -/
def splitRun (k : Nat) (p : List Name) (act : L → R Out) (root : L) : R Out × Option (List Name × N) :=
  if k = 0 ∨ k > p.length then (atPath p act root, none)
  else
    let r := atPath (p.take (p.length - k))
      (fun D => let q := atPath (p.drop (p.length - k)) act D
                ⟨q.res.map fun o => (o, q.up), q.l, none⟩) root
    match r.res with
    | .error e => (⟨.error e, r.l, none⟩, none)
    | .ok (o, none) => (⟨.ok o, r.l, none⟩, none)
    | .ok (o, some nd) => (⟨.ok o, r.l, none⟩, some (p.take (p.length - k), nd))

/-- the rest of the propagation, after the gap -/
def resume (s : St) : Option (List Name × N) → St
  | none => s
  | some ([], nd) => ⟨s.root, nd⟩                       -- Root.updateChildEntry
  | some (P, nd) =>
    if s.root.cachedAt P then                            -- d.unlinked is false
      let r := atPath P.dropLast (actLinkUp (lastName P) nd) s.root
      ⟨r.l, r.up.getD s.pub⟩
    else s

inductive Trig where
  | op (o : Op)
  | fdflush
  | fdclose

def stepRace (s : StD) (k : Nat) (t : Trig) (intr : Op) : StD × Except Err Out × Except Err Out :=
  let seq (t' : OpD) : StD × Except Err Out × Except Err Out :=
    let r1 := stepD s t'
    let r2 := stepD r1.1 (.base intr)
    (r2.1, r1.2, r2.2)
  -- `FlushPath` ends with `nd.GetNode()` on the FSNode it looked up: a directory that is still in place syncs
  -- whatever the intruder cached below it
  let post (s' : St) : St :=
    match t with
    | .op (.flush p) => if s'.root.cachedAt p then ⟨(atPath p actGetNode s'.root).l, s'.pub⟩ else s'
    | _ => s'
  let cut (p : List Name) (act : L → R Out) (fd' : Option Fd) : StD × Except Err Out × Except Err Out :=
    let sr := splitRun k p act s.st.root
    let s1 : StD := ⟨⟨sr.1.l, sr.1.up.getD s.st.pub⟩, fd'⟩
    let r2 := stepD s1 (.base intr)
    (⟨post (resume r2.1.st sr.2), r2.1.fd⟩, sr.1.res, r2.2)
  match t with
  | .op o =>
    match s.fd with
    | some fd =>
      if busyOp fd o then (s, .error .busy, .error .busy)
      else match trigAct o with
        | some (p, act) => cut p act (some { fd with att := fd.att && (splitRun k p act s.st.root).1.l.cachedAt fd.path })
        | none => seq (.base o)
    | none =>
      match trigAct o with
      | some (p, act) => cut p act none
      | none => seq (.base o)
  | .fdflush =>
    match s.fd with
    | some fd =>
      if fd.att && !fd.clean then
        cut fd.path (fun l => (actSetFile true fd.buf fd.m l).out fun _ => .unit) (some { fd with clean := true })
      else seq .fdflush
    | none => seq .fdflush
  | .fdclose =>
    match s.fd with
    | some fd =>
      if fd.att && !fd.clean && fd.sync then
        cut fd.path (fun l => (actSetFile true fd.buf fd.m l).out fun _ => .unit) none
      else seq .fdclose
    | none => seq .fdclose

end C19
