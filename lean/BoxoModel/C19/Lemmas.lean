import BoxoModel.C19.Spec
/-!
C19 — helper lemmas: name maps, the view of the two-level state, and the simulation of the
model by the plain-tree specification.
-/
namespace C19

/-! ### list-like induction for the two mutual list types -/

@[induction_eliminator]
theorem NL.ind {motive : NL → Prop} (nil : motive .nil)
    (cons : ∀ k n r, motive r → motive (.cons k n r)) : ∀ l, motive l
  | .nil => nil
  | .cons k n r => cons k n r (NL.ind nil cons r)

@[induction_eliminator]
theorem Ents.ind {motive : Ents → Prop} (nil : motive .nil)
    (dead : ∀ k n r, motive r → motive (.dead k n r))
    (live : ∀ k n l r, motive r → motive (.live k n l r)) : ∀ e, motive e
  | .nil => nil
  | .dead k n r => dead k n r (Ents.ind nil dead live r)
  | .live k n l r => live k n l r (Ents.ind nil dead live r)

/-! ### name -> node maps -/

@[simp] theorem NL.find_set_self (k : Name) (v : N) (l : NL) : (l.set k v).find k = some v := by
  induction l with
  | nil => simp [NL.set, NL.find]
  | cons k' n r ih =>
    by_cases h : k' = k
    · simp [NL.set, NL.find, h]
    · simp [NL.set, NL.find, h, ih]

theorem NL.find_set_ne {k k' : Name} (v : N) (l : NL) (h : k' ≠ k) : (l.set k v).find k' = l.find k' := by
  induction l with
  | nil => simp [NL.set, NL.find, Ne.symm h]
  | cons k2 n r ih =>
    by_cases h2 : k2 = k
    · subst h2
      simp [NL.set, NL.find, Ne.symm h]
    · by_cases h3 : k2 = k'
      · subst h3
        simp [NL.set, NL.find, h2]
      · simp [NL.set, NL.find, h2, h3, ih]

@[simp] theorem NL.find_erase_self (k : Name) (l : NL) : (l.erase k).find k = none := by
  induction l with
  | nil => simp [NL.erase, NL.find]
  | cons k' n r ih =>
    by_cases h : k' = k
    · simp [NL.erase, h, ih]
    · simp [NL.erase, NL.find, h, ih]

theorem NL.find_erase_ne {k k' : Name} (l : NL) (h : k' ≠ k) : (l.erase k).find k' = l.find k' := by
  induction l with
  | nil => simp [NL.erase, NL.find]
  | cons k2 n r ih =>
    by_cases h2 : k2 = k
    · subst h2
      simp [NL.erase, NL.find, Ne.symm h, ih]
    · by_cases h3 : k2 = k'
      · subst h3
        simp [NL.erase, NL.find, h2]
      · simp [NL.erase, NL.find, h2, h3, ih]

theorem NL.set_find_self {k : Name} {v : N} (l : NL) (h : l.find k = some v) : l.set k v = l := by
  induction l with
  | nil => simp [NL.find] at h
  | cons k' n r ih =>
    by_cases h2 : k' = k
    · simp [NL.find, h2] at h
      simp [NL.set, h2, h]
    · simp [NL.find, h2] at h
      simp [NL.set, h2, ih h]

/-! ### the two levels -/

@[simp] theorem NL.links_toEnts (l : NL) : l.toEnts.links = l := by
  induction l with
  | nil => rfl
  | cons k n r ih => simp [NL.toEnts, Ents.links, ih]

@[simp] theorem NL.view_toEnts (l : NL) : l.toEnts.view = l := by
  induction l with
  | nil => simp [NL.toEnts, Ents.view]
  | cons k n r ih => simp [NL.toEnts, Ents.view, ih]

@[simp] theorem N.view_load (n : N) : n.load.view = n := by
  cases n <;> simp [N.load, L.view]

@[simp] theorem N.node_load (n : N) : n.load.node = n := by
  cases n <;> simp [N.load, L.node]

@[simp] theorem N.kind_load (n : N) : n.load.kind = n.kind := by
  cases n <;> simp [N.load, L.kind, N.kind]

@[simp] theorem L.kind_view (l : L) : l.view.kind = l.kind := by
  cases l <;> simp [L.view, L.kind, N.kind]

mutual
/-- after `cacheSync`, the node of `unixfsDir` IS what the file system shows -/
theorem L.node_sync : ∀ l : L, l.sync.node = l.view
  | .file d m => by simp [L.sync, L.node, L.view]
  | .dir m e => by simp [L.sync, L.node, L.view, Ents.links_sync e]
theorem Ents.links_sync : ∀ e : Ents, e.sync.links = e.view
  | .nil => by simp [Ents.sync, Ents.links, Ents.view]
  | .dead k n r => by simp [Ents.sync, Ents.links, Ents.view, Ents.links_sync r]
  | .live k n l r => by simp [Ents.sync, Ents.links, Ents.view, Ents.links_sync r, L.node_sync l]
end

mutual
/-- `cacheSync` does not change what the file system shows -/
theorem L.view_sync : ∀ l : L, l.sync.view = l.view
  | .file d m => by simp [L.sync, L.view]
  | .dir m e => by simp [L.sync, L.view, Ents.view_sync e]
theorem Ents.view_sync : ∀ e : Ents, e.sync.view = e.view
  | .nil => by simp [Ents.sync, Ents.view]
  | .dead k n r => by simp [Ents.sync, Ents.view, Ents.view_sync r]
  | .live k n l r => by simp [Ents.sync, Ents.view, Ents.view_sync r, L.view_sync l]
end

@[simp] theorem L.kind_sync (l : L) : l.sync.kind = l.kind := by
  cases l <;> simp [L.sync, L.kind]

theorem Ents.child_view (k : Name) (e : Ents) : (e.child k).map L.view = e.view.find k := by
  induction e with
  | nil => simp [Ents.child, Ents.view, NL.find]
  | dead k' n r ih =>
    by_cases h : k' = k
    · simp [Ents.child, Ents.view, NL.find, h]
    · simp [Ents.child, Ents.view, NL.find, h, ih]
  | live k' n l r ih =>
    by_cases h : k' = k
    · simp [Ents.child, Ents.view, NL.find, h]
    · simp [Ents.child, Ents.view, NL.find, h, ih]

theorem Ents.child_none {k : Name} {e : Ents} (h : e.child k = none) : e.view.find k = none := by
  rw [← Ents.child_view, h]; rfl

theorem Ents.child_some {k : Name} {e : Ents} {c : L} (h : e.child k = some c) :
    e.view.find k = some c.view := by
  rw [← Ents.child_view, h]; rfl

/-- a link exists iff the view has the name -/
theorem Ents.links_find_isSome (k : Name) (e : Ents) :
    (e.links.find k).isSome = (e.view.find k).isSome := by
  induction e with
  | nil => simp [Ents.links, Ents.view, NL.find]
  | dead k' n r ih =>
    by_cases h : k' = k
    · simp [Ents.links, Ents.view, NL.find, h]
    · simp [Ents.links, Ents.view, NL.find, h, ih]
  | live k' n l r ih =>
    by_cases h : k' = k
    · simp [Ents.links, Ents.view, NL.find, h]
    · simp [Ents.links, Ents.view, NL.find, h, ih]

theorem Ents.put_view {k : Name} {e : Ents} {c0 : L} (h : e.child k = some c0) (c : L) (up : Option N) :
    (e.put k c up).view = e.view.set k c.view := by
  induction e with
  | nil => simp [Ents.child] at h
  | dead k' n r ih =>
    by_cases h2 : k' = k
    · simp [Ents.put, Ents.view, NL.set, h2]
    · simp [Ents.child, h2] at h
      simp [Ents.put, Ents.view, NL.set, h2, ih h]
  | live k' n l r ih =>
    by_cases h2 : k' = k
    · simp [Ents.put, Ents.view, NL.set, h2]
    · simp [Ents.child, h2] at h
      simp [Ents.put, Ents.view, NL.set, h2, ih h]

theorem Ents.put_links_find {k : Name} {e : Ents} {c0 : L} (h : e.child k = some c0) (c : L) (nd : N) :
    (e.put k c (some nd)).links.find k = some nd := by
  induction e with
  | nil => simp [Ents.child] at h
  | dead k' n r ih =>
    by_cases h2 : k' = k
    · simp [Ents.put, Ents.links, NL.find, h2]
    · simp [Ents.child, h2] at h
      simp [Ents.put, Ents.links, NL.find, h2, ih h]
  | live k' n l r ih =>
    by_cases h2 : k' = k
    · simp [Ents.put, Ents.links, NL.find, h2]
    · simp [Ents.child, h2] at h
      simp [Ents.put, Ents.links, NL.find, h2, ih h]

/-- storing the child that is already there does not change the view (childUnsync's caching) -/
theorem Ents.put_same_view {k : Name} {e : Ents} {c : L} (h : e.child k = some c) (up : Option N) :
    (e.put k c up).view = e.view := by
  rw [Ents.put_view h, NL.set_find_self _ (Ents.child_some h)]

theorem Ents.setLink_view {k : Name} {e : Ents} (h : e.child k = none) (v : N) :
    (e.setLink k v).view = e.view.set k v := by
  induction e with
  | nil => simp [Ents.setLink, Ents.view, NL.set]
  | dead k' n r ih =>
    by_cases h2 : k' = k
    · simp [Ents.child, h2] at h
    · simp [Ents.child, h2] at h
      simp [Ents.setLink, Ents.view, NL.set, h2, ih h]
  | live k' n l r ih =>
    by_cases h2 : k' = k
    · simp [Ents.child, h2] at h
    · simp [Ents.child, h2] at h
      simp [Ents.setLink, Ents.view, NL.set, h2, ih h]

/-- `mkdirWithOpts`: add the link, then cache the new directory object -/
theorem Ents.setLink_put_view {k : Name} {e : Ents} (h : e.child k = none) (v : N) (c : L) (up : Option N) :
    ((e.setLink k v).put k c up).view = e.view.set k c.view := by
  induction e with
  | nil => simp [Ents.setLink, Ents.put, Ents.view, NL.set]
  | dead k' n r ih =>
    by_cases h2 : k' = k
    · simp [Ents.child, h2] at h
    · simp [Ents.child, h2] at h
      simp [Ents.setLink, Ents.put, Ents.view, NL.set, h2, ih h]
  | live k' n l r ih =>
    by_cases h2 : k' = k
    · simp [Ents.child, h2] at h
    · simp [Ents.child, h2] at h
      simp [Ents.setLink, Ents.put, Ents.view, NL.set, h2, ih h]

theorem Ents.setLink_put_child {k : Name} {e : Ents} (h : e.child k = none) (v : N) (c : L) (up : Option N) :
    ((e.setLink k v).put k c up).child k = some c := by
  induction e with
  | nil => simp [Ents.setLink, Ents.put, Ents.child]
  | dead k' n r ih =>
    by_cases h2 : k' = k
    · simp [Ents.child, h2] at h
    · simp [Ents.child, h2] at h
      simp [Ents.setLink, Ents.put, Ents.child, h2, ih h]
  | live k' n l r ih =>
    by_cases h2 : k' = k
    · simp [Ents.child, h2] at h
    · simp [Ents.child, h2] at h
      simp [Ents.setLink, Ents.put, Ents.child, h2, ih h]

theorem Ents.put_child {k : Name} {e : Ents} {c0 : L} (h : e.child k = some c0) (c : L) (up : Option N) :
    (e.put k c up).child k = some c := by
  induction e with
  | nil => simp [Ents.child] at h
  | dead k' n r ih =>
    by_cases h2 : k' = k
    · simp [Ents.put, Ents.child, h2]
    · simp [Ents.child, h2] at h
      simp [Ents.put, Ents.child, h2, ih h]
  | live k' n l r ih =>
    by_cases h2 : k' = k
    · simp [Ents.put, Ents.child, h2]
    · simp [Ents.child, h2] at h
      simp [Ents.put, Ents.child, h2, ih h]

@[simp] theorem Ents.erase_view (k : Name) (e : Ents) : (e.erase k).view = e.view.erase k := by
  induction e with
  | nil => simp [Ents.erase, Ents.view, NL.erase]
  | dead k' n r ih =>
    by_cases h : k' = k
    · simp [Ents.erase, Ents.view, NL.erase, h, ih]
    · simp [Ents.erase, Ents.view, NL.erase, h, ih]
  | live k' n l r ih =>
    by_cases h : k' = k
    · simp [Ents.erase, Ents.view, NL.erase, h, ih]
    · simp [Ents.erase, Ents.view, NL.erase, h, ih]

@[simp] theorem Ents.uncache_links (e : Ents) : e.uncache.links = e.links := by
  induction e with
  | nil => rfl
  | dead k n r ih => simp [Ents.uncache, Ents.links, ih]
  | live k n l r ih => simp [Ents.uncache, Ents.links, ih]

/-- with an empty cache the view is the links -/
@[simp] theorem Ents.uncache_view (e : Ents) : e.uncache.view = e.links := by
  induction e with
  | nil => simp [Ents.uncache, Ents.view, Ents.links]
  | dead k n r ih => simp [Ents.uncache, Ents.view, Ents.links, ih]
  | live k n l r ih => simp [Ents.uncache, Ents.view, Ents.links, ih]

@[simp] theorem Ents.listAll_view (e : Ents) : e.listAll.view = e.view := by
  induction e with
  | nil => simp [Ents.listAll, Ents.view]
  | dead k n r ih => simp [Ents.listAll, Ents.view, ih, L.view_sync]
  | live k n l r ih => simp [Ents.listAll, Ents.view, ih, L.view_sync]

@[simp] theorem Ents.links_keys (e : Ents) : e.links.keys = e.view.keys := by
  induction e with
  | nil => simp [Ents.links, Ents.view, NL.keys]
  | dead k n r ih => simp [Ents.links, Ents.view, NL.keys, ih]
  | live k n l r ih => simp [Ents.links, Ents.view, NL.keys, ih]

/-! ### simulation -/

/-- `f` on live objects is simulated by `sf` on the plain tree: same answer; on success the view of the
new state is the new tree, on failure the view has not changed -/
structure Sim {α : Type} (f : L → R α) (sf : N → Except Err (α × N)) : Prop where
  ok : ∀ l a, (f l).res = .ok a → sf l.view = .ok (a, (f l).l.view)
  err : ∀ l e, (f l).res = .error e → sf l.view = .error e ∧ (f l).l.view = l.view

theorem atPath_sim {α : Type} {act : L → R α} {sact : N → Except Err (α × N)} (h : Sim act sact) :
    ∀ p : List Name, Sim (atPath p act) (N.atPath p sact) := by
  intro p
  induction p with
  | nil => exact ⟨fun l a hr => h.ok l a hr, fun l e hr => h.err l e hr⟩
  | cons k ks ih =>
    constructor
    · intro l a hr
      cases l with
      | file d m => simp [atPath] at hr
      | dir m e =>
        cases hc : e.child k with
        | none => simp [atPath, hc] at hr
        | some c =>
          simp only [atPath, hc] at hr ⊢
          have := ih.ok c a hr
          simp [L.view, N.atPath, Ents.child_some hc, this, Ents.put_view hc]
    · intro l e hr
      cases l with
      | file d m =>
        simp [atPath] at hr
        simp [atPath, L.view, N.atPath, hr]
      | dir m en =>
        cases hc : en.child k with
        | none =>
          simp [atPath, hc] at hr
          simp [atPath, hc, L.view, N.atPath, Ents.child_none hc, hr]
        | some c =>
          simp only [atPath, hc] at hr ⊢
          have := ih.err c e hr
          simp [L.view, N.atPath, Ents.child_some hc, this.1, Ents.put_view hc, this.2,
            NL.set_find_self _ (Ents.child_some hc)]

/-! ### every action on the target is simulated -/

theorem sim_kind : Sim actKind sKind :=
  ⟨fun l a h => by simp [actKind] at h; simp [actKind, sKind, ← h],
   fun l e h => by simp [actKind] at h⟩

theorem sim_isDir : Sim actIsDir sIsDir :=
  ⟨fun l a h => by cases l <;> simp [actIsDir] at h ⊢ <;> simp [sIsDir, L.view],
   fun l e h => by cases l <;> simp [actIsDir] at h ⊢ <;> simp [sIsDir, L.view, ← h]⟩

theorem sim_getNode : Sim actGetNode sGet :=
  ⟨fun l a h => by simp [actGetNode] at h; simp [actGetNode, sGet, ← h, L.node_sync, L.view_sync],
   fun l e h => by simp [actGetNode] at h⟩

theorem sim_child (k : Name) : Sim (actChild k) (sChild k) := by
  constructor
  · intro l a h
    cases l with
    | file d m => simp [actChild] at h
    | dir m e =>
      cases hc : e.child k with
      | none => simp [actChild, hc] at h
      | some c =>
        simp [actChild, hc] at h
        simp [actChild, hc, sChild, L.view, Ents.child_some hc, Ents.put_same_view hc, ← h]
  · intro l e h
    cases l with
    | file d m => simp [actChild] at h; simp [actChild, sChild, L.view, ← h]
    | dir m en =>
      cases hc : en.child k with
      | none => simp [actChild, hc] at h; simp [actChild, hc, sChild, L.view, Ents.child_none hc, ← h]
      | some c => simp [actChild, hc] at h

theorem Ents.links_find_none {k : Name} {e : Ents} (h : e.links.find k = none) : e.view.find k = none := by
  have := Ents.links_find_isSome k e
  rw [h] at this
  cases hv : e.view.find k with
  | none => rfl
  | some v => rw [hv] at this; simp at this

theorem Ents.links_find_some {k : Name} {e : Ents} {n : N} (h : e.links.find k = some n) :
    ∃ v, e.view.find k = some v := by
  have := Ents.links_find_isSome k e
  rw [h] at this
  cases hv : e.view.find k with
  | none => rw [hv] at this; simp at this
  | some v => exact ⟨v, rfl⟩

theorem sim_unlink (k : Name) : Sim (actUnlink k) (sUnlink k) := by
  constructor
  · intro l a h
    cases l with
    | file d m => simp [actUnlink] at h
    | dir m e =>
      cases hc : e.links.find k with
      | none => simp [actUnlink, hc] at h
      | some n =>
        obtain ⟨v, hv⟩ := Ents.links_find_some hc
        simp [actUnlink, hc, sUnlink, L.view, hv]
  · intro l e h
    cases l with
    | file d m => simp [actUnlink] at h; simp [actUnlink, sUnlink, L.view, ← h]
    | dir m en =>
      cases hc : en.links.find k with
      | none => simp [actUnlink, hc] at h; simp [actUnlink, hc, sUnlink, L.view, Ents.links_find_none hc, ← h]
      | some n => simp [actUnlink, hc] at h

theorem sim_addChild (k : Name) (nd : N) : Sim (actAddChild k nd) (sAddChild k nd) := by
  constructor
  · intro l a h
    cases l with
    | file d m => simp [actAddChild] at h
    | dir m e =>
      cases hc : e.child k with
      | some c => simp [actAddChild, hc] at h
      | none => simp [actAddChild, hc, sAddChild, L.view, Ents.child_none hc, Ents.setLink_view hc]
  · intro l e h
    cases l with
    | file d m => simp [actAddChild] at h; simp [actAddChild, sAddChild, L.view, ← h]
    | dir m en =>
      cases hc : en.child k with
      | some c =>
        simp [actAddChild, hc] at h
        simp [actAddChild, hc, sAddChild, L.view, Ents.child_some hc, Ents.put_same_view hc, ← h]
      | none => simp [actAddChild, hc] at h

theorem sim_setMeta (f : Meta → Meta) : Sim (actSetMeta f) (sSetMeta f) :=
  ⟨fun l a h => by cases l <;> simp [actSetMeta, sSetMeta, L.view, Ents.view_sync],
   fun l e h => by cases l <;> simp [actSetMeta] at h⟩

theorem sim_flush : Sim actFlush sFlush :=
  ⟨fun l a h => by cases l <;> simp [actFlush, sFlush, L.view, Ents.links_sync],
   fun l e h => by cases l <;> simp [actFlush] at h⟩

theorem sim_write (sync : Bool) (g : Bytes → Bytes) : Sim (actWrite sync g) (sWrite g) :=
  ⟨fun l a h => by cases l <;> simp [actWrite] at h ⊢ <;> simp [sWrite, L.view],
   fun l e h => by cases l <;> simp [actWrite] at h ⊢ <;> simp [sWrite, L.view, ← h]⟩

theorem sim_read : Sim actRead sRead :=
  ⟨fun l a h => by cases l <;> simp [actRead] at h ⊢ <;> simp [sRead, L.view, ← h],
   fun l e h => by cases l <;> simp [actRead] at h ⊢ <;> simp [sRead, L.view, ← h]⟩

theorem sim_stat : Sim actStat sStat :=
  ⟨fun l a h => by cases l <;> simp [actStat] at h ⊢ <;> simp [sStat, L.view, ← h, Ents.view_sync],
   fun l e h => by cases l <;> simp [actStat] at h⟩

theorem sim_ls : Sim actLs sLs :=
  ⟨fun l a h => by cases l <;> simp [actLs] at h ⊢ <;> simp [sLs, L.view, ← h],
   fun l e h => by cases l <;> simp [actLs] at h⟩

theorem sim_lsl : Sim actLsl sLsl :=
  ⟨fun l a h => by cases l <;> simp [actLsl] at h ⊢ <;> simp [sLsl, L.view, ← h],
   fun l e h => by cases l <;> simp [actLsl] at h⟩

end C19
