import BoxoModel.C19.Model
/-!
C19 — the specification: a hierarchical file system on the plain tree `N` (no caches, no links vs live
objects, no propagation).  An operation either fails and leaves the tree alone (the `Except` monad: there
is no state to roll back) or succeeds with a new tree.  Core-only.
-/
namespace C19

/-- walk down `p`, run `act` on the node found, rebuild the spine -/
def N.atPath {α : Type} : List Name → (N → Except Err (α × N)) → N → Except Err (α × N)
  | [], act, t => act t
  | _ :: _, _, .file .. => .error .notdir
  | k :: ks, act, .dir m kids =>
    match kids.find k with
    | none => .error .notfound
    | some c =>
      match N.atPath ks act c with
      | .error e => .error e
      | .ok (a, c') => .ok (a, .dir m (kids.set k c'))

def sKind (t : N) : Except Err (Kind × N) := .ok (t.kind, t)

def sIsDir : N → Except Err (Unit × N)
  | .file .. => .error .notdir
  | .dir m kids => .ok ((), .dir m kids)

def sGet (t : N) : Except Err (N × N) := .ok (t, t)

def sChild (k : Name) : N → Except Err (Kind × N)
  | .file .. => .error .notdir
  | .dir m kids =>
    match kids.find k with
    | none => .error .notfound
    | some c => .ok (c.kind, .dir m kids)

def sUnlink (k : Name) : N → Except Err (Unit × N)
  | .file .. => .error .notdir
  | .dir m kids =>
    match kids.find k with
    | none => .error .notfound
    | some _ => .ok ((), .dir m (kids.erase k))

def sAddChild (k : Name) (nd : N) : N → Except Err (Unit × N)
  | .file .. => .error .notdir
  | .dir m kids =>
    match kids.find k with
    | some _ => .error .exists_
    | none => .ok ((), .dir m (kids.set k nd))

def sSetMeta (f : Meta → Meta) : N → Except Err (Unit × N)
  | .file d m => .ok ((), .file d (f m))
  | .dir m kids => .ok ((), .dir (f m) kids)

def sFlush (t : N) : Except Err (Unit × N) := .ok ((), t)

def sWrite (g : Bytes → Bytes) : N → Except Err (Unit × N)
  | .file d m => .ok ((), .file (g d) m)
  | .dir .. => .error .isdir

/-- what a flush of a write descriptor stores: the modifier's bytes and the metadata it started from -/
def sSetFile (d : Bytes) (m : Meta) : N → Except Err (Unit × N)
  | .file _ _ => .ok ((), .file d m)
  | .dir .. => .error .isdir

def sRead : N → Except Err (Bytes × N)
  | .file d m => .ok (d, .file d m)
  | .dir .. => .error .isdir

def sStat : N → Except Err (StatOut × N)
  | .file d m => .ok (.file m d.length, .file d m)
  | .dir m kids => .ok (.dir m, .dir m kids)

def sLs : N → Except Err (Option (List Name) × N)
  | .file d m => .ok (none, .file d m)
  | .dir m kids => .ok (some kids.keys, .dir m kids)

def sLsl : N → Except Err (Option (List (Name × Option Nat)) × N)
  | .file d m => .ok (none, .file d m)
  | .dir m kids => .ok (some kids.listing, .dir m kids)

/-- mkdir / mkdir -p on the plain tree -/
def smkdirRec (parents : Bool) (fm : Meta) : List Name → N → Except Err (Unit × N)
  | [], t => .ok ((), t)
  | _ :: _, .file .. => .error .notdir
  | [k], .dir m kids =>
    match kids.find k with
    | some (.file ..) => .error .exists_
    | some (.dir ..) => if parents then .ok ((), .dir m kids) else .error .exists_
    | none => .ok ((), .dir m (kids.set k (.dir fm .nil)))
  | k :: k2 :: ks, .dir m kids =>
    match kids.find k with
    | some c =>
      match smkdirRec parents fm (k2 :: ks) c with
      | .error e => .error e
      | .ok (_, c') => .ok ((), .dir m (kids.set k c'))
    | none =>
      if parents then
        match smkdirRec parents fm (k2 :: ks) (.dir {} .nil) with
        | .error e => .error e
        | .ok (_, c') => .ok ((), .dir m (kids.set k c'))
      else .error .notfound

def smkdir (p : List Name) (parents : Bool) (fm : Meta) (t : N) : Except Err (Unit × N) :=
  match p with
  | [] => if parents then .ok ((), t) else .error .rootexists
  | _ :: _ => smkdirRec parents fm p t

/-- run a query, then continue on the same tree -/
def thenS {α β : Type} (q : Except Err (α × N)) (k : α → Except Err (β × N)) : Except Err (β × N) :=
  match q with
  | .error e => .error e
  | .ok (a, _) => k a

def sput (p : Path) (nd : N) (t : N) : Except Err (Unit × N) :=
  if p.split.2 = "" then .error .invalid
  else thenS (N.atPath p.split.1 sIsDir t) fun _ =>
    N.atPath p.split.1 (sAddChild p.split.2 nd) t

def srm (p : Path) (t : N) : Except Err (Unit × N) :=
  thenS (N.atPath p.split.1 sIsDir t) fun _ =>
    N.atPath p.split.1 (sUnlink p.split.2) t

/-- add the moved node under the destination, remove the source entry unless it is that very entry -/
def smvGo (sdir : List Name) (sname : Name) (nd : N) (ddir' : List Name) (dname' : Name) (t1 : N) :
    Except Err (Unit × N) :=
  match N.atPath ddir' (sAddChild dname' nd) t1 with
  | .error e => .error e
  | .ok (_, t2) =>
    if sdir = ddir' ∧ sname = dname' then .ok ((), t2)
    else N.atPath sdir (sUnlink sname) t2

/-- what is at the destination decides: an existing file is replaced, an existing directory receives the
entry under its old name, otherwise the entry gets the new name -/
def smvTail (sdir : List Name) (sname : Name) (ddir : List Name) (dname : Name) (nd : N) (t : N) :
    Except Err (Unit × N) :=
  match N.atPath ddir (sChild dname) t with
  | .ok (.file, _) =>
    match N.atPath ddir (sUnlink dname) t with
    | .ok (_, t1) => smvGo sdir sname nd ddir dname t1
    | .error _ => smvGo sdir sname nd ddir dname t
  | .ok (.dir, _) =>
    if sdir ++ [sname] = ddir ++ [dname] then .error .intoself
    else smvGo sdir sname nd (ddir ++ [dname]) sname t
  | .error .notfound => smvGo sdir sname nd ddir dname t
  | .error e => .error e

/-- move (a directory is not moved into itself or below itself) -/
def smv (src dst : Path) (t : N) : Except Err (Unit × N) :=
  thenS (N.atPath (if dst.trailing then dst.comps else dst.split.1) sIsDir t) fun _ =>
  thenS (N.atPath src.split.1 sIsDir t) fun _ =>
  thenS (N.atPath src.split.1 (sChild src.split.2) t) fun _ =>
  thenS (N.atPath (src.split.1 ++ [src.split.2]) sGet t) fun nd =>
  if nd.kind = .dir ∧ (src.split.1 ++ [src.split.2]) <+: (if dst.trailing then dst.comps else dst.split.1) then
    .error .intoself
  else
  smvTail src.split.1 src.split.2 (if dst.trailing then dst.comps else dst.split.1)
    (if dst.trailing then src.split.2 else dst.split.2) nd t

def mapOut {α : Type} (f : α → Out) : Except Err (α × N) → Except Err (Out × N)
  | .ok (a, t) => .ok (f a, t)
  | .error e => .error e

/-- one op on the plain tree -/
def specOp : Op → N → Except Err (Out × N)
  | .mkdir p parents _ fm, t => mapOut (fun _ => .unit) (smkdir p parents fm t)
  | .put p nd, t => mapOut (fun _ => .unit) (sput p nd t)
  | .mv src dst, t => mapOut (fun _ => .unit) (smv src dst t)
  | .rm p, t => mapOut (fun _ => .unit) (srm p t)
  | .chmod p mode, t => mapOut (fun _ => .unit) (N.atPath p (sSetMeta fun m => { m with mode := mode }) t)
  | .touch p mt, t => mapOut (fun _ => .unit) (N.atPath p (sSetMeta fun m => { m with mtime := mt }) t)
  | .write p off b _, t => mapOut (fun _ => .unit) (N.atPath p (sWrite (writeAt off b)) t)
  | .trunc p size _, t => mapOut (fun _ => .unit) (N.atPath p (sWrite (truncTo size)) t)
  | .read p, t => mapOut .bytes (N.atPath p sRead t)
  | .flush p, t => mapOut (fun _ => .unit) (N.atPath p sFlush t)
  | .stat p, t => mapOut .stat (N.atPath p sStat t)
  | .ls p, t => mapOut .names (N.atPath p sLs t)
  | .lsl p, t => mapOut .listing (N.atPath p sLsl t)
  | .dmkdir p k, t => mapOut (fun _ => .unit) (N.atPath p (smkdirRec false {} [k]) t)
  | .rflush, t => .ok (.unit, t)
  | .memfree, t => .ok (.unit, t)
  | .reopen, t => .ok (.unit, t)

/-- the specification machine: a failed op leaves the tree as it was -/
def sstep (t : N) (op : Op) : N × Except Err Out :=
  match specOp op t with
  | .ok (o, t') => (t', .ok o)
  | .error e => (t, .error e)

def srun : N → List Op → N × List (Except Err Out)
  | t, [] => (t, [])
  | t, op :: ops =>
    let r := sstep t op
    let r' := srun r.1 ops
    (r'.1, r.2 :: r'.2)

/-! ### reading the tree by path -/

/-- the node at a path -/
def N.get : List Name → N → Except Err N
  | [], t => .ok t
  | _ :: _, .file .. => .error .notdir
  | k :: ks, .dir _ kids =>
    match kids.find k with
    | none => .error .notfound
    | some c => N.get ks c

end C19
