import BoxoModel.Lib.BaseN
import BoxoModel.Lib.AMap
/-
C40 — keystore/keystore.go (FSKeystore) and keystore/memkeystore.go (MemKeystore): executable model.

Models the code WITH the fix "keystore: Delete of a missing key returns ErrNoSuchKey in both
implementations" (before it, FSKeystore.Delete returned the raw *PathError of os.Remove and
MemKeystore.Delete returned nil — the two implementations disagreed).

File system: a minimal flat model local to this property — regular files by full path, foreign
objects (symbolic links, directories, files the keystore did not write) by full path, the system
calls the keystore uses (`stat`, `open O_CREATE|O_EXCL`, `ReadFile`, `Remove`, `Readdirnames`), a
per-component name length limit (`limit`, NAME_MAX = 255 on the tie's file system) and a ghost trace
`touched` of every path handed to a system call (for the confinement theorem).
  * `encode name = "key_" ++ lower(base32-nopad(name))`, rejected when `name = ""`
  * `decode fname`: needs prefix "key_", upper-cases the rest, base32-decodes (failure ⇒ entry skipped)
  * `Has` = stat, `Put` = exclusive create + write, `Get` = ReadFile, `Delete` = Remove, `List` =
    Readdirnames + decode; `filepath.Join(dir, encoded)` = dir ++ "/" ++ encoded (dir clean, not "/")
Keys are opaque byte strings (the marshalled private key); `UnmarshalPrivateKey` of what `Put` wrote
is not modelled (it is the identity on the tie's keys).
Core-only.
-/
namespace C40
open BaseN

abbrev Path := List Char

inductive FsErr where
  | notExist
  | exist
  | nameTooLong
  | other              -- EISDIR, ELOOP, …
deriving Repr, DecidableEq

/-- objects the keystore did not create (planted in the directory, or living outside it) -/
inductive Foreign where
  | symlink (target : Path)
  | dir
  | file (data : Bytes) (keyOk : Bool)     -- `keyOk`: `UnmarshalPrivateKey data` succeeds (observed)
deriving Repr, DecidableEq

structure FS where
  /-- regular files created by the keystore: full path ↦ content -/
  files : AMap.Map Path Bytes := []
  /-- foreign objects by full path (never at a path that `files` holds) -/
  foreign : AMap.Map Path Foreign := []
  /-- ghost: every path passed to a system call, most recent first -/
  touched : List Path := []
deriving Repr

/-- last path component -/
def lastComp (p : Path) : Path := (p.reverse.takeWhile (· ≠ '/')).reverse

namespace FS
def touch (fs : FS) (p : Path) : FS := { fs with touched := p :: fs.touched }

/-- the directory entry at `p` (lstat view) -/
def entry (fs : FS) (p : Path) : Option Foreign :=
  match AMap.find fs.foreign p with
  | some f => some f
  | none => (AMap.find fs.files p).map fun d => .file d true

/-- `os.Stat`: follows a symbolic link (one level; planted links point at plain files or nothing) -/
def stat (fs : FS) (limit : Nat) (p : Path) : FS × Except FsErr Unit :=
  let fs := fs.touch p
  if (lastComp p).length > limit then (fs, .error .nameTooLong)
  else match fs.entry p with
    | none => (fs, .error .notExist)
    | some (.symlink t) => if (fs.entry t).isSome then (fs, .ok ()) else (fs, .error .notExist)
    | some _ => (fs, .ok ())

/-- `os.OpenFile(p, O_CREATE|O_EXCL|O_WRONLY, 0o400)` followed by one `Write` of `data`: fails with
EEXIST on ANY existing directory entry — a symbolic link included, dangling or not -/
def createExcl (fs : FS) (limit : Nat) (p : Path) (data : Bytes) : FS × Except FsErr Unit :=
  let fs := fs.touch p
  if (lastComp p).length > limit then (fs, .error .nameTooLong)
  else match fs.entry p with
    | some _ => (fs, .error .exist)
    | none => ({ fs with files := AMap.insert fs.files p data }, .ok ())

/-- `os.ReadFile`: follows a symbolic link; content and whether it unmarshals as a private key -/
def readFile (fs : FS) (limit : Nat) (p : Path) : FS × Except FsErr (Bytes × Bool) :=
  let fs := fs.touch p
  if (lastComp p).length > limit then (fs, .error .nameTooLong)
  else match fs.entry p with
    | none => (fs, .error .notExist)
    | some (.file d ok) => (fs, .ok (d, ok))
    | some .dir => (fs, .error .other)
    | some (.symlink t) =>
      match fs.entry t with
      | none => (fs, .error .notExist)
      | some (.file d ok) => (fs, .ok (d, ok))
      | some _ => (fs, .error .other)

/-- `os.Remove`: removes the entry itself (a link, not its target; an empty directory too) -/
def remove (fs : FS) (limit : Nat) (p : Path) : FS × Except FsErr Unit :=
  let fs := fs.touch p
  if (lastComp p).length > limit then (fs, .error .nameTooLong)
  else match fs.entry p with
    | some _ => ({ fs with files := AMap.erase fs.files p, foreign := AMap.erase fs.foreign p }, .ok ())
    | none => (fs, .error .notExist)

/-- name of `p` inside directory `dir`, when `p` is directly inside it -/
def childName (dir p : Path) : Option Path :=
  if (dir ++ ['/']).isPrefixOf p then
    let c := p.drop (dir.length + 1)
    if '/' ∈ c ∨ c = [] then none else some c
  else none

def readdirnames (fs : FS) (dir : Path) : FS × List Path :=
  (fs.touch dir, (AMap.keys fs.files ++ AMap.keys fs.foreign).filterMap (childName dir))

/-- harness-only: plant a foreign object at `p` unless something is already there -/
def plant (fs : FS) (p : Path) (f : Foreign) : FS × Bool :=
  if (fs.entry p).isSome then (fs, false) else ({ fs with foreign := AMap.insert fs.foreign p f }, true)
end FS

/-! ### keystore.go -/

def keyPrefix : Path := "key_".toList

/-- `encode` -/
def encodeName (name : Bytes) : Option Path :=
  if name = [] then none
  else some (keyPrefix ++ (encode b32s name).map Char.toLower)

/-- `codec.DecodeString` of Go's `encoding/base32` without padding, on arbitrary input: any character
outside the alphabet is an error; a trailing group of 3 or 6 characters yields no bytes at all (the
`switch dlen` has no case for them), other leftover bits are ignored -/
def decodeStd32 (s : Path) : Option Bytes :=
  let j := s.length % 8
  match mapOpt b32s.decDigit s with
  | none => none
  | some _ => if j = 3 ∨ j = 6 then decode b32s (s.take (s.length - j)) else decode b32s s

/-- `decode` -/
def decodeName (fname : Path) : Option Bytes :=
  if keyPrefix.isPrefixOf fname then decodeStd32 ((fname.drop keyPrefix.length).map Char.toUpper)
  else none

/-- `filepath.Join(ks.dir, name)` -/
def join (dir name : Path) : Path := dir ++ '/' :: name

inductive Op where
  | has (name : Bytes)
  | put (name key : Bytes)
  | get (name : Bytes)
  | delete (name : Bytes)
  | list
deriving Repr

inductive Out where
  | ok
  | bool (b : Bool)
  | key (k : Bytes)
  | names (l : List Bytes)
  | invalid          -- "key name must be at least one character"
  | exists           -- ErrKeyExists
  | noSuchKey        -- ErrNoSuchKey
  | error            -- any other (OS) error
deriving Repr, DecidableEq

structure Cfg where
  dir : Path
  limit : Nat

def fsStep (cfg : Cfg) (fs : FS) : Op → FS × Out
  | .has name =>
    match encodeName name with
    | none => (fs, .invalid)
    | some n =>
      match fs.stat cfg.limit (join cfg.dir n) with
      | (fs, .ok _) => (fs, .bool true)
      | (fs, .error .notExist) => (fs, .bool false)
      | (fs, .error _) => (fs, .error)
  | .put name key =>
    match encodeName name with
    | none => (fs, .invalid)
    | some n =>
      match fs.createExcl cfg.limit (join cfg.dir n) key with
      | (fs, .ok _) => (fs, .ok)
      | (fs, .error .exist) => (fs, .exists)
      | (fs, .error _) => (fs, .error)
  | .get name =>
    match encodeName name with
    | none => (fs, .invalid)
    | some n =>
      match fs.readFile cfg.limit (join cfg.dir n) with
      | (fs, .ok (d, true)) => (fs, .key d)
      | (fs, .ok (_, false)) => (fs, .error)              -- "cannot deserialize private key file"
      | (fs, .error .notExist) => (fs, .noSuchKey)
      | (fs, .error _) => (fs, .error)
  | .delete name =>
    match encodeName name with
    | none => (fs, .invalid)
    | some n =>
      match fs.remove cfg.limit (join cfg.dir n) with
      | (fs, .ok _) => (fs, .ok)
      | (fs, .error .notExist) => (fs, .noSuchKey)       -- the fix
      | (fs, .error _) => (fs, .error)
  | .list =>
    let r := fs.readdirnames cfg.dir
    (r.1, .names (r.2.filterMap decodeName))

/-- `Put` of a key that `ci.MarshalPrivateKey` rejects (sealed / non-exportable key material): the name
check comes first, the marshal error is returned before any file-system access — nothing changes -/
def fsPutUnmarshalable (fs : FS) (name : Bytes) : FS × Out :=
  match encodeName name with
  | none => (fs, .invalid)
  | some _ => (fs, .error)

/-! ### memkeystore.go -/

abbrev Mem := AMap.Map Bytes Bytes

def memStep (m : Mem) : Op → Mem × Out
  | .has name => (m, .bool (AMap.find m name).isSome)
  | .put name key =>
    if name = [] then (m, .invalid)
    else match AMap.find m name with
      | some _ => (m, .exists)
      | none => (AMap.insert m name key, .ok)
  | .get name =>
    match AMap.find m name with
    | some k => (m, .key k)
    | none => (m, .noSuchKey)
  | .delete name =>
    match AMap.find m name with
    | some _ => (AMap.erase m name, .ok)
    | none => (m, .noSuchKey)                             -- the fix
  | .list => (m, .names (AMap.keys m))

def fsRun (cfg : Cfg) (fs : FS) : List Op → FS × List Out
  | [] => (fs, [])
  | op :: ops =>
    let r := fsStep cfg fs op
    let r' := fsRun cfg r.1 ops
    (r'.1, r.2 :: r'.2)

def memRun (m : Mem) : List Op → Mem × List Out
  | [] => (m, [])
  | op :: ops =>
    let r := memStep m op
    let r' := memRun r.1 ops
    (r'.1, r.2 :: r'.2)

end C40
