import BoxoModel.C40.Model
/-! C40 helper lemmas: file-name encoding facts, the FS/Mem simulation step, the confinement
invariant. -/
namespace C40
open BaseN

/-! ### generic -/

theorem takeWhile_ne_append {α : Type} [DecidableEq α] (sep : α) (a b : List α) (ha : sep ∉ a) :
    (a ++ sep :: b).takeWhile (· ≠ sep) = a := by
  induction a with
  | nil => simp
  | cons x xs ih =>
    have hx : x ≠ sep := fun e => ha (by simp [e])
    rw [List.cons_append, List.takeWhile_cons_of_pos (by simpa using hx), ih (fun hm => ha (by simp [hm]))]

theorem isPrefixOf_append_self (a b : Path) : a.isPrefixOf (a ++ b) = true := by
  rw [List.isPrefixOf_iff_prefix]; exact List.prefix_append a b

/-! ### encoded file names -/

/-- the file name of a (non-empty) key name -/
def encName (name : Bytes) : Path := keyPrefix ++ (encode b32s name).map Char.toLower

/-- the names the property quantifies over: non-empty, encoded file name within the limit -/
def ValidName (cfg : Cfg) (name : Bytes) : Prop := name ≠ [] ∧ (encName name).length ≤ cfg.limit

theorem encodeName_eq (name : Bytes) (h : name ≠ []) : encodeName name = some (encName name) := by
  simp [encodeName, encName, h]

theorem lower_alphabet_no_slash : ∀ c ∈ b32Alphabet, c.toLower ≠ '/' := by decide

theorem encName_no_slash (name : Bytes) : '/' ∉ encName name := by
  intro h
  simp only [encName, List.mem_append, List.mem_map] at h
  rcases h with h | ⟨c, hc, e⟩
  · exact absurd h (by decide)
  · exact lower_alphabet_no_slash c (encode_mem_alphabet b32s b32s_wf name c hc) e

theorem encName_ne_nil (name : Bytes) : encName name ≠ [] := by simp [encName, keyPrefix]

theorem encName_prefix (name : Bytes) : keyPrefix.isPrefixOf (encName name) = true :=
  isPrefixOf_append_self _ _

theorem encName_injective (a b : Bytes) (h : encName a = encName b) : a = b := by
  have h' := List.append_cancel_left h
  have := congrArg (List.map Char.toUpper) h'
  rw [b32_upper_lower, b32_upper_lower] at this
  exact encode_injective b32s b32s_wf a b this

/-- on encoder output Go's decoder (`decodeStd32`) agrees with the bit-level decoder: the encoded
length is never 3 or 6 modulo 8 -/
theorem decodeStd32_encode (name : Bytes) : decodeStd32 (encode b32s name) = some name := by
  have hd := decode_encode b32s b32s_wf name
  have hl := b32s_length name
  unfold decodeStd32
  cases hm : mapOpt b32s.decDigit (encode b32s name) with
  | none => simp [decode, hm] at hd
  | some ds =>
    have h3 : ¬ ((encode b32s name).length % 8 = 3 ∨ (encode b32s name).length % 8 = 6) := by
      rw [hl]; omega
    simp only [h3, if_false]
    exact hd

theorem decodeName_encName (name : Bytes) : decodeName (encName name) = some name := by
  unfold decodeName
  rw [encName_prefix]
  simp only [if_true, encName, List.drop_left, b32_upper_lower, decodeStd32_encode]

/-- a key file name is never "." or ".." and has no path separator -/
theorem encName_component (name : Bytes) :
    '/' ∉ encName name ∧ encName name ≠ ['.'] ∧ encName name ≠ ['.', '.'] ∧ encName name ≠ [] := by
  refine ⟨encName_no_slash name, ?_, ?_, encName_ne_nil name⟩ <;>
    · intro h
      have := congrArg List.head? h
      simp [encName, keyPrefix] at this

/-! ### paths -/

def fpath (cfg : Cfg) (name : Bytes) : Path := join cfg.dir (encName name)

theorem fpath_injective (cfg : Cfg) (a b : Bytes) (h : fpath cfg a = fpath cfg b) : a = b := by
  simp only [fpath, join] at h
  have := List.append_cancel_left h
  simp only [List.cons.injEq, true_and] at this
  exact encName_injective a b this

theorem lastComp_join (dir comp : Path) (h : '/' ∉ comp) : lastComp (join dir comp) = comp := by
  have : (join dir comp).reverse = comp.reverse ++ '/' :: dir.reverse := by simp [join]
  rw [lastComp, this, takeWhile_ne_append]
  · simp
  · simpa using h

theorem lastComp_fpath (cfg : Cfg) (name : Bytes) : lastComp (fpath cfg name) = encName name :=
  lastComp_join _ _ (encName_no_slash name)

theorem childName_fpath (cfg : Cfg) (name : Bytes) : FS.childName cfg.dir (fpath cfg name) = some (encName name) := by
  have e : fpath cfg name = (cfg.dir ++ ['/']) ++ encName name := by simp [fpath, join]
  unfold FS.childName
  rw [e, isPrefixOf_append_self]
  have hl : (cfg.dir ++ ['/']).length = cfg.dir.length + 1 := by simp
  simp only [if_true, ← hl, List.drop_left]
  simp [encName_no_slash, encName_ne_nil]

/-! ### simulation FS ~ Mem -/

/-- the keystore directory holds exactly one file per key of the in-memory map, named by `encName`,
with the key bytes as content; all names are within the property's quantifier -/
def Sim (cfg : Cfg) (fs : FS) (m : Mem) : Prop :=
  (fs.files = AMap.mapKey (fpath cfg) m ∧ fs.foreign = []) ∧ ∀ n ∈ AMap.keys m, ValidName cfg n

def Op.name? : Op → Option Bytes
  | .has n => some n
  | .put n _ => some n
  | .get n => some n
  | .delete n => some n
  | .list => none

def ValidOp (cfg : Cfg) (op : Op) : Prop := ∀ n, op.name? = some n → ValidName cfg n

theorem find_files (cfg : Cfg) (fs : FS) (m : Mem) (h : Sim cfg fs m) (n : Bytes) :
    AMap.find fs.files (fpath cfg n) = AMap.find m n := by
  rw [h.1.1]; exact AMap.find_mapKey _ (fpath_injective cfg) m n

/-- in a directory that holds only the keystore's own files, the entry under a key's file name is the
key file of the map -/
theorem entry_files (cfg : Cfg) (fs : FS) (m : Mem) (h : Sim cfg fs m) (n : Bytes) :
    fs.entry (join cfg.dir (encName n)) = (AMap.find m n).map fun d => Foreign.file d true := by
  have := find_files cfg fs m h n
  simp only [fpath] at this
  simp [FS.entry, h.1.2, this]

theorem entry_touch (fs : FS) (p q : Path) : (fs.touch p).entry q = fs.entry q := rfl

theorem not_too_long (cfg : Cfg) (n : Bytes) (h : ValidName cfg n) :
    ¬ (lastComp (join cfg.dir (encName n))).length > cfg.limit := by
  have := lastComp_fpath cfg n
  simp only [fpath] at this
  rw [this]; exact Nat.not_lt.mpr h.2

theorem list_sim (cfg : Cfg) (m : Mem) :
    ((AMap.keys (AMap.mapKey (fpath cfg) m) ++ AMap.keys ([] : AMap.Map Path Foreign)).filterMap
        (FS.childName cfg.dir)).filterMap decodeName = AMap.keys m := by
  rw [AMap.keys_mapKey]
  simp only [AMap.keys, List.map_nil, List.append_nil]
  show ((List.map (fpath cfg) (AMap.keys m)).filterMap (FS.childName cfg.dir)).filterMap decodeName = AMap.keys m
  generalize AMap.keys m = ks
  induction ks with
  | nil => rfl
  | cons k ks ih =>
    simp only [List.map_cons, List.filterMap_cons, childName_fpath, decodeName_encName, ih]

theorem step_sim (cfg : Cfg) (fs : FS) (m : Mem) (op : Op) (hs : Sim cfg fs m) (hv : ValidOp cfg op) :
    (fsStep cfg fs op).2 = (memStep m op).2 ∧ Sim cfg (fsStep cfg fs op).1 (memStep m op).1 := by
  have hsim_touch : ∀ p, Sim cfg (fs.touch p) m := fun p => ⟨⟨hs.1.1, hs.1.2⟩, hs.2⟩
  cases op with
  | has n =>
    have hn : ValidName cfg n := hv n rfl
    have he := entry_files cfg fs m hs n
    simp only [fsStep, memStep, encodeName_eq n hn.1, FS.stat, entry_touch, not_too_long cfg n hn, if_false, he]
    cases AMap.find m n with
    | none => exact ⟨rfl, hsim_touch _⟩
    | some k => exact ⟨rfl, hsim_touch _⟩
  | put n key =>
    have hn : ValidName cfg n := hv n rfl
    have he := entry_files cfg fs m hs n
    simp only [fsStep, memStep, encodeName_eq n hn.1, FS.createExcl, entry_touch, not_too_long cfg n hn,
      if_false, he, hn.1]
    cases hfm : AMap.find m n with
    | some k => exact ⟨rfl, hsim_touch _⟩
    | none =>
      refine ⟨rfl, ⟨?_, hs.1.2⟩, ?_⟩
      · show AMap.insert fs.files (join cfg.dir (encName n)) key = _
        rw [hs.1.1]
        exact AMap.insert_mapKey (fpath cfg) (fpath_injective cfg) m n key
      · intro n' hn'
        rcases (AMap.mem_keys_insert m n n' key).mp hn' with e | h'
        · rw [e]; exact hn
        · exact hs.2 n' h'
  | get n =>
    have hn : ValidName cfg n := hv n rfl
    have he := entry_files cfg fs m hs n
    simp only [fsStep, memStep, encodeName_eq n hn.1, FS.readFile, entry_touch, not_too_long cfg n hn, if_false, he]
    cases AMap.find m n with
    | none => exact ⟨rfl, hsim_touch _⟩
    | some k => exact ⟨rfl, hsim_touch _⟩
  | delete n =>
    have hn : ValidName cfg n := hv n rfl
    have he := entry_files cfg fs m hs n
    simp only [fsStep, memStep, encodeName_eq n hn.1, FS.remove, entry_touch, not_too_long cfg n hn, if_false, he]
    cases hfm : AMap.find m n with
    | none => exact ⟨rfl, hsim_touch _⟩
    | some k =>
      refine ⟨rfl, ⟨?_, ?_⟩, ?_⟩
      · show AMap.erase fs.files (join cfg.dir (encName n)) = _
        rw [hs.1.1]
        exact AMap.erase_mapKey (fpath cfg) (fpath_injective cfg) m n
      · show AMap.erase fs.foreign (join cfg.dir (encName n)) = []
        rw [hs.1.2]; rfl
      · intro n' hn'
        exact hs.2 n' ((AMap.mem_keys_erase m n n').mp hn').2
  | list =>
    simp only [fsStep, memStep, FS.readdirnames]
    refine ⟨?_, hsim_touch _⟩
    rw [hs.1.1, hs.1.2, list_sim]

theorem run_sim (cfg : Cfg) (fs : FS) (m : Mem) (ops : List Op) (hs : Sim cfg fs m)
    (hv : ∀ op ∈ ops, ValidOp cfg op) :
    (fsRun cfg fs ops).2 = (memRun m ops).2 ∧ Sim cfg (fsRun cfg fs ops).1 (memRun m ops).1 := by
  induction ops generalizing fs m with
  | nil => exact ⟨rfl, hs⟩
  | cons op ops ih =>
    obtain ⟨h1, h2⟩ := step_sim cfg fs m op hs (hv op (by simp))
    obtain ⟨i1, i2⟩ := ih _ _ h2 (fun op' h' => hv op' (by simp [h']))
    simp only [fsRun, memRun]
    exact ⟨by rw [h1, i1], i2⟩

theorem sim_empty (cfg : Cfg) : Sim cfg {} [] := ⟨⟨rfl, rfl⟩, by intro n hn; simp [AMap.keys] at hn⟩

/-! ### confinement -/

/-- a path the keystore may hand to the OS: its directory, or one plain component inside it -/
def Confined (cfg : Cfg) (p : Path) : Prop :=
  p = cfg.dir ∨ ∃ comp, p = join cfg.dir comp ∧ '/' ∉ comp ∧ comp ≠ [] ∧ comp ≠ ['.'] ∧ comp ≠ ['.', '.']

theorem confined_fpath (cfg : Cfg) (n : Bytes) : Confined cfg (join cfg.dir (encName n)) :=
  let c := encName_component n
  Or.inr ⟨encName n, rfl, c.1, c.2.2.2, c.2.1, c.2.2.1⟩

/-- the file-system state after a keystore operation is the state after its single system call -/
theorem fsStep_fst (cfg : Cfg) (fs : FS) (op : Op) :
    (fsStep cfg fs op).1 =
      match op with
      | .has n => match encodeName n with
        | none => fs
        | some e => (fs.stat cfg.limit (join cfg.dir e)).1
      | .put n k => match encodeName n with
        | none => fs
        | some e => (fs.createExcl cfg.limit (join cfg.dir e) k).1
      | .get n => match encodeName n with
        | none => fs
        | some e => (fs.readFile cfg.limit (join cfg.dir e)).1
      | .delete n => match encodeName n with
        | none => fs
        | some e => (fs.remove cfg.limit (join cfg.dir e)).1
      | .list => fs.touch cfg.dir := by
  cases op with
  | has n =>
    simp only [fsStep]
    cases encodeName n with
    | none => rfl
    | some e =>
      simp only
      generalize fs.stat cfg.limit (join cfg.dir e) = r
      rcases r with ⟨fs', e' | v⟩
      · cases e' <;> rfl
      · rfl
  | put n k =>
    simp only [fsStep]
    cases encodeName n with
    | none => rfl
    | some e =>
      simp only
      generalize fs.createExcl cfg.limit (join cfg.dir e) k = r
      rcases r with ⟨fs', e' | v⟩
      · cases e' <;> rfl
      · rfl
  | get n =>
    simp only [fsStep]
    cases encodeName n with
    | none => rfl
    | some e =>
      simp only
      generalize fs.readFile cfg.limit (join cfg.dir e) = r
      rcases r with ⟨fs', e' | ⟨d, b⟩⟩
      · cases e' <;> rfl
      · cases b <;> rfl
  | delete n =>
    simp only [fsStep]
    cases encodeName n with
    | none => rfl
    | some e =>
      simp only
      generalize fs.remove cfg.limit (join cfg.dir e) = r
      rcases r with ⟨fs', e' | v⟩
      · cases e' <;> rfl
      · rfl
  | list => rfl

theorem stat_fst (fs : FS) (limit : Nat) (p : Path) : (fs.stat limit p).1 = fs.touch p := by
  unfold FS.stat; dsimp only; split
  · rfl
  · split
    · rfl
    · split <;> rfl
    · rfl

theorem readFile_fst (fs : FS) (limit : Nat) (p : Path) : (fs.readFile limit p).1 = fs.touch p := by
  unfold FS.readFile; dsimp only; split
  · rfl
  · split
    · rfl
    · rfl
    · rfl
    · split <;> rfl

theorem createExcl_fst (fs : FS) (limit : Nat) (p : Path) (d : Bytes) :
    (fs.createExcl limit p d).1 = fs.touch p ∨
      ((fs.entry p = none) ∧
        (fs.createExcl limit p d).1 = { fs.touch p with files := AMap.insert fs.files p d }) := by
  unfold FS.createExcl; dsimp only; split
  · exact Or.inl rfl
  · split
    · exact Or.inl rfl
    · rename_i h; exact Or.inr ⟨h, rfl⟩

theorem remove_fst (fs : FS) (limit : Nat) (p : Path) :
    (fs.remove limit p).1 = fs.touch p ∨
      (fs.remove limit p).1 =
        { fs.touch p with files := AMap.erase fs.files p, foreign := AMap.erase fs.foreign p } := by
  unfold FS.remove; dsimp only; split
  · exact Or.inl rfl
  · split
    · exact Or.inr rfl
    · exact Or.inl rfl

/-- every operation touches at most one path: the directory (List) or the key's file; it creates a
file only where there was no entry of any kind, and never adds a foreign object -/
theorem step_effect (cfg : Cfg) (fs : FS) (op : Op) :
    (fsStep cfg fs op).1 = fs ∨
    ∃ p, Confined cfg p ∧ (fsStep cfg fs op).1.touched = p :: fs.touched ∧
      (((fsStep cfg fs op).1.files = fs.files ∧ (fsStep cfg fs op).1.foreign = fs.foreign) ∨
       (∃ d, fs.entry p = none ∧ (fsStep cfg fs op).1.files = AMap.insert fs.files p d ∧
          (fsStep cfg fs op).1.foreign = fs.foreign) ∨
       ((fsStep cfg fs op).1.files = AMap.erase fs.files p ∧
          (fsStep cfg fs op).1.foreign = AMap.erase fs.foreign p)) := by
  rw [fsStep_fst]
  have enc : ∀ n e, encodeName n = some e → Confined cfg (join cfg.dir e) := by
    intro n e h
    by_cases hn : n = []
    · simp [encodeName, hn] at h
    · rw [encodeName_eq n hn] at h; cases h; exact confined_fpath cfg n
  cases op with
  | has n =>
    cases he : encodeName n with
    | none => left; simp only [he]
    | some e =>
      right; simp only [he, stat_fst]
      exact ⟨_, enc n e he, rfl, Or.inl ⟨rfl, rfl⟩⟩
  | get n =>
    cases he : encodeName n with
    | none => left; simp only [he]
    | some e =>
      right; simp only [he, readFile_fst]
      exact ⟨_, enc n e he, rfl, Or.inl ⟨rfl, rfl⟩⟩
  | put n k =>
    cases he : encodeName n with
    | none => left; simp only [he]
    | some e =>
      right; simp only [he]
      rcases createExcl_fst fs cfg.limit (join cfg.dir e) k with h | ⟨hn, h⟩
      · exact ⟨_, enc n e he, by rw [h]; rfl, Or.inl ⟨by rw [h]; rfl, by rw [h]; rfl⟩⟩
      · exact ⟨_, enc n e he, by rw [h]; rfl, Or.inr (Or.inl ⟨k, hn, by rw [h], by rw [h]; rfl⟩)⟩
  | delete n =>
    cases he : encodeName n with
    | none => left; simp only [he]
    | some e =>
      right; simp only [he]
      rcases remove_fst fs cfg.limit (join cfg.dir e) with h | h
      · exact ⟨_, enc n e he, by rw [h]; rfl, Or.inl ⟨by rw [h]; rfl, by rw [h]; rfl⟩⟩
      · exact ⟨_, enc n e he, by rw [h]; rfl, Or.inr (Or.inr ⟨by rw [h], by rw [h]⟩)⟩
  | list => exact Or.inr ⟨cfg.dir, Or.inl rfl, rfl, Or.inl ⟨rfl, rfl⟩⟩

theorem touched_step (cfg : Cfg) (fs : FS) (op : Op) (h : ∀ p ∈ fs.touched, Confined cfg p) :
    ∀ p ∈ (fsStep cfg fs op).1.touched, Confined cfg p := by
  rcases step_effect cfg fs op with e | ⟨p0, hc, ht, _⟩
  · rw [e]; exact h
  · intro p hp
    rw [ht] at hp
    rcases List.mem_cons.mp hp with rfl | hp
    · exact hc
    · exact h p hp

theorem touched_run (cfg : Cfg) (fs : FS) (ops : List Op) (h : ∀ p ∈ fs.touched, Confined cfg p) :
    ∀ p ∈ (fsRun cfg fs ops).1.touched, Confined cfg p := by
  induction ops generalizing fs with
  | nil => exact h
  | cons op ops ih => simp only [fsRun]; exact ih _ (touched_step cfg fs op h)

/-- files are only ever created at confined paths, whatever the directory contained -/
theorem files_step (cfg : Cfg) (fs : FS) (op : Op) :
    ∀ p ∈ AMap.keys (fsStep cfg fs op).1.files, p ∈ AMap.keys fs.files ∨ Confined cfg p := by
  rcases step_effect cfg fs op with e | ⟨p0, hc, _, ⟨hf, _⟩ | ⟨d, _, hf, _⟩ | ⟨hf, _⟩⟩
  · rw [e]; exact fun p hp => Or.inl hp
  · rw [hf]; exact fun p hp => Or.inl hp
  · intro p hp
    rw [hf] at hp
    rcases (AMap.mem_keys_insert _ _ _ _).mp hp with e | hp
    · rw [e]; exact Or.inr hc
    · exact Or.inl hp
  · intro p hp
    rw [hf] at hp
    exact Or.inl ((AMap.mem_keys_erase _ _ _).mp hp).2

theorem files_run (cfg : Cfg) (fs : FS) (ops : List Op) :
    ∀ p ∈ AMap.keys (fsRun cfg fs ops).1.files, p ∈ AMap.keys fs.files ∨ Confined cfg p := by
  induction ops generalizing fs with
  | nil => exact fun p hp => Or.inl hp
  | cons op ops ih =>
    intro p hp
    simp only [fsRun] at hp
    rcases ih _ p hp with h | h
    · exact files_step cfg fs op p h
    · exact Or.inr h

/-- the keystore never adds a foreign object (symbolic link, directory, …) anywhere -/
theorem foreign_step (cfg : Cfg) (fs : FS) (op : Op) :
    ∀ p ∈ AMap.keys (fsStep cfg fs op).1.foreign, p ∈ AMap.keys fs.foreign := by
  rcases step_effect cfg fs op with e | ⟨p0, _, _, ⟨_, hf⟩ | ⟨d, _, _, hf⟩ | ⟨_, hf⟩⟩
  · rw [e]; exact fun p hp => hp
  · rw [hf]; exact fun p hp => hp
  · rw [hf]; exact fun p hp => hp
  · intro p hp
    rw [hf] at hp
    exact ((AMap.mem_keys_erase _ _ _).mp hp).2

theorem foreign_run (cfg : Cfg) (fs : FS) (ops : List Op) :
    ∀ p ∈ AMap.keys (fsRun cfg fs ops).1.foreign, p ∈ AMap.keys fs.foreign := by
  induction ops generalizing fs with
  | nil => exact fun p hp => hp
  | cons op ops ih =>
    intro p hp
    simp only [fsRun] at hp
    exact foreign_step cfg fs op p (ih _ p hp)

/-- `Put` refuses ANY existing directory entry under the key's file name — a dangling symbolic link
included — and then changes nothing -/
theorem put_refuses_entry (cfg : Cfg) (fs : FS) (n key : Bytes) (hn : ValidName cfg n)
    (he : (fs.entry (join cfg.dir (encName n))).isSome = true) :
    (fsStep cfg fs (.put n key)).2 = .exists ∧ (fsStep cfg fs (.put n key)).1.files = fs.files ∧
      (fsStep cfg fs (.put n key)).1.foreign = fs.foreign := by
  cases hent : fs.entry (join cfg.dir (encName n)) with
  | none => simp [hent] at he
  | some f =>
    simp only [fsStep, encodeName_eq n hn.1, FS.createExcl, entry_touch, not_too_long cfg n hn, if_false, hent]
    exact ⟨trivial, rfl, rfl⟩

/-- after a successful `Put` the entry under the key's file name is the key file just written -/
theorem entry_after_put (cfg : Cfg) (fs : FS) (n key : Bytes) (hn : ValidName cfg n)
    (hok : (fsStep cfg fs (.put n key)).2 = .ok) :
    (fsStep cfg fs (.put n key)).1.entry (join cfg.dir (encName n)) = some (.file key true) := by
  simp only [fsStep, encodeName_eq n hn.1, FS.createExcl, entry_touch, not_too_long cfg n hn, if_false] at hok ⊢
  cases hent : fs.entry (join cfg.dir (encName n)) with
  | some f => simp [hent] at hok
  | none =>
    simp only [hent]
    have hfor : AMap.find fs.foreign (join cfg.dir (encName n)) = none := by
      unfold FS.entry at hent
      cases hf : AMap.find fs.foreign (join cfg.dir (encName n)) with
      | none => rfl
      | some f => simp [hf] at hent
    simp [FS.entry, FS.touch, hfor, AMap.find_insert_self]

end C40
