import BoxoModel.C21.Model
/-!
C21 — inductive invariants of the Republisher event model (every interleaving, every failure pattern).
Part 1: the scalar invariant (`SInv`): ordering of stamps through slot → toPublish → publish log,
timers / waiter bookkeeping of the run loop.
-/
namespace C21

def logMax (l : List (Val × Bool)) : Nat := l.foldl (fun m x => max m x.1.stamp) 0

theorem logMax_append (l : List (Val × Bool)) (x : Val × Bool) : logMax (l ++ [x]) = max (logMax l) x.1.stamp := by
  simp [logMax, List.foldl_append]

theorem le_logMax {l : List (Val × Bool)} {x : Val × Bool} (h : x ∈ l) : x.1.stamp ≤ logMax l := by
  have gen : ∀ (l : List (Val × Bool)) (m : Nat), m ≤ l.foldl (fun m x => max m x.1.stamp) m ∧
      ∀ x ∈ l, x.1.stamp ≤ l.foldl (fun m x => max m x.1.stamp) m := by
    intro l
    induction l with
    | nil => intro m; simp
    | cons y ys ih =>
      intro m
      obtain ⟨h1, h2⟩ := ih (max m y.1.stamp)
      refine ⟨by simp only [List.foldl_cons]; omega, ?_⟩
      intro x hx
      simp only [List.foldl_cons]
      rcases List.mem_cons.1 hx with rfl | hx
      · omega
      · exact h2 x hx
  exact (gen l 0).2 x h

/-- stamps of the log are non-decreasing -/
def logSorted (l : List (Val × Bool)) : Prop := l.Pairwise (fun a b => a.1.stamp ≤ b.1.stamp)

theorem logSorted_append {l : List (Val × Bool)} {x : Val × Bool} (h : logSorted l) (hx : logMax l ≤ x.1.stamp) :
    logSorted (l ++ [x]) := by
  unfold logSorted at *
  rw [List.pairwise_append]
  refine ⟨h, by simp, ?_⟩
  intro a ha b hb
  simp at hb; subst hb
  exact Nat.le_trans (le_logMax ha) hx

/-- ordering of stamps: slot (newest) > toPublish ≥ everything logged -/
structure CInv (s : St) : Prop where
  slotClock : ∀ u, s.slot = some u → u.stamp = s.clock
  toPubClock : ∀ v, s.toPub = some v → v.stamp ≤ s.clock ∧ (s.slot ≠ none → v.stamp < s.clock)
  logClock : logMax s.log ≤ s.clock ∧ (s.slot ≠ none → logMax s.log < s.clock)
  logToPub : ∀ v, s.toPub = some v → logMax s.log ≤ v.stamp
  sorted : logSorted s.log
  pubLog : s.pubStamp ≤ logMax s.log
  skipClock : s.skipStamp ≤ s.clock
  dup : ∀ v, s.toPub = some v → s.lastCid ≠ some v.cid

/-- bookkeeping of the run loop -/
structure LInv (s : St) : Prop where
  inPubSome : s.inPub = true → s.toPub ≠ none
  wake : s.stopped = false → s.inPub = false → s.toPub ≠ none → s.quick = true ∨ s.longer = true
  strand : s.stopped = false → s.imm = false → s.inPub = true ∨ (s.toPub ≠ none ∧ s.longer = true)
  immWaiter : s.imm = true → s.inPub = false → s.waiter = none

structure SInv (s : St) : Prop where
  core : CInv s
  loop : LInv s

theorem notify_scalar (s : St) :
    (notify s).slot = s.slot ∧ (notify s).toPub = s.toPub ∧ (notify s).lastCid = s.lastCid ∧
    (notify s).pubStamp = s.pubStamp ∧ (notify s).skipStamp = s.skipStamp ∧ (notify s).quick = s.quick ∧
    (notify s).longer = s.longer ∧ (notify s).imm = s.imm ∧ (notify s).inPub = s.inPub ∧
    (notify s).cancelled = s.cancelled ∧ (notify s).stopped = s.stopped ∧ (notify s).log = s.log ∧
    (notify s).clock = s.clock ∧ (notify s).time = s.time ∧ (notify s).upds = s.upds ∧ (notify s).waiter = none := by
  unfold notify
  split
  · split <;> simp
  · rename_i h; simp [h]

/-- CInv depends only on these fields -/
theorem CInv.congr {s s' : St} (h : CInv s) (h1 : s'.slot = s.slot) (h2 : s'.toPub = s.toPub) (h3 : s'.lastCid = s.lastCid)
    (h4 : s'.pubStamp = s.pubStamp) (h5 : s'.skipStamp = s.skipStamp) (h11 : s'.log = s.log)
    (h12 : s'.clock = s.clock) : CInv s' := by
  refine ⟨?_, ?_, ?_, ?_, ?_, ?_, ?_, ?_⟩
  · rw [h1, h12]; exact h.slotClock
  · rw [h1, h2, h12]; exact h.toPubClock
  · rw [h1, h11, h12]; exact h.logClock
  · rw [h2, h11]; exact h.logToPub
  · rw [h11]; exact h.sorted
  · rw [h4, h11]; exact h.pubLog
  · rw [h5, h12]; exact h.skipClock
  · rw [h2, h3]; exact h.dup

theorem LInv.congr {s s' : St} (h : LInv s) (h2 : s'.toPub = s.toPub) (h6 : s'.quick = s.quick) (h7 : s'.longer = s.longer)
    (h8 : s'.imm = s.imm) (h9 : s'.inPub = s.inPub) (h10 : s'.stopped = s.stopped)
    (h13 : s'.waiter = s.waiter ∨ s'.waiter = none) : LInv s' := by
  refine ⟨?_, ?_, ?_, ?_⟩
  · rw [h9, h2]; exact h.inPubSome
  · rw [h10, h9, h2, h6, h7]; exact h.wake
  · rw [h10, h8, h9, h2, h7]; exact h.strand
  · rw [h8, h9]; intro a b; rcases h13 with e | e
    · rw [e]; exact h.immWaiter a b
    · exact e

theorem afterSelect_none {x : St} (h : x.toPub = none) :
    afterSelect x = notify { x with quick := false, longer := false } := by
  unfold afterSelect; simp only [h]

theorem afterSelect_some {x : St} (h : x.toPub ≠ none) :
    afterSelect x = { x with quick := false, longer := false, inPub := true } := by
  unfold afterSelect
  cases ht : x.toPub with
  | none => exact absurd ht h
  | some v => simp only [ht]

/-- the code after the big select -/
theorem afterSelect_inv {x : St} (hc : CInv x) (hin : x.inPub = false) (himm : x.toPub = none → x.imm = true) :
    SInv (afterSelect x) := by
  by_cases ht : x.toPub = none
  · rw [afterSelect_none ht]
    obtain ⟨n1, n2, n3, n4, n5, n6, n7, n8, n9, _, n11, n12, n13, _, _, n16⟩ :=
      notify_scalar { x with quick := false, longer := false }
    refine ⟨hc.congr n1 n2 n3 n4 n5 n12 n13, ?_⟩
    refine ⟨?_, ?_, ?_, fun _ _ => n16⟩
    · rw [n9]; intro h; exact absurd (hin ▸ h) (by simp)
    · rw [n2]; intro _ _ h; exact absurd ht h
    · rw [n8]; intro _ h; exact absurd (himm ht ▸ h) (by simp)
  · rw [afterSelect_some ht]
    refine ⟨hc.congr rfl rfl rfl rfl rfl rfl rfl, ?_⟩
    exact ⟨fun _ => ht, fun _ h => by simp at h, fun _ _ => Or.inl rfl, fun _ h => by simp at h⟩

end C21
