import BoxoModel.C21.Lemmas5
/-!
C21 — progress: the run loop is never wedged.  From every state satisfying the invariant in which the
loop has not stopped, at most four loop events (pubDone ok, recvUpdate, a timer, pubDone ok) lead to a
state with an empty channel, nothing pending and no publish running.
-/
namespace C21

def isLoopEv : Ev → Bool
  | .recvUpdate | .timerQuick | .timerLonger | .pubDone _ => true
  | _ => false

/-- a successful return of the publish function -/
theorem prog_pubDone {s : St} (hS : SInv s) (hin : s.inPub = true) (hst : s.stopped = false) :
    ∃ s1, step s (.pubDone true) = some s1 ∧ s1.slot = s.slot ∧ s1.toPub = none ∧ s1.inPub = false ∧ s1.stopped = false := by
  have htp := hS.loop.inPubSome hin
  cases hv : s.toPub with
  | none => exact absurd hv htp
  | some v =>
    obtain ⟨n1, n2, _, _, _, _, _, _, n9, _, n11, _⟩ :=
      notify_scalar { s with time := s.time + 1, inPub := false, lastCid := some v.cid, pubStamp := v.stamp, toPub := none, imm := true, log := s.log ++ [(v, true)] }
    refine ⟨_, ?_, n1, n2, n9, by rw [n11]; exact hst⟩
    simp [step, hin, hst, hv]

/-- the loop takes the value out of the channel -/
theorem prog_recvUpdate {s : St} (hin : s.inPub = false) (hst : s.stopped = false) (v : Val) (hv : s.slot = some v) :
    ∃ s1, step s .recvUpdate = some s1 ∧ s1.slot = none ∧ s1.inPub = false ∧ s1.stopped = false ∧
      (s1.toPub = none ∨ (s1.toPub ≠ none ∧ s1.quick = true)) := by
  by_cases heq : (s.lastCid == some v.cid) = true
  · let x : St := { s with time := s.time + 1, slot := none, toPub := none, skipStamp := max s.skipStamp v.stamp, imm := true }
    have hx : step s .recvUpdate = some (afterSelect x) := by simp [step, idle, hin, hst, hv, heq, x]
    have hn : afterSelect x = notify { x with quick := false, longer := false } := afterSelect_none rfl
    obtain ⟨n1, n2, _, _, _, _, _, _, n9, _, n11, _⟩ := notify_scalar { x with quick := false, longer := false }
    refine ⟨_, hx, ?_, ?_, ?_, Or.inl ?_⟩
    · rw [hn, n1]
    · rw [hn, n9]; exact hin
    · rw [hn, n11]; exact hst
    · rw [hn, n2]
  · refine ⟨{ s with time := s.time + 1, slot := none, toPub := some v, quick := true, longer := s.longer || s.toPub.isNone },
      ?_, rfl, hin, hst, Or.inr ⟨by simp, rfl⟩⟩
    simp [step, idle, hin, hst, hv, heq]

/-- a pending value with an armed timer is handed to the publish function -/
theorem prog_timer {s : St} (hin : s.inPub = false) (hst : s.stopped = false) (htp : s.toPub ≠ none)
    (harm : s.quick = true ∨ s.longer = true) :
    ∃ ev s1, isLoopEv ev = true ∧ step s ev = some s1 ∧ s1.slot = s.slot ∧ s1.toPub = s.toPub ∧ s1.inPub = true ∧ s1.stopped = false := by
  have key : ∀ x : St, x.toPub = s.toPub → x.slot = s.slot → x.stopped = s.stopped →
      (afterSelect x).slot = s.slot ∧ (afterSelect x).toPub = s.toPub ∧ (afterSelect x).inPub = true ∧ (afterSelect x).stopped = false := by
    intro x h1 h2 h3
    rw [afterSelect_some (by rw [h1]; exact htp)]
    exact ⟨h2, h1, rfl, by show x.stopped = false; rw [h3]; exact hst⟩
  rcases harm with hq | hl
  · refine ⟨.timerQuick, afterSelect { s with time := s.time + 1 }, rfl, ?_, key _ rfl rfl rfl⟩
    simp [step, idle, hin, hst, hq]
  · refine ⟨.timerLonger, afterSelect { s with time := s.time + 1 }, rfl, ?_, key _ rfl rfl rfl⟩
    simp [step, idle, hin, hst, hl]

theorem run_append {s : St} {es fs : List Ev} {s1 : St} (h : Steps.run step s es = some s1) :
    Steps.run step s (es ++ fs) = Steps.run step s1 fs := by
  induction es generalizing s with
  | nil => simp [Steps.run] at h; subst h; rfl
  | cons e es ih =>
    simp only [List.cons_append, Steps.run] at h ⊢
    cases hs : step s e with
    | none => simp [hs] at h
    | some s2 => simp only [hs] at h ⊢; exact ih h

theorem run_SInv {s : St} {es : List Ev} {s1 : St} (hS : SInv s) (h : Steps.run step s es = some s1) : SInv s1 := by
  induction es generalizing s with
  | nil => simp [Steps.run] at h; subst h; exact hS
  | cons e es ih =>
    simp only [Steps.run] at h
    cases hs : step s e with
    | none => simp [hs] at h
    | some s2 => rw [hs] at h; exact ih (hS.step hs) h

/-- quiescent: nothing in the channel, nothing pending, no publish running -/
def quiet (s : St) : Prop := s.slot = none ∧ s.toPub = none ∧ s.inPub = false ∧ s.stopped = false

/-- from an idle state with an empty channel -/
theorem prog_from_idle_empty {s : St} (hS : SInv s) (hin : s.inPub = false) (hst : s.stopped = false) (hsl : s.slot = none) :
    ∃ evs s', evs.length ≤ 2 ∧ (∀ e ∈ evs, isLoopEv e = true) ∧ Steps.run step s evs = some s' ∧ quiet s' := by
  by_cases htp : s.toPub = none
  · exact ⟨[], s, by simp, by simp, rfl, hsl, htp, hin, hst⟩
  · obtain ⟨ev, s1, hev, h1, a1, a2, a3, a4⟩ := prog_timer hin hst htp (hS.loop.wake hst hin htp)
    obtain ⟨s2, h2, b1, b2, b3, b4⟩ := prog_pubDone (hS.step h1) a3 a4
    refine ⟨[ev, .pubDone true], s2, by simp, ?_, ?_, ?_⟩
    · intro e he; simp at he; rcases he with rfl | rfl
      · exact hev
      · rfl
    · simp [Steps.run, h1, h2]
    · exact ⟨by rw [b1, a1]; exact hsl, b2, b3, b4⟩

/-- from an idle state -/
theorem prog_from_idle {s : St} (hS : SInv s) (hin : s.inPub = false) (hst : s.stopped = false) :
    ∃ evs s', evs.length ≤ 3 ∧ (∀ e ∈ evs, isLoopEv e = true) ∧ Steps.run step s evs = some s' ∧ quiet s' := by
  cases hsl : s.slot with
  | none =>
    obtain ⟨evs, s', h1, h2, h3, h4⟩ := prog_from_idle_empty hS hin hst hsl
    exact ⟨evs, s', by omega, h2, h3, h4⟩
  | some v =>
    obtain ⟨s1, h1, a1, a2, a3, _⟩ := prog_recvUpdate hin hst v hsl
    obtain ⟨evs, s', b1, b2, b3, b4⟩ := prog_from_idle_empty (hS.step h1) a2 a3 a1
    refine ⟨.recvUpdate :: evs, s', by simp; omega, ?_, ?_, b4⟩
    · intro e he; rcases List.mem_cons.1 he with rfl | he
      · rfl
      · exact b2 e he
    · simp [Steps.run, h1, b3]

/-- **Progress**: the loop can always bring the republisher to a quiescent state in at most four of its
own events, none of which depends on any caller. -/
theorem prog_quiet {s : St} (hS : SInv s) (hst : s.stopped = false) :
    ∃ evs s', evs.length ≤ 4 ∧ (∀ e ∈ evs, isLoopEv e = true) ∧ Steps.run step s evs = some s' ∧ quiet s' := by
  cases hin : s.inPub with
  | false =>
    obtain ⟨evs, s', h1, h2, h3, h4⟩ := prog_from_idle hS hin hst
    exact ⟨evs, s', by omega, h2, h3, h4⟩
  | true =>
    obtain ⟨s1, h1, _, _, a3, a4⟩ := prog_pubDone hS hin hst
    obtain ⟨evs, s', b1, b2, b3, b4⟩ := prog_from_idle (hS.step h1) a3 a4
    refine ⟨.pubDone true :: evs, s', by simp; omega, ?_, ?_, b4⟩
    · intro e he; rcases List.mem_cons.1 he with rfl | he
      · rfl
      · exact b2 e he
    · simp [Steps.run, h1, b3]

end C21
