import BoxoModel.C21.Lemmas
/-! C21 — the scalar invariant is preserved by every event. -/
namespace C21

theorem SInv.init (last : Option Nat) : SInv { lastCid := last } := by
  refine ⟨⟨?_, ?_, ?_, ?_, ?_, ?_, ?_, ?_⟩, ⟨?_, ?_, ?_, ?_⟩⟩ <;> simp [logMax, logSorted]

/-- events that touch only `time`, `upds`, `waits`, `cancelled` -/
theorem SInv.frame {s s' : St} (h : SInv s) (h1 : s'.slot = s.slot) (h2 : s'.toPub = s.toPub) (h3 : s'.lastCid = s.lastCid)
    (h4 : s'.pubStamp = s.pubStamp) (h5 : s'.skipStamp = s.skipStamp) (h6 : s'.quick = s.quick) (h7 : s'.longer = s.longer)
    (h8 : s'.imm = s.imm) (h9 : s'.inPub = s.inPub) (h10 : s'.stopped = s.stopped) (h11 : s'.log = s.log)
    (h12 : s'.clock = s.clock) (h13 : s'.waiter = s.waiter) : SInv s' :=
  ⟨h.core.congr h1 h2 h3 h4 h5 h11 h12, h.loop.congr h2 h6 h7 h8 h9 h10 (Or.inl h13)⟩

theorem cand_facts {s : St} (hc : CInv s) : ∀ v, cand s = some v → v.stamp ≤ s.clock ∧ logMax s.log ≤ v.stamp := by
  intro v hv
  unfold cand at hv
  cases hslot : s.slot with
  | some u =>
    rw [hslot] at hv; simp at hv; subst hv
    have := hc.slotClock u hslot
    have := hc.logClock.2 (by simp [hslot])
    omega
  | none =>
    rw [hslot] at hv
    exact ⟨(hc.toPubClock v hv).1, hc.logToPub v hv⟩

theorem toPubW_some {s : St} {u : Val} (h : toPubW s = some u) : cand s = some u ∧ s.lastCid ≠ some u.cid := by
  unfold toPubW at h
  split at h
  · cases h
  · rename_i hd
    refine ⟨h, fun e => hd ?_⟩
    rw [h]; simp [isDup, e]

theorem SInv.step {s0 s' : St} {ev : Ev} (h : SInv s0) (hs : step s0 ev = some s') : SInv s' := by
  have hc := h.core
  have hl := h.loop
  unfold C21.step at hs
  cases ev with
  | update c =>
    simp only [Option.some.injEq] at hs; subst hs
    exact h.frame rfl rfl rfl rfl rfl rfl rfl rfl rfl rfl rfl rfl rfl
  | waitPub =>
    simp only [Option.some.injEq] at hs; subst hs
    exact h.frame rfl rfl rfl rfl rfl rfl rfl rfl rfl rfl rfl rfl rfl
  | closeCall =>
    simp only [Option.some.injEq] at hs; subst hs
    exact h.frame rfl rfl rfl rfl rfl rfl rfl rfl rfl rfl rfl rfl rfl
  | abandon j =>
    simp only at hs
    split at hs
    · split at hs
      · simp only [Option.some.injEq] at hs; subst hs
        exact h.frame rfl rfl rfl rfl rfl rfl rfl rfl rfl rfl rfl rfl rfl
      · cases hs
    · cases hs
  | closeCancel j =>
    simp only at hs
    split at hs
    · split at hs
      · simp only [Option.some.injEq] at hs; subst hs
        exact h.frame rfl rfl rfl rfl rfl rfl rfl rfl rfl rfl rfl rfl rfl
      · cases hs
    · cases hs
  | closeRet j =>
    simp only at hs
    split at hs
    · split at hs
      · simp only [Option.some.injEq] at hs; subst hs
        exact h.frame rfl rfl rfl rfl rfl rfl rfl rfl rfl rfl rfl rfl rfl
      · cases hs
    · cases hs
  | ctxDone =>
    simp only at hs
    split at hs
    · simp only [Option.some.injEq] at hs; subst hs
      refine ⟨hc.congr rfl rfl rfl rfl rfl rfl rfl, ?_⟩
      exact ⟨hl.inPubSome, fun h' => by simp at h', fun h' => by simp at h', hl.immWaiter⟩
    · cases hs
  | updStep i =>
    simp only at hs
    split at hs
    · cases hs
    · rename_i u hu
      -- sending puts the newest stamp into the (empty) slot
      have send : s0.slot = none → SInv { s0 with time := s0.time + 1, slot := some ⟨s0.clock + 1, u.cid⟩, clock := s0.clock + 1, upds := s0.upds.set i { u with pc := .done, doneT := some s0.time, sent := some (s0.clock + 1) } } := by
        intro hslot
        refine ⟨⟨?_, ?_, ?_, ?_, hc.sorted, hc.pubLog, ?_, hc.dup⟩, ?_⟩
        · intro w hw; simp at hw; subst hw; rfl
        · intro v hv; have := hc.toPubClock v hv; first | omega | (simp; omega)
        · have := hc.logClock; first | omega | (simp; omega)
        · exact hc.logToPub
        · have := hc.skipClock; first | omega | (simp; omega)
        · exact hl.congr rfl rfl rfl rfl rfl rfl (Or.inl rfl)
      split at hs
      · -- first half
        split at hs
        · rename_i v hv
          simp only [Option.some.injEq] at hs; subst hs
          refine ⟨⟨?_, ?_, ?_, hc.logToPub, hc.sorted, hc.pubLog, hc.skipClock, hc.dup⟩, hl.congr rfl rfl rfl rfl rfl rfl (Or.inl rfl)⟩
          · intro w hw; simp at hw
          · intro w hw; exact ⟨(hc.toPubClock w hw).1, fun h' => by simp at h'⟩
          · exact ⟨hc.logClock.1, fun h' => by simp at h'⟩
        · rename_i hslot
          simp only [Option.some.injEq] at hs; subst hs
          exact send hslot
      · -- second half
        split at hs
        · rename_i hslot
          simp only [Option.some.injEq] at hs; subst hs
          exact send hslot
        · simp only [Option.some.injEq] at hs; subst hs
          exact h.frame rfl rfl rfl rfl rfl rfl rfl rfl rfl rfl rfl rfl rfl
      · cases hs
  | recvUpdate =>
    simp only at hs
    split at hs
    · cases hs
    · rename_i hidle
      have hidle' : s0.inPub = false ∧ s0.stopped = false := by simpa [idle] using hidle
      split at hs
      · cases hs
      · rename_i v hv
        have hvc : v.stamp = s0.clock := hc.slotClock v hv
        split at hs
        · -- equal to the last published value
          simp only [Option.some.injEq] at hs; subst hs
          apply afterSelect_inv
          · refine ⟨?_, ?_, ?_, ?_, hc.sorted, hc.pubLog, ?_, ?_⟩
            · intro w hw; simp at hw
            · intro w hw; simp at hw
            · exact ⟨hc.logClock.1, fun h' => by simp at h'⟩
            · intro w hw; simp at hw
            · have := hc.skipClock; first | omega | (simp; omega)
            · intro w hw; simp at hw
          · exact hidle'.1
          · intro _; rfl
        · rename_i hne
          simp only [Option.some.injEq] at hs; subst hs
          refine ⟨⟨?_, ?_, ?_, ?_, hc.sorted, hc.pubLog, hc.skipClock, ?_⟩, ⟨?_, ?_, ?_, ?_⟩⟩
          · intro w hw; simp at hw
          · intro w hw; simp at hw; subst hw; exact ⟨by simp [hvc], fun h' => by simp at h'⟩
          · exact ⟨hc.logClock.1, fun h' => by simp at h'⟩
          · intro w hw; simp at hw; subst hw
            have := hc.logClock.2 (by simp [hv]); first | omega | (simp; omega)
          · intro w hw; simp at hw; subst hw
            intro e; apply hne; have e' : s0.lastCid = some v.cid := e; simp [e']
          · intro h'; simp [hidle'.1] at h'
          · intro _ _ _; exact Or.inl rfl
          · intro _ himm
            have := hl.strand hidle'.2 himm
            simp only [hidle'.1, Bool.false_eq_true, false_or] at this
            exact Or.inr ⟨by simp, by simp [this.2]⟩
          · exact hl.immWaiter
  | recvWaiter j =>
    simp only at hs
    split at hs
    · cases hs
    · rename_i hidle
      have hidle' : (s0.inPub = false ∧ s0.stopped = false) ∧ s0.imm = true := by simpa [idle] using hidle
      split at hs
      · cases hs
      · rename_i w hw
        split at hs
        · cases hs
        · simp only [Option.some.injEq] at hs; subst hs
          have hcand := cand_facts hc
          apply afterSelect_inv
          · refine ⟨?_, ?_, ?_, ?_, hc.sorted, hc.pubLog, ?_, ?_⟩
            · intro u hu; simp at hu
            · intro u hu
              have hu' : toPubW s0 = some u := hu
              exact ⟨(hcand u (toPubW_some hu').1).1, fun h' => by simp at h'⟩
            · exact ⟨hc.logClock.1, fun h' => by simp at h'⟩
            · intro u hu
              have hu' : toPubW s0 = some u := hu
              exact (hcand u (toPubW_some hu').1).2
            · show skipW s0 ≤ s0.clock
              unfold skipW
              cases hcd : cand s0 with
              | none => exact hc.skipClock
              | some v =>
                simp only
                split
                · have := (hcand v hcd).1; have := hc.skipClock; omega
                · exact hc.skipClock
            · intro u hu
              have hu' : toPubW s0 = some u := hu
              exact (toPubW_some hu').2
          · exact hidle'.1.1
          · intro _; exact hidle'.2
  | timerQuick =>
    simp only at hs
    split at hs
    · rename_i hq
      have hq' : (s0.inPub = false ∧ s0.stopped = false) ∧ s0.quick = true := by simpa [idle] using hq
      simp only [Option.some.injEq] at hs; subst hs
      refine afterSelect_inv (hc.congr rfl rfl rfl rfl rfl rfl rfl) hq'.1.1 ?_
      intro ht
      cases himm : s0.imm with
      | true => rfl
      | false =>
        have := hl.strand hq'.1.2 himm
        simp only [hq'.1.1, Bool.false_eq_true, false_or] at this
        exact absurd ht this.1
    · cases hs
  | timerLonger =>
    simp only at hs
    split at hs
    · rename_i hq
      have hq' : (s0.inPub = false ∧ s0.stopped = false) ∧ s0.longer = true := by simpa [idle] using hq
      simp only [Option.some.injEq] at hs; subst hs
      refine afterSelect_inv (hc.congr rfl rfl rfl rfl rfl rfl rfl) hq'.1.1 ?_
      intro ht
      cases himm : s0.imm with
      | true => rfl
      | false =>
        have := hl.strand hq'.1.2 himm
        simp only [hq'.1.1, Bool.false_eq_true, false_or] at this
        exact absurd ht this.1
    · cases hs
  | pubDone ok =>
    simp only at hs
    split at hs
    · cases hs
    · rename_i hin
      have hin' : s0.inPub = true ∧ s0.stopped = false := by simpa using hin
      split at hs
      · cases hs
      · rename_i v hv
        have h1 := hc.toPubClock v hv
        have h2 := hc.logToPub v hv
        cases ok with
        | true =>
          simp only [if_true, Option.some.injEq] at hs; subst hs
          obtain ⟨n1, n2, n3, n4, n5, n6, n7, n8, n9, _, n11, n12, n13, _, _, n16⟩ :=
            notify_scalar { s0 with time := s0.time + 1, inPub := false, lastCid := some v.cid, pubStamp := v.stamp, toPub := none, imm := true, log := s0.log ++ [(v, true)] }
          refine ⟨⟨?_, ?_, ?_, ?_, ?_, ?_, ?_, ?_⟩, ⟨?_, ?_, ?_, fun _ _ => n16⟩⟩
          · rw [n1, n13]; exact hc.slotClock
          · rw [n2]; intro u hu; simp at hu
          · rw [n1, n12, n13]; simp only [logMax_append]
            refine ⟨by have := hc.logClock.1; first | omega | (simp; omega), fun h' => ?_⟩
            have a := hc.logClock.2 h'; have b := h1.2 h'; first | omega | (simp; omega)
          · rw [n2]; intro u hu; simp at hu
          · rw [n12]; exact logSorted_append hc.sorted h2
          · rw [n4, n12]; simp only [logMax_append]; first | omega | (simp; omega)
          · rw [n5, n13]; exact hc.skipClock
          · rw [n2]; intro u hu; simp at hu
          · rw [n9]; intro h'; simp at h'
          · rw [n2]; intro _ _ h'; simp at h'
          · rw [n8]; intro _ h'; simp at h'
        | false =>
          simp only [Bool.false_eq_true, if_false, Option.some.injEq] at hs; subst hs
          refine ⟨⟨hc.slotClock, hc.toPubClock, ?_, ?_, ?_, ?_, hc.skipClock, hc.dup⟩, ⟨?_, ?_, ?_, ?_⟩⟩
          · simp only [logMax_append]
            refine ⟨by have := hc.logClock.1; first | omega | (simp; omega), fun h' => ?_⟩
            have a := hc.logClock.2 h'; have b := h1.2 h'; first | omega | (simp; omega)
          · intro u hu
            have : u = v := by rw [hv] at hu; exact (Option.some.inj hu).symm
            subst this; simp only [logMax_append]; first | omega | (simp; omega)
          · exact logSorted_append hc.sorted h2
          · simp only [logMax_append]; have := hc.pubLog; first | omega | (simp; omega)
          · intro h'; cases h'
          · intro _ _ _; exact Or.inr rfl
          · intro _ _; exact Or.inr ⟨by simp [hv], rfl⟩
          · intro h'; simp at h'

end C21
