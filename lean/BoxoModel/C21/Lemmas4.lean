import BoxoModel.C21.Lemmas3
/-! C21 — the waiter invariants are preserved by every event. -/
namespace C21

theorem WInv.init (last : Option Nat) : WInv { lastCid := last } := by
  refine ⟨?_, ?_, ?_⟩
  · intro _ x hx; simp at hx; subst hx; exact Or.inl (Or.inl (Nat.le_refl _))
  · intro j w h; simp at h
  · intro j h; simp at h

/-- events that change only `time`, `upds` (keeping `maxDrained` large enough), flags -/
theorem WInv.frame {s s' : St} (h : WInv s) (hwaits : s'.waits = s.waits) (hclock : s.clock ≤ s'.clock)
    (hwaiter : s'.waiter = s.waiter) (hpub : s.pubStamp ≤ s'.pubStamp) (hskip : s.skipStamp ≤ s'.skipStamp)
    (hcov : ∀ x, x ≤ s.clock → cov3 s x → cov3 s' x)
    (hcanc : s.cancelled = true → s'.cancelled = true) (hstop : s.stopped = true → s'.stopped = true)
    (hloss : NoLoss s') : WInv s' := by
  refine ⟨hloss, ?_, ?_⟩
  · intro j w hj
    rw [hwaits] at hj
    have hW := h.waits j w hj
    exact hW.frame hclock hwaiter hpub hskip (fun _ x hx => hcov x (Nat.le_trans hx hW.acc)) hcanc hstop
  · rw [hwaiter, hwaits]; exact h.waiterValid

theorem WInv.step {s0 s' : St} {ev : Ev} (hS : SInv s0) (h : WInv s0) (hs : step s0 ev = some s') : WInv s' := by
  have hc := hS.core
  have hl := hS.loop
  unfold C21.step at hs
  cases ev with
  | update c =>
    simp only [Option.some.injEq] at hs; subst hs
    refine h.frame rfl (Nat.le_refl _) rfl (Nat.le_refl _) (Nat.le_refl _) (fun _ _ hc => hc) id id ?_
    intro hslot x hx
    have e := maxDrained_append_start s0.upds { cid := c, startT := s0.time, startClock := s0.clock } rfl
    rcases h.loss hslot x hx with h1 | h1
    · exact Or.inl h1
    · exact Or.inr (by show x ≤ maxDrained (s0.upds ++ [_]); rw [e]; exact h1)
  | ctxDone =>
    simp only at hs
    split at hs
    · simp only [Option.some.injEq] at hs; subst hs
      exact h.frame rfl (Nat.le_refl _) rfl (Nat.le_refl _) (Nat.le_refl _) (fun _ _ hc => hc) id (fun _ => rfl)
        (h.loss.congr rfl rfl rfl rfl rfl rfl)
    · cases hs
  | waitPub =>
    simp only [Option.some.injEq] at hs; subst hs
    refine ⟨h.loss.congr rfl rfl rfl rfl rfl rfl, ?_, ?_⟩
    · intro j w hj
      rcases getElem?_append_one hj with hj | ⟨hjl, rfl⟩
      · exact (h.waits j w hj).congr rfl rfl rfl rfl rfl rfl rfl
      · refine ⟨Nat.le_refl _, Nat.zero_le _, (fun hp => by rcases hp with hp | hp <;> cases hp), (fun hp => by cases hp), ?_,
          (fun hp => by cases hp), (fun hp => by cases hp), (fun hp => by cases hp)⟩
        intro hw
        obtain ⟨w, hw'⟩ := h.waiterValid j hw
        rw [hjl, List.getElem?_eq_none (Nat.le_refl _)] at hw'; cases hw'
    · intro j hj
      obtain ⟨w, hw⟩ := h.waiterValid j hj
      have hlt : j < s0.waits.length := by
        cases hlt : decide (j < s0.waits.length) with
        | true => simpa using hlt
        | false =>
          have : s0.waits.length ≤ j := by simpa using hlt
          rw [List.getElem?_eq_none this] at hw; cases hw
      exact ⟨w, by show (s0.waits ++ _)[j]? = some w; rw [List.getElem?_append_left hlt]; exact hw⟩
  | closeCall =>
    simp only [Option.some.injEq] at hs; subst hs
    refine ⟨h.loss.congr rfl rfl rfl rfl rfl rfl, ?_, ?_⟩
    · intro j w hj
      rcases getElem?_append_one hj with hj | ⟨hjl, rfl⟩
      · exact (h.waits j w hj).congr rfl rfl rfl rfl rfl rfl rfl
      · refine ⟨Nat.le_refl _, Nat.zero_le _, (fun hp => by rcases hp with hp | hp <;> cases hp), (fun hp => by cases hp), ?_,
          (fun hp => by cases hp), (fun hp => by cases hp), (fun hp => by cases hp)⟩
        intro hw
        obtain ⟨w, hw'⟩ := h.waiterValid j hw
        rw [hjl, List.getElem?_eq_none (Nat.le_refl _)] at hw'; cases hw'
    · intro j hj
      obtain ⟨w, hw⟩ := h.waiterValid j hj
      have hlt : j < s0.waits.length := by
        cases hlt : decide (j < s0.waits.length) with
        | true => simpa using hlt
        | false =>
          have : s0.waits.length ≤ j := by simpa using hlt
          rw [List.getElem?_eq_none this] at hw; cases hw
      exact ⟨w, by show (s0.waits ++ _)[j]? = some w; rw [List.getElem?_append_left hlt]; exact hw⟩
  | abandon j =>
    simp only at hs
    split at hs
    · rename_i w hw
      split at hs
      · rename_i hg
        have hg' : w.pc = .sending ∨ w.pc = .waiting := by simpa using hg
        simp only [Option.some.injEq] at hs; subst hs
        have hW := h.waits j w hw
        have hnc : w.cancelled = false := by
          cases hcc : w.cancelled with
          | false => rfl
          | true =>
            have := (hW.canc hcc).1
            rcases hg' with e | e <;> rw [e] at this <;> rcases this with t | t <;> cases t
        refine ⟨h.loss.congr rfl rfl rfl rfl rfl rfl, ?_, ?_⟩
        · intro k wk hk
          by_cases hkj : k = j
          · subst hkj
            rw [getElem?_set_self' hw] at hk; cases hk
            refine ⟨hW.call, hW.acc, (fun hp => by rcases hp with hp | hp <;> cases hp), (fun hp => by cases hp), hW.served,
              (fun hp => by cases hp), (fun hcc => ?_), (fun hr => ?_)⟩
            · have hcc' : w.cancelled = true := hcc
              rw [hnc] at hcc'; cases hcc'
            · have hr' : w.returned = true := hr
              have := (hW.ret hr').2; rw [hnc] at this; cases this
          · rw [getElem?_set_ne' hkj] at hk
            exact (h.waits k wk hk).congr rfl rfl rfl rfl rfl rfl rfl
        · intro k hk
          obtain ⟨wk, hwk⟩ := h.waiterValid k hk
          by_cases hkj : k = j
          · subst hkj; exact ⟨_, getElem?_set_self' hw⟩
          · exact ⟨wk, by show (s0.waits.set j _)[k]? = some wk; rw [getElem?_set_ne' hkj]; exact hwk⟩
      · cases hs
    · cases hs
  | closeCancel j =>
    simp only at hs
    split at hs
    · rename_i w hw
      split at hs
      · rename_i hg
        have hg' : (w.close = true ∧ w.cancelled = false) ∧ (w.pc = .released ∨ w.pc = .abandoned) := by simpa using hg
        simp only [Option.some.injEq] at hs; subst hs
        have hW := h.waits j w hw
        refine ⟨h.loss.congr rfl rfl rfl rfl rfl rfl, ?_, ?_⟩
        · intro k wk hk
          by_cases hkj : k = j
          · subst hkj
            rw [getElem?_set_self' hw] at hk; cases hk
            refine ⟨hW.call, hW.acc, hW.callAcc, hW.orphan, hW.served, hW.released, (fun _ => ⟨hg'.2, rfl, hg'.1.1⟩), (fun hr => ?_)⟩
            have hr' : w.returned = true := hr
            have := (hW.ret hr').2; rw [hg'.1.2] at this; cases this
          · rw [getElem?_set_ne' hkj] at hk
            exact (h.waits k wk hk).frame (Nat.le_refl _) rfl (Nat.le_refl _) (Nat.le_refl _) (fun _ _ _ hc => hc) (fun _ => rfl) id
        · intro k hk
          obtain ⟨wk, hwk⟩ := h.waiterValid k hk
          by_cases hkj : k = j
          · subst hkj; exact ⟨_, getElem?_set_self' hw⟩
          · exact ⟨wk, by show (s0.waits.set j _)[k]? = some wk; rw [getElem?_set_ne' hkj]; exact hwk⟩
      · cases hs
    · cases hs
  | closeRet j =>
    simp only at hs
    split at hs
    · rename_i w hw
      split at hs
      · rename_i hg
        have hg' : ((w.close = true ∧ w.cancelled = true) ∧ w.returned = false) ∧ s0.stopped = true := by simpa using hg
        simp only [Option.some.injEq] at hs; subst hs
        have hW := h.waits j w hw
        refine ⟨h.loss.congr rfl rfl rfl rfl rfl rfl, ?_, ?_⟩
        · intro k wk hk
          by_cases hkj : k = j
          · subst hkj
            rw [getElem?_set_self' hw] at hk; cases hk
            exact ⟨hW.call, hW.acc, hW.callAcc, hW.orphan, hW.served, hW.released, hW.canc, fun _ => ⟨hg'.2, hg'.1.1.2⟩⟩
          · rw [getElem?_set_ne' hkj] at hk
            exact (h.waits k wk hk).congr rfl rfl rfl rfl rfl rfl rfl
        · intro k hk
          obtain ⟨wk, hwk⟩ := h.waiterValid k hk
          by_cases hkj : k = j
          · subst hkj; exact ⟨_, getElem?_set_self' hw⟩
          · exact ⟨wk, by show (s0.waits.set j _)[k]? = some wk; rw [getElem?_set_ne' hkj]; exact hwk⟩
      · cases hs
    · cases hs
  | updStep i =>
    simp only at hs
    split at hs
    · cases hs
    · rename_i u hu
      split at hs
      · split at hs
        · -- drain
          rename_i v hv
          simp only [Option.some.injEq] at hs; subst hs
          refine h.frame rfl (Nat.le_refl _) rfl (Nat.le_refl _) (Nat.le_refl _) (fun _ _ hc => hc) id id ?_
          intro _ x hx
          right
          have hvc : v.stamp = s0.clock := hc.slotClock v hv
          have := le_maxDrained (us := s0.upds.set i { u with pc := .drained v }) (getElem?_set_self' hu) rfl
          show x ≤ maxDrained (s0.upds.set i { u with pc := .drained v })
          have hx' : x ≤ s0.clock := hx
          omega
        · simp only [Option.some.injEq] at hs; subst hs
          exact h.frame rfl (Nat.le_succ _) rfl (Nat.le_refl _) (Nat.le_refl _) (fun _ _ hc => hc) id id
            (fun hslot => by simp at hslot)
      · split at hs
        · simp only [Option.some.injEq] at hs; subst hs
          exact h.frame rfl (Nat.le_succ _) rfl (Nat.le_refl _) (Nat.le_refl _) (fun _ _ hc => hc) id id
            (fun hslot => by simp at hslot)
        · rename_i hsl
          simp only [Option.some.injEq] at hs; subst hs
          refine h.frame rfl (Nat.le_refl _) rfl (Nat.le_refl _) (Nat.le_refl _) (fun _ _ hc => hc) id id ?_
          intro hslot
          have : s0.slot = none := hslot
          rw [hsl] at this; cases this
      · cases hs
  | recvUpdate =>
    simp only at hs
    split at hs
    · cases hs
    · rename_i hidle
      split at hs
      · cases hs
      · rename_i v hv
        have hvc : v.stamp = s0.clock := hc.slotClock v hv
        split at hs
        · simp only [Option.some.injEq] at hs; subst hs
          apply afterSelect_winv
          · intro _ x hx
            left; right; left
            show x ≤ max s0.skipStamp v.stamp
            have : x ≤ s0.clock := hx
            omega
          · intro j w hj
            have hW := h.waits j w hj
            refine hW.frame (Nat.le_refl _) rfl (Nat.le_refl _) (by show s0.skipStamp ≤ max s0.skipStamp v.stamp; omega) ?_ id id
            intro _ x hx _
            right; left
            show x ≤ max s0.skipStamp v.stamp
            have := hW.acc
            omega
          · exact h.waiterValid
        · simp only [Option.some.injEq] at hs; subst hs
          refine h.frame rfl (Nat.le_refl _) rfl (Nat.le_refl _) (Nat.le_refl _) ?_ id id ?_
          · intro x hx hcv
            rcases hcv with h1 | h1 | ⟨u, hu, hxu⟩
            · exact Or.inl h1
            · exact Or.inr (Or.inl h1)
            · exact Or.inr (Or.inr ⟨v, rfl, by have := (hc.toPubClock u hu).1; omega⟩)
          · intro _ x hx
            left; right; right
            exact ⟨v, rfl, by have : x ≤ s0.clock := hx; omega⟩
  | timerQuick =>
    simp only at hs
    split at hs
    · simp only [Option.some.injEq] at hs; subst hs
      exact afterSelect_winv (h.loss.congr rfl rfl rfl rfl rfl rfl)
        (fun j w hj => (h.waits j w hj).congr rfl rfl rfl rfl rfl rfl rfl) h.waiterValid
    · cases hs
  | timerLonger =>
    simp only at hs
    split at hs
    · simp only [Option.some.injEq] at hs; subst hs
      exact afterSelect_winv (h.loss.congr rfl rfl rfl rfl rfl rfl)
        (fun j w hj => (h.waits j w hj).congr rfl rfl rfl rfl rfl rfl rfl) h.waiterValid
    · cases hs
  | pubDone ok =>
    simp only at hs
    split at hs
    · cases hs
    · split at hs
      · cases hs
      · rename_i v hv
        have hpv : s0.pubStamp ≤ v.stamp := Nat.le_trans hc.pubLog (hc.logToPub v hv)
        cases ok with
        | true =>
          simp only [if_true, Option.some.injEq] at hs; subst hs
          have hcov : ∀ x, cov3 s0 x → x ≤ v.stamp ∨ x ≤ s0.skipStamp := by
            intro x hcv
            rcases hcv with h1 | h1 | ⟨u, hu, hxu⟩
            · exact Or.inl (Nat.le_trans h1 hpv)
            · exact Or.inr h1
            · rw [hv] at hu; cases hu; exact Or.inl hxu
          apply notify_winv
          · intro hslot x hx
            rcases h.loss hslot x hx with h1 | h1
            · left
              rcases hcov x h1 with h2 | h2
              · exact Or.inl h2
              · exact Or.inr (Or.inl h2)
            · exact Or.inr h1
          · intro j w hj
            refine (h.waits j w hj).frame (Nat.le_refl _) rfl hpv (Nat.le_refl _) ?_ id id
            intro _ x _ hcv
            rcases hcov x hcv with h2 | h2
            · exact Or.inl h2
            · exact Or.inr (Or.inl h2)
          · exact h.waiterValid
          · rfl
        | false =>
          simp only [Bool.false_eq_true, if_false, Option.some.injEq] at hs; subst hs
          exact h.frame rfl (Nat.le_refl _) rfl (Nat.le_refl _) (Nat.le_refl _) (fun _ _ hc => hc) id id
            (h.loss.congr rfl rfl rfl rfl rfl rfl)
  | recvWaiter j =>
    simp only at hs
    split at hs
    · cases hs
    · rename_i hidle
      have hidle' : (s0.inPub = false ∧ s0.stopped = false) ∧ s0.imm = true := by simpa [idle] using hidle
      have hnow : s0.waiter = none := hl.immWaiter hidle'.2 hidle'.1.1
      split at hs
      · cases hs
      · rename_i w hw
        split at hs
        · cases hs
        · rename_i hsend
          have hsend' : w.pc = .sending := by simpa using hsend
          simp only [Option.some.injEq] at hs; subst hs
          have hWj := h.waits j w hw
          have hncj : w.cancelled = false := by
            cases hcc : w.cancelled with
            | false => rfl
            | true => have := (hWj.canc hcc).1; rw [hsend'] at this; rcases this with t | t <;> cases t
          have hcand := cand_facts hc
          have hskipge : s0.skipStamp ≤ skipW s0 := by
            unfold skipW; split
            · split <;> omega
            · exact Nat.le_refl _
          -- every stamp issued so far is covered after the waiter grabbed the latest value
          have star : ∀ x, x ≤ s0.clock →
              (x ≤ s0.pubStamp ∨ x ≤ skipW s0 ∨ ∃ v, toPubW s0 = some v ∧ x ≤ v.stamp) ∨ x ≤ maxDrained s0.upds := by
            intro x hx
            -- x is below the candidate, or covered before
            have hx2 : (∃ v, cand s0 = some v ∧ x ≤ v.stamp) ∨ x ≤ s0.pubStamp ∨ x ≤ s0.skipStamp ∨ x ≤ maxDrained s0.upds := by
              cases hslot : s0.slot with
              | some u =>
                left
                exact ⟨u, by simp [cand, hslot], by have := hc.slotClock u hslot; omega⟩
              | none =>
                rcases h.loss hslot x hx with h1 | h1
                · rcases h1 with h2 | h2 | ⟨u, hu, hxu⟩
                  · exact Or.inr (Or.inl h2)
                  · exact Or.inr (Or.inr (Or.inl h2))
                  · exact Or.inl ⟨u, by simp [cand, hslot, hu], hxu⟩
                · exact Or.inr (Or.inr (Or.inr h1))
            rcases hx2 with ⟨v, hv, hxv⟩ | h2 | h2 | h2
            · left
              by_cases hd : isDup s0.lastCid (some v) = true
              · right; left
                unfold skipW; simp only [hv, hd, if_true]; omega
              · right; right
                exact ⟨v, by unfold toPubW; rw [hv]; simp [hd], hxv⟩
            · exact Or.inl (Or.inl h2)
            · exact Or.inl (Or.inr (Or.inl (Nat.le_trans h2 hskipge)))
            · exact Or.inr h2
          apply afterSelect_winv
          · intro _ x hx; exact star x hx
          · intro k wk hk
            by_cases hkj : k = j
            · subst hkj
              have hk' : (s0.waits.set k { w with pc := .waiting, acc := s0.clock, inflight := maxDrained s0.upds })[k]? = some wk := hk
              rw [getElem?_set_self' hw] at hk'; cases hk'
              refine ⟨hWj.call, Nat.le_refl _, (fun _ => hWj.call), (fun _ => rfl), (fun _ x hx => star x hx),
                (fun hp => by cases hp), (fun hcc => ?_), (fun hr => ?_)⟩
              · have hcc' : w.cancelled = true := hcc
                rw [hncj] at hcc'; cases hcc'
              · have hr' : w.returned = true := hr
                have := (hWj.ret hr').2; rw [hncj] at this; cases this
            · have hk' : (s0.waits.set j { w with pc := .waiting, acc := s0.clock, inflight := maxDrained s0.upds })[k]? = some wk := hk
              rw [getElem?_set_ne' hkj] at hk'
              have hW := h.waits k wk hk'
              refine ⟨hW.call, hW.acc, hW.callAcc, (fun hp => ?_), (fun hwt => ?_), (fun hp x hx => ?_), hW.canc, hW.ret⟩
              · have := hW.orphan hp; rw [hnow] at this; cases this
              · have hwt' : some j = some k := hwt
                cases hwt'; exact absurd rfl hkj
              · rcases hW.released hp x hx with h1 | h1 | h1
                · exact Or.inl h1
                · exact Or.inr (Or.inl (Nat.le_trans h1 hskipge))
                · exact Or.inr (Or.inr h1)
          · intro k hk
            have hk' : some j = some k := hk
            cases hk'
            exact ⟨_, getElem?_set_self' hw⟩

end C21
