import BoxoModel.C21.Lemmas4
/-! C21 — stamps respect the real-time order of `Update` calls. -/
namespace C21

structure UOK (s : St) (u : Upd) : Prop where
  start : u.startT < s.time
  startClock : u.startClock ≤ s.clock
  done : ∀ d, u.doneT = some d → d < s.time
  sent : ∀ x, u.sent = some x → u.startClock < x ∧ x ≤ s.clock

structure UInv (s : St) : Prop where
  each : ∀ (i : Nat) (u : Upd), s.upds[i]? = some u → UOK s u
  order : ∀ (a b : Nat) (ua ub : Upd), s.upds[a]? = some ua → s.upds[b]? = some ub →
    ∀ d, ua.doneT = some d → d < ub.startT → ∀ x, ua.sent = some x → x ≤ ub.startClock

theorem UOK.mono {s s' : St} {u : Upd} (h : UOK s u) (ht : s.time ≤ s'.time) (hc : s.clock ≤ s'.clock) : UOK s' u :=
  ⟨Nat.lt_of_lt_of_le h.start ht, Nat.le_trans h.startClock hc, fun d hd => Nat.lt_of_lt_of_le (h.done d hd) ht,
    fun x hx => ⟨(h.sent x hx).1, Nat.le_trans (h.sent x hx).2 hc⟩⟩

theorem UInv.frame {s s' : St} (h : UInv s) (hu : s'.upds = s.upds) (ht : s.time ≤ s'.time) (hc : s.clock ≤ s'.clock) :
    UInv s' :=
  ⟨fun i u hi => (h.each i u (hu ▸ hi)).mono ht hc, fun a b ua ub ha hb => h.order a b ua ub (hu ▸ ha) (hu ▸ hb)⟩

theorem afterSelect_fields (x : St) :
    (afterSelect x).upds = x.upds ∧ (afterSelect x).clock = x.clock ∧ (afterSelect x).time = x.time := by
  by_cases ht : x.toPub = none
  · rw [afterSelect_none ht]
    obtain ⟨_, _, _, _, _, _, _, _, _, _, _, _, n13, n14, n15, _⟩ := notify_scalar { x with quick := false, longer := false }
    exact ⟨n15, n13, n14⟩
  · rw [afterSelect_some ht]; exact ⟨rfl, rfl, rfl⟩

theorem UInv.init (last : Option Nat) : UInv { lastCid := last } :=
  ⟨(fun i u h => by simp at h), (fun a b ua ub h => by simp at h)⟩

theorem UInv.step {s0 s' : St} {ev : Ev} (h : UInv s0) (hs : step s0 ev = some s') : UInv s' := by
  unfold C21.step at hs
  cases ev with
  | update c =>
    simp only [Option.some.injEq] at hs; subst hs
    have hnew : UOK { s0 with time := s0.time + 1, upds := s0.upds ++ [{ cid := c, startT := s0.time, startClock := s0.clock }] }
        { cid := c, startT := s0.time, startClock := s0.clock } :=
      ⟨Nat.lt_succ_self _, Nat.le_refl _, (fun d hd => by cases hd), (fun x hx => by cases hx)⟩
    refine ⟨?_, ?_⟩
    · intro i u hi
      rcases getElem?_append_one hi with hi | ⟨_, rfl⟩
      · exact (h.each i u hi).mono (Nat.le_succ _) (Nat.le_refl _)
      · exact hnew
    · intro a b ua ub ha hb d hd hlt x hx
      rcases getElem?_append_one ha with ha | ⟨_, rfl⟩
      · rcases getElem?_append_one hb with hb | ⟨_, rfl⟩
        · exact h.order a b ua ub ha hb d hd hlt x hx
        · exact ((h.each a ua ha).sent x hx).2
      · cases hd
  | updStep i =>
    simp only at hs
    split at hs
    · cases hs
    · rename_i u hu
      have hU := h.each i u hu
      -- the ghost fields of the other threads do not change; thread i finishes now
      have fin : ∀ (sent' : Option Nat) (clock' : Nat), s0.clock ≤ clock' →
          (∀ x, sent' = some x → u.startClock < x ∧ x ≤ clock') →
          (∀ x, sent' = some x → ∀ (b : Nat) (ub : Upd), s0.upds[b]? = some ub → ub.startT < s0.time) →
          ∀ (rest : St), rest.time = s0.time + 1 → rest.clock = clock' →
            rest.upds = s0.upds.set i { u with pc := .done, doneT := some s0.time, sent := sent' } → UInv rest := by
        intro sent' clock' hcl hsent _ rest ht hc hupds
        refine ⟨?_, ?_⟩
        · intro k uk hk
          rw [hupds] at hk
          by_cases hki : k = i
          · subst hki
            rw [getElem?_set_self' hu] at hk; cases hk
            exact ⟨(by rw [ht]; exact Nat.lt_succ_of_lt hU.start), (by rw [hc]; exact Nat.le_trans hU.startClock hcl),
              (fun d hd => by cases hd; rw [ht]; exact Nat.lt_succ_self _), (fun x hx => by rw [hc]; exact hsent x hx)⟩
          · rw [getElem?_set_ne' hki] at hk
            exact (h.each k uk hk).mono (by rw [ht]; exact Nat.le_succ _) (by rw [hc]; exact hcl)
        · intro a b ua ub ha hb d hd hlt x hx
          rw [hupds] at ha hb
          -- b's start time is before now
          have hbstart : ub.startT < s0.time := by
            by_cases hbi : b = i
            · subst hbi; rw [getElem?_set_self' hu] at hb; cases hb; exact hU.start
            · rw [getElem?_set_ne' hbi] at hb; exact (h.each b ub hb).start
          by_cases hai : a = i
          · subst hai
            rw [getElem?_set_self' hu] at ha; cases ha
            cases hd
            omega
          · rw [getElem?_set_ne' hai] at ha
            by_cases hbi : b = i
            · subst hbi
              rw [getElem?_set_self' hu] at hb; cases hb
              exact h.order a b ua u ha hu d hd hlt x hx
            · rw [getElem?_set_ne' hbi] at hb
              exact h.order a b ua ub ha hb d hd hlt x hx
      split at hs
      · split at hs
        · -- drain: ghosts unchanged
          rename_i v hv
          simp only [Option.some.injEq] at hs; subst hs
          refine ⟨?_, ?_⟩
          · intro k uk hk
            have hk' : (s0.upds.set i { u with pc := .drained v })[k]? = some uk := hk
            by_cases hki : k = i
            · subst hki
              rw [getElem?_set_self' hu] at hk'; cases hk'
              exact ⟨Nat.lt_succ_of_lt hU.start, hU.startClock, fun d hd => Nat.lt_succ_of_lt (hU.done d hd), hU.sent⟩
            · rw [getElem?_set_ne' hki] at hk'
              exact (h.each k uk hk').mono (Nat.le_succ _) (Nat.le_refl _)
          · intro a b ua ub ha hb d hd hlt x hx
            have ha' : (s0.upds.set i { u with pc := .drained v })[a]? = some ua := ha
            have hb' : (s0.upds.set i { u with pc := .drained v })[b]? = some ub := hb
            have geta : ∃ ua0, s0.upds[a]? = some ua0 ∧ ua0.doneT = ua.doneT ∧ ua0.sent = ua.sent := by
              by_cases hai : a = i
              · subst hai; rw [getElem?_set_self' hu] at ha'; cases ha'; exact ⟨u, hu, rfl, rfl⟩
              · rw [getElem?_set_ne' hai] at ha'; exact ⟨ua, ha', rfl, rfl⟩
            have getb : ∃ ub0, s0.upds[b]? = some ub0 ∧ ub0.startT = ub.startT ∧ ub0.startClock = ub.startClock := by
              by_cases hbi : b = i
              · subst hbi; rw [getElem?_set_self' hu] at hb'; cases hb'; exact ⟨u, hu, rfl, rfl⟩
              · rw [getElem?_set_ne' hbi] at hb'; exact ⟨ub, hb', rfl, rfl⟩
            obtain ⟨ua0, h1, h2, h3⟩ := geta
            obtain ⟨ub0, h4, h5, h6⟩ := getb
            rw [← h6]
            exact h.order a b ua0 ub0 h1 h4 d (h2 ▸ hd) (h5 ▸ hlt) x (h3 ▸ hx)
        · simp only [Option.some.injEq] at hs; subst hs
          exact fin (some (s0.clock + 1)) (s0.clock + 1) (Nat.le_succ _)
            (fun x hx => by cases hx; exact ⟨Nat.lt_succ_of_le hU.startClock, Nat.le_refl _⟩)
            (fun _ _ b ub hb => (h.each b ub hb).start) _ rfl rfl rfl
      · split at hs
        · simp only [Option.some.injEq] at hs; subst hs
          exact fin (some (s0.clock + 1)) (s0.clock + 1) (Nat.le_succ _)
            (fun x hx => by cases hx; exact ⟨Nat.lt_succ_of_le hU.startClock, Nat.le_refl _⟩)
            (fun _ _ b ub hb => (h.each b ub hb).start) _ rfl rfl rfl
        · simp only [Option.some.injEq] at hs; subst hs
          exact fin u.sent s0.clock (Nat.le_refl _) hU.sent
            (fun _ _ b ub hb => (h.each b ub hb).start) _ rfl rfl rfl
      · cases hs
  | waitPub =>
    simp only [Option.some.injEq] at hs; subst hs
    exact h.frame rfl (Nat.le_succ _) (Nat.le_refl _)
  | closeCall =>
    simp only [Option.some.injEq] at hs; subst hs
    exact h.frame rfl (Nat.le_succ _) (Nat.le_refl _)
  | abandon j =>
    simp only at hs
    split at hs
    · split at hs
      · simp only [Option.some.injEq] at hs; subst hs
        exact h.frame rfl (Nat.le_succ _) (Nat.le_refl _)
      · cases hs
    · cases hs
  | closeCancel j =>
    simp only at hs
    split at hs
    · split at hs
      · simp only [Option.some.injEq] at hs; subst hs
        exact h.frame rfl (Nat.le_succ _) (Nat.le_refl _)
      · cases hs
    · cases hs
  | closeRet j =>
    simp only at hs
    split at hs
    · split at hs
      · simp only [Option.some.injEq] at hs; subst hs
        exact h.frame rfl (Nat.le_succ _) (Nat.le_refl _)
      · cases hs
    · cases hs
  | ctxDone =>
    simp only at hs
    split at hs
    · simp only [Option.some.injEq] at hs; subst hs
      exact h.frame rfl (Nat.le_succ _) (Nat.le_refl _)
    · cases hs
  | timerQuick =>
    simp only at hs
    split at hs
    · simp only [Option.some.injEq] at hs; subst hs
      obtain ⟨a, b, c⟩ := afterSelect_fields { s0 with time := s0.time + 1 }
      exact h.frame a (by rw [c]; exact Nat.le_succ _) (by rw [b]; exact Nat.le_refl _)
    · cases hs
  | timerLonger =>
    simp only at hs
    split at hs
    · simp only [Option.some.injEq] at hs; subst hs
      obtain ⟨a, b, c⟩ := afterSelect_fields { s0 with time := s0.time + 1 }
      exact h.frame a (by rw [c]; exact Nat.le_succ _) (by rw [b]; exact Nat.le_refl _)
    · cases hs
  | recvUpdate =>
    simp only at hs
    split at hs
    · cases hs
    · split at hs
      · cases hs
      · rename_i v hv
        split at hs
        · simp only [Option.some.injEq] at hs; subst hs
          obtain ⟨a, b, c⟩ := afterSelect_fields { s0 with time := s0.time + 1, slot := none, toPub := none, skipStamp := max s0.skipStamp v.stamp, imm := true }
          exact h.frame a (by rw [c]; exact Nat.le_succ _) (by rw [b]; exact Nat.le_refl _)
        · simp only [Option.some.injEq] at hs; subst hs
          exact h.frame rfl (Nat.le_succ _) (Nat.le_refl _)
  | recvWaiter j =>
    simp only at hs
    split at hs
    · cases hs
    · split at hs
      · cases hs
      · rename_i w hw
        split at hs
        · cases hs
        · simp only [Option.some.injEq] at hs; subst hs
          obtain ⟨a, b, c⟩ := afterSelect_fields { s0 with time := s0.time + 1, waiter := some j, waits := s0.waits.set j { w with pc := .waiting, acc := s0.clock, inflight := maxDrained s0.upds }, slot := none, toPub := toPubW { s0 with time := s0.time + 1 }, skipStamp := skipW { s0 with time := s0.time + 1 } }
          exact h.frame a (by rw [c]; exact Nat.le_succ _) (by rw [b]; exact Nat.le_refl _)
  | pubDone ok =>
    simp only at hs
    split at hs
    · cases hs
    · split at hs
      · cases hs
      · rename_i v hv
        cases ok with
        | true =>
          simp only [if_true, Option.some.injEq] at hs; subst hs
          obtain ⟨_, _, _, _, _, _, _, _, _, _, _, _, n13, n14, n15, _⟩ :=
            notify_scalar { s0 with time := s0.time + 1, inPub := false, lastCid := some v.cid, pubStamp := v.stamp, toPub := none, imm := true, log := s0.log ++ [(v, true)] }
          exact h.frame n15 (by rw [n14]; exact Nat.le_succ _) (by rw [n13]; exact Nat.le_refl _)
        | false =>
          simp only [Bool.false_eq_true, if_false, Option.some.injEq] at hs; subst hs
          exact h.frame rfl (Nat.le_succ _) (Nat.le_refl _)

end C21
