import BoxoModel.Lib.Steps
/-
C21 — mfs/repub.go: event model of the Republisher (code AFTER the `fix:` commit that resumes
reading waiters when an update equal to the last published value cancels a pending retry).

One event = one channel operation / timer receive / return of the publish function:

  Update(c)                 updStep, first half : `select { case <-rp.update: … ; case rp.update <- c: }`
                            updStep, second half: `select { case rp.update <- c: ; default: }`   (after a drain)
  WaitPub                   recvWaiter j = the loop receives the waiter from `immediatePublish`
                            abandon j    = the caller's ctx is done (WaitPub returns ctx.Err(); Close: timeout)
  run loop (idle = in the big select, pubfunc not running)
                            recvUpdate | recvWaiter j | timerQuick | timerLonger | ctxDone
                            pubDone ok = the publish function returns
  Close                     a waiter with `close = true`; after it is released / abandoned: closeCancel, then the
                            loop's ctxDone, then closeRet

Values carry a ghost `stamp` = the order in which they entered the 1-slot channel (so "older" is defined
even when CIDs repeat); `time` counts events, `clock` counts sends.  Ghosts: `pubStamp` (highest stamp
published successfully), `skipStamp` (highest stamp dropped because its CID equalled the last published
one), per waiter `acc` (clock when the loop accepted it) and `inflight` (highest stamp held by an Update
that was between its two halves at that moment).  Core-only (imported by the driver).
-/
namespace C21

structure Val where
  stamp : Nat
  cid : Nat
  deriving Repr, DecidableEq

inductive UPc where
  | start | drained (v : Val) | done
  deriving Repr, DecidableEq

structure Upd where
  cid : Nat
  pc : UPc := .start
  startT : Nat            -- ghost: time of the call
  startClock : Nat        -- ghost: clock at the call
  doneT : Option Nat := none
  sent : Option Nat := none   -- ghost: stamp given to the value when it entered the slot
  deriving Repr, DecidableEq

inductive WPc where
  | sending | waiting | released | abandoned
  deriving Repr, DecidableEq

structure Wait where
  pc : WPc := .sending
  close : Bool := false
  callClock : Nat
  acc : Nat := 0
  inflight : Nat := 0
  cancelled : Bool := false    -- Close only: rp.cancel() called
  returned : Bool := false     -- Close only
  deriving Repr, DecidableEq

structure St where
  slot : Option Val := none
  toPub : Option Val := none
  lastCid : Option Nat := none
  pubStamp : Nat := 0
  skipStamp : Nat := 0
  waiter : Option Nat := none
  quick : Bool := false
  longer : Bool := false
  imm : Bool := true
  inPub : Bool := false
  cancelled : Bool := false
  stopped : Bool := false
  log : List (Val × Bool) := []
  clock : Nat := 0
  time : Nat := 0
  upds : List Upd := []
  waits : List Wait := []
  deriving Repr, DecidableEq

inductive Ev where
  | update (cid : Nat)
  | updStep (i : Nat)
  | waitPub
  | closeCall
  | abandon (j : Nat)
  | recvUpdate
  | recvWaiter (j : Nat)
  | timerQuick
  | timerLonger
  | pubDone (ok : Bool)
  | closeCancel (j : Nat)
  | ctxDone
  | closeRet (j : Nat)
  deriving Repr, DecidableEq

def maxDrained (us : List Upd) : Nat :=
  us.foldl (fun m u => match u.pc with
    | .drained v => max m v.stamp
    | _ => m) 0

/-- `close(waiter); waiter = nil` -/
def notify (s : St) : St :=
  match s.waiter with
  | some j => match s.waits[j]? with
    | some w => { s with waiter := none, waits := s.waits.set j (if w.pc == .waiting then { w with pc := .released } else w) }
    | none => { s with waiter := none }
  | none => s

/-- the code after the big select: stop both timers, publish if there is something to publish,
otherwise notify the waiter -/
def afterSelect (s : St) : St :=
  let s := { s with quick := false, longer := false }
  match s.toPub with
  | some _ => { s with inPub := true }
  | none => notify s

def idle (s : St) : Bool := !s.inPub && !s.stopped

/-- the value a waiter makes the loop publish: the slot's value if any, else the pending one -/
def cand (s : St) : Option Val :=
  match s.slot with
  | some v => some v
  | none => s.toPub

def isDup (last : Option Nat) : Option Val → Bool
  | some v => last == some v.cid
  | none => false

/-- `toPublish` after `case waiter = <-immediatePublish` -/
def toPubW (s : St) : Option Val := if isDup s.lastCid (cand s) then none else cand s

def skipW (s : St) : Nat :=
  match cand s with
  | some v => if isDup s.lastCid (some v) then max s.skipStamp v.stamp else s.skipStamp
  | none => s.skipStamp

def step (s0 : St) (ev : Ev) : Option St :=
  let s := { s0 with time := s0.time + 1 }
  match ev with
  | .update c =>
    some { s with upds := s.upds ++ [{ cid := c, startT := s0.time, startClock := s.clock }] }
  | .updStep i =>
    match s.upds[i]? with
    | none => none
    | some u =>
      let send (u : Upd) : St :=
        { s with slot := some ⟨s.clock + 1, u.cid⟩, clock := s.clock + 1, upds := s.upds.set i { u with pc := .done, doneT := some s0.time, sent := some (s.clock + 1) } }
      match u.pc with
      | .start =>
        match s.slot with
        | some v => some { s with slot := none, upds := s.upds.set i { u with pc := .drained v } }
        | none => some (send u)
      | .drained _ =>
        match s.slot with
        | none => some (send u)
        | some _ => some { s with upds := s.upds.set i { u with pc := .done, doneT := some s0.time } }
      | .done => none
  | .waitPub => some { s with waits := s.waits ++ [{ callClock := s.clock }] }
  | .closeCall => some { s with waits := s.waits ++ [{ callClock := s.clock, close := true }] }
  | .abandon j =>
    match s.waits[j]? with
    | some w =>
      if w.pc == .sending || w.pc == .waiting then
        some { s with waits := s.waits.set j { w with pc := .abandoned } }
      else none
    | none => none
  | .recvUpdate =>
    if !idle s then none else
    match s.slot with
    | none => none
    | some v =>
      if s.lastCid == some v.cid then
        -- already published: forget anything pending, resume reading waiters (fix), clean up
        some (afterSelect { s with slot := none, toPub := none, skipStamp := max s.skipStamp v.stamp, imm := true })
      else
        some { s with slot := none, toPub := some v, quick := true, longer := s.longer || s.toPub.isNone }
  | .recvWaiter j =>
    if !idle s || !s.imm then none else
    match s.waits[j]? with
    | none => none
    | some w =>
      if w.pc != .sending then none else
      -- "grab the latest value": the slot's value if there is one, else what is already pending;
      -- drop it when it equals the last published value
      some (afterSelect { s with waiter := some j, waits := s.waits.set j { w with pc := .waiting, acc := s.clock, inflight := maxDrained s.upds }, slot := none, toPub := toPubW s, skipStamp := skipW s })
  | .timerQuick => if idle s && s.quick then some (afterSelect s) else none
  | .timerLonger => if idle s && s.longer then some (afterSelect s) else none
  | .pubDone ok =>
    if !s.inPub || s.stopped then none else
    match s.toPub with
    | none => none
    | some v =>
      if ok then
        some (notify { s with inPub := false, lastCid := some v.cid, pubStamp := v.stamp, toPub := none, imm := true, log := s.log ++ [(v, true)] })
      else
        some { s with inPub := false, longer := true, imm := false, log := s.log ++ [(v, false)] }
  | .closeCancel j =>
    match s.waits[j]? with
    | some w =>
      if w.close && !w.cancelled && (w.pc == .released || w.pc == .abandoned) then
        some { s with cancelled := true, waits := s.waits.set j { w with cancelled := true } }
      else none
    | none => none
  | .ctxDone => if idle s && s.cancelled then some { s with stopped := true } else none
  | .closeRet j =>
    match s.waits[j]? with
    | some w =>
      if w.close && w.cancelled && !w.returned && s.stopped then
        some { s with waits := s.waits.set j { w with returned := true } }
      else none
    | none => none

/-- `NewRepublisher(pf, tshort, tlong, lastPublished)` -/
def init (last : Option Nat) (s : St) : Prop := s = { lastCid := last }

end C21
