import BoxoModel.C21.Lemmas2
/-!
C21 — invariants about the waiters (`WaitPub`, `Close`) and the "no value is lost" invariant.
-/
namespace C21

/-! ### list facts -/

theorem getElem?_set_self' {α : Type} {l : List α} {i : Nat} {a b : α} (h : l[i]? = some a) : (l.set i b)[i]? = some b := by
  have : i < l.length := by
    cases hlt : decide (i < l.length) with
    | true => simpa using hlt
    | false =>
      have : l.length ≤ i := by simpa using hlt
      rw [List.getElem?_eq_none this] at h; cases h
  simp [this]

theorem getElem?_set_ne' {α : Type} {l : List α} {i k : Nat} {b : α} (h : k ≠ i) : (l.set i b)[k]? = l[k]? := by
  simp [Ne.symm h]

theorem getElem?_append_one {α : Type} {l : List α} {a x : α} {k : Nat} (h : (l ++ [a])[k]? = some x) :
    l[k]? = some x ∨ (k = l.length ∧ x = a) := by
  by_cases hlt : k < l.length
  · rw [List.getElem?_append_left hlt] at h; exact Or.inl h
  · have hge : l.length ≤ k := Nat.le_of_not_lt hlt
    rw [List.getElem?_append_right hge] at h
    cases hd : k - l.length with
    | zero => rw [hd] at h; simp at h; exact Or.inr ⟨by omega, h.symm⟩
    | succ n => rw [hd] at h; simp at h

theorem foldl_max_mono (us : List Upd) (m : Nat) :
    m ≤ us.foldl (fun m u => match u.pc with
      | .drained v => max m v.stamp
      | _ => m) m := by
  induction us generalizing m with
  | nil => simp
  | cons u us ih =>
    simp only [List.foldl_cons]
    refine Nat.le_trans ?_ (ih _)
    split <;> omega

theorem le_maxDrained {us : List Upd} {i : Nat} {u : Upd} {v : Val} (h : us[i]? = some u) (hp : u.pc = .drained v) :
    v.stamp ≤ maxDrained us := by
  unfold maxDrained
  generalize 0 = m
  induction us generalizing i m with
  | nil => simp at h
  | cons w ws ih =>
    simp only [List.foldl_cons]
    cases i with
    | zero =>
      simp at h; subst h
      refine Nat.le_trans ?_ (foldl_max_mono ws _)
      simp [hp]; omega
    | succ n =>
      simp at h
      exact ih h _

theorem maxDrained_append_start (us : List Upd) (u : Upd) (h : u.pc = .start) : maxDrained (us ++ [u]) = maxDrained us := by
  simp [maxDrained, List.foldl_append, h]

/-! ### coverage of a stamp -/

/-- stamp `x` is published, superseded by a skipped (already published) value, or still pending in `toPublish` -/
def cov3 (s : St) (x : Nat) : Prop :=
  x ≤ s.pubStamp ∨ x ≤ s.skipStamp ∨ ∃ v, s.toPub = some v ∧ x ≤ v.stamp

/-- no value is ever lost: with an empty slot, every stamp issued so far is covered or held by an
Update between its two halves -/
def NoLoss (s : St) : Prop := s.slot = none → ∀ x, x ≤ s.clock → cov3 s x ∨ x ≤ maxDrained s.upds

structure WOK (s : St) (j : Nat) (w : Wait) : Prop where
  call : w.callClock ≤ s.clock
  acc : w.acc ≤ s.clock
  callAcc : w.pc = .waiting ∨ w.pc = .released → w.callClock ≤ w.acc
  orphan : w.pc = .waiting → s.waiter = some j
  served : s.waiter = some j → ∀ x, x ≤ w.acc → cov3 s x ∨ x ≤ w.inflight
  released : w.pc = .released → ∀ x, x ≤ w.acc → x ≤ s.pubStamp ∨ x ≤ s.skipStamp ∨ x ≤ w.inflight
  canc : w.cancelled = true → (w.pc = .released ∨ w.pc = .abandoned) ∧ s.cancelled = true ∧ w.close = true
  ret : w.returned = true → s.stopped = true ∧ w.cancelled = true

structure WInv (s : St) : Prop where
  loss : NoLoss s
  waits : ∀ j w, s.waits[j]? = some w → WOK s j w
  waiterValid : ∀ j, s.waiter = some j → ∃ w, s.waits[j]? = some w

/-- a waiter that the step does not touch keeps its invariant when stamps only grow -/
theorem WOK.frame {s s' : St} {j : Nat} {w : Wait} (h : WOK s j w) (hclock : s.clock ≤ s'.clock)
    (hwaiter : s'.waiter = s.waiter) (hpub : s.pubStamp ≤ s'.pubStamp) (hskip : s.skipStamp ≤ s'.skipStamp)
    (hcov : s.waiter = some j → ∀ x, x ≤ w.acc → cov3 s x → cov3 s' x)
    (hcanc : s.cancelled = true → s'.cancelled = true) (hstop : s.stopped = true → s'.stopped = true) : WOK s' j w := by
  refine ⟨Nat.le_trans h.call hclock, Nat.le_trans h.acc hclock, h.callAcc, ?_, ?_, ?_, ?_, ?_⟩
  · rw [hwaiter]; exact h.orphan
  · rw [hwaiter]; intro hw x hx
    exact (h.served hw x hx).imp (hcov hw x hx) id
  · intro hp x hx
    rcases h.released hp x hx with h1 | h1 | h1
    · exact Or.inl (Nat.le_trans h1 hpub)
    · exact Or.inr (Or.inl (Nat.le_trans h1 hskip))
    · exact Or.inr (Or.inr h1)
  · intro hc; obtain ⟨a, b, c⟩ := h.canc hc; exact ⟨a, hcanc b, c⟩
  · intro hr; obtain ⟨a, b⟩ := h.ret hr; exact ⟨hstop a, b⟩

/-- `close(waiter); waiter = nil` when nothing is left to publish -/
theorem notify_winv {x : St} (hl : NoLoss x) (hw : ∀ j w, x.waits[j]? = some w → WOK x j w)
    (hv : ∀ j, x.waiter = some j → ∃ w, x.waits[j]? = some w) (htp : x.toPub = none) : WInv (notify x) := by
  obtain ⟨n1, n2, n3, n4, n5, n6, n7, n8, n9, n10, n11, n12, n13, n14, n15, n16⟩ := notify_scalar x
  refine ⟨?_, ?_, ?_⟩
  · intro hs y hy
    rw [n1] at hs; rw [n13] at hy
    rcases hl hs y hy with h | h
    · left
      rcases h with h | h | ⟨v, hv', _⟩
      · exact Or.inl (n4 ▸ h)
      · exact Or.inr (Or.inl (n5 ▸ h))
      · rw [htp] at hv'; cases hv'
    · right; rw [n15]; exact h
  · intro j w' hj
    -- which waiter is it?
    have key : ∃ w, x.waits[j]? = some w ∧ (w' = w ∧ (x.waiter = some j → w.pc ≠ .waiting) ∨
        (x.waiter = some j ∧ w.pc = .waiting ∧ w' = { w with pc := .released })) := by
      unfold notify at hj
      cases hwt : x.waiter with
      | none => simp only [hwt] at hj; exact ⟨w', hj, Or.inl ⟨rfl, fun h => by cases h⟩⟩
      | some k =>
        simp only [hwt] at hj
        cases hk : x.waits[k]? with
        | none => simp only [hk] at hj; exact ⟨w', hj, Or.inl ⟨rfl, fun h => by
            cases h; obtain ⟨w, hw'⟩ := hv j hwt; rw [hk] at hw'; cases hw'⟩⟩
        | some wk =>
          simp only [hk] at hj
          by_cases hjk : j = k
          · subst hjk
            rw [getElem?_set_self' hk] at hj
            cases hj
            by_cases hp : wk.pc = .waiting
            · exact ⟨wk, hk, Or.inr ⟨rfl, hp, by simp [hp]⟩⟩
            · refine ⟨wk, hk, Or.inl ⟨?_, fun _ => hp⟩⟩
              have : (wk.pc == WPc.waiting) = false := by simpa using hp
              simp [this]
          · rw [getElem?_set_ne' hjk] at hj
            exact ⟨w', hj, Or.inl ⟨rfl, fun h => by cases h; exact absurd rfl hjk⟩⟩
    obtain ⟨w, hwj, hcase⟩ := key
    have hW := hw j w hwj
    rcases hcase with ⟨rfl, hnw⟩ | ⟨hwt, hp, rfl⟩
    · refine ⟨n13 ▸ hW.call, n13 ▸ hW.acc, hW.callAcc, ?_, ?_, ?_, ?_, ?_⟩
      · intro hp; exact absurd hp (hnw (hW.orphan hp))
      · rw [n16]; intro h; cases h
      · rw [n4, n5]; exact hW.released
      · rw [n10]; exact hW.canc
      · rw [n11]; exact hW.ret
    · refine ⟨n13 ▸ hW.call, n13 ▸ hW.acc, fun _ => hW.callAcc (Or.inl hp), ?_, ?_, ?_, ?_, ?_⟩
      · intro h; cases h
      · rw [n16]; intro h; cases h
      · intro _ y hy
        rw [n4, n5]
        rcases hW.served hwt y hy with h | h
        · rcases h with h | h | ⟨v, hv', _⟩
          · exact Or.inl h
          · exact Or.inr (Or.inl h)
          · rw [htp] at hv'; cases hv'
        · exact Or.inr (Or.inr h)
      · rw [n10]; intro hc
        have := hW.canc hc
        rw [hp] at this; rcases this.1 with h | h <;> cases h
      · rw [n11]; exact hW.ret
  · rw [n16]; intro j h; cases h

/-- WOK / NoLoss only read these fields -/
theorem WOK.congr {s s' : St} {j : Nat} {w : Wait} (h : WOK s j w) (h1 : s'.clock = s.clock) (h2 : s'.waiter = s.waiter)
    (h3 : s'.pubStamp = s.pubStamp) (h4 : s'.skipStamp = s.skipStamp) (h5 : s'.toPub = s.toPub)
    (h6 : s'.cancelled = s.cancelled) (h7 : s'.stopped = s.stopped) : WOK s' j w := by
  refine h.frame (by rw [h1]; exact Nat.le_refl _) h2 (by rw [h3]; exact Nat.le_refl _) (by rw [h4]; exact Nat.le_refl _) ?_
    (by rw [h6]; exact id) (by rw [h7]; exact id)
  intro _ x _ hc
  unfold cov3 at *
  rw [h3, h4, h5]; exact hc

theorem NoLoss.congr {s s' : St} (h : NoLoss s) (h0 : s'.slot = s.slot) (h1 : s'.clock = s.clock)
    (h3 : s'.pubStamp = s.pubStamp) (h4 : s'.skipStamp = s.skipStamp) (h5 : s'.toPub = s.toPub)
    (h6 : s'.upds = s.upds) : NoLoss s' := by
  unfold NoLoss cov3 at *
  rw [h0, h1, h3, h4, h5, h6]; exact h

/-- the code after the big select, for the waiter invariants -/
theorem afterSelect_winv {x : St} (hl : NoLoss x) (hw : ∀ j w, x.waits[j]? = some w → WOK x j w)
    (hv : ∀ j, x.waiter = some j → ∃ w, x.waits[j]? = some w) : WInv (afterSelect x) := by
  by_cases ht : x.toPub = none
  · rw [afterSelect_none ht]
    exact notify_winv (x := { x with quick := false, longer := false })
      (hl.congr rfl rfl rfl rfl rfl rfl) (fun j w h => (hw j w h).congr rfl rfl rfl rfl rfl rfl rfl) hv ht
  · rw [afterSelect_some ht]
    exact ⟨hl.congr rfl rfl rfl rfl rfl rfl, fun j w h => (hw j w h).congr rfl rfl rfl rfl rfl rfl rfl, hv⟩

end C21
