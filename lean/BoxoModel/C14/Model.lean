/-
C14 — ipld/merkledag/dagutils: executable model of Diff and ApplyChange.

Transcribed from /repo/ipld/merkledag/dagutils/{diff.go,utils.go} and the ProtoNode link operations they use:
  ProtoNode (data + links kept sorted by name)          ~ `T.n data kids`, `F` = the sorted link list
  GetNodeLink / ResolveLink                             ~ `F.find`
  RemoveNodeLink (removes every link of that name)      ~ `F.remove`
  AddNodeLink (append + stable sort by name)            ~ `F.insert`
  Diff (diff.go:103)                                    ~ `diff`, `diffKids`, `onlyIn`
  ApplyChange (diff.go:47) / Editor.InsertNodeAtPath /
  Editor.RmLink (utils.go)                              ~ `apply1`, `insertAt`, `rmAt`, `applyAll`
  non-ProtoNode (raw) nodes                             ~ `T.raw` (data ≥ 1000), `modPair`; ApplyChange as repaired
                                                          by the fix that lets Add/Mod insert a node of any codec

Link names are natural numbers (the harness renders them as fixed-width strings, so the byte order is the
numeric order and no name contains '/', "." or ".."); a path is the list of names that `path.Join` glues and
`strings.Split` cuts again.  CID equality is structural equality of trees (equal trees have equal CIDs; the
converse is collision-freeness of the hash).  The Editor's temporary/source DAG services are not modelled: every
node it wrote or was given is available (true after fix 8da531b, which stops the Editor from deleting previous
node versions from its temporary store).  Core-only: imported by the line-protocol driver.
-/
namespace C14

mutual
inductive T where
  | n (data : Nat) (kids : F)
  deriving DecidableEq
inductive F where
  | nil
  | cons (name : Nat) (t : T) (rest : F)
  deriving DecidableEq
end

def T.data : T → Nat
  | .n d _ => d
def T.kids : T → F
  | .n _ k => k

def F.isNil : F → Bool
  | .nil => true
  | .cons _ _ _ => false

/-- a node that is not a dag-pb ProtoNode (a raw leaf): the harness renders data ≥ 1000 as a raw block.
Diff treats it as opaque, the Editor cannot descend into or edit it (ErrNotProtobuf). -/
def T.raw (t : T) : Bool := decide (1000 ≤ t.data)

/-- Diff's `!okA || !okB || (len(linksA) == 0 && len(linksB) == 0)`: the pair is reported as one Mod -/
def modPair (a b : T) : Bool := a.raw || b.raw || (a.kids.isNil && b.kids.isNil)

/-- first link with that name -/
def F.find : F → Nat → Option T
  | .nil, _ => none
  | .cons m t r, name => if m = name then some t else r.find name

/-- RemoveNodeLink: drops every link with that name -/
def F.remove : F → Nat → F
  | .nil, _ => .nil
  | .cons m t r, name => if m = name then r.remove name else .cons m t (r.remove name)

/-- AddNodeLink: append, then stable sort by name = insert after the last link whose name is ≤ the new one -/
def F.insert : F → Nat → T → F
  | .nil, name, c => .cons name c .nil
  | .cons m t r, name, c => if name < m then .cons name c (.cons m t r) else .cons m t (r.insert name c)

/-- `_ = root.RemoveNodeLink(name); root.AddNodeLink(name, child)` -/
def F.set (k : F) (name : Nat) (c : T) : F := (k.remove name).insert name c

inductive Ch where
  | add (path : List Nat) (after : T)
  | rm (path : List Nat) (before : T)
  | mod (path : List Nat) (before after : T)
  deriving DecidableEq

/-- `c.Path = path.Join(linkA.Name, c.Path)` -/
def Ch.pre (name : Nat) : Ch → Ch
  | .add p a => .add (name :: p) a
  | .rm p b => .rm (name :: p) b
  | .mod p b a => .mod (name :: p) b a

/-- the links of the first list whose name does not resolve in the second (cleanA / cleanB of Diff) -/
def onlyIn : F → F → List (Nat × T)
  | .nil, _ => []
  | .cons m t r, other => (if (other.find m).isSome then [] else [(m, t)]) ++ onlyIn r other

mutual
/-- `Diff(a, b)` -/
def diff : T → T → List Ch
  | .n da ka, b =>
    if T.n da ka = b then []
    else if modPair (.n da ka) b then [.mod [] (.n da ka) b]
    else
      diffKids ka b.kids
        ++ (onlyIn ka b.kids).map (fun p => Ch.rm [p.1] p.2)
        ++ (onlyIn b.kids ka).map (fun p => Ch.add [p.1] p.2)
/-- the `for _, linkA := range linksA` loop -/
def diffKids : F → F → List Ch
  | .nil, _ => []
  | .cons name ta rest, kb =>
    (match kb.find name with
     | none => []
     | some tb => if ta = tb then [] else (diff ta tb).map (Ch.pre name))
      ++ diffKids rest kb
end

/-- Editor.InsertNodeAtPath (create = nil): `none` = error -/
def insertAt : T → List Nat → T → Option T
  | _, [], _ => none                                    -- Split("") = [""]: "cannot create link with no name"
  | .n d k, [name], c => if T.raw (.n d k) then none else some (.n d (k.set name c))     -- addLink
  | .n d k, name :: p :: ps, c =>
    if T.raw (.n d k) then none else                    -- GetLinkedProtoNode: ErrNotProtobuf
    match k.find name with
    | none => none                                      -- ErrLinkNotFound
    | some sub =>
      match insertAt sub (p :: ps) c with
      | none => none
      | some sub' => some (.n d (k.set name sub'))

/-- Editor.RmLink -/
def rmAt : T → List Nat → Option T
  | _, [] => none                                       -- RemoveNodeLink(""): ErrLinkNotFound
  | .n d k, [name] => if T.raw (.n d k) then none else if (k.find name).isSome then some (.n d (k.remove name)) else none
  | .n d k, name :: p :: ps =>
    if T.raw (.n d k) then none else
    match k.find name with
    | none => none
    | some sub =>
      match rmAt sub (p :: ps) with
      | none => none
      | some sub' => some (.n d (k.set name sub'))

def apply1 (t : T) : Ch → Option T
  | .add p c => insertAt t p c
  | .rm p _ => rmAt t p
  | .mod p _ c => match rmAt t p with
    | none => none
    | some t' => insertAt t' p c

/-- ApplyChange -/
def applyAll : T → List Ch → Option T
  | t, [] => some t
  | t, c :: cs => match apply1 t c with
    | none => none
    | some t' => applyAll t' cs

/-! decidable form of the class of pairs for which `applyAll a (diff a b) = some b` is proved
(`C14.Good`, `C14.c14_goodB_iff`); printed by the driver and compared with the harness's classification -/
mutual
def subB : T → T → Bool
  | .n da ka, b => decide (T.n da ka = b) || modPair (.n da ka) b ||
      (!modPair (.n da ka) b && da == b.data && subKB ka b.kids)
def subKB : F → F → Bool
  | .nil, _ => true
  | .cons name ta rest, kb => (match kb.find name with | some tb => subB ta tb | none => true) && subKB rest kb
end

def goodB (a b : T) : Bool :=
  decide (a = b) || (!modPair a b && a.data == b.data && subKB a.kids b.kids)

end C14
