import BoxoModel.C14.Model
/-! Specification vocabulary and helper lemmas for C14. Property theorems: `Props/C14.lean`. -/
namespace C14

/-! ## well-formed trees: link names strictly increasing at every node -/

/-- every name of the list is greater than `b` (only the head matters for a sorted list) -/
def F.lb : F → Nat → Prop
  | .nil, _ => True
  | .cons m _ _, b => b < m

mutual
def T.WF : T → Prop
  | .n _ k => k.WF
def F.WF : F → Prop
  | .nil => True
  | .cons m t r => t.WF ∧ r.WF ∧ r.lb m
end

theorem F.lb_mono {k : F} {a b : Nat} (h : k.lb b) (hab : a ≤ b) : k.lb a := by
  cases k with
  | nil => trivial
  | cons m t r => simp only [F.lb] at h ⊢; omega

/-- nothing at or below the lower bound is found -/
theorem F.find_none_of_lb : ∀ (k : F) (b name : Nat), k.WF → k.lb b → name ≤ b → k.find name = none
  | .nil, _, _, _, _, _ => rfl
  | .cons m t r, b, name, hw, hl, hn => by
    simp only [F.lb] at hl
    simp only [F.WF] at hw
    simp only [F.find]
    have : m ≠ name := by omega
    simp only [this, if_false]
    exact F.find_none_of_lb r m name hw.2.1 hw.2.2 (by omega)

theorem F.find_WF : ∀ (k : F) (name : Nat) (t : T), k.WF → k.find name = some t → t.WF
  | .nil, _, _, _, h => by simp [F.find] at h
  | .cons m t' r, name, t, hw, h => by
    simp only [F.WF] at hw
    simp only [F.find] at h
    split at h
    · cases h; exact hw.1
    · exact F.find_WF r name t hw.2.1 h

/-! ## find after remove / insert / set -/

theorem F.find_remove : ∀ (k : F) (name m : Nat), (k.remove name).find m = if m = name then none else k.find m
  | .nil, _, _ => by simp [F.remove, F.find]
  | .cons x t r, name, m => by
    have ih := F.find_remove r name m
    simp only [F.remove]
    by_cases hx : x = name
    · subst hx
      simp only [if_true, ih, F.find]
      by_cases hm : m = x
      · simp [hm]
      · have : x ≠ m := fun h => hm h.symm
        simp [hm, this]
    · simp only [hx, if_false, F.find, ih]
      by_cases hm : m = name
      · subst hm; simp [hx]
      · simp [hm]

theorem F.find_insert : ∀ (k : F) (name : Nat) (c : T) (m : Nat), k.find name = none →
    (k.insert name c).find m = if m = name then some c else k.find m
  | .nil, name, c, m, _ => by
    simp only [F.insert, F.find]
    by_cases hm : m = name
    · simp [hm]
    · have : name ≠ m := fun h => hm h.symm
      simp [hm, this]
  | .cons x t r, name, c, m, hn => by
    simp only [F.find] at hn
    have hx : x ≠ name := by
      intro h; simp [h] at hn
    simp only [hx, if_false] at hn
    have ih := F.find_insert r name c m hn
    simp only [F.insert]
    by_cases hlt : name < x
    · simp only [hlt, if_true, F.find]
      by_cases hm : m = name
      · simp [hm]
      · have : name ≠ m := fun h => hm h.symm
        simp [hm, this]
    · simp only [hlt, if_false, F.find, ih]
      by_cases hm : m = name
      · subst hm; simp [hx]
      · simp [hm]

theorem F.find_set (k : F) (name : Nat) (c : T) (m : Nat) :
    (k.set name c).find m = if m = name then some c else k.find m := by
  unfold F.set
  rw [F.find_insert _ _ _ _ (by rw [F.find_remove]; simp), F.find_remove]
  by_cases hm : m = name <;> simp [hm]

/-! ## well-formedness is preserved -/

theorem F.lb_remove : ∀ (k : F) (name b : Nat), k.WF → k.lb b → (k.remove name).lb b
  | .nil, _, _, _, _ => trivial
  | .cons x t r, name, b, hw, hl => by
    simp only [F.WF] at hw
    simp only [F.lb] at hl
    simp only [F.remove]
    split
    · exact F.lb_remove r name b hw.2.1 (F.lb_mono hw.2.2 (by omega))
    · exact hl

theorem F.WF_remove : ∀ (k : F) (name : Nat), k.WF → (k.remove name).WF
  | .nil, _, _ => trivial
  | .cons x t r, name, hw => by
    simp only [F.WF] at hw
    simp only [F.remove]
    split
    · exact F.WF_remove r name hw.2.1
    · exact ⟨hw.1, F.WF_remove r name hw.2.1, F.lb_remove r name x hw.2.1 hw.2.2⟩

theorem F.lb_insert : ∀ (k : F) (name : Nat) (c : T) (b : Nat), k.lb b → b < name → (k.insert name c).lb b
  | .nil, _, _, _, _, h => h
  | .cons x t r, name, c, b, hl, h => by
    simp only [F.insert]
    split
    · exact h
    · exact hl

theorem F.WF_insert : ∀ (k : F) (name : Nat) (c : T), k.WF → c.WF → k.find name = none → (k.insert name c).WF
  | .nil, _, _, _, hc, _ => ⟨hc, trivial, trivial⟩
  | .cons x t r, name, c, hw, hc, hn => by
    simp only [F.find] at hn
    have hx : x ≠ name := by
      intro h; simp [h] at hn
    simp only [hx, if_false] at hn
    simp only [F.WF] at hw
    simp only [F.insert]
    split
    · rename_i hlt
      exact ⟨hc, ⟨hw.1, hw.2.1, hw.2.2⟩, hlt⟩
    · rename_i hlt
      exact ⟨hw.1, F.WF_insert r name c hw.2.1 hc hn, F.lb_insert r name c x hw.2.2 (by omega)⟩

theorem F.WF_set (k : F) (name : Nat) (c : T) (hw : k.WF) (hc : c.WF) : (k.set name c).WF :=
  F.WF_insert _ _ _ (F.WF_remove k name hw) hc (by rw [F.find_remove]; simp)

/-! ## extensionality of sorted link lists -/

theorem F.ext : ∀ (k k' : F), k.WF → k'.WF → (∀ m, k.find m = k'.find m) → k = k'
  | .nil, .nil, _, _, _ => rfl
  | .nil, .cons x t r, _, _, h => by
    have := h x; simp [F.find] at this
  | .cons x t r, .nil, _, _, h => by
    have := h x; simp [F.find] at this
  | .cons x t r, .cons x' t' r', hw, hw', h => by
    simp only [F.WF] at hw hw'
    have hxx : x = x' := by
      rcases Nat.lt_trichotomy x x' with hlt | heq | hgt
      · have h1 := h x
        simp only [F.find, if_true] at h1
        have : x' ≠ x := by omega
        simp only [this, if_false] at h1
        rw [F.find_none_of_lb r' x' x hw'.2.1 hw'.2.2 (by omega)] at h1
        cases h1
      · exact heq
      · have h1 := h x'
        simp only [F.find, if_true] at h1
        have : x ≠ x' := by omega
        simp only [this, if_false] at h1
        rw [F.find_none_of_lb r x x' hw.2.1 hw.2.2 (by omega)] at h1
        cases h1
    subst hxx
    have htt : t = t' := by
      have h1 := h x
      simpa [F.find] using h1
    subst htt
    have hrr : r = r' := by
      apply F.ext r r' hw.2.1 hw'.2.1
      intro m
      by_cases hm : m ≤ x
      · rw [F.find_none_of_lb r x m hw.2.1 hw.2.2 hm, F.find_none_of_lb r' x m hw'.2.1 hw'.2.2 hm]
      · have h1 := h m
        have : x ≠ m := by omega
        simpa [F.find, this] using h1
    rw [hrr]

theorem F.set_same (k : F) (name : Nat) (t : T) (hw : k.WF) (hf : k.find name = some t) : k.set name t = k := by
  apply F.ext _ _ (F.WF_set k name t hw (F.find_WF k name t hw hf)) hw
  intro m
  rw [F.find_set]
  by_cases hm : m = name
  · subst hm; simp [hf]
  · simp [hm]

theorem F.set_set (k : F) (name : Nat) (t1 t2 : T) (hw : k.WF) (h1 : t1.WF) (h2 : t2.WF) :
    (k.set name t1).set name t2 = k.set name t2 := by
  apply F.ext _ _ (F.WF_set _ name t2 (F.WF_set k name t1 hw h1) h2) (F.WF_set k name t2 hw h2)
  intro m
  simp only [F.find_set]
  by_cases hm : m = name <;> simp [hm]

theorem F.remove_set (k : F) (name : Nat) (t : T) (hw : k.WF) (ht : t.WF) :
    (k.set name t).remove name = k.remove name := by
  apply F.ext _ _ (F.WF_remove _ name (F.WF_set k name t hw ht)) (F.WF_remove k name hw)
  intro m
  simp only [F.find_remove, F.find_set]
  by_cases hm : m = name <;> simp [hm]

/-! ## the editor -/

def Ch.path : Ch → List Nat
  | .add p _ => p
  | .rm p _ => p
  | .mod p _ _ => p

/-- the tree a change inserts is well-formed -/
def Ch.WF : Ch → Prop
  | .add _ a => a.WF
  | .rm _ _ => True
  | .mod _ _ a => a.WF

theorem applyAll_append : ∀ (xs ys : List Ch) (t : T),
    applyAll t (xs ++ ys) = (applyAll t xs).bind (fun t' => applyAll t' ys)
  | [], ys, t => rfl
  | x :: xs, ys, t => by
    simp only [List.cons_append, applyAll]
    cases apply1 t x with
    | none => rfl
    | some t' => exact applyAll_append xs ys t'

theorem insertAt_WF : ∀ (p : List Nat) (t c t' : T), t.WF → c.WF → insertAt t p c = some t' → t'.WF
  | [], _, _, _, _, _, h => by simp [insertAt] at h
  | [name], .n d k, c, t', hw, hc, h => by
    simp only [insertAt] at h
    split at h
    · cases h
    · simp only [Option.some.injEq] at h
      subst h
      exact F.WF_set k name c hw hc
  | name :: q :: qs, .n d k, c, t', hw, hc, h => by
    simp only [insertAt] at h
    split at h
    · cases h
    cases hf : k.find name with
    | none => simp [hf] at h
    | some sub =>
      simp only [hf] at h
      cases hi : insertAt sub (q :: qs) c with
      | none => simp [hi] at h
      | some sub' =>
        simp only [hi, Option.some.injEq] at h
        subst h
        exact F.WF_set k name sub' hw (insertAt_WF (q :: qs) sub c sub' (F.find_WF k name sub hw hf) hc hi)

theorem rmAt_WF : ∀ (p : List Nat) (t t' : T), t.WF → rmAt t p = some t' → t'.WF
  | [], _, _, _, h => by simp [rmAt] at h
  | [name], .n d k, t', hw, h => by
    simp only [rmAt] at h
    split at h
    · cases h
    · split at h
      · simp only [Option.some.injEq] at h; subst h; exact F.WF_remove k name hw
      · cases h
  | name :: q :: qs, .n d k, t', hw, h => by
    simp only [rmAt] at h
    split at h
    · cases h
    cases hf : k.find name with
    | none => simp [hf] at h
    | some sub =>
      simp only [hf] at h
      cases hi : rmAt sub (q :: qs) with
      | none => simp [hi] at h
      | some sub' =>
        simp only [hi, Option.some.injEq] at h
        subst h
        exact F.WF_set k name sub' hw (rmAt_WF (q :: qs) sub sub' (F.find_WF k name sub hw hf) hi)

theorem apply1_WF (t t' : T) (ch : Ch) (hw : t.WF) (hc : ch.WF) (h : apply1 t ch = some t') : t'.WF := by
  cases ch with
  | add p a => exact insertAt_WF p t a t' hw hc h
  | rm p b => exact rmAt_WF p t t' hw h
  | mod p b a =>
    simp only [apply1] at h
    cases hr : rmAt t p with
    | none => simp [hr] at h
    | some t1 =>
      simp only [hr] at h
      exact insertAt_WF p t1 a t' (rmAt_WF p t t1 hw hr) hc h

theorem raw_n (d : Nat) (k k' : F) : T.raw (.n d k) = T.raw (.n d k') := rfl

theorem insertAt_cons (d : Nat) (k : F) (name : Nat) (p : List Nat) (c t : T) (hp : p ≠ [])
    (hf : k.find name = some t) (hr : T.raw (.n d k) = false) :
    insertAt (.n d k) (name :: p) c = (insertAt t p c).map (fun t' => .n d (k.set name t')) := by
  cases p with
  | nil => exact absurd rfl hp
  | cons q qs =>
    simp only [insertAt, hf, hr, Bool.false_eq_true, if_false]
    cases insertAt t (q :: qs) c <;> rfl

theorem rmAt_cons (d : Nat) (k : F) (name : Nat) (p : List Nat) (t : T) (hp : p ≠ [])
    (hf : k.find name = some t) (hr : T.raw (.n d k) = false) :
    rmAt (.n d k) (name :: p) = (rmAt t p).map (fun t' => .n d (k.set name t')) := by
  cases p with
  | nil => exact absurd rfl hp
  | cons q qs =>
    simp only [rmAt, hf, hr, Bool.false_eq_true, if_false]
    cases rmAt t (q :: qs) <;> rfl

/-- a change with a non-empty path, prefixed with `name`, acts on the child `name` -/
theorem apply1_pre (d : Nat) (k : F) (name : Nat) (t : T) (ch : Ch) (hw : k.WF) (hf : k.find name = some t)
    (hne : ch.path ≠ []) (hc : ch.WF) (hraw : T.raw (.n d k) = false) :
    apply1 (.n d k) (ch.pre name) = (apply1 t ch).map (fun t' => .n d (k.set name t')) := by
  have htw := F.find_WF k name t hw hf
  cases ch with
  | add p a => exact insertAt_cons d k name p a t hne hf hraw
  | rm p b => exact rmAt_cons d k name p t hne hf hraw
  | mod p b a =>
    simp only [apply1, Ch.pre]
    rw [rmAt_cons d k name p t hne hf hraw]
    cases hr : rmAt t p with
    | none => rfl
    | some t1 =>
      have h1 := rmAt_WF p t t1 htw hr
      simp only [Option.map_some]
      rw [insertAt_cons d (k.set name t1) name p a t1 hne (by rw [F.find_set]; simp) hraw]
      cases hi : insertAt t1 p a with
      | none => rfl
      | some t2 =>
        have h2 := insertAt_WF p t1 a t2 h1 hc hi
        simp only [Option.map_some]
        rw [F.set_set k name t1 t2 hw h1 h2]

theorem applyAll_pre (d : Nat) (name : Nat) (hr : T.raw (.n d .nil) = false) :
    ∀ (cs : List Ch) (k : F) (t t' : T), k.WF → k.find name = some t →
    (∀ ch ∈ cs, ch.path ≠ [] ∧ ch.WF) → applyAll t cs = some t' →
    applyAll (.n d k) (cs.map (Ch.pre name)) = some (.n d (k.set name t'))
  | [], k, t, t', hw, hf, _, h => by
    simp only [applyAll, Option.some.injEq] at h
    subst h
    simp only [List.map_nil, applyAll]
    rw [F.set_same k name t hw hf]
  | ch :: cs, k, t, t', hw, hf, hall, h => by
    have hch := hall ch List.mem_cons_self
    have htw := F.find_WF k name t hw hf
    simp only [applyAll] at h
    cases h1 : apply1 t ch with
    | none => simp [h1] at h
    | some t1 =>
      simp only [h1] at h
      have ht1 := apply1_WF t t1 ch htw hch.2 h1
      simp only [List.map_cons, applyAll]
      rw [apply1_pre d k name t ch hw hf hch.1 hch.2 hr, h1]
      simp only [Option.map_some]
      have := applyAll_pre d name hr cs (k.set name t1) t1 t' (F.WF_set k name t1 hw ht1)
        (by rw [F.find_set]; simp) (fun c hc => hall c (List.mem_cons_of_mem _ hc)) h
      rw [this, F.set_set k name t1 t' hw ht1]
      -- t' is well-formed: it is the result of applying well-formed changes to a well-formed tree
      clear this
      have : ∀ (cs : List Ch) (u u' : T), u.WF → (∀ c ∈ cs, c.WF) → applyAll u cs = some u' → u'.WF := by
        intro cs
        induction cs with
        | nil => intro u u' hu _ h; simp only [applyAll, Option.some.injEq] at h; subst h; exact hu
        | cons c cs ih =>
          intro u u' hu hcs h
          simp only [applyAll] at h
          cases h2 : apply1 u c with
          | none => simp [h2] at h
          | some u1 =>
            simp only [h2] at h
            exact ih u1 u' (apply1_WF u u1 c hu (hcs c List.mem_cons_self) h2)
              (fun c' hc' => hcs c' (List.mem_cons_of_mem _ hc')) h
      exact this cs t1 t' ht1 (fun c hc => (hall c (List.mem_cons_of_mem _ hc)).2) h

/-! ## the class of pairs on which Diff carries enough information -/

mutual
/-- `Sub a b`: a matched pair below the root that Diff + ApplyChange reproduce: equal, or reported as one Mod
(either is not a ProtoNode, or both are without links), or equal `data` and all name-matched children again `Sub` -/
def Sub : T → T → Prop
  | .n da ka, b => T.n da ka = b ∨ modPair (.n da ka) b = true ∨
      (modPair (.n da ka) b = false ∧ da = b.data ∧ SubK ka b.kids)
def SubK : F → F → Prop
  | .nil, _ => True
  | .cons name ta rest, kb => (∀ tb, kb.find name = some tb → Sub ta tb) ∧ SubK rest kb
end

/-- the same at the root, where a Mod of the whole node cannot be applied -/
def Good (a b : T) : Prop :=
  a = b ∨ (modPair a b = false ∧ a.data = b.data ∧ SubK a.kids b.kids)

/-! ## Remove and Add changes of one level -/

def rmAll (k : F) (l : List (Nat × T)) : F := l.foldl (fun k p => k.remove p.1) k
def addAll (k : F) (l : List (Nat × T)) : F := l.foldl (fun k p => k.set p.1 p.2) k

theorem onlyIn_WF : ∀ (r other : F), r.WF → ∀ p ∈ onlyIn r other, p.2.WF
  | .nil, _, _, p, hp => by simp [onlyIn] at hp
  | .cons x t r, other, hw, p, hp => by
    simp only [F.WF] at hw
    simp only [onlyIn, List.mem_append] at hp
    rcases hp with hp | hp
    · split at hp
      · simp at hp
      · simp at hp; subst hp; exact hw.1
    · exact onlyIn_WF r other hw.2.1 p hp

theorem apply_rms (d : Nat) (other : F) (hr : T.raw (.n d .nil) = false) : ∀ (r k : F), r.WF →
    (∀ m t, r.find m = some t → other.find m = none → k.find m = some t) →
    applyAll (.n d k) ((onlyIn r other).map (fun p => Ch.rm [p.1] p.2)) = some (.n d (rmAll k (onlyIn r other)))
  | .nil, k, _, _ => rfl
  | .cons x t r, k, hw, hk => by
    simp only [F.WF] at hw
    have hrx : r.find x = none := F.find_none_of_lb r x x hw.2.1 hw.2.2 (Nat.le_refl _)
    have hk' : ∀ k' : F, (∀ m, m ≠ x → k'.find m = k.find m) →
        ∀ m t', r.find m = some t' → other.find m = none → k'.find m = some t' := by
      intro k' hsame m t' hm hom
      have hmx : m ≠ x := by intro h; rw [h, hrx] at hm; cases hm
      rw [hsame m hmx]
      apply hk _ _ _ hom
      simp only [F.find]
      have : x ≠ m := fun h => hmx h.symm
      simp [this, hm]
    simp only [onlyIn]
    by_cases ho : (other.find x).isSome = true
    · simp only [ho, if_true, List.nil_append]
      exact apply_rms d other hr r k hw.2.1 (hk' k (fun _ _ => rfl))
    · have hon : other.find x = none := by
        cases h : other.find x with
        | none => rfl
        | some _ => rw [h] at ho; exact absurd rfl ho
      simp only [ho, Bool.false_eq_true, if_false, List.cons_append, List.nil_append, List.map_cons, applyAll, apply1, rmAt]
      have hx : k.find x = some t := hk x t (by simp [F.find]) hon
      have hrk : T.raw (.n d k) = false := hr
      simp only [hx, Option.isSome_some, if_true, hrk, Bool.false_eq_true, if_false]
      have := apply_rms d other hr r (k.remove x) hw.2.1 (hk' _ (fun m hm => by rw [F.find_remove]; simp [hm]))
      simpa [rmAll] using this

theorem apply_adds (d : Nat) (hr : T.raw (.n d .nil) = false) : ∀ (l : List (Nat × T)) (k : F),
    applyAll (.n d k) (l.map (fun p => Ch.add [p.1] p.2)) = some (.n d (addAll k l))
  | [], k => rfl
  | p :: l, k => by
    have hrk : T.raw (.n d k) = false := hr
    simp only [List.map_cons, applyAll, apply1, insertAt, hrk, Bool.false_eq_true, if_false]
    have := apply_adds d hr l (k.set p.1 p.2)
    simpa [addAll] using this

theorem rmAll_WF : ∀ (l : List (Nat × T)) (k : F), k.WF → (rmAll k l).WF
  | [], k, h => h
  | p :: l, k, h => by
    simp only [rmAll, List.foldl_cons]
    exact rmAll_WF l _ (F.WF_remove k p.1 h)

theorem addAll_WF : ∀ (l : List (Nat × T)) (k : F), k.WF → (∀ p ∈ l, p.2.WF) → (addAll k l).WF
  | [], k, h, _ => h
  | p :: l, k, h, hl => by
    simp only [addAll, List.foldl_cons]
    exact addAll_WF l _ (F.WF_set k p.1 p.2 h (hl p List.mem_cons_self)) (fun q hq => hl q (List.mem_cons_of_mem _ hq))

theorem find_rmAll (other : F) (m : Nat) : ∀ (r k : F),
    (rmAll k (onlyIn r other)).find m = if (r.find m).isSome = true ∧ other.find m = none then none else k.find m
  | .nil, k => by simp [onlyIn, rmAll, F.find]
  | .cons x t r, k => by
    simp only [onlyIn]
    by_cases ho : (other.find x).isSome = true
    · simp only [ho, if_true, List.nil_append]
      rw [find_rmAll other m r k]
      simp only [F.find]
      by_cases hxm : x = m
      · subst hxm
        have : other.find x ≠ none := by intro h; rw [h] at ho; cases ho
        simp [this]
      · simp [hxm]
    · have hon : other.find x = none := by
        cases h : other.find x with
        | none => rfl
        | some _ => rw [h] at ho; exact absurd rfl ho
      simp only [ho, Bool.false_eq_true, if_false, List.cons_append, List.nil_append, rmAll, List.foldl_cons]
      have := find_rmAll other m r (k.remove x)
      simp only [rmAll] at this
      rw [this, F.find_remove]
      simp only [F.find]
      by_cases hxm : x = m
      · subst hxm; simp [hon]
      · have : m ≠ x := fun h => hxm h.symm
        simp [hxm, this]

theorem find_addAll (other : F) (m : Nat) : ∀ (r k : F), r.WF →
    (addAll k (onlyIn r other)).find m =
      if other.find m = none then (match r.find m with | some t => some t | none => k.find m) else k.find m
  | .nil, k, _ => by simp [onlyIn, addAll, F.find]
  | .cons x t r, k, hw => by
    simp only [F.WF] at hw
    have hrx : r.find x = none := F.find_none_of_lb r x x hw.2.1 hw.2.2 (Nat.le_refl _)
    simp only [onlyIn]
    by_cases ho : (other.find x).isSome = true
    · simp only [ho, if_true, List.nil_append]
      rw [find_addAll other m r k hw.2.1]
      simp only [F.find]
      by_cases hxm : x = m
      · subst hxm
        have : other.find x ≠ none := by intro h; rw [h] at ho; cases ho
        simp [this]
      · simp [hxm]
    · have hon : other.find x = none := by
        cases h : other.find x with
        | none => rfl
        | some _ => rw [h] at ho; exact absurd rfl ho
      simp only [ho, Bool.false_eq_true, if_false, List.cons_append, List.nil_append, addAll, List.foldl_cons]
      have := find_addAll other m r (k.set x t) hw.2.1
      simp only [addAll] at this
      rw [this, F.find_set]
      simp only [F.find]
      by_cases hxm : x = m
      · subst hxm; simp [hon, hrx]
      · have : m ≠ x := fun h => hxm h.symm
        simp [hxm, this]

/-! ## the effect of the recursive part of Diff on one level -/

/-- the links of the node after the changes of `diffKids rest kb` have been applied -/
def patch : F → F → F → F
  | .nil, _, kc => kc
  | .cons name ta rest, kb, kc =>
    patch rest kb (match kb.find name with
      | some tb => if ta = tb then kc else kc.set name tb
      | none => kc)

theorem patch_WF : ∀ (rest kb kc : F), kb.WF → kc.WF → (patch rest kb kc).WF
  | .nil, _, _, _, h => h
  | .cons name ta rest, kb, kc, hb, hc => by
    simp only [patch]
    apply patch_WF rest kb _ hb
    cases hf : kb.find name with
    | none => exact hc
    | some tb =>
      simp only []
      split
      · exact hc
      · exact F.WF_set kc name tb hc (F.find_WF kb name tb hb hf)

theorem find_patch (kb : F) (m : Nat) : ∀ (rest kc : F), rest.WF → (∀ x t, rest.find x = some t → kc.find x = some t) →
    (patch rest kb kc).find m =
      (match rest.find m, kb.find m with
       | some _, some tb => some tb
       | _, _ => kc.find m)
  | .nil, kc, _, _ => by simp [patch, F.find]
  | .cons name ta rest, kc, hw, hk => by
    simp only [F.WF] at hw
    have hrx : rest.find name = none := F.find_none_of_lb rest name name hw.2.1 hw.2.2 (Nat.le_refl _)
    have hkc : kc.find name = some ta := hk name ta (by simp [F.find])
    -- the new current links still agree with the rest of the list
    have hk' : ∀ kc' : F, (∀ x, x ≠ name → kc'.find x = kc.find x) → ∀ x t, rest.find x = some t → kc'.find x = some t := by
      intro kc' hsame x t hx
      have hxn : x ≠ name := by intro h; rw [h, hrx] at hx; cases hx
      rw [hsame x hxn]
      apply hk
      simp only [F.find]
      have : name ≠ x := fun h => hxn h.symm
      simp [this, hx]
    simp only [patch]
    cases hf : kb.find name with
    | none =>
      simp only []
      rw [find_patch kb m rest kc hw.2.1 (hk' kc (fun _ _ => rfl))]
      simp only [F.find]
      by_cases hnm : name = m
      · subst hnm; simp [hrx, hf]
      · simp [hnm]
    | some tb =>
      simp only []
      by_cases hab : ta = tb
      · simp only [hab, if_true]
        rw [find_patch kb m rest kc hw.2.1 (hk' kc (fun _ _ => rfl))]
        simp only [F.find]
        by_cases hnm : name = m
        · subst hnm; simp [hrx, hf, hkc, hab]
        · simp [hnm]
      · simp only [hab, if_false]
        rw [find_patch kb m rest (kc.set name tb) hw.2.1 (hk' _ (fun x hx => by rw [F.find_set]; simp [hx]))]
        simp only [F.find, F.find_set]
        by_cases hnm : name = m
        · subst hnm; simp [hrx, hf]
        · have : m ≠ name := fun h => hnm h.symm
          simp [hnm, this]

/-! ## shape of Diff's output -/

theorem Ch.pre_path (name : Nat) (ch : Ch) : (ch.pre name).path = name :: ch.path := by cases ch <;> rfl
theorem Ch.pre_WF (name : Nat) (ch : Ch) : (ch.pre name).WF ↔ ch.WF := by cases ch <;> exact Iff.rfl

theorem T.kids_WF {t : T} (h : t.WF) : t.kids.WF := by cases t; exact h

mutual
theorem diff_shape : ∀ (a b : T), b.WF → ∀ ch ∈ diff a b,
    ch.WF ∧ (modPair a b = false → ch.path ≠ [])
  | .n da ka, b, hb, ch, hch => by
    simp only [diff] at hch
    split at hch
    · simp at hch
    · split at hch
      · rename_i hl
        simp only [List.mem_singleton] at hch
        subst hch
        exact ⟨hb, fun h => by rw [h] at hl; cases hl⟩
      · simp only [List.mem_append, List.mem_map] at hch
        rcases hch with (hch | ⟨p, hp, rfl⟩) | ⟨p, hp, rfl⟩
        · have := diffKids_shape ka b.kids (T.kids_WF hb) ch hch
          exact ⟨this.1, fun _ => this.2⟩
        · exact ⟨trivial, fun _ => by simp [Ch.path]⟩
        · exact ⟨onlyIn_WF b.kids ka (T.kids_WF hb) p hp, fun _ => by simp [Ch.path]⟩
theorem diffKids_shape : ∀ (ka kb : F), kb.WF → ∀ ch ∈ diffKids ka kb, ch.WF ∧ ch.path ≠ []
  | .nil, _, _, ch, hch => by simp [diffKids] at hch
  | .cons name ta rest, kb, hb, ch, hch => by
    simp only [diffKids, List.mem_append] at hch
    rcases hch with hch | hch
    · cases hf : kb.find name with
      | none => simp [hf] at hch
      | some tb =>
        simp only [hf] at hch
        split at hch
        · simp at hch
        · simp only [List.mem_map] at hch
          obtain ⟨c, hc, rfl⟩ := hch
          have := diff_shape ta tb (F.find_WF kb name tb hb hf) c hc
          exact ⟨(Ch.pre_WF name c).2 this.1, by rw [Ch.pre_path]; simp⟩
    · exact diffKids_shape rest kb hb ch hch
end

theorem F.set_remove (k : F) (name : Nat) (t : T) (hw : k.WF) (ht : t.WF) :
    (k.remove name).set name t = k.set name t := by
  apply F.ext _ _ (F.WF_set _ name t (F.WF_remove k name hw) ht) (F.WF_set k name t hw ht)
  intro m
  simp only [F.find_set, F.find_remove]
  by_cases hm : m = name <;> simp [hm]

/-! ## main induction -/

theorem modPair_false {a b : T} (h : modPair a b = false) : a.raw = false ∧ b.raw = false := by
  unfold modPair at h
  cases ha : a.raw <;> cases hb : b.raw <;> simp_all

mutual
/-- a pair that Diff does not report as one Mod, with equal data and `SubK` children: applying Diff's changes gives `b` -/
theorem apply_diff_node : ∀ (a b : T), a.WF → b.WF → a ≠ b → modPair a b = false →
    a.data = b.data → SubK a.kids b.kids → applyAll a (diff a b) = some b
  | .n da ka, .n db kb, ha, hb, hne, hnl, hd, hs => by
    simp only [T.kids, T.data] at hd hs
    subst hd
    have hraw : T.raw (.n da .nil) = false := (modPair_false hnl).1
    have hdiff : diff (.n da ka) (.n da kb) = diffKids ka kb
        ++ (onlyIn ka kb).map (fun p => Ch.rm [p.1] p.2) ++ (onlyIn kb ka).map (fun p => Ch.add [p.1] p.2) := by
      simp only [diff, hne, if_false, T.kids, hnl, Bool.false_eq_true]
    rw [hdiff, applyAll_append, applyAll_append]
    rw [apply_diff_kids ka kb da ka hraw ha hb ha hs (fun _ _ h => h)]
    simp only [Option.bind_some]
    rw [apply_rms da kb hraw ka (patch ka kb ka) ha ?_]
    · simp only [Option.bind_some]
      rw [apply_adds da hraw]
      have hw1 := patch_WF ka kb ka hb ha
      have hw2 := rmAll_WF (onlyIn ka kb) _ hw1
      have hw3 := addAll_WF (onlyIn kb ka) _ hw2 (onlyIn_WF kb ka hb)
      have : addAll (rmAll (patch ka kb ka) (onlyIn ka kb)) (onlyIn kb ka) = kb := by
        apply F.ext _ _ hw3 hb
        intro m
        rw [find_addAll ka m kb _ hb, find_rmAll kb m ka _, find_patch kb m ka ka ha (fun _ _ h => h)]
        cases h1 : ka.find m <;> cases h2 : kb.find m <;> simp
      rw [this]
    · -- the links only `a` has are untouched by the recursive part
      intro m t hm hom
      rw [find_patch kb m ka ka ha (fun _ _ h => h), hm, hom]

/-- the recursive part of Diff over the links `rest` of `a` (a suffix of its link list), while the node
being edited currently has links `kc` that still hold the original children for `rest` -/
theorem apply_diff_kids : ∀ (rest kb : F) (d : Nat) (kc : F), T.raw (.n d .nil) = false → rest.WF → kb.WF → kc.WF → SubK rest kb →
    (∀ m t, rest.find m = some t → kc.find m = some t) →
    applyAll (.n d kc) (diffKids rest kb) = some (.n d (patch rest kb kc))
  | .nil, _, _, _, _, _, _, _, _, _ => rfl
  | .cons name ta rest, kb, d, kc, hraw, hw, hb, hc, hs, hk => by
    simp only [F.WF] at hw
    simp only [SubK] at hs
    have hrawk : ∀ k : F, T.raw (.n d k) = false := fun _ => hraw
    have hrx : rest.find name = none := F.find_none_of_lb rest name name hw.2.1 hw.2.2 (Nat.le_refl _)
    have hkc : kc.find name = some ta := hk name ta (by simp [F.find])
    have hk' : ∀ kc' : F, (∀ x, x ≠ name → kc'.find x = kc.find x) → ∀ x t, rest.find x = some t → kc'.find x = some t := by
      intro kc' hsame x t hx
      have hxn : x ≠ name := by intro h; rw [h, hrx] at hx; cases hx
      rw [hsame x hxn]
      apply hk
      simp only [F.find]
      have : name ≠ x := fun h => hxn h.symm
      simp [this, hx]
    simp only [diffKids, patch]
    cases hf : kb.find name with
    | none =>
      simp only [List.nil_append]
      exact apply_diff_kids rest kb d kc hraw hw.2.1 hb hc hs.2 (hk' kc (fun _ _ => rfl))
    | some tb =>
      simp only []
      by_cases hab : ta = tb
      · simp only [hab, if_true, List.nil_append]
        exact apply_diff_kids rest kb d kc hraw hw.2.1 hb hc hs.2 (hk' kc (fun _ _ => rfl))
      · simp only [hab, if_false]
        have htb : tb.WF := F.find_WF kb name tb hb hf
        have hsub := hs.1 tb hf
        -- the changes below `name` turn the child `ta` into `tb`
        have hstep : applyAll (.n d kc) ((diff ta tb).map (Ch.pre name)) = some (.n d (kc.set name tb)) := by
          cases ta with
          | n da ka =>
            simp only [Sub] at hsub
            rcases hsub with heq | hleaf | ⟨hnl, hd, hsk⟩
            · exact absurd heq hab
            · -- reported as one Mod at `name`
              have hdiff : diff (.n da ka) tb = [.mod [] (.n da ka) tb] := by
                simp only [diff, hab, if_false, hleaf, if_true]
              rw [hdiff]
              simp only [List.map_cons, List.map_nil, Ch.pre, applyAll, apply1, rmAt, hkc, Option.isSome_some, if_true,
                insertAt, hrawk, Bool.false_eq_true, if_false]
              rw [F.set_remove kc name tb hc htb]
            · have hq := apply_diff_node (.n da ka) tb hw.1 htb hab hnl
                (by simpa [T.data] using hd) (by simpa [T.kids] using hsk)
              have hshape := diff_shape (.n da ka) tb htb
              exact applyAll_pre d name hraw (diff (.n da ka) tb) kc (.n da ka) tb hc hkc
                (fun ch hch => ⟨(hshape ch hch).2 hnl, (hshape ch hch).1⟩) hq
        rw [applyAll_append, hstep]
        simp only [Option.bind_some]
        exact apply_diff_kids rest kb d (kc.set name tb) hraw hw.2.1 hb (F.WF_set kc name tb hc htb) hs.2
          (hk' _ (fun x hx => by rw [F.find_set]; simp [hx]))
end

mutual
theorem subB_iff : ∀ (a b : T), subB a b = true ↔ Sub a b
  | .n da ka, b => by
    simp only [subB, Sub, Bool.or_eq_true, Bool.and_eq_true, decide_eq_true_eq, Bool.not_eq_true', beq_iff_eq,
      subKB_iff ka b.kids]
    constructor
    · rintro ((h | h) | ⟨⟨h1, h2⟩, h3⟩)
      · exact Or.inl h
      · exact Or.inr (Or.inl h)
      · exact Or.inr (Or.inr ⟨h1, h2, h3⟩)
    · rintro (h | h | ⟨h1, h2, h3⟩)
      · exact Or.inl (Or.inl h)
      · exact Or.inl (Or.inr h)
      · exact Or.inr ⟨⟨h1, h2⟩, h3⟩
theorem subKB_iff : ∀ (ka kb : F), subKB ka kb = true ↔ SubK ka kb
  | .nil, _ => by simp [subKB, SubK]
  | .cons name ta rest, kb => by
    simp only [subKB, SubK, Bool.and_eq_true, subKB_iff rest kb]
    constructor
    · rintro ⟨h1, h2⟩
      refine ⟨fun tb hf => ?_, h2⟩
      rw [hf] at h1
      exact (subB_iff ta tb).1 h1
    · rintro ⟨h1, h2⟩
      refine ⟨?_, h2⟩
      cases hf : kb.find name with
      | none => rfl
      | some tb => exact (subB_iff ta tb).2 (h1 tb hf)
end

theorem goodB_iff (a b : T) : goodB a b = true ↔ Good a b := by
  simp only [goodB, Good, Bool.or_eq_true, Bool.and_eq_true, decide_eq_true_eq, Bool.not_eq_true', beq_iff_eq, subKB_iff]
  constructor
  · rintro (h | ⟨⟨h1, h2⟩, h3⟩)
    · exact Or.inl h
    · exact Or.inr ⟨h1, h2, h3⟩
  · rintro (h | ⟨h1, h2, h3⟩)
    · exact Or.inl h
    · exact Or.inr ⟨⟨h1, h2⟩, h3⟩

/-! ## the editor never changes the data of the node it is applied to -/

theorem insertAt_data : ∀ (p : List Nat) (u c u' : T), insertAt u p c = some u' → u'.data = u.data
  | [], .n d k, c, u', h => by simp [insertAt] at h
  | [name], .n d k, c, u', h => by
    simp only [insertAt] at h
    split at h
    · cases h
    · simp only [Option.some.injEq] at h; subst h; rfl
  | name :: q :: qs, .n d k, c, u', h => by
    simp only [insertAt] at h
    split at h
    · cases h
    · cases hf : k.find name with
      | none => simp [hf] at h
      | some sub =>
        simp only [hf] at h
        cases hi : insertAt sub (q :: qs) c with
        | none => simp [hi] at h
        | some s' => simp only [hi, Option.some.injEq] at h; subst h; rfl

theorem rmAt_data : ∀ (p : List Nat) (u u' : T), rmAt u p = some u' → u'.data = u.data
  | [], .n d k, u', h => by simp [rmAt] at h
  | [name], .n d k, u', h => by
    simp only [rmAt] at h
    split at h
    · cases h
    · split at h
      · simp only [Option.some.injEq] at h; subst h; rfl
      · cases h
  | name :: q :: qs, .n d k, u', h => by
    simp only [rmAt] at h
    split at h
    · cases h
    · cases hf : k.find name with
      | none => simp [hf] at h
      | some sub =>
        simp only [hf] at h
        cases hi : rmAt sub (q :: qs) with
        | none => simp [hi] at h
        | some s' => simp only [hi, Option.some.injEq] at h; subst h; rfl

end C14

namespace C14

/-! ## converse: a successful, correct application forces the class `Good` -/

/-- the change as seen from the child `name`: defined when its path goes strictly below that child -/
def Ch.proj (name : Nat) : Ch → Option Ch
  | .add (m :: q :: qs) a => if m = name then some (.add (q :: qs) a) else none
  | .rm (m :: q :: qs) b => if m = name then some (.rm (q :: qs) b) else none
  | .mod (m :: q :: qs) b a => if m = name then some (.mod (q :: qs) b a) else none
  | _ => none

def Ch.head : Ch → Option Nat
  | ch => ch.path.head?

theorem F.find_set_ne (k : F) (m name : Nat) (c : T) (h : name ≠ m) : (k.set m c).find name = k.find name := by
  rw [F.find_set]; simp [h]

theorem F.find_remove_ne (k : F) (m name : Nat) (h : name ≠ m) : (k.remove m).find name = k.find name := by
  rw [F.find_remove]; simp [h]

/-- a change whose path starts at another link leaves the child `name` alone -/
theorem apply1_other (d : Nat) (k : F) (name : Nat) (ch : Ch) (r : T) (hh : ∀ m, ch.path.head? = some m → m ≠ name)
    (h : apply1 (.n d k) ch = some r) : r.kids.find name = k.find name := by
  have ins : ∀ (p : List Nat) (c r : T) (k : F), (∀ m, p.head? = some m → m ≠ name) →
      insertAt (.n d k) p c = some r → r.kids.find name = k.find name := by
    intro p c r k hp h
    match p, hp, h with
    | [], _, h => simp [insertAt] at h
    | [m], hp, h =>
      have hm : name ≠ m := fun e => hp m rfl e.symm
      simp only [insertAt] at h
      split at h
      · cases h
      · simp only [Option.some.injEq] at h; subst h; exact F.find_set_ne k m name c hm
    | m :: q :: qs, hp, h =>
      have hm : name ≠ m := fun e => hp m rfl e.symm
      simp only [insertAt] at h
      split at h
      · cases h
      · cases hf : k.find m with
        | none => simp [hf] at h
        | some sub =>
          simp only [hf] at h
          cases hi : insertAt sub (q :: qs) c with
          | none => simp [hi] at h
          | some s' => simp only [hi, Option.some.injEq] at h; subst h; exact F.find_set_ne k m name s' hm
  have rm : ∀ (p : List Nat) (r : T) (k : F), (∀ m, p.head? = some m → m ≠ name) →
      rmAt (.n d k) p = some r → r.kids.find name = k.find name ∧ r.data = d := by
    intro p r k hp h
    match p, hp, h with
    | [], _, h => simp [rmAt] at h
    | [m], hp, h =>
      have hm : name ≠ m := fun e => hp m rfl e.symm
      simp only [rmAt] at h
      split at h
      · cases h
      · split at h
        · simp only [Option.some.injEq] at h; subst h; exact ⟨F.find_remove_ne k m name hm, rfl⟩
        · cases h
    | m :: q :: qs, hp, h =>
      have hm : name ≠ m := fun e => hp m rfl e.symm
      simp only [rmAt] at h
      split at h
      · cases h
      · cases hf : k.find m with
        | none => simp [hf] at h
        | some sub =>
          simp only [hf] at h
          cases hi : rmAt sub (q :: qs) with
          | none => simp [hi] at h
          | some s' => simp only [hi, Option.some.injEq] at h; subst h; exact ⟨F.find_set_ne k m name s' hm, rfl⟩
  cases ch with
  | add p a => exact ins p a r k hh h
  | rm p b => exact (rm p r k hh h).1
  | mod p b a =>
    simp only [apply1] at h
    cases hr : rmAt (.n d k) p with
    | none => simp [hr] at h
    | some t1 =>
      simp only [hr] at h
      obtain ⟨e1, e2⟩ := rm p t1 k hh hr
      cases t1 with
      | n d1 k1 =>
        simp only [T.data] at e2; subst e2
        rw [ins p a r k1 hh h]; exact e1

end C14

namespace C14

theorem Ch.proj_spec (name : Nat) (ch : Ch) (hne : ch.path ≠ []) (hn1 : ch.path ≠ [name]) :
    (∃ ch', Ch.proj name ch = some ch' ∧ ch = ch'.pre name ∧ ch'.path ≠ [] ∧ (ch.WF → ch'.WF)) ∨
    (Ch.proj name ch = none ∧ ∀ m, ch.path.head? = some m → m ≠ name) := by
  cases ch with
  | add p a =>
    match p, hne, hn1 with
    | [m], _, hn1 =>
      right; refine ⟨rfl, ?_⟩
      intro m' hm' e; simp [Ch.path] at hm' hn1; subst hm'; exact hn1 e
    | m :: q :: qs, _, _ =>
      by_cases hm : m = name
      · subst hm; left
        exact ⟨.add (q :: qs) a, by simp [Ch.proj], rfl, by simp [Ch.path], fun h => h⟩
      · right; refine ⟨by simp [Ch.proj, hm], ?_⟩
        intro m' hm'; simp [Ch.path] at hm'; subst hm'; exact hm
  | rm p b =>
    match p, hne, hn1 with
    | [m], _, hn1 =>
      right; refine ⟨rfl, ?_⟩
      intro m' hm' e; simp [Ch.path] at hm' hn1; subst hm'; exact hn1 e
    | m :: q :: qs, _, _ =>
      by_cases hm : m = name
      · subst hm; left
        exact ⟨.rm (q :: qs) b, by simp [Ch.proj], rfl, by simp [Ch.path], fun h => h⟩
      · right; refine ⟨by simp [Ch.proj, hm], ?_⟩
        intro m' hm'; simp [Ch.path] at hm'; subst hm'; exact hm
  | mod p b a =>
    match p, hne, hn1 with
    | [m], _, hn1 =>
      right; refine ⟨rfl, ?_⟩
      intro m' hm' e; simp [Ch.path] at hm' hn1; subst hm'; exact hn1 e
    | m :: q :: qs, _, _ =>
      by_cases hm : m = name
      · subst hm; left
        exact ⟨.mod (q :: qs) b a, by simp [Ch.proj], rfl, by simp [Ch.path], fun h => h⟩
      · right; refine ⟨by simp [Ch.proj, hm], ?_⟩
        intro m' hm'; simp [Ch.path] at hm'; subst hm'; exact hm

theorem apply1_data (t r : T) (ch : Ch) (h : apply1 t ch = some r) : r.data = t.data := by
  cases ch with
  | add p a => exact insertAt_data p t a r h
  | rm p b => exact rmAt_data p t r h
  | mod p b a =>
    simp only [apply1] at h
    cases hr : rmAt t p with
    | none => simp [hr] at h
    | some t1 =>
      simp only [hr] at h
      rw [insertAt_data p t1 a r h, rmAt_data p t t1 hr]

/-- what a successful application did to the child `name`, when no change replaces or removes that child itself -/
theorem applyAll_proj (d name : Nat) (hraw : T.raw (.n d .nil) = false) : ∀ (cs : List Ch) (k : F) (t r : T),
    k.WF → k.find name = some t → (∀ ch ∈ cs, ch.WF ∧ ch.path ≠ [] ∧ ch.path ≠ [name]) →
    applyAll (.n d k) cs = some r →
    ∃ t', applyAll t (cs.filterMap (Ch.proj name)) = some t' ∧ r.kids.find name = some t'
  | [], k, t, r, _, hf, _, h => by
    simp only [applyAll, Option.some.injEq] at h; subst h
    exact ⟨t, rfl, hf⟩
  | ch :: cs, k, t, r, hw, hf, hall, h => by
    obtain ⟨hcw, hne, hn1⟩ := hall ch List.mem_cons_self
    have hrest : ∀ c ∈ cs, c.WF ∧ c.path ≠ [] ∧ c.path ≠ [name] := fun c hc => hall c (List.mem_cons_of_mem _ hc)
    have htw := F.find_WF k name t hw hf
    simp only [applyAll] at h
    cases h1 : apply1 (.n d k) ch with
    | none => simp [h1] at h
    | some r1 =>
      simp only [h1] at h
      have hr1w : r1.WF := apply1_WF (.n d k) r1 ch hw hcw h1
      have hr1d : r1.data = d := apply1_data (.n d k) r1 ch h1
      rcases Ch.proj_spec name ch hne hn1 with ⟨ch', hp, rfl, hne', hwf'⟩ | ⟨hp, hh⟩
      · -- the change goes below `name`
        rw [apply1_pre d k name t ch' hw hf hne' (hwf' hcw) hraw] at h1
        cases h2 : apply1 t ch' with
        | none => simp [h2] at h1
        | some t1 =>
          simp only [h2, Option.map_some, Option.some.injEq] at h1
          subst h1
          have ht1 := apply1_WF t t1 ch' htw (hwf' hcw) h2
          obtain ⟨t', a1, a2⟩ := applyAll_proj d name hraw cs (k.set name t1) t1 r (F.WF_set k name t1 hw ht1)
            (by rw [F.find_set]; simp) hrest h
          refine ⟨t', ?_, a2⟩
          simp only [List.filterMap_cons, hp, applyAll, h2]
          exact a1
      · -- the change concerns another link
        have hk1 := apply1_other d k name ch r1 hh h1
        cases r1 with
        | n d1 k1 =>
          simp only [T.data] at hr1d; subst hr1d
          simp only [T.kids] at hk1
          obtain ⟨t', a1, a2⟩ := applyAll_proj d1 name hraw cs k1 t r hr1w (by rw [hk1]; exact hf) hrest h
          refine ⟨t', ?_, a2⟩
          simp only [List.filterMap_cons, hp]
          exact a1

end C14

namespace C14

theorem Ch.proj_pre (name : Nat) (c : Ch) (h : c.path ≠ []) : Ch.proj name (c.pre name) = some c := by
  cases c with
  | add p a => cases p with
    | nil => exact absurd rfl h
    | cons q qs => simp [Ch.pre, Ch.proj]
  | rm p b => cases p with
    | nil => exact absurd rfl h
    | cons q qs => simp [Ch.pre, Ch.proj]
  | mod p b a => cases p with
    | nil => exact absurd rfl h
    | cons q qs => simp [Ch.pre, Ch.proj]

theorem Ch.proj_pre_ne (name m : Nat) (c : Ch) (h : m ≠ name) : Ch.proj name (c.pre m) = none := by
  cases c with
  | add p a => cases p <;> simp [Ch.pre, Ch.proj, h]
  | rm p b => cases p <;> simp [Ch.pre, Ch.proj, h]
  | mod p b a => cases p <;> simp [Ch.pre, Ch.proj, h]

theorem filterMap_proj_none (name : Nat) (l : List Ch) (h : ∀ c ∈ l, Ch.proj name c = none) :
    l.filterMap (Ch.proj name) = [] := by
  induction l with
  | nil => rfl
  | cons c l ih =>
    simp only [List.filterMap_cons, h c List.mem_cons_self]
    exact ih (fun c' hc' => h c' (List.mem_cons_of_mem _ hc'))

/-- every change of the recursive part starts at a link of `rest` -/
theorem diffKids_head : ∀ (rest kb : F) (ch : Ch), ch ∈ diffKids rest kb →
    ∃ m c, ch = Ch.pre m c ∧ (rest.find m).isSome = true
  | .nil, _, ch, h => by simp [diffKids] at h
  | .cons x tx rest, kb, ch, h => by
    simp only [diffKids, List.mem_append] at h
    rcases h with h | h
    · cases hf : kb.find x with
      | none => simp [hf] at h
      | some tb =>
        simp only [hf] at h
        split at h
        · simp at h
        · simp only [List.mem_map] at h
          obtain ⟨c, _, rfl⟩ := h
          exact ⟨x, c, rfl, by simp [F.find]⟩
    · obtain ⟨m, c, e, hm⟩ := diffKids_head rest kb ch h
      refine ⟨m, c, e, ?_⟩
      simp only [F.find]
      split
      · rfl
      · exact hm

theorem proj_diffKids (name : Nat) (kb : F) (tb : T) (hkb : kb.WF) (hfb : kb.find name = some tb) :
    ∀ (rest : F) (ta : T), rest.WF → rest.find name = some ta → ta ≠ tb → modPair ta tb = false →
    (diffKids rest kb).filterMap (Ch.proj name) = diff ta tb
  | .nil, _, _, h, _, _ => by simp [F.find] at h
  | .cons x tx rest, ta, hw, hf, hne, hmp => by
    simp only [F.WF] at hw
    simp only [diffKids, List.filterMap_append]
    by_cases hx : x = name
    · subst hx
      simp only [F.find, if_true, Option.some.injEq] at hf
      subst hf
      simp only [hfb, hne, if_false]
      have hshape := diff_shape tx tb (F.find_WF kb x tb hkb hfb)
      have h1 : ((diff tx tb).map (Ch.pre x)).filterMap (Ch.proj x) = diff tx tb := by
        rw [List.filterMap_map]
        have : ∀ l : List Ch, (∀ c ∈ l, c.path ≠ []) → l.filterMap (Ch.proj x ∘ Ch.pre x) = l := by
          intro l
          induction l with
          | nil => intro _; rfl
          | cons c l ih =>
            intro hl
            simp only [List.filterMap_cons, Function.comp, Ch.proj_pre x c (hl c List.mem_cons_self)]
            rw [ih (fun c' hc' => hl c' (List.mem_cons_of_mem _ hc'))]
        exact this _ (fun c hc => (hshape c hc).2 hmp)
      have h2 : (diffKids rest kb).filterMap (Ch.proj x) = [] := by
        apply filterMap_proj_none
        intro c hc
        obtain ⟨m, c', rfl, hm⟩ := diffKids_head rest kb c hc
        apply Ch.proj_pre_ne
        intro e; subst e
        rw [F.find_none_of_lb rest m m hw.2.1 hw.2.2 (Nat.le_refl _)] at hm; cases hm
      rw [h1, h2, List.append_nil]
    · have hf' : rest.find name = some ta := by simpa [F.find, hx] using hf
      have ih := proj_diffKids name kb tb hkb hfb rest ta hw.2.1 hf' hne hmp
      cases hfx : kb.find x with
      | none => simpa using ih
      | some tb' =>
        simp only []
        split
        · simpa using ih
        · rw [filterMap_proj_none name _ (by
            intro c hc
            simp only [List.mem_map] at hc
            obtain ⟨c', _, rfl⟩ := hc
            exact Ch.proj_pre_ne name x c' hx), List.nil_append]
          exact ih

/-- a change of the recursive part with the one-element path `[name]` is the Mod of a pair reported as one Mod -/
theorem diffKids_single (name : Nat) (kb : F) (hkb : kb.WF) : ∀ (rest : F), rest.WF → ∀ ch ∈ diffKids rest kb,
    ch.path = [name] → ∃ ta tb, rest.find name = some ta ∧ kb.find name = some tb ∧ modPair ta tb = true
  | .nil, _, ch, h, _ => by simp [diffKids] at h
  | .cons x tx rest, hw, ch, h, hp => by
    simp only [F.WF] at hw
    simp only [diffKids, List.mem_append] at h
    rcases h with h | h
    · cases hf : kb.find x with
      | none => simp [hf] at h
      | some tb =>
        simp only [hf] at h
        split at h
        · simp at h
        · simp only [List.mem_map] at h
          obtain ⟨c, hc, rfl⟩ := h
          rw [Ch.pre_path] at hp
          simp only [List.cons.injEq] at hp
          obtain ⟨rfl, hc0⟩ := hp
          refine ⟨tx, tb, by simp [F.find], hf, ?_⟩
          have := (diff_shape tx tb (F.find_WF kb x tb hkb hf) c hc).2
          cases hm : modPair tx tb with
          | true => rfl
          | false => exact absurd hc0 (this hm)
    · obtain ⟨ta, tb, h1, h2, h3⟩ := diffKids_single name kb hkb rest hw.2.1 ch h hp
      refine ⟨ta, tb, ?_, h2, h3⟩
      simp only [F.find]
      have : x ≠ name := by
        intro e; subst e
        rw [F.find_none_of_lb rest x x hw.2.1 hw.2.2 (Nat.le_refl _)] at h1; cases h1
      simp [this, h1]

theorem onlyIn_mem : ∀ (r other : F) (p : Nat × T), p ∈ onlyIn r other → other.find p.1 = none ∧ (r.find p.1).isSome = true
  | .nil, _, p, h => by simp [onlyIn] at h
  | .cons x t r, other, p, h => by
    simp only [onlyIn, List.mem_append] at h
    rcases h with h | h
    · split at h
      · simp at h
      · rename_i ho
        simp at h; subst h
        refine ⟨?_, by simp [F.find]⟩
        cases hf : other.find x with
        | none => rfl
        | some _ => rw [hf] at ho; exact absurd rfl ho
    · obtain ⟨a, b⟩ := onlyIn_mem r other p h
      refine ⟨a, ?_⟩
      simp only [F.find]
      split
      · rfl
      · exact b

end C14

namespace C14

theorem applyAll_data : ∀ (cs : List Ch) (a t : T), applyAll a cs = some t → t.data = a.data
  | [], a, t, h => by simp only [applyAll, Option.some.injEq] at h; subst h; rfl
  | c :: cs, a, t, h => by
    simp only [applyAll] at h
    cases h1 : apply1 a c with
    | none => simp [h1] at h
    | some a1 =>
      simp only [h1] at h
      rw [applyAll_data cs a1 t h, apply1_data a a1 c h1]

mutual
/-- if applying Diff's changes to a pair that is not reported as one Mod gives `b`, then the data agree and
every name-matched pair of children is again in the class -/
theorem conv_node : ∀ (a b : T), a.WF → b.WF → a ≠ b → modPair a b = false → applyAll a (diff a b) = some b →
    a.data = b.data ∧ SubK a.kids b.kids
  | .n da ka, .n db kb, ha, hb, hne, hmp, h => by
    have hd : db = da := applyAll_data _ _ _ h
    subst hd
    refine ⟨rfl, ?_⟩
    have hraw : T.raw (.n db .nil) = false := (modPair_false hmp).1
    have hdiff : diff (.n db ka) (.n db kb) = diffKids ka kb
        ++ (onlyIn ka kb).map (fun p => Ch.rm [p.1] p.2) ++ (onlyIn kb ka).map (fun p => Ch.add [p.1] p.2) := by
      simp only [diff, hne, if_false, T.kids, hmp, Bool.false_eq_true]
    have hshape := diff_shape (.n db ka) (.n db kb) hb
    apply conv_kids ka kb ha hb
    intro name ta tb hfa hfb hab hmpc
    -- no change replaces or removes the child `name` itself
    have hall : ∀ ch ∈ diff (.n db ka) (.n db kb), ch.WF ∧ ch.path ≠ [] ∧ ch.path ≠ [name] := by
      intro ch hch
      refine ⟨(hshape ch hch).1, (hshape ch hch).2 hmp, fun hp => ?_⟩
      rw [hdiff] at hch
      simp only [List.mem_append, List.mem_map] at hch
      rcases hch with (hch | ⟨p, hp', rfl⟩) | ⟨p, hp', rfl⟩
      · obtain ⟨ta', tb', h1, h2, h3⟩ := diffKids_single name kb hb ka ha ch hch hp
        rw [hfa] at h1; rw [hfb] at h2; cases h1; cases h2
        rw [hmpc] at h3; cases h3
      · simp only [Ch.path, List.cons.injEq, and_true] at hp
        have := (onlyIn_mem ka kb p hp').1
        rw [hp, hfb] at this; cases this
      · simp only [Ch.path, List.cons.injEq, and_true] at hp
        have := (onlyIn_mem kb ka p hp').1
        rw [hp, hfa] at this; cases this
    obtain ⟨t', a1, a2⟩ := applyAll_proj db name hraw _ ka ta (.n db kb) ha hfa hall h
    simp only [T.kids] at a2
    rw [hfb] at a2; cases a2
    -- the changes seen from the child are exactly the child's own diff
    have hproj : (diff (.n db ka) (.n db kb)).filterMap (Ch.proj name) = diff ta tb := by
      rw [hdiff, List.filterMap_append, List.filterMap_append, proj_diffKids name kb tb hb hfb ka ta ha hfa hab hmpc]
      rw [filterMap_proj_none name _ (by
        intro c hc; simp only [List.mem_map] at hc; obtain ⟨p, _, rfl⟩ := hc; rfl)]
      rw [filterMap_proj_none name _ (by
        intro c hc; simp only [List.mem_map] at hc; obtain ⟨p, _, rfl⟩ := hc; rfl)]
      simp
    rw [hproj] at a1
    exact a1
theorem conv_kids : ∀ (rest kb : F), rest.WF → kb.WF →
    (∀ name ta tb, rest.find name = some ta → kb.find name = some tb → ta ≠ tb → modPair ta tb = false →
      applyAll ta (diff ta tb) = some tb) → SubK rest kb
  | .nil, _, _, _, _ => trivial
  | .cons x tx rest, kb, hw, hb, H => by
    simp only [F.WF] at hw
    simp only [SubK]
    constructor
    · intro tb hfb
      cases tx with
      | n dx kx =>
        simp only [Sub]
        by_cases hab : T.n dx kx = tb
        · exact Or.inl hab
        · cases hmp : modPair (.n dx kx) tb with
          | true => exact Or.inr (Or.inl rfl)
          | false =>
            have happ := H x (.n dx kx) tb (by simp [F.find]) hfb hab hmp
            have := conv_node (.n dx kx) tb hw.1 (F.find_WF kb x tb hb hfb) hab hmp happ
            exact Or.inr (Or.inr ⟨rfl, by simpa [T.data] using this.1, by simpa [T.kids] using this.2⟩)
    · apply conv_kids rest kb hw.2.1 hb
      intro name ta tb hfa hfb hab hmp
      apply H name ta tb ?_ hfb hab hmp
      simp only [F.find]
      have : x ≠ name := by
        intro e; subst e
        rw [F.find_none_of_lb rest x x hw.2.1 hw.2.2 (Nat.le_refl _)] at hfa; cases hfa
      simp [this, hfa]
end

end C14
