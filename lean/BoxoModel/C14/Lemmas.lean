import BoxoModel.C14.Model
/-! Specification vocabulary and helper lemmas for C14. Property theorems: `Props/C14.lean`. -/
namespace C14

/-! ## well-formed trees: link names strictly increasing at every node -/

/-- every name of the list is greater than `b` (only the head matters for a sorted list) -/
def F.lb : F → Nat → Prop
  | .nil, _ => True
  | .cons m _ _, b => b < m

mutual
def T.WF : T → Prop
  | .n _ k => k.WF
def F.WF : F → Prop
  | .nil => True
  | .cons m t r => t.WF ∧ r.WF ∧ r.lb m
end

theorem F.lb_mono {k : F} {a b : Nat} (h : k.lb b) (hab : a ≤ b) : k.lb a := by
  cases k with
  | nil => trivial
  | cons m t r => simp only [F.lb] at h ⊢; omega

/-- nothing at or below the lower bound is found -/
theorem F.find_none_of_lb : ∀ (k : F) (b name : Nat), k.WF → k.lb b → name ≤ b → k.find name = none
  | .nil, _, _, _, _, _ => rfl
  | .cons m t r, b, name, hw, hl, hn => by
    simp only [F.lb] at hl
    simp only [F.WF] at hw
    simp only [F.find]
    have : m ≠ name := by omega
    simp only [this, if_false]
    exact F.find_none_of_lb r m name hw.2.1 hw.2.2 (by omega)

theorem F.find_WF : ∀ (k : F) (name : Nat) (t : T), k.WF → k.find name = some t → t.WF
  | .nil, _, _, _, h => by simp [F.find] at h
  | .cons m t' r, name, t, hw, h => by
    simp only [F.WF] at hw
    simp only [F.find] at h
    split at h
    · cases h; exact hw.1
    · exact F.find_WF r name t hw.2.1 h

/-! ## find after remove / insert / set -/

theorem F.find_remove : ∀ (k : F) (name m : Nat), (k.remove name).find m = if m = name then none else k.find m
  | .nil, _, _ => by simp [F.remove, F.find]
  | .cons x t r, name, m => by
    have ih := F.find_remove r name m
    simp only [F.remove]
    by_cases hx : x = name
    · subst hx
      simp only [if_true, ih, F.find]
      by_cases hm : m = x
      · simp [hm]
      · have : x ≠ m := fun h => hm h.symm
        simp [hm, this]
    · simp only [hx, if_false, F.find, ih]
      by_cases hm : m = name
      · subst hm; simp [hx]
      · simp [hm]

theorem F.find_insert : ∀ (k : F) (name : Nat) (c : T) (m : Nat), k.find name = none →
    (k.insert name c).find m = if m = name then some c else k.find m
  | .nil, name, c, m, _ => by
    simp only [F.insert, F.find]
    by_cases hm : m = name
    · simp [hm]
    · have : name ≠ m := fun h => hm h.symm
      simp [hm, this]
  | .cons x t r, name, c, m, hn => by
    simp only [F.find] at hn
    have hx : x ≠ name := by
      intro h; simp [h] at hn
    simp only [hx, if_false] at hn
    have ih := F.find_insert r name c m hn
    simp only [F.insert]
    by_cases hlt : name < x
    · simp only [hlt, if_true, F.find]
      by_cases hm : m = name
      · simp [hm]
      · have : name ≠ m := fun h => hm h.symm
        simp [hm, this]
    · simp only [hlt, if_false, F.find, ih]
      by_cases hm : m = name
      · subst hm; simp [hx]
      · simp [hm]

theorem F.find_set (k : F) (name : Nat) (c : T) (m : Nat) :
    (k.set name c).find m = if m = name then some c else k.find m := by
  unfold F.set
  rw [F.find_insert _ _ _ _ (by rw [F.find_remove]; simp), F.find_remove]
  by_cases hm : m = name <;> simp [hm]

/-! ## well-formedness is preserved -/

theorem F.lb_remove : ∀ (k : F) (name b : Nat), k.WF → k.lb b → (k.remove name).lb b
  | .nil, _, _, _, _ => trivial
  | .cons x t r, name, b, hw, hl => by
    simp only [F.WF] at hw
    simp only [F.lb] at hl
    simp only [F.remove]
    split
    · exact F.lb_remove r name b hw.2.1 (F.lb_mono hw.2.2 (by omega))
    · exact hl

theorem F.WF_remove : ∀ (k : F) (name : Nat), k.WF → (k.remove name).WF
  | .nil, _, _ => trivial
  | .cons x t r, name, hw => by
    simp only [F.WF] at hw
    simp only [F.remove]
    split
    · exact F.WF_remove r name hw.2.1
    · exact ⟨hw.1, F.WF_remove r name hw.2.1, F.lb_remove r name x hw.2.1 hw.2.2⟩

theorem F.lb_insert : ∀ (k : F) (name : Nat) (c : T) (b : Nat), k.lb b → b < name → (k.insert name c).lb b
  | .nil, _, _, _, _, h => h
  | .cons x t r, name, c, b, hl, h => by
    simp only [F.insert]
    split
    · exact h
    · exact hl

theorem F.WF_insert : ∀ (k : F) (name : Nat) (c : T), k.WF → c.WF → k.find name = none → (k.insert name c).WF
  | .nil, _, _, _, hc, _ => ⟨hc, trivial, trivial⟩
  | .cons x t r, name, c, hw, hc, hn => by
    simp only [F.find] at hn
    have hx : x ≠ name := by
      intro h; simp [h] at hn
    simp only [hx, if_false] at hn
    simp only [F.WF] at hw
    simp only [F.insert]
    split
    · rename_i hlt
      exact ⟨hc, ⟨hw.1, hw.2.1, hw.2.2⟩, hlt⟩
    · rename_i hlt
      exact ⟨hw.1, F.WF_insert r name c hw.2.1 hc hn, F.lb_insert r name c x hw.2.2 (by omega)⟩

theorem F.WF_set (k : F) (name : Nat) (c : T) (hw : k.WF) (hc : c.WF) : (k.set name c).WF :=
  F.WF_insert _ _ _ (F.WF_remove k name hw) hc (by rw [F.find_remove]; simp)

/-! ## extensionality of sorted link lists -/

theorem F.ext : ∀ (k k' : F), k.WF → k'.WF → (∀ m, k.find m = k'.find m) → k = k'
  | .nil, .nil, _, _, _ => rfl
  | .nil, .cons x t r, _, _, h => by
    have := h x; simp [F.find] at this
  | .cons x t r, .nil, _, _, h => by
    have := h x; simp [F.find] at this
  | .cons x t r, .cons x' t' r', hw, hw', h => by
    simp only [F.WF] at hw hw'
    have hxx : x = x' := by
      rcases Nat.lt_trichotomy x x' with hlt | heq | hgt
      · have h1 := h x
        simp only [F.find, if_true] at h1
        have : x' ≠ x := by omega
        simp only [this, if_false] at h1
        rw [F.find_none_of_lb r' x' x hw'.2.1 hw'.2.2 (by omega)] at h1
        cases h1
      · exact heq
      · have h1 := h x'
        simp only [F.find, if_true] at h1
        have : x ≠ x' := by omega
        simp only [this, if_false] at h1
        rw [F.find_none_of_lb r x x' hw.2.1 hw.2.2 (by omega)] at h1
        cases h1
    subst hxx
    have htt : t = t' := by
      have h1 := h x
      simpa [F.find] using h1
    subst htt
    have hrr : r = r' := by
      apply F.ext r r' hw.2.1 hw'.2.1
      intro m
      by_cases hm : m ≤ x
      · rw [F.find_none_of_lb r x m hw.2.1 hw.2.2 hm, F.find_none_of_lb r' x m hw'.2.1 hw'.2.2 hm]
      · have h1 := h m
        have : x ≠ m := by omega
        simpa [F.find, this] using h1
    rw [hrr]

theorem F.set_same (k : F) (name : Nat) (t : T) (hw : k.WF) (hf : k.find name = some t) : k.set name t = k := by
  apply F.ext _ _ (F.WF_set k name t hw (F.find_WF k name t hw hf)) hw
  intro m
  rw [F.find_set]
  by_cases hm : m = name
  · subst hm; simp [hf]
  · simp [hm]

theorem F.set_set (k : F) (name : Nat) (t1 t2 : T) (hw : k.WF) (h1 : t1.WF) (h2 : t2.WF) :
    (k.set name t1).set name t2 = k.set name t2 := by
  apply F.ext _ _ (F.WF_set _ name t2 (F.WF_set k name t1 hw h1) h2) (F.WF_set k name t2 hw h2)
  intro m
  simp only [F.find_set]
  by_cases hm : m = name <;> simp [hm]

theorem F.remove_set (k : F) (name : Nat) (t : T) (hw : k.WF) (ht : t.WF) :
    (k.set name t).remove name = k.remove name := by
  apply F.ext _ _ (F.WF_remove _ name (F.WF_set k name t hw ht)) (F.WF_remove k name hw)
  intro m
  simp only [F.find_remove, F.find_set]
  by_cases hm : m = name <;> simp [hm]

/-! ## the editor -/

def Ch.path : Ch → List Nat
  | .add p _ => p
  | .rm p _ => p
  | .mod p _ _ => p

/-- the tree a change inserts is well-formed -/
def Ch.WF : Ch → Prop
  | .add _ a => a.WF
  | .rm _ _ => True
  | .mod _ _ a => a.WF

theorem applyAll_append : ∀ (xs ys : List Ch) (t : T),
    applyAll t (xs ++ ys) = (applyAll t xs).bind (fun t' => applyAll t' ys)
  | [], ys, t => rfl
  | x :: xs, ys, t => by
    simp only [List.cons_append, applyAll]
    cases apply1 t x with
    | none => rfl
    | some t' => exact applyAll_append xs ys t'

theorem insertAt_WF : ∀ (p : List Nat) (t c t' : T), t.WF → c.WF → insertAt t p c = some t' → t'.WF
  | [], _, _, _, _, _, h => by simp [insertAt] at h
  | [name], .n d k, c, t', hw, hc, h => by
    simp only [insertAt, Option.some.injEq] at h
    subst h
    exact F.WF_set k name c hw hc
  | name :: q :: qs, .n d k, c, t', hw, hc, h => by
    simp only [insertAt] at h
    cases hf : k.find name with
    | none => simp [hf] at h
    | some sub =>
      simp only [hf] at h
      cases hi : insertAt sub (q :: qs) c with
      | none => simp [hi] at h
      | some sub' =>
        simp only [hi, Option.some.injEq] at h
        subst h
        exact F.WF_set k name sub' hw (insertAt_WF (q :: qs) sub c sub' (F.find_WF k name sub hw hf) hc hi)

theorem rmAt_WF : ∀ (p : List Nat) (t t' : T), t.WF → rmAt t p = some t' → t'.WF
  | [], _, _, _, h => by simp [rmAt] at h
  | [name], .n d k, t', hw, h => by
    simp only [rmAt] at h
    split at h
    · simp only [Option.some.injEq] at h; subst h; exact F.WF_remove k name hw
    · cases h
  | name :: q :: qs, .n d k, t', hw, h => by
    simp only [rmAt] at h
    cases hf : k.find name with
    | none => simp [hf] at h
    | some sub =>
      simp only [hf] at h
      cases hi : rmAt sub (q :: qs) with
      | none => simp [hi] at h
      | some sub' =>
        simp only [hi, Option.some.injEq] at h
        subst h
        exact F.WF_set k name sub' hw (rmAt_WF (q :: qs) sub sub' (F.find_WF k name sub hw hf) hi)

theorem apply1_WF (t t' : T) (ch : Ch) (hw : t.WF) (hc : ch.WF) (h : apply1 t ch = some t') : t'.WF := by
  cases ch with
  | add p a => exact insertAt_WF p t a t' hw hc h
  | rm p b => exact rmAt_WF p t t' hw h
  | mod p b a =>
    simp only [apply1] at h
    cases hr : rmAt t p with
    | none => simp [hr] at h
    | some t1 =>
      simp only [hr] at h
      exact insertAt_WF p t1 a t' (rmAt_WF p t t1 hw hr) hc h

theorem insertAt_cons (d : Nat) (k : F) (name : Nat) (p : List Nat) (c t : T) (hp : p ≠ [])
    (hf : k.find name = some t) :
    insertAt (.n d k) (name :: p) c = (insertAt t p c).map (fun t' => .n d (k.set name t')) := by
  cases p with
  | nil => exact absurd rfl hp
  | cons q qs =>
    simp only [insertAt, hf]
    cases insertAt t (q :: qs) c <;> rfl

theorem rmAt_cons (d : Nat) (k : F) (name : Nat) (p : List Nat) (t : T) (hp : p ≠ [])
    (hf : k.find name = some t) :
    rmAt (.n d k) (name :: p) = (rmAt t p).map (fun t' => .n d (k.set name t')) := by
  cases p with
  | nil => exact absurd rfl hp
  | cons q qs =>
    simp only [rmAt, hf]
    cases rmAt t (q :: qs) <;> rfl

/-- a change with a non-empty path, prefixed with `name`, acts on the child `name` -/
theorem apply1_pre (d : Nat) (k : F) (name : Nat) (t : T) (ch : Ch) (hw : k.WF) (hf : k.find name = some t)
    (hne : ch.path ≠ []) (hc : ch.WF) :
    apply1 (.n d k) (ch.pre name) = (apply1 t ch).map (fun t' => .n d (k.set name t')) := by
  have htw := F.find_WF k name t hw hf
  cases ch with
  | add p a => exact insertAt_cons d k name p a t hne hf
  | rm p b => exact rmAt_cons d k name p t hne hf
  | mod p b a =>
    simp only [apply1, Ch.pre]
    rw [rmAt_cons d k name p t hne hf]
    cases hr : rmAt t p with
    | none => rfl
    | some t1 =>
      have h1 := rmAt_WF p t t1 htw hr
      simp only [Option.map_some]
      rw [insertAt_cons d (k.set name t1) name p a t1 hne (by rw [F.find_set]; simp)]
      cases hi : insertAt t1 p a with
      | none => rfl
      | some t2 =>
        have h2 := insertAt_WF p t1 a t2 h1 hc hi
        simp only [Option.map_some]
        rw [F.set_set k name t1 t2 hw h1 h2]

theorem applyAll_pre (d : Nat) (name : Nat) : ∀ (cs : List Ch) (k : F) (t t' : T), k.WF → k.find name = some t →
    (∀ ch ∈ cs, ch.path ≠ [] ∧ ch.WF) → applyAll t cs = some t' →
    applyAll (.n d k) (cs.map (Ch.pre name)) = some (.n d (k.set name t'))
  | [], k, t, t', hw, hf, _, h => by
    simp only [applyAll, Option.some.injEq] at h
    subst h
    simp only [List.map_nil, applyAll]
    rw [F.set_same k name t hw hf]
  | ch :: cs, k, t, t', hw, hf, hall, h => by
    have hch := hall ch List.mem_cons_self
    have htw := F.find_WF k name t hw hf
    simp only [applyAll] at h
    cases h1 : apply1 t ch with
    | none => simp [h1] at h
    | some t1 =>
      simp only [h1] at h
      have ht1 := apply1_WF t t1 ch htw hch.2 h1
      simp only [List.map_cons, applyAll]
      rw [apply1_pre d k name t ch hw hf hch.1 hch.2, h1]
      simp only [Option.map_some]
      have := applyAll_pre d name cs (k.set name t1) t1 t' (F.WF_set k name t1 hw ht1)
        (by rw [F.find_set]; simp) (fun c hc => hall c (List.mem_cons_of_mem _ hc)) h
      rw [this, F.set_set k name t1 t' hw ht1]
      -- t' is well-formed: it is the result of applying well-formed changes to a well-formed tree
      clear this
      have : ∀ (cs : List Ch) (u u' : T), u.WF → (∀ c ∈ cs, c.WF) → applyAll u cs = some u' → u'.WF := by
        intro cs
        induction cs with
        | nil => intro u u' hu _ h; simp only [applyAll, Option.some.injEq] at h; subst h; exact hu
        | cons c cs ih =>
          intro u u' hu hcs h
          simp only [applyAll] at h
          cases h2 : apply1 u c with
          | none => simp [h2] at h
          | some u1 =>
            simp only [h2] at h
            exact ih u1 u' (apply1_WF u u1 c hu (hcs c List.mem_cons_self) h2)
              (fun c' hc' => hcs c' (List.mem_cons_of_mem _ hc')) h
      exact this cs t1 t' ht1 (fun c hc => (hall c (List.mem_cons_of_mem _ hc)).2) h

/-! ## the class of pairs on which Diff carries enough information -/

mutual
/-- `Sub a b`: a matched pair below the root that Diff + ApplyChange reproduce: equal, or both without
links (one Mod), or — when either has links — equal `data` and all name-matched children again `Sub` -/
def Sub : T → T → Prop
  | .n da ka, b => T.n da ka = b ∨ (ka.isNil = true ∧ b.kids.isNil = true) ∨
      (¬(ka.isNil = true ∧ b.kids.isNil = true) ∧ da = b.data ∧ SubK ka b.kids)
def SubK : F → F → Prop
  | .nil, _ => True
  | .cons name ta rest, kb => (∀ tb, kb.find name = some tb → Sub ta tb) ∧ SubK rest kb
end

/-- the same at the root, where a Mod of the whole node cannot be applied -/
def Good (a b : T) : Prop :=
  a = b ∨ (¬(a.kids.isNil = true ∧ b.kids.isNil = true) ∧ a.data = b.data ∧ SubK a.kids b.kids)

/-! ## Remove and Add changes of one level -/

def rmAll (k : F) (l : List (Nat × T)) : F := l.foldl (fun k p => k.remove p.1) k
def addAll (k : F) (l : List (Nat × T)) : F := l.foldl (fun k p => k.set p.1 p.2) k

theorem onlyIn_WF : ∀ (r other : F), r.WF → ∀ p ∈ onlyIn r other, p.2.WF
  | .nil, _, _, p, hp => by simp [onlyIn] at hp
  | .cons x t r, other, hw, p, hp => by
    simp only [F.WF] at hw
    simp only [onlyIn, List.mem_append] at hp
    rcases hp with hp | hp
    · split at hp
      · simp at hp
      · simp at hp; subst hp; exact hw.1
    · exact onlyIn_WF r other hw.2.1 p hp

theorem apply_rms (d : Nat) (other : F) : ∀ (r k : F), r.WF →
    (∀ m t, r.find m = some t → other.find m = none → k.find m = some t) →
    applyAll (.n d k) ((onlyIn r other).map (fun p => Ch.rm [p.1] p.2)) = some (.n d (rmAll k (onlyIn r other)))
  | .nil, k, _, _ => rfl
  | .cons x t r, k, hw, hk => by
    simp only [F.WF] at hw
    have hrx : r.find x = none := F.find_none_of_lb r x x hw.2.1 hw.2.2 (Nat.le_refl _)
    have hk' : ∀ k' : F, (∀ m, m ≠ x → k'.find m = k.find m) →
        ∀ m t', r.find m = some t' → other.find m = none → k'.find m = some t' := by
      intro k' hsame m t' hm hom
      have hmx : m ≠ x := by intro h; rw [h, hrx] at hm; cases hm
      rw [hsame m hmx]
      apply hk _ _ _ hom
      simp only [F.find]
      have : x ≠ m := fun h => hmx h.symm
      simp [this, hm]
    simp only [onlyIn]
    by_cases ho : (other.find x).isSome = true
    · simp only [ho, if_true, List.nil_append]
      exact apply_rms d other r k hw.2.1 (hk' k (fun _ _ => rfl))
    · have hon : other.find x = none := by
        cases h : other.find x with
        | none => rfl
        | some _ => rw [h] at ho; exact absurd rfl ho
      simp only [ho, Bool.false_eq_true, if_false, List.cons_append, List.nil_append, List.map_cons, applyAll, apply1, rmAt]
      have hx : k.find x = some t := hk x t (by simp [F.find]) hon
      simp only [hx, Option.isSome_some, if_true]
      have := apply_rms d other r (k.remove x) hw.2.1 (hk' _ (fun m hm => by rw [F.find_remove]; simp [hm]))
      simpa [rmAll] using this

theorem apply_adds (d : Nat) : ∀ (l : List (Nat × T)) (k : F),
    applyAll (.n d k) (l.map (fun p => Ch.add [p.1] p.2)) = some (.n d (addAll k l))
  | [], k => rfl
  | p :: l, k => by
    simp only [List.map_cons, applyAll, apply1, insertAt]
    have := apply_adds d l (k.set p.1 p.2)
    simpa [addAll] using this

theorem rmAll_WF : ∀ (l : List (Nat × T)) (k : F), k.WF → (rmAll k l).WF
  | [], k, h => h
  | p :: l, k, h => by
    simp only [rmAll, List.foldl_cons]
    exact rmAll_WF l _ (F.WF_remove k p.1 h)

theorem addAll_WF : ∀ (l : List (Nat × T)) (k : F), k.WF → (∀ p ∈ l, p.2.WF) → (addAll k l).WF
  | [], k, h, _ => h
  | p :: l, k, h, hl => by
    simp only [addAll, List.foldl_cons]
    exact addAll_WF l _ (F.WF_set k p.1 p.2 h (hl p List.mem_cons_self)) (fun q hq => hl q (List.mem_cons_of_mem _ hq))

theorem find_rmAll (other : F) (m : Nat) : ∀ (r k : F),
    (rmAll k (onlyIn r other)).find m = if (r.find m).isSome = true ∧ other.find m = none then none else k.find m
  | .nil, k => by simp [onlyIn, rmAll, F.find]
  | .cons x t r, k => by
    simp only [onlyIn]
    by_cases ho : (other.find x).isSome = true
    · simp only [ho, if_true, List.nil_append]
      rw [find_rmAll other m r k]
      simp only [F.find]
      by_cases hxm : x = m
      · subst hxm
        have : other.find x ≠ none := by intro h; rw [h] at ho; cases ho
        simp [this]
      · simp [hxm]
    · have hon : other.find x = none := by
        cases h : other.find x with
        | none => rfl
        | some _ => rw [h] at ho; exact absurd rfl ho
      simp only [ho, Bool.false_eq_true, if_false, List.cons_append, List.nil_append, rmAll, List.foldl_cons]
      have := find_rmAll other m r (k.remove x)
      simp only [rmAll] at this
      rw [this, F.find_remove]
      simp only [F.find]
      by_cases hxm : x = m
      · subst hxm; simp [hon]
      · have : m ≠ x := fun h => hxm h.symm
        simp [hxm, this]

theorem find_addAll (other : F) (m : Nat) : ∀ (r k : F), r.WF →
    (addAll k (onlyIn r other)).find m =
      if other.find m = none then (match r.find m with | some t => some t | none => k.find m) else k.find m
  | .nil, k, _ => by simp [onlyIn, addAll, F.find]
  | .cons x t r, k, hw => by
    simp only [F.WF] at hw
    have hrx : r.find x = none := F.find_none_of_lb r x x hw.2.1 hw.2.2 (Nat.le_refl _)
    simp only [onlyIn]
    by_cases ho : (other.find x).isSome = true
    · simp only [ho, if_true, List.nil_append]
      rw [find_addAll other m r k hw.2.1]
      simp only [F.find]
      by_cases hxm : x = m
      · subst hxm
        have : other.find x ≠ none := by intro h; rw [h] at ho; cases ho
        simp [this]
      · simp [hxm]
    · have hon : other.find x = none := by
        cases h : other.find x with
        | none => rfl
        | some _ => rw [h] at ho; exact absurd rfl ho
      simp only [ho, Bool.false_eq_true, if_false, List.cons_append, List.nil_append, addAll, List.foldl_cons]
      have := find_addAll other m r (k.set x t) hw.2.1
      simp only [addAll] at this
      rw [this, F.find_set]
      simp only [F.find]
      by_cases hxm : x = m
      · subst hxm; simp [hon, hrx]
      · have : m ≠ x := fun h => hxm h.symm
        simp [hxm, this]

/-! ## the effect of the recursive part of Diff on one level -/

/-- the links of the node after the changes of `diffKids rest kb` have been applied -/
def patch : F → F → F → F
  | .nil, _, kc => kc
  | .cons name ta rest, kb, kc =>
    patch rest kb (match kb.find name with
      | some tb => if ta = tb then kc else kc.set name tb
      | none => kc)

theorem patch_WF : ∀ (rest kb kc : F), kb.WF → kc.WF → (patch rest kb kc).WF
  | .nil, _, _, _, h => h
  | .cons name ta rest, kb, kc, hb, hc => by
    simp only [patch]
    apply patch_WF rest kb _ hb
    cases hf : kb.find name with
    | none => exact hc
    | some tb =>
      simp only []
      split
      · exact hc
      · exact F.WF_set kc name tb hc (F.find_WF kb name tb hb hf)

theorem find_patch (kb : F) (m : Nat) : ∀ (rest kc : F), rest.WF → (∀ x t, rest.find x = some t → kc.find x = some t) →
    (patch rest kb kc).find m =
      (match rest.find m, kb.find m with
       | some _, some tb => some tb
       | _, _ => kc.find m)
  | .nil, kc, _, _ => by simp [patch, F.find]
  | .cons name ta rest, kc, hw, hk => by
    simp only [F.WF] at hw
    have hrx : rest.find name = none := F.find_none_of_lb rest name name hw.2.1 hw.2.2 (Nat.le_refl _)
    have hkc : kc.find name = some ta := hk name ta (by simp [F.find])
    -- the new current links still agree with the rest of the list
    have hk' : ∀ kc' : F, (∀ x, x ≠ name → kc'.find x = kc.find x) → ∀ x t, rest.find x = some t → kc'.find x = some t := by
      intro kc' hsame x t hx
      have hxn : x ≠ name := by intro h; rw [h, hrx] at hx; cases hx
      rw [hsame x hxn]
      apply hk
      simp only [F.find]
      have : name ≠ x := fun h => hxn h.symm
      simp [this, hx]
    simp only [patch]
    cases hf : kb.find name with
    | none =>
      simp only []
      rw [find_patch kb m rest kc hw.2.1 (hk' kc (fun _ _ => rfl))]
      simp only [F.find]
      by_cases hnm : name = m
      · subst hnm; simp [hrx, hf]
      · simp [hnm]
    | some tb =>
      simp only []
      by_cases hab : ta = tb
      · simp only [hab, if_true]
        rw [find_patch kb m rest kc hw.2.1 (hk' kc (fun _ _ => rfl))]
        simp only [F.find]
        by_cases hnm : name = m
        · subst hnm; simp [hrx, hf, hkc, hab]
        · simp [hnm]
      · simp only [hab, if_false]
        rw [find_patch kb m rest (kc.set name tb) hw.2.1 (hk' _ (fun x hx => by rw [F.find_set]; simp [hx]))]
        simp only [F.find, F.find_set]
        by_cases hnm : name = m
        · subst hnm; simp [hrx, hf]
        · have : m ≠ name := fun h => hnm h.symm
          simp [hnm, this]

/-! ## shape of Diff's output -/

theorem Ch.pre_path (name : Nat) (ch : Ch) : (ch.pre name).path = name :: ch.path := by cases ch <;> rfl
theorem Ch.pre_WF (name : Nat) (ch : Ch) : (ch.pre name).WF ↔ ch.WF := by cases ch <;> exact Iff.rfl

theorem T.kids_WF {t : T} (h : t.WF) : t.kids.WF := by cases t; exact h

mutual
theorem diff_shape : ∀ (a b : T), b.WF → ∀ ch ∈ diff a b,
    ch.WF ∧ (¬(a.kids.isNil = true ∧ b.kids.isNil = true) → ch.path ≠ [])
  | .n da ka, b, hb, ch, hch => by
    simp only [diff] at hch
    split at hch
    · simp at hch
    · split at hch
      · rename_i hl
        simp only [List.mem_singleton] at hch
        subst hch
        refine ⟨hb, fun h => absurd ?_ h⟩
        simpa [T.kids] using hl
      · simp only [List.mem_append, List.mem_map] at hch
        rcases hch with (hch | ⟨p, hp, rfl⟩) | ⟨p, hp, rfl⟩
        · have := diffKids_shape ka b.kids (T.kids_WF hb) ch hch
          exact ⟨this.1, fun _ => this.2⟩
        · exact ⟨trivial, fun _ => by simp [Ch.path]⟩
        · exact ⟨onlyIn_WF b.kids ka (T.kids_WF hb) p hp, fun _ => by simp [Ch.path]⟩
theorem diffKids_shape : ∀ (ka kb : F), kb.WF → ∀ ch ∈ diffKids ka kb, ch.WF ∧ ch.path ≠ []
  | .nil, _, _, ch, hch => by simp [diffKids] at hch
  | .cons name ta rest, kb, hb, ch, hch => by
    simp only [diffKids, List.mem_append] at hch
    rcases hch with hch | hch
    · cases hf : kb.find name with
      | none => simp [hf] at hch
      | some tb =>
        simp only [hf] at hch
        split at hch
        · simp at hch
        · simp only [List.mem_map] at hch
          obtain ⟨c, hc, rfl⟩ := hch
          have := diff_shape ta tb (F.find_WF kb name tb hb hf) c hc
          exact ⟨(Ch.pre_WF name c).2 this.1, by rw [Ch.pre_path]; simp⟩
    · exact diffKids_shape rest kb hb ch hch
end

theorem F.set_remove (k : F) (name : Nat) (t : T) (hw : k.WF) (ht : t.WF) :
    (k.remove name).set name t = k.set name t := by
  apply F.ext _ _ (F.WF_set _ name t (F.WF_remove k name hw) ht) (F.WF_set k name t hw ht)
  intro m
  simp only [F.find_set, F.find_remove]
  by_cases hm : m = name <;> simp [hm]

/-! ## main induction -/

mutual
/-- a node with links on either side, equal data and `SubK` children: applying Diff's changes gives `b` -/
theorem apply_diff_node : ∀ (a b : T), a.WF → b.WF → a ≠ b → ¬(a.kids.isNil = true ∧ b.kids.isNil = true) →
    a.data = b.data → SubK a.kids b.kids → applyAll a (diff a b) = some b
  | .n da ka, .n db kb, ha, hb, hne, hnl, hd, hs => by
    simp only [T.kids, T.data] at hnl hd hs
    subst hd
    have hdiff : diff (.n da ka) (.n da kb) = diffKids ka kb
        ++ (onlyIn ka kb).map (fun p => Ch.rm [p.1] p.2) ++ (onlyIn kb ka).map (fun p => Ch.add [p.1] p.2) := by
      simp only [diff, hne, if_false, T.kids]
      have : (ka.isNil && kb.isNil) = false := by
        cases h1 : ka.isNil <;> cases h2 : kb.isNil <;> simp_all
      simp [this]
    rw [hdiff, applyAll_append, applyAll_append]
    rw [apply_diff_kids ka kb da ka ha hb ha hs (fun _ _ h => h)]
    simp only [Option.bind_some]
    rw [apply_rms da kb ka (patch ka kb ka) ha ?_]
    · simp only [Option.bind_some]
      rw [apply_adds]
      have hw1 := patch_WF ka kb ka hb ha
      have hw2 := rmAll_WF (onlyIn ka kb) _ hw1
      have hw3 := addAll_WF (onlyIn kb ka) _ hw2 (onlyIn_WF kb ka hb)
      have : addAll (rmAll (patch ka kb ka) (onlyIn ka kb)) (onlyIn kb ka) = kb := by
        apply F.ext _ _ hw3 hb
        intro m
        rw [find_addAll ka m kb _ hb, find_rmAll kb m ka _, find_patch kb m ka ka ha (fun _ _ h => h)]
        cases h1 : ka.find m <;> cases h2 : kb.find m <;> simp
      rw [this]
    · -- the links only `a` has are untouched by the recursive part
      intro m t hm hom
      rw [find_patch kb m ka ka ha (fun _ _ h => h), hm, hom]

/-- the recursive part of Diff over the links `rest` of `a` (a suffix of its link list), while the node
being edited currently has links `kc` that still hold the original children for `rest` -/
theorem apply_diff_kids : ∀ (rest kb : F) (d : Nat) (kc : F), rest.WF → kb.WF → kc.WF → SubK rest kb →
    (∀ m t, rest.find m = some t → kc.find m = some t) →
    applyAll (.n d kc) (diffKids rest kb) = some (.n d (patch rest kb kc))
  | .nil, _, _, _, _, _, _, _, _ => rfl
  | .cons name ta rest, kb, d, kc, hw, hb, hc, hs, hk => by
    simp only [F.WF] at hw
    simp only [SubK] at hs
    have hrx : rest.find name = none := F.find_none_of_lb rest name name hw.2.1 hw.2.2 (Nat.le_refl _)
    have hkc : kc.find name = some ta := hk name ta (by simp [F.find])
    have hk' : ∀ kc' : F, (∀ x, x ≠ name → kc'.find x = kc.find x) → ∀ x t, rest.find x = some t → kc'.find x = some t := by
      intro kc' hsame x t hx
      have hxn : x ≠ name := by intro h; rw [h, hrx] at hx; cases hx
      rw [hsame x hxn]
      apply hk
      simp only [F.find]
      have : name ≠ x := fun h => hxn h.symm
      simp [this, hx]
    simp only [diffKids, patch]
    cases hf : kb.find name with
    | none =>
      simp only [List.nil_append]
      exact apply_diff_kids rest kb d kc hw.2.1 hb hc hs.2 (hk' kc (fun _ _ => rfl))
    | some tb =>
      simp only []
      by_cases hab : ta = tb
      · simp only [hab, if_true, List.nil_append]
        exact apply_diff_kids rest kb d kc hw.2.1 hb hc hs.2 (hk' kc (fun _ _ => rfl))
      · simp only [hab, if_false]
        have htb : tb.WF := F.find_WF kb name tb hb hf
        have hsub := hs.1 tb hf
        -- the changes below `name` turn the child `ta` into `tb`
        have hstep : applyAll (.n d kc) ((diff ta tb).map (Ch.pre name)) = some (.n d (kc.set name tb)) := by
          cases ta with
          | n da ka =>
            simp only [Sub] at hsub
            rcases hsub with heq | hleaf | ⟨hnl, hd, hsk⟩
            · exact absurd heq hab
            · -- both without links: one Mod at `name`
              have hdiff : diff (.n da ka) tb = [.mod [] (.n da ka) tb] := by
                simp only [diff, hab, if_false, hleaf.1, hleaf.2, Bool.and_self, if_true]
              rw [hdiff]
              simp only [List.map_cons, List.map_nil, Ch.pre, applyAll, apply1, rmAt, hkc, Option.isSome_some, if_true,
                insertAt]
              rw [F.set_remove kc name tb hc htb]
            · have hq := apply_diff_node (.n da ka) tb hw.1 htb hab (by simpa [T.kids] using hnl)
                (by simpa [T.data] using hd) (by simpa [T.kids] using hsk)
              have hshape := diff_shape (.n da ka) tb htb
              exact applyAll_pre d name (diff (.n da ka) tb) kc (.n da ka) tb hc hkc
                (fun ch hch => ⟨(hshape ch hch).2 (by simpa [T.kids] using hnl), (hshape ch hch).1⟩) hq
        rw [applyAll_append, hstep]
        simp only [Option.bind_some]
        exact apply_diff_kids rest kb d (kc.set name tb) hw.2.1 hb (F.WF_set kc name tb hc htb) hs.2
          (hk' _ (fun x hx => by rw [F.find_set]; simp [hx]))
end

mutual
theorem subB_iff : ∀ (a b : T), subB a b = true ↔ Sub a b
  | .n da ka, b => by
    simp only [subB, Sub, Bool.or_eq_true, Bool.and_eq_true, decide_eq_true_eq, Bool.not_eq_true', beq_iff_eq,
      subKB_iff ka b.kids]
    constructor
    · rintro ((h | h) | ⟨⟨h1, h2⟩, h3⟩)
      · exact Or.inl h
      · exact Or.inr (Or.inl h)
      · refine Or.inr (Or.inr ⟨?_, h2, h3⟩)
        intro hh; rw [hh.1, hh.2] at h1; simp at h1
    · rintro (h | h | ⟨h1, h2, h3⟩)
      · exact Or.inl (Or.inl h)
      · exact Or.inl (Or.inr h)
      · refine Or.inr ⟨⟨?_, h2⟩, h3⟩
        cases ha : ka.isNil <;> cases hb : b.kids.isNil <;> simp_all
theorem subKB_iff : ∀ (ka kb : F), subKB ka kb = true ↔ SubK ka kb
  | .nil, _ => by simp [subKB, SubK]
  | .cons name ta rest, kb => by
    simp only [subKB, SubK, Bool.and_eq_true, subKB_iff rest kb]
    constructor
    · rintro ⟨h1, h2⟩
      refine ⟨fun tb hf => ?_, h2⟩
      rw [hf] at h1
      exact (subB_iff ta tb).1 h1
    · rintro ⟨h1, h2⟩
      refine ⟨?_, h2⟩
      cases hf : kb.find name with
      | none => rfl
      | some tb => exact (subB_iff ta tb).2 (h1 tb hf)
end

theorem goodB_iff (a b : T) : goodB a b = true ↔ Good a b := by
  simp only [goodB, Good, Bool.or_eq_true, Bool.and_eq_true, decide_eq_true_eq, Bool.not_eq_true', beq_iff_eq, subKB_iff]
  constructor
  · rintro (h | ⟨⟨h1, h2⟩, h3⟩)
    · exact Or.inl h
    · refine Or.inr ⟨?_, h2, h3⟩
      intro hh; rw [hh.1, hh.2] at h1; simp at h1
  · rintro (h | ⟨h1, h2, h3⟩)
    · exact Or.inl h
    · refine Or.inr ⟨⟨?_, h2⟩, h3⟩
      cases ha : a.kids.isNil <;> cases hb : b.kids.isNil <;> simp_all

end C14
