import BoxoModel.C24.Lemmas
/-! C24 — lemmas about `SyncIndex` on the multimap level: when values are unique within each index
(what the package's doc comment requires) the operations it issues turn the target into the
reference. -/
namespace C24
open BaseN

/-- every value occurs in at most one pair (and no pair is listed twice) -/
def ValuesUnique (l : MM) : Prop := (l.map (·.2)).Nodup
def NonEmptyPairs (l : MM) : Prop := ∀ p ∈ l, p.1 ≠ [] ∧ p.2 ≠ []

theorem vu_cons {p : Pair} {l : MM} (h : ValuesUnique (p :: l)) :
    (∀ k, (k, p.2) ∉ l) ∧ ValuesUnique l := by
  simp only [ValuesUnique, List.map_cons, List.nodup_cons] at h
  exact ⟨fun k hk => h.1 (List.mem_map.mpr ⟨(k, p.2), hk, rfl⟩), h.2⟩

/-! ### refsOf -/

theorem find_foldl_refs (l : MM) (hu : ValuesUnique l) (acc : VK) (v k : Bytes) :
    AMap.find (l.foldl (fun m p => AMap.insert m p.2 p.1) acc) v = some k ↔
      ((k, v) ∈ l ∨ ((∀ k', (k', v) ∉ l) ∧ AMap.find acc v = some k)) := by
  induction l generalizing acc with
  | nil => simp
  | cons p r ih =>
    obtain ⟨hp, hr⟩ := vu_cons hu
    simp only [List.foldl_cons]
    rw [ih hr, AMap.find_insert]
    by_cases hv : p.2 = v
    · subst hv
      simp only [if_true]
      constructor
      · rintro (h | ⟨_, h⟩)
        · exact absurd h (hp k)
        · left
          have : p = (k, p.2) := by cases h; rfl
          rw [← this]; simp
      · rintro (h | ⟨h, _⟩)
        · rcases List.mem_cons.mp h with e | h
          · right; exact ⟨hp, by rw [← e]⟩
          · exact absurd h (hp k)
        · exact absurd (show (p.1, p.2) ∈ p :: r by simp) (h p.1)
    · simp only [hv, if_false]
      constructor
      · rintro (h | ⟨h1, h2⟩)
        · exact Or.inl (by simp [h])
        · right
          refine ⟨fun k' hk' => ?_, h2⟩
          rcases List.mem_cons.mp hk' with e | hk'
          · exact hv (by rw [← e])
          · exact h1 k' hk'
      · rintro (h | ⟨h1, h2⟩)
        · rcases List.mem_cons.mp h with e | h
          · exact absurd (by rw [← e]) hv
          · exact Or.inl h
        · exact Or.inr ⟨fun k' hk' => h1 k' (by simp [hk']), h2⟩

theorem find_refsOf (l : MM) (hu : ValuesUnique l) (v k : Bytes) :
    AMap.find (refsOf l) v = some k ↔ (k, v) ∈ l := by
  simp only [refsOf]
  rw [find_foldl_refs l hu [] v k]
  simp

theorem noDup_foldl_refs (l : MM) (acc : VK) (h : AMap.NoDupKeys acc) :
    AMap.NoDupKeys (l.foldl (fun m p => AMap.insert m p.2 p.1) acc) := by
  induction l generalizing acc with
  | nil => exact h
  | cons p r ih => exact ih _ (AMap.noDupKeys_insert acc p.2 p.1 h)

theorem noDup_refsOf (l : MM) : AMap.NoDupKeys (refsOf l) := noDup_foldl_refs l [] AMap.noDupKeys_nil

/-! ### the scan over the target -/

theorem syncScan_spec (lT : MM) (hu : ValuesUnique lT) (refs dels : VK)
    (hd : ∀ p ∈ lT, AMap.find dels p.2 = none) (v k : Bytes) :
    (AMap.find (syncScan lT (refs, dels)).1 v = some k ↔ (AMap.find refs v = some k ∧ (k, v) ∉ lT)) ∧
    (AMap.find (syncScan lT (refs, dels)).2 v = some k ↔
      (((k, v) ∈ lT ∧ AMap.find refs v ≠ some k) ∨ AMap.find dels v = some k)) := by
  induction lT generalizing refs dels with
  | nil => simp [syncScan]
  | cons p r ih =>
    obtain ⟨pk, pv⟩ := p
    obtain ⟨hp, hr⟩ := vu_cons hu
    simp only at hp
    have hdp : AMap.find dels pv = none := hd (pk, pv) (by simp)
    have hdr : ∀ q ∈ r, AMap.find dels q.2 = none := fun q hq => hd q (by simp [hq])
    have hdr' : ∀ q ∈ r, AMap.find (AMap.insert dels pv pk) q.2 = none := by
      intro q hq
      rw [AMap.find_insert]
      have : pv ≠ q.2 := fun e => hp q.1 (by rw [e]; exact hq)
      simp [this, hdr q hq]
    -- the "no match" continuation, shared by two branches
    have hnm : AMap.find refs pv ≠ some pk →
        (AMap.find (syncScan r (refs, AMap.insert dels pv pk)).1 v = some k ↔
            (AMap.find refs v = some k ∧ (k, v) ∉ (pk, pv) :: r)) ∧
        (AMap.find (syncScan r (refs, AMap.insert dels pv pk)).2 v = some k ↔
          (((k, v) ∈ (pk, pv) :: r ∧ AMap.find refs v ≠ some k) ∨ AMap.find dels v = some k)) := by
      intro hne
      obtain ⟨iA, iB⟩ := ih hr refs (AMap.insert dels pv pk) hdr'
      refine ⟨?_, ?_⟩
      · rw [iA]
        constructor
        · rintro ⟨h1, h2⟩
          refine ⟨h1, fun hm => ?_⟩
          rcases List.mem_cons.mp hm with e | hm
          · cases e; exact hne h1
          · exact h2 hm
        · rintro ⟨h1, h2⟩; exact ⟨h1, fun hm => h2 (by simp [hm])⟩
      · rw [iB, AMap.find_insert]
        by_cases hv : pv = v
        · subst hv
          simp only [if_true, hdp]
          constructor
          · rintro (⟨h, _⟩ | h)
            · exact absurd h (hp k)
            · cases h; exact Or.inl ⟨by simp, hne⟩
          · rintro (⟨h, _⟩ | h)
            · rcases List.mem_cons.mp h with e | h
              · cases e; exact Or.inr rfl
              · exact absurd h (hp k)
            · simp at h
        · simp only [hv, if_false]
          constructor
          · rintro (⟨h, h2⟩ | h)
            · exact Or.inl ⟨by simp [h], h2⟩
            · exact Or.inr h
          · rintro (⟨h, h2⟩ | h)
            · rcases List.mem_cons.mp h with e | h
              · cases e; exact absurd rfl hv
              · exact Or.inl ⟨h, h2⟩
            · exact Or.inr h
    simp only [syncScan]
    cases hf : AMap.find refs pv with
    | none => exact hnm (by simp [hf])
    | some rk =>
      by_cases hk : rk = pk
      · subst hk
        simp only [if_true]
        obtain ⟨iA, iB⟩ := ih hr (AMap.erase refs pv) dels hdr
        refine ⟨?_, ?_⟩
        · rw [iA, AMap.find_erase]
          by_cases hv : pv = v
          · subst hv
            simp only [if_true]
            constructor
            · rintro ⟨h, _⟩; simp at h
            · rintro ⟨h1, h2⟩
              rw [hf] at h1; cases h1
              exact absurd (by simp) h2
          · simp only [hv, if_false]
            constructor
            · rintro ⟨h1, h2⟩
              refine ⟨h1, fun hm => ?_⟩
              rcases List.mem_cons.mp hm with e | hm
              · cases e; exact hv rfl
              · exact h2 hm
            · rintro ⟨h1, h2⟩; exact ⟨h1, fun hm => h2 (by simp [hm])⟩
        · rw [iB, AMap.find_erase]
          by_cases hv : pv = v
          · subst hv
            simp only [if_true, hdp]
            constructor
            · rintro (⟨h, _⟩ | h)
              · exact absurd h (hp k)
              · simp at h
            · rintro (⟨h, h2⟩ | h)
              · rcases List.mem_cons.mp h with e | h
                · cases e; exact absurd hf h2
                · exact absurd h (hp k)
              · simp at h
          · simp only [hv, if_false]
            constructor
            · rintro (⟨h, h2⟩ | h)
              · exact Or.inl ⟨by simp [h], h2⟩
              · exact Or.inr h
            · rintro (⟨h, h2⟩ | h)
              · rcases List.mem_cons.mp h with e | h
                · cases e; exact absurd rfl hv
                · exact Or.inl ⟨h, h2⟩
              · exact Or.inr h
      · simp only [hk, if_false]
        exact hnm (by rw [hf]; simp [hk])

theorem noDup_syncScan (lT : MM) (refs dels : VK) (hr : AMap.NoDupKeys refs) (hd : AMap.NoDupKeys dels) :
    AMap.NoDupKeys (syncScan lT (refs, dels)).1 ∧ AMap.NoDupKeys (syncScan lT (refs, dels)).2 := by
  induction lT generalizing refs dels with
  | nil => exact ⟨hr, hd⟩
  | cons p r ih =>
    obtain ⟨pk, pv⟩ := p
    simp only [syncScan]
    cases AMap.find refs pv with
    | none => exact ih _ _ hr (AMap.noDupKeys_insert dels pv pk hd)
    | some rk =>
      by_cases hk : rk = pk
      · simp only [hk, if_true]; exact ih _ _ (AMap.noDupKeys_erase refs pv hr) hd
      · simp only [hk, if_false]; exact ih _ _ hr (AMap.noDupKeys_insert dels pv pk hd)

/-! ### runs of deletes / adds on the multimap -/

theorem specRun_deletes (ds : List (Bytes × Bytes)) (l : MM)
    (hne : ∀ q ∈ ds, q.1 ≠ [] ∧ q.2 ≠ []) (p : Pair) :
    (p ∈ (specRun l (ds.map fun q => Op.delete q.2 q.1)).1 ↔ (p ∈ l ∧ ∀ q ∈ ds, p ≠ (q.2, q.1))) ∧
    (∀ o ∈ (specRun l (ds.map fun q => Op.delete q.2 q.1)).2, o = .ok) := by
  induction ds generalizing l with
  | nil => simp [specRun]
  | cons q r ih =>
    have hq := hne q (by simp)
    obtain ⟨i1, i2⟩ := ih (l.filter (· ≠ (q.2, q.1))) (fun x hx => hne x (by simp [hx]))
    simp only [List.map_cons, specRun, specStep, hq.1, hq.2, if_false]
    refine ⟨?_, ?_⟩
    · rw [i1]
      simp only [List.mem_filter, List.mem_cons, forall_eq_or_imp]
      constructor
      · rintro ⟨⟨h1, h2⟩, h3⟩; exact ⟨h1, by simpa using h2, h3⟩
      · rintro ⟨h1, h2, h3⟩; exact ⟨⟨h1, by simpa using h2⟩, h3⟩
    · intro o ho
      rcases List.mem_cons.mp ho with e | ho
      · exact e
      · exact i2 o ho

theorem specRun_adds (as : List (Bytes × Bytes)) (l : MM)
    (hne : ∀ q ∈ as, q.1 ≠ [] ∧ q.2 ≠ []) (p : Pair) :
    (p ∈ (specRun l (as.map fun q => Op.add q.2 q.1)).1 ↔ (p ∈ l ∨ ∃ q ∈ as, p = (q.2, q.1))) ∧
    (∀ o ∈ (specRun l (as.map fun q => Op.add q.2 q.1)).2, o = .ok) := by
  induction as generalizing l with
  | nil => simp [specRun]
  | cons q r ih =>
    have hq := hne q (by simp)
    obtain ⟨i1, i2⟩ := ih ((q.2, q.1) :: l.filter (· ≠ (q.2, q.1))) (fun x hx => hne x (by simp [hx]))
    simp only [List.map_cons, specRun, specStep, hq.1, hq.2, if_false]
    refine ⟨?_, ?_⟩
    · rw [i1]
      simp only [List.mem_cons, List.mem_filter, exists_eq_or_imp]
      constructor
      · rintro ((h | ⟨h, _⟩) | h)
        · exact Or.inr (Or.inl h)
        · exact Or.inl h
        · exact Or.inr (Or.inr h)
      · rintro (h | h | h)
        · by_cases e : p = (q.2, q.1)
          · exact Or.inl (Or.inl e)
          · exact Or.inl (Or.inr ⟨h, by simpa using e⟩)
        · exact Or.inl (Or.inl h)
        · exact Or.inr h
    · intro o ho
      rcases List.mem_cons.mp ho with e | ho
      · exact e
      · exact i2 o ho

theorem specRun_append (l : MM) (a b : List Op) :
    specRun l (a ++ b) = ((specRun (specRun l a).1 b).1, (specRun l a).2 ++ (specRun (specRun l a).1 b).2) := by
  induction a generalizing l with
  | nil => simp [specRun]
  | cons op a ih => simp [specRun, ih]

/-- **SyncIndex on multimaps.** With values unique in the reference `lR` and in the target `lT`, the
operations issued by `SyncIndex` all succeed and leave the target holding exactly the reference's
pairs; and no operation is issued exactly when the two already agree. -/
theorem syncOps_spec (lR lT : MM) (huR : ValuesUnique lR) (huT : ValuesUnique lT)
    (hnR : NonEmptyPairs lR) (hnT : NonEmptyPairs lT) :
    (∀ p, p ∈ (specRun lT (syncOps lR lT)).1 ↔ p ∈ lR) ∧
    (∀ o ∈ (specRun lT (syncOps lR lT)).2, o = .ok) ∧
    (syncOps lR lT = [] ↔ ∀ p, p ∈ lT ↔ p ∈ lR) := by
  have hscan := fun v k => syncScan_spec lT huT (refsOf lR) [] (by intro p _; rfl) v k
  obtain ⟨ndR, ndD⟩ := noDup_syncScan lT (refsOf lR) [] (noDup_refsOf lR) AMap.noDupKeys_nil
  -- membership in the two result maps
  have memR : ∀ v k, (v, k) ∈ (syncScan lT (refsOf lR, [])).1 ↔ ((k, v) ∈ lR ∧ (k, v) ∉ lT) := by
    intro v k
    rw [← find_refsOf lR huR v k, ← (hscan v k).1]
    exact ⟨fun h => AMap.find_of_mem _ ndR v k h, fun h => AMap.mem_of_find _ v k h⟩
  have memD : ∀ v k, (v, k) ∈ (syncScan lT (refsOf lR, [])).2 ↔ ((k, v) ∈ lT ∧ (k, v) ∉ lR) := by
    intro v k
    have h2 : AMap.find (syncScan lT (refsOf lR, [])).2 v = some k ↔
        ((k, v) ∈ lT ∧ AMap.find (refsOf lR) v ≠ some k) := by
      have := (hscan v k).2
      simpa using this
    constructor
    · intro h
      obtain ⟨ht, hne⟩ := h2.mp (AMap.find_of_mem _ ndD v k h)
      exact ⟨ht, fun hr => hne ((find_refsOf lR huR v k).mpr hr)⟩
    · rintro ⟨ht, hnr⟩
      exact AMap.mem_of_find _ v k (h2.mpr ⟨ht, fun hf => hnr ((find_refsOf lR huR v k).mp hf)⟩)
  have neD : ∀ q ∈ (syncScan lT (refsOf lR, [])).2, q.1 ≠ [] ∧ q.2 ≠ [] := by
    intro q hq
    have := hnT (q.2, q.1) ((memD q.1 q.2).mp hq).1
    exact ⟨this.2, this.1⟩
  have neR : ∀ q ∈ (syncScan lT (refsOf lR, [])).1, q.1 ≠ [] ∧ q.2 ≠ [] := by
    intro q hq
    have := hnR (q.2, q.1) ((memR q.1 q.2).mp hq).1
    exact ⟨this.2, this.1⟩
  simp only [syncOps]
  rw [specRun_append]
  refine ⟨fun p => ?_, ?_, ?_⟩
  · obtain ⟨k, v⟩ := p
    rw [(specRun_adds _ _ neR (k, v)).1, (specRun_deletes _ _ neD (k, v)).1]
    constructor
    · rintro (⟨h1, h2⟩ | ⟨q, hq, e⟩)
      · by_cases hr : (k, v) ∈ lR
        · exact hr
        · exact absurd rfl (h2 (v, k) ((memD v k).mpr ⟨h1, hr⟩))
      · cases e; exact ((memR q.1 q.2).mp hq).1
    · intro hr
      by_cases ht : (k, v) ∈ lT
      · left
        refine ⟨ht, fun q hq e => ?_⟩
        cases e
        exact ((memD q.1 q.2).mp hq).2 hr
      · exact Or.inr ⟨(v, k), (memR v k).mpr ⟨hr, ht⟩, rfl⟩
  · intro o ho
    rcases List.mem_append.mp ho with h | h
    · exact (specRun_deletes _ lT neD ([], [])).2 o h
    · exact (specRun_adds _ _ neR ([], [])).2 o h
  · simp only [List.append_eq_nil_iff, List.map_eq_nil_iff]
    constructor
    · rintro ⟨hD, hR⟩ ⟨k, v⟩
      constructor
      · intro ht
        by_cases hr : (k, v) ∈ lR
        · exact hr
        · have := (memD v k).mpr ⟨ht, hr⟩; rw [hD] at this; simp at this
      · intro hr
        by_cases ht : (k, v) ∈ lT
        · exact ht
        · have := (memR v k).mpr ⟨hr, ht⟩; rw [hR] at this; simp at this
    · intro h
      refine ⟨List.eq_nil_iff_forall_not_mem.mpr fun q hq => ?_, List.eq_nil_iff_forall_not_mem.mpr fun q hq => ?_⟩
      · have := (memD q.1 q.2).mp hq; exact this.2 ((h _).mp this.1)
      · have := (memR q.1 q.2).mp hq; exact this.2 ((h _).mpr this.1)

theorem refsOf_ne_nil (lR : MM) (hu : ValuesUnique lR) (h : lR ≠ []) : refsOf lR ≠ [] := by
  cases lR with
  | nil => exact absurd rfl h
  | cons p r =>
    intro e
    have := (find_refsOf (p :: r) hu p.2 p.1).mpr (by simp)
    rw [e] at this; simp at this

/-- store-level `SyncIndex` through the simulation -/
theorem syncIndex_sim (ns : Key) (hns : NsOk ns) (sT : Store) (lR lT : MM) (hs : Sim ns sT lT)
    (huR : ValuesUnique lR) (huT : ValuesUnique lT) (hnR : NonEmptyPairs lR) (hne : lR ≠ []) :
    ∃ lT', (syncIndex ns sT (some lR)).2 = .changed (!(syncOps lR lT).isEmpty) ∧
      Sim ns (syncIndex ns sT (some lR)).1 lT' ∧ (∀ p, p ∈ lT' ↔ p ∈ lR) ∧
      ((syncOps lR lT).isEmpty = true ↔ ∀ p, p ∈ lT ↔ p ∈ lR) := by
  obtain ⟨h1, h2, h3⟩ := syncOps_spec lR lT huR huT hnR hs.2
  obtain ⟨r1, r2⟩ := run_sim ns hns sT lT (syncOps lR lT) hs
  have hq : decodeEntries (queryPrefix ns sT []) = some lT := by
    rw [hs.1, queryPrefix_all ns hns, decodeEntries_dsKeys]
  have hall : ((run ns sT (syncOps lR lT)).2.all (· == Out.ok)) = true := by
    rw [r1, List.all_eq_true]
    intro o ho
    simp [h2 o ho]
  refine ⟨(specRun lT (syncOps lR lT)).1, ?_, ?_, h1, ?_⟩
  · simp only [syncIndex, refsOf_ne_nil lR huR hne, if_false, hq, hall, if_true]
  · simp only [syncIndex, refsOf_ne_nil lR huR hne, if_false, hq, hall, if_true]
    exact r2
  · rw [List.isEmpty_iff]; exact h3

end C24
