import BoxoModel.C24.Model
/-
C24 — the multimap the index is compared with: a duplicate-free list of (key, value) pairs.
The list order mirrors the order in which the model's datastore lists its keys, so that the
refinement can be stated as plain equality of outputs; `Props/C24.lean` also gives the order-free
reading (membership + no duplicates).
-/
namespace C24
open BaseN

abbrev Pair := Bytes × Bytes
abbrev MM := List Pair

def specStep (l : MM) : Op → MM × Out
  | .add k v =>
    if k = [] then (l, .errEmptyKey)
    else if v = [] then (l, .errEmptyValue)
    else ((k, v) :: l.filter (· ≠ (k, v)), .ok)
  | .delete k v =>
    if k = [] then (l, .errEmptyKey)
    else if v = [] then (l, .errEmptyValue)
    else (l.filter (· ≠ (k, v)), .ok)
  | .deleteKey k =>
    if k = [] then (l, .errEmptyKey)
    else (l.filter (·.1 ≠ k), .count (l.filter (·.1 = k)).length)
  | .deleteAll => ([], .count l.length)
  | .search k =>
    if k = [] then (l, .errEmptyKey)
    else (l, .values ((l.filter (·.1 = k)).map (·.2)))
  | .hasValue k v =>
    if k = [] then (l, .errEmptyKey)
    else if v = [] then (l, .errEmptyValue)
    else (l, .bool (decide ((k, v) ∈ l)))
  | .hasAny k => (l, .bool (if k = [] then !l.isEmpty else l.any (·.1 = k)))
  | .forEach k => (l, .pairs (if k = [] then l else l.filter (·.1 = k)))

def specRun (l : MM) : List Op → MM × List Out
  | [] => (l, [])
  | op :: ops =>
    let r := specStep l op
    let r' := specRun r.1 ops
    (r'.1, r.2 :: r'.2)

/-- raw datastore key of a pair -/
def rkp (ns : Key) (p : Pair) : Key := convertKey ns (dsKey p.1 p.2)

/-- admissible index names: the root, or a name whose first component does not start with 'u'
(every name boxo uses starts with "/pins…").  A name such as "/uYQ" is itself the encoding of an index
key and makes `PrefixTransform.ConvertKey` skip the prefix for that key — outside the property. -/
def NsOk (ns : Key) : Prop := ns = ['/'] ∨ ∃ c rest, ns = '/' :: c :: rest ∧ c ≠ 'u'

/-- simulation relation: the datastore holds exactly the keys of the multimap's pairs, in order, and
no pair has an empty component -/
def Sim (ns : Key) (s : Store) (l : MM) : Prop :=
  s = l.map (rkp ns) ∧ ∀ p ∈ l, p.1 ≠ [] ∧ p.2 ≠ []

end C24
