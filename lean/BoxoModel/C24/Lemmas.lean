import BoxoModel.C24.Spec
/-! C24 helper lemmas: key structure (no '/' inside encoded components), query-prefix matching,
path.Base / path.Dir on index keys, and the one-step simulation. -/
namespace C24
open BaseN

/-! ### generic list facts -/

theorem append_sep_inj {α : Type} (sep : α) (a a' b b' : List α) (ha : sep ∉ a) (ha' : sep ∉ a')
    (h : a ++ sep :: b = a' ++ sep :: b') : a = a' ∧ b = b' := by
  induction a generalizing a' with
  | nil =>
    cases a' with
    | nil => simp at h; exact ⟨rfl, h⟩
    | cons x xs =>
      simp at h; exact absurd h.1.symm (by intro e; exact ha' (by simp [e]))
  | cons x xs ih =>
    cases a' with
    | nil => simp at h; exact absurd h.1 (by intro e; exact ha (by simp [e]))
    | cons y ys =>
      simp only [List.cons_append, List.cons.injEq] at h
      obtain ⟨e1, e2⟩ := ih ys (fun hm => ha (by simp [hm])) (fun hm => ha' (by simp [hm])) h.2
      exact ⟨by rw [h.1, e1], e2⟩

theorem takeWhile_ne_append {α : Type} [DecidableEq α] (sep : α) (a b : List α) (ha : sep ∉ a) :
    (a ++ sep :: b).takeWhile (· ≠ sep) = a := by
  induction a with
  | nil => simp
  | cons x xs ih =>
    have hx : x ≠ sep := fun e => ha (by simp [e])
    rw [List.cons_append, List.takeWhile_cons_of_pos (by simpa using hx), ih (fun hm => ha (by simp [hm]))]

theorem dropWhile_ne_append {α : Type} [DecidableEq α] (sep : α) (a b : List α) (ha : sep ∉ a) :
    (a ++ sep :: b).dropWhile (· ≠ sep) = sep :: b := by
  induction a with
  | nil => simp
  | cons x xs ih =>
    have hx : x ≠ sep := fun e => ha (by simp [e])
    rw [List.cons_append, List.dropWhile_cons_of_pos (by simpa using hx), ih (fun hm => ha (by simp [hm]))]

theorem filter_true' {α : Type} (l : List α) : l.filter (fun _ => true) = l := by
  induction l with
  | nil => rfl
  | cons x xs ih => simp [ih]

theorem isPrefixOf_append_self (a b : Key) : (a).isPrefixOf (a ++ b) = true := by
  rw [List.isPrefixOf_iff_prefix]; exact List.prefix_append a b

/-! ### encoded components -/

theorem enc_no_slash (b : Bytes) : '/' ∉ enc b := by
  intro h
  simp only [enc, List.mem_cons] at h
  rcases h with h | h
  · exact absurd h (by decide)
  · exact b64u_no_slash b h

theorem enc_injective (a b : Bytes) (h : enc a = enc b) : a = b := by
  simp only [enc, List.cons.injEq, true_and] at h
  exact encode_injective b64u b64u_wf a b h

theorem dec_enc (b : Bytes) : dec (enc b) = some b := by
  simp [dec, enc, decode_encode b64u b64u_wf]

theorem enc_ne_nil (b : Bytes) : enc b ≠ [] := by simp [enc]

theorem dsKey_injective (k v k' v' : Bytes) (h : dsKey k v = dsKey k' v') : k = k' ∧ v = v' := by
  simp only [dsKey, List.cons_append, List.cons.injEq, true_and] at h
  obtain ⟨h1, h2⟩ := append_sep_inj '/' _ _ _ _ (enc_no_slash k) (enc_no_slash k') h
  exact ⟨enc_injective _ _ h1, enc_injective _ _ h2⟩

theorem pathBase_dsKey (k v : Bytes) : pathBase (dsKey k v) = enc v := by
  have : (dsKey k v).reverse = (enc v).reverse ++ '/' :: ('/' :: enc k).reverse := by
    simp [dsKey]
  rw [pathBase, this, takeWhile_ne_append]
  · simp
  · simpa using enc_no_slash v

theorem pathDir_dsKey (k v : Bytes) : pathDir (dsKey k v) = '/' :: enc k := by
  have : (dsKey k v).reverse = (enc v).reverse ++ '/' :: ('/' :: enc k).reverse := by
    simp [dsKey]
  rw [pathDir, this, dropWhile_ne_append]
  · simp
  · simpa using enc_no_slash v

theorem pathBase_root_comp (k : Bytes) : pathBase ('/' :: enc k) = enc k := by
  have : ('/' :: enc k).reverse = (enc k).reverse ++ '/' :: [] := by simp
  rw [pathBase, this, takeWhile_ne_append]
  · simp
  · simpa using enc_no_slash k

/-! ### namespace -/

theorem nsOk_not_ancestor (ns : Key) (h : NsOk ns) (hr : ns ≠ ['/']) (x : Key) :
    (ns ++ ['/']).isPrefixOf ('/' :: 'u' :: x) = false := by
  rcases h with h | ⟨c, rest, rfl, hc⟩
  · exact absurd h hr
  · have : (c == 'u') = false := by simp [hc]
    simp [List.isPrefixOf, this]

theorem nsOk_not_ancestor_root (ns : Key) (h : NsOk ns) (hr : ns ≠ ['/']) :
    (ns ++ ['/']).isPrefixOf ['/'] = false := by
  rcases h with h | ⟨c, rest, rfl, _⟩
  · exact absurd h hr
  · simp [List.isPrefixOf]

theorem convertKey_u (ns : Key) (h : NsOk ns) (x : Key) :
    convertKey ns ('/' :: 'u' :: x) = if ns = ['/'] then '/' :: 'u' :: x else ns ++ '/' :: 'u' :: x := by
  unfold convertKey
  by_cases hr : ns = ['/']
  · simp [hr]
  · simp [hr, nsOk_not_ancestor ns h hr]

theorem rkp_eq (ns : Key) (h : NsOk ns) (p : Pair) :
    rkp ns p = if ns = ['/'] then dsKey p.1 p.2 else ns ++ dsKey p.1 p.2 := by
  simp only [rkp, dsKey, enc, List.cons_append]
  exact convertKey_u ns h _

theorem rkp_injective (ns : Key) (h : NsOk ns) (p q : Pair) (e : rkp ns p = rkp ns q) : p = q := by
  rw [rkp_eq ns h, rkp_eq ns h] at e
  have : dsKey p.1 p.2 = dsKey q.1 q.2 := by
    by_cases hr : ns = ['/']
    · simpa [hr] using e
    · simp only [hr, if_false] at e; exact List.append_cancel_left e
  obtain ⟨h1, h2⟩ := dsKey_injective _ _ _ _ this
  exact Prod.ext h1 h2

theorem invertKey_rkp (ns : Key) (h : NsOk ns) (p : Pair) : invertKey ns (rkp ns p) = dsKey p.1 p.2 := by
  rw [rkp_eq ns h]
  unfold invertKey
  by_cases hr : ns = ['/']
  · simp [hr]
  · simp [hr]

theorem convertKey_newKey_dsKey (ns : Key) (h : NsOk ns) (p : Pair) :
    convertKey ns (newKey (dsKey p.1 p.2)) = rkp ns p := by
  simp [newKey, dsKey, rkp]

/-! ### query matching -/

/-- the query for key `k` matches exactly the raw keys of pairs with that key — whole-component
comparison: string-prefix relations between keys or between their encodings do not matter -/
theorem match_key (ns : Key) (h : NsOk ns) (k : Bytes) (p : Pair) :
    (convertKey ns (newKey (enc k)) ++ ['/']).isPrefixOf (rkp ns p) = decide (p.1 = k) := by
  have hnk : newKey (enc k) = '/' :: 'u' :: encode b64u k := by simp [newKey, enc]
  rw [hnk, convertKey_u ns h, rkp_eq ns h]
  have core : ∀ pre : Key, ((pre ++ '/' :: 'u' :: encode b64u k) ++ ['/']).isPrefixOf (pre ++ dsKey p.1 p.2)
      = decide (p.1 = k) := by
    intro pre
    by_cases hk : p.1 = k
    · have : pre ++ dsKey p.1 p.2 = ((pre ++ '/' :: 'u' :: encode b64u k) ++ ['/']) ++ enc p.2 := by
        simp [dsKey, enc, hk]
      rw [this, isPrefixOf_append_self]; simp [hk]
    · simp only [hk, decide_false]
      cases hb : ((pre ++ '/' :: 'u' :: encode b64u k) ++ ['/']).isPrefixOf (pre ++ dsKey p.1 p.2) with
      | false => rfl
      | true =>
        rw [List.isPrefixOf_iff_prefix] at hb
        obtain ⟨t, ht⟩ := hb
        have e : enc k ++ '/' :: t = enc p.1 ++ '/' :: enc p.2 := by
          have : pre ++ ('/' :: (enc k ++ '/' :: t)) = pre ++ ('/' :: (enc p.1 ++ '/' :: enc p.2)) := by
            simpa [dsKey, enc, List.append_assoc] using ht
          simpa using List.append_cancel_left this
        have := (append_sep_inj '/' _ _ _ _ (enc_no_slash k) (enc_no_slash p.1) e).1
        exact absurd (enc_injective _ _ this).symm hk
  by_cases hr : ns = ['/']
  · simpa [hr] using core []
  · simpa [hr] using core ns

theorem convertKey_root (ns : Key) (h : NsOk ns) : convertKey ns (newKey []) = ns := by
  unfold convertKey newKey
  by_cases hr : ns = ['/']
  · simp [hr]
  · simp [hr, nsOk_not_ancestor_root ns h hr]

theorem match_all (ns : Key) (h : NsOk ns) (hr : ns ≠ ['/']) (p : Pair) :
    (ns ++ ['/']).isPrefixOf (rkp ns p) = true := by
  rw [rkp_eq ns h]
  simp only [hr, if_false]
  have : ns ++ dsKey p.1 p.2 = (ns ++ ['/']) ++ (enc p.1 ++ '/' :: enc p.2) := by simp [dsKey]
  rw [this, isPrefixOf_append_self]

theorem convertKey_enc_ne_root (ns : Key) (h : NsOk ns) (k : Bytes) :
    convertKey ns (newKey (enc k)) ≠ ['/'] := by
  have hnk : newKey (enc k) = '/' :: 'u' :: encode b64u k := by simp [newKey, enc]
  rw [hnk, convertKey_u ns h]
  by_cases hr : ns = ['/']
  · simp [hr]
  · simp only [hr, if_false]
    intro e
    have := congrArg List.length e
    simp at this
    omega

theorem queryPrefix_key (ns : Key) (h : NsOk ns) (l : MM) (k : Bytes) :
    queryPrefix ns (l.map (rkp ns)) (enc k) = (l.filter (·.1 = k)).map fun p => dsKey p.1 p.2 := by
  simp only [queryPrefix, convertKey_enc_ne_root ns h k, if_false, List.filter_map, List.map_map]
  have : ((fun k_1 => (convertKey ns (newKey (enc k)) ++ ['/']).isPrefixOf k_1) ∘ rkp ns)
      = fun p : Pair => decide (p.1 = k) := by
    funext p; exact match_key ns h k p
  rw [this]
  apply List.map_congr_left
  intro p _
  exact invertKey_rkp ns h p

theorem queryPrefix_all (ns : Key) (h : NsOk ns) (l : MM) :
    queryPrefix ns (l.map (rkp ns)) [] = l.map fun p => dsKey p.1 p.2 := by
  simp only [queryPrefix, convertKey_root ns h]
  by_cases hr : ns = ['/']
  · simp only [hr, if_true, List.map_map]
    apply List.map_congr_left
    intro p _
    simpa [hr] using invertKey_rkp ['/'] (Or.inl rfl) p
  · simp only [hr, if_false, List.filter_map, List.map_map]
    have : ((fun k => (ns ++ ['/']).isPrefixOf k) ∘ rkp ns) = fun _ : Pair => true := by
      funext p; exact match_all ns h hr p
    rw [this, filter_true']
    apply List.map_congr_left
    intro p _
    exact invertKey_rkp ns h p

/-! ### decoding query results -/

theorem decodeEntries_dsKeys (l : MM) : decodeEntries (l.map fun p => dsKey p.1 p.2) = some l := by
  induction l with
  | nil => rfl
  | cons p l ih =>
    simp only [List.map_cons, decodeEntries, pathDir_dsKey, pathBase_root_comp, pathBase_dsKey, dec_enc, ih]

theorem decodeValues_dsKeys (l : MM) : decodeValues (l.map fun p => dsKey p.1 p.2) = some (l.map (·.2)) := by
  induction l with
  | nil => rfl
  | cons p l ih =>
    simp only [List.map_cons, decodeValues, pathBase_dsKey, dec_enc, ih]

/-! ### datastore updates on images -/

theorem dsDelete_image (ns : Key) (h : NsOk ns) (l : MM) (p : Pair) :
    dsDelete (l.map (rkp ns)) (rkp ns p) = (l.filter (· ≠ p)).map (rkp ns) := by
  simp only [dsDelete, List.filter_map]
  congr 1
  apply List.filter_congr
  intro q _
  simp only [Function.comp]
  by_cases e : q = p
  · simp [e]
  · have : rkp ns q ≠ rkp ns p := fun e' => e (rkp_injective ns h _ _ e')
    simp [e, this]

theorem foldl_delete_image (ns : Key) (h : NsOk ns) (ds l : MM) :
    (ds.map fun p => dsKey p.1 p.2).foldl (fun st e => dsDelete st (convertKey ns (newKey e))) (l.map (rkp ns))
      = (l.filter (fun p => p ∉ ds)).map (rkp ns) := by
  induction ds generalizing l with
  | nil => simp [filter_true']
  | cons d ds ih =>
    simp only [List.map_cons, List.foldl_cons, convertKey_newKey_dsKey ns h, dsDelete_image ns h]
    rw [ih]
    congr 1
    rw [List.filter_filter]
    apply List.filter_congr
    intro q _
    by_cases e : q = d <;> simp [e]

theorem filter_not_mem_filter (l : MM) (P : Pair → Bool) :
    l.filter (fun p => p ∉ l.filter P) = l.filter (fun p => !P p) := by
  apply List.filter_congr
  intro q hq
  cases hP : P q <;> simp [List.mem_filter, hq, hP]

/-! ### one step -/

theorem step_sim (ns : Key) (h : NsOk ns) (s : Store) (l : MM) (op : Op) (hs : Sim ns s l) :
    (step ns s op).2 = (specStep l op).2 ∧ Sim ns (step ns s op).1 (specStep l op).1 := by
  obtain ⟨rfl, hne⟩ := hs
  have hsim : Sim ns (l.map (rkp ns)) l := ⟨rfl, hne⟩
  cases op with
  | add k v =>
    by_cases hk : k = []
    · simp [step, specStep, hk, hsim]
    by_cases hv : v = []
    · simp [step, specStep, hk, hv, hsim]
    simp only [step, specStep, hk, hv, if_false, true_and]
    refine ⟨?_, ?_⟩
    · have e : dsPut (l.map (rkp ns)) (convertKey ns (dsKey k v))
          = rkp ns (k, v) :: dsDelete (l.map (rkp ns)) (rkp ns (k, v)) := rfl
      rw [e, dsDelete_image ns h]; rfl
    · intro p hp
      rcases List.mem_cons.mp hp with rfl | hp
      · exact ⟨hk, hv⟩
      · exact hne p (List.mem_filter.mp hp).1
  | delete k v =>
    by_cases hk : k = []
    · simp [step, specStep, hk, hsim]
    by_cases hv : v = []
    · simp [step, specStep, hk, hv, hsim]
    simp only [step, specStep, hk, hv, if_false, true_and]
    refine ⟨?_, fun p hp => hne p (List.mem_filter.mp hp).1⟩
    have := dsDelete_image ns h l (k, v)
    simpa [rkp] using this
  | deleteKey k =>
    by_cases hk : k = []
    · simp [step, specStep, hk, hsim]
    simp only [step, specStep, hk, if_false, deletePrefix, queryPrefix_key ns h, List.length_map, true_and]
    refine ⟨?_, fun p hp => hne p (List.mem_filter.mp hp).1⟩
    rw [foldl_delete_image ns h, filter_not_mem_filter]
    congr 1
    apply List.filter_congr
    intro q _
    by_cases e : q.1 = k <;> simp [e]
  | deleteAll =>
    simp only [step, specStep, deletePrefix, queryPrefix_all ns h, List.length_map, true_and]
    refine ⟨?_, by intro p hp; simp at hp⟩
    rw [foldl_delete_image ns h]
    simp
  | search k =>
    by_cases hk : k = []
    · simp [step, specStep, hk, hsim]
    simp only [step, specStep, hk, if_false, queryPrefix_key ns h, decodeValues_dsKeys]
    exact ⟨trivial, hsim⟩
  | hasValue k v =>
    by_cases hk : k = []
    · simp [step, specStep, hk, hsim]
    by_cases hv : v = []
    · simp [step, specStep, hk, hv, hsim]
    simp only [step, specStep, hk, hv, if_false]
    refine ⟨?_, hsim⟩
    congr 1
    have : (convertKey ns (dsKey k v) ∈ l.map (rkp ns)) ↔ (k, v) ∈ l := by
      constructor
      · intro hm
        obtain ⟨q, hq, e⟩ := List.mem_map.mp hm
        have := rkp_injective ns h q (k, v) e
        rw [← this]; exact hq
      · intro hm; exact List.mem_map.mpr ⟨(k, v), hm, rfl⟩
    simp [this]
  | hasAny k =>
    have e : step ns (l.map (rkp ns)) (.hasAny k) = (l.map (rkp ns), (specStep l (.hasAny k)).2) := by
      by_cases hk : k = []
      · simp only [step, specStep, hk, if_true, queryPrefix_all ns h]
        cases l with
        | nil => rfl
        | cons p l =>
          simp only [List.map_cons, pathDir_dsKey, pathBase_root_comp, pathBase_dsKey, dec_enc]
          rfl
      · simp only [step, specStep, hk, if_false, queryPrefix_key ns h]
        cases hf : l.filter (·.1 = k) with
        | nil =>
          have : l.any (·.1 = k) = false := by
            rw [List.any_eq_false]
            intro p hp hpk
            have : p ∈ l.filter (·.1 = k) := List.mem_filter.mpr ⟨hp, by simpa using hpk⟩
            rw [hf] at this; simp at this
          simp [this]
        | cons p r =>
          have hp : p ∈ l.filter (·.1 = k) := by rw [hf]; simp
          have : l.any (·.1 = k) = true := by
            rw [List.any_eq_true]
            exact ⟨p, (List.mem_filter.mp hp).1, (List.mem_filter.mp hp).2⟩
          simp only [List.map_cons, pathDir_dsKey, pathBase_root_comp, pathBase_dsKey, dec_enc, this]
    rw [e]; exact ⟨rfl, hsim⟩
  | forEach k =>
    have e : step ns (l.map (rkp ns)) (.forEach k) = (l.map (rkp ns), (specStep l (.forEach k)).2) := by
      by_cases hk : k = []
      · simp only [step, specStep, hk, if_true, queryPrefix_all ns h, decodeEntries_dsKeys]
      · simp only [step, specStep, hk, if_false, queryPrefix_key ns h, decodeEntries_dsKeys]
    rw [e]; exact ⟨rfl, hsim⟩

theorem run_sim (ns : Key) (h : NsOk ns) (s : Store) (l : MM) (ops : List Op) (hs : Sim ns s l) :
    (run ns s ops).2 = (specRun l ops).2 ∧ Sim ns (run ns s ops).1 (specRun l ops).1 := by
  induction ops generalizing s l with
  | nil => exact ⟨rfl, hs⟩
  | cons op ops ih =>
    obtain ⟨h1, h2⟩ := step_sim ns h s l op hs
    obtain ⟨i1, i2⟩ := ih _ _ h2
    simp only [run, specRun]
    exact ⟨by rw [h1, i1], i2⟩

/-! ### the spec list is a set -/

theorem spec_nodup (l : MM) (op : Op) (hl : l.Nodup) : (specStep l op).1.Nodup := by
  cases op with
  | add k v =>
    simp only [specStep]
    split
    · exact hl
    · split
      · exact hl
      · exact List.nodup_cons.mpr ⟨by simp [List.mem_filter], hl.filter _⟩
  | delete k v =>
    simp only [specStep]
    split
    · exact hl
    · split
      · exact hl
      · exact hl.filter _
  | deleteKey k =>
    simp only [specStep]
    split
    · exact hl
    · exact hl.filter _
  | deleteAll => simp [specStep]
  | search k => simp only [specStep]; split <;> exact hl
  | hasValue k v =>
    simp only [specStep]
    split
    · exact hl
    · split <;> exact hl
  | hasAny k => exact hl
  | forEach k => exact hl

theorem specRun_nodup (l : MM) (ops : List Op) (hl : l.Nodup) : (specRun l ops).1.Nodup := by
  induction ops generalizing l with
  | nil => exact hl
  | cons op ops ih => simp only [specRun]; exact ih _ (spec_nodup l op hl)

theorem sim_nil (ns : Key) : Sim ns [] [] := ⟨rfl, by intro p hp; simp at hp⟩

end C24
