import BoxoModel.Lib.BaseN
import BoxoModel.Lib.AMap
/-
C24 — pinning/pinner/dsindex/indexer.go: executable model of the secondary index.

State = the key set of the backing datastore (values are always the empty byte string), as raw key
strings.  Transcribed from indexer.go and from the go-datastore pieces it relies on:
  * `encode s = "u" ++ base64url-nopad(s)` (multibase), `decode` = multibase.Decode restricted to the
    'u' prefix (other multibase prefixes are never produced by `encode`)
  * index key `ds.NewKey(encode k).ChildString(encode v)` = "/" ++ enc k ++ "/" ++ enc v
  * `namespace.Wrap(dstore, name)`: `PrefixTransform.ConvertKey` / `InvertKey` (incl. the
    `IsAncestorOf` shortcut and the special cases for "/")                 → `convertKey`, `invertKey`
  * `Query{Prefix: p}` through the wrapper: child prefix `ConvertKey(NewKey p)`; `NaiveQueryApply`
    keeps keys with string prefix `prefix ++ "/"` unless the prefix is "/"   → `queryPrefix`
  * `Add/Delete/HasValue` (empty key / empty value rejected first), `DeleteKey/DeleteAll` via
    `deletePrefix` (query, then one `Delete(ds.NewKey(ent.Key))` per entry, count = #entries),
    `Search` (query, decode `path.Base`), `ForEach` (query, decode `path.Base(path.Dir)` and
    `path.Base`; empty key ⇒ whole index), `HasAny` (ForEach stopping at the first entry).
Order of query results is the datastore's (Go map order): the tie compares sorted outputs.
Core-only.
-/
namespace C24
open BaseN

abbrev Key := List Char
/-- key set of the MapDatastore -/
abbrev Store := List Key

/-- `encode`: multibase base64url -/
def enc (b : Bytes) : Key := 'u' :: encode b64u b

/-- `decode`: multibase.Decode (only the 'u' prefix is modelled) -/
def dec : Key → Option Bytes
  | 'u' :: r => decode b64u r
  | _ => none

/-- `ds.NewKey s` for strings without '.'/'/' oddities: "" ↦ "/", s ↦ "/" ++ s (already rooted: s) -/
def newKey (s : Key) : Key :=
  match s with
  | [] => ['/']
  | '/' :: _ => s
  | _ => '/' :: s

/-- `ds.NewKey(encode k).ChildString(encode v)` -/
def dsKey (k v : Bytes) : Key := '/' :: enc k ++ '/' :: enc v

/-- `PrefixTransform{ns}.ConvertKey` -/
def convertKey (ns k : Key) : Key :=
  if ns = ['/'] then k
  else if (ns ++ ['/']).isPrefixOf k then k      -- Prefix.IsAncestorOf(k): left alone
  else if k = ['/'] then ns                       -- Key.Child("/")
  else ns ++ k

/-- `PrefixTransform{ns}.InvertKey` (the panic branch is unreachable for query results) -/
def invertKey (ns k : Key) : Key := if ns = ['/'] then k else k.drop ns.length

/-- `path.Base` of a clean rooted key: the text after the last '/' -/
def pathBase (k : Key) : Key := (k.reverse.takeWhile (· ≠ '/')).reverse
/-- `path.Dir` of a clean rooted key: the text before the last '/' -/
def pathDir (k : Key) : Key := ((k.reverse.dropWhile (· ≠ '/')).drop 1).reverse

/-- `dstore.Query(Query{Prefix: p, KeysOnly})` through the namespace wrapper: inverted keys -/
def queryPrefix (ns : Key) (s : Store) (p : Key) : List Key :=
  let cp := convertKey ns (newKey p)
  let es := if cp = ['/'] then s else s.filter fun k => (cp ++ ['/']).isPrefixOf k
  es.map (invertKey ns)

def dsPut (s : Store) (k : Key) : Store := k :: s.filter (· ≠ k)
def dsDelete (s : Store) (k : Key) : Store := s.filter (· ≠ k)

inductive Op where
  | add (k v : Bytes)
  | delete (k v : Bytes)
  | deleteKey (k : Bytes)
  | deleteAll
  | search (k : Bytes)
  | hasValue (k v : Bytes)
  | hasAny (k : Bytes)
  | forEach (k : Bytes)
deriving Repr

inductive Out where
  | ok
  | errEmptyKey
  | errEmptyValue
  | errDecode
  | count (n : Nat)
  | bool (b : Bool)
  | values (l : List Bytes)
  | pairs (l : List (Bytes × Bytes))
deriving Repr, DecidableEq

/-- `deletePrefix` -/
def deletePrefix (ns : Key) (s : Store) (p : Key) : Store × Nat :=
  let ents := queryPrefix ns s p
  (ents.foldl (fun st e => dsDelete st (convertKey ns (newKey e))) s, ents.length)

/-- decode every entry of a ForEach; `none` = some entry failed to decode -/
def decodeEntries : List Key → Option (List (Bytes × Bytes))
  | [] => some []
  | e :: r =>
    match dec (pathBase (pathDir e)), dec (pathBase e), decodeEntries r with
    | some k, some v, some t => some ((k, v) :: t)
    | _, _, _ => none

def decodeValues : List Key → Option (List Bytes)
  | [] => some []
  | e :: r =>
    match dec (pathBase e), decodeValues r with
    | some v, some t => some (v :: t)
    | _, _ => none

def step (ns : Key) (s : Store) : Op → Store × Out
  | .add k v =>
    if k = [] then (s, .errEmptyKey)
    else if v = [] then (s, .errEmptyValue)
    else (dsPut s (convertKey ns (dsKey k v)), .ok)
  | .delete k v =>
    if k = [] then (s, .errEmptyKey)
    else if v = [] then (s, .errEmptyValue)
    else (dsDelete s (convertKey ns (dsKey k v)), .ok)
  | .deleteKey k =>
    if k = [] then (s, .errEmptyKey)
    else let r := deletePrefix ns s (enc k); (r.1, .count r.2)
  | .deleteAll => let r := deletePrefix ns s []; (r.1, .count r.2)
  | .search k =>
    if k = [] then (s, .errEmptyKey)
    else match decodeValues (queryPrefix ns s (enc k)) with
      | some vs => (s, .values vs)
      | none => (s, .errDecode)
  | .hasValue k v =>
    if k = [] then (s, .errEmptyKey)
    else if v = [] then (s, .errEmptyValue)
    else (s, .bool (decide (convertKey ns (dsKey k v) ∈ s)))
  | .hasAny k =>
    -- ForEach whose callback stops at the first entry (decoded before the callback runs)
    match queryPrefix ns s (if k = [] then [] else enc k) with
    | [] => (s, .bool false)
    | e :: _ =>
      match dec (pathBase (pathDir e)), dec (pathBase e) with
      | some _, some _ => (s, .bool true)
      | _, _ => (s, .errDecode)
  | .forEach k =>
    match decodeEntries (queryPrefix ns s (if k = [] then [] else enc k)) with
    | some ps => (s, .pairs ps)
    | none => (s, .errDecode)

def run (ns : Key) (s : Store) : List Op → Store × List Out
  | [] => (s, [])
  | op :: ops =>
    let r := step ns s op
    let r' := run ns r.1 ops
    (r'.1, r.2 :: r'.2)

/-! ### SyncIndex -/

/-- value ↦ key association used by `SyncIndex` (`map[string]string` keyed by VALUE) -/
abbrev VK := AMap.Map Bytes Bytes

/-- `refs[value] = key` for every pair of the reference index (a later pair with the same value
replaces an earlier one — the doc comment requires values to be unique) -/
def refsOf (lR : List (Bytes × Bytes)) : VK := lR.foldl (fun m p => AMap.insert m p.2 p.1) []

/-- the loop over the target's pairs: pairs present in both are removed from `refs`, all others go to `dels` -/
def syncScan : List (Bytes × Bytes) → VK × VK → VK × VK
  | [], acc => acc
  | (k, v) :: r, (refs, dels) =>
    match AMap.find refs v with
    | some rk => if rk = k then syncScan r (AMap.erase refs v, dels) else syncScan r (refs, AMap.insert dels v k)
    | none => syncScan r (refs, AMap.insert dels v k)

/-- the index operations `SyncIndex` performs on the target, given what `ForEach ""` returned for
the reference and for the target (Go iterates the two maps in random order; with unique values the
deletes touch pairwise different pairs, likewise the adds, so the order is immaterial) -/
def syncOps (lR lT : List (Bytes × Bytes)) : List Op :=
  let r := syncScan lT (refsOf lR, [])
  (r.2.map fun p => Op.delete p.2 p.1) ++ (r.1.map fun p => Op.add p.2 p.1)

inductive SyncOut where
  | changed (b : Bool)
  | error
deriving Repr, DecidableEq

/-- `SyncIndex(ref, target)` given the reference's pairs (`none` = its ForEach failed) -/
def syncIndex (ns : Key) (sT : Store) (pairsR : Option (List (Bytes × Bytes))) : Store × SyncOut :=
  match pairsR with
  | none => (sT, .error)
  | some lR =>
    if refsOf lR = [] then (sT, .changed false)
    else match decodeEntries (queryPrefix ns sT []) with
      | none => (sT, .error)
      | some lT =>
        let ops := syncOps lR lT
        let r := run ns sT ops
        if r.2.all (· == .ok) then (r.1, .changed (!ops.isEmpty)) else (r.1, .error)

end C24
