#!/bin/bash
# tools/seedrecheck.sh [-j N] [Cxx ...]: fast re-validation of the stored seeded changes against the CURRENT checks:
# for every seeded/Cxx-N apply patch.diff to a scratch worktree of /repo HEAD and run ./check Cxx against it
# (the demo / package-test part of tools/seedcheck.sh is not repeated). Seeds of one property run sequentially,
# properties in parallel; afterwards ./check Cxx runs on /repo again (restores regenerated Gen files).
# Summary: .work/seedrecheck.log ; meta.json gets "recheck": {check_rc, check_output, repo_head}.
J=6; [ "$1" = "-j" ] && { J=$2; shift 2; }
cd "$(dirname "$0")/.."
IDS=("$@"); [ ${#IDS[@]} -eq 0 ] && IDS=($(ls -d seeded/C*-* | sed 's|seeded/||; s|-.*||' | sort -u))
export GOFLAGS=-mod=mod GOPROXY=off
one() {
  pid=$1
  for d in seeded/$pid-*; do
    n=${d#seeded/$pid-}; WT=/tmp/seedre-$pid-$n
    git -C /repo worktree remove --force $WT >/dev/null 2>&1
    git -C /repo worktree add --detach $WT HEAD >/dev/null 2>&1 || { echo "RECHECK $pid-$n worktree-failed"; continue; }
    if ! git -C $WT apply /verif/$d/patch.diff 2>/dev/null; then
      echo "RECHECK $pid-$n patch-does-not-apply"; git -C /repo worktree remove --force $WT; continue; fi
    VERIF_REPO=$WT ./check $pid > /tmp/seedre-$pid-$n.log 2>&1; rc=$?
    echo "RECHECK $pid-$n check_rc=$rc $(grep '^VIOLATION' /tmp/seedre-$pid-$n.log | head -2 | sed 's|.*replay/||' | tr '\n' ' ')"
    python3 - "$d" "$rc" "/tmp/seedre-$pid-$n.log" <<'E'
import json,sys,subprocess
d,rc,log=sys.argv[1:4]
p=d+'/meta.json'; m=json.load(open(p))
m['recheck']={'check_rc':int(rc),'check_output':[l.strip() for l in open(log) if l.startswith(('VIOLATION','OK','KNOWN'))][:4],
  'repo_head':subprocess.run(['git','-C','/repo','rev-parse','--short','HEAD'],capture_output=True,text=True).stdout.strip()}
json.dump(m,open(p,'w'),indent=1)
E
    git -C /repo worktree remove --force $WT; rm -f /tmp/seedre-$pid-$n.log
  done
  ./check $pid > /dev/null 2>&1 || echo "RECHECK $pid unchanged-tree-check-failed"
}
export -f one
printf '%s\n' "${IDS[@]}" | xargs -P $J -I{} bash -c 'one {}' | tee -a .work/seedrecheck.log
