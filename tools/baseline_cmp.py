#!/usr/bin/env python3
"""tools/baseline_cmp.py <go test -json output>: compare with /root/.vp/BASELINE.json stable_pass."""
import json, sys
base = json.load(open('/root/.vp/BASELINE.json'))
stable = set(base['stable_pass'])
res = {}
for l in open(sys.argv[1]):
    try:
        j = json.loads(l)
    except Exception:
        continue
    if j.get('Action') in ('pass', 'fail', 'skip') and j.get('Test'):
        res[j['Package'] + '::' + j['Test']] = j['Action']
missing = sorted(t for t in stable if res.get(t) != 'pass')
print('stable', len(stable), 'passed', sum(1 for t in stable if res.get(t) == 'pass'), 'not passing', len(missing))
for t in missing:
    print(' ', res.get(t), t)
for t in sorted(t for t, a in res.items() if a == 'fail' and t not in stable):
    print('  fail (not in stable list)', t)
sys.exit(1 if missing else 0)
