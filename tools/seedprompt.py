#!/usr/bin/env python3
import json, sys
pid = sys.argv[1]
t = open('/verif/docs/SEED_PROMPT.md').read()
for l in open('/verif/properties.jsonl'):
    p = json.loads(l)
    if p['id'] == pid:
        print(t.replace('{WT}', '/tmp/seedwt-' + pid).replace('{OUT}', '/tmp/seedout-' + pid).replace('{PID}', pid)
              .replace('{TITLE}', p['title']).replace('{STATEMENT}', p['statement'])
              .replace('{QUANT}', p['quantifier']['text']).replace('{FILES}', ', '.join(p['anchors']['files'])))
