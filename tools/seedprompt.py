#!/usr/bin/env python3
"""tools/seedprompt.py Cxx [round]: prompt for an independent seeding agent (round 2 => changes C and D)."""
import json, sys
pid = sys.argv[1]
rnd = sys.argv[2] if len(sys.argv) > 2 else "1"
t = open('/verif/docs/SEED_PROMPT.md').read()
if rnd == "2":
    t = t.replace("(call them A and B)", "(call them C and D)").replace("{OUT}/A and {OUT}/B", "{OUT}/C and {OUT}/D") \
         .replace("A and B must break", "C and D must break")
    t = t.replace("Deliverables, in", "Look for mechanisms beyond the obvious single-function slip: a fault or error path, a crash point, a "
                  "particular interleaving, persisted state read back later, an unusual but legal configuration, two sites that "
                  "must stay consistent with each other.\n\nDeliverables, in")
if rnd == "3":
    t = t.replace("(call them A and B)", "(call them E and F)").replace("{OUT}/A and {OUT}/B", "{OUT}/E and {OUT}/F") \
         .replace("A and B must break", "E and F must break")
    t = t.replace("Deliverables, in", "Look away from the first place one would think of: the less central files and functions among the "
                  "ones the property is anchored in (helpers, option handling, error and cleanup paths, the second implementation "
                  "of the same interface, conversions at the boundary), and changes whose effect shows only through a combination "
                  "of two legal settings or two operations. A plausible refactoring or optimisation that is wrong only in a corner "
                  "is better than a flipped condition.\n\nDeliverables, in")
for l in open('/verif/properties.jsonl'):
    p = json.loads(l)
    if p['id'] == pid:
        wt, out = ('/tmp/seedwt-' + pid, '/tmp/seedout-' + pid) if rnd == "1" else ('/tmp/seed%swt-' % rnd + pid, '/tmp/seedout%s-' % rnd + pid)
        print(t.replace('{WT}', wt).replace('{OUT}', out).replace('{PID}', pid)
              .replace('{TITLE}', p['title']).replace('{STATEMENT}', p['statement'])
              .replace('{QUANT}', p['quantifier']['text']).replace('{FILES}', ', '.join(p['anchors']['files'])))
