#!/usr/bin/env python3
"""tools/seedprompt.py Cxx [round]: prompt for an independent seeding agent (round 2 => changes C and D)."""
import json, sys
pid = sys.argv[1]
rnd = sys.argv[2] if len(sys.argv) > 2 else "1"
t = open('/verif/docs/SEED_PROMPT.md').read()
if rnd == "2":
    t = t.replace("(call them A and B)", "(call them C and D)").replace("{OUT}/A and {OUT}/B", "{OUT}/C and {OUT}/D") \
         .replace("A and B must break", "C and D must break")
    t = t.replace("Deliverables, in", "Look for mechanisms beyond the obvious single-function slip: a fault or error path, a crash point, a "
                  "particular interleaving, persisted state read back later, an unusual but legal configuration, two sites that "
                  "must stay consistent with each other.\n\nDeliverables, in")
for l in open('/verif/properties.jsonl'):
    p = json.loads(l)
    if p['id'] == pid:
        wt, out = ('/tmp/seedwt-' + pid, '/tmp/seedout-' + pid) if rnd == "1" else ('/tmp/seed2wt-' + pid, '/tmp/seedout2-' + pid)
        print(t.replace('{WT}', wt).replace('{OUT}', out).replace('{PID}', pid)
              .replace('{TITLE}', p['title']).replace('{STATEMENT}', p['statement'])
              .replace('{QUANT}', p['quantifier']['text']).replace('{FILES}', ', '.join(p['anchors']['files'])))
