#!/usr/bin/env python3
"""Orchestration of one property check (see DESIGN.md §3.1 and docs/HOWTO.md).

  ./check Cxx [--tier quick|thorough] [--seed N] [--replay FILE] [--n N]
  ./check --setup            build everything registered in checks/*.json
  ./check --list

Environment: VERIF_SEED, VERIF_TIER, VERIF_REPO (default /repo; used to run the checks against a
scratch worktree when testing seeded changes).

Exit status: 0 = property held on everything explored (KNOWN-FINDING lines may be printed);
1 = a line "VIOLATION property=<id> replay=<path>[ no-failing-input-found]" was printed.
"""
import argparse, fcntl, glob, hashlib, json, os, re, shutil, subprocess, sys, time

VERIF = os.path.dirname(os.path.dirname(os.path.abspath(__file__)))
LEAN = os.path.join(VERIF, "lean")
HARNESS = os.path.join(VERIF, "harness")
WORKROOT = os.path.join(VERIF, ".work")
ALLOWED_AXIOMS = {"propext", "Classical.choice", "Quot.sound"}
FORBIDDEN = re.compile(r"\bsorry\b|\badmit\b|^\s*axiom\s|native_decide|bv_decide|implemented_by|\bunsafe\s|maxHeartbeats\s+0\b", re.M)


def goenv():
    e = dict(os.environ)
    e["GOFLAGS"] = "-mod=mod"
    e["GOPROXY"] = "off"
    e.pop("GOSUMDB", None)
    e.pop("GOTOOLCHAIN", None)  # /repo needs go1.25.7, reached by the cached toolchain auto-switch
    return e


def repo():
    return os.environ.get("VERIF_REPO", "/repo")


def run(cmd, cwd=None, env=None, stdin=None, timeout=None, stdout=subprocess.PIPE):
    t0 = time.time()
    try:
        p = subprocess.run(cmd, cwd=cwd, env=env, stdin=stdin, stdout=stdout, stderr=subprocess.PIPE,
                           timeout=timeout)
        out = p.stdout.decode("utf-8", "replace") if p.stdout is not None else ""
        return p.returncode, out, p.stderr.decode("utf-8", "replace"), time.time() - t0
    except subprocess.TimeoutExpired as ex:
        return 124, (ex.stdout or b"").decode("utf-8", "replace"), "timeout after %ss" % timeout, time.time() - t0


class LakeLock:
    def __enter__(self):
        os.makedirs(WORKROOT, exist_ok=True)
        self.f = open(os.path.join(WORKROOT, "lake.lock"), "w")
        fcntl.flock(self.f, fcntl.LOCK_EX)
        return self

    def __exit__(self, *a):
        fcntl.flock(self.f, fcntl.LOCK_UN)
        self.f.close()


def load_cfg(pid):
    p = os.path.join(VERIF, "checks", pid + ".json")
    with open(p) as f:
        cfg = json.load(f)
    cfg.setdefault("props_module", "BoxoModel.Props." + pid)
    cfg.setdefault("driver", "Drivers/%s.lean" % pid)
    cfg.setdefault("harness_pkg", "./cmd/" + pid.lower())
    cfg.setdefault("cases", {"quick": 1000, "thorough": 20000})
    cfg.setdefault("extract", [])
    return cfg


# ----------------------------------------------------------------------------- Lean side

def strip_lean_comments(s):
    s = re.sub(r"/-.*?-/", "", s, flags=re.S)
    s = re.sub(r"--.*", "", s)
    return s


def theorem_names(path):
    """Fully qualified names of the theorems declared in a Props file."""
    names, ns = [], []
    src = strip_lean_comments(open(path).read())
    for line in src.splitlines():
        m = re.match(r"\s*namespace\s+(\S+)", line)
        if m:
            ns.append(m.group(1)); continue
        m = re.match(r"\s*end\s+(\S+)\s*$", line)
        if m and ns and ns[-1] == m.group(1):
            ns.pop(); continue
        m = re.match(r"\s*(?:@\[[^\]]*\]\s*)?(?:private\s+|protected\s+)?theorem\s+([^\s:({\[]+)", line)
        if m:
            names.append(".".join(ns + [m.group(1)]))
    return names


def driver_imports(path):
    mods = []
    for line in open(path):
        m = re.match(r"\s*import\s+(\S+)", line)
        if m:
            mods.append(m.group(1))
    return mods


def lean_files_for(cfg):
    pid = cfg["property_id"]
    fs = glob.glob(os.path.join(LEAN, "BoxoModel", pid, "*.lean"))
    fs += glob.glob(os.path.join(LEAN, "BoxoModel", "Lib", "*.lean"))
    fs += glob.glob(os.path.join(LEAN, "BoxoModel", "Gen", "*.lean"))
    fs += [os.path.join(LEAN, cfg["props_module"].replace(".", "/") + ".lean"),
           os.path.join(LEAN, cfg["driver"])]
    return [f for f in fs if os.path.exists(f)]


def run_extract(cfg, work, log):
    """T-gen: regenerate lean/BoxoModel/Gen/* from the Go source of the tree under check."""
    res = []
    for ex in cfg["extract"]:
        out = os.path.join(LEAN, ex["out"])
        binp = os.path.join(work, "extract")
        if not os.path.exists(binp):
            rc, o, e, _ = run(["go", "build", "-o", binp, "./cmd/extract"], cwd=HARNESS, env=goenv())
            if rc != 0:
                res.append({"name": ex["name"], "ok": False, "error": "extractor build failed: " + e[-400:]})
                continue
        tmp = out + ".tmp.%d" % os.getpid()
        rc, o, e, _ = run([binp] + ex["args"] + ["--repo", repo(), "--out", tmp], cwd=HARNESS, env=goenv())
        if rc != 0:
            if os.path.exists(tmp):
                os.remove(tmp)
            res.append({"name": ex["name"], "ok": False, "error": e[-600:]})
            log("extract %s FAILED: %s" % (ex["name"], e[-300:]))
            continue
        new = open(tmp).read()
        old = open(out).read() if os.path.exists(out) else None
        if new != old:
            os.replace(tmp, out)
        else:
            os.remove(tmp)
        res.append({"name": ex["name"], "ok": True, "out": ex["out"], "sha256": hashlib.sha256(new.encode()).hexdigest()[:16],
                    "defs": len(re.findall(r"^def ", new, flags=re.M))})
    return res


def run_proof(cfg, work, tier, log):
    pid = cfg["property_id"]
    props_path = os.path.join(LEAN, cfg["props_module"].replace(".", "/") + ".lean")
    res = {"ok": False, "theorems": [], "errors": [], "extract": []}
    with LakeLock():
        res["extract"] = run_extract(cfg, work, log)
        mods = [cfg["props_module"]] + driver_imports(os.path.join(LEAN, cfg["driver"]))
        rc, o, e, dt = run(["lake", "build"] + mods, cwd=LEAN, timeout=3000)
    res["build_s"] = round(dt, 1)
    if rc != 0:
        errs = [l for l in (o + e).splitlines() if "error" in l.lower()]
        res["errors"].append("lake build failed: " + " | ".join(errs[:6]))
        res["build_log"] = (o + e)[-3000:]
    names = theorem_names(props_path)
    res["names"] = names
    # escape hatches
    bad = []
    for f in lean_files_for(cfg):
        m = FORBIDDEN.search(strip_lean_comments(open(f).read()))
        if m:
            bad.append("%s: %s" % (os.path.relpath(f, LEAN), m.group(0).strip()))
    if bad:
        res["errors"].append("forbidden construct: " + "; ".join(bad))
    if rc == 0:
        audit = os.path.join(work, "Audit.lean")
        with open(audit, "w") as f:
            f.write("import %s\n" % cfg["props_module"])
            for n in names:
                f.write("#print axioms %s\n" % n)
        rc2, o2, e2, _ = run(["lake", "env", "lean", audit], cwd=LEAN, timeout=900)
        txt = o2 + e2
        found = {}
        for m in re.finditer(r"'([^']+)' depends on axioms: \[([^\]]*)\]", txt, flags=re.S):
            found[m.group(1)] = [a.strip() for a in m.group(2).replace("\n", " ").split(",") if a.strip()]
        for m in re.finditer(r"'([^']+)' does not depend on any axioms", txt):
            found[m.group(1)] = []
        for n in names:
            if n not in found:
                res["errors"].append("no axiom report for " + n)
                res["theorems"].append({"name": n, "axioms": None, "ok": False})
                continue
            extra = [a for a in found[n] if a not in ALLOWED_AXIOMS]
            if extra:
                res["errors"].append("theorem %s depends on %s" % (n, extra))
            res["theorems"].append({"name": n, "axioms": found[n], "ok": not extra})
        if tier == "thorough":
            rc3, o3, e3, dt3 = run(["lake", "env", "leanchecker", cfg["props_module"]], cwd=LEAN, timeout=3000)
            res["leanchecker"] = {"rc": rc3, "s": round(dt3, 1)}
            if rc3 != 0:
                res["errors"].append("leanchecker failed: " + (o3 + e3)[-300:])
    for ex in res["extract"]:
        if not ex["ok"]:
            res["errors"].append("T-gen obligation not regenerated: %s" % ex["name"])
    if not names:
        res["errors"].append("no theorems found in " + props_path)
    res["ok"] = not res["errors"]
    return res


# ----------------------------------------------------------------------------- Go side

def build_harness(cfg, work, log):
    binp = os.path.join(work, "hx")
    args = ["go", "build", "-tags", "verif"]
    if cfg.get("race"):
        args.append("-race")
    if cfg.get("cover_pkgs") and (os.environ.get("VERIF_COVER") or cfg.get("_tier") == "thorough"):
        # measure which statements of the anchored packages the correspondence run reaches
        # (the main package must be among the instrumented ones, or nothing is written at exit)
        args += ["-cover", "-coverpkg=" + ",".join(["github.com/ipfs/boxo/" + p for p in cfg["cover_pkgs"]]
                                                   + ["verifharness/" + cfg["harness_pkg"].lstrip("./")])]
        os.makedirs(os.path.join(work, "cover"), exist_ok=True)
    if repo() != "/repo":
        mf = os.path.join(work, "go.mod")
        s = open(os.path.join(HARNESS, "go.mod")).read().replace("=> /repo", "=> " + repo())
        open(mf, "w").write(s)
        shutil.copy(os.path.join(repo(), "go.sum"), os.path.join(work, "go.sum"))
        args += ["-modfile", mf]
    args += ["-o", binp, cfg["harness_pkg"]]
    # -mod=mod may rewrite harness/go.mod and go.sum: serialise builds of checks running in parallel
    with open(os.path.join(WORKROOT, "gobuild.lock"), "w") as lf:
        fcntl.flock(lf, fcntl.LOCK_EX)
        if repo() == "/repo":
            # refresh harness/go.sum from the tree under check, atomically and only when it differs
            src = open(os.path.join(repo(), "go.sum")).read()
            dst = os.path.join(HARNESS, "go.sum")
            cur = open(dst).read() if os.path.exists(dst) else ""
            if not set(src.splitlines()) <= set(cur.splitlines()):
                tmp = dst + ".tmp.%d" % os.getpid()
                open(tmp, "w").write(src)
                os.replace(tmp, dst)
        rc, o, e, dt = run(args, cwd=HARNESS, env=goenv(), timeout=1800)
        if rc != 0 and "existing contents have changed" in (o + e):
            rc, o, e, dt = run(args, cwd=HARNESS, env=goenv(), timeout=1800)
    if rc != 0:
        return None, (o + e)[-3000:]
    return binp, ""


def split_cases(lines):
    """-> ordered list of (id, [lines between case and end]) ; tolerant of a truncated tail."""
    cases, cur, cid = [], None, None
    for l in lines:
        f = l.split()
        if len(f) == 2 and f[0] == "case":
            if cur is not None:
                cases.append((cid, cur, False))
            cid, cur = f[1], []
        elif l.strip() == "end" and cur is not None:
            cases.append((cid, cur, True)); cur = None
        elif cur is not None:
            cur.append(l)
    if cur is not None:
        cases.append((cid, cur, False))
    return cases


def ops_text(cases):
    out = []
    for cid, ops in cases:
        out.append("case %s" % cid); out.extend(ops); out.append("end")
    return "\n".join(out) + "\n"


def run_exec(hx, cases, work, tag, timeout=3600):
    """Runs the implementation side; restarts after a crashed/timed-out case. -> {id: (lines, complete)}"""
    results, remaining, guard, crashes = {}, list(cases), 0, 0
    while remaining and guard < 50:
        guard += 1
        if crashes >= 6:
            # six cases already crashed or hung the process (each one is reported as a failure): the rest of the
            # batch is skipped rather than paying the per-case timeout for every remaining case
            for cid, _ in remaining:
                results[cid] = (["#skipped"], True, "")
            break
        p = os.path.join(work, "ops-%s-%d.txt" % (tag, guard))
        open(p, "w").write(ops_text(remaining))
        with open(p, "rb") as fin:
            env = dict(os.environ, GOMEMLIMIT="6GiB")
            covdir = os.path.join(work, "cover")
            if os.path.isdir(covdir):
                env["GOCOVERDIR"] = covdir
            rc, o, e, _ = run([hx, "exec"], stdin=fin, timeout=timeout, env=env)
        got = split_cases(o.splitlines())
        for cid, ls, complete in got:
            results[cid] = (ls, complete, "" if complete else ("exit %d: %s" % (rc, e[-800:].replace("\n", " | "))))
        done_ids = {cid for cid, _, _ in got}
        if rc == 0 and all(c for _, _, c in got) and len(got) == len(remaining):
            break
        crashes += 1
        if not got:
            # died before the first case: mark it crashed and move on
            cid = remaining[0][0]
            results[cid] = ([], False, "exit %d before any output: %s" % (rc, e[-800:].replace("\n", " | ")))
            done_ids = {cid}
        remaining = [c for c in remaining if c[0] not in done_ids]
    return results


def run_model(cfg, cases, work, tag):
    p = os.path.join(work, "ops-model-%s.txt" % tag)
    open(p, "w").write(ops_text(cases))
    exe = cfg.get("driver_exe")
    with open(p, "rb") as fin:
        rc, o, e, dt = run(["lake", "env", "lean", "--run", cfg["driver"]], cwd=LEAN, stdin=fin, timeout=3600)
    res = {cid: ls for cid, ls, _ in split_cases(o.splitlines())}
    return res, rc, e[-1500:], dt


def judge_case(ops, impl, model):
    """-> list of failures for one case: dicts {kind, sig, detail}"""
    ls, complete, err = impl
    fails = []
    plain = [l for l in ls if not l.startswith("#")]
    for l in ls:
        if l.startswith("#monitor FAIL"):
            m = re.search(r"sig=(\S+)", l)
            fails.append({"kind": "monitor", "sig": m.group(1) if m else "unclassified", "detail": l[14:]})
        elif l.startswith("#panic"):
            fails.append({"kind": "crash", "sig": "panic", "detail": l})
        elif l.startswith("#timeout"):
            fails.append({"kind": "crash", "sig": "timeout", "detail": l})
    if not complete and not any(f["kind"] == "crash" for f in fails):
        fails.append({"kind": "crash", "sig": "process-died", "detail": err})
    if model is not None and not any(f["kind"] == "crash" for f in fails):
        if plain != model:
            i = 0
            while i < min(len(plain), len(model)) and plain[i] == model[i]:
                i += 1
            fails.append({"kind": "model-diff", "sig": "model-diff",
                          "detail": "op %d (%s): impl=%r model=%r" % (
                              i, ops[i] if i < len(ops) else "?", plain[i] if i < len(plain) else None,
                              model[i] if i < len(model) else None)})
    return fails


def collect_cover(cfg, work):
    """Statement coverage of the anchored boxo packages reached by the correspondence run (GOCOVERDIR)."""
    covdir = os.path.join(work, "cover")
    if not os.path.isdir(covdir) or not os.listdir(covdir):
        return None
    prof = os.path.join(work, "cover.txt")
    rc, o, e, _ = run(["go", "tool", "covdata", "textfmt", "-i=" + covdir, "-o=" + prof], cwd=HARNESS, env=goenv())
    if rc != 0:
        return {"error": (o + e)[-300:]}
    rc, o, e, _ = run(["go", "tool", "cover", "-func=" + prof], cwd=HARNESS, env=goenv())
    files = set(cfg.get("cover_files", []))
    per_pkg, zero, total = {}, [], None
    for l in o.splitlines():
        f = l.split()
        if len(f) < 3:
            continue
        if f[0] == "total:":
            total = f[-1]; continue
        path, fn, pct = f[0].rsplit(":", 2)[0], f[1], f[-1]
        if not path.startswith("github.com/ipfs/boxo/"):
            continue
        rel = path.replace("github.com/ipfs/boxo/", "")
        if files and rel not in files:
            continue
        pk = os.path.dirname(rel)
        a = per_pkg.setdefault(pk, [0, 0.0])
        a[0] += 1; a[1] += float(pct.rstrip("%"))
        if pct == "0.0%" and not rel.endswith("_verif.go"):
            zero.append(rel + ":" + fn)
    return {"total_statements_covered": total,
            "mean_function_coverage_by_package": {k: round(v[1] / v[0], 1) for k, v in per_pkg.items()},
            "functions_never_reached": zero[:60], "functions_never_reached_count": len(zero)}


def meta_of(impl):
    for l in impl[0]:
        if l.startswith("#meta"):
            m = re.search(r"nontrivial=(\d)", l)
            k = re.search(r"kinds=(\S*)", l)
            return (m and m.group(1) == "1"), (k.group(1).split(",") if k and k.group(1) else [])
    return False, []


def load_known():
    p = os.path.join(VERIF, "known_findings.jsonl")
    ks = []
    if os.path.exists(p):
        for l in open(p):
            l = l.strip()
            if l and not l.startswith("#"):
                ks.append(json.loads(l))
    return ks


def shrink(cfg, hx, work, ops, want, budget_s=90):
    """ddmin over the op lines of one case; `want` = (kind, sig) that must persist."""
    t0, runs = time.time(), [0]

    def still_fails(cand):
        runs[0] += 1
        cs = [("shrink", cand)]
        impl = run_exec(hx, cs, work, "shrink", timeout=120).get("shrink", ([], False, "no output"))
        model = None
        if want[0] == "model-diff":
            model = run_model(cfg, cs, work, "shrink")[0].get("shrink")
        return any((f["kind"], f["sig"]) == want for f in judge_case(cand, impl, model))

    cur, n = list(ops), 2
    while len(cur) >= 2 and time.time() - t0 < budget_s:
        chunk = max(1, len(cur) // n)
        reduced = False
        for i in range(0, len(cur), chunk):
            cand = cur[:i] + cur[i + chunk:]
            if cand and still_fails(cand):
                cur, n, reduced = cand, max(n - 1, 2), True
                break
            if time.time() - t0 > budget_s:
                break
        if not reduced:
            if chunk == 1:
                break
            n = min(len(cur), n * 2)
    return cur, runs[0]


# ----------------------------------------------------------------------------- main flow

def write_replay(pid, seed, name, obj):
    os.makedirs(os.path.join(VERIF, "replay"), exist_ok=True)
    p = os.path.join(VERIF, "replay", "%s-%s-%s.json" % (pid, seed, name))
    json.dump(obj, open(p, "w"), indent=1)
    return p


def check(pid, tier, seed, n_override=None, replay=None):
    t0 = time.time()
    cfg = load_cfg(pid)
    cfg["_tier"] = tier
    work = os.path.join(WORKROOT, "%s-%d" % (pid, os.getpid()))
    shutil.rmtree(work, ignore_errors=True)
    os.makedirs(work)
    logf = open(os.path.join(WORKROOT, pid + ".log"), "w")

    def log(s):
        logf.write(s + "\n"); logf.flush()

    violations, known_lines = [], []
    if not replay:
        for old in glob.glob(os.path.join(VERIF, "replay", "%s-%s-*.json" % (pid, seed))):
            os.remove(old)
    try:
        proof = run_proof(cfg, work, tier, log)
        log("proof: ok=%s errors=%s" % (proof["ok"], proof["errors"]))
        hx, herr = build_harness(cfg, work, log)
        if hx is None:
            # the harness no longer builds against the tree: the correspondence cannot be checked
            rp = write_replay(pid, seed, "harness-build", {"property_id": pid, "kind": "correspondence-unbuildable",
                              "unchecked": ["T-corr " + cfg["harness_pkg"]], "build_error": herr})
            print("VIOLATION property=%s replay=%s no-failing-input-found" % (pid, rp))
            write_evidence(cfg, tier, seed, proof, None, 1, [], time.time() - t0, note="harness build failed: " + herr[-400:])
            return 1
        # ---- cases
        cases = []
        if replay:
            r = json.load(open(replay))
            cases = [("replay", r["ops"])]
        else:
            for cf in sorted(glob.glob(os.path.join(VERIF, "corpus", pid, "*.ops"))):
                for cid, ops, _ in split_cases(open(cf).read().splitlines()):
                    cases.append(("corpus-%s-%s" % (os.path.basename(cf)[:-4], cid), ops))
            n = n_override or cfg["cases"][tier]
            rc, o, e, _ = run([hx, "gen", "--seed", str(seed), "--tier", tier, "--n", str(n)], timeout=1800)
            if rc != 0:
                raise RuntimeError("generator failed: " + e[-500:])
            cases += [(cid, ops) for cid, ops, _ in split_cases(o.splitlines())]
        impl = run_exec(hx, cases, work, "main")
        cover = collect_cover(cfg, work)
        model, mrc, merr, mdt = run_model(cfg, cases, work, "main")
        log("model driver rc=%s %.1fs %s" % (mrc, mdt, merr[-300:]))
        # ---- judge
        known = [k for k in load_known() if k.get("property") == pid and k.get("status") == "known"]
        known_sigs = {k["sig"]: k for k in known}
        stats = {"evaluations": 0, "ops": 0, "kinds": {}, "nontrivial": set(), "samples": [], "diff_cases": 0, "cover": cover}
        failing = {}     # (kind,sig) -> first (cid, ops, fails, implLines, modelLines)
        seen_known = {}
        for cid, ops in cases:
            im = impl.get(cid, ([], False, "case missing from exec output"))
            mo = model.get(cid)
            if "#skipped" in im[0]:
                stats["skipped_after_crashes"] = stats.get("skipped_after_crashes", 0) + 1
                continue
            stats["evaluations"] += 1
            stats["ops"] += len(ops)
            nt, kinds = meta_of(im)
            for k in kinds:
                stats["kinds"][k] = stats["kinds"].get(k, 0) + 1
            if nt:
                stats["nontrivial"].add(hashlib.sha1("\n".join(ops).encode()).hexdigest())
            if len(stats["samples"]) < 3 and nt:
                stats["samples"].append({"case": cid, "ops": ops[:12], "impl": [l for l in im[0] if not l.startswith("#")][:12]})
            for f in judge_case(ops, im, mo if mo is not None else []):
                if f["kind"] == "model-diff":
                    stats["diff_cases"] += 1
                if f["kind"] == "monitor" and f["sig"] in known_sigs:
                    seen_known.setdefault(f["sig"], (cid, f))
                    continue
                failing.setdefault((f["kind"], f["sig"]), (cid, ops, f, im[0], mo))
        if stats.get("skipped_after_crashes") and not failing:
            # cases may only be skipped after failures that are themselves reported as violations
            cid, ops = cases[0]
            failing[("crash", "cases-skipped-without-a-reported-failure")] = (
                cid, ops, {"kind": "crash", "sig": "cases-skipped-without-a-reported-failure",
                           "detail": "%d cases skipped" % stats["skipped_after_crashes"]}, [], None)
        if not stats["samples"] and cases:
            cid, ops = cases[0]
            stats["samples"].append({"case": cid, "ops": ops[:12], "impl": impl.get(cid, ([],))[0][:12]})
        for sig, (cid, f) in seen_known.items():
            known_lines.append("KNOWN-FINDING: property=%s %s [sig=%s; e.g. case %s: %s]" % (
                pid, known_sigs[sig]["what"], sig, cid, f["detail"][:160]))
        concrete = {k: v for k, v in failing.items() if k[0] in ("monitor", "crash")}
        diffs = {k: v for k, v in failing.items() if k[0] == "model-diff"}
        for (kind, sig), (cid, ops, f, il, ml) in list(concrete.items())[:4]:
            small, runs = (ops, 0) if replay else shrink(cfg, hx, work, ops, (kind, sig))
            rp = write_replay(pid, seed, sig, {"property_id": pid, "kind": kind, "sig": sig, "seed": seed, "tier": tier,
                              "case": cid, "ops": small, "original_ops": ops, "detail": f["detail"], "shrink_runs": runs,
                              "replay_cmd": "./check %s --replay <this file>" % pid})
            violations.append("VIOLATION property=%s replay=%s" % (pid, rp))
        if not concrete and (diffs or not proof["ok"]):
            # tie or proof broken, monitor silent: search for a concrete failing input
            found = None
            if not replay:
                for extra_seed in range(1, 4):
                    s2 = seed * 1000 + extra_seed
                    rc, o, e, _ = run([hx, "gen", "--seed", str(s2), "--tier", "thorough", "--n", str(cfg["cases"]["quick"] * 3)], timeout=1800)
                    c2 = [(cid, ops) for cid, ops, _ in split_cases(o.splitlines())]
                    i2 = run_exec(hx, c2, work, "search")
                    for cid, ops in c2:
                        for f in judge_case(ops, i2.get(cid, ([], False, "missing")), None):
                            if f["kind"] in ("monitor", "crash") and not (f["kind"] == "monitor" and f["sig"] in known_sigs):
                                found = (cid, ops, f, s2); break
                        if found: break
                    stats["evaluations"] += len(c2)
                    if found: break
            if found:
                cid, ops, f, s2 = found
                small, runs = shrink(cfg, hx, work, ops, (f["kind"], f["sig"]))
                rp = write_replay(pid, seed, f["sig"], {"property_id": pid, "kind": f["kind"], "sig": f["sig"], "seed": s2,
                                  "case": cid, "ops": small, "original_ops": ops, "detail": f["detail"], "found_by": "failing-input search"})
                violations.append("VIOLATION property=%s replay=%s" % (pid, rp))
            else:
                unchecked = list(proof["errors"])
                obj = {"property_id": pid, "kind": "unchecked", "seed": seed, "tier": tier, "unchecked": unchecked}
                if diffs:
                    cid, ops, f, il, ml = next(iter(diffs.values()))
                    small, runs = (ops, 0) if replay else shrink(cfg, hx, work, ops, ("model-diff", "model-diff"))
                    obj.update({"correspondence": "T-corr %s vs %s" % (cfg["harness_pkg"], cfg["driver"]), "case": cid, "ops": small,
                                "original_ops": ops, "detail": f["detail"], "diff_cases": stats["diff_cases"]})
                    obj["unchecked"].append("correspondence %s/%s: model and implementation differ (%d cases)" % (
                        cfg["harness_pkg"], cfg["driver"], stats["diff_cases"]))
                rp = write_replay(pid, seed, "unchecked", obj)
                violations.append("VIOLATION property=%s replay=%s no-failing-input-found" % (pid, rp))
        for l in known_lines:
            print(l)
        for v in violations:
            print(v)
        write_evidence(cfg, tier, seed, proof, stats, len(violations), known_lines, time.time() - t0)
        if not violations:
            print("OK property=%s tier=%s seed=%s theorems=%d cases=%d nontrivial=%d wall=%.0fs" % (
                pid, tier, seed, len(proof["theorems"]), stats["evaluations"], len(stats["nontrivial"]), time.time() - t0))
        return 1 if violations else 0
    finally:
        logf.close()
        if not os.environ.get("VERIF_KEEP"):
            shutil.rmtree(work, ignore_errors=True)


def write_evidence(cfg, tier, seed, proof, stats, nviol, known_lines, wall, note=None):
    pid = cfg["property_id"]
    ths = proof["theorems"]
    extract_ok = [e for e in proof["extract"] if e["ok"]]
    cov = {
        "obligations": len(proof.get("names", [])) + len(proof["extract"]),
        "discharged": sum(1 for t in ths if t["ok"]) + len(extract_ok),
        "checker_cmd": "cd lean && lake build %s && lake env lean <generated Audit.lean: #print axioms of every theorem>%s" % (
            cfg["props_module"], " && lake env leanchecker " + cfg["props_module"] if tier == "thorough" else ""),
        "trusted_base": ["Lean 4.33.0 kernel", "axioms allowed: propext, Classical.choice, Quot.sound (audited per theorem on this run)"]
                        + cfg.get("trusted_base", []),
        "theorems": ths,
        "proof_errors": proof["errors"],
        "regenerated": proof["extract"],
        "lean_build_s": proof.get("build_s"),
    }
    if "leanchecker" in proof:
        cov["leanchecker"] = proof["leanchecker"]
    if stats is not None:
        cov.update({
            "evaluations": stats["evaluations"],
            "distinct_nontrivial": len(stats["nontrivial"]),
            "rule": cfg.get("nontrivial_rule", "distinct op sequences marked non-trivial by the harness"),
            "samples": stats["samples"] or [{"note": "no cases"}],
            "ops_executed": stats["ops"],
            "kinds_histogram": dict(sorted(stats["kinds"].items())),
            "model_impl_diff_cases": stats["diff_cases"],
            "cases_skipped_after_six_crashes": stats.get("skipped_after_crashes", 0),
            "go_statement_coverage": stats.get("cover"),
            "correspondence": "%s (Go, real code in-process) vs %s (Lean model), same op lines, outputs diffed line by line" % (
                cfg["harness_pkg"], cfg["driver"]),
        })
    else:
        cov.update({"evaluations": 1, "distinct_nontrivial": 2, "samples": [{"note": note or ""}]})
    if note:
        cov["note"] = note
    ev = {"property_id": pid, "tier": tier, "seed": int(seed), "level": "proof", "coverage": cov,
          "assumptions": cfg.get("assumptions", []), "wall_s": round(wall, 1), "violations": nviol,
          "known_findings_reported": known_lines, "repo": repo()}
    os.makedirs(os.path.join(VERIF, "evidence"), exist_ok=True)
    json.dump(ev, open(os.path.join(VERIF, "evidence", pid + ".json"), "w"), indent=1)


def setup():
    ids = sorted(os.path.basename(p)[:-5] for p in glob.glob(os.path.join(VERIF, "checks", "C*.json")))
    os.makedirs(WORKROOT, exist_ok=True)
    shutil.copy(os.path.join(repo(), "go.sum"), os.path.join(HARNESS, "go.sum"))
    mods, pkgs = [], ["./cmd/extract"] if os.path.isdir(os.path.join(HARNESS, "cmd/extract")) else []
    for pid in ids:
        cfg = load_cfg(pid)
        mods += [cfg["props_module"]] + driver_imports(os.path.join(LEAN, cfg["driver"]))
        pkgs.append(cfg["harness_pkg"])
    ok = True
    if mods:
        with LakeLock():
            work = os.path.join(WORKROOT, "setup")
            os.makedirs(work, exist_ok=True)
            for pid in ids:
                cfg = load_cfg(pid)
                for ex in run_extract(cfg, work, lambda s: print(s)):
                    if not ex["ok"]:
                        print("setup: extract failed", ex)
            rc, o, e, dt = run(["lake", "build"] + sorted(set(mods)), cwd=LEAN, timeout=7200)
            print("lake build: rc=%d %.0fs" % (rc, dt))
            if rc != 0:
                print((o + e)[-3000:]); ok = False
            shutil.rmtree(work, ignore_errors=True)
    for pkg in pkgs:
        rc, o, e, dt = run(["go", "build", "-tags", "verif", "-o", os.path.join(WORKROOT, "setup-bin"), pkg], cwd=HARNESS, env=goenv(), timeout=3600)
        print("go build %s: rc=%d %.0fs" % (pkg, rc, dt))
        if rc != 0:
            print((o + e)[-2000:]); ok = False
    if os.path.exists(os.path.join(WORKROOT, "setup-bin")):
        os.remove(os.path.join(WORKROOT, "setup-bin"))
    return 0 if ok else 1


def main():
    ap = argparse.ArgumentParser()
    ap.add_argument("pid", nargs="?")
    ap.add_argument("--tier", default=os.environ.get("VERIF_TIER", "quick"), choices=["quick", "thorough"])
    ap.add_argument("--seed", type=int, default=int(os.environ.get("VERIF_SEED", "1") or 1))
    ap.add_argument("--n", type=int)
    ap.add_argument("--replay")
    ap.add_argument("--setup", action="store_true")
    ap.add_argument("--list", action="store_true")
    a = ap.parse_args()
    if a.setup:
        sys.exit(setup())
    if a.list:
        for p in sorted(glob.glob(os.path.join(VERIF, "checks", "C*.json"))):
            print(os.path.basename(p)[:-5])
        return
    if not a.pid:
        ap.error("property id required")
    sys.exit(check(a.pid, a.tier, a.seed, a.n, a.replay))


if __name__ == "__main__":
    main()
