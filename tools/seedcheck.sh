#!/bin/bash
# Validate one seeded change and run the property's check against it.
#   tools/seedcheck.sh <Cxx> <A|B|...> <dir with patch.diff, demo/, meta.json> [extra ./check args]
# 1. scratch worktree of /repo HEAD; run the demo on the clean tree (must PASS);
# 2. apply patch.diff; build; run the demo (must FAIL); run the touched packages' tests (must PASS);
# 3. run ./check <Cxx> with VERIF_REPO=worktree (expected: VIOLATION);
# 4. remove the worktree. Prints a one-line summary; copies the material to /verif/seeded/<Cxx>-<name>/.
set -u
PID=$1; NAME=$2; SRC=$3; shift 3
export GOFLAGS=-mod=mod GOPROXY=off
WT=/tmp/seedchk-$PID-$NAME
git -C /repo worktree remove --force $WT >/dev/null 2>&1
git -C /repo worktree add --detach $WT HEAD >/dev/null 2>&1 || { echo "worktree failed"; exit 2; }
cd $WT
rundemo() {  # copy demo files into place per convention: *_test.go files go to the dir named in meta "demo_dir" or the dir of the first patched file
  local d; d=$(python3 - "$SRC" <<'E'
import json,sys,os,re
src=sys.argv[1]
m=json.load(open(os.path.join(src,'meta.json')))
d=m.get('demo_dir')
if not d:
    # the demo's README names the package to run: `go test ... ./some/pkg/`
    import glob
    for r in glob.glob(os.path.join(src,'demo','README*')):
        mm=re.search(r'go test[^\n]*?\s\./([A-Za-z0-9_/.-]+?)/?(?:\s|$|`)',open(r).read())
        if mm:
            d=mm.group(1); break
if not d:
    fs=m.get('files') or []
    p=open(os.path.join(src,'patch.diff')).read()
    mm=re.search(r'^\+\+\+ b/(\S+)',p,re.M)
    d=os.path.dirname(fs[0] if fs else mm.group(1))
print(d)
E
)
  local tests; tests=$(ls $SRC/demo/*_test.go 2>/dev/null)
  if [ -n "$tests" ]; then
    cp $SRC/demo/*_test.go $WT/$d/
    local tags=""; grep -qs 'go:build.*verif\|-tags verif' $SRC/demo/* && tags="-tags verif"
    (set -o pipefail; cd $WT && go test $tags -count=1 -run "${DEMO_RUN:-.}" ./$d/ 2>&1 | tail -15); local rc=$?
    for t in $tests; do rm -f $WT/$d/$(basename $t); done
    return $rc
  else
    mkdir -p $WT/zz_demo && cp $SRC/demo/*.go $WT/zz_demo/ && (set -o pipefail; cd $WT && go run ./zz_demo 2>&1 | tail -15); local rc=$?
    rm -rf $WT/zz_demo; return $rc
  fi
}
# demo test names: restrict to the demo's own tests
DEMO_RUN=$(grep -ho 'func Test[A-Za-z0-9_]*' $SRC/demo/*_test.go 2>/dev/null | sed 's/func //' | paste -sd'|'); export DEMO_RUN
[ -n "$DEMO_RUN" ] && DEMO_RUN="^(${DEMO_RUN})\$"
rundemo > /tmp/seedchk-$PID-$NAME.clean.log 2>&1; CLEAN=$?
git apply $SRC/patch.diff || { echo "SEED $PID-$NAME: patch does not apply"; git -C /repo worktree remove --force $WT; exit 2; }
PKGS=$(git diff --name-only | xargs -n1 dirname | sort -u | sed 's|^|./|' | tr '\n' ' ')
go build ./... > /tmp/seedchk-$PID-$NAME.build.log 2>&1; BUILD=$?
rundemo > /tmp/seedchk-$PID-$NAME.mut.log 2>&1; MUT=$?
go test -count=1 $PKGS > /tmp/seedchk-$PID-$NAME.tests.log 2>&1; TESTS=$?
cd /verif
VERIF_REPO=$WT ./check $PID "$@" > /tmp/seedchk-$PID-$NAME.check.log 2>&1; CHK=$?
VIOL=$(grep -c '^VIOLATION' /tmp/seedchk-$PID-$NAME.check.log)
echo "SEED $PID-$NAME: demo_clean_rc=$CLEAN(want 0) build_rc=$BUILD(want 0) demo_mutant_rc=$MUT(want !=0) pkg_tests_rc=$TESTS(want 0) check_rc=$CHK violations=$VIOL :: $(grep '^VIOLATION' /tmp/seedchk-$PID-$NAME.check.log | head -3 | tr '\n' ';')"
mkdir -p /verif/seeded/$PID-$NAME && cp -r $SRC/patch.diff $SRC/demo $SRC/meta.json /verif/seeded/$PID-$NAME/ 2>/dev/null
python3 - <<E
import json
p='/verif/seeded/$PID-$NAME/meta.json'
m=json.load(open(p))
m['validation']={'demo_on_clean_tree_rc':$CLEAN,'build_rc':$BUILD,'demo_on_mutant_rc':$MUT,'package_tests_on_mutant_rc':$TESTS,'packages':'$PKGS'.split(),
  'check_cmd':'VERIF_REPO=<worktree with patch> ./check $PID $*','check_rc':$CHK,
  'check_output':[l.strip() for l in open('/tmp/seedchk-$PID-$NAME.check.log') if l.startswith(('VIOLATION','OK','KNOWN'))][:6]}
json.dump(m,open(p,'w'),indent=1)
E
git -C /repo worktree remove --force $WT
