#!/bin/bash
# tools/runall.sh [-j N] [--tier T] [--seed S] [ids...]   run checks in parallel, one summary line each
J=4; ARGS=(); IDS=()
while [ $# -gt 0 ]; do case $1 in -j) J=$2; shift 2;; --tier|--seed|--n) ARGS+=($1 $2); shift 2;; *) IDS+=($1); shift;; esac; done
[ ${#IDS[@]} -eq 0 ] && IDS=($(cd "$(dirname "$0")/.." && ./check --list))
cd "$(dirname "$0")/.."
printf '%s\n' "${IDS[@]}" | xargs -P $J -I{} sh -c './check {} '"${ARGS[*]}"' > .work/runall-{}.out 2>&1; echo "{} rc=$? $(grep -E "^(OK|VIOLATION|KNOWN)" .work/runall-{}.out | head -4 | cut -c1-150 | tr "\n" ";")"'
