#!/bin/bash
# tools/seedround.sh <srcprefix> <names> <J> <Cxx...>: validate freshly delivered seeds
#   e.g. tools/seedround.sh /tmp/seedout2- "C D" 4 C01 C02  -> seedcheck Cxx C /tmp/seedout2-Cxx/C ...
# different properties in parallel, seeds of one property sequentially; summary appended to .work/seedround.log
PFX=$1; NAMES=$2; J=$3; shift 3
cd "$(dirname "$0")/.."
printf '%s\n' "$@" | xargs -P $J -I{} bash -c 'for n in '"$NAMES"'; do [ -d '"$PFX"'{}/$n ] && tools/seedcheck.sh {} $n '"$PFX"'{}/$n 2>&1 | grep "^SEED" | cut -c1-400; done; ./check {} > /dev/null 2>&1' | tee -a .work/seedround.log
