#!/bin/bash
# tools/seedall.sh [-j N]: re-validate every seeded change (seeded/Cxx-N) against the current /repo and checks;
# different properties in parallel, the seeds of one property sequentially. Summary in .work/seedall.log
J=${2:-4}
cd "$(dirname "$0")/.."
ls -d seeded/C*-* | sed 's|seeded/||; s|-.*||' | sort -u | xargs -P $J -I{} bash -c 'for d in seeded/{}-*; do n=${d#seeded/{}-}; tools/seedcheck.sh {} $n /verif/$d 2>&1 | grep "^SEED" | cut -c1-400; done; ./check {} > /dev/null 2>&1' | tee .work/seedall.log
