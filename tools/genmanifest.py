#!/usr/bin/env python3
"""Regenerates /verif/MANIFEST.json from checks/C*.json, checks/hooks.json, checks/not_applicable.json
and properties.jsonl. Run after adding or changing a check registration."""
import glob, json, os
V = os.path.dirname(os.path.dirname(os.path.abspath(__file__)))
props = [json.loads(l) for l in open(os.path.join(V, "properties.jsonl")) if l.strip()]
hooks = json.load(open(os.path.join(V, "checks", "hooks.json")))
try:
    import subprocess
    out = subprocess.run(["git", "-C", "/repo", "log", "--format=%H %s"], capture_output=True, text=True).stdout
    hooks["source_commits"] = [l.split()[0] for l in out.splitlines() if l.split(" ", 1)[1].startswith("verif hook:")][::-1]
except Exception:
    pass
na = {}
p = os.path.join(V, "checks", "not_applicable.json")
if os.path.exists(p):
    na = json.load(open(p))
checks = []
claimed = set()
for f in sorted(glob.glob(os.path.join(V, "checks", "C*.json"))):
    c = json.load(open(f))
    pid = c["property_id"]
    claimed.add(pid)
    checks.append({
        "property_id": pid,
        "quick_cmd": "./check %s --tier quick" % pid,
        "thorough_cmd": "./check %s --tier thorough" % pid,
        "evidence_file": "evidence/%s.json" % pid,
        "replay_cmd_template": "./check %s --replay {path}" % pid,
        "engine": "lean4-proof+go-correspondence",
        "level_claimed": {"category": c.get("category", "proof"), "text": c["level_text"], "design_ref": c.get("design_ref", "DESIGN.md §5 " + pid)},
        "level_note": c["level_note"],
        "technique": c.get("technique", "machine-checked proof in Lean 4 + differential correspondence"),
    })
m = {
    "version": 1,
    "setup_cmd": "./check --setup",
    "hooks": hooks,
    "engines": [{
        "name": "lean4-proof+go-correspondence", "path": "lean/ + harness/ + tools/checklib.py",
        "serves_properties": sorted(claimed),
        "kind_free_text": "Lean 4 theorems about executable models (lean/BoxoModel), re-checked and axiom-audited on every run; models tied to /repo by regenerated definitions (harness/cmd/extract) and by a differential correspondence harness (harness/cmd/cNN, real Go code in-process vs lean --run Drivers/CNN.lean on the same op lines)"}],
    "checks": checks,
    "not_applicable": [{"property_id": p["id"], "reason": na.get(p["id"], "no check registered yet: the Lean model / correspondence harness for this property has not been built in this round (design in DESIGN.md §5)")}
                       for p in props if p["id"] not in claimed],
    "notes": "Single entry point ./check (tools/checklib.py). Every check: regenerate T-gen files, lake build the property's theorems, #print axioms audit, build harness with -tags verif from /repo's working tree, run the same op lines through the real code and the Lean model, diff, monitor, shrink, write evidence. Known findings: known_findings.jsonl.",
}
json.dump(m, open(os.path.join(V, "MANIFEST.json"), "w"), indent=1)
print("MANIFEST.json: %d checks, %d not_applicable" % (len(checks), len(m["not_applicable"])))
