#!/usr/bin/env python3
"""Rewrite the commit hashes quoted in known_findings.jsonl 'fixed' entries to the hashes the same commits have on
/repo's main branch (builders quote the hash of their own branch; the cherry-pick on main has another one).
Matching is by commit subject. Prints what it could not match."""
import json, re, subprocess, sys, os
V = os.path.dirname(os.path.dirname(os.path.abspath(__file__)))
log = subprocess.run(["git", "-C", "/repo", "log", "--format=%h\t%s", "main"], capture_output=True, text=True).stdout
main = {}
for l in log.splitlines():
    h, s = l.split("\t", 1)
    main.setdefault(s.strip(), h)
mainh = set(main.values())
out, changed, missing = [], 0, []
for l in open(os.path.join(V, "known_findings.jsonl")):
    if not l.strip() or l.startswith("#"):
        out.append(l); continue
    e = json.loads(l)
    c = e.get("commit")
    if e.get("status") == "fixed" and isinstance(c, str):
        def sub(m):
            global changed
            h = m.group(1)
            if any(x.startswith(h) or h.startswith(x) for x in mainh):
                return m.group(0)
            r = subprocess.run(["git", "-C", "/repo", "log", "-1", "--format=%s", h], capture_output=True, text=True)
            s = r.stdout.strip()
            if r.returncode == 0 and s in main:
                changed += 1
                return main[s] + m.group(2)
            missing.append((e["property"], e["sig"], h, s))
            return m.group(0)
        e["commit"] = re.sub(r"\b([0-9a-f]{7,40})\b( fix:)", sub, c)
        l = json.dumps(e) + "\n"
    out.append(l)
open(os.path.join(V, "known_findings.jsonl"), "w").writelines(out)
print("rewritten:", changed, "unmatched:", missing)
