// C40 harness: drives the real keystore.FSKeystore (in a fresh temporary directory) and
// keystore.MemKeystore with the same operations.
package main

import (
	"bytes"
	"encoding/base32"
	"errors"
	"fmt"
	"io/fs"
	"os"
	"path/filepath"
	"regexp"
	"sort"
	"strconv"
	"strings"
	"sync"

	"github.com/ipfs/boxo/keystore"
	ci "github.com/libp2p/go-libp2p/core/crypto"
	cipb "github.com/libp2p/go-libp2p/core/crypto/pb"

	"verifharness/vh"
)

const nameMax = 255 // NAME_MAX of the file systems the tie runs on (tmpfs/ext4/overlay)

// ---------------------------------------------------------------- generator

func encLen(n int) int { return 4 + (8*n+4)/5 } // len("key_" + base32-nopad(n bytes))

// fileName is the documented on-disk name of a key, computed independently of the keystore package
func fileName(name []byte) string {
	return "key_" + strings.ToLower(base32.StdEncoding.WithPadding(base32.NoPadding).EncodeToString(name))
}

func mkNames(r *vh.Rand) [][]byte {
	ns := [][]byte{
		[]byte("a"), []byte("A"), []byte("ab"), []byte("aB"), []byte("../x"), []byte(".."), []byte("."),
		[]byte("a/b"), []byte("/etc/passwd"), []byte("x\x00y"), []byte("\x00"), []byte("κλειδί"),
		[]byte("ключ/../.."), []byte("key_mfrgg"), []byte(" "), []byte("a\nb"),
	}
	for i, n := 0, r.Range(2, 5); i < n; i++ {
		ns = append(ns, r.Bytes(r.Range(1, 30)))
	}
	// around the file-name limit: 156 bytes encode to exactly 254 characters, 157 to 256
	for _, l := range []int{150, 155, 156} {
		ns = append(ns, bytes.Repeat([]byte{byte('a' + r.Intn(26))}, l))
	}
	return ns
}

func gen(r *vh.Rand, tier string, n int, emit func(vh.Case)) {
	// deterministic key pool
	var keys []string
	for i := 0; i < 5; i++ {
		seed := bytes.Repeat([]byte{byte(i + 1)}, 64)
		k, _, err := ci.GenerateEd25519Key(bytes.NewReader(seed))
		if err != nil {
			panic(err)
		}
		b, _ := ci.MarshalPrivateKey(k)
		keys = append(keys, vh.Hex(b))
	}
	for i := 0; i < n; i++ {
		rr := r.Fork()
		c := vh.Case{ID: strconv.Itoa(i)}
		c.Ops = append(c.Ops, "cfg "+strconv.Itoa(nameMax))
		names := mkNames(rr)
		if rr.Chance(1, 6) { // names outside the property's quantifier: empty, longer than the limit
			names = append(names, []byte{}, bytes.Repeat([]byte{'z'}, 157), bytes.Repeat([]byte{'q'}, 158), rr.Bytes(rr.Range(159, 400)))
		}
		pool := make([][]byte, 0, 6)
		for j, m := 0, rr.Range(2, 6); j < m; j++ {
			pool = append(pool, vh.Pick(rr, names))
		}
		pick := func() string {
			if rr.Chance(1, 5) {
				return vh.Hex(vh.Pick(rr, names))
			}
			return vh.Hex(vh.Pick(rr, pool))
		}
		ln := rr.Range(1, 30)
		if tier == "thorough" && rr.Chance(1, 8) {
			ln = rr.Range(30, 120)
		}
		// foreign objects in the keystore directory (a quarter of the cases): symbolic links (dangling or
		// live) / regular files / directories under the encoded file name of a pool name, and junk names
		foreign := rr.Chance(1, 4)
		nTargets := 0
		plant := func() string {
			fname := vh.Pick(rr, []string{"junk", ".hidden", "key_", "key_a", "key_abc", "key_mfrgg1", "key_MFRGG", "key_mfrggzdfmy", "KEY_mfrgg"})
			if rr.Chance(3, 4) {
				n := vh.Pick(rr, pool)
				if len(n) > 0 && encLen(len(n)) <= nameMax {
					fname = fileName(n)
				}
			}
			content := func() string {
				if rr.Bool() {
					return vh.Pick(rr, keys) + " 1"
				}
				b := rr.Bytes(rr.Range(0, 12))
				ok := 0
				if _, err := ci.UnmarshalPrivateKey(b); err == nil {
					ok = 1
				}
				return vh.Hex(b) + " " + strconv.Itoa(ok)
			}
			switch rr.Intn(6) {
			case 0, 1, 2:
				nTargets++
				return fmt.Sprintf("plantsym %s outside/t%d", fname, rr.Range(1, nTargets))
			case 3:
				return "plantdir " + fname
			case 4:
				return "plantfile " + fname + " " + content()
			default:
				nTargets++
				return fmt.Sprintf("plantout outside/t%d %s", rr.Range(1, nTargets), content())
			}
		}
		if foreign {
			for j, m := 0, rr.Range(1, 3); j < m; j++ {
				c.Ops = append(c.Ops, plant())
			}
		}
		for j := 0; j < ln; j++ {
			if foreign && rr.Chance(1, 6) {
				c.Ops = append(c.Ops, plant())
			}
			switch k := rr.Intn(100); {
			case k < 30:
				c.Ops = append(c.Ops, "put "+pick()+" "+vh.Pick(rr, keys))
			case k < 50:
				c.Ops = append(c.Ops, "get "+pick())
			case k < 65:
				c.Ops = append(c.Ops, "has "+pick())
			case k < 82:
				c.Ops = append(c.Ops, "del "+pick())
			case k < 90:
				c.Ops = append(c.Ops, "list")
			case k < 92:
				c.Ops = append(c.Ops, "putbad "+pick())
			case k < 94:
				c.Ops = append(c.Ops, "race "+pick()+" "+vh.Pick(rr, keys)+" "+vh.Pick(rr, keys))
			default:
				c.Ops = append(c.Ops, "dump")
			}
		}
		c.Ops = append(c.Ops, "list", "dump")
		emit(c)
	}
}

// ---------------------------------------------------------------- executor

// sealedKey is a private key whose material cannot be exported (HSM-style wrapper): Raw fails, so
// ci.MarshalPrivateKey fails and a Put of it must fail without leaving anything behind.
type sealedKey struct{ ci.PrivKey }

func (sealedKey) Raw() ([]byte, error) { return nil, errors.New("sealed key: material not exportable") }
func (k sealedKey) Type() cipb.KeyType { return k.PrivKey.Type() }

func errKind(err error) string {
	switch {
	case err == nil:
		return ""
	case errors.Is(err, keystore.ErrKeyExists):
		return "exists"
	case errors.Is(err, keystore.ErrNoSuchKey):
		return "nosuchkey"
	case strings.Contains(err.Error(), "key name must be at least one character"):
		return "invalid"
	case errors.Is(err, fs.ErrNotExist):
		return "notexist" // raw OS "no such file": only FSKeystore.Delete before the fix
	default:
		return "error"
	}
}

func run(ks keystore.Keystore, f []string) string {
	name := ""
	if len(f) > 1 {
		name = string(vh.UnHex(f[1]))
	}
	switch f[0] {
	case "has":
		b, err := ks.Has(name)
		if err != nil {
			return errKind(err)
		}
		return strconv.FormatBool(b)
	case "put":
		k, err := ci.UnmarshalPrivateKey(vh.UnHex(f[2]))
		if err != nil {
			panic(err)
		}
		if err := ks.Put(name, k); err != nil {
			return errKind(err)
		}
		return "ok"
	case "get":
		k, err := ks.Get(name)
		if err != nil {
			return errKind(err)
		}
		b, _ := ci.MarshalPrivateKey(k)
		return "key:" + vh.Hex(b)
	case "del":
		if err := ks.Delete(name); err != nil {
			return errKind(err)
		}
		return "ok"
	case "list":
		l, err := ks.List()
		if err != nil {
			return errKind(err)
		}
		hs := make([]string, len(l))
		for i, n := range l {
			hs[i] = vh.Hex([]byte(n))
		}
		sort.Strings(hs)
		return "names:" + strings.Join(hs, ",")
	}
	return "bad-op"
}

var fileRe = regexp.MustCompile(`^key_[a-z2-7]+$`)

// scan lists the keystore directory and everything else below root (except the directory "outside"
// itself, which the harness creates as the place foreign link targets live in).
func scan(root string) (inside []string, outside []string, bad []string) {
	filepath.WalkDir(root, func(p string, d fs.DirEntry, err error) error {
		rel, _ := filepath.Rel(root, p)
		val := func() string {
			switch {
			case d.Type()&fs.ModeSymlink != 0:
				t, _ := os.Readlink(p)
				rt, _ := filepath.Rel(root, t)
				return "->" + rt
			case d.IsDir():
				return "dir"
			default:
				b, _ := os.ReadFile(p)
				return vh.Hex(b)
			}
		}
		switch {
		case rel == "." || rel == "ks" || rel == "outside":
		case filepath.Dir(rel) == "ks":
			inside = append(inside, d.Name()+"="+val())
			if !d.Type().IsRegular() || !fileRe.MatchString(d.Name()) {
				bad = append(bad, d.Name())
			}
			if d.IsDir() {
				return filepath.SkipDir
			}
		default:
			outside = append(outside, rel+"="+val())
		}
		return nil
	})
	sort.Strings(inside)
	sort.Strings(outside)
	return
}

// a valid marshalled ed25519 key (seed bytes 1), wrapped by sealedKey in putbad
var keysHexForBad = func() string {
	k, _, _ := ci.GenerateEd25519Key(bytes.NewReader(bytes.Repeat([]byte{1}, 64)))
	b, _ := ci.MarshalPrivateKey(k)
	return vh.Hex(b)
}()

func exec(c vh.Case, o *vh.Out) {
	root, err := os.MkdirTemp("", "verif-c40-")
	if err != nil {
		panic(err)
	}
	defer os.RemoveAll(root)
	var fsk *keystore.FSKeystore
	var mem *keystore.MemKeystore
	spec := map[string]string{} // the map of the property statement: name -> marshalled key (hex)

	inQuant := func(name string) bool { return name != "" && encLen(len(name)) <= nameMax }
	caseInQuant := true
	for _, line := range c.Ops {
		f := strings.Fields(line)
		if len(f) > 1 && f[0] != "cfg" && f[0] != "race" && f[0] != "putbad" && !strings.HasPrefix(f[0], "plant") && !inQuant(string(vh.UnHex(f[1]))) {
			caseInQuant = false
		}
	}
	if !caseInQuant {
		o.Kind("names-outside-quantifier")
	}
	okPut, hit, okDel := false, false, false
	// cases with foreign objects planted in the directory: the FS/Mem agreement and the map law are not
	// claimed (the directory is not the keystore's own); confinement and refuse-to-overwrite are
	foreign := false
	for _, line := range c.Ops {
		if strings.HasPrefix(line, "plant") {
			foreign = true
		}
	}
	if foreign {
		caseInQuant = false
		o.Kind("foreign-objects")
	}
	plantedOutside := map[string]string{} // rel path -> value, as planted by the harness

	for _, line := range c.Ops {
		f := strings.Fields(line)
		switch f[0] {
		case "cfg":
			os.RemoveAll(filepath.Join(root, "ks"))
			fsk, err = keystore.NewFSKeystore(filepath.Join(root, "ks"))
			if err != nil {
				panic(err)
			}
			os.RemoveAll(filepath.Join(root, "outside"))
			os.Mkdir(filepath.Join(root, "outside"), 0o700)
			mem = keystore.NewMemKeystore()
			spec = map[string]string{}
			o.Emit("ok")
		case "plantsym", "plantdir", "plantfile", "plantout":
			var p string
			if f[0] == "plantout" {
				p = filepath.Join(root, f[1])
			} else {
				p = filepath.Join(root, "ks", f[1])
			}
			if _, err := os.Lstat(p); err == nil {
				o.Emit("exists")
				continue
			}
			var err error
			switch f[0] {
			case "plantsym":
				err = os.Symlink(filepath.Join(root, f[2]), p)
			case "plantdir":
				err = os.Mkdir(p, 0o700)
			default:
				err = os.WriteFile(p, vh.UnHex(f[2]), 0o600)
				if f[0] == "plantout" {
					plantedOutside[f[1]] = f[1] + "=" + vh.Hex(vh.UnHex(f[2]))
				}
			}
			if err != nil {
				panic(err)
			}
			o.Kind(f[0])
			o.Emit("ok")
		case "has", "put", "get", "del", "list":
			// refuse-to-overwrite: what lies under the key's file name before the call (lstat view)
			occupied := false
			if f[0] == "put" && len(f) > 1 {
				if n := vh.UnHex(f[1]); len(n) > 0 && encLen(len(n)) <= nameMax {
					_, lerr := os.Lstat(filepath.Join(root, "ks", fileName(n)))
					occupied = lerr == nil
				}
			}
			rf := run(fsk, f)
			rm := run(mem, f)
			o.Kind(f[0])
			if occupied && rf != "exists" {
				o.Fail("put-over-existing-entry", "put %q: an entry with the key's file name exists, Put returned %s", string(vh.UnHex(f[1])), rf)
			}
			name := ""
			if len(f) > 1 {
				name = string(vh.UnHex(f[1]))
			}
			valid := !foreign && (f[0] == "list" && caseInQuant || f[0] != "list" && inQuant(name))
			if valid {
				// property clause: the two implementations agree
				if rf != rm {
					sig := "fs-mem-disagree-" + f[0]
					if f[0] == "del" {
						if _, present := spec[name]; !present {
							sig = "delete-missing-fs-mem-disagree"
						}
					}
					o.Fail(sig, "%s %q: fs=%s mem=%s", f[0], name, rf, rm)
				}
				// property clause: map behaviour (refusing to overwrite), judged on the FS keystore
				want := ""
				switch f[0] {
				case "has":
					_, p := spec[name]
					want = strconv.FormatBool(p)
				case "put":
					if _, p := spec[name]; p {
						want = "exists"
					} else {
						want = "ok"
						spec[name] = f[2]
					}
				case "get":
					if k, p := spec[name]; p {
						want = "key:" + k
					} else {
						want = "nosuchkey"
					}
				case "del":
					delete(spec, name) // the result for a missing key is covered by the agreement clause
					want = rf
				case "list":
					var hs []string
					for n := range spec {
						hs = append(hs, vh.Hex([]byte(n)))
					}
					sort.Strings(hs)
					want = "names:" + strings.Join(hs, ",")
				}
				if rf != want {
					o.Fail("map-law-"+f[0], "%s %q: fs=%s want %s", f[0], name, rf, want)
				}
			} else if f[0] == "put" && rm == "ok" {
				o.Kind("mem-accepted-name-outside-quantifier")
			}
			switch {
			case f[0] == "put" && rf == "ok":
				okPut = true
			case f[0] == "get" && strings.HasPrefix(rf, "key:"):
				hit = true
			case f[0] == "del" && rf == "ok":
				okDel = true
			}
			if rf == "error" {
				o.Kind("fs-os-error")
			}
			// property clause: confinement, checked after every operation
			_, outside, bad := scan(root)
			var want []string
			for _, v := range plantedOutside {
				want = append(want, v)
			}
			sort.Strings(want)
			if strings.Join(outside, ";") != strings.Join(want, ";") {
				o.Fail("outside-keystore-dir", "after %s %q: outside the keystore directory: %v, planted there: %v", f[0], name, outside, want)
			}
			if len(bad) > 0 && !foreign {
				o.Fail("bad-filename", "after %s %q: %v", f[0], name, bad)
			}
			o.Emit("fs=%s mem=%s", rf, rm)
		case "putbad":
			// Put of a key that cannot be marshalled, FS keystore only (MemKeystore stores key objects and
			// never marshals): must fail and change nothing - directory entry before == after
			name := string(vh.UnHex(f[1]))
			inner, _ := ci.UnmarshalPrivateKey(vh.UnHex(keysHexForBad))
			var before, after string
			statOf := func() string {
				if name == "" || encLen(len(name)) > nameMax {
					return "n/a"
				}
				st, err := os.Lstat(filepath.Join(root, "ks", fileName([]byte(name))))
				if err != nil {
					return "absent"
				}
				return fmt.Sprintf("%v/%d", st.Mode(), st.Size())
			}
			before = statOf()
			err := fsk.Put(name, sealedKey{inner})
			after = statOf()
			res := errKind(err)
			if err == nil {
				res = "ok"
				o.Fail("unmarshalable-key-accepted", "putbad %q returned nil", name)
			}
			if before != after {
				o.Fail("failed-put-left-file", "putbad %q = %s changed the directory entry: %s -> %s", name, res, before, after)
			}
			o.Kind("putbad")
			_, outside, bad := scan(root)
			var want []string
			for _, v := range plantedOutside {
				want = append(want, v)
			}
			sort.Strings(want)
			if strings.Join(outside, ";") != strings.Join(want, ";") {
				o.Fail("outside-keystore-dir", "after putbad %q: %v", name, outside)
			}
			_ = bad
			o.Emit("fs=%s", res)
		case "race":
			// two goroutines Put the same name into the FS keystore at once (8 rounds, state restored after
			// each): never both succeed, and the key that reports success is the one stored
			name := string(vh.UnHex(f[1]))
			first := ""
			for round := 0; round < 8; round++ {
				start := make(chan struct{})
				var res [2]string
				var wg sync.WaitGroup
				for g := 0; g < 2; g++ {
					wg.Add(1)
					go func(g int) {
						defer wg.Done()
						<-start
						res[g] = run(fsk, []string{"put", f[1], f[2+g]})
					}(g)
				}
				close(start)
				wg.Wait()
				if res[0] == "ok" && res[1] == "ok" {
					o.Fail("concurrent-put-both-succeeded", "race %q round %d: both Puts returned nil", name, round)
				}
				for g := 0; g < 2; g++ {
					if res[g] == "ok" && res[1-g] != "ok" {
						if got := run(fsk, []string{"get", f[1]}); got != "key:"+f[2+g] {
							o.Fail("concurrent-put-lost-key", "race %q round %d: winner's key not stored (Get = %.40s)", name, round, got)
						}
					}
				}
				if res[0] == "ok" || res[1] == "ok" {
					run(fsk, []string{"del", f[1]})
				}
				rs := []string{res[0], res[1]}
				sort.Strings(rs)
				if round == 0 {
					first = strings.Join(rs, ",")
				} else if strings.Join(rs, ",") != first && !(res[0] == "ok" && res[1] == "ok") {
					o.Fail("concurrent-put-unstable", "race %q: round 0 gave %s, round %d gave %s", name, first, round, strings.Join(rs, ","))
				}
			}
			o.Kind("race")
			o.Emit("race %s", first)
		case "dump":
			inside, outside, _ := scan(root)
			o.Emit("dump %s outside=%s", strings.Join(inside, ";"), strings.Join(outside, ";"))
		default:
			o.Emit("bad-op")
		}
	}
	if okPut && hit && okDel {
		o.Nontrivial()
	}
}

func main() { vh.Main(vh.Config{Gen: gen, Exec: exec}) }
