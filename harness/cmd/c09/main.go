// C09 harness: drives the real UnixFS file reader (ipld/unixfs/io.NewDagReader) over real DAGs.
//
// Ops (see /verif/lean/Drivers/C09.lean):
//
//	tree <dump>                                       hand-built DAG (dag-pb / raw nodes with exactly these sizes)
//	import <layout> <w> <raw> <seed> <sizes> <app> <mods> <dump>
//	                                                  balanced|trickle import of scripted chunks, optional trickle.Append,
//	                                                  optional DagModifier edits; <dump> is what the generator observed
//	read <k> | writeto | seek <off> <whence>
//
// dump ::= L<hex> (dag-pb File leaf) | R<hex> (RawNode) | W<hex> (dag-pb Raw leaf) | N<filesize>[<blocksize>:<dump>,...]
package main

import (
	"bytes"
	"context"
	"errors"
	"fmt"
	"hash/fnv"
	"io"
	"strconv"
	"strings"

	chunker "github.com/ipfs/boxo/chunker"
	dag "github.com/ipfs/boxo/ipld/merkledag"
	mdtest "github.com/ipfs/boxo/ipld/merkledag/test"
	ft "github.com/ipfs/boxo/ipld/unixfs"
	"github.com/ipfs/boxo/ipld/unixfs/importer/balanced"
	h "github.com/ipfs/boxo/ipld/unixfs/importer/helpers"
	"github.com/ipfs/boxo/ipld/unixfs/importer/trickle"
	uio "github.com/ipfs/boxo/ipld/unixfs/io"
	"github.com/ipfs/boxo/ipld/unixfs/mod"
	ipld "github.com/ipfs/go-ipld-format"

	"verifharness/vh"
)

var ctx = context.Background()

// ---------------------------------------------------------------- trees

type tnode struct {
	kind  byte // 'L', 'R', 'W', 'N'
	data  []byte
	fs    uint64
	kids  []*tnode
	sizes []uint64
}

func (t *tnode) dump(sb *strings.Builder) {
	if t.kind != 'N' {
		sb.WriteByte(t.kind)
		sb.WriteString(fmt.Sprintf("%x", t.data))
		return
	}
	fmt.Fprintf(sb, "N%d[", t.fs)
	for i, k := range t.kids {
		if i > 0 {
			sb.WriteByte(',')
		}
		fmt.Fprintf(sb, "%d:", t.sizes[i])
		k.dump(sb)
	}
	sb.WriteByte(']')
}

func (t *tnode) String() string { var sb strings.Builder; t.dump(&sb); return sb.String() }

func (t *tnode) content() []byte {
	if t.kind != 'N' {
		return t.data
	}
	var out []byte
	for _, k := range t.kids {
		out = append(out, k.content()...)
	}
	return out
}

func (t *tnode) size() uint64 {
	if t.kind != 'N' {
		return uint64(len(t.data))
	}
	return t.fs
}

func (t *tnode) wellSized() bool {
	if t.kind != 'N' {
		return true
	}
	var sum uint64
	for i, k := range t.kids {
		if t.sizes[i] != k.size() || !k.wellSized() {
			return false
		}
		sum += t.sizes[i]
	}
	return sum == t.fs
}

func (t *tnode) leaves() int {
	if t.kind != 'N' || len(t.kids) == 0 {
		return 1
	}
	n := 0
	for _, k := range t.kids {
		n += k.leaves()
	}
	return n
}

func (t *tnode) height() int {
	m := 0
	for _, k := range t.kids {
		if x := k.height() + 1; x > m {
			m = x
		}
	}
	return m
}

type parser struct {
	s string
	i int
}

func (p *parser) nat() uint64 {
	j := p.i
	for j < len(p.s) && p.s[j] >= '0' && p.s[j] <= '9' {
		j++
	}
	v, err := strconv.ParseUint(p.s[p.i:j], 10, 64)
	if err != nil {
		panic("bad number in dump at " + strconv.Itoa(p.i))
	}
	p.i = j
	return v
}

func isHex(c byte) bool { return c >= '0' && c <= '9' || c >= 'a' && c <= 'f' }

func (p *parser) tree() *tnode {
	k := p.s[p.i]
	p.i++
	switch k {
	case 'L', 'R', 'W':
		j := p.i
		for j+1 < len(p.s) && isHex(p.s[j]) && isHex(p.s[j+1]) {
			j += 2
		}
		t := &tnode{kind: k, data: []byte{}}
		if j > p.i {
			t.data = vh.UnHex(p.s[p.i:j])
		}
		p.i = j
		return t
	case 'N':
		t := &tnode{kind: 'N', fs: p.nat()}
		if p.s[p.i] != '[' {
			panic("bad dump: [ expected")
		}
		p.i++
		if p.s[p.i] == ']' {
			p.i++
			return t
		}
		for {
			sz := p.nat()
			if p.s[p.i] != ':' {
				panic("bad dump: : expected")
			}
			p.i++
			t.sizes = append(t.sizes, sz)
			t.kids = append(t.kids, p.tree())
			c := p.s[p.i]
			p.i++
			if c == ']' {
				return t
			}
			if c != ',' {
				panic("bad dump: , expected")
			}
		}
	}
	panic("bad dump kind")
}

func parseDump(s string) *tnode {
	p := &parser{s: s}
	t := p.tree()
	if p.i != len(s) {
		panic("trailing dump text")
	}
	return t
}

// build creates the real nodes of a hand-written tree.
func build(ds ipld.DAGService, t *tnode) ipld.Node {
	var nd ipld.Node
	switch t.kind {
	case 'R':
		nd = dag.NewRawNode(t.data)
	case 'L', 'W':
		typ := ft.TFile
		if t.kind == 'W' {
			typ = ft.TRaw
		}
		fsn := ft.NewFSNode(typ)
		fsn.SetData(t.data)
		b, err := fsn.GetBytes()
		if err != nil {
			panic(err)
		}
		nd = dag.NodeWithData(b)
	default:
		pn := dag.NodeWithData(nil)
		fsn := ft.NewFSNode(ft.TFile)
		var sum uint64
		for i, k := range t.kids {
			if err := pn.AddNodeLink("", build(ds, k)); err != nil {
				panic(err)
			}
			fsn.AddBlockSize(t.sizes[i])
			sum += t.sizes[i]
		}
		fsn.UpdateFilesize(int64(t.fs) - int64(sum))
		b, err := fsn.GetBytes()
		if err != nil {
			panic(err)
		}
		pn.SetData(b)
		nd = pn
	}
	if err := ds.Add(ctx, nd); err != nil {
		panic(err)
	}
	return nd
}

// dumpDag reads a real DAG back into a tnode.
func dumpDag(ds ipld.NodeGetter, nd ipld.Node) *tnode {
	switch n := nd.(type) {
	case *dag.RawNode:
		return &tnode{kind: 'R', data: n.RawData()}
	case *dag.ProtoNode:
		fsn, err := ft.FSNodeFromBytes(n.Data())
		if err != nil {
			panic(err)
		}
		if len(n.Links()) == 0 && (len(fsn.Data()) > 0 || fsn.FileSize() == 0) {
			k := byte('L')
			if fsn.Type() == ft.TRaw {
				k = 'W'
			}
			d := fsn.Data()
			if d == nil {
				d = []byte{}
			}
			return &tnode{kind: k, data: d}
		}
		t := &tnode{kind: 'N', fs: fsn.FileSize()}
		bs := fsn.BlockSizes()
		for i, l := range n.Links() {
			c, err := l.GetNode(ctx, ds)
			if err != nil {
				panic(err)
			}
			var sz uint64
			if i < len(bs) {
				sz = bs[i]
			}
			t.sizes = append(t.sizes, sz)
			t.kids = append(t.kids, dumpDag(ds, c))
		}
		return t
	}
	panic(fmt.Sprintf("unexpected node type %T", nd))
}

// ---------------------------------------------------------------- imports

type scripted struct {
	chunks [][]byte
	i      int
}

func (s *scripted) Reader() io.Reader { return bytes.NewReader(nil) }
func (s *scripted) NextBytes() ([]byte, error) {
	if s.i >= len(s.chunks) {
		return nil, io.EOF
	}
	c := s.chunks[s.i]
	s.i++
	return c, nil
}

func detBytes(seed uint64, n int) []byte { return vh.NewRand(seed).Bytes(n) }

func chunksOf(seed uint64, sizes []int) [][]byte {
	out := make([][]byte, len(sizes))
	r := vh.NewRand(seed)
	for i, n := range sizes {
		out[i] = r.Bytes(n)
	}
	return out
}

func ints(s string) []int {
	if s == "-" || s == "" {
		return nil
	}
	var out []int
	for _, t := range strings.Split(s, ",") {
		out = append(out, vh.Atoi(t))
	}
	return out
}

// runImport: layout bal|tri, width w, raw leaves, chunk sizes, sizes of chunks appended with trickle.Append
// (tri only), DagModifier edits "w<off>.<len>" / "t<size>" separated by ';'.
func runImport(layout string, w int, raw bool, seed uint64, sizes, app []int, mods string) (ipld.DAGService, ipld.Node, error) {
	ds := mdtest.Mock()
	params := h.DagBuilderParams{Maxlinks: w, RawLeaves: raw, Dagserv: ds}
	if raw {
		p, _ := dag.PrefixForCidVersion(1)
		params.CidBuilder = p
	}
	db, err := params.New(&scripted{chunks: chunksOf(seed, sizes)})
	if err != nil {
		return nil, nil, err
	}
	var root ipld.Node
	if layout == "bal" {
		root, err = balanced.Layout(db)
	} else {
		root, err = trickle.Layout(db)
	}
	if err != nil {
		return nil, nil, err
	}
	if len(app) > 0 && layout == "tri" {
		db2, err := params.New(&scripted{chunks: chunksOf(seed+1, app)})
		if err != nil {
			return nil, nil, err
		}
		if _, ok := root.(*dag.ProtoNode); ok {
			root, err = trickle.Append(ctx, root, db2)
			if err != nil {
				return nil, nil, err
			}
		}
	}
	if mods != "-" {
		csz := 5
		if len(sizes) > 0 && sizes[0] > 0 {
			csz = sizes[0]
		}
		dm, err := mod.NewDagModifier(ctx, root, ds, chunker.SizeSplitterGen(int64(csz)))
		if err != nil {
			return nil, nil, err
		}
		dm.MaxLinks = w
		dm.RawLeaves = raw
		for k, m := range strings.Split(mods, ";") {
			switch m[0] {
			case 'w':
				p := strings.Split(m[1:], ".")
				if _, err := dm.WriteAt(detBytes(seed+uint64(7+k), vh.Atoi(p[1])), int64(vh.Atoi(p[0]))); err != nil {
					return nil, nil, err
				}
			case 't':
				if err := dm.Truncate(int64(vh.Atoi(m[1:]))); err != nil {
					return nil, nil, err
				}
			}
			if err := dm.Sync(); err != nil {
				return nil, nil, err
			}
		}
		root, err = dm.GetNode()
		if err != nil {
			return nil, nil, err
		}
	}
	return ds, root, nil
}

// ---------------------------------------------------------------- exec

func errClass(err error) string {
	switch {
	case err == nil:
		return "nil"
	case errors.Is(err, io.EOF):
		return "eof"
	}
	return "err"
}

func fnv32(b []byte) uint32 {
	hh := fnv.New32a()
	hh.Write(b)
	return hh.Sum32()
}

type session struct {
	dr      uio.DagReader
	content []byte
	pos     int64 // spec position
	ws      bool
}

func (s *session) open(o *vh.Out, ds ipld.NodeGetter, root ipld.Node, t *tnode) {
	dr, err := uio.NewDagReader(ctx, root, ds)
	if err != nil {
		o.Fail("open-error", "NewDagReader: %v", err)
		s.dr = nil
		o.Emit("open-err")
		return
	}
	s.dr, s.content, s.pos, s.ws = dr, t.content(), 0, t.wellSized()
	if s.ws && dr.Size() != uint64(len(s.content)) {
		o.Fail("size", "Size()=%d, content has %d bytes", dr.Size(), len(s.content))
	}
	ws := 0
	if s.ws {
		ws = 1
	}
	o.Kind(fmt.Sprintf("height%d", t.height()))
	if t.leaves() >= 3 && s.ws {
		o.Nontrivial()
	}
	o.Emit("ok size=%d ws=%d", dr.Size(), ws)
}

func (s *session) curPos() int64 {
	p, err := s.dr.Seek(0, io.SeekCurrent)
	if err != nil {
		return -1
	}
	return p
}

// specRead is the in-memory byte reader the property compares with.
func (s *session) specRead(k int) []byte {
	if s.pos >= int64(len(s.content)) {
		return nil
	}
	e := s.pos + int64(k)
	if e > int64(len(s.content)) {
		e = int64(len(s.content))
	}
	return s.content[s.pos:e]
}

func exec(c vh.Case, o *vh.Out) {
	var s session
	for _, line := range c.Ops {
		f := strings.Fields(line)
		switch {
		case len(f) == 2 && f[0] == "tree":
			t := parseDump(f[1])
			ds := mdtest.Mock()
			root := build(ds, t)
			if !t.wellSized() {
				o.Kind("not-wellsized")
			}
			o.Kind("tree-hand")
			s.open(o, ds, root, t)
		case len(f) == 9 && f[0] == "import":
			seed, _ := strconv.ParseUint(f[4], 10, 64)
			ds, root, err := runImport(f[1], vh.Atoi(f[2]), f[3] == "1", seed, ints(f[5]), ints(f[6]), f[7])
			if err != nil {
				o.Fail("import-error", "%v", err)
				s.dr = nil
				o.Emit("import-err")
				continue
			}
			t := dumpDag(ds, root)
			if t.String() != f[8] {
				o.Fail("dump-mismatch", "re-import gave a different DAG than the generator saw")
			}
			if !t.wellSized() {
				o.Fail("producer-not-wellsized", "importer/modifier output has inconsistent sizes: %s", t.String())
			}
			o.Kind("tree-" + f[1])
			if f[6] != "-" {
				o.Kind("appended")
			}
			if f[7] != "-" {
				o.Kind("modified")
			}
			s.open(o, ds, root, t)
		case s.dr == nil:
			o.Emit("bad-op")
		case len(f) == 2 && f[0] == "read":
			k := vh.Atoi(f[1])
			buf := make([]byte, k)
			var n int
			var err error
			if k%2 == 0 {
				n, err = s.dr.Read(buf)
			} else {
				n, err = s.dr.CtxReadFull(ctx, buf)
			}
			got := buf[:n]
			if s.ws {
				want := s.specRead(k)
				if !bytes.Equal(got, want) {
					o.Fail("read-bytes", "read %d at %d: got %d bytes, want %d (or different content)", k, s.pos, n, len(want))
				}
				atEnd := s.pos+int64(len(want)) >= int64(len(s.content))
				switch {
				case k > 0 && len(want) < k && errClass(err) != "eof":
					o.Fail("read-eof-missing", "short read %d/%d at %d without EOF (%v)", n, k, s.pos, err)
				case k > 0 && len(want) == k && err != nil:
					o.Fail("read-spurious-error", "full read %d at %d returned %v", k, s.pos, err)
				case k == 0 && err != nil && !(errClass(err) == "eof" && atEnd):
					o.Fail("read-zero-error", "zero-length read at %d of %d returned %v", s.pos, len(s.content), err)
				}
				s.pos += int64(len(want))
			}
			if errClass(err) == "eof" {
				o.Kind("read-eof")
			}
			if k == 0 {
				o.Kind("read-zero")
			}
			o.Kind("read")
			o.Emit("n=%d err=%s pos=%d fnv=%d", n, errClass(err), s.curPos(), fnv32(got))
		case len(f) == 1 && f[0] == "writeto":
			var bb bytes.Buffer
			n, err := s.dr.WriteTo(&bb)
			if s.ws {
				want := s.specRead(len(s.content) + 1)
				if !bytes.Equal(bb.Bytes(), want) || err != nil || n != int64(len(want)) {
					o.Fail("writeto", "WriteTo at %d: n=%d err=%v, want %d bytes", s.pos, n, err, len(want))
				}
				s.pos += int64(len(want))
			}
			o.Kind("writeto")
			o.Emit("n=%d err=%s pos=%d fnv=%d", n, errClass(err), s.curPos(), fnv32(bb.Bytes()))
		case len(f) == 3 && f[0] == "seek":
			off, _ := strconv.ParseInt(f[1], 10, 64)
			wh := vh.Atoi(f[2])
			ret, err := s.dr.Seek(off, wh)
			if s.ws {
				var target int64
				valid := true
				switch wh {
				case io.SeekStart:
					target = off
				case io.SeekCurrent:
					target = s.pos + off
				case io.SeekEnd:
					target = int64(len(s.content)) + off
				default:
					valid = false
				}
				switch {
				case !valid || target < 0:
					if err == nil {
						o.Fail("seek-accepted", "Seek(%d,%d) at %d should fail", off, wh, s.pos)
					}
					o.Kind("seek-rejected")
				case err != nil:
					o.Fail("seek-error", "Seek(%d,%d) at %d: %v", off, wh, s.pos, err)
				default:
					if ret != target {
						o.Fail("seek-offset", "Seek(%d,%d) at %d returned %d, want %d", off, wh, s.pos, ret, target)
					}
					if target > int64(len(s.content)) {
						o.Kind("seek-past-end")
					}
					s.pos = target
				}
			}
			o.Kind("seek")
			e := errClass(err)
			if e == "eof" {
				e = "err"
			}
			o.Emit("ret=%d err=%s pos=%d", ret, e, s.curPos())
		default:
			o.Emit("bad-op")
		}
		if s.dr != nil && s.ws {
			if p := s.curPos(); p != s.pos {
				o.Fail("position", "after %q the reader is at %d, the byte reader at %d", f[0], p, s.pos)
				s.pos = p
			}
		}
	}
}

// ---------------------------------------------------------------- generator

func genTree(r *vh.Rand, depth int, perturb *bool) *tnode {
	if depth == 0 || r.Chance(1, 4) {
		n := r.Intn(7)
		if r.Chance(1, 5) {
			n = 0
		}
		return &tnode{kind: vh.Pick(r, []byte{'L', 'L', 'R', 'W'}), data: r.Bytes(n)}
	}
	t := &tnode{kind: 'N'}
	k := r.Intn(5)
	if r.Chance(1, 6) {
		k = 1
	}
	for i := 0; i < k; i++ {
		c := genTree(r, depth-1, perturb)
		sz := c.size()
		if *perturb && r.Chance(1, 4) {
			sz = uint64(int(sz) + r.Range(-int(min64(sz, 3)), 3))
		}
		t.kids = append(t.kids, c)
		t.sizes = append(t.sizes, sz)
		t.fs += sz
	}
	if *perturb && r.Chance(1, 4) {
		t.fs = uint64(int(t.fs) + r.Range(-int(min64(t.fs, 2)), 2))
	}
	return t
}

func min64(a uint64, b int) uint64 {
	if a < uint64(b) {
		return a
	}
	return uint64(b)
}

func genOps(r *vh.Rand, c *vh.Case, size, chunk int, n int) {
	for j := 0; j < n; j++ {
		switch r.Intn(10) {
		case 0, 1, 2, 3, 4:
			k := r.Intn(2*chunk + 2)
			switch r.Intn(8) {
			case 0:
				k = 0
			case 1:
				k = 1
			case 2:
				k = size + r.Range(-1, 2)
				if k < 0 {
					k = 0
				}
			}
			c.Ops = append(c.Ops, fmt.Sprintf("read %d", k))
		case 5, 6, 7, 8:
			wh := vh.Pick(r, []int{0, 0, 1, 1, 2, 2, 3, 7})
			off := r.Range(-size-2, size+2)
			switch wh {
			case 0:
				off = r.Range(-2, size+2)
			case 2:
				off = r.Range(-size-2, 2)
			case 1:
				off = r.Range(-size/2-2, size/2+2)
				if r.Chance(1, 5) {
					off = 0
				}
			}
			c.Ops = append(c.Ops, fmt.Sprintf("seek %d %d", off, wh))
		default:
			c.Ops = append(c.Ops, "writeto")
		}
	}
}

func joinInts(xs []int) string {
	if len(xs) == 0 {
		return "-"
	}
	ss := make([]string, len(xs))
	for i, x := range xs {
		ss[i] = strconv.Itoa(x)
	}
	return strings.Join(ss, ",")
}

func gen(r *vh.Rand, tier string, n int, emit func(vh.Case)) {
	for i := 0; i < n; i++ {
		cr := r.Fork()
		c := vh.Case{ID: strconv.Itoa(i)}
		rounds := 1
		if cr.Chance(1, 6) {
			rounds = 2
		}
		for k := 0; k < rounds; k++ {
			var t *tnode
			chunk := 4
			if cr.Chance(2, 5) {
				perturb := cr.Chance(1, 4)
				t = genTree(cr, cr.Range(0, 4), &perturb)
				c.Ops = append(c.Ops, "tree "+t.String())
			} else {
				layout := vh.Pick(cr, []string{"bal", "tri"})
				w := vh.Pick(cr, []int{2, 2, 3, 3, 4, 5, 8, 174})
				raw := cr.Bool()
				nch := cr.Intn(14)
				if cr.Chance(1, 8) {
					nch = cr.Range(14, 60)
				}
				if tier == "thorough" && cr.Chance(1, 10) {
					nch = cr.Range(60, 400)
				}
				chunk = cr.Range(1, 9)
				sizes := make([]int, nch)
				for j := range sizes {
					sizes[j] = chunk
					if cr.Chance(1, 3) {
						sizes[j] = cr.Range(1, chunk)
					}
				}
				var app []int
				if layout == "tri" && cr.Chance(1, 3) {
					app = make([]int, cr.Range(1, 12))
					for j := range app {
						app[j] = cr.Range(1, chunk)
					}
				}
				mods := "-"
				total := 0
				for _, x := range sizes {
					total += x
				}
				if cr.Chance(1, 4) {
					var ms []string
					for j, m := 0, cr.Range(1, 3); j < m; j++ {
						if cr.Chance(1, 4) {
							ms = append(ms, fmt.Sprintf("t%d", cr.Intn(total+1)))
						} else {
							ms = append(ms, fmt.Sprintf("w%d.%d", cr.Intn(total+1), cr.Range(1, 3*chunk)))
						}
					}
					mods = strings.Join(ms, ";")
				}
				seed := uint64(cr.Intn(1 << 30))
				rawf := "0"
				if raw {
					rawf = "1"
				}
				var root ipld.Node
				var ds ipld.DAGService
				var err error
				func() {
					defer func() {
						if rec := recover(); rec != nil {
							err = fmt.Errorf("panic: %v", rec)
						}
					}()
					ds, root, err = runImport(layout, w, raw, seed, sizes, app, mods)
				}()
				if err == nil {
					t = dumpDag(ds, root)
				}
				if mods != "-" && (err != nil || !t.wellSized()) {
					// a DagModifier error or inconsistent output is C10's business: fall back to the plain import
					mods = "-"
					ds, root, err = runImport(layout, w, raw, seed, sizes, app, mods)
					if err == nil {
						t = dumpDag(ds, root)
					}
				}
				if err != nil {
					continue
				}
				c.Ops = append(c.Ops, fmt.Sprintf("import %s %d %s %d %s %s %s %s", layout, w, rawf, seed, joinInts(sizes), joinInts(app), mods, t.String()))
			}
			m := cr.Range(3, 30)
			if tier == "thorough" {
				m = cr.Range(3, 40)
			}
			genOps(cr, &c, len(t.content()), chunk, m)
		}
		emit(c)
	}
}

func main() { vh.Main(vh.Config{Gen: gen, Exec: exec}) }
