// C09 harness: drives the real UnixFS file reader (ipld/unixfs/io.NewDagReader) over real DAGs.
//
// Ops (see /verif/lean/Drivers/C09.lean):
//
//	tree <dump>                                       hand-built DAG (dag-pb / raw nodes with exactly these sizes)
//	import <layout> <w> <raw> <seed> <sizes> <app> <mods> <dump>
//	                                                  balanced|trickle import of scripted chunks, optional trickle.Append,
//	                                                  optional DagModifier edits; <dump> is what the generator observed
//	read <k> | writeto | seek <off> <whence>
//
// dump ::= L<hex> (dag-pb File leaf) | R<hex> (RawNode) | W<hex> (dag-pb Raw leaf) | N<filesize>[<blocksize>:<dump>,...]
package main

import (
	"bytes"
	"context"
	"errors"
	"fmt"
	"hash/fnv"
	"io"
	"os"
	"strconv"
	"strings"
	"time"

	chunker "github.com/ipfs/boxo/chunker"
	dag "github.com/ipfs/boxo/ipld/merkledag"
	mdtest "github.com/ipfs/boxo/ipld/merkledag/test"
	ft "github.com/ipfs/boxo/ipld/unixfs"
	"github.com/ipfs/boxo/ipld/unixfs/importer/balanced"
	h "github.com/ipfs/boxo/ipld/unixfs/importer/helpers"
	"github.com/ipfs/boxo/ipld/unixfs/importer/trickle"
	uio "github.com/ipfs/boxo/ipld/unixfs/io"
	"github.com/ipfs/boxo/ipld/unixfs/mod"
	pb "github.com/ipfs/boxo/ipld/unixfs/pb"
	cid "github.com/ipfs/go-cid"
	ipld "github.com/ipfs/go-ipld-format"

	"verifharness/vh"
)

var ctx = context.Background()

// ---------------------------------------------------------------- trees

type tnode struct {
	kind  byte   // 'L', 'R', 'W', 'N'
	idata []byte // Data carried by an internal node next to its links (legacy files): skipped by the reader
	data  []byte
	fs    uint64
	kids  []*tnode
	sizes []uint64
}

func (t *tnode) dump(sb *strings.Builder) {
	if t.kind != 'N' {
		sb.WriteByte(t.kind)
		sb.WriteString(fmt.Sprintf("%x", t.data))
		return
	}
	fmt.Fprintf(sb, "N%d", t.fs)
	if len(t.idata) > 0 {
		fmt.Fprintf(sb, "{%x}", t.idata)
	}
	sb.WriteByte('[')
	for i, k := range t.kids {
		if i > 0 {
			sb.WriteByte(',')
		}
		fmt.Fprintf(sb, "%d:", t.sizes[i])
		k.dump(sb)
	}
	sb.WriteByte(']')
}

func (t *tnode) String() string { var sb strings.Builder; t.dump(&sb); return sb.String() }

func (t *tnode) content() []byte {
	if t.kind != 'N' {
		return t.data
	}
	var out []byte
	for _, k := range t.kids {
		out = append(out, k.content()...)
	}
	return out
}

func (t *tnode) size() uint64 {
	if t.kind != 'N' {
		return uint64(len(t.data))
	}
	return t.fs
}

func (t *tnode) wellSized() bool {
	if t.kind != 'N' {
		return true
	}
	var sum uint64
	for i, k := range t.kids {
		if t.sizes[i] != k.size() || !k.wellSized() {
			return false
		}
		sum += t.sizes[i]
	}
	return sum == t.fs
}

func (t *tnode) leaves() int {
	if t.kind != 'N' || len(t.kids) == 0 {
		return 1
	}
	n := 0
	for _, k := range t.kids {
		n += k.leaves()
	}
	return n
}

func (t *tnode) height() int {
	m := 0
	for _, k := range t.kids {
		if x := k.height() + 1; x > m {
			m = x
		}
	}
	return m
}

type parser struct {
	s string
	i int
}

func (p *parser) nat() uint64 {
	j := p.i
	for j < len(p.s) && p.s[j] >= '0' && p.s[j] <= '9' {
		j++
	}
	v, err := strconv.ParseUint(p.s[p.i:j], 10, 64)
	if err != nil {
		panic("bad number in dump at " + strconv.Itoa(p.i))
	}
	p.i = j
	return v
}

func isHex(c byte) bool { return c >= '0' && c <= '9' || c >= 'a' && c <= 'f' }

func (p *parser) tree() *tnode {
	k := p.s[p.i]
	p.i++
	switch k {
	case 'L', 'R', 'W':
		j := p.i
		for j+1 < len(p.s) && isHex(p.s[j]) && isHex(p.s[j+1]) {
			j += 2
		}
		t := &tnode{kind: k, data: []byte{}}
		if j > p.i {
			t.data = vh.UnHex(p.s[p.i:j])
		}
		p.i = j
		return t
	case 'N':
		t := &tnode{kind: 'N', fs: p.nat()}
		if p.s[p.i] == '{' {
			j := strings.IndexByte(p.s[p.i:], '}') + p.i
			t.idata = vh.UnHex(p.s[p.i+1 : j])
			p.i = j + 1
		}
		if p.s[p.i] != '[' {
			panic("bad dump: [ expected")
		}
		p.i++
		if p.s[p.i] == ']' {
			p.i++
			return t
		}
		for {
			sz := p.nat()
			if p.s[p.i] != ':' {
				panic("bad dump: : expected")
			}
			p.i++
			t.sizes = append(t.sizes, sz)
			t.kids = append(t.kids, p.tree())
			c := p.s[p.i]
			p.i++
			if c == ']' {
				return t
			}
			if c != ',' {
				panic("bad dump: , expected")
			}
		}
	}
	panic("bad dump kind")
}

func parseDump(s string) *tnode {
	p := &parser{s: s}
	t := p.tree()
	if p.i != len(s) {
		panic("trailing dump text")
	}
	return t
}

// build creates the real nodes of a hand-written tree.
func build(ds ipld.DAGService, t *tnode) ipld.Node {
	var nd ipld.Node
	switch t.kind {
	case 'R':
		nd = dag.NewRawNode(t.data)
	case 'L', 'W':
		typ := ft.TFile
		if t.kind == 'W' {
			typ = ft.TRaw
		}
		fsn := ft.NewFSNode(typ)
		fsn.SetData(t.data)
		b, err := fsn.GetBytes()
		if err != nil {
			panic(err)
		}
		nd = dag.NodeWithData(b)
	default:
		pn := dag.NodeWithData(nil)
		fsn := ft.NewFSNode(ft.TFile)
		if len(t.idata) > 0 {
			fsn.SetData(t.idata)
		}
		sum := uint64(len(t.idata))
		for i, k := range t.kids {
			if err := pn.AddNodeLink("", build(ds, k)); err != nil {
				panic(err)
			}
			fsn.AddBlockSize(t.sizes[i])
			sum += t.sizes[i]
		}
		fsn.UpdateFilesize(int64(t.fs) - int64(sum))
		b, err := fsn.GetBytes()
		if err != nil {
			panic(err)
		}
		pn.SetData(b)
		nd = pn
	}
	if err := ds.Add(ctx, nd); err != nil {
		panic(err)
	}
	return nd
}

// dumpDag reads a real DAG back into a tnode.
func dumpDag(ds ipld.NodeGetter, nd ipld.Node) *tnode {
	switch n := nd.(type) {
	case *dag.RawNode:
		return &tnode{kind: 'R', data: n.RawData()}
	case *dag.ProtoNode:
		fsn, err := ft.FSNodeFromBytes(n.Data())
		if err != nil {
			panic(err)
		}
		if len(n.Links()) == 0 && (len(fsn.Data()) > 0 || fsn.FileSize() == 0) {
			k := byte('L')
			if fsn.Type() == ft.TRaw {
				k = 'W'
			}
			d := fsn.Data()
			if d == nil {
				d = []byte{}
			}
			return &tnode{kind: k, data: d}
		}
		t := &tnode{kind: 'N', fs: fsn.FileSize()}
		if len(n.Links()) > 0 {
			t.idata = fsn.Data()
		}
		bs := fsn.BlockSizes()
		for i, l := range n.Links() {
			c, err := l.GetNode(ctx, ds)
			if err != nil {
				panic(err)
			}
			var sz uint64
			if i < len(bs) {
				sz = bs[i]
			}
			t.sizes = append(t.sizes, sz)
			t.kids = append(t.kids, dumpDag(ds, c))
		}
		return t
	}
	panic(fmt.Sprintf("unexpected node type %T", nd))
}

// ---------------------------------------------------------------- imports

type scripted struct {
	chunks [][]byte
	i      int
}

func (s *scripted) Reader() io.Reader { return bytes.NewReader(nil) }
func (s *scripted) NextBytes() ([]byte, error) {
	if s.i >= len(s.chunks) {
		return nil, io.EOF
	}
	c := s.chunks[s.i]
	s.i++
	return c, nil
}

func detBytes(seed uint64, n int) []byte { return vh.NewRand(seed).Bytes(n) }

func chunksOf(seed uint64, sizes []int) [][]byte {
	out := make([][]byte, len(sizes))
	r := vh.NewRand(seed)
	for i, n := range sizes {
		out[i] = r.Bytes(n)
	}
	return out
}

func ints(s string) []int {
	if s == "-" || s == "" {
		return nil
	}
	var out []int
	for _, t := range strings.Split(s, ",") {
		out = append(out, vh.Atoi(t))
	}
	return out
}

// runImport: layout bal|tri, width w, raw leaves, chunk sizes, sizes of chunks appended with trickle.Append
// (tri only), DagModifier edits "w<off>.<len>" / "t<size>" separated by ';'.
func runImport(layout string, w int, raw bool, seed uint64, sizes, app []int, mods string) (ipld.DAGService, ipld.Node, error) {
	ds := mdtest.Mock()
	params := h.DagBuilderParams{Maxlinks: w, RawLeaves: raw, Dagserv: ds}
	if raw {
		p, _ := dag.PrefixForCidVersion(1)
		params.CidBuilder = p
	}
	db, err := params.New(&scripted{chunks: chunksOf(seed, sizes)})
	if err != nil {
		return nil, nil, err
	}
	var root ipld.Node
	if layout == "bal" {
		root, err = balanced.Layout(db)
	} else {
		root, err = trickle.Layout(db)
	}
	if err != nil {
		return nil, nil, err
	}
	if len(app) > 0 && layout == "tri" {
		db2, err := params.New(&scripted{chunks: chunksOf(seed+1, app)})
		if err != nil {
			return nil, nil, err
		}
		if _, ok := root.(*dag.ProtoNode); ok {
			root, err = trickle.Append(ctx, root, db2)
			if err != nil {
				return nil, nil, err
			}
		}
	}
	if mods != "-" {
		csz := 5
		if len(sizes) > 0 && sizes[0] > 0 {
			csz = sizes[0]
		}
		dm, err := mod.NewDagModifier(ctx, root, ds, chunker.SizeSplitterGen(int64(csz)))
		if err != nil {
			return nil, nil, err
		}
		dm.MaxLinks = w
		dm.RawLeaves = raw
		for k, m := range strings.Split(mods, ";") {
			switch m[0] {
			case 'w':
				p := strings.Split(m[1:], ".")
				if _, err := dm.WriteAt(detBytes(seed+uint64(7+k), vh.Atoi(p[1])), int64(vh.Atoi(p[0]))); err != nil {
					return nil, nil, err
				}
			case 't':
				if err := dm.Truncate(int64(vh.Atoi(m[1:]))); err != nil {
					return nil, nil, err
				}
			}
			if err := dm.Sync(); err != nil {
				return nil, nil, err
			}
		}
		root, err = dm.GetNode()
		if err != nil {
			return nil, nil, err
		}
	}
	return ds, root, nil
}

// ---------------------------------------------------------------- exec

func errClass(err error) string {
	switch {
	case err == nil:
		return "nil"
	case errors.Is(err, io.EOF):
		return "eof"
	}
	return "err"
}

func fnv32(b []byte) uint32 {
	hh := fnv.New32a()
	hh.Write(b)
	return hh.Sum32()
}

type session struct {
	dr      uio.DagReader
	content []byte
	pos     int64 // spec position
	ws      bool
	seekd   bool // a Seek was issued since the DAG was opened (sequential access needs no size information)
	fl      *flaky
}

// checked: may this call be compared with the byte-slice reader?
func (s *session) checked() bool { return s.ws || !s.seekd }

// flaky wraps the DAG service: while pct > 0 a fetch fails when hash(seed, epoch, cid) % 100 < pct.
type flaky struct {
	ipld.NodeGetter
	seed  uint64
	pct   int
	epoch int
}

var errFetch = errors.New("injected fetch failure")

func (f *flaky) bad(c cid.Cid) bool {
	if f.pct <= 0 {
		return false
	}
	hh := fnv.New64a()
	fmt.Fprintf(hh, "%d/%d/", f.seed, f.epoch)
	hh.Write(c.Bytes())
	return int(hh.Sum64()%100) < f.pct
}

func (f *flaky) Get(c context.Context, k cid.Cid) (ipld.Node, error) {
	if err := c.Err(); err != nil { // the in-memory DAG service ignores contexts: honour them here
		return nil, err
	}
	if f.bad(k) {
		return nil, errFetch
	}
	return f.NodeGetter.Get(c, k)
}

func (f *flaky) GetMany(c context.Context, ks []cid.Cid) <-chan *ipld.NodeOption {
	out := make(chan *ipld.NodeOption, len(ks)+1)
	go func() {
		defer close(out)
		for _, k := range ks {
			if err := c.Err(); err != nil {
				out <- &ipld.NodeOption{Err: err}
				return
			}
			if f.bad(k) {
				out <- &ipld.NodeOption{Err: errFetch}
				return
			}
			nd, err := f.NodeGetter.Get(c, k)
			out <- &ipld.NodeOption{Node: nd, Err: err}
			if err != nil {
				return
			}
		}
	}()
	return out
}

func (s *session) open(o *vh.Out, ds ipld.NodeGetter, root ipld.Node, t *tnode) {
	s.fl = &flaky{NodeGetter: ds}
	s.seekd = false
	dr, err := uio.NewDagReader(ctx, root, s.fl)
	if err != nil {
		o.Fail("open-error", "NewDagReader: %v", err)
		s.dr = nil
		o.Emit("open-err")
		return
	}
	s.dr, s.content, s.pos, s.ws = dr, t.content(), 0, t.wellSized()
	if s.ws && dr.Size() != uint64(len(s.content)) {
		o.Fail("size", "Size()=%d, content has %d bytes", dr.Size(), len(s.content))
	}
	ws := 0
	if s.ws {
		ws = 1
	}
	o.Kind(fmt.Sprintf("height%d", t.height()))
	if t.leaves() >= 3 && s.ws {
		o.Nontrivial()
	}
	o.Emit("ok size=%d ws=%d", dr.Size(), ws)
}

func (s *session) curPos() int64 {
	p, err := s.dr.Seek(0, io.SeekCurrent)
	if err != nil {
		return -1
	}
	return p
}

// specRead is the in-memory byte reader the property compares with.
func (s *session) specRead(k int) []byte {
	if s.pos >= int64(len(s.content)) {
		return nil
	}
	e := s.pos + int64(k)
	if e > int64(len(s.content)) {
		e = int64(len(s.content))
	}
	return s.content[s.pos:e]
}

func exec(c vh.Case, o *vh.Out) {
	var s session
	for _, line := range c.Ops {
		f := strings.Fields(line)
		switch {
		case (len(f) == 2 || len(f) == 3) && f[0] == "tree":
			t := parseDump(f[1])
			ds := mdtest.Mock()
			root := build(ds, t)
			var wantMode os.FileMode
			var wantTime time.Time
			if len(f) == 3 { // attrs=<mode>:<sec>: mode / mtime on the root (dag-pb roots only)
				if pn, ok := root.(*dag.ProtoNode); ok {
					a := strings.Split(strings.TrimPrefix(f[2], "attrs="), ":")
					fsn, _ := ft.FSNodeFromBytes(pn.Data())
					wantMode = os.FileMode(vh.Atoi(a[0]))
					wantTime = time.Unix(int64(vh.Atoi(a[1])), 0)
					fsn.SetMode(wantMode)
					fsn.SetModTime(wantTime)
					b, _ := fsn.GetBytes()
					pn2 := pn.Copy().(*dag.ProtoNode)
					pn2.SetData(b)
					if err := ds.Add(ctx, pn2); err != nil {
						panic(err)
					}
					root = pn2
				}
			}
			if !t.wellSized() {
				o.Kind("not-wellsized")
			}
			o.Kind("tree-hand")
			s.open(o, ds, root, t)
			if s.dr != nil {
				if s.dr.Mode() != wantMode || !s.dr.ModTime().Equal(wantTime) {
					o.Fail("attrs-accessor", "Mode()/ModTime() = %v/%v, root carries %v/%v", s.dr.Mode(), s.dr.ModTime(), wantMode, wantTime)
				}
				if len(f) == 3 {
					o.Kind("attrs")
				}
			}
		case len(f) == 9 && f[0] == "import":
			seed, _ := strconv.ParseUint(f[4], 10, 64)
			ds, root, err := runImport(f[1], vh.Atoi(f[2]), f[3] == "1", seed, ints(f[5]), ints(f[6]), f[7])
			if err != nil {
				o.Fail("import-error", "%v", err)
				s.dr = nil
				o.Emit("import-err")
				continue
			}
			t := dumpDag(ds, root)
			if t.String() != f[8] {
				o.Fail("dump-mismatch", "re-import gave a different DAG than the generator saw")
			}
			if !t.wellSized() {
				o.Fail("producer-not-wellsized", "importer/modifier output has inconsistent sizes: %s", t.String())
			}
			o.Kind("tree-" + f[1])
			if f[6] != "-" {
				o.Kind("appended")
			}
			if f[7] != "-" {
				o.Kind("modified")
			}
			s.open(o, ds, root, t)
		case s.dr == nil:
			o.Emit("bad-op")
		case len(f) == 2 && (f[0] == "read" || f[0] == "ctxreadfull"):
			k := vh.Atoi(f[1])
			buf := make([]byte, k)
			var n int
			var err error
			switch {
			case f[0] == "ctxreadfull":
				// a context that governs this one call only: cancelled as soon as the call has returned.
				// It must have no effect on any later call.
				c2, cancel := context.WithCancel(context.Background())
				n, err = s.dr.CtxReadFull(c2, buf)
				cancel()
				o.Kind("ctxreadfull")
			case k%2 == 0:
				n, err = s.dr.Read(buf)
			default:
				n, err = s.dr.CtxReadFull(ctx, buf)
			}
			got := buf[:n]
			if s.checked() {
				want := s.specRead(k)
				if !bytes.Equal(got, want) {
					o.Fail("read-bytes", "read %d at %d: got %d bytes, want %d (or different content)", k, s.pos, n, len(want))
				}
				atEnd := s.pos+int64(len(want)) >= int64(len(s.content))
				switch {
				case k > 0 && len(want) < k && errClass(err) != "eof":
					o.Fail("read-eof-missing", "short read %d/%d at %d without EOF (%v)", n, k, s.pos, err)
				case k > 0 && len(want) == k && err != nil:
					o.Fail("read-spurious-error", "full read %d at %d returned %v", k, s.pos, err)
				case k == 0 && err != nil && !(errClass(err) == "eof" && atEnd):
					o.Fail("read-zero-error", "zero-length read at %d of %d returned %v", s.pos, len(s.content), err)
				}
				s.pos += int64(len(want))
			}
			if errClass(err) == "eof" {
				o.Kind("read-eof")
			}
			if k == 0 {
				o.Kind("read-zero")
			}
			o.Kind("read")
			o.Emit("n=%d err=%s pos=%d fnv=%d", n, errClass(err), s.curPos(), fnv32(got))
		case len(f) == 1 && f[0] == "writeto":
			var bb bytes.Buffer
			n, err := s.dr.WriteTo(&bb)
			if s.checked() {
				want := s.specRead(len(s.content) + 1)
				if !bytes.Equal(bb.Bytes(), want) || err != nil || n != int64(len(want)) {
					o.Fail("writeto", "WriteTo at %d: n=%d err=%v, want %d bytes", s.pos, n, err, len(want))
				}
				s.pos += int64(len(want))
			}
			o.Kind("writeto")
			o.Emit("n=%d err=%s pos=%d fnv=%d", n, errClass(err), s.curPos(), fnv32(bb.Bytes()))
		case len(f) == 3 && f[0] == "seek":
			off, _ := strconv.ParseInt(f[1], 10, 64)
			wh := vh.Atoi(f[2])
			ret, err := s.dr.Seek(off, wh)
			s.seekd = true
			if s.ws {
				var target int64
				valid := true
				switch wh {
				case io.SeekStart:
					target = off
				case io.SeekCurrent:
					target = s.pos + off
				case io.SeekEnd:
					target = int64(len(s.content)) + off
				default:
					valid = false
				}
				switch {
				case !valid || target < 0:
					if err == nil {
						o.Fail("seek-accepted", "Seek(%d,%d) at %d should fail", off, wh, s.pos)
					}
					o.Kind("seek-rejected")
				case err != nil:
					o.Fail("seek-error", "Seek(%d,%d) at %d: %v", off, wh, s.pos, err)
				default:
					if ret != target {
						o.Fail("seek-offset", "Seek(%d,%d) at %d returned %d, want %d", off, wh, s.pos, ret, target)
					}
					if target > int64(len(s.content)) {
						o.Kind("seek-past-end")
					}
					s.pos = target
				}
			}
			o.Kind("seek")
			e := errClass(err)
			if e == "eof" {
				e = "err"
			}
			o.Emit("ret=%d err=%s pos=%d", ret, e, s.curPos())
		case len(f) == 3 && f[0] == "faults" && s.dr != nil:
			seed, _ := strconv.ParseUint(f[1], 10, 64)
			s.fl.seed, s.fl.pct = seed, vh.Atoi(f[2])
			o.Kind("faults")
			o.Emit("checked")
		case (f[0] == "fread" || f[0] == "fctxread" || f[0] == "fwriteto" || f[0] == "fseek" || f[0] == "fclose") && s.dr != nil:
			s.faultyOp(o, f)
			o.Emit("checked")
		case len(f) == 2 && f[0] == "openbad":
			openBad(o, f[1])
			o.Emit("checked")
		default:
			o.Emit("bad-op")
		}
		if s.dr != nil && s.checked() && !strings.HasPrefix(f[0], "f") && f[0] != "openbad" {
			if p := s.curPos(); p != s.pos {
				o.Fail("position", "after %q the reader is at %d, the byte reader at %d", f[0], p, s.pos)
				s.pos = p
			}
		}
	}
}

// faultyOp runs one call while fetches may fail (or after Close) and checks it against the fault-tolerant
// specification (theorem c09_refines_faulty): either the call answers like the byte-slice reader, or it reports
// an error and then a read/WriteTo has delivered a correct prefix and advanced by exactly that much, and a failed
// seek has left the reader at the start of the file. Only used on well-sized DAGs.
func (s *session) faultyOp(o *vh.Out, f []string) {
	s.fl.epoch++
	isFault := func(err error) bool {
		return err != nil && !errors.Is(err, io.EOF)
	}
	prefixOK := func(got []byte) bool {
		return s.pos+int64(len(got)) <= int64(len(s.content)) && bytes.Equal(got, s.content[s.pos:s.pos+int64(len(got))]) ||
			len(got) == 0
	}
	switch f[0] {
	case "fclose":
		s.dr.Close()
		o.Kind("closed")
	case "fread", "fctxread":
		k := vh.Atoi(f[1])
		buf := make([]byte, k)
		var n int
		var err error
		if f[0] == "fread" {
			n, err = s.dr.Read(buf)
		} else {
			n, err = s.dr.CtxReadFull(context.Background(), buf)
		}
		got := buf[:n]
		if isFault(err) {
			o.Kind("fault-read")
			if !prefixOK(got) {
				o.Fail("fault-read-bytes", "failed read at %d returned %d bytes that are not the file content there", s.pos, n)
			}
			s.pos += int64(n)
		} else {
			want := s.specRead(k)
			if !bytes.Equal(got, want) {
				o.Fail("read-bytes", "read %d at %d (fetch failures around): got %d bytes, want %d (or different content)", k, s.pos, n, len(want))
			}
			if k > 0 && len(want) < k && err == nil {
				o.Fail("read-eof-missing", "short read without EOF")
			}
			s.pos += int64(len(want))
		}
	case "fwriteto":
		var bb bytes.Buffer
		n, err := s.dr.WriteTo(&bb)
		if isFault(err) {
			o.Kind("fault-writeto")
			if !prefixOK(bb.Bytes()) || n != int64(bb.Len()) {
				o.Fail("fault-read-bytes", "failed WriteTo at %d wrote %d bytes that are not the file content there", s.pos, n)
			}
			s.pos += n
		} else {
			want := s.specRead(len(s.content) + 1)
			if !bytes.Equal(bb.Bytes(), want) {
				o.Fail("writeto", "WriteTo at %d: %d bytes, want %d", s.pos, n, len(want))
			}
			s.pos += int64(len(want))
		}
	case "fseek":
		off, _ := strconv.ParseInt(f[1], 10, 64)
		wh := vh.Atoi(f[2])
		var target int64
		switch wh {
		case io.SeekStart:
			target = off
		case io.SeekCurrent:
			target = s.pos + off
		default:
			wh = io.SeekEnd
			target = int64(len(s.content)) + off
		}
		ret, err := s.dr.Seek(off, wh)
		switch {
		case target < 0:
			if err == nil {
				o.Fail("seek-accepted", "negative target accepted")
			}
		case err != nil:
			o.Kind("fault-seek")
			if ret != 0 {
				o.Fail("fault-seek-offset", "failed Seek returned %d", ret)
			}
			s.pos = 0 // the reader must now be at the start of the file (checked by the reads that follow)
		default:
			if ret != target {
				o.Fail("seek-offset", "Seek returned %d, want %d", ret, target)
			}
			s.pos = target
		}
	}
	if p, err := s.dr.Seek(0, io.SeekCurrent); err == nil && p != s.pos {
		o.Fail("position", "after %q (fetch failures around) the reader is at %d, the byte reader at %d", f[0], p, s.pos)
		s.pos = p
	}
}

// openBad: NewDagReader on nodes that are not files.
func openBad(o *vh.Out, kind string) {
	ds := mdtest.Mock()
	mk := func(t pb.Data_DataType, links int) ipld.Node {
		fsn := ft.NewFSNode(t)
		b, _ := fsn.GetBytes()
		pn := dag.NodeWithData(b)
		for i := 0; i < links; i++ {
			c := dag.NodeWithData(func() []byte { x := ft.NewFSNode(ft.TFile); x.SetData([]byte{byte(i)}); b, _ := x.GetBytes(); return b }())
			ds.Add(ctx, c)
			pn.AddNodeLink("", c)
		}
		ds.Add(ctx, pn)
		return pn
	}
	var nd ipld.Node
	var want error
	wantOK := false
	switch kind {
	case "dir":
		nd, want = mk(ft.TDirectory, 0), uio.ErrIsDir
	case "hamt":
		nd, want = mk(ft.THAMTShard, 0), uio.ErrIsDir
	case "symlink":
		nd, want = mk(ft.TSymlink, 0), uio.ErrCantReadSymlinks
	case "meta":
		nd, wantOK = mk(ft.TMetadata, 1), true
	case "metabad":
		nd = mk(ft.TMetadata, 0)
	case "garbage":
		nd = dag.NodeWithData([]byte{0xff, 0xff, 0xff})
	}
	dr, err := uio.NewDagReader(ctx, nd, ds)
	switch {
	case wantOK && err != nil:
		o.Fail("open-meta", "metadata node with a file child: %v", err)
	case wantOK:
		b, _ := io.ReadAll(dr)
		if !bytes.Equal(b, []byte{0}) {
			o.Fail("open-meta", "metadata node: read %x", b)
		}
	case err == nil:
		o.Fail("open-accepted", "NewDagReader accepted a %s node", kind)
	case want != nil && !errors.Is(err, want):
		o.Fail("open-error-kind", "NewDagReader(%s) = %v, want %v", kind, err, want)
	}
	o.Kind("openbad-" + kind)
}

// ---------------------------------------------------------------- generator

func genTree(r *vh.Rand, depth int, perturb *bool) *tnode {
	if depth == 0 || r.Chance(1, 4) {
		n := r.Intn(7)
		if r.Chance(1, 5) {
			n = 0
		}
		return &tnode{kind: vh.Pick(r, []byte{'L', 'L', 'R', 'W'}), data: r.Bytes(n)}
	}
	t := &tnode{kind: 'N'}
	k := r.Intn(5)
	if r.Chance(1, 6) {
		k = 1
	}
	for i := 0; i < k; i++ {
		c := genTree(r, depth-1, perturb)
		sz := c.size()
		if *perturb && r.Chance(1, 4) {
			sz = uint64(int(sz) + r.Range(-int(min64(sz, 3)), 3))
		}
		t.kids = append(t.kids, c)
		t.sizes = append(t.sizes, sz)
		t.fs += sz
	}
	if *perturb && r.Chance(1, 4) {
		t.fs = uint64(int(t.fs) + r.Range(-int(min64(t.fs, 2)), 2))
	}
	if *perturb && k > 0 && r.Chance(1, 3) { // legacy shape: Data next to the links, counted in Filesize
		t.idata = r.Bytes(r.Range(1, 4))
		t.fs += uint64(len(t.idata))
	}
	return t
}

func min64(a uint64, b int) uint64 {
	if a < uint64(b) {
		return a
	}
	return uint64(b)
}

func genOps(r *vh.Rand, c *vh.Case, size, chunk int, n int) {
	for j := 0; j < n; j++ {
		switch r.Intn(10) {
		case 0, 1, 2, 3, 4:
			k := r.Intn(2*chunk + 2)
			switch r.Intn(8) {
			case 0:
				k = 0
			case 1:
				k = 1
			case 2:
				k = size + r.Range(-1, 2)
				if k < 0 {
					k = 0
				}
			}
			if r.Chance(1, 4) {
				// per-call context, then (often) straight into WriteTo / Read / Seek
				c.Ops = append(c.Ops, fmt.Sprintf("ctxreadfull %d", k))
				if r.Chance(1, 2) {
					c.Ops = append(c.Ops, vh.Pick(r, []string{"writeto", "writeto", fmt.Sprintf("read %d", size+2), fmt.Sprintf("seek %d 1", r.Range(1, 3))}))
				}
			} else {
				c.Ops = append(c.Ops, fmt.Sprintf("read %d", k))
			}
		case 5, 6, 7, 8:
			wh := vh.Pick(r, []int{0, 0, 1, 1, 2, 2, 3, 7})
			off := r.Range(-size-2, size+2)
			if r.Chance(1, 12) { // int64 edge: sums with dr.offset / Size() overflow
				c.Ops = append(c.Ops, fmt.Sprintf("seek %s %d", vh.Pick(r, []string{"9223372036854775807", "9223372036854775806", "-9223372036854775808", "4611686018427387904"}), vh.Pick(r, []int{0, 1, 2})))
				continue
			}
			switch wh {
			case 0:
				off = r.Range(-2, size+2)
			case 2:
				off = r.Range(-size-2, 2)
			case 1:
				off = r.Range(-size/2-2, size/2+2)
				if r.Chance(1, 5) {
					off = 0
				}
			}
			c.Ops = append(c.Ops, fmt.Sprintf("seek %d %d", off, wh))
		default:
			c.Ops = append(c.Ops, "writeto")
		}
	}
}

func joinInts(xs []int) string {
	if len(xs) == 0 {
		return "-"
	}
	ss := make([]string, len(xs))
	for i, x := range xs {
		ss[i] = strconv.Itoa(x)
	}
	return strings.Join(ss, ",")
}

func gen(r *vh.Rand, tier string, n int, emit func(vh.Case)) {
	for i := 0; i < n; i++ {
		cr := r.Fork()
		c := vh.Case{ID: strconv.Itoa(i)}
		rounds := 1
		if cr.Chance(1, 6) {
			rounds = 2
		}
		for k := 0; k < rounds; k++ {
			var t *tnode
			chunk := 4
			if cr.Chance(2, 5) {
				perturb := cr.Chance(1, 4)
				t = genTree(cr, cr.Range(0, 4), &perturb)
				if cr.Chance(1, 5) {
					c.Ops = append(c.Ops, fmt.Sprintf("tree %s attrs=%d:%d", t.String(), cr.Intn(0o1000), cr.Range(1, 2000000000)))
				} else {
					c.Ops = append(c.Ops, "tree "+t.String())
				}
			} else {
				layout := vh.Pick(cr, []string{"bal", "tri"})
				w := vh.Pick(cr, []int{2, 2, 3, 3, 4, 5, 8, 174})
				raw := cr.Bool()
				nch := cr.Intn(14)
				if cr.Chance(1, 8) {
					nch = cr.Range(14, 60)
				}
				if tier == "thorough" && cr.Chance(1, 10) {
					nch = cr.Range(60, 400)
				}
				chunk = cr.Range(1, 9)
				sizes := make([]int, nch)
				for j := range sizes {
					sizes[j] = chunk
					if cr.Chance(1, 3) {
						sizes[j] = cr.Range(1, chunk)
					}
				}
				var app []int
				if layout == "tri" && cr.Chance(1, 3) {
					app = make([]int, cr.Range(1, 12))
					for j := range app {
						app[j] = cr.Range(1, chunk)
					}
				}
				mods := "-"
				total := 0
				for _, x := range sizes {
					total += x
				}
				if cr.Chance(1, 4) {
					var ms []string
					for j, m := 0, cr.Range(1, 3); j < m; j++ {
						if cr.Chance(1, 4) {
							ms = append(ms, fmt.Sprintf("t%d", cr.Intn(total+1)))
						} else {
							ms = append(ms, fmt.Sprintf("w%d.%d", cr.Intn(total+1), cr.Range(1, 3*chunk)))
						}
					}
					mods = strings.Join(ms, ";")
				}
				seed := uint64(cr.Intn(1 << 30))
				rawf := "0"
				if raw {
					rawf = "1"
				}
				var root ipld.Node
				var ds ipld.DAGService
				var err error
				func() {
					defer func() {
						if rec := recover(); rec != nil {
							err = fmt.Errorf("panic: %v", rec)
						}
					}()
					ds, root, err = runImport(layout, w, raw, seed, sizes, app, mods)
				}()
				if err == nil {
					t = dumpDag(ds, root)
				}
				if mods != "-" && (err != nil || !t.wellSized()) {
					// a DagModifier error or inconsistent output is C10's business: fall back to the plain import
					mods = "-"
					ds, root, err = runImport(layout, w, raw, seed, sizes, app, mods)
					if err == nil {
						t = dumpDag(ds, root)
					}
				}
				if err != nil {
					continue
				}
				c.Ops = append(c.Ops, fmt.Sprintf("import %s %d %s %d %s %s %s %s", layout, w, rawf, seed, joinInts(sizes), joinInts(app), mods, t.String()))
			}
			if t.leaves() >= 8 && cr.Chance(1, 3) {
				// a short per-call-context read at the start of a multi-leaf file, then drain it
				c.Ops = append(c.Ops, fmt.Sprintf("ctxreadfull %d", cr.Range(1, chunk+1)), "writeto")
			}
			m := cr.Range(3, 30)
			if tier == "thorough" {
				m = cr.Range(3, 40)
			}
			genOps(cr, &c, len(t.content()), chunk, m)
			if k == rounds-1 && t.wellSized() && t.leaves() >= 2 && cr.Chance(1, 3) {
				// the rest of the case runs with failing fetches / a closed reader (Go-side monitor only)
				size := len(t.content())
				c.Ops = append(c.Ops, "fseek 0 0", fmt.Sprintf("faults %d %d", cr.Intn(1<<30), vh.Pick(cr, []int{15, 30, 60, 100})))
				for j, n := 0, cr.Range(4, 14); j < n; j++ {
					switch cr.Intn(9) {
					case 0, 1, 2:
						c.Ops = append(c.Ops, fmt.Sprintf("fread %d", cr.Intn(size+3)))
					case 3:
						c.Ops = append(c.Ops, fmt.Sprintf("fctxread %d", cr.Intn(size+3)))
					case 4, 5, 6:
						c.Ops = append(c.Ops, fmt.Sprintf("fseek %d %d", cr.Range(-1, size+1), vh.Pick(cr, []int{0, 0, 0, 1, 2})))
						if cr.Chance(1, 2) { // the classic: a failed Seek followed by Seek(0, SeekStart) and a read
							c.Ops = append(c.Ops, "fseek 0 0", fmt.Sprintf("fread %d", cr.Range(1, 6)))
						}
					case 7:
						c.Ops = append(c.Ops, "fwriteto")
					default:
						c.Ops = append(c.Ops, fmt.Sprintf("faults %d %d", cr.Intn(1<<30), vh.Pick(cr, []int{0, 0, 30, 100})))
					}
				}
				if cr.Chance(1, 3) {
					c.Ops = append(c.Ops, "faults 0 0", "fclose", fmt.Sprintf("fread %d", cr.Intn(size+2)), fmt.Sprintf("fctxread %d", cr.Intn(size+2)), "fseek 1 0", "fread 2")
				}
			}
		}
		if cr.Chance(1, 40) {
			c.Ops = append(c.Ops, "openbad "+vh.Pick(cr, []string{"dir", "hamt", "symlink", "meta", "metabad", "garbage"}))
		}
		emit(c)
	}
}

func main() { vh.Main(vh.Config{Gen: gen, Exec: exec}) }
