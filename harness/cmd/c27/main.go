// C27 harness: drives the real ipns.Validator.Select on real (and deliberately damaged) records.
package main

import (
	"bytes"
	"fmt"
	"math/big"
	"sort"
	"strconv"
	"strings"
	"time"

	"github.com/ipfs/boxo/ipns"
	ipns_pb "github.com/ipfs/boxo/ipns/pb"
	"github.com/ipfs/boxo/path"
	"github.com/ipld/go-ipld-prime/codec/dagcbor"
	"github.com/ipld/go-ipld-prime/datamodel"
	"github.com/ipld/go-ipld-prime/fluent/qp"
	basicnode "github.com/ipld/go-ipld-prime/node/basic"
	ic "github.com/libp2p/go-libp2p/core/crypto"
	"google.golang.org/protobuf/proto"

	"verifharness/vh"
)

type detReader struct{ r *vh.Rand }

func (d detReader) Read(p []byte) (int, error) { copy(p, d.r.Bytes(len(p))); return len(p), nil }

var keyCache = map[uint64]ic.PrivKey{}

func key(seed uint64) ic.PrivKey {
	if k, ok := keyCache[seed]; ok {
		return k
	}
	sk, _, err := ic.GenerateEd25519Key(detReader{vh.NewRand(seed)})
	if err != nil {
		panic(err)
	}
	keyCache[seed] = sk
	return sk
}

var values = []string{
	"/ipfs/bafkqaaa",
	"/ipfs/bafybeigdyrzt5sfp7udm7hu76uh7y26nf3efuylqabf3oclgtqy55fbzdi",
	"/ipfs/bafybeigdyrzt5sfp7udm7hu76uh7y26nf3efuylqabf3oclgtqy55fbzdi/a/b",
	"/ipns/k51qzi5uqu5dlvj2baxnqndepeb86cbk3ng7n3i46uzyxzyqj2xjonzllnv0v8",
}

var seqs = []uint64{0, 1, 1, 2, 2, 3, 7, 1<<63 - 1, 1 << 63, 1<<64 - 1}

// base expiry: 2100-01-01T00:00:00Z (always in the future for Validate)
var baseEOL = time.Date(2100, 1, 1, 0, 0, 0, 0, time.UTC)
var eolDeltas = []time.Duration{0, 0, 1, 1, 2, time.Second, time.Second + 1, time.Hour, -time.Hour}

func eolNs(t time.Time) string {
	x := new(big.Int).Mul(big.NewInt(t.Unix()), big.NewInt(1_000_000_000))
	x.Add(x, big.NewInt(int64(t.Nanosecond())))
	return x.String()
}

// customRecord builds a V2-only record with hand-made DAG-CBOR data, properly signed.
// kind selects what is wrong/unusual with the data.
func customRecord(sk ic.PrivKey, kind int, seq uint64, eol time.Time, val string) (raw []byte, seqS, eolS string) {
	validity := eol.UTC().Format(time.RFC3339Nano)
	seqS, eolS = strconv.FormatUint(seq, 10), eolNs(eol)
	nd, err := qp.BuildMap(basicnode.Prototype.Map, -1, func(ma datamodel.MapAssembler) {
		qp.MapEntry(ma, "TTL", qp.Int(0))
		qp.MapEntry(ma, "Value", qp.Bytes([]byte(val)))
		switch kind {
		case 0: // no Sequence
			seqS = "-"
		case 1: // Sequence is a string
			qp.MapEntry(ma, "Sequence", qp.String("7"))
			seqS = "-"
		default:
			qp.MapEntry(ma, "Sequence", qp.Int(int64(seq)))
		}
		switch kind {
		case 2: // no Validity
			eolS = "-"
		case 3: // unparsable Validity
			qp.MapEntry(ma, "Validity", qp.Bytes([]byte("tomorrow")))
			eolS = "-"
		case 4: // same instant written with a zone offset
			validity = eol.In(time.FixedZone("x", 2*3600)).Format(time.RFC3339Nano)
			qp.MapEntry(ma, "Validity", qp.Bytes([]byte(validity)))
		default:
			qp.MapEntry(ma, "Validity", qp.Bytes([]byte(validity)))
		}
		switch kind {
		case 5: // unknown validity type
			qp.MapEntry(ma, "ValidityType", qp.Int(1))
			eolS = "-"
		case 6: // no validity type
			eolS = "-"
		default:
			qp.MapEntry(ma, "ValidityType", qp.Int(0))
		}
	})
	if err != nil {
		panic(err)
	}
	var buf bytes.Buffer
	if err := dagcbor.Encode(nd, &buf); err != nil {
		panic(err)
	}
	sig, err := sk.Sign(append([]byte("ipns-signature:"), buf.Bytes()...))
	if err != nil {
		panic(err)
	}
	pb := ipns_pb.IpnsRecord{Data: buf.Bytes(), SignatureV2: sig}
	raw, err = proto.Marshal(&pb)
	if err != nil {
		panic(err)
	}
	return raw, seqS, eolS
}

func gen(r *vh.Rand, tier string, n int, emit func(vh.Case)) {
	// vh.NewRand(seed) streams of consecutive seeds are shifts of one another; re-seed from the
	// first (well mixed) output so that different seeds give unrelated cases.
	r = vh.NewRand(r.U64())
	for i := 0; i < n; i++ {
		cr := r.Fork()
		c := vh.Case{ID: strconv.Itoa(i)}
		sk := key(uint64(1 + cr.Intn(3)))
		maxPool := 6
		if tier == "thorough" {
			maxPool = 8
		}
		np := 1 + cr.Intn(maxPool)
		if cr.Chance(1, 40) {
			np = 0
		}
		// per-case narrowing so that keys collide often
		caseSeqs := []uint64{vh.Pick(cr, seqs), vh.Pick(cr, seqs), vh.Pick(cr, seqs)}
		caseEOLs := []time.Duration{vh.Pick(cr, eolDeltas), vh.Pick(cr, eolDeltas)}
		var lines []string
		dirty := cr.Chance(2, 5) // cases with unparsable / unreadable values
		for j := 0; j < np; j++ {
			if j > 0 && cr.Chance(1, 10) { // exact duplicate of an earlier value
				lines = append(lines, lines[cr.Intn(j)])
				continue
			}
			seq := vh.Pick(cr, caseSeqs)
			eol := baseEOL.Add(vh.Pick(cr, caseEOLs))
			val := vh.Pick(cr, values)
			k := cr.Intn(100)
			if !dirty {
				k = 99
			}
			switch {
			case k < 5: // does not unmarshal
				var b []byte
				switch cr.Intn(3) {
				case 0:
					b = cr.Bytes(1 + cr.Intn(40))
					b[0] = 0x0f // wire type 7: invalid
				case 1: // well-formed protobuf, no Data
					b, _ = proto.Marshal(&ipns_pb.IpnsRecord{Value: []byte(val), SignatureV2: []byte{1}})
				default: // Data is not CBOR
					b, _ = proto.Marshal(&ipns_pb.IpnsRecord{Data: []byte{0xff, 0x00}, SignatureV2: []byte{1}})
				}
				lines = append(lines, fmt.Sprintf("rec %s bad", vh.Hex(b)))
			case k < 20:
				kind := cr.Intn(8)
				raw, s, e := customRecord(sk, kind, seq, eol, val)
				lines = append(lines, fmt.Sprintf("rec %s 1 %s %s", vh.Hex(raw), s, e))
			default:
				p, err := path.NewPath(val)
				if err != nil {
					panic(err)
				}
				ttl := time.Duration(cr.Intn(3)) * time.Minute
				rec, err := ipns.NewRecord(sk, p, seq, eol, ttl, ipns.WithV1Compatibility(cr.Chance(2, 3)))
				if err != nil {
					panic(err)
				}
				raw, err := ipns.MarshalRecord(rec)
				if err != nil {
					panic(err)
				}
				v2 := "1"
				if m := cr.Intn(100); m < 22 {
					var pb ipns_pb.IpnsRecord
					if err := proto.Unmarshal(raw, &pb); err != nil {
						panic(err)
					}
					if m < 16 {
						pb.SignatureV2 = nil // V1-only record
						v2 = "0"
					} else {
						pb.SignatureV2 = []byte{} // present but empty: GetSignatureV2() != nil
					}
					raw, _ = proto.Marshal(&pb)
				}
				lines = append(lines, fmt.Sprintf("rec %s %s %d %s", vh.Hex(raw), v2, seq, eolNs(eol)))
			}
		}
		c.Ops = append(c.Ops, lines...)
		if np <= 6 {
			c.Ops = append(c.Ops, "perms")
		}
		for s, m := 0, 2+cr.Intn(4); s < m && np > 0; s++ {
			var idx []string
			switch cr.Intn(3) {
			case 0: // a permutation of the whole pool
				p := make([]int, np)
				for a := range p {
					p[a] = a
				}
				for a := np - 1; a > 0; a-- {
					b := cr.Intn(a + 1)
					p[a], p[b] = p[b], p[a]
				}
				for _, x := range p {
					idx = append(idx, strconv.Itoa(x))
				}
			default: // multiset with repetitions
				for a, l := 0, cr.Intn(9); a < l; a++ {
					idx = append(idx, strconv.Itoa(cr.Intn(np)))
				}
			}
			c.Ops = append(c.Ops, strings.TrimSpace("select "+strings.Join(idx, " ")))
		}
		emit(c)
	}
}

// what the monitor knows about a pool value, computed with the public accessors only
type info struct {
	raw      []byte
	ok       bool // unmarshals
	hasV2    bool
	seq      *uint64
	eol      *time.Time
	readable bool
}

// less is the property's order: (has v2 signature, sequence number, expiry), ties by record bytes.
func less(a, b *info) bool {
	if a.hasV2 != b.hasV2 {
		return !a.hasV2
	}
	if *a.seq != *b.seq {
		return *a.seq < *b.seq
	}
	if !a.eol.Equal(*b.eol) {
		return a.eol.Before(*b.eol)
	}
	return bytes.Compare(a.raw, b.raw) < 0
}

func exec(c vh.Case, o *vh.Out) {
	var pool []*info
	// multiset (sorted pool indices) -> bytes selected / "err", to check order independence directly
	seen := map[string]string{}
	runSelect := func(idxs []int) (int, error) {
		vals := make([][]byte, len(idxs))
		for i, x := range idxs {
			vals[i] = pool[x].raw
		}
		k, err := ipns.Validator{}.Select("", vals)
		// ---- monitor
		allReadable, allV2 := len(idxs) > 0, len(idxs) > 0
		for _, x := range idxs {
			if !pool[x].ok || !pool[x].readable {
				allReadable = false
			}
			if !pool[x].ok || !pool[x].hasV2 || pool[x].eol == nil {
				allV2 = false
			}
		}
		if allReadable {
			if err != nil {
				o.Fail("select-error-on-readable", "Select failed on readable records %v: %v", idxs, err)
			} else {
				for _, x := range idxs {
					if less(pool[idxs[k]], pool[x]) {
						o.Fail("not-maximal", "Select%v chose pool[%d], pool[%d] is better", idxs, idxs[k], x)
						break
					}
				}
			}
		}
		if allReadable || allV2 {
			s := append([]int(nil), idxs...)
			sort.Ints(s)
			mk := fmt.Sprint(s)
			res := "err"
			if err == nil {
				res = vh.Hex(vals[k])
			}
			if prev, ok := seen[mk]; ok && prev != res {
				o.Fail("order-dependent", "multiset %v selected different bytes in different orders", s)
			}
			seen[mk] = res
			if len(idxs) >= 2 {
				o.Nontrivial()
			}
		}
		if err != nil {
			o.Kind("select-err")
		}
		return k, err
	}
	for _, line := range c.Ops {
		f := strings.Fields(line)
		switch f[0] {
		case "rec":
			raw := vh.UnHex(f[1])
			in := &info{raw: raw}
			pool = append(pool, in)
			rec, err := ipns.UnmarshalRecord(raw)
			if err != nil {
				o.Kind("bad")
				o.Emit("bad")
				continue
			}
			in.ok = true
			var pb ipns_pb.IpnsRecord
			if err := proto.Unmarshal(raw, &pb); err != nil {
				panic(err)
			}
			in.hasV2 = pb.SignatureV2 != nil
			seqS, eolS := "-", "-"
			if s, err := rec.Sequence(); err == nil {
				in.seq = &s
				seqS = strconv.FormatUint(s, 10)
			} else {
				o.Kind("seq-unreadable")
			}
			if t, err := rec.Validity(); err == nil {
				in.eol = &t
				eolS = eolNs(t)
			} else {
				o.Kind("eol-unreadable")
			}
			in.readable = in.seq != nil && in.eol != nil
			v2 := "0"
			if in.hasV2 {
				v2 = "1"
				o.Kind("v2")
			} else {
				o.Kind("v1-only")
			}
			o.Emit("v2=%s seq=%s eol=%s", v2, seqS, eolS)
		case "select":
			var idxs []int
			for _, t := range f[1:] {
				idxs = append(idxs, vh.Atoi(t))
			}
			o.Kind(fmt.Sprintf("select-len%d", len(idxs)))
			k, err := runSelect(idxs)
			if err != nil {
				o.Emit("err")
			} else {
				o.Emit("ok %d", k)
			}
		case "perms":
			n := len(pool)
			p := make([]int, n)
			for i := range p {
				p[i] = i
			}
			outs := map[string]bool{}
			cnt := 0
			var rec func(k int)
			rec = func(k int) {
				if k == n {
					cnt++
					i, err := runSelect(p)
					if err != nil {
						outs["err"] = true
					} else {
						first := p[i]
						for q := range pool {
							if bytes.Equal(pool[q].raw, pool[p[i]].raw) {
								first = q
								break
							}
						}
						outs[fmt.Sprintf("b%d", first)] = true
					}
					return
				}
				for i := k; i < n; i++ {
					p[k], p[i] = p[i], p[k]
					rec(k + 1)
					p[k], p[i] = p[i], p[k]
				}
			}
			rec(0)
			var ks []string
			for k := range outs {
				ks = append(ks, k)
			}
			sort.Strings(ks)
			o.Kind(fmt.Sprintf("perms%d", n))
			if len(ks) > 1 {
				o.Kind("perms-order-dependent-unvalidated")
			}
			o.Emit("n=%d outcomes=%s", cnt, strings.Join(ks, ","))
		default:
			o.Emit("bad-op")
		}
	}
}

func main() { vh.Main(vh.Config{Gen: gen, Exec: exec}) }
